(* Tie between the monadic-mode transliteration (Gen/Kernels2.v, regenerated from the Go AST on
   every run) of gcs/gcs.go

     - readFullUint64 (method of Filter)  -> Kernels2.Filter_readFullUint64
     - the Golomb-Rice writer loop of BuildGCSFilter  -> Kernels2.BuildGCSFilter_golomb

   and the hand-written models Gcs.read_full / Gcs.encode (bit lists) and
   BStream.bs_read_full / BStream.bs_encode (the byte/offset machine of kkdai/bstream).

   The generated functions take the stream as an abstract type whose methods are parameters.
   Reader: a generic theorem over any stream with a bit-list [view] whose ReadBit / ReadBits
   behave like the canonical list reader through the view (Section Reader); the bit-list and
   the BStream.v readers are two instances.
   Writer: a generic theorem with NO hypothesis on the methods: the generated loop equals the
   structural recursion [g_encode] over the same abstract methods (Section Writer); with the
   bit-list writer [g_encode] is [bs ++ Gcs.encode ..], with the BStream.v writer it is
   [bs_encode].

   The generated functions are never restated: loop bodies are picked out of the goal by
   pattern and only their input/output behaviour is used. *)
From BU Require Import Lib.Bytes Lib.PolyMod Gen.Kernels2 Gcs.SipHash Gcs.Gcs Gcs.BStream
  Gcs.BStreamProofs Tie.TieTactics Tie.Kernels2Lib.
From Coq Require Import ZifyBool ZifyN ZifyNat.

Lemma whileM_unfold {S} fuel (cond : S -> bool) body s :
  Go.whileM fuel cond body s =
  if cond s then
    match fuel with
    | O => Panic 9
    | Datatypes.S f =>
        match body s with Ok s' => Go.whileM f cond body s' | Err e => Err e | Panic k => Panic k end
    end
  else Ok s.
Proof. destruct fuel; reflexivity. Qed.

Lemma Z_of_N_to_nat n : Z.to_nat (Z.of_N n) = N.to_nat n.
Proof. lia. Qed.

(* ====================================================================== *)
(*                               READER                                   *)
(* ====================================================================== *)

(* the canonical reader on a list of bits *)
Definition rd_bit (bs : list bool) : res (bool * list bool) :=
  match bs with [] => Err 1 | x :: t => Ok (x, t) end.

Definition rd_bits (bs : list bool) (n : Z) : res (N * list bool) :=
  match read_bits (Z.to_nat n) bs with Some r => Ok r | None => Err 1 end.

(* the error return site of readFullUint64 when the stream runs dry:
   1 = the first ReadBit (L531), 2 = a ReadBit inside the unary loop (L537),
   3 = ReadBits of the remainder (L544) *)
Definition read_full_site (bs : list bool) : N :=
  match bs with
  | [] => 1
  | _ :: _ => match read_unary bs 0 with None => 2 | Some _ => 3 end
  end.

Section Reader.
  Context {B : Type}.
  Variable view : B -> list bool.      (* the bits the stream still has to deliver *)
  Variable inv : B -> Prop.            (* representation invariant of the stream *)
  Variable RB : B -> res (bool * B).
  Variable RBs : B -> Z -> res (N * B).
  Variable P : N.

  (* ReadBit / ReadBits(P) behave like rd_bit / rd_bits through the view (the error value is
     irrelevant: the code only tests err != nil) *)
  Hypothesis RB_spec : forall s, inv s ->
    match view s with
    | [] => exists e, RB s = Err e
    | x :: t => exists s', RB s = Ok (x, s') /\ view s' = t /\ inv s'
    end.
  Hypothesis RBs_spec : forall s, inv s ->
    match read_bits (N.to_nat P) (view s) with
    | None => exists e, RBs s (Z.of_N P) = Err e
    | Some (v, t) => exists s', RBs s (Z.of_N P) = Ok (v, s') /\ view s' = t /\ inv s'
    end.

  Local Notation st := (N * bool * B)%type.

  Definition rd_cond_spec (cond : st -> bool) : Prop :=
    forall q c b, cond (q, c, b) = c.

  Definition rd_body_spec (body : st -> res st) : Prop :=
    forall q c b, body (q, c, b) =
      match RB b with
      | Panic k => Panic k
      | Err _ => Err 2
      | Ok (c', b') => Ok (w64 (q + 1), c', b')
      end.

  (* the unary loop `for c { quotient++; c, err = b.ReadBit() }`: c is the bit read last,
     b the stream after it *)
  Lemma unary_loop cond body :
    rd_cond_spec cond -> rd_body_spec body ->
    forall fuel q c b, inv b -> (S (length (view b)) <= fuel)%nat ->
      match read_unary (c :: view b) q with
      | None => Go.whileM fuel cond body (q, c, b) = Err 2
      | Some (q', t) =>
          exists b', Go.whileM fuel cond body (q, c, b) = Ok (q', false, b') /\ view b' = t /\ inv b'
      end.
  Proof using RB_spec.
    clear RBs_spec. clear RBs P. intros Hcond Hbody.
    induction fuel as [|fuel IH]; intros q c b Hi Hf; [lia|].
    rewrite whileM_unfold, Hcond. destruct c; cbn [read_unary].
    - rewrite Hbody. pose proof (RB_spec b Hi) as Hb.
      destruct (view b) as [|x t] eqn:Ev.
      + destruct Hb as [e ->]. reflexivity.
      + destruct Hb as (b' & -> & Hv' & Hi'). cbn [length] in Hf.
        specialize (IH (w64 (q + 1)) x b' Hi'). rewrite Hv' in IH. apply IH. lia.
    - exists b. auto.
  Qed.

  Theorem readFullUint64_generic fuel s :
    inv s -> (length (view s) <= fuel)%nat ->
    match read_full P (view s) with
    | Some (v, t) =>
        exists s', Kernels2.Filter_readFullUint64 fuel RB RBs P s = Ok (v, s') /\ view s' = t /\ inv s'
    | None => Kernels2.Filter_readFullUint64 fuel RB RBs P s = Err (read_full_site (view s))
    end.
  Proof using RB_spec RBs_spec.
    intros Hi Hf. unfold Kernels2.Filter_readFullUint64. cbv zeta.
    pose proof (RB_spec s Hi) as Hb.
    destruct (view s) as [|c t0] eqn:Ev.
    - destruct Hb as [e ->]. reflexivity.
    - destruct Hb as (b & -> & Hvb & Hib). cbv beta iota. subst t0.
      match goal with |- context [Go.whileM _ ?c ?bd _] => set (cond := c); set (body := bd) end.
      assert (Hcond : rd_cond_spec cond) by (intros ? ? ?; reflexivity).
      assert (Hbody : rd_body_spec body) by (intros ? ? ?; reflexivity).
      pose proof (unary_loop cond body Hcond Hbody fuel 0 c b Hib) as Hl.
      cbn [length] in Hf. specialize (Hl Hf).
      unfold read_full, read_full_site.
      destruct (read_unary (c :: view b) 0) as [[q t]|].
      + destruct Hl as (b' & -> & Hv' & Hi'). cbn [rbind].
        pose proof (RBs_spec b' Hi') as Hr. rewrite Hv' in Hr.
        destruct (read_bits (N.to_nat P) t) as [[r t']|].
        * destruct Hr as (s' & -> & Hv'' & Hi''). exists s'. auto.
        * destruct Hr as [e ->]. reflexivity.
      + rewrite Hl. reflexivity.
  Qed.
End Reader.

Print Assumptions readFullUint64_generic.

(* ---------- instance 1: the stream is the list of bits ---------- *)
Theorem readFullUint64_tie fuel P bs :
  (length bs <= fuel)%nat ->
  Kernels2.Filter_readFullUint64 fuel rd_bit rd_bits P bs =
  match read_full P bs with
  | Some (v, t) => Ok (v, t)
  | None => Err (read_full_site bs)
  end.
Proof.
  intros Hf.
  pose proof (readFullUint64_generic (fun bs : list bool => bs) (fun _ => True) rd_bit rd_bits P) as H.
  cbv beta in H.
  assert (H1 : forall s : list bool, True ->
     match s with
     | [] => exists e, rd_bit s = Err e
     | x :: t => exists s', rd_bit s = Ok (x, s') /\ s' = t /\ True
     end).
  { intros [|x t] _; cbn [rd_bit]; eauto. }
  assert (H2 : forall s : list bool, True ->
     match read_bits (N.to_nat P) s with
     | None => exists e, rd_bits s (Z.of_N P) = Err e
     | Some (v, t) => exists s', rd_bits s (Z.of_N P) = Ok (v, s') /\ s' = t /\ True
     end).
  { intros s _. unfold rd_bits. rewrite Z_of_N_to_nat.
    destruct (read_bits (N.to_nat P) s) as [[v t]|]; eauto. }
  specialize (H H1 H2 fuel bs I Hf).
  destruct (read_full P bs) as [[v t]|].
  - destruct H as (s' & -> & -> & _). reflexivity.
  - exact H.
Qed.

Print Assumptions readFullUint64_tie.

(* ====================================================================== *)
(*                               WRITER                                   *)
(* ====================================================================== *)

(* remainder and quotient of one delta, with the expressions of Gcs.delta_bits *)
Definition golomb_rem (P last v : N) : N :=
  N.land (sub64 v last) (sub64 (w64 (N.shiftl 1 P)) 1).

Definition golomb_quot (P last v : N) : N :=
  N.shiftr (sub64 (sub64 v last) (golomb_rem P last v)) P.

(* every unary run fits the fuel of the `for value > 0` loop *)
Fixpoint quots_fit (fuel : nat) (P last : N) (vals : list N) : Prop :=
  match vals with
  | [] => True
  | v :: t => (N.to_nat (golomb_quot P last v) <= fuel)%nat /\ quots_fit fuel P v t
  end.

Lemma golomb_quot_lt P last v : golomb_quot P last v < two64.
Proof.
  unfold golomb_quot. set (x := sub64 (sub64 v last) (golomb_rem P last v)).
  assert (Hx : x < two64) by (unfold x, sub64; apply N.mod_lt; discriminate).
  rewrite N.shiftr_div_pow2.
  apply N.le_lt_trans with x; [|exact Hx].
  apply N.div_le_upper_bound; [apply N.pow_nonzero; discriminate|].
  assert (1 <= 2 ^ P) by (pose proof (N.pow_nonzero 2 P ltac:(discriminate)); lia).
  nia.
Qed.

(* a fuel of 2^64 or more always suffices (never needed in practice: the quotient is at most
   (v - last) >> P) *)
Lemma quots_fit_big fuel P last vals : two64 <= N.of_nat fuel -> quots_fit fuel P last vals.
Proof.
  intros Hf. revert last; induction vals as [|v t IH]; intros last; cbn [quots_fit]; [exact I|].
  split; [|apply IH]. pose proof (golomb_quot_lt P last v). lia.
Qed.

(* closed form of the quotient, for every P (for P >= 64 the mask is all ones and both sides
   are 0): the unary run of a delta d is d / 2^P long *)
Lemma golomb_quot_eq P last v : golomb_quot P last v = sub64 v last / 2 ^ P.
Proof.
  unfold golomb_quot, golomb_rem. set (d := sub64 v last).
  assert (Hd : d < two64) by (apply N.mod_lt; discriminate).
  clearbody d. clear v last.
  rewrite N.shiftr_div_pow2, N.shiftl_1_l.
  assert (Hnz : 2 ^ P <> 0) by (apply N.pow_nonzero; discriminate).
  destruct (N.lt_ge_cases P 64) as [HP|HP].
  - assert (H2 : 2 ^ P < two64) by (change two64 with (2 ^ 64); apply N.pow_lt_mono_r; lia).
    unfold w64. rewrite (N.mod_small (2 ^ P)) by exact H2.
    assert (Em : sub64 (2 ^ P) 1 = N.ones P).
    { rewrite N.ones_equiv. unfold sub64. revert H2 Hnz. generalize (2 ^ P). unfold two64. intros; lia. }
    rewrite Em, N.land_ones.
    assert (Es : sub64 d (d mod 2 ^ P) = d / 2 ^ P * 2 ^ P).
    { unfold sub64. pose proof (N.div_mod d (2 ^ P) Hnz) as E. pose proof (N.mod_lt d (2 ^ P) Hnz) as L.
      rewrite (N.mul_comm (2 ^ P)) in E. revert E L Hd.
      generalize (d / 2 ^ P * 2 ^ P) (d mod 2 ^ P). unfold two64. intros; lia. }
    rewrite Es. apply N.div_mul. exact Hnz.
  - assert (H2 : two64 <= 2 ^ P) by (change two64 with (2 ^ 64); apply N.pow_le_mono_r; lia).
    assert (E0 : w64 (2 ^ P) = 0).
    { replace P with (P - 64 + 64) by lia. rewrite N.pow_add_r. change (2 ^ 64) with two64.
      unfold w64. apply N.mod_mul. discriminate. }
    rewrite E0. change (sub64 0 1) with (N.ones 64).
    rewrite N.land_ones. change (2 ^ 64) with two64. rewrite (N.mod_small d) by exact Hd.
    assert (Es : sub64 d d = 0).
    { unfold sub64. replace (d + two64 - d) with two64 by lia. apply N.mod_same. discriminate. }
    rewrite Es, N.div_0_l by exact Hnz. symmetry. apply N.div_small. lia.
Qed.

Section Writer.
  Context {B : Type}.
  Variable WB : B -> bool -> B.
  Variable WBs : B -> N -> Z -> B.

  Fixpoint g_write_ones (k : nat) (s : B) : B :=
    match k with O => s | S k' => g_write_ones k' (WB s true) end.

  (* the Golomb-Rice writer as a structural recursion over the abstract methods *)
  Fixpoint g_encode (P last : N) (vals : list N) (s : B) : B :=
    match vals with
    | [] => s
    | v :: t =>
        let s := g_write_ones (N.to_nat (golomb_quot P last v)) s in
        let s := WB s false in
        g_encode P v t (WBs s (golomb_rem P last v) (Z.of_N P))
    end.

  (* the loop `for value > 0 { b.WriteBit(true); value-- }` *)
  Lemma ones_loop (cond : B * N -> bool) (body : B * N -> res (B * N)) :
    (forall b v, cond (b, v) = (0 <? v)) ->
    (forall b v, body (b, v) = Ok (WB b true, w64 (v + two64 - 1))) ->
    forall n fuel b v, N.to_nat v = n -> (n <= fuel)%nat -> v < two64 ->
      Go.whileM fuel cond body (b, v) = Ok (g_write_ones n b, 0).
  Proof using WB.
    clear WBs. intros Hcond Hbody.
    induction n as [|n IH]; intros fuel b v Hn Hf Hv; rewrite whileM_unfold, Hcond.
    - replace v with 0 by lia. reflexivity.
    - replace (0 <? v) with true by lia. destruct fuel as [|fuel]; [lia|].
      rewrite Hbody. cbn [g_write_ones].
      assert (E : w64 (v + two64 - 1) = v - 1).
      { unfold w64. revert Hv. eval_term two64. intros Hv. lia. }
      rewrite E. apply IH; lia.
  Qed.

  Theorem golomb_generic fuel P values b :
    quots_fit fuel P 0 values ->
    Kernels2.BuildGCSFilter_golomb fuel WB WBs P values b = Ok (g_encode P 0 values b).
  Proof using WB WBs.
    intros Hfit. unfold Kernels2.BuildGCSFilter_golomb. cbv zeta.
    match goal with |- context [Go.foldM ?F0] => set (F := F0) end.
    assert (HF : forall rem val last b v, (N.to_nat (golomb_quot P last v) <= fuel)%nat ->
              F (rem, val, last, b) v =
              Ok (golomb_rem P last v, 0, v,
                  WBs (WB (g_write_ones (N.to_nat (golomb_quot P last v)) b) false)
                      (golomb_rem P last v) (Z.of_N P))).
    { intros rem val last b0 v Hq. unfold F. cbv beta iota.
      match goal with |- context [Go.whileM _ ?c ?bd (?b1, ?x)] =>
        set (cond := c); set (body := bd); change x with (golomb_quot P last v) end.
      rewrite (ones_loop cond body) with (n := N.to_nat (golomb_quot P last v));
        [reflexivity | intros; reflexivity | intros; reflexivity | reflexivity | exact Hq
        | apply golomb_quot_lt]. }
    assert (Hloop : forall vals rem val last b0, quots_fit fuel P last vals ->
              exists rem' val' last',
                Go.foldM F vals (rem, val, last, b0) = Ok (rem', val', last', g_encode P last vals b0)).
    { induction vals as [|v t IH]; intros rem val last b0 Hfit0.
      - cbn [Go.foldM g_encode]. do 3 eexists. reflexivity.
      - destruct Hfit0 as [Hq Hfit0]. cbn [Go.foldM g_encode]. rewrite HF by exact Hq.
        apply IH. exact Hfit0. }
    destruct (Hloop values 0 0 0 b Hfit) as (rem' & val' & last' & ->). reflexivity.
  Qed.
End Writer.

Print Assumptions golomb_generic.

(* ---------- instance 1: the stream is the list of the bits written so far ---------- *)
Definition wr_bit (bs : list bool) (x : bool) : list bool := bs ++ [x].
Definition wr_bits (bs : list bool) (v : N) (n : Z) : list bool := bs ++ bits_be (Z.to_nat n) v.

Lemma g_write_ones_list k bs : g_write_ones wr_bit k bs = bs ++ repeat true k.
Proof.
  revert bs; induction k as [|k IH]; intros bs; cbn [g_write_ones repeat]; [now rewrite app_nil_r|].
  rewrite IH. unfold wr_bit. rewrite <- app_assoc. reflexivity.
Qed.

Lemma g_encode_list P last vals bs :
  g_encode wr_bit wr_bits P last vals bs = bs ++ encode P last vals.
Proof.
  revert last bs; induction vals as [|v t IH]; intros last bs; cbn [g_encode encode];
    [now rewrite app_nil_r|].
  rewrite IH, g_write_ones_list. unfold wr_bits, wr_bit, delta_bits. rewrite Z_of_N_to_nat.
  fold (golomb_rem P last v). fold (golomb_quot P last v).
  rewrite <- !app_assoc. reflexivity.
Qed.

Theorem golomb_tie fuel P values bs :
  quots_fit fuel P 0 values ->
  Kernels2.BuildGCSFilter_golomb fuel wr_bit wr_bits P values bs = Ok (bs ++ encode P 0 values).
Proof. intros H. rewrite golomb_generic by exact H. now rewrite g_encode_list. Qed.

Print Assumptions golomb_tie.

(* ====================================================================== *)
(*        instances 2: the byte/offset machine of Gcs/BStream.v           *)
(* ====================================================================== *)

(* ---------- reader ---------- *)
Definition bsr_bit (s : rstate) : res (bool * rstate) :=
  match bs_read_bit s with Some r => Ok r | None => Err 1 end.

(* ReadBits(count int): the count arrives as int(f.p) *)
Definition bsr_bits (s : rstate) (n : Z) : res (N * rstate) :=
  match bs_read_bits (Z.to_N n) s with Some r => Ok r | None => Err 1 end.

(* through the bit-list view of BStreamProofs (bits_of_state, wf), from the generic theorem *)
Theorem readFullUint64_bstream_view fuel P s :
  wf s -> P <= 64 -> (length (bits_of_state s) <= fuel)%nat ->
  match read_full P (bits_of_state s) with
  | Some (v, t) =>
      exists s', Kernels2.Filter_readFullUint64 fuel bsr_bit bsr_bits P s = Ok (v, s') /\
                 bits_of_state s' = t /\ wf s'
  | None => Kernels2.Filter_readFullUint64 fuel bsr_bit bsr_bits P s = Err (read_full_site (bits_of_state s))
  end.
Proof.
  intros Hwf HP Hf.
  apply (readFullUint64_generic bits_of_state wf bsr_bit bsr_bits P); [| |exact Hwf|exact Hf].
  - intros s0 Hwf0. pose proof (bs_read_bit_spec s0 Hwf0) as H. unfold bsr_bit.
    destruct (bits_of_state s0) as [|x t].
    + rewrite H. eauto.
    + destruct H as (s' & -> & Hv & Hw). eauto.
  - intros s0 Hwf0. pose proof (bs_read_bits_spec P s0 Hwf0 HP) as H. cbv zeta in H.
    unfold bsr_bits. rewrite N2Z.id.
    destruct (read_bits (N.to_nat P) (bits_of_state s0)) as [[v t]|].
    + destruct H as (s' & -> & Hv & Hw). eauto.
    + rewrite H. eauto.
Qed.

Print Assumptions readFullUint64_bstream_view.

(* the generated unary loop against bs_read_unary, state for state (no invariant needed when
   the model finds the terminating 0 bit within its fuel) *)
Lemma bs_unary_while cond body :
  rd_cond_spec (B := rstate) cond -> rd_body_spec bsr_bit body ->
  forall k fuel s q c b q' s1, (k <= fuel)%nat ->
    bs_read_bit s = Some (c, b) -> bs_read_unary (S k) s q = Some (q', s1) ->
    Go.whileM fuel cond body (q, c, b) = Ok (q', false, s1).
Proof.
  intros Hcond Hbody.
  induction k as [|k IH]; intros fuel s q c b q' s1 Hf Hb Hu;
    rewrite whileM_unfold, Hcond; pose proof Hu as Hu0; cbn [bs_read_unary] in Hu; rewrite Hb in Hu;
    destruct c; try (injection Hu as <- <-; reflexivity); try discriminate.
  destruct fuel as [|fuel]; [lia|]. rewrite Hbody. unfold bsr_bit.
  cbn [bs_read_unary] in Hu. destruct (bs_read_bit b) as [[c' b']|] eqn:Eb; [|discriminate].
  apply (IH fuel b (w64 (q + 1)) c' b' q' s1); [lia | exact Eb |].
  cbn [bs_read_unary]. rewrite Eb. exact Hu.
Qed.

(* equation with bs_read_full (whose own fuel is S (bs_bits_left s)) *)
Theorem readFullUint64_bstream_tie fuel P s :
  wf s -> P <= 64 -> (bs_bits_left s <= fuel)%nat ->
  Kernels2.Filter_readFullUint64 fuel bsr_bit bsr_bits P s =
  match bs_read_full P s with
  | Some (v, s') => Ok (v, s')
  | None => Err (read_full_site (bits_of_state s))
  end.
Proof.
  intros Hwf HP Hf.
  destruct (bs_read_full P s) as [[v s2]|] eqn:Efull.
  - unfold bs_read_full in Efull.
    destruct (bs_read_unary (S (bs_bits_left s)) s 0) as [[q s1]|] eqn:Eu; [|discriminate].
    destruct (bs_read_bits P s1) as [[r s2']|] eqn:Er; [|discriminate].
    injection Efull as <- <-.
    pose proof Eu as Eu0. cbn [bs_read_unary] in Eu0.
    destruct (bs_read_bit s) as [[c b]|] eqn:Eb; [|discriminate]. clear Eu0.
    assert (Hb : bsr_bit s = Ok (c, b)) by (unfold bsr_bit; now rewrite Eb).
    unfold Kernels2.Filter_readFullUint64. cbv zeta. rewrite Hb. cbv beta iota.
    match goal with |- context [Go.whileM _ ?c0 ?bd _] => set (cond := c0); set (body := bd) end.
    rewrite (bs_unary_while cond body) with (k := bs_bits_left s) (s := s) (q' := q) (s1 := s1);
      [| intros ? ? ?; reflexivity | intros ? ? ?; reflexivity | exact Hf | exact Eb | exact Eu].
    cbn [rbind]. unfold bsr_bits. rewrite N2Z.id, Er. reflexivity.
  - pose proof (bs_read_full_spec P s Hwf HP) as Hs.
    pose proof (readFullUint64_bstream_view fuel P s Hwf HP) as Hv.
    pose proof (bits_of_state_length s Hwf) as Hl.
    specialize (Hv ltac:(lia)).
    destruct (read_full P (bits_of_state s)) as [[d rest]|].
    + destruct Hs as (s' & Hs & _). rewrite Hs in Efull. discriminate.
    + exact Hv.
Qed.

Print Assumptions readFullUint64_bstream_tie.

(* ---------- writer ---------- *)
(* WriteBits(data uint64, count int): the count arrives as int(f.p) *)
Definition bsw_bits (s : wstate) (v : N) (n : Z) : wstate := bs_write_bits s v (Z.to_N n).

Lemma g_write_ones_bs k s : g_write_ones bs_write_bit k s = bs_write_ones k s.
Proof. revert s; induction k as [|k IH]; intros s; cbn [g_write_ones bs_write_ones]; auto. Qed.

Lemma g_encode_bs P last vals s :
  g_encode bs_write_bit bsw_bits P last vals s = bs_encode P last vals s.
Proof.
  revert last s; induction vals as [|v t IH]; intros last s; cbn [g_encode bs_encode]; [reflexivity|].
  cbv zeta. rewrite IH, g_write_ones_bs. unfold bsw_bits. rewrite N2Z.id. reflexivity.
Qed.

Theorem golomb_bstream_tie fuel P values s :
  quots_fit fuel P 0 values ->
  Kernels2.BuildGCSFilter_golomb fuel bs_write_bit bsw_bits P values s = Ok (bs_encode P 0 values s).
Proof. intros H. rewrite golomb_generic by exact H. now rewrite g_encode_bs. Qed.

Print Assumptions golomb_bstream_tie.

(* ---------- sanity: the hypotheses are satisfiable and the ties compute ---------- *)
Example golomb_example :
  quots_fit 5 2 0 [5; 9; 30] /\
  Kernels2.BuildGCSFilter_golomb 5 wr_bit wr_bits 2 [5; 9; 30] [] = Ok (encode 2 0 [5; 9; 30]).
Proof. split; [cbn [quots_fit]; repeat split; apply Nat.leb_le; reflexivity | reflexivity]. Qed.

Example readFull_example :
  let bs := encode 2 0 [5; 9; 30] in
  Kernels2.Filter_readFullUint64 (length bs) rd_bit rd_bits 2 bs = Ok (5, encode 2 5 [9; 30]) /\
  Kernels2.Filter_readFullUint64 3 rd_bit rd_bits 2 [] = Err 1 /\
  Kernels2.Filter_readFullUint64 3 rd_bit rd_bits 2 [true; true] = Err 2 /\
  Kernels2.Filter_readFullUint64 3 rd_bit rd_bits 2 [true; false; true] = Err 3.
Proof. vm_compute. repeat split. Qed.

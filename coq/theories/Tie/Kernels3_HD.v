(* Tie between the generated hdkeychain functions (Gen/Kernels3.v, translated from
   hdkeychain/extendedkey.go) and the model HD/HD.v: NewExtendedKey, IsPrivate, Depth,
   ParentFingerprint, IsForNet, SetNet, zero, Zero, pubKeyBytes, String, NewMaster, Neuter,
   NewKeyFromString, Child.
   (Neuter_tie: an earlier translator inlined the three calls of the function literal `clone` with one shared
   binder; stating this tie exposed it, the translator was corrected and a self-test added.)

   Instantiation (from the model's Section variables point, hmac512, point_of_scalar, padd, pzero,
   ser_point, parse_point, hash160, dsha):
     Int_t := N + point      a big.Int is a scalar (inl v) or "a coordinate of the point P" (inr P): both
                             coordinates of a point are represented by the point itself, so that
                             (X, Y) -> PublicKey{X, Y} -> (X, Y) round-trips and
                             x.Sign() == 0 || y.Sign() == 0 is pzero P
     KoblitzCurve_t := unit  S256().N = inl secp_nN, ScalarBaseMult b = (inr P, inr P), P = point_of_scalar (scalar_of b)
     PublicKey_t := point    SerializeCompressed = ser_point, ParsePubKey = parse_point (error value 1)
     Hash_t := key * data    hmac.New(sha512.New, k) = (k, []), Write appends, Sum(b) = b ++ hmac512 k d
     base58.Encode / Decode := Base58.encode / decode, DoubleHashB := dsha, Hash160 := hash160,
     chaincfg.HDPrivateKeyToPublicKeyID := the table Gen.Nets.hd_priv_to_pub (error value 1). *)
From BU Require Import Lib.Bytes Lib.Radix Lib.PolyMod Base58.Base58 Gen.Xhdkeychain Gen.Nets HD.HD HD.HDLemmas
  Gen.Kernels2 Gen.Kernels3 Tie.Kernels2Lib Tie.Kernels3Lib Tie.Kernels2_Misc.
From Coq Require Import ZifyBool ZifyN ZifyNat.

Notation EK := Kernels3.hdkeychain_ExtendedKey.
Notation ek_key := Kernels3.hdkeychain_ExtendedKey_key.
Notation ek_pub := Kernels3.hdkeychain_ExtendedKey_pubKey.
Notation ek_chain := Kernels3.hdkeychain_ExtendedKey_chainCode.
Notation ek_depth := Kernels3.hdkeychain_ExtendedKey_depth.
Notation ek_fp := Kernels3.hdkeychain_ExtendedKey_parentFP.
Notation ek_childnum := Kernels3.hdkeychain_ExtendedKey_childNum.
Notation ek_version := Kernels3.hdkeychain_ExtendedKey_version.
Notation ek_priv := Kernels3.hdkeychain_ExtendedKey_isPrivate.
Notation mk_EK := Kernels3.mk_hdkeychain_ExtendedKey.

(* the abstraction function: forget the memo field pubKey *)
Definition abs (k : EK) : xkey :=
  mk_xkey (ek_version k) (ek_key k) (ek_chain k) (ek_fp k) (ek_depth k) (ek_childnum k) (ek_priv k).
(* a model key with a given memo *)
Definition conc (x : xkey) (memo : list N) : EK :=
  mk_EK (xk_key x) memo (xk_chain x) (xk_depth x) (xk_fp x) (xk_childnum x) (xk_version x) (xk_priv x).

Lemma abs_conc x memo : abs (conc x memo) = x.
Proof. destruct x; reflexivity. Qed.
Lemma conc_abs k : conc (abs k) (ek_pub k) = k.
Proof. destruct k; reflexivity. Qed.

(* *chaincfg.Params seen as a model network *)
Definition net_of (p : Kernels3.chaincfg_Params) : net :=
  {| net_name := Kernels3.chaincfg_Params_Name p;
     cash_prefix := Kernels3.chaincfg_Params_CashAddressPrefix p;
     slp_prefix := Kernels3.chaincfg_Params_SlpAddressPrefix p;
     pkh_id := Kernels3.chaincfg_Params_LegacyPubKeyHashAddrID p;
     sh_id := Kernels3.chaincfg_Params_LegacyScriptHashAddrID p;
     wif_id := Kernels3.chaincfg_Params_PrivateKeyID p;
     hd_priv_id := Kernels3.chaincfg_Params_HDPrivateKeyID p;
     hd_pub_id := Kernels3.chaincfg_Params_HDPublicKeyID p |}.

(* ---------- functions that use no dependency ---------- *)
Theorem NewExtendedKey_tie version key chainCode parentFP depth childNum isPrivate :
  Kernels3.NewExtendedKey version key chainCode parentFP depth childNum isPrivate
  = Some (conc (mk_xkey version key chainCode parentFP depth childNum isPrivate) []).
Proof. reflexivity. Qed.
Print Assumptions NewExtendedKey_tie.

Theorem IsPrivate_tie k : Kernels3.ExtendedKey_IsPrivate k = xk_priv (abs k).
Proof. reflexivity. Qed.
Print Assumptions IsPrivate_tie.

Theorem Depth_tie k : Kernels3.ExtendedKey_Depth k = xk_depth (abs k).
Proof. reflexivity. Qed.
Print Assumptions Depth_tie.

(* domain: the fingerprint has 4 bytes (every constructor of the package makes it so) *)
Theorem ParentFingerprint_tie k : length (ek_fp k) = 4%nat ->
  Kernels3.ExtendedKey_ParentFingerprint k = Ok (parent_fingerprint (abs k)).
Proof.
  intros H. unfold Kernels3.ExtendedKey_ParentFingerprint, parent_fingerprint, abs. cbn [xk_fp].
  destruct (ek_fp k) as [|b0 [|b1 [|b2 [|b3 [|b4 t]]]]]; try discriminate H.
  cbn [Go3.be_uint32 rbind be_value]. do 2 f_equal.
Qed.
Print Assumptions ParentFingerprint_tie.

(* outside: a shorter fingerprint (NewExtendedKey accepts any) is an index panic of binary.BigEndian.Uint32,
   where the model has a value *)
Theorem ParentFingerprint_short k : (length (ek_fp k) < 4)%nat ->
  Kernels3.ExtendedKey_ParentFingerprint k = Panic 1.
Proof.
  intros H. unfold Kernels3.ExtendedKey_ParentFingerprint.
  destruct (ek_fp k) as [|b0 [|b1 [|b2 [|b3 t]]]]; try reflexivity. cbn [length] in H. lia.
Qed.
Print Assumptions ParentFingerprint_short.

Theorem IsForNet_tie k p :
  Kernels3.ExtendedKey_IsForNet k (Some p) = Ok (is_for_net (abs k) (net_of p)).
Proof.
  unfold Kernels3.ExtendedKey_IsForNet, is_for_net, abs, net_of, Go3.bytes_equal.
  cbn [Go3.deref rbind xk_version hd_priv_id hd_pub_id].
  destruct (list_eqb _ _); reflexivity.
Qed.
Print Assumptions IsForNet_tie.

Theorem IsForNet_nil k : Kernels3.ExtendedKey_IsForNet k None = Panic 5.
Proof. reflexivity. Qed.
Print Assumptions IsForNet_nil.

Theorem SetNet_tie k p :
  Kernels3.ExtendedKey_SetNet k (Some p) = Ok (conc (set_net (abs k) (net_of p)) (ek_pub k)).
Proof.
  unfold Kernels3.ExtendedKey_SetNet, set_net, abs, net_of, conc.
  cbn [Go3.deref rbind xk_version xk_key xk_chain xk_fp xk_depth xk_childnum xk_priv hd_priv_id hd_pub_id].
  destruct k as [key pub cc d fp cn v pr]. cbn. destruct pr; reflexivity.
Qed.
Print Assumptions SetNet_tie.

Theorem SetNet_nil k : Kernels3.ExtendedKey_SetNet k None = Panic 5.
Proof. unfold Kernels3.ExtendedKey_SetNet. destruct (ek_priv k); reflexivity. Qed.
Print Assumptions SetNet_nil.

(* zero(b): every element is overwritten with 0 *)
Lemma zero_loop (suf : list N) : forall pre,
  Go.foldM (fun b i => do b <- Go.upd b i 0 ;; Ok b) (Go.zseq (Z.of_nat (length pre)) (length suf)) (pre ++ suf)
  = Ok (pre ++ repeat 0 (length suf)).
Proof.
  induction suf as [|x suf IH]; intros pre.
  - reflexivity.
  - cbn [length Go.zseq Go.foldM repeat]. rewrite upd_mid. cbn [rbind].
    replace (pre ++ 0 :: suf) with ((pre ++ [0]) ++ suf) by (now rewrite <- app_assoc).
    replace (Z.of_nat (length pre) + 1)%Z with (Z.of_nat (length (pre ++ [0])))
      by (rewrite app_length; cbn [length]; lia).
    rewrite IH. now rewrite <- app_assoc.
Qed.

Theorem zero_tie b : Kernels3.hdkeychain_zero b = Ok (repeat 0 (length b)).
Proof.
  unfold Kernels3.hdkeychain_zero. rewrite Nat2Z.id.
  pose proof (zero_loop b []) as H. cbn [length app] in H. change (Z.of_nat 0) with 0%Z in H.
  rewrite H. reflexivity.
Qed.
Print Assumptions zero_tie.

(* Zero: the four buffers are overwritten with zeros (key, pubKey, chainCode, parentFP), then version and key
   become nil and depth, childNum, isPrivate their zero values.  HD.v has no function for Zero (its memory
   side is C15's subject, HDHeap); what the model says about the result is that String() prints the
   "zeroed extended key" text, see Zero_String below. *)
Theorem Zero_tie k :
  Kernels3.ExtendedKey_Zero k
  = Ok (mk_EK [] (repeat 0 (length (ek_pub k))) (repeat 0 (length (ek_chain k))) 0
              (repeat 0 (length (ek_fp k))) 0 [] false).
Proof.
  unfold Kernels3.ExtendedKey_Zero. destruct k as [key pub cc d fp cn v pr].
  repeat (cbn [ek_key ek_pub ek_chain ek_fp Kernels3.set_hdkeychain_ExtendedKey_key
               Kernels3.set_hdkeychain_ExtendedKey_pubKey Kernels3.set_hdkeychain_ExtendedKey_chainCode
               Kernels3.set_hdkeychain_ExtendedKey_parentFP];
          rewrite zero_tie; cbn [rbind]).
  reflexivity.
Qed.
Print Assumptions Zero_tie.

(* ================= functions that use dependencies ================= *)
Section HDTie.
Variable point : Type.
Variable hmac512 : list N -> list N -> list N.
Variable point_of_scalar : Z -> point.
Variable padd : point -> point -> point.
Variable pzero : point -> bool.
Variable ser_point : point -> list N.
Variable parse_point : list N -> res point.
Variable hash160 : list N -> list N.
Variable dsha : list N -> list N.

(* ---------- the instantiation ---------- *)
Definition Int_t : Type := (N + point)%type.
Definition i_new : Int_t := inl 0.
Definition i_SetBytes (_ : Int_t) (b : list N) : Int_t := inl (set_bytes b).
Definition i_Bytes (x : Int_t) : list N := match x with inl v => big_bytes v | inr _ => [] end.
Definition i_Cmp (x y : Int_t) : Z :=
  match x, y with
  | inl a, inl b => match N.compare a b with Lt => (-1)%Z | Eq => 0%Z | Gt => 1%Z end
  | _, _ => 0%Z
  end.
Definition i_Sign (x : Int_t) : Z :=
  match x with
  | inl v => if v =? 0 then 0%Z else 1%Z
  | inr P => if pzero P then 0%Z else 1%Z
  end.
Definition i_Add (_ x y : Int_t) : Int_t * Int_t :=
  match x, y with inl a, inl b => (inl (a + b), inl (a + b)) | _, _ => (x, x) end.
Definition i_Mod (_ x y : Int_t) : Int_t * Int_t :=
  match x, y with inl a, inl b => (inl (a mod b), inl (a mod b)) | _, _ => (x, x) end.
Definition c_N (_ : unit) : Int_t := inl secp_nN.
Definition c_ScalarBaseMult (_ : unit) (b : list N) : Int_t * Int_t :=
  let P := point_of_scalar (scalar_of b) in (inr P, inr P).
Definition c_Add (_ : unit) (x1 y1 x2 y2 : Int_t) : Int_t * Int_t :=
  match x1, x2 with inr P, inr Q => (inr (padd P Q), inr (padd P Q)) | _, _ => (x1, y1) end.
Definition pk_of_X_Y (x y : Int_t) : point := match x with inr P => P | inl _ => point_of_scalar 0 end.
Definition pk_X (P : point) : Int_t := inr P.
Definition pk_Y (P : point) : Int_t := inr P.
(* bchec.ParsePubKey: the error value is 1 (not a package-level error of the translation) *)
Definition parse_pk (b : list N) (_ : unit) : point * N :=
  match parse_point b with Ok P => (P, 0) | _ => (point_of_scalar 0, 1) end.
Definition Hash_t : Type := (list N * list N)%type.
Definition h_new (k : list N) : Hash_t := (k, []).
Definition h_write (h : Hash_t) (b : list N) : Z * N * Hash_t := (Z.of_nat (length b), 0, (fst h, snd h ++ b)).
Definition h_sum (h : Hash_t) (b : list N) : list N := b ++ hmac512 (fst h) (snd h).
(* chaincfg.HDPrivateKeyToPublicKeyID: ErrUnknownHDKeyID is error value 1 *)
Definition priv_to_pub (v : list N) : list N * N :=
  match priv_to_pub_id v with Ok p => (p, 0) | _ => ([], 1) end.

Notation m_pub := (pubkey_bytes point point_of_scalar ser_point).
Notation m_child := (child point hmac512 point_of_scalar padd pzero ser_point parse_point hash160).
Notation m_neuter := (neuter point point_of_scalar ser_point).
Notation m_string := (to_string point point_of_scalar ser_point dsha).
Notation m_payload := (payload point point_of_scalar ser_point).
Notation m_parse := (parse point parse_point dsha).

Definition gPub := Kernels3.ExtendedKey_pubKeyBytes unit point Int_t tt ser_point c_ScalarBaseMult pk_of_X_Y.
Definition gString := Kernels3.ExtendedKey_String unit point Int_t Base58.encode dsha tt ser_point c_ScalarBaseMult pk_of_X_Y.
Definition gNewMaster := Kernels3.NewMaster unit Int_t Hash_t tt h_new h_write h_sum i_new i_SetBytes c_N i_Cmp i_Sign.
Definition gNeuter := Kernels3.ExtendedKey_Neuter unit point Int_t tt ser_point c_ScalarBaseMult pk_of_X_Y priv_to_pub.
Definition gParse := Kernels3.NewKeyFromString unit point Int_t Base58.decode dsha tt parse_pk i_new i_SetBytes c_N i_Cmp i_Sign.
(* (phase 5) a parsed point is never a nil *bchec.PublicKey: PublicKey_isnil := fun _ => false *)
Definition gChild := Kernels3.ExtendedKey_Child unit point Int_t Hash_t tt i_Bytes ser_point parse_pk (fun _ => false) hash160
  c_ScalarBaseMult pk_of_X_Y h_new h_write h_sum i_new i_SetBytes c_N i_Cmp i_Sign i_Add i_Mod pk_X pk_Y c_Add.

(* ---------- the memo field ---------- *)
(* invariant: the memo of a PRIVATE key is empty or holds the serialised public key (a public key never reads it) *)
Definition memo_ok (k : EK) : Prop :=
  ek_priv k = true -> ek_pub k = [] \/ ek_pub k = ser_point (point_of_scalar (scalar_of (ek_key k))).
(* the key after pubKeyBytes(): the memo of a private key is filled *)
Definition fill_memo (k : EK) : EK :=
  if ek_priv k then Kernels3.set_hdkeychain_ExtendedKey_pubKey k (m_pub (abs k)) else k.

Lemma abs_fill_memo k : abs (fill_memo k) = abs k.
Proof. unfold fill_memo. destruct k as [key pub cc d fp cn v pr]. destruct pr; reflexivity. Qed.

Lemma memo_ok_fill_memo k : memo_ok (fill_memo k).
Proof.
  unfold memo_ok, fill_memo. destruct k as [key pub cc d fp cn v pr]. destruct pr; cbn; intros H; [|discriminate].
  right. reflexivity.
Qed.

Lemma fill_memo_idem k : fill_memo (fill_memo k) = fill_memo k.
Proof. unfold fill_memo. destruct k as [key pub cc d fp cn v pr]. destruct pr; reflexivity. Qed.

Lemma memo_ok_new x : memo_ok (conc x []).
Proof. intros _. left. reflexivity. Qed.

(* pubKeyBytes: the model's value; the receiver afterwards is [fill_memo k].
   Domain: memo_ok k. *)
Theorem pubKeyBytes_tie k : memo_ok k -> gPub k = (m_pub (abs k), fill_memo k).
Proof.
  intros Hm. unfold gPub, Kernels3.ExtendedKey_pubKeyBytes, fill_memo, pubkey_bytes, memo_ok in *.
  destruct k as [key pub cc d fp cn v pr]. cbn in *.
  destruct pr; cbn [negb]; [|reflexivity].
  destruct (Hm eq_refl) as [E|E]; subst pub.
  - cbn. reflexivity.
  - destruct (Z.eqb_spec (Z.of_nat (length (ser_point (point_of_scalar (scalar_of key))))) 0); cbn; reflexivity.
Qed.

Corollary pubKeyBytes_state k : memo_ok k ->
  abs (snd (gPub k)) = abs k /\ memo_ok (snd (gPub k)).
Proof.
  intros Hm. rewrite pubKeyBytes_tie by assumption. cbn [snd]. split; [apply abs_fill_memo|apply memo_ok_fill_memo].
Qed.

(* ---------- String ---------- *)
Lemma put_be32_4 v : Go3.put_be32 (repeat 0 4) 0%Z v = Ok (be_bytes 4 v).
Proof.
  unfold Go3.put_be32. cbn [repeat length]. cbn [Z.of_nat Z.ltb Z.compare orb Z.sub Z.opp Z.add Z.to_nat firstn skipn app].
  change (Z.of_nat 4 <? 0)%Z with false. change (Z.of_nat 4 - 0 <? 4)%Z with false. cbn [orb firstn skipn app Nat.add].
  f_equal. unfold be_bytes. cbn [le_bytes rev app].
  rewrite !N.div_div by lia. reflexivity.
Qed.

(* Domain: DoubleHashB returns at least 4 bytes (it returns 32).  The receiver is unchanged: pubKeyBytes is
   called only for a public key. *)
Theorem String_tie k : (forall m, (4 <= length (dsha m))%nat) ->
  gString k = Ok (m_string (abs k), k).
Proof.
  intros Hd. unfold gString, Kernels3.ExtendedKey_String, to_string.
  change (LS 0) with 0%nat.
  replace (length (xk_key (abs k)) =? 0)%nat with (Z.of_nat (length (ek_key k)) =? 0)%Z
    by (unfold abs; cbn [xk_key]; destruct (Z.eqb_spec (Z.of_nat (length (ek_key k))) 0), (Nat.eqb_spec (length (ek_key k)) 0); lia).
  destruct (Z.of_nat (length (ek_key k)) =? 0)%Z; [reflexivity|].
  rewrite put_be32_4. cbn [rbind].
  unfold payload, pubkey_bytes, abs, Kernels3.ExtendedKey_pubKeyBytes.
  cbn [xk_version xk_depth xk_fp xk_childnum xk_chain xk_priv xk_key].
  change (LS 1) with 4%nat. change (LS 5) with 32%nat. change (N.of_nat (LS 4)) with 0.
  unfold cks4. change (LS 6) with 4%nat.
  destruct (ek_priv k); cbn [negb].
  - rewrite hdkeychain_paddedAppend_tie by (vm_compute; reflexivity).
    change (N.to_nat 32) with 32%nat. unfold padded_append.
    change 4%Z with (Z.of_nat 4). rewrite slice_prefix by apply Hd. cbn [rbind].
    rewrite <- !app_assoc. cbn [app]. reflexivity.
  - change 4%Z with (Z.of_nat 4). rewrite slice_prefix by apply Hd. cbn [rbind].
    rewrite <- !app_assoc. cbn [app]. reflexivity.
Qed.

(* after Zero, String prints the zeroed text: the generated pair of functions and the model agree *)
Theorem Zero_String k k' : Kernels3.ExtendedKey_Zero k = Ok k' ->
  gString k' = Ok (zeroed_string, k') /\ m_string (abs k') = zeroed_string.
Proof.
  rewrite Zero_tie. intros [= <-]. split; reflexivity.
Qed.

(* ---------- NewMaster ---------- *)
Lemma quot2_nat n : Z.quot (Z.of_nat n) 2 = Z.of_nat (n / 2).
Proof. rewrite Z.quot_div_nonneg by lia. change 2%Z with (Z.of_nat 2). now rewrite <- Nat2Z.inj_div. Qed.

Lemma half_le n : (n / 2 <= n)%nat.
Proof. apply Nat.div_le_upper_bound; lia. Qed.

(* l[:len(l)/2] and l[len(l)/2:] *)
Lemma slice_lo_half {A} (l : list A) :
  Go.slice l 0%Z (Z.quot (Z.of_nat (length l)) 2) = Ok (firstn (length l / 2) l).
Proof. rewrite quot2_nat. apply slice_prefix. apply half_le. Qed.
Lemma slice_hi_half {A} (l : list A) :
  Go.slice l (Z.quot (Z.of_nat (length l)) 2) (Z.of_nat (length l)) = Ok (skipn (length l / 2) l).
Proof.
  rewrite quot2_nat. pose proof (half_le (length l)) as H. rewrite slice_nat by lia.
  f_equal. apply firstn_all2. rewrite skipn_length. lia.
Qed.

(* the range test `x.Cmp(S256().N) >= 0 || x.Sign() == 0` *)
Lemma range_test v :
  orb (0 <=? i_Cmp (inl v) (c_N tt))%Z (i_Sign (inl v) =? 0)%Z = out_of_range_lit 0 0 v.
Proof. reflexivity. Qed.

(* the model's result seen through the translation's conventions *)
Definition master_view (r : res xkey) : res (option EK * N) :=
  match r with
  | Ok x => Ok (Some (conc x []), 0)
  | Err e => Ok (None, if e =? E_seedlen then Kernels3.hdkeychain_ErrInvalidSeedLen
                       else Kernels3.hdkeychain_ErrUnusableSeed)
  | Panic p => Panic p
  end.

(* no side condition: any seed, any hmac512, any *chaincfg.Params that is not nil *)
Theorem NewMaster_tie seed p :
  gNewMaster seed (Some p) = master_view (new_master hmac512 seed (net_of p)).
Proof.
  unfold gNewMaster, Kernels3.NewMaster, new_master.
  change MinSeedBytes with 16%nat. change MaxSeedBytes with 64%nat.
  replace ((Z.of_nat (length seed) <? 16)%Z || (64 <? Z.of_nat (length seed))%Z)
    with ((length seed <? 16)%nat || (64 <? length seed)%nat)
    by (destruct (Nat.ltb_spec (length seed) 16), (Nat.ltb_spec 64 (length seed)),
          (Z.ltb_spec (Z.of_nat (length seed)) 16), (Z.ltb_spec 64 (Z.of_nat (length seed))); try reflexivity; lia).
  destruct ((length seed <? 16)%nat || (64 <? length seed)%nat); [reflexivity|].
  unfold h_new, h_write, h_sum. cbn [fst snd app].
  change Kernels3.hdkeychain_masterKey with masterKey.
  rewrite slice_lo_half, slice_hi_half. cbn [rbind].
  change (LM 0) with 2%nat. change (LM 1) with 2%nat.
  unfold i_SetBytes. rewrite range_test.
  change master_out_of_range with (out_of_range_lit 0 0).
  destruct (out_of_range_lit 0 0 _); [reflexivity|].
  reflexivity.
Qed.

(* a nil *chaincfg.Params: the two error returns come first, then the nil dereference *)
Theorem NewMaster_nil seed nt :
  gNewMaster seed None = match new_master hmac512 seed nt with Ok _ => Panic 5 | r => master_view r end.
Proof.
  unfold gNewMaster, Kernels3.NewMaster, new_master.
  change MinSeedBytes with 16%nat. change MaxSeedBytes with 64%nat.
  replace ((Z.of_nat (length seed) <? 16)%Z || (64 <? Z.of_nat (length seed))%Z)
    with ((length seed <? 16)%nat || (64 <? length seed)%nat)
    by (destruct (Nat.ltb_spec (length seed) 16), (Nat.ltb_spec 64 (length seed)),
          (Z.ltb_spec (Z.of_nat (length seed)) 16), (Z.ltb_spec 64 (Z.of_nat (length seed))); try reflexivity; lia).
  destruct ((length seed <? 16)%nat || (64 <? length seed)%nat); [reflexivity|].
  unfold h_new, h_write, h_sum. cbn [fst snd app].
  change Kernels3.hdkeychain_masterKey with masterKey.
  rewrite slice_lo_half, slice_hi_half. cbn [rbind].
  change (LM 0) with 2%nat. change (LM 1) with 2%nat.
  unfold i_SetBytes. rewrite range_test.
  change master_out_of_range with (out_of_range_lit 0 0).
  destruct (out_of_range_lit 0 0 _); reflexivity.
Qed.

(* ---------- Neuter ---------- *)
(* a public key: returned as it is *)
Theorem Neuter_tie_public k : ek_priv k = false ->
  gNeuter k = (Some k, 0, k) /\ m_neuter (abs k) = Ok (abs k).
Proof.
  intros H. unfold gNeuter, Kernels3.ExtendedKey_Neuter, neuter, abs. cbn [xk_priv]. rewrite H. split; reflexivity.
Qed.

(* a private key whose version is not registered: error site 1 (chaincfg.ErrUnknownHDKeyID passed on), receiver unchanged *)
Theorem Neuter_tie_unknown k : ek_priv k = true -> priv_to_pub_id (ek_version k) = Err E_unknown_id ->
  gNeuter k = (None, 1, k) /\ m_neuter (abs k) = Err E_unknown_id.
Proof.
  intros H Hv. unfold gNeuter, Kernels3.ExtendedKey_Neuter, neuter, abs, priv_to_pub. cbn [xk_priv xk_version].
  rewrite H, Hv. split; reflexivity.
Qed.

(* ---------- NewKeyFromString ---------- *)
(* what the tie needs of two dependencies (both are facts of the documented domain of HD.v):
   DoubleHashB returns at least 4 bytes; bchec.ParsePubKey returns a point or the error class E_pubkey and
   does not panic (the translation ASSUMES that dependencies do not panic). *)
Definition dsha_4 : Prop := forall m, (4 <= length (dsha m))%nat.
Definition parse_point_total : Prop :=
  forall b, match parse_point b with Ok _ => True | Err e => e = E_pubkey | Panic _ => False end.

Lemma nth_res_ok' (l : list N) i : (i < length l)%nat -> nth_res l i = Ok (nth i l 0).
Proof. intros H. unfold nth_res. rewrite (nth_error_nth' l 0 H). reflexivity. Qed.

Lemma gslice_nat (l : list N) (a b : nat) : (a <= b)%nat -> (b <= length l)%nat ->
  Go.slice l (Z.of_nat a) (Z.of_nat b) = Ok (slice a b l).
Proof. intros. unfold slice. now apply slice_nat. Qed.

Lemma hslice_length a b (l : list N) : (b <= length l)%nat -> length (slice a b l) = (b - a)%nat.
Proof. intros H. unfold slice. rewrite firstn_length, skipn_length. lia. Qed.

Lemma be_uint32_4 l : length l = 4%nat -> Go3.be_uint32 l = Ok (be_value l 0).
Proof.
  intros H. destruct l as [|b0 [|b1 [|b2 [|b3 [|b4 t]]]]]; try discriminate H.
  cbn [Go3.be_uint32 be_value]. do 2 f_equal.
Qed.

Definition parse_view (r : res xkey) : res (option EK * N) :=
  match r with
  | Ok x => Ok (Some (conc x []), 0)
  | Err e => Ok (None, if e =? E_keylen then Kernels3.hdkeychain_ErrInvalidKeyLen
                       else if e =? E_checksum then Kernels3.hdkeychain_ErrBadChecksum
                       else if e =? E_unusable then Kernels3.hdkeychain_ErrUnusableSeed
                       else 4 (* error site 4: the error of bchec.ParsePubKey passed on *))
  | Panic p => Panic p
  end.

(* every string *)
Theorem NewKeyFromString_tie s : dsha_4 -> parse_point_total ->
  gParse s = parse_view (m_parse s).
Proof.
  intros Hd Hpp. unfold gParse, Kernels3.NewKeyFromString, parse.
  change (serializedKeyLen + LP 0)%nat with 82%nat.
  change (LP 1) with 4%nat. change (LP 2) with 4%nat. change (LP 3) with 4%nat. change (LP 4) with 4%nat.
  change (LP 5) with 4%nat. change (LP 6) with 5%nat. change (LP 7) with 0%nat. change (LP 8) with 5%nat.
  change (LP 9) with 9%nat. change (LP 10) with 9%nat. change (LP 11) with 13%nat. change (LP 12) with 13%nat.
  change (LP 13) with 45%nat. change (LP 14) with 45%nat. change (LP 15) with 78%nat. change (LP 16) with 0%nat.
  change (N.of_nat (LP 17)) with 0. change (LP 18) with 1%nat.
  set (d := Base58.decode s). clearbody d.
  destruct (Nat.eqb_spec (length d) 82) as [Hlen|Hlen];
    (destruct (Z.eqb_spec (Z.of_nat (length d)) 82) as [Hz|Hz]; [|try lia]); try lia; cbn [negb]; [|reflexivity].
  rewrite Hlen. change (Z.of_nat 82 - 4)%Z with (Z.of_nat 78). change (82 - 4)%nat with 78%nat.
  rewrite slice_prefix by lia. cbn [rbind].
  rewrite slice_nat by lia. cbn [rbind].
  replace (firstn (82 - 78) (skipn 78 d)) with (skipn 78 d)
    by (symmetry; apply firstn_all2; rewrite skipn_length; lia).
  set (pl := firstn 78 d).
  assert (Hpl : length pl = 78%nat) by (unfold pl; rewrite firstn_length; lia).
  change 4%Z with (Z.of_nat 4) at 1. rewrite slice_prefix by apply Hd. cbn [rbind].
  unfold Go3.bytes_equal. destruct (list_eqb (skipn 78 d) (firstn 4 (dsha pl))); cbn [negb]; [|reflexivity].
  clearbody pl. clear d Hlen Hz.
  change 4%Z with (Z.of_nat 4) at 1. rewrite slice_prefix by lia. cbn [rbind].
  change 4%Z with (Z.of_nat 4). change 5%Z with (Z.of_nat 5). change 9%Z with (Z.of_nat 9).
  change 13%Z with (Z.of_nat 13). change 45%Z with (Z.of_nat 45). change 78%Z with (Z.of_nat 78).
  rewrite (gslice_nat pl 4 5) by lia. cbn [rbind].
  change 0%Z with (Z.of_nat 0). rewrite idx_nat, nth_res_ok' by (rewrite hslice_length; lia). cbn [rbind].
  rewrite (gslice_nat pl 5 9) by lia. cbn [rbind].
  rewrite (gslice_nat pl 9 13) by lia. cbn [rbind].
  rewrite be_uint32_4 by (rewrite hslice_length; lia). cbn [rbind].
  rewrite (gslice_nat pl 13 45) by lia. cbn [rbind].
  rewrite (gslice_nat pl 45 78) by lia. cbn [rbind].
  assert (Hkd : length (slice 45 78 pl) = 33%nat) by (rewrite hslice_length; lia).
  set (kd := slice 45 78 pl) in *. clearbody kd.
  rewrite idx_nat, nth_res_ok' by lia. cbn [rbind].
  destruct (nth 0 kd 0 =? 0) eqn:Epriv.
  - change 1%Z with (Z.of_nat 1). rewrite slice_nat by lia. cbn [rbind].
    replace (firstn (length kd - 1) (skipn 1 kd)) with (skipn 1 kd)
      by (symmetry; apply firstn_all2; rewrite skipn_length; lia).
    unfold i_SetBytes. rewrite range_test, out_of_range_lit_00.
    destruct (out_of_range (set_bytes (skipn 1 kd))); reflexivity.
  - unfold parse_pk. specialize (Hpp kd). destruct (parse_point kd) as [P|e|p]; [reflexivity| |contradiction].
    subst e. reflexivity.
Qed.

(* ---------- Child ---------- *)
Definition h160_4 : Prop := forall m, (4 <= length (hash160 m))%nat.

Lemma firstn_pad (l : list N) m a b : (m <= length l + a)%nat -> (m <= length l + b)%nat ->
  firstn m (l ++ repeat 0 a) = firstn m (l ++ repeat 0 b).
Proof.
  revert m a b. induction l as [|x l IH]; intros m a b Ha Hb.
  - cbn [app length Nat.add] in *. revert a b Ha Hb. induction m as [|m IHm]; intros a b Ha Hb; [reflexivity|].
    destruct a as [|a]; [lia|]. destruct b as [|b]; [lia|]. cbn [repeat firstn]. f_equal. apply IHm; lia.
  - destruct m as [|m]; [reflexivity|]. cbn [app firstn]. f_equal. cbn [length] in *. apply IH; lia.
Qed.

Lemma firstn_copy_to w r (src : list N) :
  firstn w (firstn (Nat.min (w + r) (length src)) src ++ repeat 0 (w + r - Nat.min (w + r) (length src)))
  = copy_to w src.
Proof.
  unfold copy_to. destruct (Nat.le_gt_cases (length src) (w + r)) as [Hle|Hgt].
  - rewrite Nat.min_r by lia. rewrite firstn_all. apply firstn_pad; lia.
  - rewrite Nat.min_l by lia. replace (w + r - (w + r))%nat with 0%nat by lia. cbn [repeat]. rewrite app_nil_r.
    rewrite firstn_firstn, Nat.min_l by lia.
    rewrite firstn_app. replace (w - length src)%nat with 0%nat by lia. cbn [firstn]. now rewrite app_nil_r.
Qed.

Lemma skipn_repeat {A} (x : A) n m : skipn n (repeat x m) = repeat x (m - n).
Proof.
  revert m; induction n as [|n IH]; intros m; [now rewrite Nat.sub_0_r|].
  destruct m as [|m]; [reflexivity|]. cbn [repeat skipn Nat.sub]. apply IH.
Qed.

Lemma firstn_repeat {A} (x : A) n m : (n <= m)%nat -> firstn n (repeat x m) = repeat x n.
Proof.
  revert m; induction n as [|n IH]; intros m H; [reflexivity|].
  destruct m as [|m]; [lia|]. cbn [repeat firstn]. f_equal. apply IH. lia.
Qed.

Lemma put_be32_at (pre suf4 rest : list N) v : length suf4 = 4%nat ->
  Go3.put_be32 (pre ++ suf4 ++ rest) (Z.of_nat (length pre)) v = Ok (pre ++ be_bytes 4 v ++ rest).
Proof.
  intros H4. unfold Go3.put_be32. rewrite !app_length, H4.
  destruct (Z.ltb_spec (Z.of_nat (length pre)) 0); [lia|].
  destruct (Z.ltb_spec (Z.of_nat (length pre + (4 + length rest))) (Z.of_nat (length pre))); [lia|].
  destruct (Z.ltb_spec (Z.of_nat (length pre + (4 + length rest)) - Z.of_nat (length pre)) 4); [lia|].
  cbn [orb]. rewrite Nat2Z.id. f_equal.
  rewrite firstn_app, Nat.sub_diag, firstn_all. cbn [firstn]. rewrite app_nil_r. f_equal.
  rewrite skipn_app. rewrite skipn_all2 by lia. cbn [app].
  replace (length pre + 4 - length pre)%nat with (length suf4) by lia.
  rewrite skipn_app, Nat.sub_diag, skipn_all. cbn [app skipn].
  unfold be_bytes. cbn [le_bytes rev app]. rewrite !N.div_div by lia. reflexivity.
Qed.

(* data := make([]byte, o+w+4); copy(data[o:], src); binary.BigEndian.PutUint32(data[o+w:], i) *)
Definition copied (o w : nat) (src : list N) : list N :=
  repeat 0 o ++ firstn (Nat.min (w + 4) (length src)) src ++ repeat 0 (w + 4 - Nat.min (w + 4) (length src)).

Lemma copy_at_zeros o w (src : list N) :
  Go.copy_at (repeat 0 (o + w + 4)) (Z.of_nat o) src = Ok (copied o w src).
Proof.
  unfold Go.copy_at, copied. rewrite repeat_length.
  destruct (Z.ltb_spec (Z.of_nat o) 0); [lia|].
  destruct (Z.ltb_spec (Z.of_nat (o + w + 4)) (Z.of_nat o)); [lia|]. cbn [orb rbind].
  rewrite Nat2Z.id. replace (o + w + 4 - o)%nat with (w + 4)%nat by lia.
  set (n := Nat.min (w + 4) (length src)).
  rewrite firstn_repeat by lia. rewrite skipn_repeat.
  replace (o + w + 4 - (o + n))%nat with (w + 4 - n)%nat by lia. reflexivity.
Qed.

Lemma put_copied o w (src : list N) i :
  Go3.put_be32 (copied o w src) (Z.of_nat (o + w)) i = Ok (repeat 0 o ++ copy_to w src ++ be_bytes 4 i).
Proof.
  unfold copied. set (n := Nat.min (w + 4) (length src)).
  set (X := firstn n src ++ repeat 0 (w + 4 - n)).
  assert (HX : length X = (w + 4)%nat).
  { unfold X. rewrite app_length, firstn_length, repeat_length. fold n. lia. }
  rewrite <- (firstn_skipn w X).
  assert (Hf : length (firstn w X) = w) by (rewrite firstn_length; lia).
  assert (Hs : length (skipn w X) = 4%nat) by (rewrite skipn_length; lia).
  replace (repeat 0 o ++ firstn w X ++ skipn w X) with ((repeat 0 o ++ firstn w X) ++ skipn w X ++ [])
    by (now rewrite app_nil_r, <- app_assoc).
  replace (Z.of_nat (o + w)) with (Z.of_nat (length (repeat 0 o ++ firstn w X)))
    by (rewrite app_length, repeat_length, Hf; reflexivity).
  rewrite put_be32_at by exact Hs. rewrite app_nil_r, <- app_assoc.
  unfold X, n. rewrite firstn_copy_to. reflexivity.
Qed.

Definition child_code (e : N) : N :=
  if e =? E_depth then Kernels3.hdkeychain_ErrDeriveBeyondMaxDepth
  else if e =? E_hardpub then Kernels3.hdkeychain_ErrDeriveHardFromPublic
  else if e =? E_invalid_child then Kernels3.hdkeychain_ErrInvalidChild
  else 5 (* error site 5: the error of bchec.ParsePubKey passed on *).

(* the receiver afterwards: pubKeyBytes() has filled the memo on success, and on ErrInvalidChild of a normal child *)
Definition child_view (k : EK) (i : N) (r : res xkey) : res (option EK * N * EK) :=
  match r with
  | Ok x => Ok (Some (conc x []), 0, fill_memo k)
  | Err e => Ok (None, child_code e, if (e =? E_invalid_child) && negb (HardenedKeyStart <=? i) then fill_memo k else k)
  | Panic p => Panic p
  end.

Lemma depth_succ d : d < 256 -> d <> 255 -> (d + 1) mod 2 ^ 8 = d + 1.
Proof. intros H1 H2. change (2 ^ 8) with 256. apply N.mod_small. lia. Qed.

(* the last step of Child (L336-337) on a receiver k0 that is k up to the memo *)
Lemma child_finish k0 k childKey cc i priv :
  abs k0 = abs k -> memo_ok k0 -> fill_memo k0 = fill_memo k -> ek_depth k < 256 -> ek_depth k <> 255 -> h160_4 ->
  (let '(t13_, t14_) := Kernels3.ExtendedKey_pubKeyBytes unit point Int_t tt ser_point c_ScalarBaseMult pk_of_X_Y k0 in
   do parentFP <- Go.slice (hash160 t13_) 0%Z 4%Z ;;
   Ok (Kernels3.NewExtendedKey (ek_version t14_) childKey cc parentFP ((ek_depth t14_ + 1) mod 2 ^ 8) i priv, 0, t14_))
  = Ok (Some (conc (mk_xkey (ek_version k) childKey cc (firstn 4 (hash160 (m_pub (abs k)))) (ek_depth k + 1) i priv) []),
        0, fill_memo k).
Proof.
  intros Ha Hm0 Hf Hdep Hd Hh.
  pose proof (pubKeyBytes_tie k0 Hm0) as Hp. unfold gPub in Hp. rewrite Hp. rewrite Ha, Hf.
  change 4%Z with (Z.of_nat 4). rewrite slice_prefix by apply Hh. rewrite rbind_ok.
  pose proof (abs_fill_memo k) as Hfa.
  replace (ek_version (fill_memo k)) with (xk_version (abs (fill_memo k))) by reflexivity.
  replace (ek_depth (fill_memo k)) with (xk_depth (abs (fill_memo k))) by reflexivity.
  rewrite Hfa. cbn [abs xk_version xk_depth]. rewrite depth_succ by assumption. reflexivity.
Qed.

(* everything after `data` has been built, on a receiver k0 that is k up to the memo *)
Lemma child_tail k0 k data i (hard : bool) :
  abs k0 = abs k -> memo_ok k0 -> fill_memo k0 = fill_memo k -> (hard = false -> k0 = fill_memo k) -> (hard = true -> k0 = k) ->
  ek_depth k < 256 -> ek_depth k <> 255 -> h160_4 -> parse_point_total ->
  (let '(t7_, t8_, t9_) := h_write (h_new (ek_chain k0)) data in
   let hmac512 := t9_ in
   let ilr := h_sum hmac512 [] in
   do il <- Go.slice ilr 0%Z (Z.quot (Z.of_nat (length ilr)) 2%Z) ;;
   do t11_ <- Go.slice ilr (Z.quot (Z.of_nat (length ilr)) 2%Z) (Z.of_nat (length ilr)) ;;
   let childChainCode := [] ++ t11_ in
   let ilNum := i_SetBytes i_new il in
   if orb (0%Z <=? i_Cmp ilNum (c_N tt))%Z (i_Sign ilNum =? 0%Z)%Z then
     Ok (@None EK, Kernels3.hdkeychain_ErrInvalidChild, k0)
   else
   let isPrivate := false in
   let childKey := @nil N in
   let k12_ := fun (st_ : Int_t * list N * bool) =>
      let '(ilNum, childKey, isPrivate) := st_ in
      let '(t13_, t14_) := Kernels3.ExtendedKey_pubKeyBytes unit point Int_t tt ser_point c_ScalarBaseMult pk_of_X_Y k0 in
      let k := t14_ in
      do parentFP <- Go.slice (hash160 t13_) 0%Z 4%Z ;;
      Ok (Kernels3.NewExtendedKey (ek_version k) childKey childChainCode parentFP ((ek_depth k + 1) mod 2^8) i isPrivate, 0, k)
   in
   if ek_priv k0 then
     let keyNum := i_SetBytes i_new (ek_key k0) in
     let '(t16_, t17_) := i_Add ilNum ilNum keyNum in
     let ilNum := t17_ in
     let '(t18_, t19_) := i_Mod ilNum ilNum (c_N tt) in
     let ilNum := t19_ in
     let childKey := i_Bytes ilNum in
     do childKey <- (
       if (Z.of_nat (length childKey) <? 32%Z)%Z then
         do extra <- Go.make 0 (32%Z - Z.of_nat (length childKey))%Z ;;
         let childKey := extra ++ childKey in
         Ok childKey
       else
         Ok childKey
     ) ;;
     let isPrivate := true in
     k12_ (ilNum, childKey, isPrivate)
   else
     let '(t21_, t22_) := c_ScalarBaseMult tt il in
     let ilx := t21_ in
     let ily := t22_ in
     if orb (i_Sign ilx =? 0%Z)%Z (i_Sign ily =? 0%Z)%Z then
       Ok (@None EK, Kernels3.hdkeychain_ErrInvalidChild, k0)
     else
     let '(t23_, t24_) := parse_pk (ek_key k0) tt in
     let pubKey := t23_ in
     let err := t24_ in
     if negb (err =? 0) then
       Ok (@None EK, Go3.prop 5 err, k0)
     else
     let '(t25_, t26_) := c_Add tt ilx ily (pk_X pubKey) (pk_Y pubKey) in
     let childX := t25_ in
     let childY := t26_ in
     let pk := pk_of_X_Y childX childY in
     let childKey := ser_point pk in
     k12_ (ilNum, childKey, isPrivate))
  =
  match
    (let ilr := hmac512 (ek_chain k) data in
     let il := firstn (length ilr / 2) ilr in
     let cc := skipn (length ilr / 2) ilr in
     let ilNum := set_bytes il in
     if out_of_range_lit 0 0 ilNum then Err E_invalid_child else
     do childKey <-
       (if ek_priv k then
          let v := (ilNum + set_bytes (ek_key k)) mod secp_nN in
          let raw := big_bytes v in
          Ok (if (length raw <? 32)%nat then repeat 0 (32 - length raw) ++ raw else raw)
        else
          let P := point_of_scalar (Z.of_N ilNum) in
          if pzero P then Err E_invalid_child else
          do K <- parse_point (ek_key k) ;;
          Ok (ser_point (padd P K))) ;;
     let fp := firstn 4 (hash160 (m_pub (abs k))) in
     Ok (mk_xkey (ek_version k) childKey cc fp (ek_depth k + 1) i (ek_priv k)))
  with
  | Ok x => Ok (Some (conc x []), 0, fill_memo k)
  | Err e => Ok (None, child_code e, if (e =? E_invalid_child) && negb hard then fill_memo k else k)
  | Panic p => Panic p
  end.
Proof.
  intros Ha Hm0 Hf Hsoft Hhard Hdep Hd Hh Hpp.
  replace (ek_chain k0) with (xk_chain (abs k0)) by reflexivity.
  replace (ek_key k0) with (xk_key (abs k0)) by reflexivity.
  replace (ek_priv k0) with (xk_priv (abs k0)) by reflexivity.
  rewrite Ha. cbn [abs xk_chain xk_key xk_priv].
  unfold h_write, h_new, h_sum. cbv beta iota zeta. cbn [fst snd app].
  set (ilr := hmac512 (ek_chain k) data).
  rewrite slice_lo_half, slice_hi_half, !rbind_ok.
  unfold i_SetBytes. rewrite range_test.
  destruct (out_of_range_lit 0 0 (set_bytes (firstn (length ilr / 2) ilr))) eqn:Eoor.
  { cbn [N.eqb E_invalid_child Pos.eqb andb]. destruct hard; cbn [negb]; [now rewrite Hhard|now rewrite Hsoft]. }
  destruct (ek_priv k) eqn:Epriv.
  - unfold i_Add, i_Mod, c_N, i_Bytes. cbv beta iota.
    set (raw := big_bytes _).
    assert (Hck : (if (Z.of_nat (length raw) <? 32)%Z
                   then do extra <- Go.make 0 (32 - Z.of_nat (length raw)) ;; Ok (extra ++ raw)
                   else Ok raw)
                  = Ok (if (length raw <? 32)%nat then repeat 0 (32 - length raw) ++ raw else raw)).
    { destruct (Nat.ltb_spec (length raw) 32), (Z.ltb_spec (Z.of_nat (length raw)) 32); try lia; [|reflexivity].
      replace (32 - Z.of_nat (length raw))%Z with (Z.of_nat (32 - length raw)) by lia.
      rewrite make_nat. reflexivity. }
    rewrite Hck, !rbind_ok.
    rewrite (child_finish k0 k) by assumption. reflexivity.
  - unfold c_ScalarBaseMult, scalar_of. cbv beta iota zeta. unfold i_Sign.
    set (P := point_of_scalar _).
    destruct (pzero P) eqn:Ez.
    { cbn [Z.eqb orb N.eqb E_invalid_child Pos.eqb andb].
      assert (Hk : fill_memo k = k) by (unfold fill_memo; now rewrite Epriv).
      destruct hard; cbn [negb]; [now rewrite Hhard|now rewrite Hsoft]. }
    change ((1 =? 0)%Z || (1 =? 0)%Z) with false. cbv iota.
    unfold parse_pk. specialize (Hpp (ek_key k)).
    destruct (parse_point (ek_key k)) as [K|e|p]; [| |contradiction].
    + change (negb (0 =? 0)) with false. cbv iota. unfold c_Add, pk_X, pk_Y, pk_of_X_Y. cbv beta iota.
      rewrite (child_finish k0 k) by assumption. reflexivity.
    + subst e. change (negb (1 =? 0)) with true. cbv iota.
      assert (Hk : fill_memo k = k) by (unfold fill_memo; now rewrite Epriv).
      assert (Hk0 : k0 = k) by (destruct hard; [now apply Hhard|rewrite <- Hk; now apply Hsoft]).
      rewrite Hk0. reflexivity.
Qed.

(* Domain: memo_ok k (the memo is empty or right), depth < 256 (uint8), Hash160 returns at least 4 bytes,
   ParsePubKey returns a point or class E_pubkey.  Any key / chain code / fingerprint lengths, any hmac512. *)
Theorem Child_tie k i : memo_ok k -> ek_depth k < 256 -> h160_4 -> parse_point_total ->
  gChild k i = child_view k i (m_child (abs k) i).
Proof.
  intros Hm Hdep Hh Hpp. unfold gChild, Kernels3.ExtendedKey_Child, child.
  change maxUint8 with 255. change HardenedKeyStart with 2147483648.
  change (LC 0) with 33%nat. change (LC 1) with 4%nat. change (LC 2) with 1%nat. change (LC 3) with 2%nat.
  change (LC 4) with 2%nat. change (LC 7) with 32%nat. change (LC 8) with 32%nat. change (LC 11) with 4%nat.
  change (N.of_nat (LC 12)) with 1. change (33 - 1)%nat with 32%nat.
  change child_out_of_range with (out_of_range_lit 0 0).
  change (xk_depth (abs k)) with (ek_depth k).
  change (xk_priv (abs k)) with (ek_priv k).
  change (xk_chain (abs k)) with (ek_chain k).
  change (xk_key (abs k)) with (ek_key k).
  change (xk_version (abs k)) with (ek_version k).
  unfold child_view. change HardenedKeyStart with 2147483648.
  destruct (N.eqb_spec (ek_depth k) 255) as [Hd|Hd]; [reflexivity|].
  change (Go.make 0 (33 + 4)%Z) with (Ok (repeat 0 (1 + 32 + 4))). rewrite rbind_ok.
  destruct (2147483648 <=? i) eqn:Eh.
  - (* hardened *)
    destruct (ek_priv k) eqn:Epriv; [|reflexivity].
    change (negb true && true) with false. cbv iota.
    change 1%Z with (Z.of_nat 1) at 1. rewrite copy_at_zeros. rewrite !rbind_ok. cbv beta iota.
    change 33%Z with (Z.of_nat (1 + 32)). rewrite put_copied. rewrite rbind_ok.
    rewrite <- (app_assoc (repeat 0 1)).
    pose proof (child_tail k k (repeat 0 1 ++ copy_to 32 (ek_key k) ++ be_bytes 4 i) i true eq_refl Hm eq_refl
                  (fun H => ltac:(discriminate H)) (fun _ => eq_refl) Hdep Hd Hh Hpp) as HT.
    rewrite Epriv in HT |- *. exact HT.
  - (* normal *)
    rewrite andb_false_r. cbv iota.
    pose proof (pubKeyBytes_tie k Hm) as Hp. unfold gPub in Hp. rewrite Hp.
    change (repeat 0 (1 + 32 + 4)) with (repeat 0 (0 + 33 + 4)).
    change 0%Z with (Z.of_nat 0) at 1. rewrite copy_at_zeros. rewrite !rbind_ok. cbv beta iota.
    change 33%Z with (Z.of_nat (0 + 33)). rewrite put_copied. rewrite rbind_ok.
    change (repeat 0 0 ++ copy_to 33 (m_pub (abs k)) ++ be_bytes 4 i) with (copy_to 33 (m_pub (abs k)) ++ be_bytes 4 i).
    exact (child_tail (fill_memo k) k (copy_to 33 (m_pub (abs k)) ++ be_bytes 4 i) i false (abs_fill_memo k)
             (memo_ok_fill_memo k) (fill_memo_idem k) (fun _ => eq_refl) (fun H => ltac:(discriminate H)) Hdep Hd Hh Hpp).
Qed.

(* consequences for the receiver: the abstraction is unchanged and the memo invariant kept *)
Corollary Child_receiver k i r : memo_ok k -> ek_depth k < 256 -> h160_4 -> parse_point_total ->
  gChild k i = Ok r -> abs (snd r) = abs k /\ memo_ok (snd r) /\
  match fst (fst r) with Some c => memo_ok c | None => True end.
Proof.
  intros Hm Hdep Hh Hpp. rewrite Child_tie by assumption. unfold child_view.
  destruct (m_child (abs k) i) as [x|e|p]; [| |discriminate]; intros [= <-]; cbn [fst snd].
  - split; [apply abs_fill_memo|split; [apply memo_ok_fill_memo|apply memo_ok_new]].
  - destruct ((e =? E_invalid_child) && negb (HardenedKeyStart <=? i));
      (split; [try apply abs_fill_memo; reflexivity|split; [try apply memo_ok_fill_memo; assumption|exact I]]).
Qed.

(* Neuter, the private case included (an earlier version of the translator inlined the three calls of the
   function literal `clone` with one shared binder, so that key and chain code of the result were the parent
   fingerprint: this tie is what exposed it; the translator now binds fresh names per inlined call). *)
Definition neuter_view (k : EK) (r : res xkey) : option EK * N * EK :=
  match r with
  | Ok x => (Some (if ek_priv k then conc x [] else k), 0, fill_memo k)
  | _ => (None, 1, k)
  end.

Theorem Neuter_tie k : memo_ok k -> gNeuter k = neuter_view k (m_neuter (abs k)).
Proof.
  intros Hm. unfold gNeuter, Kernels3.ExtendedKey_Neuter, neuter, neuter_view, priv_to_pub.
  change (xk_priv (abs k)) with (ek_priv k). change (xk_version (abs k)) with (ek_version k).
  destruct (ek_priv k) eqn:Epriv; cbn [negb].
  - destruct (priv_to_pub_id (ek_version k)) as [v|e|p]; cbn [rbind N.eqb negb]; try reflexivity.
    pose proof (pubKeyBytes_tie k Hm) as Hp. unfold gPub in Hp. rewrite Hp.
    replace (Kernels3.hdkeychain_ExtendedKey_chainCode (fill_memo k)) with (xk_chain (abs (fill_memo k))) by reflexivity.
    replace (Kernels3.hdkeychain_ExtendedKey_parentFP (fill_memo k)) with (xk_fp (abs (fill_memo k))) by reflexivity.
    replace (Kernels3.hdkeychain_ExtendedKey_depth (fill_memo k)) with (xk_depth (abs (fill_memo k))) by reflexivity.
    replace (Kernels3.hdkeychain_ExtendedKey_childNum (fill_memo k)) with (xk_childnum (abs (fill_memo k))) by reflexivity.
    rewrite abs_fill_memo. reflexivity.
  - unfold fill_memo. rewrite Epriv. reflexivity.
Qed.

End HDTie.

Print Assumptions pubKeyBytes_tie.
Print Assumptions pubKeyBytes_state.
Print Assumptions String_tie.
Print Assumptions Zero_String.
Print Assumptions NewMaster_tie.
Print Assumptions NewMaster_nil.
Print Assumptions Neuter_tie_public.
Print Assumptions Neuter_tie_unknown.
Print Assumptions Neuter_tie.
Print Assumptions NewKeyFromString_tie.
Print Assumptions Child_tie.
Print Assumptions Child_receiver.

(* the side conditions on the dependencies are satisfiable (a toy instance) *)
Example deps_satisfiable :
  h160_4 (fun _ => repeat 0 20) /\ parse_point_total unit (fun _ => Ok tt) /\ dsha_4 (fun _ => repeat 0 32).
Proof.
  repeat split.
  - intros m. rewrite repeat_length. lia.
  - intros m. rewrite repeat_length. lia.
Qed.
Print Assumptions deps_satisfiable.

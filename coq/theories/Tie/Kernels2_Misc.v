(* Tie between the monadic-mode transliterations (Gen/Kernels2.v, regenerated from the Go ASTs on every
   run) of four small functions and the hand-written models:
     coinset.satisfiesTargetValue            ~ CoinSet.satisfies (instantiated with the 64-bit wrap w64)
     txsort.sortableOutputSlice.Less         ~ TxSort.out_less
     txsort.sortableInputSlice.Less          ~ TxSort.in_less
     bchutil.paddedAppend / hdkeychain.paddedAppend ~ Wif.pad_to / HD.padded_append
   No literal of the source is repeated here: closed sub-terms are evaluated. *)
From BU Require Import Lib.Bytes Lib.PolyMod Gen.Kernels2 CoinSet.CoinSet TxSort.TxSort Wif.Wif
  Tie.TieTactics Tie.Kernels2Lib.
From BU Require HD.HD.
From Coq Require Import ZifyBool ZifyN ZifyNat.
Local Open Scope N_scope.   (* CoinSet.v opens Z_scope *)

(* ---------- 1. coinset.satisfiesTargetValue ---------- *)
Lemma wrapZ64_w64 z : Go.wrapZ 64 z = CoinSet.w64 z.
Proof. reflexivity. Qed.

(* for all Z inputs (the model, like the code, wraps only the sum) *)
Theorem satisfiesTargetValue_tie t m tot :
  Kernels2.satisfiesTargetValue t m tot = CoinSet.satisfies CoinSet.w64 t m tot.
Proof.
  unfold Kernels2.satisfiesTargetValue, CoinSet.satisfies.
  rewrite wrapZ64_w64, Z.geb_leb. reflexivity.
Qed.
Print Assumptions satisfiesTargetValue_tie.

(* ---------- 2. txsort.sortableOutputSlice.Less ---------- *)
Lemma bytes_compare_tie a b : Go.bytes_compare a b = TxSort.bytes_compare a b.
Proof.
  revert b; induction a as [|x a IH]; intros [|y b]; cbn [Go.bytes_compare TxSort.bytes_compare];
    try reflexivity.
  all: now rewrite IH.
Qed.

(* i, j (the positions in the slice) only select the elements, whose fields are the other arguments *)
Theorem sortableOutputSlice_Less_tie a b i j :
  Kernels2.sortableOutputSlice_Less (out_value a) (out_value b) (out_script a) (out_script b) i j
  = TxSort.out_less a b.
Proof.
  unfold Kernels2.sortableOutputSlice_Less, TxSort.out_less.
  eval_term (Z.of_N (lit Xtxsort.lits_sortableOutputSlice_Less 0)).
  now rewrite bytes_compare_tie.
Qed.
Print Assumptions sortableOutputSlice_Less_tie.

(* ---------- 4. paddedAppend (wif.go and hdkeychain/extendedkey.go) ---------- *)
Lemma fold_left_append_const {A B} (c : A) (l : list B) acc :
  fold_left (fun acc _ => acc ++ [c]) l acc = acc ++ repeat c (length l).
Proof.
  revert acc; induction l as [|x l IH]; intros acc; cbn [fold_left length repeat];
    [now rewrite app_nil_r|].
  rewrite IH, <- app_assoc. reflexivity.
Qed.

(* int(size) for a uint size *)
Lemma wrapZ64_small (size : N) : size < 2 ^ 63 -> Go.wrapZ 64 (Z.of_N size) = Z.of_N size.
Proof.
  intros H. rewrite wrapZ64_w64. unfold CoinSet.w64.
  change (2 ^ 63) with 9223372036854775808 in H. lia.
Qed.

Lemma wrapZ64_big (size : N) : 2 ^ 63 <= size -> size < 2 ^ 64 -> (Go.wrapZ 64 (Z.of_N size) < 0)%Z.
Proof.
  intros H1 H2. rewrite wrapZ64_w64. unfold CoinSet.w64.
  change (2 ^ 63) with 9223372036854775808 in H1. change (2 ^ 64) with 18446744073709551616 in H2. lia.
Qed.

(* the common shape of the two transliterations *)
Lemma paddedAppend_shape (n : Z) (dst src : list N) :
  fold_left (fun dst (_ : Z) => dst ++ [0]) (Go.zseq 0%Z (Z.to_nat n)) dst ++ src
  = dst ++ repeat 0 (Z.to_nat n) ++ src.
Proof. now rewrite fold_left_append_const, zseq_length, <- app_assoc. Qed.

(* size < 2^63: int(size) = size, the model is exact *)
Theorem wif_paddedAppend_tie size dst src : size < 2 ^ 63 ->
  Kernels2.wif_paddedAppend size dst src = dst ++ Wif.pad_to (N.to_nat size) src.
Proof.
  intros H. unfold Kernels2.wif_paddedAppend, Wif.pad_to.
  rewrite paddedAppend_shape, wrapZ64_small by exact H. do 3 f_equal. lia.
Qed.
Print Assumptions wif_paddedAppend_tie.

(* 2^63 <= size < 2^64 (uint is 64 bits): int(size) is negative, the loop body never runs; the
   model [pad_to (N.to_nat size)] WOULD pad there (with size - len src zeros), so it is exact only
   for size < 2^63 or len src >= size.  All call sites pass the constant 32. *)
Theorem wif_paddedAppend_big size dst src : 2 ^ 63 <= size -> size < 2 ^ 64 ->
  Kernels2.wif_paddedAppend size dst src = dst ++ src.
Proof.
  intros H1 H2. unfold Kernels2.wif_paddedAppend.
  pose proof (wrapZ64_big size H1 H2) as Hneg.
  rewrite paddedAppend_shape.
  replace (Z.to_nat _) with 0%nat by lia. reflexivity.
Qed.
Print Assumptions wif_paddedAppend_big.

Theorem hdkeychain_paddedAppend_tie size dst src : size < 2 ^ 63 ->
  Kernels2.hdkeychain_paddedAppend size dst src = HD.padded_append (N.to_nat size) dst src.
Proof.
  intros H. unfold Kernels2.hdkeychain_paddedAppend, HD.padded_append.
  rewrite paddedAppend_shape, wrapZ64_small by exact H. do 3 f_equal. lia.
Qed.
Print Assumptions hdkeychain_paddedAppend_tie.

Theorem hdkeychain_paddedAppend_tie_pad_to size dst src : size < 2 ^ 63 ->
  Kernels2.hdkeychain_paddedAppend size dst src = dst ++ Wif.pad_to (N.to_nat size) src.
Proof. intros H. now rewrite hdkeychain_paddedAppend_tie. Qed.
Print Assumptions hdkeychain_paddedAppend_tie_pad_to.

Theorem hdkeychain_paddedAppend_big size dst src : 2 ^ 63 <= size -> size < 2 ^ 64 ->
  Kernels2.hdkeychain_paddedAppend size dst src = dst ++ src.
Proof. exact (wif_paddedAppend_big size dst src). Qed.
Print Assumptions hdkeychain_paddedAppend_big.

(* the two functions are the same function *)
Theorem paddedAppend_same size dst src :
  Kernels2.hdkeychain_paddedAppend size dst src = Kernels2.wif_paddedAppend size dst src.
Proof. reflexivity. Qed.

(* the model is NOT the code on the rest of uint: witness size = 2^63, src = dst = [] (the code returns
   [], the model 2^63 zeros) *)
Theorem wif_paddedAppend_pad_to_differs :
  exists size dst src, size < 2 ^ 64 /\
    Kernels2.wif_paddedAppend size dst src <> dst ++ Wif.pad_to (N.to_nat size) src.
Proof.
  exists (2 ^ 63), [], []. split; [reflexivity|].
  rewrite wif_paddedAppend_big by (try reflexivity; discriminate).
  unfold Wif.pad_to. intros E. apply (f_equal (@length N)) in E.
  rewrite !app_length, repeat_length in E. cbn [length] in E.
  change (2 ^ 63) with 9223372036854775808 in E. lia.
Qed.
Print Assumptions wif_paddedAppend_pad_to_differs.

(* ---------- 3. txsort.sortableInputSlice.Less ---------- *)
Lemma set_nth_set_at l i v : TxSort.set_nth l i v = Go.set_at l i v.
Proof. revert i; induction l as [|x l IH]; intros [|i]; cbn [TxSort.set_nth Go.set_at]; auto. now rewrite IH. Qed.

Lemma nth_res_nth {A} (l : list A) (i : nat) (d : A) :
  (i < length l)%nat -> nth_res l i = Ok (nth i l d).
Proof.
  intros H. unfold nth_res. destruct (nth_error l i) as [x|] eqn:E.
  - now rewrite (nth_error_nth _ _ d E).
  - apply nth_error_None in E. lia.
Qed.

(* a counted monadic loop whose body succeeds on the states of an invariant *)
Lemma foldM_zseq_inv {St} (F : St -> Z -> res St) (G : nat -> St -> St) (P : St -> Prop) (bound : nat) :
  (forall s b, (b < bound)%nat -> P s -> F s (Z.of_nat b) = Ok (G b s) /\ P (G b s)) ->
  forall n b s, (b + n <= bound)%nat -> P s ->
  Go.foldM F (Go.zseq (Z.of_nat b) n) s = Ok (fold_left (fun s b => G b s) (seq b n) s).
Proof.
  intros Hstep. induction n as [|n IH]; intros b s Hb Hs; [reflexivity|].
  cbn [Go.zseq Go.foldM seq fold_left].
  destruct (Hstep s b) as [HF HP]; [lia | exact Hs |]. rewrite HF.
  replace (Z.of_nat b + 1)%Z with (Z.of_nat (S b)) by lia.
  apply IH; [lia | exact HP].
Qed.

(* the model's fuel loop as a fold over the loop indices *)
Lemma rev_loop_fold oL oR : forall n b fuel h,
  (b + n = Nat.div hash_size (L_in 1))%nat -> (n <= fuel)%nat ->
  rev_loop fuel b oL oR h
  = fold_left (fun h b => assign2 h b (hash_size - oL - b) (hash_size - oR - b) b) (seq b n) h.
Proof.
  induction n as [|n IH]; intros b fuel h Hb Hf.
  - cbn [seq fold_left]. destruct fuel as [|fuel]; cbn [rev_loop]; [reflexivity|].
    destruct (Nat.ltb_spec b (Nat.div hash_size (L_in 1))) as [Hlt|Hge]; [|reflexivity].
    exfalso. rewrite <- Hb in Hlt. lia.
  - destruct fuel as [|fuel]; [lia|]. cbn [rev_loop seq fold_left].
    destruct (Nat.ltb_spec b (Nat.div hash_size (L_in 1))) as [Hlt|Hge].
    + apply IH; [rewrite <- Hb | ]; lia.
    + exfalso. rewrite <- Hb in Hge. lia.
Qed.

Lemma fold_left_pair {A B C} (g1 : A -> C -> A) (g2 : B -> C -> B) l a b :
  fold_left (fun s c => (g1 (fst s) c, g2 (snd s) c)) l (a, b) = (fold_left g1 l a, fold_left g2 l b).
Proof. revert a b; induction l as [|c l IH]; intros a b; cbn [fold_left fst snd]; auto. Qed.

Lemma assign2_length h i j j' i' : length (assign2 h i j j' i') = length h.
Proof. unfold assign2. now rewrite !set_nth_set_at, !set_at_length. Qed.

(* i, j (the positions in the slice) only select the elements, whose fields are the other arguments;
   a chainhash.Hash is a [32]byte *)
Theorem sortableInputSlice_Less_tie a b i j :
  length (in_hash a) = hash_size -> length (in_hash b) = hash_size ->
  Kernels2.sortableInputSlice_Less (in_hash a) (in_hash b) (in_index a) (in_index b) i j
  = Ok (TxSort.in_less a b).
Proof.
  intros Ha Hb. unfold Kernels2.sortableInputSlice_Less, TxSort.in_less.
  destruct (list_eqb (in_hash a) (in_hash b)); [reflexivity|].
  unfold reversed_i, reversed_j.
  set (G := fun (c : nat) (s : list N * list N) =>
    (assign2 (fst s) c (hash_size - L_in 2 - c) (hash_size - L_in 3 - c) c,
     assign2 (snd s) c (hash_size - L_in 4 - c) (hash_size - L_in 5 - c) c)).
  set (P := fun s : list N * list N => length (fst s) = hash_size /\ length (snd s) = hash_size).
  match goal with |- context [Go.foldM ?F (Go.zseq _ ?n) ?s0] =>
    assert (Hloop : Go.foldM F (Go.zseq (Z.of_nat 0) n) s0
                    = Ok (fold_left (fun s c => G c s) (seq 0 n) s0));
    [ apply (foldM_zseq_inv F G P (Nat.div hash_size (L_in 1))) | ]
  end.
  - intros [ih jh] c Hc [Hi Hj]. cbn [fst snd] in Hi, Hj.
    let v := eval vm_compute in (Nat.div hash_size (L_in 1)) in
      change (Nat.div hash_size (L_in 1)) with v in Hc.
    split; [| subst G P; cbn [fst snd]; now rewrite !assign2_length].
    cbn beta iota.
    match goal with |- context [(?k - Z.of_nat c)%Z] =>
      replace (k - Z.of_nat c)%Z with (Z.of_nat (Z.to_nat k - c)) by lia;
      eval_term (Z.to_nat k)
    end.
    unfold hash_size in Hi, Hj.
    repeat (first [ rewrite idx_nat, (nth_res_nth _ _ 0) by lia
                  | rewrite upd_nat by (rewrite ?set_at_length; lia) ]; cbn [rbind]).
    subst G. cbn [fst snd]. unfold assign2. rewrite !set_nth_set_at.
    eval_term (hash_size - L_in 2)%nat. eval_term (hash_size - L_in 3)%nat.
    eval_term (hash_size - L_in 4)%nat. eval_term (hash_size - L_in 5)%nat.
    reflexivity.
  - apply Nat.leb_le. reflexivity.
  - split; assumption.
  - change (Z.of_nat 0) with 0%Z in Hloop. rewrite Hloop. clear Hloop. subst G.
    cbv beta.
    rewrite (fold_left_pair
               (fun h c => assign2 h c (hash_size - L_in 2 - c) (hash_size - L_in 3 - c) c)
               (fun h c => assign2 h c (hash_size - L_in 4 - c) (hash_size - L_in 5 - c) c)).
    cbn [rbind].
    eval_term (L_in 0).
    match goal with |- context [seq _ ?n] =>
      rewrite !(rev_loop_fold _ _ n) by (try reflexivity; apply Nat.leb_le; reflexivity)
    end.
    eval_term (- Z.of_N (lit Xtxsort.lits_sortableInputSlice_Less 6))%Z.
    now rewrite bytes_compare_tie.
Qed.
Print Assumptions sortableInputSlice_Less_tie.

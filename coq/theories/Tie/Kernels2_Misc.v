(* Tie between the monadic-mode transliterations (Gen/Kernels2.v, regenerated from the Go ASTs on every
   run) of four small functions and the hand-written models:
     coinset.satisfiesTargetValue            ~ CoinSet.satisfies (instantiated with the 64-bit wrap w64)
     txsort.sortableOutputSlice.Less         ~ TxSort.out_less
     txsort.sortableInputSlice.Less          ~ TxSort.in_less
     bchutil.paddedAppend / hdkeychain.paddedAppend ~ Wif.pad_to / HD.padded_append
   No literal of the source is repeated here: closed sub-terms are evaluated. *)
From BU Require Import Lib.Bytes Lib.PolyMod Gen.Kernels2 CoinSet.CoinSet TxSort.TxSort Wif.Wif
  Tie.TieTactics Tie.Kernels2Lib.
From BU Require HD.HD.
From Coq Require Import ZifyBool ZifyN ZifyNat.
Local Open Scope N_scope.   (* CoinSet.v opens Z_scope *)

(* ---------- 1. coinset.satisfiesTargetValue ---------- *)
Lemma wrapZ64_w64 z : Go.wrapZ 64 z = CoinSet.w64 z.
Proof. reflexivity. Qed.

(* for all Z inputs (the model, like the code, wraps only the sum) *)
Theorem satisfiesTargetValue_tie t m tot :
  Kernels2.satisfiesTargetValue t m tot = CoinSet.satisfies CoinSet.w64 t m tot.
Proof.
  unfold Kernels2.satisfiesTargetValue, CoinSet.satisfies.
  rewrite wrapZ64_w64, Z.geb_leb. reflexivity.
Qed.
Print Assumptions satisfiesTargetValue_tie.

(* ---------- 2. txsort.sortableOutputSlice.Less ---------- *)
Lemma bytes_compare_tie a b : Go.bytes_compare a b = TxSort.bytes_compare a b.
Proof.
  revert b; induction a as [|x a IH]; intros [|y b]; cbn [Go.bytes_compare TxSort.bytes_compare];
    try reflexivity.
  all: now rewrite IH.
Qed.

(* i, j (the positions in the slice) only select the elements, whose fields are the other arguments *)
Theorem sortableOutputSlice_Less_tie a b i j :
  Kernels2.sortableOutputSlice_Less (out_value a) (out_value b) (out_script a) (out_script b) i j
  = TxSort.out_less a b.
Proof.
  unfold Kernels2.sortableOutputSlice_Less, TxSort.out_less.
  eval_term (Z.of_N (lit Xtxsort.lits_sortableOutputSlice_Less 0)).
  now rewrite bytes_compare_tie.
Qed.
Print Assumptions sortableOutputSlice_Less_tie.

(* ---------- 4. paddedAppend (wif.go and hdkeychain/extendedkey.go) ---------- *)
Lemma fold_left_append_const {A B} (c : A) (l : list B) acc :
  fold_left (fun acc _ => acc ++ [c]) l acc = acc ++ repeat c (length l).
Proof.
  revert acc; induction l as [|x l IH]; intros acc; cbn [fold_left length repeat];
    [now rewrite app_nil_r|].
  rewrite IH, <- app_assoc. reflexivity.
Qed.

(* int(size) for a uint size *)
Lemma wrapZ64_small (size : N) : size < 2 ^ 63 -> Go.wrapZ 64 (Z.of_N size) = Z.of_N size.
Proof.
  intros H. rewrite wrapZ64_w64. unfold CoinSet.w64.
  change (2 ^ 63) with 9223372036854775808 in H. lia.
Qed.

Lemma wrapZ64_big (size : N) : 2 ^ 63 <= size -> size < 2 ^ 64 -> (Go.wrapZ 64 (Z.of_N size) < 0)%Z.
Proof.
  intros H1 H2. rewrite wrapZ64_w64. unfold CoinSet.w64.
  change (2 ^ 63) with 9223372036854775808 in H1. change (2 ^ 64) with 18446744073709551616 in H2. lia.
Qed.

(* the common shape of the two transliterations *)
Lemma paddedAppend_shape (n : Z) (dst src : list N) :
  fold_left (fun dst (_ : Z) => dst ++ [0]) (Go.zseq 0%Z (Z.to_nat n)) dst ++ src
  = dst ++ repeat 0 (Z.to_nat n) ++ src.
Proof. now rewrite fold_left_append_const, zseq_length, <- app_assoc. Qed.

(* size < 2^63: int(size) = size, the model is exact *)
Theorem wif_paddedAppend_tie size dst src : size < 2 ^ 63 ->
  Kernels2.wif_paddedAppend size dst src = dst ++ Wif.pad_to (N.to_nat size) src.
Proof.
  intros H. unfold Kernels2.wif_paddedAppend, Wif.pad_to.
  rewrite paddedAppend_shape, wrapZ64_small by exact H. do 3 f_equal. lia.
Qed.
Print Assumptions wif_paddedAppend_tie.

(* 2^63 <= size < 2^64 (uint is 64 bits): int(size) is negative, the loop body never runs; the
   model [pad_to (N.to_nat size)] WOULD pad there (with size - len src zeros), so it is exact only
   for size < 2^63 or len src >= size.  All call sites pass the constant 32. *)
Theorem wif_paddedAppend_big size dst src : 2 ^ 63 <= size -> size < 2 ^ 64 ->
  Kernels2.wif_paddedAppend size dst src = dst ++ src.
Proof.
  intros H1 H2. unfold Kernels2.wif_paddedAppend.
  pose proof (wrapZ64_big size H1 H2) as Hneg.
  rewrite paddedAppend_shape.
  replace (Z.to_nat _) with 0%nat by lia. reflexivity.
Qed.
Print Assumptions wif_paddedAppend_big.

Theorem hdkeychain_paddedAppend_tie size dst src : size < 2 ^ 63 ->
  Kernels2.hdkeychain_paddedAppend size dst src = HD.padded_append (N.to_nat size) dst src.
Proof.
  intros H. unfold Kernels2.hdkeychain_paddedAppend, HD.padded_append.
  rewrite paddedAppend_shape, wrapZ64_small by exact H. do 3 f_equal. lia.
Qed.
Print Assumptions hdkeychain_paddedAppend_tie.

Theorem hdkeychain_paddedAppend_tie_pad_to size dst src : size < 2 ^ 63 ->
  Kernels2.hdkeychain_paddedAppend size dst src = dst ++ Wif.pad_to (N.to_nat size) src.
Proof. intros H. now rewrite hdkeychain_paddedAppend_tie. Qed.
Print Assumptions hdkeychain_paddedAppend_tie_pad_to.

Theorem hdkeychain_paddedAppend_big size dst src : 2 ^ 63 <= size -> size < 2 ^ 64 ->
  Kernels2.hdkeychain_paddedAppend size dst src = dst ++ src.
Proof. exact (wif_paddedAppend_big size dst src). Qed.
Print Assumptions hdkeychain_paddedAppend_big.

(* the two functions are the same function *)
Theorem paddedAppend_same size dst src :
  Kernels2.hdkeychain_paddedAppend size dst src = Kernels2.wif_paddedAppend size dst src.
Proof. reflexivity. Qed.

(* Tie between the generated GCSBuilder_Build and buildBasicFilterWithKey (Gen/Kernels3.v, from
   gcs/builder/builder.go) and the model Gcs/GcsBuilder.v (b_build, basic_filter_with_key).

   Build ranges over the entry map in the order [map_order] (any permutation of the entries:
   hypothesis MO) and hands the slice to BuildGCSFilter, which sorts: with  sort_ok (srt N N.ltb)
   (sort.Slice returns a sorted permutation) the result does not depend on that order
   (GcsBuilderProofs.build_perm), so related builders (Kernels3_GcsBuilder.brel: equal as sets)
   give the SAME filter.
   Writer instance: the bit-list writer of Kernels2_Gcs (BuildGCSFilter_tie).
   Error values: model class 1 -> gcs.ErrNTooBig, 2 -> gcs.ErrPTooBig, 5 ('p value is not set') -> site 2,
   6 ('m value is not set') -> site 3 of Build.
   Fuel: quots_fit fuel P 0 (sorted values of the model's entry list), see Kernels3_GcsBuild.v.

   buildBasicFilterWithKey: the *wire.MsgBlock is related to the model's transaction list by
   [block_rel] (no nil pointer inside the block; the model keeps the previous outpoints and the
   pkScripts); bytes.Buffer is a byte list and wire.OutPoint.Serialize any function that appends
   GcsBuilder.ser_outpoint without error (hypothesis OS_spec); chainhash.Hash.CloneBytes is abstract
   (CB), the model receives CB (Some key). *)
From BU Require Import Lib.Bytes Lib.PolyMod Gen.Kernels2 Gen.Kernels3 Gcs.SipHash Gcs.Gcs Gcs.GcsProofs
  Gcs.GcsTheorems Gcs.GcsBuilder Gcs.GcsBuilderProofs Tie.Kernels2Lib Tie.Kernels3Lib Tie.Kernels2_Gcs
  Tie.Kernels3_GcsSer Tie.Kernels3_GcsBuild Tie.Kernels3_GcsBuilder.
From Coq Require Import ZifyBool ZifyN ZifyNat Sorting.Sorted Sorting.Permutation.

(* error classes of b_build -> error values of the translation *)
Definition build_err (e : N) : N :=
  if e =? 1 then Kernels3.gcs_ErrNTooBig else if e =? 2 then Kernels3.gcs_ErrPTooBig
  else if e =? 5 then 2 else if e =? 6 then 3 else e.

Definition build_view (r : res filter) : res (option Kernels3.gcs_Filter * N) :=
  match r with
  | Ok f => Ok (Some (to_gen f), 0)
  | Err e => Ok (None, build_err e)
  | Panic k => Panic k
  end.

Lemma build_values_perm hash sort M key data data' : sort_ok sort -> Permutation data data' ->
  build_values hash sort M key data = build_values hash sort M key data'.
Proof.
  intros [Hs Hp] Hperm. unfold build_values. rewrite (Permutation_length Hperm). cbv zeta.
  set (g := fun d => fast_reduction (hash key d) _ _).
  apply sorted_perm_unique.
  - apply Sorted_StronglySorted; [intros x y z; apply N.le_trans | apply Hs].
  - apply Sorted_StronglySorted; [intros x y z; apply N.le_trans | apply Hs].
  - eapply Permutation_trans; [apply Permutation_sym, Hp|].
    eapply Permutation_trans; [|apply Hp]. apply Permutation_map. exact Hperm.
Qed.

Lemma fold_left_keys {V} (F : list (list N) -> list N * V -> list (list N)) l :
  (forall acc x, F acc x = acc ++ [fst x]) ->
  forall acc, fold_left F l acc = acc ++ map fst l.
Proof.
  intros HF. induction l as [|x t IH]; intros acc; cbn [fold_left map]; [now rewrite app_nil_r|].
  rewrite HF, IH, <- app_assoc. reflexivity.
Qed.

Lemma build_errs hash sort P M key data e : build hash sort P M key data = Err e -> e = 1 \/ e = 2.
Proof.
  unfold build.
  repeat match goal with |- context [if ?c then _ else _] => destruct c end;
    intros Hb; try discriminate; injection Hb; auto.
Qed.

Section BuilderBuild.
  Variable H : list N -> option (list N) -> N.
  Variable srt : forall A : Type, (A -> A -> bool) -> list A -> list A.
  Variable map_order : forall K V : Type, list (K * V) -> list (K * V).
  Hypothesis MO : forall K V (l : list (K * V)), Permutation (map_order K V l) l.
  Hypothesis Hsort : sort_ok (sort_of srt).

  Definition gBuild := Kernels3.GCSBuilder_Build (list bool) (fun _ => []) H srt wr_bit wr_bits pack map_order.

  (* the slice Build hands to BuildGCSFilter is a permutation of the model's entry list *)
  Lemma data_slice_perm g b : brel g b ->
    Permutation (map fst (map_order _ _ (Go3.mentries (Kernels3.builder_GCSBuilder_data g)))) (entries_of b).
  Proof using MO.
    clear Hsort. intros Hr. pose proof (br_data g b Hr) as Hd. unfold data_rel, entries_of in *.
    destruct (Kernels3.builder_GCSBuilder_data g) as [m|], (b_data b) as [l|]; try contradiction; cbn [Go3.mentries].
    - destruct Hd as [Hp _]. eapply Permutation_trans; [apply Permutation_map, MO|exact Hp].
    - pose proof (MO (list N) unit []) as Hn. apply Permutation_sym, Permutation_nil in Hn. rewrite Hn. constructor.
  Qed.

  Theorem Build_tie fuel g b :
    brel g b ->
    N.of_nat (length (entries_of b)) < two64 ->
    quots_fit fuel (b_p b) 0 (build_values (hash_of H) (sort_of srt) (b_m b) (b_key b) (entries_of b)) ->
    gBuild fuel g = build_view (b_build (hash_of H) (sort_of srt) b).
  Proof using MO Hsort.
    intros Hr Hlen Hfit. unfold gBuild, Kernels3.GCSBuilder_Build, b_build.
    latch_cases g b Hr; rewrite Etest, Eberr; [|rewrite Eerr; reflexivity].
    rewrite (br_p g b Hr), (br_m g b Hr), (br_key g b Hr).
    change build_p_unset with 0. change build_m_unset with 0.
    destruct (b_p b =? 0); [reflexivity|]. destruct (b_m b =? 0); [reflexivity|].
    match goal with |- context [fold_left ?F0 ?l0 []] =>
      rewrite (fold_left_keys F0 l0 ltac:(intros acc [k v]; reflexivity)) end. cbn [app].
    pose proof (data_slice_perm g b Hr) as Hp.
    set (ds := map fst _) in *.
    rewrite BuildGCSFilter_tie.
    - rewrite (build_perm _ _ Hsort _ _ _ _ _ Hp).
      destruct (build (hash_of H) (sort_of srt) (b_p b) (b_m b) (b_key b) (entries_of b)) as [f|e|k] eqn:Eb;
        cbn [filter_view rbind build_view]; try reflexivity.
      destruct (build_errs _ _ _ _ _ _ _ Eb) as [-> | ->]; reflexivity.
    - rewrite (Permutation_length Hp). exact Hlen.
    - rewrite (build_values_perm _ _ _ _ _ _ Hsort Hp). exact Hfit.
  Qed.
End BuilderBuild.

Print Assumptions Build_tie.

(* ====================================================================== *)
(*                      buildBasicFilterWithKey                           *)
(* ====================================================================== *)
Lemma is_nonempty_len (s : list N) : (0 <? Z.of_nat (length s))%Z = is_nonempty s.
Proof. destruct s; reflexivity. Qed.

Lemma is_nonempty_len0 (s : list N) : (Z.of_nat (length s) =? 0)%Z = negb (is_nonempty s).
Proof. destruct s; reflexivity. Qed.

Section Basic.
  Variables BlockHeader_t TokenData_t : Type.
  Variable H : list N -> option (list N) -> N.
  Variable srt : forall A : Type, (A -> A -> bool) -> list A -> list A.
  Variable map_order : forall K V : Type, list (K * V) -> list (K * V).
  Variable CB : option (list N) -> list N.
  Variable OS : Kernels3.wire_OutPoint -> list N -> N * list N.
  Hypothesis MO : forall K V (l : list (K * V)), Permutation (map_order K V l) l.
  Hypothesis Hsort : sort_ok (sort_of srt).

  Definition abs_op (op : Kernels3.wire_OutPoint) : outpoint :=
    mkOutpoint (Kernels3.wire_OutPoint_Hash op) (Kernels3.wire_OutPoint_Index op).
  Definition abs_in (i : Kernels3.wire_TxIn) : outpoint := abs_op (Kernels3.wire_TxIn_PreviousOutPoint i).

  (* wire.OutPoint.Serialize into an empty buffer: no error, the bytes of the model *)
  Hypothesis OS_spec : forall op, OS op [] = (0, ser_outpoint (abs_op op)).

  Local Notation TxOut := (Kernels3.wire_TxOut TokenData_t).
  Local Notation MsgTx := (Kernels3.wire_MsgTx TokenData_t).
  Local Notation MsgBlock := (Kernels3.wire_MsgBlock BlockHeader_t TokenData_t).

  (* no nil pointer inside the block; the model keeps the previous outpoints and the pkScripts *)
  Definition tx_rel (tg : option MsgTx) (t : tx) : Prop :=
    exists m ins outs, tg = Some m /\
      Kernels3.wire_MsgTx_TxIn _ m = map Some ins /\ Kernels3.wire_MsgTx_TxOut _ m = map Some outs /\
      tx_ins t = map abs_in ins /\ tx_outs t = map (Kernels3.wire_TxOut_PkScript TokenData_t) outs.

  Definition block_rel (blk : option MsgBlock) (txs : list tx) : Prop :=
    exists mb, blk = Some mb /\ Forall2 tx_rel (Kernels3.wire_MsgBlock_Transactions _ _ mb) txs.

  Definition gBasic :=
    Kernels3.buildBasicFilterWithKey BlockHeader_t TokenData_t (list bool) (list N) (fun _ => []) H srt
      wr_bit wr_bits pack (fun b => b) [] CB map_order OS.

  (* the loop bodies of the generated function, with the instantiations above *)
  Definition fin (i : Z) : option G -> option Kernels3.wire_TxIn -> res (option G) :=
    fun b txIn =>
      if (i =? 0)%Z then Ok b else
      do t7_ <- Go3.deref txIn ;;
      let '(t8_, t9_) := OS (Kernels3.wire_TxIn_PreviousOutPoint t7_) [] in
      if negb (t8_ =? 0) then Ok b else
      do b <- (if (0 <? Z.of_nat (length t9_))%Z then
                 do t10_ <- Go3.deref b ;;
                 do (t11_, t12_) <- Kernels3.GCSBuilder_AddEntry t10_ t9_ ;;
                 Ok (Some t12_)
               else Ok b) ;;
      Ok b.

  Definition fout : option G -> option TxOut -> res (option G) :=
    fun b txOut =>
      do t14_ <- Go3.deref txOut ;;
      if (Z.of_nat (length (Kernels3.wire_TxOut_PkScript _ t14_)) =? 0)%Z then Ok b else
      do t15_ <- Go3.deref b ;;
      do t16_ <- Go3.deref txOut ;;
      do (t17_, t18_) <- Kernels3.GCSBuilder_AddEntry t15_ (Kernels3.wire_TxOut_PkScript _ t16_) ;;
      Ok (Some t18_).

  Definition ftx : option G -> Z * option MsgTx -> res (option G) :=
    fun b '(i, tx) =>
      do t6_ <- Go3.deref tx ;;
      do b <- Go.foldM (fin i) (Kernels3.wire_MsgTx_TxIn _ t6_) b ;;
      do t13_ <- Go3.deref tx ;;
      do b <- Go.foldM fout (Kernels3.wire_MsgTx_TxOut _ t13_) b ;;
      Ok b.

  Definition opt_res (r : res (option G)) (rb : res builder) : Prop :=
    match rb with
    | Ok b' => exists g', r = Ok (Some g') /\ brel g' b'
    | Panic k => r = Panic k
    | Err _ => False
    end.

  Lemma inputs_loop i ins : forall g b, brel g b ->
    opt_res (Go.foldM (fin (Z.of_nat i)) (map Some ins) (Some g)) (add_inputs i b (map abs_in ins)).
  Proof using OS_spec.
    clear MO Hsort. induction ins as [|x t IH]; intros g b Hr; cbn [map Go.foldM add_inputs opt_res].
    - exists g. split; [reflexivity|exact Hr].
    - change coinbase_index with 0. unfold fin at 1. destruct i as [|i'].
      + change (Z.of_nat 0 =? 0)%Z with true. change (N.of_nat 0 =? 0) with true. cbv iota. apply IH. exact Hr.
      + replace (Z.of_nat (S i') =? 0)%Z with false by (symmetry; apply Z.eqb_neq; lia).
        replace (N.of_nat (S i') =? 0) with false by (symmetry; apply N.eqb_neq; lia).
        cbn [Go3.deref rbind]. fold (abs_in x). unfold abs_in at 1. rewrite OS_spec. fold (abs_in x).
        change (negb (0 =? 0)) with false. cbv iota.
        rewrite is_nonempty_len, ser_outpoint_nonempty. cbn [Go3.deref rbind].
        pose proof (AddEntry_tie g b (ser_outpoint (abs_in x)) Hr) as Ha.
        destruct (add_entry b (ser_outpoint (abs_in x))) as [b1|?|k]; cbn [step_res rbind] in *;
          [|exact Ha|now rewrite Ha].
        destruct Ha as (g1 & -> & H1). cbn [rbind]. apply IH. exact H1.
  Qed.

  Lemma outputs_loop outs : forall g b, brel g b ->
    opt_res (Go.foldM fout (map Some outs) (Some g))
            (add_outputs b (map (Kernels3.wire_TxOut_PkScript TokenData_t) outs)).
  Proof using.
    clear MO Hsort OS_spec. induction outs as [|x t IH]; intros g b Hr; cbn [map Go.foldM add_outputs opt_res].
    - exists g. split; [reflexivity|exact Hr].
    - unfold fout at 1. cbn [Go3.deref rbind]. rewrite is_nonempty_len0.
      destruct (is_nonempty (Kernels3.wire_TxOut_PkScript TokenData_t x)); cbn [negb]; [|apply IH; exact Hr].
      pose proof (AddEntry_tie g b (Kernels3.wire_TxOut_PkScript TokenData_t x) Hr) as Ha.
      destruct (add_entry b (Kernels3.wire_TxOut_PkScript TokenData_t x)) as [b1|?|k]; cbn [step_res rbind] in *;
        [|exact Ha|now rewrite Ha].
      destruct Ha as (g1 & -> & H1). cbn [rbind]. apply IH. exact H1.
  Qed.

  Lemma txs_loop l : forall txs i g b, Forall2 tx_rel l txs -> brel g b ->
    opt_res (Go.foldM ftx (List.combine (Go.zseq (Z.of_nat i) (length l)) l) (Some g)) (add_txs i b txs).
  Proof using OS_spec.
    clear MO Hsort. induction l as [|tg l IH]; intros txs i g b HF Hr; inversion HF as [|? t ? rest Ht Hrest]; subst;
      cbn [length Go.zseq List.combine Go.foldM add_txs opt_res].
    - exists g. split; [reflexivity|exact Hr].
    - destruct Ht as (m & ins & outs & -> & Ein & Eout & Eti & Eto).
      unfold ftx at 1. cbn [Go3.deref rbind]. rewrite Ein, Eout, Eti, Eto.
      pose proof (inputs_loop i ins g b Hr) as Hi.
      destruct (add_inputs i b (map abs_in ins)) as [b1|?|k]; cbn [opt_res rbind] in *; [|exact Hi|now rewrite Hi].
      destruct Hi as (g1 & -> & H1). cbn [rbind].
      pose proof (outputs_loop outs g1 b1 H1) as Ho.
      destruct (add_outputs b1 (map (Kernels3.wire_TxOut_PkScript TokenData_t) outs)) as [b2|?|k];
        cbn [opt_res rbind] in *; [|exact Ho|now rewrite Ho].
      destruct Ho as (g2 & -> & H2). cbn [rbind].
      replace (Z.of_nat i + 1)%Z with (Z.of_nat (S i)) by lia.
      apply IH; assumption.
  Qed.

  (* the entries of the block (GcsBuilderProofs.block_entries) as the duplicate-free list the model builds *)
  Definition basic_entries (txs : list tx) : list (list N) := add_all [] (block_entries 0 txs).

  Theorem buildBasicFilterWithKey_tie fuel blk key txs :
    block_rel blk txs ->
    N.of_nat (length (basic_entries txs)) < two64 ->
    quots_fit fuel default_p 0
      (build_values (hash_of H) (sort_of srt) default_m (derive_key (CB (Some key))) (basic_entries txs)) ->
    gBasic fuel blk key = build_view (basic_filter_with_key (hash_of H) (sort_of srt) txs (CB (Some key))).
  Proof using MO Hsort OS_spec.
    intros (mb & -> & HF) Hlen Hfit. unfold gBasic, Kernels3.buildBasicFilterWithKey, basic_filter_with_key.
    destruct (WithKeyHash_tie CB (Some key) ltac:(discriminate)) as (g0 & -> & H0). cbn [rbind Go3.deref].
    rewrite (Key_tie g0 _ H0). rewrite with_key_hash_eq in *.
    cbn [b_key_get b_err key_view rbind]. change (negb (0 =? 0)) with false. cbv iota.
    match goal with |- context [Go.foldM ?F0 (Go.enum ?l0) (Some g0)] =>
      change (Go.foldM F0 (Go.enum l0) (Some g0)) with
             (Go.foldM ftx (List.combine (Go.zseq (Z.of_nat 0) (length l0)) l0) (Some g0)) end.
    pose proof (txs_loop _ txs 0%nat g0 _ HF H0) as Hl.
    set (b0 := mkBuilder default_p default_m (derive_key (CB (Some key))) (Some []) None) in *.
    pose proof (add_txs_live b0 eq_refl txs 0 []) as Hlive. change (with_data b0 []) with b0 in Hlive.
    fold (basic_entries txs) in Hlive. rewrite Hlive in *. cbn [opt_res rbind] in *.
    destruct Hl as (g' & -> & Hr'). cbn [rbind Go3.deref].
    pose proof (Build_tie H srt map_order MO Hsort fuel g' _ Hr' Hlen Hfit) as Hb. unfold gBuild in Hb.
    rewrite Hb. unfold b_build. cbn [with_data b_err b_p b_m b_key b0 entries_of b_data].
    change (default_p =? build_p_unset) with false. change (default_m =? build_m_unset) with false. cbv iota.
    destruct (build (hash_of H) (sort_of srt) default_p default_m (derive_key (CB (Some key))) (basic_entries txs))
      as [f|e|k] eqn:Eb; cbn [build_view rbind]; try reflexivity.
    destruct (build_errs _ _ _ _ _ _ _ Eb) as [-> | ->]; reflexivity.
  Qed.
End Basic.

Print Assumptions buildBasicFilterWithKey_tie.

(* sanity: the ties compute on a small block (a generic insertion sort for sort.Slice, reversed map order) *)
Fixpoint gins {A : Type} (lt : A -> A -> bool) (x : A) (l : list A) : list A :=
  match l with [] => [x] | y :: t => if lt y x then y :: gins lt x t else x :: l end.
Definition gsort (A : Type) (lt : A -> A -> bool) (l : list A) : list A := fold_right (gins lt) [] l.

Example basic3_example :
  let H := fun (d : list N) (_ : option (list N)) => (fold_left N.add d 0 * 1234567890123456789) mod 2 ^ 64 in
  let CB := fun o : option (list N) => match o with Some h => h | None => [] end in
  let OS := fun (op : Kernels3.wire_OutPoint) (buf : list N) => (0, buf ++ ser_outpoint (abs_op op)) in
  let mo := fun (K V : Type) (l : list (K * V)) => rev l in
  let txin := fun h i => Some (Kernels3.mk_wire_TxIn (Kernels3.mk_wire_OutPoint h i) [] 0) in
  let txout := fun s => Some (Kernels3.mk_wire_TxOut unit 0%Z s tt) in
  let blk := Some (Kernels3.mk_wire_MsgBlock unit unit tt
       [Some (Kernels3.mk_wire_MsgTx unit 1%Z [txin (repeat 0 32) 4294967295] [txout [1;2;3]; txout []] 0);
        Some (Kernels3.mk_wire_MsgTx unit 1%Z [txin (repeat 7 32) 1] [txout [1;2;3]; txout [9]] 0)]) in
  let txs := [mkTx [mkOutpoint (repeat 0 32) 4294967295] [[1;2;3]; []];
              mkTx [mkOutpoint (repeat 7 32) 1] [[1;2;3]; [9]]] in
  block_rel unit unit blk txs /\
  basic_entries txs = [[1;2;3]; repeat 7 32 ++ [1;0;0;0]; [9]] /\
  gBasic unit unit H gsort mo CB OS 64 blk (repeat 5 32) =
    build_view (basic_filter_with_key (hash_of H) (sort_of gsort) txs (CB (Some (repeat 5 32)))) /\
  exists f, gBasic unit unit H gsort mo CB OS 64 blk (repeat 5 32) = Ok (Some f, 0) /\ Kernels3.gcs_Filter_n f = 3.
Proof.
  cbv zeta. split; [|split; [vm_compute; reflexivity|split; [vm_compute; reflexivity|]]].
  - eexists. split; [reflexivity|]. cbn [Kernels3.wire_MsgBlock_Transactions].
    repeat constructor; eexists; eexists; eexists; (split; [reflexivity|]);
      cbn [Kernels3.wire_MsgTx_TxIn Kernels3.wire_MsgTx_TxOut];
      (split; [instantiate (1 := [_]); reflexivity|]); (split; [instantiate (1 := [_; _]); reflexivity|]);
      split; reflexivity.
  - eexists. split; [vm_compute; reflexivity|reflexivity].
Qed.

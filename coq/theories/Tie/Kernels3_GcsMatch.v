(* Tie between the generated query functions (Gen/Kernels3.v, from gcs/gcs.go: gcs_Filter_Match,
   gcs_Filter_ZipMatchAny, gcs_Filter_HashMatchAny, gcs_Filter_MatchAny) and the model Gcs/Gcs.v
   (gmatch / match_loop, zip_match_any / zip_loop / zip_inner, hash_match_any / decode_all / mem, match_any).

   Dependencies: the bit-stream reader is abstract (type B, ReadBit, ReadBits, NewBStreamReader) with
   [reader_ok] (Kernels3_GcsRead.v: the methods read the bit-list view, the only error is io.EOF) and
   [NR d] presenting the bits of d; siphash.Sum64 is any function H (the model's hash is
   hash_of H = fun key d => H d (Some key)); sort.Slice is any function srt (model sort = srt N N.ltb,
   no assumption needed for the tie).  Instances at the end: the bit-list reader and the byte/offset
   machine of Gcs/BStream.v.

   Domain: dom (f_data f), where [dom] is the set of byte strings NR presents faithfully (True for the
   bit-list instance, Bytes for the BStream instance, whose invariant needs bytes < 256), and
   f_p f <= 64 (P <= 32 for every filter the constructors accept).
   Fuel: 8 * length (f_data f) < fuel, i.e. Gcs.fuel_of f <= fuel, for Match and HashMatchAny (the
   unary loop of readFullUint64 and the decode-until-EOF loop run at most once per bit, plus the
   iteration that sees EOF); ZipMatchAny additionally needs  length values < fuel  for its inner
   `for {}` (at most one iteration per query value plus one), values being the sorted query list.
   Results are seen through bool_view: Ok b -> (b, nil). *)
From BU Require Import Lib.Bytes Lib.PolyMod Gen.Kernels Gen.Kernels2 Gen.Kernels3 Gcs.SipHash Gcs.Gcs Gcs.GcsProofs
  Gcs.GcsBitsProofs Gcs.GcsMatchProofs Gcs.BStream Gcs.BStreamProofs Tie.KernelsTie Tie.Kernels2Lib Tie.Kernels3Lib
  Tie.Kernels2_Gcs Tie.Kernels3_GcsSer Tie.Kernels3_GcsRead Tie.Kernels3_GcsBuild.
From Coq Require Import ZifyBool ZifyN ZifyNat.

Definition bool_view (r : res bool) : res (bool * N) :=
  match r with Ok b => Ok (b, 0) | Err e => Err e | Panic k => Panic k end.

(* outcome of a generated loop whose model returns r: either it returned (r, nil) from inside, or it ran to
   its end (the code after the loop returns false, nil) *)
Definition loop_res {S : Type} (t : res (Go.ctl S (bool * N))) (r : bool) : Prop :=
  t = Ok (Go.Ret (r, 0)) \/ (r = false /\ exists s, t = Ok (Go.Next s)).

Lemma nseq_S a n : Go.nseq a (S n) = a :: Go.nseq (a + 1) n.
Proof. reflexivity. Qed.

Lemma EOF_tests : negb (EOF =? 0) = true /\ (EOF =? Kernels3.io_EOF) = true.
Proof. split; reflexivity. Qed.

(* ---------- maps with N keys ---------- *)
Definition has_key (m : list (N * unit)) (v : N) : bool :=
  match Go3.map_get N.eqb m v with Some _ => true | None => false end.

Lemma map_get_del_other (m : list (N * unit)) k v : (k =? v) = false ->
  Go3.map_get N.eqb (Go3.map_del N.eqb m k) v = Go3.map_get N.eqb m v.
Proof.
  intros Hkv. induction m as [|[k' x] t IH]; [reflexivity|]. cbn [Go3.map_del Go3.map_get].
  destruct (N.eqb_spec k' k) as [->|Hne].
  - rewrite Hkv. exact IH.
  - cbn [Go3.map_get]. destruct (k' =? v); [reflexivity|exact IH].
Qed.

Lemma has_key_set m k v : has_key (Go3.map_set N.eqb m k tt) v = (v =? k) || has_key m v.
Proof.
  unfold has_key, Go3.map_set. cbn [Go3.map_get]. rewrite (N.eqb_sym v k).
  destruct (k =? v) eqn:E; [reflexivity|]. now rewrite map_get_del_other.
Qed.

Section Match3.
  Context {B : Type}.
  Variable view : B -> list bool.
  Variable inv : B -> Prop.
  Variable RB : B -> bool * N * B.
  Variable RBs : B -> Z -> N * N * B.
  Variable NR : list N -> B.
  Variable dom : list N -> Prop.       (* the byte strings NR presents faithfully *)
  Variable H : list N -> option (list N) -> N.
  Variable srt : forall A : Type, (A -> A -> bool) -> list A -> list A.
  Hypothesis Hok : reader_ok view inv RB RBs.
  Hypothesis HNR : forall d, dom d -> view (NR d) = bits_of_bytes d /\ inv (NR d).

  Local Notation readFull := (Kernels3.gcs_Filter_readFullUint64 B RB RBs).

  (* ============================== Match ============================== *)
  Lemma match_fold fuel g term (F : B * N -> N -> res (Go.ctl (B * N) (bool * N))) :
    Kernels3.gcs_Filter_p g <= 64 ->
    (forall b value i, F (b, value) i =
       do (d, e, b') <- readFull fuel g b ;;
       if negb (e =? 0) then
         if e =? Kernels3.io_EOF then Ok (Go.Ret (false, 0)) else Ok (Go.Ret (false, Go3.prop 2 e))
       else
         let value := (value + d) mod 2 ^ 64 in
         if value =? term then Ok (Go.Ret (true, 0))
         else if term <? value then Ok (Go.Ret (false, 0))
         else Ok (Go.Next (b', value))) ->
    forall n i b value k, inv b -> (length (view b) <= fuel)%nat -> (length (view b) < k)%nat ->
      exists r, match_loop k (Kernels3.gcs_Filter_p g) (N.of_nat n) (view b) value term = Ok r /\
                loop_res (Go.foldC F (Go.nseq i n) (b, value)) r.
  Proof using Hok.
    clear HNR NR H srt dom. intros HP HF.
    induction n as [|n IH]; intros i b value k Hi Hf Hk; (destruct k as [|k]; [lia|]).
    - exists false. split; [reflexivity|]. right. split; [reflexivity|]. eexists. reflexivity.
    - rewrite nseq_S. cbn [Go.foldC match_loop]. rewrite HF.
      replace (N.of_nat (S n) =? 0) with false by (symmetry; apply N.eqb_neq; lia).
      pose proof (readFullUint64_generic view inv RB RBs Hok fuel g b Hi HP Hf) as Hr.
      destruct (read_full (Kernels3.gcs_Filter_p g) (view b)) as [[d t]|] eqn:Er.
      + destruct Hr as (b' & -> & Hv' & Hi'). cbn [rbind]. change (negb (0 =? 0)) with false. cbv iota zeta.
        rewrite w64_eq.
        destruct (w64 (value + d) =? term); [exists true; split; [reflexivity|left; reflexivity]|].
        destruct (term <? w64 (value + d)); [exists false; split; [reflexivity|left; reflexivity]|].
        apply read_full_consumes in Er.
        replace (N.of_nat (S n) - 1) with (N.of_nat n) by lia. rewrite <- Hv'.
        apply IH; [exact Hi' | rewrite Hv'; lia | rewrite Hv'; lia].
      + destruct Hr as (b' & ->). cbn [rbind]. destruct EOF_tests as [-> ->].
        exists false. split; [reflexivity|left; reflexivity].
  Qed.

  Theorem Match_generic fuel f key d :
    dom (f_data f) -> f_p f <= 64 -> (8 * length (f_data f) < fuel)%nat ->
    Kernels3.gcs_Filter_Match B RB RBs H NR fuel (to_gen f) key d = bool_view (gmatch (hash_of H) f key d).
  Proof using Hok HNR.
    clear srt. intros Hb HP Hfuel. unfold Kernels3.gcs_Filter_Match, gmatch.
    rewrite Bytes_gen. cbn [rbind]. change (negb (0 =? 0)) with false. cbv iota zeta.
    cbn [to_gen Kernels3.gcs_Filter_filterData Kernels3.gcs_Filter_modulusNP Kernels3.gcs_Filter_N
         Kernels3.gcs_Filter_n].
    fold (to_gen f). rewrite mod32_mod64, fastReduction_tie.
    destruct (HNR (f_data f) Hb) as [Hv Hi].
    match goal with |- context [Go.foldC ?F0 _ _] => set (F := F0) end.
    pose proof (bits_of_bytes_length (f_data f)) as Hl.
    destruct (match_fold fuel (to_gen f) (fast_reduction (H d (Some key)) (N.shiftr (f_mod f) 32) (f_mod f mod 2 ^ 32)) F
                HP ltac:(intros; reflexivity) (N.to_nat (f_n f)) 0 (NR (f_data f)) 0 (fuel_of f) Hi
                ltac:(rewrite Hv; lia) ltac:(rewrite Hv; unfold fuel_of; lia)) as (r & Hm & Hr).
    rewrite N2Nat.id, Hv in Hm. change match_i0 with 0. rewrite N.sub_0_r.
    change (f_p f) with (Kernels3.gcs_Filter_p (to_gen f)).
    unfold reduce_with, hash_of, lo32. change match_hshift with 32. change two32 with (2 ^ 32).
    rewrite Hm. cbn [bool_view].
    destruct Hr as [->|(-> & s & ->)]; [reflexivity|]. cbn [rbind]. destruct s. reflexivity.
  Qed.

  (* ============================== ZipMatchAny ============================== *)
  (* the inner `for { switch .. }` over the query index *)
  Lemma zip_inner_while values value (cond : Z -> bool) (body : Z -> res (Go.ctl Z (bool * N))) :
    (forall qi, cond qi = true) ->
    (forall qi, body qi =
       if (qi =? Z.of_nat (length values))%Z then Ok (Go.Ret (false, 0)) else
       do t6 <- Go.idx values qi ;;
       if t6 =? value then Ok (Go.Ret (true, 0)) else
       do t7 <- Go.idx values qi ;;
       if value <? t7 then Ok (Go.Brk qi) else Ok (Go.Next (qi + 1)%Z)) ->
    forall m j fuel, (j <= length values)%nat -> (length values - j = m)%nat -> (m < fuel)%nat ->
      match zip_inner (skipn j values) value with
      | ZDone r => Go.whileC fuel cond body (Z.of_nat j) = Ok (Go.Ret (r, 0))
      | ZNext qs' => exists j', Go.whileC fuel cond body (Z.of_nat j) = Ok (Go.Next (Z.of_nat j')) /\
                                qs' = skipn j' values /\ (j' <= length values)%nat
      end.
  Proof.
    clear Hok HNR. clear view inv RB RBs NR dom H srt. intros Hcond Hbody. induction m as [|m IH]; intros j fuel Hj Hm Hf;
      (destruct fuel as [|fuel]; [lia|]); rewrite whileC_unfold, Hcond, Hbody.
    - assert (j = length values) by lia. subst j. rewrite Z.eqb_refl, skipn_all. reflexivity.
    - destruct (Z.eqb_spec (Z.of_nat j) (Z.of_nat (length values))) as [E|_]; [lia|].
      destruct (nth_error values j) as [q|] eqn:En; [|apply nth_error_None in En; lia].
      assert (Es : skipn j values = q :: skipn (S j) values).
      { clear -En. revert j En. induction values as [|x t IHv]; intros [|j] En; try discriminate.
        - injection En as ->. reflexivity.
        - cbn [nth_error] in En. cbn [skipn]. now apply IHv. }
      rewrite Es. cbn [zip_inner]. rewrite (idx_ok values j q En). cbn [rbind].
      destruct (q =? value); [reflexivity|].
      destruct (value <? q).
      + exists j. split; [reflexivity|]. split; [symmetry; exact Es|exact Hj].
      + replace (Z.of_nat j + 1)%Z with (Z.of_nat (S j)) by lia. apply IH; lia.
  Qed.

  Lemma zip_fold fuel g values (F : B * N * Z -> N -> res (Go.ctl (B * N * Z) (bool * N))) :
    Kernels3.gcs_Filter_p g <= 64 -> (length values < fuel)%nat ->
    (forall b value qi i, F (b, value, qi) i =
       do (d, e, b') <- readFull fuel g b ;;
       if negb (e =? 0) then
         if e =? Kernels3.io_EOF then Ok (Go.Ret (false, 0)) else Ok (Go.Ret (false, Go3.prop 2 e))
       else
         let value := (value + d) mod 2 ^ 64 in
         do t8 <- Go.whileC (R := bool * N) fuel (fun _ : Z => true) (fun qi : Z =>
             if (qi =? Z.of_nat (length values))%Z then Ok (Go.Ret (false, 0)) else
             do t6 <- Go.idx values qi ;;
             if t6 =? value then Ok (Go.Ret (true, 0)) else
             do t7 <- Go.idx values qi ;;
             if value <? t7 then Ok (Go.Brk qi) else Ok (Go.Next (qi + 1)%Z)) qi ;;
         match t8 with
         | Go.Ret r => Ok (Go.Ret r)
         | Go.Next qi' | Go.Brk qi' => Ok (Go.Next (b', value, qi'))
         end) ->
    forall n i b value j k, inv b -> (j <= length values)%nat ->
      (length (view b) <= fuel)%nat -> (length (view b) < k)%nat ->
      exists r, zip_loop k (Kernels3.gcs_Filter_p g) (N.of_nat n) (view b) value (skipn j values) = Ok r /\
                loop_res (Go.foldC F (Go.nseq i n) (b, value, Z.of_nat j)) r.
  Proof using Hok.
    clear HNR NR H srt dom. intros HP Hq HF.
    induction n as [|n IH]; intros i b value j k Hi Hj Hf Hk; (destruct k as [|k]; [lia|]).
    - exists false. split; [reflexivity|]. right. split; [reflexivity|]. eexists. reflexivity.
    - rewrite nseq_S. cbn [Go.foldC zip_loop]. rewrite HF.
      replace (N.of_nat (S n) =? 0) with false by (symmetry; apply N.eqb_neq; lia).
      pose proof (readFullUint64_generic view inv RB RBs Hok fuel g b Hi HP Hf) as Hr.
      destruct (read_full (Kernels3.gcs_Filter_p g) (view b)) as [[d t]|] eqn:Er.
      + destruct Hr as (b' & -> & Hv' & Hi'). cbn [rbind]. change (negb (0 =? 0)) with false. cbv iota zeta.
        rewrite w64_eq.
        match goal with |- context [Go.whileC _ ?c0 ?bd _] => set (cond := c0); set (body := bd) end.
        pose proof (zip_inner_while values (w64 (value + d)) cond body ltac:(intros; reflexivity)
                      ltac:(intros; reflexivity) (length values - j)%nat j fuel Hj eq_refl ltac:(lia)) as Hin.
        destruct (zip_inner (skipn j values) (w64 (value + d))) as [r|qs'].
        * rewrite Hin. cbn [rbind]. exists r. split; [reflexivity|left; reflexivity].
        * destruct Hin as (j' & -> & -> & Hj'). cbn [rbind].
          apply read_full_consumes in Er.
          replace (N.of_nat (S n) - 1) with (N.of_nat n) by lia. rewrite <- Hv'.
          apply IH; [exact Hi' | exact Hj' | rewrite Hv'; lia | rewrite Hv'; lia].
      + destruct Hr as (b' & ->). cbn [rbind]. destruct EOF_tests as [-> ->].
        exists false. split; [reflexivity|left; reflexivity].
  Qed.

  (* the sorted query values *)
  Definition query_values (f : filter) (key : list N) (data : list (list N)) : list N :=
    sort_of srt (map (fun d => reduce_with zip_hshift f (hash_of H key d)) data).

  Theorem ZipMatchAny_generic fuel f key data :
    dom (f_data f) -> f_p f <= 64 -> (8 * length (f_data f) < fuel)%nat ->
    (length (query_values f key data) < fuel)%nat ->
    Kernels3.gcs_Filter_ZipMatchAny B RB RBs H srt NR fuel (to_gen f) key data =
    bool_view (zip_match_any (hash_of H) (sort_of srt) f key data).
  Proof using Hok HNR.
    intros Hb HP Hfuel Hq. unfold Kernels3.gcs_Filter_ZipMatchAny, zip_match_any.
    destruct data as [|d0 data']; [reflexivity|].
    set (data := d0 :: data') in *.
    destruct (Z.eqb_spec (Z.of_nat (length data)) 0) as [E|_]; [cbn [data length] in E; lia|].
    rewrite Bytes_gen. cbn [rbind]. change (negb (0 =? 0)) with false. cbv iota zeta.
    cbn [to_gen Kernels3.gcs_Filter_filterData Kernels3.gcs_Filter_modulusNP Kernels3.gcs_Filter_N
         Kernels3.gcs_Filter_n].
    fold (to_gen f). rewrite mod32_mod64.
    rewrite (fold_left_append_map (fun d => Kernels.fastReduction (H d (Some key)) (N.shiftr (f_mod f) 32) (f_mod f mod 2 ^ 32))).
    cbn [app].
    assert (Ev : srt N (fun a_ b_ : N => a_ <? b_)
                   (map (fun d => Kernels.fastReduction (H d (Some key)) (N.shiftr (f_mod f) 32) (f_mod f mod 2 ^ 32)) data)
                 = query_values f key data).
    { unfold query_values, sort_of, hash_of, reduce_with, lo32. change zip_hshift with 32.
      change two32 with (2 ^ 32). f_equal. apply map_ext. intros d. apply fastReduction_tie. }
    rewrite Ev. fold (query_values f key data). set (values := query_values f key data) in *.
    destruct (HNR (f_data f) Hb) as [Hv Hi].
    match goal with |- context [Go.foldC ?F0 _ _] => set (F := F0) end.
    pose proof (bits_of_bytes_length (f_data f)) as Hl.
    destruct (zip_fold fuel (to_gen f) values F HP Hq ltac:(intros; reflexivity)
                (N.to_nat (f_n f)) 0 (NR (f_data f)) 0 0%nat (fuel_of f) Hi ltac:(lia)
                ltac:(rewrite Hv; lia) ltac:(rewrite Hv; unfold fuel_of; lia)) as (r & Hm & Hr).
    rewrite N2Nat.id, Hv in Hm. cbn [skipn] in Hm. change zip_i0 with 0. rewrite N.sub_0_r.
    change (f_p f) with (Kernels3.gcs_Filter_p (to_gen f)).
    rewrite Hm. cbn [bool_view]. change (Z.of_nat 0) with 0%Z in Hr.
    destruct Hr as [->|(-> & s & ->)]; [reflexivity|]. cbn [rbind]. destruct s as [[? ?] ?]. reflexivity.
  Qed.

  (* ============================== HashMatchAny ============================== *)
  Local Notation hst := (B * N * option (list (N * unit)))%type.

  Lemma hash_while fuel g (cond : hst -> bool) (body : hst -> res (Go.ctl hst (bool * N))) :
    Kernels3.gcs_Filter_p g <= 64 ->
    (forall s, cond s = true) ->
    (forall b last values, body (b, last, values) =
       do (d, e, b') <- readFull fuel g b ;;
       if e =? 0 then
         let last := (last + d) mod 2 ^ 64 in
         do values <- Go3.mset N.eqb values last tt ;;
         Ok (Go.Next (b', last, values))
       else if e =? Kernels3.io_EOF then Ok (Go.Brk (b', last, values))
       else Ok (Go.Ret (false, Go3.prop 2 e))) ->
    forall k fuel' b last m, inv b -> (length (view b) <= fuel)%nat ->
      (length (view b) < k)%nat -> (length (view b) < fuel')%nat ->
      exists vs b' last' m',
        decode_all k (Kernels3.gcs_Filter_p g) (view b) last = Ok vs /\
        Go.whileC fuel' cond body (b, last, Some m) = Ok (Go.Next (b', last', Some m')) /\
        forall v, has_key m' v = mem v vs || has_key m v.
  Proof using Hok.
    clear HNR NR H srt dom. intros HP Hcond Hbody.
    induction k as [|k IH]; intros fuel' b last m Hi Hf Hk Hf'; [lia|].
    destruct fuel' as [|fuel']; [lia|].
    rewrite whileC_unfold, Hcond, Hbody. cbn [decode_all].
    pose proof (readFullUint64_generic view inv RB RBs Hok fuel g b Hi HP Hf) as Hr.
    destruct (read_full (Kernels3.gcs_Filter_p g) (view b)) as [[d t]|] eqn:Er.
    - destruct Hr as (b' & -> & Hv' & Hi'). cbn [rbind Go3.mset]. change (0 =? 0) with true. cbv iota zeta.
      rewrite w64_eq. cbn [rbind].
      apply read_full_consumes in Er.
      destruct (IH fuel' b' (w64 (last + d)) (Go3.map_set N.eqb m (w64 (last + d)) tt) Hi'
                  ltac:(rewrite Hv'; lia) ltac:(rewrite Hv'; lia) ltac:(rewrite Hv'; lia))
        as (vs & b'' & last'' & m'' & Hd & Hw & Hkeys).
      rewrite Hv' in Hd. rewrite Hd, Hw. cbn [rbind].
      exists (w64 (last + d) :: vs), b'', last'', m''. split; [reflexivity|]. split; [reflexivity|].
      intros v. rewrite Hkeys, has_key_set, mem_cons.
      destruct (v =? w64 (last + d)), (mem v vs); reflexivity.
    - destruct Hr as (b' & ->). cbn [rbind]. change (EOF =? 0) with false. change (EOF =? Kernels3.io_EOF) with true.
      cbv iota. exists [], b', last, m. split; [reflexivity|]. split; [reflexivity|]. intros v. reflexivity.
  Qed.

  Lemma exists_foldC (p : list N -> bool) (G : unit -> list N -> res (Go.ctl unit (bool * N))) :
    (forall u d, G u d = if negb (p d) then Ok (Go.Next tt) else Ok (Go.Ret (true, 0))) ->
    forall data, Go.foldC G data tt = Ok (if existsb p data then Go.Ret (true, 0) else Go.Next tt).
  Proof.
    clear Hok HNR. clear view inv RB RBs NR dom H srt. intros HG. induction data as [|d t IH]; [reflexivity|]. cbn [Go.foldC existsb]. rewrite HG.
    destruct (p d); cbn [negb orb]; [reflexivity|exact IH].
  Qed.

  Theorem HashMatchAny_generic fuel f key data :
    dom (f_data f) -> f_p f <= 64 -> (8 * length (f_data f) < fuel)%nat ->
    Kernels3.gcs_Filter_HashMatchAny B RB RBs H NR fuel (to_gen f) key data =
    bool_view (hash_match_any (hash_of H) f key data).
  Proof using Hok HNR.
    clear srt. intros Hb HP Hfuel. unfold Kernels3.gcs_Filter_HashMatchAny, hash_match_any.
    destruct data as [|d0 data']; [reflexivity|].
    set (data := d0 :: data') in *.
    destruct (Z.eqb_spec (Z.of_nat (length data)) 0) as [E|_]; [cbn [data length] in E; lia|].
    rewrite Bytes_gen. cbn [rbind]. change (negb (0 =? 0)) with false. cbv iota zeta.
    destruct (sizeHint_ok f ltac:(lia)) as [zh Hzh]. rewrite Hzh. cbn [rbind]. clear zh Hzh.
    cbn [to_gen Kernels3.gcs_Filter_filterData Kernels3.gcs_Filter_modulusNP]. fold (to_gen f).
    destruct (HNR (f_data f) Hb) as [Hv Hi].
    pose proof (bits_of_bytes_length (f_data f)) as Hl.
    match goal with |- context [Go.whileC _ ?c0 ?bd _] => set (cond := c0); set (body := bd) end.
    destruct (hash_while fuel (to_gen f) cond body HP ltac:(intros [[? ?] ?]; reflexivity)
                ltac:(intros; reflexivity) (fuel_of f) fuel (NR (f_data f)) 0 [] Hi
                ltac:(rewrite Hv; lia) ltac:(rewrite Hv; unfold fuel_of; lia) ltac:(rewrite Hv; lia))
      as (vs & b' & last' & m' & Hd & Hw & Hkeys).
    rewrite Hv in Hd. change (f_p f) with (Kernels3.gcs_Filter_p (to_gen f)).
    rewrite Hd, Hw. cbn [rbind]. rewrite mod32_mod64.
    match goal with |- context [Go.foldC ?G0 data tt] => set (G := G0) end.
    rewrite (exists_foldC (fun d => has_key m' (Kernels.fastReduction (H d (Some key)) (N.shiftr (f_mod f) 32) (f_mod f mod 2 ^ 32))) G)
      by (intros; reflexivity).
    assert (Ee : existsb (fun d => has_key m' (Kernels.fastReduction (H d (Some key)) (N.shiftr (f_mod f) 32) (f_mod f mod 2 ^ 32))) data
                 = existsb (fun d => mem (reduce_with hash_hshift f (hash_of H key d)) vs) data).
    { apply existsb_ext_in. intros d _. rewrite Hkeys, fastReduction_tie.
      unfold reduce_with, hash_of, lo32. change hash_hshift with 32. change two32 with (2 ^ 32).
      change (has_key [] _) with false. now rewrite orb_false_r. }
    rewrite Ee. clear Ee. cbn [bool_view].
    match goal with |- context [existsb ?p data] => destruct (existsb p data) end; reflexivity.
  Qed.

  (* ============================== MatchAny ============================== *)
  Theorem MatchAny_generic fuel f key data :
    dom (f_data f) -> f_p f <= 64 -> (8 * length (f_data f) < fuel)%nat ->
    (length (query_values f key data) < fuel)%nat ->
    Kernels3.gcs_Filter_MatchAny B RB RBs H srt NR fuel (to_gen f) key data =
    bool_view (match_any (hash_of H) (sort_of srt) f key data).
  Proof using Hok HNR.
    intros Hb HP Hfuel Hq. unfold Kernels3.gcs_Filter_MatchAny, match_any.
    cbn [to_gen Kernels3.gcs_Filter_N Kernels3.gcs_Filter_n]. fold (to_gen f). change any_div with 2.
    assert (E : (Z.of_N (f_n f / 2) <=? Z.of_nat (length data))%Z = (f_n f / 2 <=? N.of_nat (length data))).
    { destruct (Z.leb_spec (Z.of_N (f_n f / 2)) (Z.of_nat (length data))), (N.leb_spec (f_n f / 2) (N.of_nat (length data)));
        try reflexivity; lia. }
    rewrite E. destruct (f_n f / 2 <=? N.of_nat (length data)).
    - rewrite HashMatchAny_generic by assumption.
      destruct (hash_match_any (hash_of H) f key data) as [r|e|k]; reflexivity.
    - rewrite ZipMatchAny_generic by assumption.
      destruct (zip_match_any (hash_of H) (sort_of srt) f key data) as [r|e|k]; reflexivity.
  Qed.
End Match3.

Print Assumptions Match_generic.
Print Assumptions ZipMatchAny_generic.
Print Assumptions HashMatchAny_generic.
Print Assumptions MatchAny_generic.


(* ---------- instance 1: the stream is the list of bits (NewBStreamReader = bits_of_bytes) ---------- *)
Lemma list_NR_ok : forall d : list N, True -> bits_of_bytes d = bits_of_bytes d /\ True.
Proof. intros d _. split; [reflexivity|exact I]. Qed.

Theorem Match_tie H fuel f key d :
  f_p f <= 64 -> (8 * length (f_data f) < fuel)%nat ->
  Kernels3.gcs_Filter_Match (list bool) rd3_bit rd3_bits H bits_of_bytes fuel (to_gen f) key d =
  bool_view (gmatch (hash_of H) f key d).
Proof.
  intros HP Hf.
  exact (Match_generic (fun bs => bs) (fun _ => True) rd3_bit rd3_bits bits_of_bytes (fun _ => True) H
           list_reader_ok list_NR_ok fuel f key d I HP Hf).
Qed.

Theorem ZipMatchAny_tie H srt fuel f key data :
  f_p f <= 64 -> (8 * length (f_data f) < fuel)%nat -> (length (query_values H srt f key data) < fuel)%nat ->
  Kernels3.gcs_Filter_ZipMatchAny (list bool) rd3_bit rd3_bits H srt bits_of_bytes fuel (to_gen f) key data =
  bool_view (zip_match_any (hash_of H) (sort_of srt) f key data).
Proof.
  intros HP Hf Hq.
  exact (ZipMatchAny_generic (fun bs => bs) (fun _ => True) rd3_bit rd3_bits bits_of_bytes (fun _ => True) H srt
           list_reader_ok list_NR_ok fuel f key data I HP Hf Hq).
Qed.

Theorem HashMatchAny_tie H fuel f key data :
  f_p f <= 64 -> (8 * length (f_data f) < fuel)%nat ->
  Kernels3.gcs_Filter_HashMatchAny (list bool) rd3_bit rd3_bits H bits_of_bytes fuel (to_gen f) key data =
  bool_view (hash_match_any (hash_of H) f key data).
Proof.
  intros HP Hf.
  exact (HashMatchAny_generic (fun bs => bs) (fun _ => True) rd3_bit rd3_bits bits_of_bytes (fun _ => True) H
           list_reader_ok list_NR_ok fuel f key data I HP Hf).
Qed.

Theorem MatchAny_tie H srt fuel f key data :
  f_p f <= 64 -> (8 * length (f_data f) < fuel)%nat -> (length (query_values H srt f key data) < fuel)%nat ->
  Kernels3.gcs_Filter_MatchAny (list bool) rd3_bit rd3_bits H srt bits_of_bytes fuel (to_gen f) key data =
  bool_view (match_any (hash_of H) (sort_of srt) f key data).
Proof.
  intros HP Hf Hq.
  exact (MatchAny_generic (fun bs => bs) (fun _ => True) rd3_bit rd3_bits bits_of_bytes (fun _ => True) H srt
           list_reader_ok list_NR_ok fuel f key data I HP Hf Hq).
Qed.

(* when sort.Slice preserves the length (it is a permutation) the ZipMatchAny fuel condition is
   length data < fuel *)
Lemma query_values_length H (srt : forall A : Type, (A -> A -> bool) -> list A -> list A) f key data :
  (forall l, length (srt N N.ltb l) = length l) ->
  length (query_values H srt f key data) = length data.
Proof. intros Hs. unfold query_values, sort_of. now rewrite Hs, map_length. Qed.

(* ---------- instance 2: the byte/offset machine of Gcs/BStream.v (NewBStreamReader = new_reader) ---------- *)
Lemma bstream_NR_ok : forall d, Bytes d -> bits_of_state (new_reader d) = bits_of_bytes d /\ wf (new_reader d).
Proof.
  intros d Hb. split; [apply bits_of_new_reader|]. split; [cbn; lia | exact Hb].
Qed.

Theorem Match_bstream H fuel f key d :
  Bytes (f_data f) -> f_p f <= 64 -> (8 * length (f_data f) < fuel)%nat ->
  Kernels3.gcs_Filter_Match rstate bsr3_bit bsr3_bits H new_reader fuel (to_gen f) key d =
  bool_view (gmatch (hash_of H) f key d).
Proof.
  exact (Match_generic bits_of_state wf bsr3_bit bsr3_bits new_reader Bytes H
           bstream_reader_ok bstream_NR_ok fuel f key d).
Qed.

Theorem ZipMatchAny_bstream H srt fuel f key data :
  Bytes (f_data f) -> f_p f <= 64 -> (8 * length (f_data f) < fuel)%nat ->
  (length (query_values H srt f key data) < fuel)%nat ->
  Kernels3.gcs_Filter_ZipMatchAny rstate bsr3_bit bsr3_bits H srt new_reader fuel (to_gen f) key data =
  bool_view (zip_match_any (hash_of H) (sort_of srt) f key data).
Proof.
  exact (ZipMatchAny_generic bits_of_state wf bsr3_bit bsr3_bits new_reader Bytes H srt
           bstream_reader_ok bstream_NR_ok fuel f key data).
Qed.

Theorem HashMatchAny_bstream H fuel f key data :
  Bytes (f_data f) -> f_p f <= 64 -> (8 * length (f_data f) < fuel)%nat ->
  Kernels3.gcs_Filter_HashMatchAny rstate bsr3_bit bsr3_bits H new_reader fuel (to_gen f) key data =
  bool_view (hash_match_any (hash_of H) f key data).
Proof.
  exact (HashMatchAny_generic bits_of_state wf bsr3_bit bsr3_bits new_reader Bytes H
           bstream_reader_ok bstream_NR_ok fuel f key data).
Qed.

Theorem MatchAny_bstream H srt fuel f key data :
  Bytes (f_data f) -> f_p f <= 64 -> (8 * length (f_data f) < fuel)%nat ->
  (length (query_values H srt f key data) < fuel)%nat ->
  Kernels3.gcs_Filter_MatchAny rstate bsr3_bit bsr3_bits H srt new_reader fuel (to_gen f) key data =
  bool_view (match_any (hash_of H) (sort_of srt) f key data).
Proof.
  exact (MatchAny_generic bits_of_state wf bsr3_bit bsr3_bits new_reader Bytes H srt
           bstream_reader_ok bstream_NR_ok fuel f key data).
Qed.

Print Assumptions Match_tie.
Print Assumptions ZipMatchAny_tie.
Print Assumptions HashMatchAny_tie.
Print Assumptions MatchAny_tie.
Print Assumptions Match_bstream.
Print Assumptions ZipMatchAny_bstream.
Print Assumptions HashMatchAny_bstream.
Print Assumptions MatchAny_bstream.

(* sanity: the hypotheses are satisfiable and the ties compute *)
Example match3_example :
  let H := fun (d : list N) (_ : option (list N)) => hd 0 d * 1000000000000000000 in
  let srt := fun (A : Type) (_ : A -> A -> bool) (l : list A) => l in
  match build (hash_of H) (sort_of srt) 2 10 [] [[1]; [3]; [7]] with
  | Ok f =>
      Kernels3.gcs_Filter_Match (list bool) rd3_bit rd3_bits H bits_of_bytes 20 (to_gen f) [] [3] = Ok (true, 0) /\
      Kernels3.gcs_Filter_Match (list bool) rd3_bit rd3_bits H bits_of_bytes 20 (to_gen f) [] [4] = Ok (false, 0) /\
      Kernels3.gcs_Filter_MatchAny (list bool) rd3_bit rd3_bits H srt bits_of_bytes 20 (to_gen f) [] [[4]; [7]] = Ok (true, 0) /\
      Kernels3.gcs_Filter_ZipMatchAny (list bool) rd3_bit rd3_bits H srt bits_of_bytes 20 (to_gen f) [] [[4]; [7]] = Ok (true, 0) /\
      Kernels3.gcs_Filter_ZipMatchAny rstate bsr3_bit bsr3_bits H srt new_reader 20 (to_gen f) [] [[4]; [5]] = Ok (false, 0)
  | _ => False
  end.
Proof. vm_compute. repeat split. Qed.

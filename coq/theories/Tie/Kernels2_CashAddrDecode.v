(* Tie between the monadic-mode transliterations (Gen/Kernels2.v) of createChecksum and
   DecodeCashAddress (address.go) and the hand-written model CashAddr/CashAddr.v. *)
From BU Require Import Lib.Bytes Lib.PolyMod Gen.Xbchutil Gen.Kernels Gen.Kernels2 CashAddr.CashAddr
  Tie.TieTactics Tie.KernelsTie Tie.Kernels2Lib Tie.Kernels2_CashAddr.
From Coq Require Import ZifyBool ZifyN ZifyNat.

(* ---------- createChecksum ---------- *)

(* a counted loop that stores g(i) at index i *)
Lemma store_loop (g : Z -> N) n : forall done tail,
  Go.foldM (fun ret i => do ret <- Go.upd ret i (g i) ;; Ok ret)
    (Go.zseq (Z.of_nat (length done)) n) (done ++ repeat 0 n ++ tail)
  = Ok (done ++ map g (Go.zseq (Z.of_nat (length done)) n) ++ tail).
Proof.
  induction n as [|n IH]; intros done tail; [reflexivity|].
  cbn [Go.zseq Go.foldM repeat app map].
  rewrite upd_mid. cbn [rbind].
  specialize (IH (done ++ [g (Z.of_nat (length done))]) tail).
  rewrite <- !app_assoc in IH. cbn [app] in IH.
  rewrite !app_length, Nat2Z.inj_add in IH. cbn [length] in IH.
  exact IH.
Qed.

Lemma store_loop0 (g : Z -> N) n :
  Go.foldM (fun ret i => do ret <- Go.upd ret i (g i) ;; Ok ret) (Go.zseq 0%Z n) (repeat 0 n)
  = Ok (map g (Go.zseq 0%Z n)).
Proof.
  pose proof (store_loop g n [] []) as H. cbn [app length] in H. rewrite !app_nil_r in H. exact H.
Qed.

Lemma land_mod_small x m k : m < 2 ^ k -> (N.land x m) mod 2 ^ k = N.land x m.
Proof. intros H. apply N.mod_small. rewrite N.land_comm. now apply land_lt_pow2. Qed.

Theorem createChecksum_tie prefix payload : Bytes payload ->
  Kernels2.createChecksum prefix payload = Ok (CashAddr.create_checksum prefix payload).
Proof.
  intros Hp. unfold Kernels2.createChecksum, CashAddr.create_checksum.
  rewrite expandPrefix_tie. cbn [rbind]. unfold Kernels2.cat.
  rewrite polyMod_tie.
  2:{ rewrite !Bytes_app. repeat split; [apply Bytes_expand_prefix | exact Hp | repeat constructor]. }
  rewrite <- app_assoc.
  (* the 8 zero symbols: a literal in the code, [repeat] in the model (convertible) *)
  match goal with |- context [unpack _ ?m] => set (md := m) end.
  match goal with |- context [N.shiftr ?m _] => change m with md end.
  clearbody md.
  match goal with |- context [Go.zseq _ ?n] => eval_term n end.
  rewrite store_loop0. cbn [rbind]. f_equal.
  cbn [Go.zseq map unpack].
  rewrite !land_mod_small by reflexivity.
  repeat (f_equal; try reflexivity).
Qed.
Print Assumptions createChecksum_tie.

(* ---------- DecodeCashAddress ---------- *)

(* evaluate the literals [D k] of the model *)
Ltac evalD :=
  unfold D;
  repeat match goal with |- context [lit lits_DecodeCashAddress ?k] =>
    eval_term (lit lits_DecodeCashAddress k) end.

(* (a) the scanning loop.  One step of the model's [scan]: *)
Definition scan_step (c i : N) (lower upper : bool) (prefixSize : N) : res (bool * bool * N) :=
  if (D 2 <=? c) && (c <=? D 3) then Ok (true, upper, prefixSize)
  else if (D 4 <=? c) && (c <=? D 5) then Ok (lower, true, prefixSize)
  else if (D 6 <=? c) && (c <=? D 7) then
    if prefixSize =? D 8 then Err 1 else Ok (lower, upper, prefixSize)
  else if c =? D 9 then
    if (i =? D 10) || negb (prefixSize =? D 11) then Err 2 else Ok (lower, upper, i)
  else Err 3.

Lemma scan_cons c t i lo up ps :
  scan (c :: t) i lo up ps =
  do (lo', up', ps') <- scan_step c i lo up ps ;; scan t (i + 1) lo' up' ps'.
Proof.
  cbn [scan]. unfold scan_step.
  repeat match goal with |- context [if ?b then _ else _] => destruct b; try reflexivity end.
Qed.

(* the loop state holds prefixSize as an int *)
Definition st_Z (r : res (bool * bool * N)) : res (bool * bool * Z) :=
  match r with Ok (a, b, n) => Ok (a, b, Z.of_N n) | Err e => Err e | Panic k => Panic k end.

Lemma scan_loop (f : bool * bool * Z -> Z -> res (bool * bool * Z)) str :
  (forall pre c suf lo up ps, str = pre ++ c :: suf ->
     f (lo, up, Z.of_N ps) (Z.of_nat (length pre))
     = st_Z (scan_step c (N.of_nat (length pre)) lo up ps)) ->
  forall suf pre lo up ps, str = pre ++ suf ->
  Go.foldM f (Go.zseq (Z.of_nat (length pre)) (length suf)) (lo, up, Z.of_N ps)
  = st_Z (scan suf (N.of_nat (length pre)) lo up ps).
Proof.
  intros Hf. induction suf as [|c t IH]; intros pre lo up ps E; [reflexivity|].
  cbn [length Go.zseq Go.foldM]. rewrite (Hf pre c t lo up ps E), scan_cons.
  destruct (scan_step c (N.of_nat (length pre)) lo up ps) as [[[lo' up'] ps']|e|k];
    cbn [st_Z rbind]; try reflexivity.
  specialize (IH (pre ++ [c]) lo' up' ps'). rewrite app_length in IH. cbn [length] in IH.
  replace (Z.of_nat (length pre + 1)) with (Z.of_nat (length pre) + 1)%Z in IH by lia.
  replace (N.of_nat (length pre + 1)) with (N.of_nat (length pre) + 1) in IH by lia.
  apply IH. rewrite <- app_assoc. exact E.
Qed.

(* what a successful scan establishes: every character before the separator is a letter, and the
   separator position is inside the string *)
Definition letter (c : N) : Prop :=
  ((D 2 <=? c) && (c <=? D 3)) || ((D 4 <=? c) && (c <=? D 5)) = true.

Definition Inv (pre : list N) (ps : N) : Prop :=
  (ps = 0 /\ Forall letter pre) \/
  (ps <> 0 /\ (N.to_nat ps < length pre)%nat /\ Forall letter (firstn (N.to_nat ps) pre)).

Lemma Inv_snoc_keep pre ps c : Inv pre ps -> (ps = 0 -> letter c) -> Inv (pre ++ [c]) ps.
Proof.
  intros [[H0 Hl]|[H0 [Hlt Hl]]] Hc; [left | right].
  - split; [exact H0|]. apply Forall_app. split; [exact Hl|]. constructor; [auto | constructor].
  - split; [exact H0|]. rewrite app_length. cbn [length]. split; [lia|].
    rewrite firstn_app. replace (N.to_nat ps - length pre)%nat with 0%nat by lia.
    cbn [firstn]. rewrite app_nil_r. exact Hl.
Qed.

Lemma Inv_snoc_sep pre c : pre <> [] -> Inv pre 0 -> Inv (pre ++ [c]) (N.of_nat (length pre)).
Proof.
  intros Hne [[_ Hl]|[H0 _]]; [|congruence]. right.
  assert (length pre <> 0%nat) by (destruct pre; [congruence | cbn [length]; lia]).
  split; [lia|]. rewrite Nat2N.id, app_length. cbn [length]. split; [lia|].
  rewrite firstn_app, Nat.sub_diag, firstn_all. cbn [firstn]. rewrite app_nil_r. exact Hl.
Qed.

Lemma scan_step_inv pre c lo up ps lo' up' ps' :
  scan_step c (N.of_nat (length pre)) lo up ps = Ok (lo', up', ps') ->
  Inv pre ps -> Inv (pre ++ [c]) ps'.
Proof.
  unfold scan_step. intros H HI.
  destruct ((D 2 <=? c) && (c <=? D 3)) eqn:E1.
  { injection H as <- <- <-. apply Inv_snoc_keep; [exact HI|]. intros _. unfold letter. now rewrite E1. }
  destruct ((D 4 <=? c) && (c <=? D 5)) eqn:E2.
  { injection H as <- <- <-. apply Inv_snoc_keep; [exact HI|]. intros _. unfold letter.
    rewrite E2. apply orb_true_r. }
  destruct ((D 6 <=? c) && (c <=? D 7)).
  { revert H. evalD. destruct (N.eqb_spec ps 0) as [|Hps]; [discriminate|]. intros H.
    injection H as <- <- <-. apply Inv_snoc_keep; [exact HI|]. intros; contradiction. }
  destruct (c =? D 9); [|discriminate].
  revert H. evalD.
  destruct (N.eqb_spec (N.of_nat (length pre)) 0) as [|Hi]; [discriminate|].
  destruct (N.eqb_spec ps 0) as [Hps|]; [|discriminate]. cbn [negb orb].
  intros H. injection H as <- <- <-. subst ps. apply Inv_snoc_sep; [|exact HI].
  intros ->. apply Hi. reflexivity.
Qed.

Lemma scan_inv suf : forall pre lo up ps lo' up' ps',
  scan suf (N.of_nat (length pre)) lo up ps = Ok (lo', up', ps') ->
  Inv pre ps -> Inv (pre ++ suf) ps'.
Proof.
  induction suf as [|c t IH]; intros pre lo up ps lo' up' ps' H HI.
  - cbn [scan] in H. injection H as <- <- <-. rewrite app_nil_r. exact HI.
  - rewrite scan_cons in H.
    destruct (scan_step c (N.of_nat (length pre)) lo up ps) as [[[lo1 up1] ps1]|e|k] eqn:E;
      cbn [rbind] in H; try discriminate.
    apply scan_step_inv in E; [|exact HI].
    specialize (IH (pre ++ [c]) lo1 up1 ps1 lo' up' ps').
    rewrite <- app_assoc in IH. cbn [app] in IH. apply IH; [|exact E].
    rewrite app_length. cbn [length].
    replace (N.of_nat (length pre + 1)) with (N.of_nat (length pre) + 1) by lia. exact H.
Qed.

(* (b) a letter, lower-cased, is ASCII: string(byte) is the one-byte string *)
Lemma lor_lt_pow2 a b n : a < 2 ^ n -> b < 2 ^ n -> N.lor a b < 2 ^ n.
Proof.
  rewrite !StepFacts.lt_pow2_shiftr. intros Ha Hb. rewrite N.shiftr_lor, Ha, Hb. reflexivity.
Qed.

Lemma letter_string c :
  letter c -> Go.string_of_byte (Kernels2.lowerCase c) = [CashAddr.lower_case c].
Proof.
  unfold letter. evalD. intros H. rewrite lowerCase_tie.
  unfold Go.string_of_byte, CashAddr.lower_case. eval_term (lit lits_lowerCase 0).
  assert (Hlt : N.lor c 32 < 2 ^ 7) by (apply lor_lt_pow2; [change (2 ^ 7) with 128; lia | reflexivity]).
  change (2 ^ 7) with 128 in Hlt.
  destruct (N.ltb_spec (N.lor c 32) 128); [reflexivity | lia].
Qed.

(* (c) a loop that appends h(str[i]) for the indices of a segment of str *)
Lemma concat_loop (h : N -> list N) str mid : forall pre rest acc,
  str = pre ++ mid ++ rest ->
  Go.foldM (fun acc i => do t <- Go.idx str i ;; Ok (acc ++ h t))
    (Go.zseq (Z.of_nat (length pre)) (length mid)) acc
  = Ok (acc ++ flat_map h mid).
Proof.
  induction mid as [|c t IH]; intros pre rest acc E.
  - cbn [length Go.zseq Go.foldM flat_map]. now rewrite app_nil_r.
  - cbn [length Go.zseq Go.foldM flat_map]. rewrite E at 1. cbn [app]. rewrite idx_mid. cbn [rbind].
    specialize (IH (pre ++ [c]) rest (acc ++ h c)).
    rewrite app_length, Nat2Z.inj_add in IH. cbn [length] in IH. change (Z.of_nat 1) with 1%Z in IH.
    rewrite IH by (rewrite <- app_assoc; exact E). now rewrite app_assoc.
Qed.

Lemma flat_map_letters l :
  Forall letter l ->
  flat_map (fun t => Go.string_of_byte (Kernels2.lowerCase t)) l = map CashAddr.lower_case l.
Proof.
  induction 1 as [|c l Hc Hl IH]; [reflexivity|].
  cbn [flat_map map]. rewrite letter_string by exact Hc. rewrite IH. reflexivity.
Qed.

(* (c') (repository commit 90aab9d) the prefix is built in place: prefixBytes[i] = lowerCase(str[i]) over a
   segment of str; the result is the map of h over the segment (no UTF-8 re-encoding any more) *)
Lemma idx_store_loop (h : N -> N) str mid : forall pre rest done tail,
  str = pre ++ mid ++ rest -> length done = length pre ->
  Go.foldM (fun ret i => do t <- Go.idx str i ;; do ret <- Go.upd ret i (h t) ;; Ok ret)
    (Go.zseq (Z.of_nat (length pre)) (length mid)) (done ++ repeat 0 (length mid) ++ tail)
  = Ok (done ++ map h mid ++ tail).
Proof.
  induction mid as [|c t IH]; intros pre rest done tail E Hl; [reflexivity|].
  cbn [length Go.zseq Go.foldM repeat app map]. rewrite E at 1. cbn [app]. rewrite idx_mid. cbn [rbind].
  rewrite <- Hl. rewrite upd_mid. cbn [rbind]. rewrite Hl.
  specialize (IH (pre ++ [c]) rest (done ++ [h c]) tail).
  rewrite <- !app_assoc in IH. cbn [app] in IH.
  rewrite !app_length, Nat2Z.inj_add in IH. cbn [length] in IH. change (Z.of_nat 1) with 1%Z in IH.
  apply IH; [exact E | lia].
Qed.

(* (e) the values loop.  One step of the model's [to_values]: *)
Definition val_step (c : N) : res N :=
  if D 17 <? c then Err 6 else
  match nth_error charset_rev (N.to_nat c) with
  | None => Panic 1
  | Some v => if (v =? - Z.of_N (D 18))%Z then Err 6 else Ok (Z.to_N v mod 256)
  end.

Lemma to_values_cons c t :
  to_values (c :: t) = do v <- val_step c ;; do r <- to_values t ;; Ok (v :: r).
Proof.
  cbn [to_values]. unfold val_step.
  destruct (D 17 <? c); [reflexivity|].
  destruct (nth_error charset_rev (N.to_nat c)) as [v|]; [|reflexivity].
  destruct (v =? - Z.of_N (D 18))%Z; reflexivity.
Qed.

Lemma values_loop (f : list N -> Z -> res (list N)) str k :
  (forall values i c, Go.idx str ((i + k) + 1)%Z = Ok c ->
     f values i = do v <- val_step c ;; do values <- Go.upd values i v ;; Ok values) ->
  forall suf pre done tail, str = pre ++ suf ->
  Z.of_nat (length pre) = (Z.of_nat (length done) + k + 1)%Z ->
  Go.foldM f (Go.zseq (Z.of_nat (length done)) (length suf)) (done ++ repeat 0 (length suf) ++ tail)
  = do r <- to_values suf ;; Ok (done ++ r ++ tail).
Proof.
  intros Hf. induction suf as [|c t IH]; intros pre done tail E Hk; [reflexivity|].
  cbn [length Go.zseq Go.foldM repeat app]. rewrite to_values_cons.
  rewrite (Hf _ _ c) by (rewrite <- Hk, E; apply idx_mid).
  destruct (val_step c) as [v|e|p]; cbn [rbind]; try reflexivity.
  rewrite upd_mid. cbn [rbind].
  specialize (IH (pre ++ [c]) (done ++ [v]) tail).
  rewrite <- !app_assoc in IH. cbn [app] in IH.
  rewrite !app_length, !Nat2Z.inj_add in IH. cbn [length] in IH. change (Z.of_nat 1) with 1%Z in IH.
  rewrite IH by (auto; lia).
  destruct (to_values t) as [r|e|p]; cbn [rbind]; try reflexivity.
  rewrite <- app_assoc. reflexivity.
Qed.

(* the code's test and conversion of a table entry against the model's *)
Lemma table_tie : Kernels2.bchutil_CharsetRev = charset_rev.
Proof. vm_compute. reflexivity. Qed.

Lemma table_entries : Forall (fun v => v = (-1)%Z \/ (0 <= v)%Z) charset_rev.
Proof.
  apply Forall_forall. intros v Hv.
  assert (H : forallb (fun v => (v =? -1)%Z || (0 <=? v)%Z) charset_rev = true) by (vm_compute; reflexivity).
  rewrite forallb_forall in H. specialize (H v Hv). lia.
Qed.

Lemma byte_of_entry v : (0 <= v)%Z -> Z.to_N (v mod 2 ^ 8) = Z.to_N v mod 256.
Proof. intros H. change (2 ^ 8)%Z with 256%Z. lia. Qed.

(* (f) the symbols are bytes *)
Lemma to_values_Bytes chars : forall values, to_values chars = Ok values -> Bytes values.
Proof.
  induction chars as [|c t IH]; intros values H.
  - cbn [to_values] in H. injection H as <-. constructor.
  - rewrite to_values_cons in H. unfold val_step in H.
    destruct (D 17 <? c); [discriminate|].
    destruct (nth_error charset_rev (N.to_nat c)) as [v|]; [|discriminate].
    destruct (v =? - Z.of_N (D 18))%Z; [discriminate|]. cbn [rbind] in H.
    destruct (to_values t) as [r|e|p]; cbn [rbind] in H; try discriminate.
    injection H as <-. apply Bytes_cons. split; [|apply IH; reflexivity].
    apply N.mod_lt. discriminate.
Qed.

Lemma Z_N_eqb0 a : (Z.of_N a =? 0)%Z = (a =? 0).
Proof. lia. Qed.

Lemma ltb_nat_Z_N n z : (0 <= z)%Z -> (Z.of_nat n <? z)%Z = (N.of_nat n <? Z.to_N z).
Proof. lia. Qed.

Lemma Inv_nil : Inv [] 0.
Proof. left. split; [reflexivity | constructor]. Qed.

(* Holds for every str : list N (no [Bytes str] needed: a successful scan only lets letters, digits
   and the separator through, so both sides reject anything else with the same class).  The error
   return sites 1..8 of the generated code are the model's classes 1..8, and the index panic of
   [to_values] is the index panic of the code's table lookup (unreachable on both sides). *)
Theorem DecodeCashAddress_tie str :
  Kernels2.DecodeCashAddress str = CashAddr.decode_cashaddr str.
Proof.
  unfold Kernels2.DecodeCashAddress, CashAddr.decode_cashaddr.
  rewrite Nat2Z.id.
  (* (a) scan *)
  match goal with |- rbind (Go.foldM ?f _ _) _ = _ =>
    assert (Hstep : forall pre c suf lo up ps, str = pre ++ c :: suf ->
      f (lo, up, Z.of_N ps) (Z.of_nat (length pre))
      = st_Z (scan_step c (N.of_nat (length pre)) lo up ps));
    [| pose proof (scan_loop f str Hstep str [] false false 0 eq_refl) as Hscan; clear Hstep ]
  end.
  { intros pre c suf lo up ps ->. rewrite idx_mid. cbn [rbind]. unfold scan_step. evalD.
    rewrite <- nat_N_Z. rewrite !(Z_N_eqb0).
    repeat match goal with |- context [if ?b then _ else _] => destruct b end; reflexivity. }
  cbn [length] in Hscan. change (Z.of_nat 0) with 0%Z in Hscan. change (Z.of_N 0) with 0%Z in Hscan.
  change (N.of_nat 0) with 0 in Hscan.
  evalD. rewrite Hscan. clear Hscan.
  pose proof (scan_inv str [] false false 0) as Hinv. cbn [length app] in Hinv.
  change (N.of_nat 0) with 0 in Hinv.
  destruct (scan str 0 false false 0) as [[[lo up] ps]|e|k]; cbn [st_Z rbind]; try reflexivity.
  specialize (Hinv _ _ _ eq_refl Inv_nil).
  rewrite Z_N_eqb0. destruct (N.eqb_spec ps 0) as [|Hps]; [reflexivity|].
  destruct (up && lo); [reflexivity|].
  destruct Hinv as [[H0 _]|[_ [Hlt Hlet]]]; [contradiction|].
  set (n := N.to_nat ps) in *.
  (* (c) the prefix: make + the store loop *)
  assert (Estr : str = [] ++ firstn n str ++ skipn n str) by (cbn [app]; now rewrite firstn_skipn).
  assert (Hn : Z.to_nat (Z.of_N ps) = length (firstn n str)) by (rewrite firstn_length; lia).
  replace (Go.make 0 (Z.of_N ps)) with (Go.make 0 (Z.of_nat (length (firstn n str))))
    by (f_equal; rewrite firstn_length; lia).
  rewrite make_nat. cbn [rbind]. rewrite Hn.
  pose proof (idx_store_loop Kernels2.lowerCase str (firstn n str) [] (skipn n str) [] [] Estr eq_refl) as Hpre.
  cbn [app length] in Hpre. rewrite !app_nil_r in Hpre. change (Z.of_nat 0) with 0%Z in Hpre.
  rewrite Hpre. clear Hpre Estr Hn. cbn [rbind].
  change (map Kernels2.lowerCase (firstn n str)) with (map CashAddr.lower_case (firstn n str)).
  (* (d) make *)
  replace (Z.of_nat (length str) - 1 - Z.of_N ps)%Z with (Z.of_nat (length (skipn (n + 1) str)))
    by (rewrite skipn_length; lia).
  rewrite make_nat. cbn [rbind]. rewrite Nat2Z.id.
  (* (e) the values loop *)
  match goal with |- rbind (Go.foldM ?f _ _) _ = _ =>
    assert (Hstep : forall values i c, Go.idx str ((i + Z.of_N ps) + 1)%Z = Ok c ->
      f values i = do v <- val_step c ;; do values <- Go.upd values i v ;; Ok values);
    [| pose proof (values_loop f str (Z.of_N ps) Hstep (skipn (n + 1) str) (firstn (n + 1) str) [] []
         (eq_sym (firstn_skipn _ _))) as Hval; clear Hstep ]
  end.
  { intros values i c Hc. rewrite Hc. cbn [rbind]. unfold val_step. evalD. rewrite table_tie.
    match goal with |- context [if ?b then _ else _] => destruct b; [reflexivity|] end.
    rewrite idx_N. unfold nth_res.
    destruct (nth_error charset_rev (N.to_nat c)) as [v|] eqn:En; [|reflexivity]. cbn [rbind].
    match goal with |- context [(- Z.of_N ?x)%Z] => eval_term (- Z.of_N x)%Z end.
    match goal with |- context [if ?b then _ else _] => destruct b eqn:Ev; [reflexivity|] end.
    cbn [rbind]. rewrite byte_of_entry; [reflexivity|].
    pose proof table_entries as HT. rewrite Forall_forall in HT.
    specialize (HT v (nth_error_In _ _ En)). lia. }
  cbn [length app] in Hval. rewrite app_nil_r in Hval. change (Z.of_nat 0) with 0%Z in Hval.
  rewrite Hval by (rewrite firstn_length; lia). clear Hval.
  destruct (to_values (skipn (n + 1) str)) as [values|e|p] eqn:Ev; cbn [rbind]; try reflexivity.
  rewrite app_nil_r. apply to_values_Bytes in Ev.
  (* (f) length test, checksum, final slice *)
  match goal with |- context [(Z.of_nat (length values) <? ?z)%Z] =>
    rewrite (ltb_nat_Z_N (length values) z) by lia; eval_term (Z.to_N z) end.
  match goal with |- context [if ?b then _ else _] => destruct b eqn:Elen; [reflexivity|] end.
  rewrite verifyChecksum_tie by exact Ev. cbn [rbind].
  match goal with |- context [if ?b then _ else _] => destruct b; [reflexivity|] end.
  match goal with |- context [firstn ?m values] =>
    match goal with |- context [Go.slice values 0%Z ?z] =>
      replace z with (Z.of_nat m) by lia end end.
  rewrite slice_prefix by lia. reflexivity.
Qed.
Print Assumptions DecodeCashAddress_tie.

(* Tie between the monadic-mode transliterations (Gen/Kernels2.v) of encode and
   checkEncodeCashAddress (address.go) and the hand-written models CashAddr.encode /
   CashAddr.to_chars (CashAddr/CashAddr.v) and Address.check_encode_cash (Address/Address.v). *)
From BU Require Import Lib.Bytes Lib.PolyMod Gen.Xbchutil Gen.Kernels Gen.Kernels2 CashAddr.CashAddr
  Address.Bits Address.Address
  Tie.TieTactics Tie.KernelsTie Tie.Kernels2Lib Tie.Kernels2_CashAddr Tie.Kernels2_CashAddrDecode
  Tie.Kernels2_Address.
From Coq Require Import ZifyBool ZifyN ZifyNat.

(* ---------- the table ---------- *)

(* the table of the generated code is the extracted constant the model uses *)
Lemma charset_tie : Kernels2.bchutil_Charset = charset.
Proof. reflexivity. Qed.

(* every character of the charset is ASCII, so string(Charset[c]) is the one-byte string *)
Lemma charset_ascii : Forall (fun ch => ch < 128) charset.
Proof.
  apply Forall_forall. intros ch Hin.
  assert (Hall : forallb (fun ch => ch <? 128) charset = true) by (vm_compute; reflexivity).
  rewrite forallb_forall in Hall. specialize (Hall ch Hin). lia.
Qed.

Lemma string_of_charset_entry i ch :
  nth_error charset i = Some ch -> Go.string_of_byte ch = [ch].
Proof.
  intros Hnth. apply nth_error_In in Hnth.
  pose proof charset_ascii as Hascii. rewrite Forall_forall in Hascii. specialize (Hascii ch Hnth).
  unfold Go.string_of_byte. destruct (N.ltb_spec ch 128) as [_|Hge]; [reflexivity|lia].
Qed.

(* ---------- the loop of encode ---------- *)

(* ret += string(Charset[c]) for every symbol (a foldM accumulating with ++) against the
   model's non-tail recursion to_chars; an out-of-range symbol is Panic 1 on both sides *)
Lemma chars_loop syms : forall acc,
  Go.foldM (fun ret c =>
      do ch <- Go.idx Kernels2.bchutil_Charset (Z.of_N c) ;;
      Ok (ret ++ Go.string_of_byte ch)) syms acc
  = match to_chars syms with Ok r => Ok (acc ++ r) | Err e => Err e | Panic k => Panic k end.
Proof.
  induction syms as [|c syms IH]; intros acc; cbn [Go.foldM to_chars].
  - now rewrite app_nil_r.
  - rewrite idx_N, charset_tie. unfold nth_res.
    destruct (nth_error charset (N.to_nat c)) as [ch|] eqn:Hnth; cbn [rbind]; [|reflexivity].
    rewrite (string_of_charset_entry _ _ Hnth), IH.
    destruct (to_chars syms) as [r|e|k]; cbn [rbind]; [|reflexivity|reflexivity].
    rewrite <- app_assoc. reflexivity.
Qed.

(* ---------- encode ---------- *)

(* Bytes payload: needed by createChecksum_tie only (polyMod's `uint64(d)` of a byte is the
   identity only below 256); the character loop itself needs nothing. *)
Theorem encode_tie prefix payload : Bytes payload ->
  Kernels2.encode prefix payload = CashAddr.encode prefix payload.
Proof.
  intros Hpayload.
  unfold Kernels2.encode, CashAddr.encode.
  rewrite createChecksum_tie by assumption. rewrite rbind_ok, cat_tie.
  cbv zeta. rewrite chars_loop. cbn [app].
  destruct (to_chars (payload ++ create_checksum prefix payload)); reflexivity.
Qed.
Print Assumptions encode_tie.

(* ---------- checkEncodeCashAddress ---------- *)

(* every Ok result of convert_bits has been reduced mod 256 element-wise *)
Lemma Bytes_map_mod256 l : Bytes (map (fun x => x mod 256) l).
Proof.
  unfold Bytes. apply Forall_forall. intros b Hin. apply in_map_iff in Hin.
  destruct Hin as [x [<- _]]. apply N.mod_lt. discriminate.
Qed.

Lemma convert_bits_Bytes data fromb tob pad out :
  convert_bits data fromb tob pad = Ok out -> Bytes out.
Proof.
  unfold convert_bits. cbv zeta.
  destruct (cb_loop data (CB 0) (CB 1) fromb tob _ _) as [[[acc bits] ret]|e|k]; cbn [rbind];
    [|discriminate|discriminate].
  destruct pad.
  - intros Hok. injection Hok as <-. apply Bytes_map_mod256.
  - match goal with |- (if ?c then _ else _) = _ -> _ => destruct c end; [discriminate|].
    intros Hok. injection Hok as <-. apply Bytes_map_mod256.
Qed.

Lemma pack_address_data_Bytes t h k : pack_address_data t h = Ok k -> Bytes k.
Proof.
  unfold pack_address_data. cbv zeta.
  repeat match goal with |- (if ?c then _ else _) = _ -> _ => destruct c; [discriminate|] end.
  match goal with |- match ?r with _ => _ end = _ -> _ => destruct r as [p|e|kk] eqn:Hcb end;
    [|discriminate|discriminate].
  intros Hok. injection Hok as <-. eapply convert_bits_Bytes; eassumption.
Qed.

(* 63 <= fuel: needed by packAddressData_tie (the inner emit loop of convertBits).
   t is an AddressType the code holds as an int: stated for the non-negative values Z.of_N t
   (as packAddressData_tie).  No Bytes hypothesis on input: the packed data is reduced
   mod 256 by convertBits whatever the input, which is all encode_tie needs. *)
Theorem checkEncodeCashAddress_tie fuel input prefix t :
  (63 <= fuel)%nat ->
  Kernels2.checkEncodeCashAddress fuel input prefix (Z.of_N t) = Address.check_encode_cash input prefix t.
Proof.
  intros Hfuel.
  unfold Kernels2.checkEncodeCashAddress, check_encode_cash.
  rewrite packAddressData_tie by assumption.
  destruct (pack_address_data t input) as [k|e|kk] eqn:Hpack; [|reflexivity|reflexivity].
  rewrite encode_tie by (eapply pack_address_data_Bytes; eassumption).
  destruct (CashAddr.encode prefix k); reflexivity.
Qed.
Print Assumptions checkEncodeCashAddress_tie.

(* the Err branch is really taken (a packing error yields the empty string) and the Ok branch
   produces a real address: the statement is not vacuous *)
Example checkEncodeCashAddress_tie_err :
  Kernels2.checkEncodeCashAddress 63 [1; 2; 3] [98] 0%Z = Ok [].
Proof. vm_compute. reflexivity. Qed.

Example checkEncodeCashAddress_tie_ok :
  is_ok (Kernels2.checkEncodeCashAddress 63 (repeat 7 20) [98] 0%Z) = true.
Proof. vm_compute. reflexivity. Qed.

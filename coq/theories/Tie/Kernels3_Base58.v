(* Tie between the generated base58check functions (Gen/Kernels3.v: checksum, CheckEncode, CheckDecode,
   translated from base58/base58check.go) and the model Base58/Base58.v.
   The dependencies are instantiated by the in-Coq SHA-256 (crypto/sha256.Sum256) and by the model's
   Base58.encode / Base58.decode (base58.Encode / Decode use math/big and stay abstract in the translation). *)
From BU Require Import Lib.Bytes Lib.Sha256 Base58.Base58 Gen.Kernels2 Gen.Kernels3 Tie.Kernels2Lib Tie.Kernels3Lib.
From Coq Require Import ZifyBool ZifyN ZifyNat.

(* any hash with 32-byte digests *)
Section Hash.
Variable H : list N -> list N.
Hypothesis H_len : forall x, length (H x) = 32%nat.

Lemma checksum_gen input : Kernels3.checksum H input = Ok (firstn 4 (H (H input))).
Proof using H_len.
  unfold Kernels3.checksum.
  change 4%Z with (Z.of_nat 4). rewrite slice_prefix by (rewrite H_len; lia). cbn [rbind].
  rewrite copy_at_full; [reflexivity|]. rewrite firstn_length, H_len. reflexivity.
Qed.
End Hash.

Theorem checksum_tie input : Kernels3.checksum sha256 input = Ok (Base58.checksum input).
Proof. apply checksum_gen, sha256_length_32. Qed.
Print Assumptions checksum_tie.

Theorem CheckEncode_tie input version :
  Kernels3.CheckEncode sha256 Base58.encode input version = Ok (check_encode input version).
Proof.
  unfold Kernels3.CheckEncode, check_encode. cbn [app]. rewrite checksum_tie. reflexivity.
Qed.
Print Assumptions CheckEncode_tie.

(* the model's result seen through the translation's conventions: the error is a value *)
Definition check_decode_view (r : res (list N * N)) : res (list N * N * N) :=
  match r with
  | Ok (p, v) => Ok (p, v, 0)
  | Err e => Ok ([], 0, if e =? 1 then Kernels3.base58_ErrInvalidFormat else Kernels3.base58_ErrChecksum)
  | Panic k => Panic k
  end.

Theorem CheckDecode_tie s :
  Kernels3.CheckDecode sha256 Base58.decode s = check_decode_view (check_decode s).
Proof.
  unfold Kernels3.CheckDecode, check_decode.
  remember (decode s) as d eqn:Ed0. clear Ed0 s. set (n := length d).
  destruct (Nat.ltb_spec n 5) as [Hlt|Hge].
  - destruct (Z.ltb_spec (Z.of_nat n) 5); [reflexivity|lia].
  - destruct (Z.ltb_spec (Z.of_nat n) 5); [lia|].
    assert (Hidx : Go.idx d 0%Z = Ok (hd 0 d)) by (destruct d; [simpl in n; lia|reflexivity]).
    rewrite Hidx. cbn [rbind].
    change 4%Z with (Z.of_nat 4). fold n. unfold n at 1 2. rewrite slice_suffix by (fold n; lia). cbn [rbind]. fold n.
    rewrite copy_at_full by (rewrite skipn_length; fold n; simpl; lia). cbn [rbind].
    replace (Z.of_nat n - Z.of_nat 4)%Z with (Z.of_nat (n - 4)) by lia.
    rewrite slice_prefix by (fold n; lia). cbn [rbind].
    rewrite checksum_tie. cbn [rbind].
    destruct (list_eqb (Base58.checksum (firstn (n - 4) d)) (skipn (n - 4) d)); cbn [negb]; [|reflexivity].
    change 1%Z with (Z.of_nat 1). rewrite slice_nat by (fold n; lia). cbn [rbind check_decode_view app].
    rewrite skipn_firstn_comm. reflexivity.
Qed.
Print Assumptions CheckDecode_tie.

(* accept / reject as the model states it *)
Corollary CheckDecode_ok s p v :
  check_decode s = Ok (p, v) -> Kernels3.CheckDecode sha256 Base58.decode s = Ok (p, v, 0).
Proof. intros E. rewrite CheckDecode_tie, E. reflexivity. Qed.

Corollary CheckDecode_err s e :
  check_decode s = Err e ->
  exists code, Kernels3.CheckDecode sha256 Base58.decode s = Ok ([], 0, code) /\ code <> 0.
Proof.
  intros E. rewrite CheckDecode_tie, E. cbn [check_decode_view].
  eexists; split; [reflexivity|]. destruct (e =? 1); discriminate.
Qed.

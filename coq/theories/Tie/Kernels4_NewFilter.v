(* Tie between the fourth-mode transliteration of bloom.NewFilter (Gen/Kernels4.v, float64 arithmetic as
   Flocq IEEE-754 binary64 operations, module Go4) and the model Bloom.new_filter / Bloom.sizing.

   The model keeps the two float64 -> uint32 conversions of the source abstract ([conv_len : N] and
   [conv_hash : N -> N]).  Here they are DEFINED as exactly the float expressions of the generated code:
     clamp_fprate_gen p          the two clamps of L48-L53 (p > 1.0 -> 1.0 ; p < 1e-9 -> 1e-9)
     conv_len_of math_Log n p    uint32(-1 * float64(n) * math.Log(clamped p) / ln2Squared)
     conv_hash_of n d8           uint32(float64(d8) / float64(n) * math.Ln2)
   and NewFilter_tie says: for EVERY math_Log, the generated NewFilter (with wire.NewMsgFilterLoad
   instantiated by the record constructor) is the model's new_filter with those two conversions, seen as
   the generated record through Kernels3_BloomFilter.putf (mutex zero value, message of the model).

   The clamp facts are then proved on the generated function itself, for all inputs (NaN, Inf,
   elements = 0 included) and every math_Log:
     NewFilter_clamps_tie        the result is Some filter with a loaded message of
                                 length <= 36000 = wire.MaxFilterLoadFilterSize, all bytes zero,
                                 HashFuncs <= 50 = wire.MaxFilterLoadHashFuncs, Tweak and Flags as given.
     NewFilter_within_limits_tie the same through the model's predicates within_wire_limits / len_ok_msg.

   Only hypothesis: tweak < 2^32 (a uint32; the model wraps it).  Nothing about elements, fprate, flags. *)
From Coq Require Import List NArith ZArith Bool Lia ZifyBool ZifyN ZifyNat.
From BU Require Import Lib.Bytes Gen.Xbloom Gen.Kernels3 Gen.Kernels4
  Bloom.Murmur3 Bloom.Bloom Bloom.BloomProofs Tie.Kernels3_BloomFilter.
Import ListNotations.
Local Open Scope N_scope.

(* ====================================================================== *)
(* the two conversions, as the float expressions of the generated code    *)
(* ====================================================================== *)
(* the literal 1e-9, ln2Squared and math.Ln2 as the translator emits them *)
(* Notations, not Definitions: the terms below are syntactically those of Gen/Kernels4.v, so that no
   conversion ever has to evaluate a Flocq constant *)
Local Notation f64_1em9 := (Go4.f64_of_ratio 4835703278458517%Z 4835703278458516698824704%Z) (only parsing).
Local Notation f64_ln2Squared := (Go4.f64_of_ratio 8655072057804175%Z 18014398509481984%Z) (only parsing).
Local Notation f64_Ln2 := (Go4.f64_of_ratio 6243314768165359%Z 9007199254740992%Z) (only parsing).

Definition clamp_fprate_gen (fprate : Go4.float) : Go4.float :=
  let fprate := if Go4.f64_ltb (Go4.f64_of_Z 1%Z) fprate then Go4.f64_of_Z 1%Z else fprate in
  if Go4.f64_ltb fprate f64_1em9 then f64_1em9 else fprate.

Definition conv_len_of (math_Log : Go4.float -> Go4.float) (elements : N) (fprate : Go4.float) : N :=
  Go4.f64_to_uint32
    (Go4.f64_div
       (Go4.f64_mul (Go4.f64_mul (Go4.f64_of_Z (-1)%Z) (Go4.f64_of_Z (Z.of_N elements)))
                    (math_Log (clamp_fprate_gen fprate)))
       f64_ln2Squared).

Definition conv_hash_of (elements : N) : N -> N :=
  fun d8 => Go4.f64_to_uint32
              (Go4.f64_mul (Go4.f64_div (Go4.f64_of_Z (Z.of_N d8)) (Go4.f64_of_Z (Z.of_N elements))) f64_Ln2).

(* the view of a model filter as the record NewFilter returns: zero mutex, the message of the model *)
Definition new_bf (f : filter) : Kernels3.bloom_Filter :=
  putf (Kernels3.mk_bloom_Filter (Kernels3.mk_sync_Mutex 0%Z) None) f.

(* ====================================================================== *)
(* uint32(f) is a uint32                                                   *)
(* ====================================================================== *)
Lemma f64_to_uint32_lt f : Go4.f64_to_uint32 f < 2 ^ 32.
Proof.
  unfold Go4.f64_to_uint32. generalize (Go4.f64_to_int64 f). intro z.
  pose proof (Z.mod_pos_bound z (2 ^ 32)%Z ltac:(lia)) as H.
  change (2 ^ 32) with 4294967296. change (2 ^ 32)%Z with 4294967296%Z in *. lia.
Qed.

Lemma w32_id x : x < 2 ^ 32 -> w32 x = x.
Proof. intro H. rewrite w32_mod. apply N.mod_small. exact H. Qed.

Lemma w32_f64_to_uint32 f : w32 (Go4.f64_to_uint32 f) = Go4.f64_to_uint32 f.
Proof. apply w32_id, f64_to_uint32_lt. Qed.

(* ====================================================================== *)
(* the model's sizing for conversions that return uint32 values (no float here) *)
(* ====================================================================== *)
Lemma sizing_u32 (cl : N) (ch : N -> N) :
  cl < 2 ^ 32 -> (forall x, ch x < 2 ^ 32) ->
  Bloom.sizing cl ch
  = (let dataLen := Kernels4.minUint32 cl 288000 / 8 in
     let hashFuncs := Kernels4.minUint32 (ch ((dataLen * 8) mod 2 ^ 32)) 50 in
     (dataLen, hashFuncs)).
Proof.
  intros Hcl Hch. unfold Bloom.sizing. cbv zeta.
  destruct lits_new_filter as (-> & -> & ->).
  change (w32 (max_filter_size * 8)) with 288000.
  change max_hash_funcs with 50.
  change Kernels4.minUint32 with min_u32.
  rewrite (w32_id cl Hcl).
  rewrite (w32_mod (min_u32 cl 288000 / 8 * 8)).
  rewrite (w32_id _ (Hch _)).
  reflexivity.
Qed.

(* ====================================================================== *)
(* the generated function as a closed form over the two conversions        *)
(* ====================================================================== *)
Lemma NewFilter_unfold math_Log elements tweak fprate flags :
  Kernels4.NewFilter math_Log (fun d h t f => Some (Kernels3.mk_wire_MsgFilterLoad d h t f))
                     elements tweak fprate flags
  = let dataLen := Kernels4.minUint32 (conv_len_of math_Log elements fprate) 288000 / 8 in
    let hashFuncs := Kernels4.minUint32 (conv_hash_of elements ((dataLen * 8) mod 2 ^ 32)) 50 in
    Some (Kernels3.mk_bloom_Filter (Kernels3.mk_sync_Mutex 0%Z)
            (Some (Kernels3.mk_wire_MsgFilterLoad (List.repeat 0 (N.to_nat dataLen)) hashFuncs tweak flags))).
Proof.
  unfold Kernels4.NewFilter, conv_len_of, conv_hash_of, clamp_fprate_gen. cbv zeta. reflexivity.
Qed.

Lemma conv_len_of_lt math_Log elements fprate : conv_len_of math_Log elements fprate < 2 ^ 32.
Proof. unfold conv_len_of. apply f64_to_uint32_lt. Qed.
Lemma conv_hash_of_lt elements d8 : conv_hash_of elements d8 < 2 ^ 32.
Proof. unfold conv_hash_of. apply f64_to_uint32_lt. Qed.

(* ====================================================================== *)
(* NewFilter against the model                                             *)
(* ====================================================================== *)
Theorem NewFilter_tie :
  forall (math_Log : Go4.float -> Go4.float) (elements tweak : N) (fprate : Go4.float) (flags : N),
    tweak < 2 ^ 32 ->
    Kernels4.NewFilter math_Log (fun d h t f => Some (Kernels3.mk_wire_MsgFilterLoad d h t f))
                       elements tweak fprate flags
    = Some (new_bf (Bloom.new_filter (conv_len_of math_Log elements fprate) (conv_hash_of elements) tweak flags)).
Proof.
  intros math_Log elements tweak fprate flags Ht.
  rewrite NewFilter_unfold.
  pose proof (conv_len_of_lt math_Log elements fprate) as Hcl.
  pose proof (conv_hash_of_lt elements) as Hch.
  revert Hcl Hch.
  generalize (conv_len_of math_Log elements fprate). intro cl.
  generalize (conv_hash_of elements). intro ch.
  intros Hcl Hch.
  unfold new_bf, Bloom.new_filter.
  rewrite (sizing_u32 cl ch Hcl Hch). cbv zeta.
  rewrite (w32_id tweak Ht).
  reflexivity.
Qed.
Print Assumptions NewFilter_tie.

(* ====================================================================== *)
(* the clamps, on the generated function, for all inputs and every Log     *)
(* ====================================================================== *)
Theorem NewFilter_clamps_tie :
  forall (math_Log : Go4.float -> Go4.float) (elements tweak : N) (fprate : Go4.float) (flags : N),
    exists (mtx : Kernels3.sync_Mutex) (data : list N) (hashFuncs : N),
      Kernels4.NewFilter math_Log (fun d h t f => Some (Kernels3.mk_wire_MsgFilterLoad d h t f))
                         elements tweak fprate flags
      = Some (Kernels3.mk_bloom_Filter mtx (Some (Kernels3.mk_wire_MsgFilterLoad data hashFuncs tweak flags)))
      /\ N.of_nat (List.length data) <= 36000
      /\ Forall (fun b => b = 0) data
      /\ hashFuncs <= 50.
Proof.
  intros math_Log elements tweak fprate flags.
  rewrite NewFilter_unfold.
  generalize (conv_len_of math_Log elements fprate). intro cl.
  generalize (conv_hash_of elements). intro ch.
  cbv zeta. change Kernels4.minUint32 with min_u32.
  do 3 eexists. split; [reflexivity|].
  split; [|split].
  - rewrite repeat_length, N2Nat.id.
    pose proof (min_u32_le_r cl 288000) as H.
    apply N.div_le_upper_bound; lia.
  - apply Forall_forall. intros b Hb. apply repeat_spec in Hb. exact Hb.
  - apply min_u32_le_r.
Qed.
Print Assumptions NewFilter_clamps_tie.

(* the same through the model's predicates, and the sizing of the model reused (sizing_within_limits,
   new_filter_within_limits of Bloom/BloomProofs.v) through NewFilter_tie *)
Theorem NewFilter_within_limits_tie :
  forall (math_Log : Go4.float -> Go4.float) (elements tweak : N) (fprate : Go4.float) (flags : N),
    tweak < 2 ^ 32 ->
    exists (bf : Kernels3.bloom_Filter) (m : msg),
      Kernels4.NewFilter math_Log (fun d h t f => Some (Kernels3.mk_wire_MsgFilterLoad d h t f))
                         elements tweak fprate flags = Some bf
      /\ absf bf = Some m
      /\ within_wire_limits m /\ len_ok_msg m
      /\ Forall (fun b => b = 0) (m_bytes m) /\ m_tweak m = tweak /\ m_flags m = flags.
Proof.
  intros math_Log elements tweak fprate flags Ht.
  rewrite (NewFilter_tie math_Log elements tweak fprate flags Ht).
  generalize (conv_len_of math_Log elements fprate). intro cl.
  generalize (conv_hash_of elements). intro ch.
  destruct (new_filter_within_limits cl ch tweak flags) as (m & Hm & Hw & Hl & Hz & _).
  exists (new_bf (Some m)), m. rewrite Hm.
  split; [reflexivity|]. split; [apply absf_putf|].
  repeat split; try assumption; try apply Hw.
  - unfold Bloom.new_filter in Hm. destruct (sizing _ _) as [dl hf]. inversion Hm. cbn [m_tweak].
    apply w32_id, Ht.
  - unfold Bloom.new_filter in Hm. destruct (sizing _ _) as [dl hf]. inversion Hm. reflexivity.
Qed.
Print Assumptions NewFilter_within_limits_tie.

(* Tie between the generated checkDecodeCashAddress and DecodeAddress (Gen/Kernels3.v, translated from
   address.go) and the model Address/Address.v (check_decode_cash, decode_address).
   The instantiation of the abstract dependencies is in Tie/Kernels3_AddressLib.v; the ties of the callees are
   Tie/Kernels2_CashAddrDecode.v (DecodeCashAddress), Tie/Kernels2_Address.v (convertBits),
   Tie/Kernels3_Base58.v (CheckDecode) and Tie/Kernels3_Address.v (asciiLower, constructors, NewAddressPubKey). *)
From BU Require Import Lib.Bytes Lib.PolyMod Lib.Sha256 Gen.Xbchutil Gen.Nets Base58.Base58 CashAddr.CashAddr
  Address.Bits Address.BitsProofs Address.Address Address.CashProofs Address.AddressProofs
  Gen.Kernels2 Gen.Kernels3 Tie.Kernels2Lib Tie.Kernels3Lib Tie.Kernels3_Base58
  Tie.Kernels2_Address Tie.Kernels2_CashAddrDecode Tie.Kernels3_AddressLib Tie.Kernels3_Address.
From Coq Require Import ZifyBool ZifyN ZifyNat.

(* ================= checkDecodeCashAddress ================= *)

(* the error value of the model's error class: 1..7 (DecodeCashAddress, not the checksum) are passed on at
   site 1, 8 is the package-level ErrChecksumMismatch, 20 (convertBits) is passed on at site 2,
   21 (data length) is made at site 3, 22 is the package-level ErrUnknownAddressType *)
Definition cdc_code (e : N) : N :=
  if e =? 8 then Kernels3.bchutil_ErrChecksumMismatch
  else if e =? 22 then Kernels3.bchutil_ErrUnknownAddressType
  else if e =? 21 then 3
  else if e =? 20 then 2
  else 1.

(* the first result next to an error: nil for the errors of DecodeCashAddress and convertBits, the
   regrouped payload (version byte included) for the errors 21 and 22 *)
Definition cdc_data (input : list N) : list N :=
  match decode_cashaddr input with
  | Ok (_, d5) => match convert_bits d5 5 8 false with Ok d => d | _ => [] end
  | _ => []
  end.

(* the model's result seen through the translation's conventions: (result, prefix, t, err) *)
Definition cdc_view (input : list N) (r : list N * res (list N * N)) : res (list N * list N * Z * N) :=
  match r with
  | (p, Ok (h, t)) => Ok (h, p, Z.of_N t, 0)
  | (p, Err e) => Ok ((if (e =? 21) || (e =? 22) then cdc_data input else []), p, 0%Z, cdc_code e)
  | (p, Panic k) => Panic k
  end.

Lemma len_eqb_Z_N {A} (l : list A) (k : N) : (Z.of_nat (length l) =? Z.of_N k)%Z = (lenN l =? k).
Proof. unfold lenN. destruct (Z.eqb_spec (Z.of_nat (length l)) (Z.of_N k)), (N.eqb_spec (N.of_nat (length l)) k); lia. Qed.

Lemma slice_from1 {A} (l : list A) : (1 <= length l)%nat ->
  Go.slice l 1%Z (Z.of_nat (length l)) = Ok (skipn 1 l).
Proof.
  intros H. change 1%Z with (Z.of_nat 1). rewrite slice_nat by lia. f_equal.
  apply firstn_all2. rewrite skipn_length. lia.
Qed.

(* 63 <= fuel: the inner loop of convertBits (convertBits_tie); no other side condition *)
Theorem checkDecodeCashAddress_tie fuel input : (63 <= fuel)%nat ->
  Kernels3.checkDecodeCashAddress fuel input = cdc_view input (check_decode_cash input).
Proof.
  intros Hfuel. unfold Kernels3.checkDecodeCashAddress.
  rewrite DecodeCashAddress_tie, check_decode_cash_eq. unfold cdc_view, cdc_data.
  destruct (decode_cashaddr input) as [[pfx d5]|e|k] eqn:Ed; cbn [Go3.of_res rbind cdc_view]; [| |reflexivity].
  2:{ pose proof (decode_cashaddr_err _ _ Ed) as He. unfold cdc_code.
      destruct (N.eqb_spec e 8) as [->|N8]; [reflexivity|].
      assert (Hc : e = 1 \/ e = 2 \/ e = 3 \/ e = 4 \/ e = 5 \/ e = 6 \/ e = 7) by lia.
      destruct Hc as [->|[->|[->|[->|[->|[->| ->]]]]]]; reflexivity. }
  change (negb (0 =? 0)) with false. cbv iota.
  rewrite convertBits_tie by (assumption || lia).
  destruct (convert_bits d5 5 8 false) as [data|e|k] eqn:Ec; cbn [Go3.of_res rbind cdc_view]; [| |reflexivity].
  2:{ assert (e = 1) as -> by (eapply convert_bits_58_err; [eapply decode_cashaddr_lt32; exact Ed|exact Ec]).
      reflexivity. }
  change (negb (0 =? 0)) with false. cbv iota zeta.
  change 21%Z with (Z.of_N 21). change 33%Z with (Z.of_N 33). rewrite !len_eqb_Z_N.
  destruct (N.eqb_spec (lenN data) 21) as [E21|E21]; destruct (N.eqb_spec (lenN data) 33) as [E33|E33];
    try (exfalso; rewrite E21 in E33; discriminate E33); cbn [negb andb]; [| |reflexivity];
    (destruct data as [|v rest]; [unfold lenN in *; cbn [length] in *; lia|]);
    change (Go.idx (v :: rest) 0%Z) with (Ok v); cbn [rbind nth_error];
    rewrite slice_from1 by (cbn [length]; lia); cbn [rbind];
    rewrite ?andb_true_r, ?andb_false_r;
    repeat match goal with |- context [if (v =? ?c) then _ else _] => destruct (v =? c) end; reflexivity.
Qed.
Print Assumptions checkDecodeCashAddress_tie.

(* what the statement says about the error value *)
Lemma cdc_code_nonzero e : cdc_code e <> 0.
Proof. unfold cdc_code. repeat match goal with |- context [if ?b then _ else _] => destruct b end; discriminate. Qed.

Lemma cdc_code_checksum e : cdc_code e = Kernels3.bchutil_ErrChecksumMismatch <-> e = 8.
Proof.
  unfold cdc_code. destruct (N.eqb_spec e 8); [tauto|].
  repeat match goal with |- context [if ?b then _ else _] => destruct b end; split; (discriminate || lia).
Qed.

Lemma cdc_code_unknown_type e : cdc_code e = Kernels3.bchutil_ErrUnknownAddressType <-> e = 22.
Proof.
  unfold cdc_code. destruct (N.eqb_spec e 8); [split; [discriminate|lia]|]. destruct (N.eqb_spec e 22); [tauto|].
  repeat match goal with |- context [if ?b then _ else _] => destruct b end; split; (discriminate || lia).
Qed.

Corollary checkDecodeCashAddress_ok fuel input p h t : (63 <= fuel)%nat ->
  check_decode_cash input = (p, Ok (h, t)) ->
  Kernels3.checkDecodeCashAddress fuel input = Ok (h, p, Z.of_N t, 0).
Proof. intros Hf E. rewrite checkDecodeCashAddress_tie, E by assumption. reflexivity. Qed.

Corollary checkDecodeCashAddress_err fuel input p e : (63 <= fuel)%nat ->
  check_decode_cash input = (p, Err e) ->
  exists data code, Kernels3.checkDecodeCashAddress fuel input = Ok (data, p, 0%Z, code) /\ code <> 0 /\
    (e = 8 <-> code = Kernels3.bchutil_ErrChecksumMismatch) /\
    (e = 22 <-> code = Kernels3.bchutil_ErrUnknownAddressType).
Proof.
  intros Hf E. rewrite checkDecodeCashAddress_tie, E by assumption. cbn [cdc_view].
  eexists; eexists; split; [reflexivity|]. split; [apply cdc_code_nonzero|].
  split; [symmetry; apply cdc_code_checksum|symmetry; apply cdc_code_unknown_type].
Qed.
Print Assumptions checkDecodeCashAddress_ok.
Print Assumptions checkDecodeCashAddress_err.

(* ================= DecodeAddress ================= *)

Lemma lenZ_nat {A} (l : list A) (k : nat) : (Z.of_nat (length l) =? Z.of_nat k)%Z = (length l =? k)%nat.
Proof. destruct (Z.eqb_spec (Z.of_nat (length l)) (Z.of_nat k)), (Nat.eqb_spec (length l) k); lia. Qed.

Lemma ZN_eqb (a b : N) : (Z.of_N a =? Z.of_N b)%Z = (a =? b).
Proof. destruct (Z.eqb_spec (Z.of_N a) (Z.of_N b)), (N.eqb_spec a b); lia. Qed.

Lemma check_decode_err s e : check_decode s = Err e -> e = 1 \/ e = 2.
Proof.
  unfold check_decode. destruct (_ <? _)%nat; [intros H; injection H as <-; now left|].
  destruct (list_eqb _ _); [discriminate|]. intros H; injection H as <-. now right.
Qed.

Section DecodeTie.
Variable P : Type.
Variable ec_parse : list N -> option P.
Variables reg_pkh reg_sh : list N.

Definition gDecodeAddress :=
  Kernels3.DecodeAddress unit (option P) sha256 Base58.decode tt (parse_pubkey P ec_parse) hex_decode_string
    (is_pkh_id reg_pkh) (is_sh_id reg_sh).

Local Notation gnil := (Kernels3.bchutil_Address_nil (option P)).
Local Notation ErrCk := Kernels3.bchutil_ErrChecksumMismatch.

(* ---------- the statement ---------- *)
(* the value returned next to an error: the nil interface, except where the code returns the result pair of
   NewAddressPubKey (address.go:162): a nil *AddressPubKey converted to the interface Address *)
Definition da_nil (e : N) : gaddr P :=
  if (e =? 5) || (e =? 6) then Kernels3.bchutil_Address_AddressPubKey (option P) None else gnil.

(* the error value of the model's error class: the four package-level errors are identified, every other
   class is an error made by errors.New / passed on from a dependency (non-nil, not package-level) *)
Definition da_code_ok (e code : N) : Prop :=
  if e =? 7 then code = Kernels3.bchutil_ErrChecksumMismatch
  else if e =? 8 then code = Kernels3.bchutil_ErrUnknownFormat
  else if e =? 9 then code = Kernels3.bchutil_ErrAddressCollision
  else if e =? 2 then code = Kernels3.bchutil_ErrUnknownAddressType
  else 0 < code /\ code < 1000.

Definition da_rel (r : res (addr P)) (g : res (gaddr P * N)) : Prop :=
  match r with
  | Ok a => g = Ok (to_gen a, 0)
  | Err e => exists code, g = Ok (da_nil e, code) /\ da_code_ok e code
  | Panic k => g = Panic k
  end.

(* ---------- the generated function, cut into the pieces the model is made of ---------- *)
Section Net.
Variable net : net.
Local Notation dn := (Some (params_of net)).
Local Notation bch := (cash_prefix net).
Local Notation slp := (slp_prefix net).

(* L91 / L123: addrWithPrefix, in continuation-passing style *)
Definition g_with_prefix {X} (pfx addr : list N) (k : list N -> res X) : res X :=
  do t3_ <- Go.slice addr 0%Z ((Z.of_nat (List.length bch)) + 1%Z)%Z ;;
  do t5_ <- (if (negb (Go3.equal_fold t3_ (bch ++ [58]))) then (do t4_ <- Go.slice addr 0%Z ((Z.of_nat (List.length slp)) + 1%Z)%Z ;; Ok (negb (Go3.equal_fold t4_ (slp ++ [58])))) else Ok false) ;;
  do addrWithPrefix <- (
    if t5_ then
      do t6_ <- Kernels3.asciiLower addr ;;
      let addrWithPrefix := ((pfx ++ [58]) ++ t6_) in
      Ok addrWithPrefix
    else
      Ok addr
  ) ;;
  k addrWithPrefix.

(* L100-L118 / L130-L148: the switch on the decoded length and type *)
Definition g_dispatch
    (f1 : list N -> option Kernels3.chaincfg_Params -> res (option Kernels3.bchutil_AddressPubKeyHash * N))
    (f2 : list N -> option Kernels3.chaincfg_Params -> res (option Kernels3.bchutil_AddressScriptHash * N))
    (f3 : list N -> option Kernels3.chaincfg_Params -> res (option Kernels3.bchutil_AddressScriptHash32 * N))
    (c1 c2 c3 c4 : N) (decoded : list N) (typ : Z) : res (gaddr P * N) :=
  let sw1_ := (Z.of_nat (List.length decoded)) in
  if (sw1_ =? 20%Z)%Z then
    if (typ =? 0%Z)%Z then
      do (t11_, t12_) <- f1 decoded dn ;;
      Ok ((Kernels3.bchutil_Address_AddressPubKeyHash (option P) t11_), (Go3.prop c1 t12_))
    else
      if (typ =? 1%Z)%Z then
        do (t13_, t14_) <- f2 decoded dn ;;
        Ok ((Kernels3.bchutil_Address_AddressScriptHash (option P) t13_), (Go3.prop c2 t14_))
      else
        Ok (gnil, Kernels3.bchutil_ErrUnknownAddressType)
  else
    if (sw1_ =? 32%Z)%Z then
      if (typ =? 2%Z)%Z then
        do (t15_, t16_) <- f3 decoded dn ;;
        Ok ((Kernels3.bchutil_Address_AddressScriptHash32 (option P) t15_), (Go3.prop c3 t16_))
      else
        Ok (gnil, Kernels3.bchutil_ErrUnknownAddressType)
    else
      Ok (gnil, c4).

Definition g_dispatch_cash := g_dispatch Kernels3.newAddressPubKeyHash Kernels3.newAddressScriptHashFromHash
  Kernels3.newAddressScriptHash32FromHash 2 3 5 7.
Definition g_dispatch_slp := g_dispatch Kernels3.NewSlpAddressPubKeyHash Kernels3.NewSlpAddressScriptHashFromHash
  Kernels3.NewSlpAddressScriptHash32FromHash 8 9 11 13.

(* L157-L192: the raw public key and the legacy paths *)
Definition g_tail (cashaddrErr : N) (addr : list N) : res (gaddr P * N) :=
  if (orb ((Z.of_nat (List.length addr)) =? 130%Z)%Z ((Z.of_nat (List.length addr)) =? 66%Z)%Z) then
    let '(t18_, t19_) := hex_decode_string addr in
    if (negb (t19_ =? 0)) then
      Ok (gnil, (Go3.prop 14 t19_))
    else
    do (t20_, t21_) <- gNewAddressPubKey P ec_parse t18_ dn ;;
    Ok ((Kernels3.bchutil_Address_AddressPubKey (option P) t20_), (Go3.prop 15 t21_))
  else
  do (t22_, t23_, t24_) <- Kernels3.CheckDecode sha256 Base58.decode addr ;;
  if (negb (t24_ =? 0)) then
    if (t24_ =? Kernels3.base58_ErrChecksum) then
      Ok (gnil, Kernels3.bchutil_ErrChecksumMismatch)
    else
    if (negb (cashaddrErr =? 0)) then
      Ok (gnil, (Go3.prop 17 cashaddrErr))
    else
    Ok (gnil, Kernels3.bchutil_ErrUnknownFormat)
  else
  if ((Z.of_nat (List.length t22_)) =? 20%Z)%Z then
    if (andb (is_pkh_id reg_pkh t23_) (is_sh_id reg_sh t23_)) then
      Ok (gnil, Kernels3.bchutil_ErrAddressCollision)
    else
      if (is_pkh_id reg_pkh t23_) then
        do (t25_, t26_) <- Kernels3.newLegacyAddressPubKeyHash t22_ t23_ ;;
        Ok ((Kernels3.bchutil_Address_LegacyAddressPubKeyHash (option P) t25_), (Go3.prop 20 t26_))
      else
        if (is_sh_id reg_sh t23_) then
          do (t27_, t28_) <- Kernels3.newLegacyAddressScriptHashFromHash t22_ t23_ ;;
          Ok ((Kernels3.bchutil_Address_LegacyAddressScriptHash (option P) t27_), (Go3.prop 21 t28_))
        else
          Ok (gnil, Kernels3.bchutil_ErrUnknownAddressType)
  else
    Ok (gnil, 23).

Definition g_retry (fuel : nat) (addr : list N) : res (gaddr P * N) :=
  g_with_prefix slp addr (fun addrWithPrefix_2 =>
    do (t33_, t34_, t35_, t36_) <- Kernels3.checkDecodeCashAddress fuel addrWithPrefix_2 ;;
    if (t36_ =? 0) then g_dispatch_slp t33_ t35_
    else g_tail (if (t36_ =? ErrCk) then ErrCk else 0) addr).

Definition g_decode (fuel : nat) (addr : list N) : res (gaddr P * N) :=
  if (orb ((Z.of_nat (List.length addr)) <? ((Z.of_nat (List.length bch)) + 2%Z)%Z)%Z ((Z.of_nat (List.length addr)) <? ((Z.of_nat (List.length slp)) + 2%Z)%Z)%Z) then
    Ok (gnil, 1)
  else
  g_with_prefix bch addr (fun addrWithPrefix =>
    do (t7_, t8_, t9_, t10_) <- Kernels3.checkDecodeCashAddress fuel addrWithPrefix ;;
    if (andb (t10_ =? 0) (negb (list_eqb t8_ slp))) then g_dispatch_cash t7_ t9_
    else if (orb (t10_ =? ErrCk) (list_eqb t8_ slp)) then g_retry fuel addr
    else g_tail 0 addr).

(* the pieces put together are the generated function (by conversion: only lets and local continuations
   were named) *)
Lemma DecodeAddress_unfold fuel s : gDecodeAddress fuel s dn = g_decode fuel s.
Proof. reflexivity. Qed.


(* ---------- the pieces against the model ---------- *)
Ltac da_err := eexists; split; [reflexivity|first [reflexivity|split; reflexivity]].

Lemma lencheck (s : list N) :
  (((Z.of_nat (length s)) <? ((Z.of_nat (length bch)) + 2))%Z || ((Z.of_nat (length s)) <? ((Z.of_nat (length slp)) + 2))%Z)
  = ((lenN s <? lenN bch + DA 0) || (lenN s <? lenN slp + DA 1)).
Proof.
  change (DA 0) with 2. change (DA 1) with 2. unfold lenN.
  destruct (Z.ltb_spec (Z.of_nat (length s)) (Z.of_nat (length bch) + 2)),
           (Z.ltb_spec (Z.of_nat (length s)) (Z.of_nat (length slp) + 2)),
           (N.ltb_spec (N.of_nat (length s)) (N.of_nat (length bch) + 2)),
           (N.ltb_spec (N.of_nat (length s)) (N.of_nat (length slp) + 2)); cbn [orb]; lia.
Qed.

(* once the length check has passed, the two slices cannot panic *)
Lemma g_with_prefix_spec {X} slpflag s (k : list N -> res X) :
  (length bch + 2 <= length s)%nat -> (length slp + 2 <= length s)%nat ->
  g_with_prefix (net_prefix net slpflag) s k = k (with_prefix net slpflag s).
Proof.
  intros Hb Hs. unfold g_with_prefix, with_prefix, has_prefix.
  change (N.to_nat (DA 2)) with 1%nat. change (N.to_nat (DA 3)) with 1%nat. change colon with 58.
  replace (Z.of_nat (length bch) + 1)%Z with (Z.of_nat (length bch + 1)) by lia.
  replace (Z.of_nat (length slp) + 1)%Z with (Z.of_nat (length slp + 1)) by lia.
  rewrite slice_prefix by lia. cbn [rbind]. rewrite equal_fold_tie.
  destruct (Address.equal_fold (firstn (length bch + 1) s) (bch ++ [58])); cbn [negb orb rbind]; [reflexivity|].
  rewrite slice_prefix by lia. cbn [rbind]. rewrite equal_fold_tie.
  destruct (Address.equal_fold (firstn (length slp + 1) s) (slp ++ [58])); cbn [negb orb rbind]; [reflexivity|].
  rewrite asciiLower_tie. cbn [rbind]. rewrite <- app_assoc. reflexivity.
Qed.

Lemma dispatch_cash_rel decoded typ :
  da_rel (cash_dispatch P net false decoded typ) (g_dispatch_cash decoded (Z.of_N typ)).
Proof.
  unfold g_dispatch_cash, g_dispatch, cash_dispatch. cbv zeta.
  change 20%Z with (Z.of_nat 20). change 32%Z with (Z.of_nat 32). rewrite !lenZ_nat.
  change 0%Z with (Z.of_N 0). change 1%Z with (Z.of_N 1). change 2%Z with (Z.of_N 2). rewrite !ZN_eqb.
  change ripemd160_size with 20%nat. change sha256_size with 32%nat.
  change AddrTypePKH with 0. change AddrTypeSH with 1. change AddrTypeSH32 with 2.
  destruct (length decoded =? 20)%nat eqn:E20.
  - destruct (typ =? 0).
    { rewrite (newAddressPubKeyHash_tie P). unfold new_pkh. change ripemd160_size with 20%nat. rewrite E20. reflexivity. }
    destruct (typ =? 1).
    { rewrite (newAddressScriptHashFromHash_tie P). unfold new_sh. change ripemd160_size with 20%nat. rewrite E20. reflexivity. }
    cbn [da_rel]. da_err.
  - destruct (length decoded =? 32)%nat eqn:E32; [|cbn [da_rel]; da_err].
    destruct (typ =? 2); [|cbn [da_rel]; da_err].
    rewrite (newAddressScriptHash32FromHash_tie P). unfold new_sh32. change sha256_size with 32%nat. rewrite E32. reflexivity.
Qed.

Lemma dispatch_slp_rel decoded typ :
  da_rel (cash_dispatch P net true decoded typ) (g_dispatch_slp decoded (Z.of_N typ)).
Proof.
  unfold g_dispatch_slp, g_dispatch, cash_dispatch. cbv zeta.
  change 20%Z with (Z.of_nat 20). change 32%Z with (Z.of_nat 32). rewrite !lenZ_nat.
  change 0%Z with (Z.of_N 0). change 1%Z with (Z.of_N 1). change 2%Z with (Z.of_N 2). rewrite !ZN_eqb.
  change ripemd160_size with 20%nat. change sha256_size with 32%nat.
  change AddrTypePKH with 0. change AddrTypeSH with 1. change AddrTypeSH32 with 2.
  destruct (length decoded =? 20)%nat eqn:E20.
  - destruct (typ =? 0).
    { rewrite (NewSlpAddressPubKeyHash_tie P). unfold new_pkh. change ripemd160_size with 20%nat. rewrite E20. reflexivity. }
    destruct (typ =? 1).
    { rewrite (NewSlpAddressScriptHashFromHash_tie P). unfold new_sh. change ripemd160_size with 20%nat. rewrite E20. reflexivity. }
    cbn [da_rel]. da_err.
  - destruct (length decoded =? 32)%nat eqn:E32; [|cbn [da_rel]; da_err].
    destruct (typ =? 2); [|cbn [da_rel]; da_err].
    rewrite (NewSlpAddressScriptHash32FromHash_tie P). unfold new_sh32. change sha256_size with 32%nat. rewrite E32. reflexivity.
Qed.

Lemma new_pubkey_err ser e : new_pubkey P ec_parse net ser = Err e -> e = 5 \/ e = 6.
Proof.
  unfold new_pubkey. destruct (ec_parse ser); [|intros H; injection H as <-; now left].
  destruct (nth_error _ _); [|discriminate].
  repeat match goal with |- context [if ?b then _ else _] => destruct b end; try discriminate.
  intros H; injection H as <-. now right.
Qed.

(* cashaddrErr is nil or ErrChecksumMismatch, the model carries the flag *)
Lemma tail_rel s (b : bool) :
  da_rel (tail_path P ec_parse net reg_pkh reg_sh s b) (g_tail (if b then ErrCk else 0) s).
Proof.
  unfold g_tail, tail_path.
  change 130%Z with (Z.of_N 130). change 66%Z with (Z.of_N 66). rewrite !len_eqb_Z_N.
  change (DA 6) with 130. change (DA 7) with 66.
  destruct ((lenN s =? 130) || (lenN s =? 66)).
  - unfold hex_decode_string. destruct (hex_decode s) as [ser|]; [|cbn [da_rel]; da_err].
    change (negb (0 =? 0)) with false. cbv iota.
    rewrite NewAddressPubKey_tie.
    destruct (new_pubkey P ec_parse net ser) as [a|e|k] eqn:En; cbn [ctor_view rbind da_rel].
    + rewrite (pubkey_of_to_gen P ec_parse net ser a En). reflexivity.
    + destruct (new_pubkey_err _ _ En) as [-> | ->]; da_err.
    + reflexivity.
  - unfold legacy_path. rewrite CheckDecode_tie.
    destruct (check_decode s) as [[decoded net_id]|e|k] eqn:Ec; cbn [check_decode_view rbind da_rel]; [| |reflexivity].
    2:{ destruct (check_decode_err _ _ Ec) as [-> | ->].
        - destruct b; cbn [da_rel]; da_err.
        - cbn [da_rel]. da_err. }
    change (negb (0 =? 0)) with false. cbv iota.
    change 20%Z with (Z.of_nat 20). rewrite lenZ_nat. change ripemd160_size with 20%nat.
    unfold is_pkh_id, is_sh_id.
    destruct (length decoded =? 20)%nat eqn:E20; [|cbn [da_rel]; da_err].
    destruct (Address.mem net_id reg_pkh); destruct (Address.mem net_id reg_sh); cbn [andb].
    + cbn [da_rel]. da_err.
    + rewrite (newLegacyAddressPubKeyHash_tie P). unfold new_leg_pkh. change ripemd160_size with 20%nat. rewrite E20. reflexivity.
    + rewrite (newLegacyAddressScriptHashFromHash_tie P). unfold new_leg_sh. change ripemd160_size with 20%nat. rewrite E20. reflexivity.
    + cbn [da_rel]. da_err.
Qed.

Lemma cdc_code_eqb_0 e : (cdc_code e =? 0) = false.
Proof. apply N.eqb_neq, cdc_code_nonzero. Qed.

Lemma cdc_code_eqb_ck e : (cdc_code e =? ErrCk) = (e =? 8).
Proof.
  destruct (N.eqb_spec e 8) as [->|Hn]; [reflexivity|].
  apply N.eqb_neq. intros H. apply cdc_code_checksum in H. contradiction.
Qed.

Lemma retry_rel fuel s : (63 <= fuel)%nat ->
  (length bch + 2 <= length s)%nat -> (length slp + 2 <= length s)%nat ->
  da_rel (match snd (check_decode_cash (with_prefix net true s)) with
          | Ok (decoded, typ) => cash_dispatch P net true decoded typ
          | Err e => tail_path P ec_parse net reg_pkh reg_sh s (e =? 8)
          | Panic k => Panic k
          end) (g_retry fuel s).
Proof.
  intros Hf Hb Hs. unfold g_retry.
  change slp with (net_prefix net true). rewrite g_with_prefix_spec by assumption.
  rewrite checkDecodeCashAddress_tie by assumption.
  destruct (check_decode_cash (with_prefix net true s)) as [pfx [[decoded typ]|e|k]]; cbn [snd cdc_view rbind].
  - change (0 =? 0) with true. cbv iota. apply dispatch_slp_rel.
  - rewrite cdc_code_eqb_0, cdc_code_eqb_ck. apply tail_rel.
  - reflexivity.
Qed.

Theorem DecodeAddress_rel fuel s : (63 <= fuel)%nat ->
  da_rel (decode_address P ec_parse net reg_pkh reg_sh s) (gDecodeAddress fuel s dn).
Proof.
  intros Hf. rewrite DecodeAddress_unfold. unfold g_decode, decode_address. rewrite lencheck.
  destruct ((lenN s <? lenN bch + DA 0) || (lenN s <? lenN slp + DA 1)) eqn:Elen; [cbn [da_rel]; da_err|].
  assert (Hb : (length bch + 2 <= length s)%nat /\ (length slp + 2 <= length s)%nat).
  { change (DA 0) with 2 in Elen. change (DA 1) with 2 in Elen. unfold lenN in Elen.
    apply orb_false_elim in Elen. destruct Elen as [E1 E2]. apply N.ltb_ge in E1, E2. lia. }
  destruct Hb as [Hb Hs].
  change bch with (net_prefix net false) at 1. rewrite g_with_prefix_spec by assumption.
  rewrite checkDecodeCashAddress_tie by assumption.
  pose proof (retry_rel fuel s Hf Hb Hs) as Hretry.
  destruct (check_decode_cash (with_prefix net false s)) as [pfx [[decoded typ]|e|k]]; cbn [cdc_view rbind].
  - change (0 =? 0) with true. destruct (list_eqb pfx slp); cbn [negb andb orb].
    + rewrite orb_true_r. exact Hretry.
    + apply dispatch_cash_rel.
  - rewrite cdc_code_eqb_0, cdc_code_eqb_ck. cbn [andb].
    destruct ((e =? 8) || list_eqb pfx slp); [exact Hretry|]. apply (tail_rel s false).
  - reflexivity.
Qed.

(* the same statement under the name the property wiring looks for *)
Theorem DecodeAddress_tie fuel s : (63 <= fuel)%nat ->
  da_rel (decode_address P ec_parse net reg_pkh reg_sh s) (gDecodeAddress fuel s dn).
Proof. exact (DecodeAddress_rel fuel s). Qed.


End Net.

(* ---------- the statement, spelled out ---------- *)
Theorem DecodeAddress_ok fuel net s a : (63 <= fuel)%nat ->
  decode_address P ec_parse net reg_pkh reg_sh s = Ok a ->
  gDecodeAddress fuel s (Some (params_of net)) = Ok (to_gen a, 0).
Proof. intros Hf E. pose proof (DecodeAddress_rel net fuel s Hf) as H. rewrite E in H. exact H. Qed.

Theorem DecodeAddress_err fuel net s e : (63 <= fuel)%nat ->
  decode_address P ec_parse net reg_pkh reg_sh s = Err e ->
  exists code, gDecodeAddress fuel s (Some (params_of net)) = Ok (da_nil e, code) /\ code <> 0 /\
    (e = 7 <-> code = Kernels3.bchutil_ErrChecksumMismatch) /\
    (e = 8 <-> code = Kernels3.bchutil_ErrUnknownFormat) /\
    (e = 9 <-> code = Kernels3.bchutil_ErrAddressCollision) /\
    (e = 2 <-> code = Kernels3.bchutil_ErrUnknownAddressType).
Proof.
  intros Hf E. pose proof (DecodeAddress_rel net fuel s Hf) as H. rewrite E in H.
  destruct H as (code & Hg & Hc). exists code. split; [exact Hg|]. clear Hg E.
  unfold da_code_ok in Hc.
  unfold Kernels3.bchutil_ErrChecksumMismatch, Kernels3.bchutil_ErrUnknownFormat,
    Kernels3.bchutil_ErrAddressCollision, Kernels3.bchutil_ErrUnknownAddressType in *.
  destruct (N.eqb_spec e 7); [subst; repeat split; intros; lia|].
  destruct (N.eqb_spec e 8); [subst; repeat split; intros; lia|].
  destruct (N.eqb_spec e 9); [subst; repeat split; intros; lia|].
  destruct (N.eqb_spec e 2); [subst; repeat split; intros; lia|].
  repeat split; intros; lia.
Qed.

Theorem DecodeAddress_panic fuel net s k : (63 <= fuel)%nat ->
  decode_address P ec_parse net reg_pkh reg_sh s = Panic k ->
  gDecodeAddress fuel s (Some (params_of net)) = Panic k.
Proof. intros Hf E. pose proof (DecodeAddress_rel net fuel s Hf) as H. rewrite E in H. exact H. Qed.

(* the converses: what the generated function returns determines the model's result *)
Theorem DecodeAddress_accepts fuel net s v : (63 <= fuel)%nat ->
  gDecodeAddress fuel s (Some (params_of net)) = Ok (v, 0) ->
  exists a, decode_address P ec_parse net reg_pkh reg_sh s = Ok a /\ v = to_gen a.
Proof.
  intros Hf G. pose proof (DecodeAddress_rel net fuel s Hf) as H.
  destruct (decode_address P ec_parse net reg_pkh reg_sh s) as [a|e|k]; cbn [da_rel] in H.
  - exists a. split; [reflexivity|]. rewrite H in G. now injection G as <-.
  - destruct H as (code & Hg & Hc). rewrite Hg in G. injection G as _ ->.
    unfold da_code_ok in Hc. exfalso.
    repeat match type of Hc with (if ?b then _ else _) => destruct b end; try discriminate Hc. lia.
  - rewrite H in G. discriminate.
Qed.

Theorem DecodeAddress_panics_iff fuel net s k : (63 <= fuel)%nat ->
  gDecodeAddress fuel s (Some (params_of net)) = Panic k <->
  decode_address P ec_parse net reg_pkh reg_sh s = Panic k.
Proof.
  intros Hf. split; [|now apply DecodeAddress_panic].
  intros G. pose proof (DecodeAddress_rel net fuel s Hf) as H.
  destruct (decode_address P ec_parse net reg_pkh reg_sh s) as [a|e|k']; cbn [da_rel] in H.
  - rewrite H in G. discriminate.
  - destruct H as (code & Hg & _). rewrite Hg in G. discriminate.
  - rewrite H in G. injection G as ->. reflexivity.
Qed.

(* a nil *chaincfg.Params is dereferenced first *)
Theorem DecodeAddress_nil fuel s : gDecodeAddress fuel s None = Panic 5.
Proof. reflexivity. Qed.

End DecodeTie.

Print Assumptions DecodeAddress_rel.
Print Assumptions DecodeAddress_tie.
Print Assumptions DecodeAddress_ok.
Print Assumptions DecodeAddress_err.
Print Assumptions DecodeAddress_panic.
Print Assumptions DecodeAddress_accepts.
Print Assumptions DecodeAddress_panics_iff.
Print Assumptions DecodeAddress_nil.

(* ---------- the statement is not vacuous: every kind of outcome is taken ---------- *)
Section Examples.
Let noparse : list N -> option unit := fun _ => None.
Let run := gDecodeAddress unit noparse registered_pkh_ids registered_sh_ids 63.
(* "bitcoincash:qpm2qsznhks23z7629mms6s4cwef74vcwvy22gdx6a" *)
Let s1 : list N := [98;105;116;99;111;105;110;99;97;115;104;58;113;112;109;50;113;115;122;110;104;107;115;50;51;122;55;54;50;57;109;109;115;54;115;52;99;119;101;102;55;52;118;99;119;118;121;50;50;103;100;120;54;97].
(* "1BvBMSEYstWetqTFn5Au4m4GFg7xJaNVN2" *)
Let s2 : list N := [49;66;118;66;77;83;69;89;115;116;87;101;116;113;84;70;110;53;65;117;52;109;52;71;70;103;55;120;74;97;78;86;78;50].

Example DecodeAddress_ex_cash :
  run s1 (Some (params_of mainnet)) =
  Ok (to_gen (PKH (cash_prefix mainnet) [118;160;64;83;189;160;168;139;218;81;119;184;106;21;195;178;159;85;152;115]), 0)
  /\ run (skipn 12 s1) (Some (params_of mainnet)) = run s1 (Some (params_of mainnet)).
Proof. vm_compute. split; reflexivity. Qed.

Example DecodeAddress_ex_legacy :
  run s2 (Some (params_of mainnet)) =
  Ok (to_gen (LegPKH 0 [119;191;242;12;96;229;34;223;170;51;80;195;155;3;10;93;0;78;131;154]), 0).
Proof. vm_compute. reflexivity. Qed.

(* a 66-character hex string that is not a public key: the error of bchec.ParsePubKey passed on at site 15,
   next to a nil *AddressPubKey converted to the interface (model: Err 5) *)
Example DecodeAddress_ex_typed_nil :
  run (repeat 48 66) (Some (params_of mainnet)) = Ok (Kernels3.bchutil_Address_AddressPubKey (option unit) None, 15)
  /\ decode_address unit noparse mainnet registered_pkh_ids registered_sh_ids (repeat 48 66) = Err 5.
Proof. vm_compute. split; reflexivity. Qed.
End Examples.

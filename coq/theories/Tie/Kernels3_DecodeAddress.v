(* Tie between the generated checkDecodeCashAddress and DecodeAddress (Gen/Kernels3.v, translated from
   address.go) and the model Address/Address.v (check_decode_cash, decode_address).
   The instantiation of the abstract dependencies is in Tie/Kernels3_AddressLib.v; the ties of the callees are
   Tie/Kernels2_CashAddrDecode.v (DecodeCashAddress), Tie/Kernels2_Address.v (convertBits),
   Tie/Kernels3_Base58.v (CheckDecode) and Tie/Kernels3_Address.v (asciiLower, constructors, NewAddressPubKey). *)
From BU Require Import Lib.Bytes Lib.PolyMod Lib.Sha256 Gen.Xbchutil Gen.Nets Base58.Base58 CashAddr.CashAddr
  Address.Bits Address.BitsProofs Address.Address Address.CashProofs Address.AddressProofs
  Gen.Kernels2 Gen.Kernels3 Tie.Kernels2Lib Tie.Kernels3Lib Tie.Kernels3_Base58
  Tie.Kernels2_Address Tie.Kernels2_CashAddrDecode Tie.Kernels3_AddressLib Tie.Kernels3_Address.
From Coq Require Import ZifyBool ZifyN ZifyNat.

(* ================= checkDecodeCashAddress ================= *)

(* the error value of the model's error class: 1..7 (DecodeCashAddress, not the checksum) are passed on at
   site 1, 8 is the package-level ErrChecksumMismatch, 20 (convertBits) is passed on at site 2,
   21 (data length) is made at site 3, 22 is the package-level ErrUnknownAddressType *)
Definition cdc_code (e : N) : N :=
  if e =? 8 then Kernels3.bchutil_ErrChecksumMismatch
  else if e =? 22 then Kernels3.bchutil_ErrUnknownAddressType
  else if e =? 21 then 3
  else if e =? 20 then 2
  else 1.

(* the first result next to an error: nil for the errors of DecodeCashAddress and convertBits, the
   regrouped payload (version byte included) for the errors 21 and 22 *)
Definition cdc_data (input : list N) : list N :=
  match decode_cashaddr input with
  | Ok (_, d5) => match convert_bits d5 5 8 false with Ok d => d | _ => [] end
  | _ => []
  end.

(* the model's result seen through the translation's conventions: (result, prefix, t, err) *)
Definition cdc_view (input : list N) (r : list N * res (list N * N)) : res (list N * list N * Z * N) :=
  match r with
  | (p, Ok (h, t)) => Ok (h, p, Z.of_N t, 0)
  | (p, Err e) => Ok ((if (e =? 21) || (e =? 22) then cdc_data input else []), p, 0%Z, cdc_code e)
  | (p, Panic k) => Panic k
  end.

Lemma len_eqb_Z_N {A} (l : list A) (k : N) : (Z.of_nat (length l) =? Z.of_N k)%Z = (lenN l =? k).
Proof. unfold lenN. destruct (Z.eqb_spec (Z.of_nat (length l)) (Z.of_N k)), (N.eqb_spec (N.of_nat (length l)) k); lia. Qed.

Lemma slice_from1 {A} (l : list A) : (1 <= length l)%nat ->
  Go.slice l 1%Z (Z.of_nat (length l)) = Ok (skipn 1 l).
Proof.
  intros H. change 1%Z with (Z.of_nat 1). rewrite slice_nat by lia. f_equal.
  apply firstn_all2. rewrite skipn_length. lia.
Qed.

(* 63 <= fuel: the inner loop of convertBits (convertBits_tie); no other side condition *)
Theorem checkDecodeCashAddress_tie fuel input : (63 <= fuel)%nat ->
  Kernels3.checkDecodeCashAddress fuel input = cdc_view input (check_decode_cash input).
Proof.
  intros Hfuel. unfold Kernels3.checkDecodeCashAddress.
  rewrite DecodeCashAddress_tie, check_decode_cash_eq. unfold cdc_view, cdc_data.
  destruct (decode_cashaddr input) as [[pfx d5]|e|k] eqn:Ed; cbn [Go3.of_res rbind cdc_view]; [| |reflexivity].
  2:{ pose proof (decode_cashaddr_err _ _ Ed) as He. unfold cdc_code.
      destruct (N.eqb_spec e 8) as [->|N8]; [reflexivity|].
      assert (Hc : e = 1 \/ e = 2 \/ e = 3 \/ e = 4 \/ e = 5 \/ e = 6 \/ e = 7) by lia.
      destruct Hc as [->|[->|[->|[->|[->|[->| ->]]]]]]; reflexivity. }
  change (negb (0 =? 0)) with false. cbv iota.
  rewrite convertBits_tie by (assumption || lia).
  destruct (convert_bits d5 5 8 false) as [data|e|k] eqn:Ec; cbn [Go3.of_res rbind cdc_view]; [| |reflexivity].
  2:{ assert (e = 1) as -> by (eapply convert_bits_58_err; [eapply decode_cashaddr_lt32; exact Ed|exact Ec]).
      reflexivity. }
  change (negb (0 =? 0)) with false. cbv iota zeta.
  change 21%Z with (Z.of_N 21). change 33%Z with (Z.of_N 33). rewrite !len_eqb_Z_N.
  destruct (N.eqb_spec (lenN data) 21) as [E21|E21]; destruct (N.eqb_spec (lenN data) 33) as [E33|E33];
    try (exfalso; rewrite E21 in E33; discriminate E33); cbn [negb andb]; [| |reflexivity];
    (destruct data as [|v rest]; [unfold lenN in *; cbn [length] in *; lia|]);
    change (Go.idx (v :: rest) 0%Z) with (Ok v); cbn [rbind nth_error];
    rewrite slice_from1 by (cbn [length]; lia); cbn [rbind];
    rewrite ?andb_true_r, ?andb_false_r;
    repeat match goal with |- context [if (v =? ?c) then _ else _] => destruct (v =? c) end; reflexivity.
Qed.
Print Assumptions checkDecodeCashAddress_tie.

(* what the statement says about the error value *)
Lemma cdc_code_nonzero e : cdc_code e <> 0.
Proof. unfold cdc_code. repeat match goal with |- context [if ?b then _ else _] => destruct b end; discriminate. Qed.

Lemma cdc_code_checksum e : cdc_code e = Kernels3.bchutil_ErrChecksumMismatch <-> e = 8.
Proof.
  unfold cdc_code. destruct (N.eqb_spec e 8); [tauto|].
  repeat match goal with |- context [if ?b then _ else _] => destruct b end; split; (discriminate || lia).
Qed.

Lemma cdc_code_unknown_type e : cdc_code e = Kernels3.bchutil_ErrUnknownAddressType <-> e = 22.
Proof.
  unfold cdc_code. destruct (N.eqb_spec e 8); [split; [discriminate|lia]|]. destruct (N.eqb_spec e 22); [tauto|].
  repeat match goal with |- context [if ?b then _ else _] => destruct b end; split; (discriminate || lia).
Qed.

Corollary checkDecodeCashAddress_ok fuel input p h t : (63 <= fuel)%nat ->
  check_decode_cash input = (p, Ok (h, t)) ->
  Kernels3.checkDecodeCashAddress fuel input = Ok (h, p, Z.of_N t, 0).
Proof. intros Hf E. rewrite checkDecodeCashAddress_tie, E by assumption. reflexivity. Qed.

Corollary checkDecodeCashAddress_err fuel input p e : (63 <= fuel)%nat ->
  check_decode_cash input = (p, Err e) ->
  exists data code, Kernels3.checkDecodeCashAddress fuel input = Ok (data, p, 0%Z, code) /\ code <> 0 /\
    (e = 8 <-> code = Kernels3.bchutil_ErrChecksumMismatch) /\
    (e = 22 <-> code = Kernels3.bchutil_ErrUnknownAddressType).
Proof.
  intros Hf E. rewrite checkDecodeCashAddress_tie, E by assumption. cbn [cdc_view].
  eexists; eexists; split; [reflexivity|]. split; [apply cdc_code_nonzero|].
  split; [symmetry; apply cdc_code_checksum|symmetry; apply cdc_code_unknown_type].
Qed.
Print Assumptions checkDecodeCashAddress_ok.
Print Assumptions checkDecodeCashAddress_err.

(* Tie between the transliteration of bloom.MurmurHash3 (Gen/Kernels.v, from the Go AST) and the
   hand-written model Bloom/Murmur3.v (engineer a-c09) used by the bloom-filter theorems. *)
From BU Require Import Lib.Bytes Lib.PolyMod Gen.Kernels Bloom.Murmur3 Tie.TieTactics.
From Coq Require Import ZifyBool ZifyN ZifyNat Arith.

Lemma w32_is_mod x : w32 x = x mod 2 ^ 32.
Proof. unfold w32. change 4294967295 with (N.ones 32). apply N.land_ones. Qed.

Lemma lor_shift_add x y k : x < 2 ^ k -> N.lor x (N.shiftl y k) = x + y * 2 ^ k.
Proof.
  intros Hx.
  assert (Hd : N.land x (N.shiftl y k) = 0).
  { apply N.bits_inj. intros n. rewrite N.land_spec, N.bits_0.
    destruct (N.ltb_spec n k) as [Hlt|Hge].
    - rewrite N.shiftl_spec_low by exact Hlt. apply andb_false_r.
    - rewrite <- (N.mod_small x (2 ^ k)) by exact Hx. rewrite N.mod_pow2_bits_high by exact Hge. reflexivity. }
  rewrite <- N.lxor_lor by exact Hd. rewrite <- N.add_nocarry_lxor by exact Hd.
  rewrite N.shiftl_mul_pow2. reflexivity.
Qed.

(* the intrinsic encoding/binary.LittleEndian.Uint32 on four bytes *)
Lemma le_uint32_eq s off a b c d :
  a < 256 -> b < 256 -> c < 256 -> d < 256 ->
  nth (N.to_nat off) s 0 = a -> nth (N.to_nat off + 1) s 0 = b ->
  nth (N.to_nat off + 2) s 0 = c -> nth (N.to_nat off + 3) s 0 = d ->
  le_uint32 s off = le32 a b c d.
Proof.
  intros Ha Hb Hc Hd Ea Eb Ec Ed. unfold le_uint32, le32. cbv zeta beta.
  rewrite Nat.add_0_r, Ea, Eb, Ec, Ed.
  rewrite (N.mod_small a), (N.mod_small b), (N.mod_small c), (N.mod_small d)
    by (eapply N.lt_trans; [eassumption | reflexivity]).
  assert (Hs : forall x k, x < 256 -> k <= 24 -> (N.shiftl x k) mod 2 ^ 32 = N.shiftl x k).
  { intros x k Hx Hk. apply N.mod_small. rewrite N.shiftl_mul_pow2.
    apply N.lt_le_trans with (256 * 2 ^ k); [apply N.mul_lt_mono_pos_r; [|exact Hx] |].
    - apply N.neq_0_lt_0, N.pow_nonzero. lia.
    - change 256 with (2 ^ 8). rewrite <- N.pow_add_r. apply N.pow_le_mono_r; lia. }
  rewrite !Hs by (assumption || lia).
  rewrite (lor_shift_add a b 8) by exact Ha.
  rewrite (lor_shift_add _ c 16) by (change (2 ^ 8) with 256; change (2 ^ 16) with 65536; lia).
  rewrite (lor_shift_add _ d 24) by (change (2 ^ 8) with 256; change (2 ^ 16) with 65536; change (2 ^ 24) with 16777216; lia).
  change (2 ^ 8) with 256. change (2 ^ 16) with 65536. change (2 ^ 24) with 16777216. lia.
Qed.

(* ---------- the model's block recursion as a fold over word indices ---------- *)
Definition word (data : list N) (i : nat) : N :=
  le32 (nth (4 * i) data 0) (nth (4 * i + 1) data 0) (nth (4 * i + 2) data 0) (nth (4 * i + 3) data 0).

Lemma word_shift a b c d t i : word (a :: b :: c :: d :: t) (S i) = word t i.
Proof.
  unfold word. replace (4 * S i)%nat with (S (S (S (S (4 * i))))) by lia. reflexivity.
Qed.

Lemma fold_left_map {A B C} (f : A -> B -> A) (g : C -> B) l a :
  fold_left f (map g l) a = fold_left (fun x y => f x (g y)) l a.
Proof. revert a. induction l as [|y l IH]; intros a; cbn [map fold_left]; [reflexivity | apply IH]. Qed.

Lemma fold_left_ext_in {A B} (f g : A -> B -> A) l a :
  (forall x y, In y l -> f x y = g x y) -> fold_left f l a = fold_left g l a.
Proof.
  revert a. induction l as [|y l IH]; intros a H; cbn [fold_left]; [reflexivity|].
  rewrite H by (left; reflexivity). apply IH. intros x z Hz. apply H. right. exact Hz.
Qed.

Lemma blocks_fold nb : forall data h r,
  (length data = 4 * nb + r)%nat -> (r < 4)%nat ->
  blocks h data = (fold_left (fun h i => mix_h h (word data i)) (seq 0 nb) h, skipn (4 * nb) data).
Proof.
  induction nb as [|nb IH]; intros data h r Hlen Hr.
  - cbn [seq fold_left Nat.mul skipn].
    destruct data as [|a [|b [|c [|d t]]]]; try reflexivity. cbn [length] in Hlen. lia.
  - destruct data as [|a [|b [|c [|d t]]]]; cbn [length] in Hlen; try lia.
    cbn [blocks]. rewrite (IH t _ r) by lia.
    replace (4 * S nb)%nat with (S (S (S (S (4 * nb))))) by lia. cbn [skipn]. f_equal.
    cbn [seq fold_left]. rewrite <- seq_shift, fold_left_map.
    change (word (a :: b :: c :: d :: t) 0) with (le32 a b c d).
    apply fold_left_ext_in. intros x y _. rewrite word_shift. reflexivity.
Qed.

Lemma nth_skipn {A} n j (l : list A) d : nth j (skipn n l) d = nth (n + j) l d.
Proof.
  revert l. induction n as [|n IH]; intros l; [reflexivity|].
  destruct l as [|x l]; cbn [skipn Nat.add nth]; [destruct j; reflexivity | apply IH].
Qed.

Lemma fold_snd {K H I} (F : K * H -> I -> K * H) (G : H -> I -> H) l :
  (forall k h i, In i l -> snd (F (k, h) i) = G h i) ->
  forall st, snd (fold_left F l st) = fold_left G l (snd st).
Proof.
  induction l as [|i l IH]; intros HF st; cbn [fold_left]; [reflexivity|].
  rewrite IH by (intros k h j Hj; apply HF; right; exact Hj).
  destruct st as [k h]. rewrite HF by (left; reflexivity). reflexivity.
Qed.

Lemma Bytes_nth l j : Bytes l -> nth j l 0 < 256.
Proof.
  intros Hl. revert j. induction Hl as [|x l Hx Hl IH]; intros [|j]; cbn [nth]; try reflexivity; [exact Hx | apply IH].
Qed.

(* constants of the model are evaluated (they come from Gen/Xbloom.v), w32 is the wrap *)
Ltac model_consts :=
  rewrite ?w32_is_mod;
  repeat match goal with
  | |- context [mlit ?k] => let x := eval vm_compute in (mlit k) in change (mlit k) with x
  end;
  let c1 := eval vm_compute in mC1 in change mC1 with c1;
  let c2 := eval vm_compute in mC2 in change mC2 with c2;
  let r1 := eval vm_compute in mR1 in change mR1 with r1;
  let r2 := eval vm_compute in mR2 in change mR2 with r2;
  let m := eval vm_compute in mM in change mM with m;
  let n := eval vm_compute in mN in change mN with n;
  repeat match goal with
  | |- context [?a - ?b] => is_N_cst a; is_N_cst b; let x := eval vm_compute in (a - b) in change (a - b) with x
  end.

Theorem MurmurHash3_tie seed data :
  seed < 2 ^ 32 -> Bytes data -> N.of_nat (length data) < 2 ^ 32 ->
  Kernels.MurmurHash3 seed data = murmur3 seed data.
Proof.
  intros Hseed Hdata Hlen.
  unfold Kernels.MurmurHash3, murmur3.
  rewrite !w32_is_mod, !(N.mod_small _ _ Hlen), (N.mod_small _ _ Hseed).
  set (len := length data) in *.
  set (nb := (len / 4)%nat).
  assert (Enb : N.of_nat len / 4 = N.of_nat nb).
  { unfold nb. apply N2Nat.inj. rewrite N2Nat.inj_div, !Nat2N.id. reflexivity. }
  assert (Hnb : (4 * nb <= len)%nat) by (unfold nb; lia).
  assert (Hr : (len - 4 * nb < 4)%nat) by (unfold nb; lia).
  assert (H32 : N.of_nat (4 * nb) + 3 < 2 ^ 32).
  { change (2 ^ 32) with 4294967296 in *. lia. }
  cbv zeta. rewrite Enb, Nat2N.id.
  match goal with |- context [List.fold_left ?f (List.seq 0 nb) ?init] =>
    set (F := f); remember (List.fold_left F (List.seq 0 nb) init) as LOOP eqn:ELoop end.
  assert (HF : forall k h i, In i (seq 0 nb) -> snd (F (k, h) i) = mix_h h (word data i)).
  { intros k h i Hi. apply in_seq in Hi. unfold F. cbv zeta. cbn [snd].
    rewrite (N.mod_small (N.of_nat i * 4)) by (change (2 ^ 32) with 4294967296 in *; lia).
    rewrite (le_uint32_eq data _ _ _ _ _ (Bytes_nth _ _ Hdata) (Bytes_nth _ _ Hdata) (Bytes_nth _ _ Hdata)
               (Bytes_nth _ _ Hdata) eq_refl eq_refl eq_refl eq_refl).
    replace (N.to_nat (N.of_nat i * 4)) with (4 * i)%nat by lia. fold (word data i).
    unfold mix_h, mix_k, rotl. model_consts.
    rewrite N.add_mod_idemp_l by discriminate. reflexivity. }
  apply (f_equal snd) in ELoop. rewrite (fold_snd F _ _ HF) in ELoop. cbn [snd] in ELoop.
  destruct LOOP as [k1 h1]. cbn [snd] in ELoop.
  rewrite (blocks_fold nb data seed (len - 4 * nb)) by (fold len; lia). rewrite <- ELoop.
  (* the 0..3 bytes after the last block *)
  set (tl := skipn (4 * nb) data).
  assert (Htl : length tl = (len - 4 * nb)%nat) by (unfold tl; rewrite skipn_length; reflexivity).
  assert (Hnth : forall j, nth (4 * nb + j) data 0 = nth j tl 0)
    by (intros j; unfold tl; rewrite nth_skipn; reflexivity).
  assert (Hb : forall j, nth j tl 0 < 256) by (intros j; rewrite <- Hnth; apply Bytes_nth, Hdata).
  rewrite (N.mod_small (N.of_nat nb * 4)) by (change (2 ^ 32) with 4294967296 in *; lia).
  rewrite (N.mod_small (N.of_nat nb * 4 + 1)), (N.mod_small (N.of_nat nb * 4 + 2))
    by (change (2 ^ 32) with 4294967296 in *; lia).
  replace (N.to_nat (N.of_nat nb * 4)) with (4 * nb + 0)%nat by lia.
  replace (N.to_nat (N.of_nat nb * 4 + 1)) with (4 * nb + 1)%nat by lia.
  replace (N.to_nat (N.of_nat nb * 4 + 2)) with (4 * nb + 2)%nat by lia.
  rewrite !Hnth.
  change (N.land (N.of_nat len) 3) with (N.land (N.of_nat len) (N.ones 2)). rewrite N.land_ones.
  replace (N.of_nat len mod 2 ^ 2) with (N.of_nat (length tl)) by (rewrite Htl; change (2 ^ 2) with 4; lia).
  pose proof (Hb 0%nat) as Hb0. pose proof (Hb 1%nat) as Hb1. pose proof (Hb 2%nat) as Hb2.
  assert (H256 : forall x, x < 256 -> x mod 2 ^ 32 = x)
    by (intros x Hx; apply N.mod_small; eapply N.lt_trans; [exact Hx | reflexivity]).
  destruct tl as [|a [|b [|c [|d t]]]]; cbn [length] in Htl; try lia; cbn [length nth] in *;
    repeat match goal with
    | |- context [N.of_nat ?k] => is_nat_cst k; let x := eval vm_compute in (N.of_nat k) in change (N.of_nat k) with x
    end;
    repeat match goal with
    | |- context [?x =? ?y] => is_N_cst x; is_N_cst y; let z := eval vm_compute in (x =? y) in change (x =? y) with z
    end;
    cbv beta iota;
    repeat match goal with Hx : ?x < 256 |- context [?x mod 2 ^ 32] => rewrite (H256 x Hx) end;
    rewrite ?N.lxor_0_l;
    unfold fmix, mix_k, rotl, tail_k; model_consts; reflexivity.
Qed.

Print Assumptions MurmurHash3_tie.

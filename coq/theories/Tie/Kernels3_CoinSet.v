(* Tie between the generated coinset functions (Gen/Kernels3.v, translated from coinset/coins.go over
   ABSTRACT container/list, list.Element and Coin objects) and the model CoinSet/CoinSet.v, for the
   instantiation of the abstract objects by the model's own representation:
     List_t    := list coin               (front first)
     Coin_t    := option coin             (None = the nil Coin)
     Element_t := nat * list coin         ((position, the part of the list that starts at the element);
                                           an empty second component is the nil *Element)
     list.New := [], PushBack / Back / Front / Remove / Len / Next / Value : below
   int64 arithmetic is the two's-complement wrap on both sides (Go.wrapZ 64 = CoinSet.w64).
   (Tie/Kernels2_CoinSet.v uses Element_t := option (nat * coin); that representation cannot implement
   Element.Next, which CoinSet.Coins needs, so the element here carries the rest of the list.)

   Domain of the theorems: pointer receivers are non-nil by the translation's convention (the record itself),
   a *CoinSet inside a Coins interface is [Some (to_gen s)], coins are non-nil ([Some c], lists [map Some coins]);
   amounts, confirmations, MaxInputs, targets range over all of Z (both sides wrap to int64 at the same places),
   list lengths are unbounded (Go's int is Z in the translation).  Fuel, where a function takes it: stated
   with each theorem (one unit per list element).

   This file: the CoinSet bookkeeping, satisfiesTargetValue, the three simple selectors and
   NewMsgTxWithInputCoins.  MinPriorityCoinSelector is in Kernels3_CoinSetMinPrio.v. *)
From BU Require Import Lib.Bytes Gen.Kernels2 Gen.Kernels3 CoinSet.CoinSet CoinSet.CoinSetProofs
  Tie.Kernels2Lib Tie.Kernels3Lib.
From Coq Require Import ZifyBool ZifyN ZifyNat.
Open Scope Z_scope.

Lemma wrapZ64_w64 z : Go.wrapZ 64 z = CoinSet.w64 z.
Proof. reflexivity. Qed.

(* ---- the instantiation ---- *)
Notation L := (list coin) (only parsing).
Notation C := (option coin) (only parsing).
Notation E := (nat * list coin)%type (only parsing).

Definition l_new : L := [].
Definition l_push (l : L) (c : C) : E * L :=
  match c with Some x => ((length l, [x]), l ++ [x]) | None => ((O, []), l) end.
Definition l_back (l : L) : E :=
  match rev l with [] => (O, []) | x :: _ => ((length l - 1)%nat, [x]) end.
Definition l_front (l : L) : E := (O, l).
Definition l_remove (l : L) (e : E) : unit * L :=
  match snd e with [] => (tt, l) | _ :: _ => (tt, firstn (fst e) l ++ skipn (S (fst e)) l) end.
Definition l_len (l : L) : Z := Z.of_nat (length l).
Definition e_isnil (e : E) : bool := match snd e with [] => true | _ :: _ => false end.
Definition e_value (e : E) : res C := match snd e with x :: _ => Ok (Some x) | [] => Panic 5 end.
Definition e_next (e : E) : E := (S (fst e), tl (snd e)).
Definition c_nil : C := None.
Definition c_value (c : C) : Z := match c with Some x => cval x | None => 0 end.
Definition c_valueage (c : C) : Z := match c with Some x => va w64 x | None => 0 end.

(* the generated record over the instantiation, and the model's coin set seen as one *)
Definition GS := Kernels3.coinset_CoinSet L.
Definition to_gen (s : coinset) : GS := Kernels3.mk_coinset_CoinSet L (cs_list s) (cs_tv s) (cs_tva s).
Definition of_gen (g : GS) : coinset :=
  mkSet (Kernels3.coinset_CoinSet_coinList L g) (Kernels3.coinset_CoinSet_totalValue L g)
        (Kernels3.coinset_CoinSet_totalValueAge L g).
Lemma of_to s : of_gen (to_gen s) = s.
Proof. destruct s; reflexivity. Qed.
Lemma to_of g : to_gen (of_gen g) = g.
Proof. destruct g; reflexivity. Qed.

Definition gPushCoin := Kernels3.CoinSet_PushCoin L C E l_push c_value c_valueage.
Definition gRemoveElement := Kernels3.CoinSet_removeElement L C E c_value c_valueage e_value l_remove.
Definition gPopCoin := Kernels3.CoinSet_PopCoin L C E c_value c_valueage e_value l_remove l_back e_isnil c_nil.
Definition gShiftCoin := Kernels3.CoinSet_ShiftCoin L C E c_value c_valueage e_value l_remove e_isnil c_nil l_front.
Definition gCoins := Kernels3.CoinSet_Coins L C E e_value e_isnil c_nil l_front l_len e_next.
Definition gNewCoinSet := Kernels3.NewCoinSet L C E l_push c_value c_valueage l_new.

(* ---------- PushCoin ---------- *)
Theorem PushCoin_tie (s : coinset) (c : coin) :
  gPushCoin (to_gen s) (Some c) = to_gen (push w64 c s).
Proof. reflexivity. Qed.
Print Assumptions PushCoin_tie.

(* ---------- removeElement: the element at position i of the list ---------- *)
Theorem removeElement_tie (s : coinset) (pre suf : list coin) (c : coin) :
  cs_list s = pre ++ c :: suf ->
  gRemoveElement (to_gen s) (length pre, c :: suf) = Ok (Some c, to_gen (removed w64 c (pre ++ suf) s)).
Proof.
  intros Hl. unfold gRemoveElement, Kernels3.CoinSet_removeElement, to_gen, removed.
  cbn [e_value rbind snd fst l_remove Kernels3.coinset_CoinSet_coinList Kernels3.set_coinset_CoinSet_coinList
       Kernels3.coinset_CoinSet_totalValue Kernels3.coinset_CoinSet_totalValueAge
       Kernels3.set_coinset_CoinSet_totalValue Kernels3.set_coinset_CoinSet_totalValueAge
       c_value c_valueage cs_list cs_tv cs_tva].
  rewrite Hl. rewrite firstn_app, Nat.sub_diag, firstn_all. cbn [firstn]. rewrite app_nil_r.
  replace (S (length pre)) with (length pre + 1)%nat by lia.
  rewrite skipn_app, skipn_all2 by lia. replace (length pre + 1 - length pre)%nat with 1%nat by lia.
  cbn [skipn app]. rewrite !wrapZ64_w64. reflexivity.
Qed.
Print Assumptions removeElement_tie.

(* a nil element: e.Value is a nil dereference *)
Theorem removeElement_nil (s : coinset) i : gRemoveElement (to_gen s) (i, []) = Panic 5.
Proof. reflexivity. Qed.
Print Assumptions removeElement_nil.

(* ---------- PopCoin / ShiftCoin ---------- *)
Theorem PopCoin_tie (s : coinset) :
  gPopCoin (to_gen s) = let '(o, s') := pop w64 s in Ok (o, to_gen s').
Proof.
  unfold gPopCoin, Kernels3.CoinSet_PopCoin, pop, l_back.
  change (Kernels3.coinset_CoinSet_coinList L (to_gen s)) with (cs_list s).
  destruct (rev (cs_list s)) as [|c r] eqn:Er; [reflexivity|].
  cbn [e_isnil snd].
  assert (Hl : cs_list s = rev r ++ [c]) by (rewrite <- (rev_involutive (cs_list s)), Er; reflexivity).
  replace (length (cs_list s) - 1)%nat with (length (rev r)) by (rewrite Hl, app_length; cbn [length]; lia).
  pose proof (removeElement_tie s (rev r) [] c Hl) as Hr. unfold gRemoveElement in Hr. rewrite Hr.
  cbn [rbind]. rewrite app_nil_r. reflexivity.
Qed.
Print Assumptions PopCoin_tie.

Theorem ShiftCoin_tie (s : coinset) :
  gShiftCoin (to_gen s) = let '(o, s') := shift w64 s in Ok (o, to_gen s').
Proof.
  unfold gShiftCoin, Kernels3.CoinSet_ShiftCoin, shift, l_front.
  change (Kernels3.coinset_CoinSet_coinList L (to_gen s)) with (cs_list s).
  destruct (cs_list s) as [|c r] eqn:El; [reflexivity|].
  cbn [e_isnil snd].
  pose proof (removeElement_tie s [] r c El) as Hr. unfold gRemoveElement in Hr. cbn [length] in Hr.
  rewrite Hr. reflexivity.
Qed.
Print Assumptions ShiftCoin_tie.

(* ---------- TotalValue / TotalValueAge / Num ---------- *)
Theorem TotalValue_tie (s : coinset) : Kernels3.CoinSet_TotalValue L (to_gen s) = cs_tv s.
Proof. reflexivity. Qed.
Print Assumptions TotalValue_tie.
Theorem TotalValueAge_tie (s : coinset) : Kernels3.CoinSet_TotalValueAge L (to_gen s) = cs_tva s.
Proof. reflexivity. Qed.
Print Assumptions TotalValueAge_tie.
Theorem Num_tie (s : coinset) : Kernels3.CoinSet_Num L l_len (to_gen s) = cs_num s.
Proof. reflexivity. Qed.
Print Assumptions Num_tie.

(* ---------- NewCoinSet ---------- *)
Lemma fold_push_gen (coins : list coin) : forall s,
  fold_left (fun g c => Kernels3.CoinSet_PushCoin L C E l_push c_value c_valueage g c) (map Some coins) (to_gen s)
  = to_gen (fold_left (fun s c => push w64 c s) coins s).
Proof.
  induction coins as [|c t IH]; intros s; cbn [map fold_left]; [reflexivity|].
  change (Kernels3.CoinSet_PushCoin L C E l_push c_value c_valueage (to_gen s) (Some c)) with (to_gen (push w64 c s)).
  apply IH.
Qed.

Theorem NewCoinSet_tie (coins : list coin) :
  gNewCoinSet (map Some coins) = Some (to_gen (new_coinset w64 coins)).
Proof.
  unfold gNewCoinSet, Kernels3.NewCoinSet, new_coinset. f_equal.
  exact (fold_push_gen coins (cs_empty)).
Qed.
Print Assumptions NewCoinSet_tie.

(* ---------- Coins: the list, front first; fuel = one unit per element ---------- *)
Lemma set_at_app_r {A} (a : list A) b i x : Go.set_at (a ++ b) (length a + i) x = a ++ Go.set_at b i x.
Proof. induction a as [|y a IH]; cbn [app length Nat.add Go.set_at]; [reflexivity|now rewrite IH]. Qed.

Lemma Coins_loop (suf : list coin) : forall (fuel : nat) (pre : list coin) (d : list C),
  (length suf <= fuel)%nat -> length d = length suf ->
  Go.whileM fuel (fun '(coins, i, e) => negb (e_isnil e))
    (fun '(coins, i, e) =>
       do t3_ <- e_value e ;;
       do coins <- Go.upd coins i t3_ ;;
       Ok (coins, (i + 1)%Z, e_next e))
    (map Some pre ++ d, Z.of_nat (length pre), (length pre, suf))
  = Ok (map Some (pre ++ suf), Z.of_nat (length (pre ++ suf)), (length (pre ++ suf), [])).
Proof.
  induction suf as [|x suf IH]; intros fuel pre d Hf Hd.
  - destruct d; [|discriminate]. rewrite !app_nil_r. destruct fuel; reflexivity.
  - destruct fuel as [|fuel]; [cbn [length] in Hf; lia|].
    destruct d as [|d0 d]; [discriminate|].
    cbn [Go.whileM e_isnil snd negb e_value rbind].
    replace (Z.of_nat (length pre)) with (Z.of_nat (length (map Some pre))) by now rewrite map_length.
    rewrite upd_mid. cbn [rbind].
    change (e_next (length pre, x :: suf)) with (S (length pre), suf).
    replace (map Some pre ++ Some x :: d) with (map Some (pre ++ [x]) ++ d)
      by (rewrite map_app, <- app_assoc; reflexivity).
    replace (Z.of_nat (length (map Some pre)) + 1) with (Z.of_nat (length (pre ++ [x])))
      by (rewrite map_length, app_length; cbn [length]; lia).
    replace (S (length pre)) with (length (pre ++ [x])) by (rewrite app_length; cbn [length]; lia).
    rewrite (IH fuel (pre ++ [x]) d) by (cbn [length] in *; lia).
    rewrite <- app_assoc. reflexivity.
Qed.

Theorem Coins_tie (fuel : nat) (s : coinset) :
  (length (cs_list s) <= fuel)%nat -> gCoins fuel (to_gen s) = Ok (map Some (cs_list s)).
Proof.
  intros Hf. unfold gCoins, Kernels3.CoinSet_Coins.
  change (Kernels3.coinset_CoinSet_coinList L (to_gen s)) with (cs_list s).
  unfold l_len. rewrite make_nat. cbn [rbind]. unfold l_front.
  pose proof (Coins_loop (cs_list s) fuel [] (repeat c_nil (length (cs_list s))) Hf (repeat_length _ _)) as H.
  cbn [map app length] in H. change (Z.of_nat 0) with 0 in H. rewrite H. reflexivity.
Qed.
Print Assumptions Coins_tie.

(* ---------- satisfiesTargetValue: for all int64 (indeed all Z) inputs ---------- *)
Theorem satisfiesTargetValue_tie t m tot :
  Kernels3.satisfiesTargetValue t m tot = CoinSet.satisfies CoinSet.w64 t m tot.
Proof.
  unfold Kernels3.satisfiesTargetValue, CoinSet.satisfies.
  rewrite wrapZ64_w64, Z.geb_leb. reflexivity.
Qed.
Print Assumptions satisfiesTargetValue_tie.

(* ---------- the selectors: how a model result reads in the translation's conventions ----------
   Ok s    : (Coins(&cs), nil)   with cs = the model's coin set
   Err _   : (nil, ErrCoinsNoSelectionAvailable)
   Panic p : the same panic *)
Definition sel_view (r : res coinset) : res (Kernels3.coinset_Coins L * N) :=
  match r with
  | Ok s => Ok (Kernels3.coinset_Coins_CoinSet L (Some (to_gen s)), 0%N)
  | Err _ => Ok (Kernels3.coinset_Coins_nil L, Kernels3.coinset_ErrCoinsNoSelectionAvailable)
  | Panic p => Panic p
  end.

Definition gMinIndex := Kernels3.MinIndexCoinSelector_CoinSelect L C E l_push c_value c_valueage l_new.

(* ---------- MinIndexCoinSelector.CoinSelect ---------- *)
Lemma idx_map_some (pre : list coin) c suf :
  Go.idx (map Some (pre ++ c :: suf)) (Z.of_nat (length pre)) = Ok (Some c).
Proof.
  rewrite map_app. cbn [map].
  replace (Z.of_nat (length pre)) with (Z.of_nat (length (map (@Some coin) pre))) by now rewrite map_length.
  apply idx_mid.
Qed.

Lemma mi_loop_tie (maxin mc target : Z) (rest : list coin) : forall (pre : list coin) (s : coinset) (fuel : nat) (n : Z),
  (length rest <= fuel)%nat -> n = Z.of_nat (length pre) ->
  let W := Go.whileC (R := Kernels3.coinset_Coins L * N) fuel
    (fun '(cs, n) => andb (n <? Z.of_nat (length (map (@Some coin) (pre ++ rest)))) (n <? maxin))
    (fun '(cs, n) =>
      do t1_ <- Go3.deref cs ;;
      do t2_ <- Go.idx (map (@Some coin) (pre ++ rest)) n ;;
      let t3_ := Kernels3.CoinSet_PushCoin L C E l_push c_value c_valueage t1_ t2_ in
      let cs := (Some t3_) in
      do t4_ <- Go3.deref cs ;;
      if (Kernels3.satisfiesTargetValue target mc (Kernels3.CoinSet_TotalValue L t4_)) then
        Ok (Go.Ret ((Kernels3.coinset_Coins_CoinSet L cs), 0%N))
      else
      let n := (n + 1)%Z in
      Ok (Go.Next (cs, n)))
    (Some (to_gen s), n) in
  match mi_loop w64 maxin mc target n rest s with
  | Ok s' => W = Ok (Go.Ret (Kernels3.coinset_Coins_CoinSet L (Some (to_gen s')), 0%N))
  | Err _ => exists st, W = Ok (Go.Next st)
  | Panic _ => False
  end.
Proof.
  induction rest as [|c t IH]; intros pre s fuel n Hf Hn.
  - cbn [mi_loop]. eexists. rewrite app_nil_r, map_length. subst n.
    destruct fuel; cbn [Go.whileC]; rewrite Z.ltb_irrefl; reflexivity.
  - cbn [mi_loop]. cbv zeta.
    assert (Hlt : (n <? Z.of_nat (length (map (@Some coin) (pre ++ c :: t)))) = true).
    { rewrite map_length, app_length. cbn [length]. lia. }
    destruct (n <? maxin) eqn:Hmax.
    + destruct fuel as [|fuel]; [cbn [length] in Hf; lia|].
      cbn [Go.whileC]. rewrite Hlt, Hmax. cbn [andb Go3.deref rbind].
      subst n. rewrite idx_map_some. cbn [rbind].
      change (Kernels3.CoinSet_PushCoin L C E l_push c_value c_valueage (to_gen s) (Some c)) with (to_gen (push w64 c s)).
      rewrite satisfiesTargetValue_tie.
      change (Kernels3.CoinSet_TotalValue L (to_gen (push w64 c s))) with (cs_tv (push w64 c s)).
      destruct (satisfies w64 target mc (cs_tv (push w64 c s))); [reflexivity|].
      specialize (IH (pre ++ [c]) (push w64 c s) fuel (Z.of_nat (length pre) + 1)).
      rewrite <- app_assoc in IH. cbn [app] in IH.
      apply IH; [cbn [length] in Hf; lia | rewrite app_length; cbn [length]; lia].
    + eexists. destruct fuel; cbn [Go.whileC]; rewrite Hlt, Hmax; reflexivity.
Qed.

(* replace the head of a bind by the right-hand side of H (whose left-hand side is convertible to it) *)
Ltac rw_head H :=
  match type of H with ?l = ?r =>
    match goal with |- rbind ?W ?k = _ => transitivity (rbind r k); [exact (f_equal (fun w => rbind w k) H)|] end
  end.

Theorem MinIndex_tie (fuel : nat) (maxin mc target : Z) (coins : list coin) :
  (length coins <= fuel)%nat ->
  gMinIndex fuel (Kernels3.mk_coinset_MinIndexCoinSelector maxin mc) target (map Some coins)
  = sel_view (min_index w64 maxin mc target coins).
Proof.
  intros Hf. unfold gMinIndex, Kernels3.MinIndexCoinSelector_CoinSelect, min_index.
  rewrite lit_mi_start_eq.
  change (Kernels3.NewCoinSet L C E l_push c_value c_valueage l_new []) with (Some (to_gen cs_empty)).
  cbn [Kernels3.coinset_MinIndexCoinSelector_MaxInputs Kernels3.coinset_MinIndexCoinSelector_MinChangeAmount].
  pose proof (mi_loop_tie maxin mc target coins [] cs_empty fuel 0 Hf eq_refl) as H. cbv zeta in H.
  cbn [app] in H.
  destruct (mi_loop w64 maxin mc target 0 coins cs_empty) as [s'|e|p].
  - rw_head H. reflexivity.
  - destruct H as [[cs n] H]. rw_head H. reflexivity.
  - contradiction.
Qed.
Print Assumptions MinIndex_tie.

(* ---------- MinNumberCoinSelector / MaxValueAgeCoinSelector ----------
   sort.Sort(sort.Reverse(byAmount(x))) / sort.Sort(sort.Reverse(byValueAge(x))) are the model's
   [sort_by (reverse less_amt)] / [sort_by (reverse (less_va w64))] (hypotheses), which keep the length. *)
Lemma sel_view_prop (r : res coinset) :
  (do (t1_, t2_) <- sel_view r ;; Ok (t1_, Go3.prop 1 t2_)) = sel_view r.
Proof. destruct r; reflexivity. Qed.

Lemma sort_spec_length sort_by : sort_spec sort_by -> forall less l, length (sort_by less l) = length l.
Proof. intros H less l. apply Permutation.Permutation_length, H. Qed.

Section SortedSelectors.
Variable sort_by : (coin -> coin -> bool) -> list coin -> list coin.
Variable srt_rev_amt srt_rev_va : list C -> list C.
Hypothesis Hlen : forall less l, length (sort_by less l) = length l.
Hypothesis Hrev_amt : forall l, srt_rev_amt (map Some l) = map Some (sort_by (reverse less_amt) l).
Hypothesis Hrev_va : forall l, srt_rev_va (map Some l) = map Some (sort_by (reverse (less_va w64)) l).

Definition gMinNumber := Kernels3.MinNumberCoinSelector_CoinSelect L C E l_push c_value c_valueage l_new srt_rev_amt.
Definition gMaxValueAge := Kernels3.MaxValueAgeCoinSelector_CoinSelect L C E l_push c_value c_valueage l_new srt_rev_va.

Theorem MinNumber_tie (fuel : nat) (maxin mc target : Z) (coins : list coin) :
  (length coins <= fuel)%nat ->
  gMinNumber fuel (Kernels3.mk_coinset_MinNumberCoinSelector maxin mc) target (map Some coins)
  = sel_view (min_number w64 sort_by maxin mc target coins).
Proof using Hlen Hrev_amt.
  clear Hrev_va srt_rev_va.
  intros Hf. unfold gMinNumber, Kernels3.MinNumberCoinSelector_CoinSelect, min_number.
  cbn [app Kernels3.coinset_MinNumberCoinSelector_MaxInputs Kernels3.coinset_MinNumberCoinSelector_MinChangeAmount].
  rewrite Hrev_amt.
  pose proof (MinIndex_tie fuel maxin mc target (sort_by (reverse less_amt) coins)) as H.
  unfold gMinIndex in H. rewrite H by (rewrite Hlen; exact Hf).
  apply sel_view_prop.
Qed.

Theorem MaxValueAge_tie (fuel : nat) (maxin mc target : Z) (coins : list coin) :
  (length coins <= fuel)%nat ->
  gMaxValueAge fuel (Kernels3.mk_coinset_MaxValueAgeCoinSelector maxin mc) target (map Some coins)
  = sel_view (max_value_age w64 sort_by maxin mc target coins).
Proof using Hlen Hrev_va.
  clear Hrev_amt srt_rev_amt.
  intros Hf. unfold gMaxValueAge, Kernels3.MaxValueAgeCoinSelector_CoinSelect, max_value_age.
  cbn [app Kernels3.coinset_MaxValueAgeCoinSelector_MaxInputs Kernels3.coinset_MaxValueAgeCoinSelector_MinChangeAmount].
  rewrite Hrev_va.
  pose proof (MinIndex_tie fuel maxin mc target (sort_by (reverse (less_va w64)) coins)) as H.
  unfold gMinIndex in H. rewrite H by (rewrite Hlen; exact Hf).
  apply sel_view_prop.
Qed.
End SortedSelectors.
Print Assumptions MinNumber_tie.
Print Assumptions MaxValueAge_tie.

(* ---------- NewMsgTxWithInputCoins ----------
   The model's coin id stands for the outpoint: [hash_of] / [index_of] (arbitrary) read the hash and the index
   off it (Coin.Hash() never returns nil).  wire.NewMsgTx(v) is assumed to return a new transaction with
   Version v, no inputs, no outputs, LockTime 0.  The model's msgtx is read as a wire.MsgTx by [conc_tx]. *)
Section NewMsgTx.
Variable TokenData_t : Type.
Variable hash_of : N -> list N.
Variable index_of : N -> N.
Variable new_msgtx : Z -> option (Kernels3.wire_MsgTx TokenData_t).
Hypothesis Hnew : forall v, new_msgtx v = Some (Kernels3.mk_wire_MsgTx TokenData_t v [] [] 0%N).

Definition c_hash (c : C) : option (list N) := match c with Some x => Some (hash_of (cid x)) | None => None end.
Definition c_index (c : C) : N := match c with Some x => index_of (cid x) | None => 0%N end.

Definition conc_txin (ti : txin) : option Kernels3.wire_TxIn :=
  Some (Kernels3.mk_wire_TxIn (Kernels3.mk_wire_OutPoint (hash_of (ti_outpoint ti)) (index_of (ti_outpoint ti)))
                              (ti_script ti) (Z.to_N (ti_sequence ti))).
Definition conc_tx (m : msgtx) : Kernels3.wire_MsgTx TokenData_t :=
  Kernels3.mk_wire_MsgTx TokenData_t (tx_version m) (map conc_txin (tx_in m)) (repeat None (tx_nout m))
                         (Z.to_N (tx_locktime m)).

Definition gNewMsgTx := Kernels3.NewMsgTxWithInputCoins TokenData_t L C E e_value e_isnil c_nil l_front l_len e_next
                          new_msgtx c_hash c_index.

Definition txin_of (c : coin) : option Kernels3.wire_TxIn :=
  Some (Kernels3.mk_wire_TxIn (Kernels3.mk_wire_OutPoint (hash_of (cid c)) (index_of (cid c))) [] 4294967295%N).

Lemma NewMsgTx_loop (v : Z) (suf : list coin) : forall (done : list (option Kernels3.wire_TxIn)),
  Go.foldM (fun msgTx '(i, coin) =>
      do t3_ <- Go3.deref (c_hash coin) ;;
      do t4_ <- Go3.deref msgTx ;;
      do t5_ <- Go.upd (Kernels3.wire_MsgTx_TxIn TokenData_t t4_) i
                  (Some (Kernels3.mk_wire_TxIn (Kernels3.mk_wire_OutPoint t3_ (c_index coin)) (@nil N) 4294967295%N)) ;;
      do t6_ <- Go3.deref msgTx ;;
      let msgTx := (Some (Kernels3.set_wire_MsgTx_TxIn TokenData_t t6_ t5_)) in
      Ok msgTx)
    (List.combine (Go.zseq (Z.of_nat (length done)) (length (map (@Some coin) suf))) (map (@Some coin) suf))
    (Some (Kernels3.mk_wire_MsgTx TokenData_t v (done ++ repeat None (length suf)) [] 0%N))
  = Ok (Some (Kernels3.mk_wire_MsgTx TokenData_t v (done ++ map txin_of suf) [] 0%N)).
Proof using.
  clear Hnew new_msgtx.
  induction suf as [|c suf IH]; intros done; [reflexivity|].
  cbn [map length Go.zseq List.combine Go.foldM repeat c_hash c_index Go3.deref rbind Kernels3.wire_MsgTx_TxIn].
  rewrite upd_mid. cbn [rbind Kernels3.set_wire_MsgTx_TxIn Kernels3.wire_MsgTx_Version Kernels3.wire_MsgTx_TxOut
                         Kernels3.wire_MsgTx_LockTime].
  specialize (IH (done ++ [txin_of c])). rewrite app_length in IH. cbn [length] in IH.
  replace (Z.of_nat (length done + 1)) with (Z.of_nat (length done) + 1) in IH by lia.
  rewrite <- !app_assoc in IH. cbn [app] in IH. rewrite map_length in IH. rewrite map_length.
  exact IH.
Qed.

Theorem NewMsgTxWithInputCoins_tie (fuel : nat) (version : Z) (s : coinset) :
  (length (cs_list s) <= fuel)%nat ->
  gNewMsgTx fuel version (Kernels3.coinset_Coins_CoinSet L (Some (to_gen s)))
  = Ok (Some (conc_tx (tx_of_coins version s))).
Proof using Hnew.
  intros Hf. unfold gNewMsgTx, Kernels3.NewMsgTxWithInputCoins.
  pose proof (Coins_tie fuel s Hf) as Hc. unfold gCoins in Hc. rw_head Hc. cbn [rbind].
  rewrite Hnew. cbn [Go3.deref rbind Kernels3.set_wire_MsgTx_TxIn Kernels3.wire_MsgTx_Version Kernels3.wire_MsgTx_TxOut
                     Kernels3.wire_MsgTx_LockTime].
  rewrite Nat2Z.id. unfold Go.enum.
  pose proof (NewMsgTx_loop version (cs_list s) []) as Hl. cbn [app length] in Hl. change (Z.of_nat 0) with 0 in Hl.
  rewrite map_length in *. rw_head Hl. cbn [rbind].
  unfold conc_tx, tx_of_coins. cbn [tx_version tx_in tx_nout tx_locktime repeat]. rewrite map_map. reflexivity.
Qed.

(* a nil *CoinSet inside the interface, or a nil interface: inputCoins.Coins() is a nil dereference *)
Theorem NewMsgTxWithInputCoins_nil (fuel : nat) (version : Z) :
  gNewMsgTx fuel version (Kernels3.coinset_Coins_CoinSet L None) = Panic 5
  /\ gNewMsgTx fuel version (Kernels3.coinset_Coins_nil L) = Panic 5.
Proof using. split; reflexivity. Qed.
End NewMsgTx.
Print Assumptions NewMsgTxWithInputCoins_tie.
Print Assumptions NewMsgTxWithInputCoins_nil.

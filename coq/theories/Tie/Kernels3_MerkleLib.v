(* Shared part of the tie between the generated merkle-block functions (Gen/Kernels3.v, translated from
   merkleblock/decode.go, merkleblock/encode.go, bloom/merkleblock.go) and the model Merkle/Merkle.v:
   the instantiation of the dependencies, the three copies of calcTreeWidth, the `height-1` decrement,
   the height loop `for calcTreeWidth(height) > 1 { height++ }`.

   Instantiation (used by all Kernels3_Merkle*.v files):
     blockchain.HashMerkleBranches(l, r) := Some (node_hash a b) for l = Some a, r = Some b (None otherwise)
     Hash.IsEqual (pointer receiver)  := hash_eqb on two non-nil pointers, true on two nil pointers
     hashes stored in the records are non-nil pointers: lists of the form [map Some hs]. *)
From BU Require Import Lib.Bytes Lib.PolyMod Merkle.Merkle Merkle.MerkleArith
  Gen.Kernels2 Gen.Kernels3 Tie.Kernels2Lib Tie.Kernels3Lib.
From Coq Require Import ZifyBool ZifyN ZifyNat.

Local Open Scope N_scope.

(* ---------- res ---------- *)
Definition rmap {A B} (f : A -> B) (r : res A) : res B :=
  match r with Ok a => Ok (f a) | Err e => Err e | Panic k => Panic k end.

Lemma nth_res_map {A B} (f : A -> B) l i : nth_res (map f l) i = rmap f (nth_res l i).
Proof. unfold nth_res. rewrite nth_error_map. destruct (nth_error l i); reflexivity. Qed.

(* ---------- the dependencies ---------- *)
Section Deps.
Variable node_hash : hash -> hash -> hash.

Definition hmb (l r : option (list N)) : option (list N) :=
  match l, r with Some a, Some b => Some (node_hash a b) | _, _ => None end.

Definition is_equal (a b : option (list N)) : bool :=
  match a, b with Some x, Some y => hash_eqb x y | None, None => true | _, _ => false end.
End Deps.

(* ---------- integer conversions ---------- *)
Lemma pow32_val : 2 ^ 32 = 4294967296.
Proof. reflexivity. Qed.

Lemma u32_len {A} (l : list A) :
  N.of_nat (length l) < 2 ^ 32 -> Z.to_N (Z.of_nat (length l) mod 2 ^ 32) = N.of_nat (length l).
Proof. rewrite pow32_val. change (2 ^ 32)%Z with 4294967296%Z. intros H. lia. Qed.

(* uint32(len(l)) in general *)
Lemma u32_len_gen {A} (l : list A) :
  Z.to_N (Z.of_nat (length l) mod 2 ^ 32) = u32 (N.of_nat (length l)).
Proof. unfold u32, two32. change (2 ^ 32)%Z with 4294967296%Z. lia. Qed.

(* height-1 *)
Lemma dec_height (h : nat) :
  N.of_nat (S h) < 2 ^ 32 -> (N.of_nat (S h) + 2 ^ 32 - 1) mod 2 ^ 32 = N.of_nat h.
Proof. rewrite pow32_val. intros H. lia. Qed.

Lemma height_S_nonzero (h : nat) : (N.of_nat (S h) =? 0) = false.
Proof. apply N.eqb_neq. lia. Qed.

(* ---------- calcTreeWidth: the generated text, as a function of numTx ---------- *)
Definition gtw (n height : N) : N :=
  N.shiftr ((((n + ((N.shiftl 1 height) mod 2^32)) mod 2^32) + 2^32 - 1) mod 2^32) height.

Lemma gtw_tw n h : gtw n h = tw n h.
Proof. reflexivity. Qed.

(* the wraps of `pos*2` and `pos*2+1` are the model's *)
Lemma wmul2_gen pos : (pos * 2) mod 2 ^ 32 = wmul pos 2.
Proof. reflexivity. Qed.
Lemma wmul2add1_gen pos : (((pos * 2) mod 2 ^ 32) + 1) mod 2 ^ 32 = wadd (wmul pos 2) 1.
Proof. reflexivity. Qed.

(* ---------- the height loop ---------- *)
Definition gheight_loop (fuel : nat) (n : N) (h0 : N) : res N :=
  Go.whileM fuel (fun height => 1 <? gtw n height) (fun height => Ok ((height + 1) mod 2 ^ 32)) h0.

Lemma gheight_loop_model n : forall fuel h0,
  gheight_loop fuel n h0 = height_loop (tw n) 1 (S fuel) h0.
Proof.
  unfold gheight_loop. induction fuel as [|f IH]; intros h0.
  - cbn [Go.whileM height_loop]. rewrite gtw_tw. destruct (1 <? tw n h0); reflexivity.
  - cbn [Go.whileM]. rewrite IH. rewrite gtw_tw.
    change (height_loop (tw n) 1 (S (S f)) h0)
      with (if 1 <? tw n h0 then height_loop (tw n) 1 (S f) (wadd h0 1) else Ok h0).
    reflexivity.
Qed.

Lemma height_loop_mono twf gt : forall f f' h r,
  height_loop twf gt f h = Ok r -> (f <= f')%nat -> height_loop twf gt f' h = Ok r.
Proof.
  induction f as [|f IH]; intros f' h r H Hle; [discriminate|].
  destruct f' as [|f']; [lia|]. cbn [height_loop] in *.
  destruct (gt <? twf h); [|exact H]. apply IH with (f' := f') in H; [exact H|lia].
Qed.

(* with 33 units of fuel the generated loop is the model's loop (which has 34), and it ends below 33 *)
Lemma gheight_loop_ok n fuel : (33 <= fuel)%nat ->
  exists H, gheight_loop fuel n 0 = Ok H /\ height_loop (tw n) 1 height_fuel 0 = Ok H /\ H <= 32.
Proof.
  intros Hf. destruct (height_loop_terminates n height_fuel 0) as (r & Hr & Hle); [unfold height_fuel; lia|lia|].
  exists r. rewrite gheight_loop_model. repeat split; auto.
  apply height_loop_mono with (f := height_fuel); [exact Hr|unfold height_fuel; lia].
Qed.

(* ---------- lists ---------- *)
Lemma nth_res_nth {A} (l : list A) i d : (i < length l)%nat -> nth_res l i = Ok (nth i l d).
Proof. intros H. unfold nth_res. rewrite (nth_error_nth' l d H). reflexivity. Qed.

Lemma gnseq_shift a : forall k b, Go.nseq (a + b) k = map (N.add a) (Go.nseq b k).
Proof.
  induction k as [|k IH]; intros b; cbn [Go.nseq map]; [reflexivity|].
  f_equal. rewrite <- IH. f_equal. lia.
Qed.

Lemma gnseq_8 : Go.nseq 0 8 = [0; 1; 2; 3; 4; 5; 6; 7].
Proof. reflexivity. Qed.

(* Tie between the monadic-mode transliteration (Gen/Kernels2.v, regenerated from the Go AST on
   every run) of bech32/bech32.go `ConvertBits` and the hand-written model Bech32.convert_bits.

   The generated function is never restated here: its two loop bodies are picked out of the goal
   by pattern (`Go.foldM ?F`, `Go.whileM _ ?c ?b`) and only their input/output behaviour on the
   invariant is used (cond_spec / body_spec / outer_spec below), so the names of the generated
   temporaries do not matter. *)
From BU Require Import Lib.Bytes Gen.Kernels2 Bech32.Bech32 Tie.TieTactics Tie.Kernels2Lib.
From Coq Require Import ZifyBool ZifyN ZifyNat.

(* ---------- uint8 arithmetic ---------- *)

Lemma lor_mod_256 x y : y < 256 -> N.lor (x mod 256) y = (N.lor x y) mod 256.
Proof.
  intros Hy. change 256 with (2 ^ 8). rewrite <- !N.land_ones, N.land_lor_distr_l.
  f_equal. rewrite N.land_ones. symmetry. apply N.mod_small. exact Hy.
Qed.

Lemma shiftr_lt_256 b k : b < 256 -> N.shiftr b k < 256.
Proof.
  intros Hb. rewrite N.shiftr_div_pow2.
  assert (Hk : 2 ^ k <> 0) by (apply N.pow_nonzero; discriminate).
  apply N.div_lt_upper_bound; [exact Hk|]. nia.
Qed.

Lemma whileM_unfold {S} fuel (cond : S -> bool) body s :
  Go.whileM fuel cond body s =
  if cond s then
    match fuel with
    | O => Panic 9
    | Datatypes.S f =>
        match body s with Ok s' => Go.whileM f cond body s' | Err e => Err e | Panic k => Panic k end
    end
  else Ok s.
Proof. destruct fuel; reflexivity. Qed.

(* ---------- the inner loop `for remFromBits > 0` ---------- *)

(* state of the generated inner loop, in the order the translator packs it *)
Local Notation st := (N * N * N * N * list N)%type.

(* one iteration, written with the expressions of the model (no uint8 wrap except u8) *)
Definition step (toBits : N) (s : st) : st :=
  let '(next, b, remFrom, filled, reg) := s in
  let remTo := toBits - filled in
  let toExtract := if remTo <? remFrom then remTo else remFrom in
  let next := u8 (N.lor (N.shiftl next toExtract) (N.shiftr b (8 - toExtract))) in
  let b := u8 (N.shiftl b toExtract) in
  let remFrom := remFrom - toExtract in
  let filled := filled + toExtract in
  if filled =? toBits then (0, b, remFrom, 0, reg ++ [next]) else (next, b, remFrom, filled, reg).

Definition cond_spec (cond : st -> bool) : Prop :=
  forall next b remFrom filled reg, cond (next, b, remFrom, filled, reg) = (0 <? remFrom).

(* what is used of the generated body: on the invariant (filled < toBits <= 8, remFrom <= 8,
   b a byte) no uint8 operation wraps except the two the model writes as u8 *)
Definition body_spec (toBits : N) (body : st -> res st) : Prop :=
  forall next b remFrom filled reg,
    filled < toBits -> remFrom <= 8 -> b < 256 ->
    body (next, b, remFrom, filled, reg) = Ok (step toBits (next, b, remFrom, filled, reg)).

(* One run of the generated inner loop against the model's fuelled recursion: neither runs out of
   fuel when its fuel is at least remFrom (every iteration extracts at least one bit), the
   output list of the model is the reverse of the code's, filled < toBits is preserved. *)
Lemma inner_tie toBits cond body :
  toBits <= 8 -> cond_spec cond -> body_spec toBits body ->
  forall fm fc b remFrom next filled out n' f' o',
    filled < toBits -> remFrom <= 8 -> b < 256 ->
    (N.to_nat remFrom <= fm)%nat -> (N.to_nat remFrom <= fc)%nat ->
    inner fm toBits b remFrom next filled out = (n', f', o') ->
    f' < toBits /\
    exists b' r', Go.whileM fc cond body (next, b, remFrom, filled, rev out) = Ok (n', b', r', f', rev o').
Proof.
  intros Hto Hcond Hbody.
  assert (Hstop : forall fc b next filled out,
            Go.whileM fc cond body (next, b, 0, filled, rev out) = Ok (next, b, 0, filled, rev out)).
  { intros. rewrite whileM_unfold, Hcond. reflexivity. }
  induction fm as [|fm IH]; intros fc b remFrom next filled out n' f' o' Hf Hr Hb Hfm Hfc Hin.
  - assert (remFrom = 0) by lia. subst remFrom. cbn [inner] in Hin.
    injection Hin as <- <- <-. split; [exact Hf|]. eauto.
  - cbn [inner] in Hin. destruct (N.eqb_spec remFrom 0) as [->|Hnz].
    + injection Hin as <- <- <-. split; [exact Hf|]. eauto.
    + destruct fc as [|fc]; [lia|].
      rewrite whileM_unfold, Hcond.
      replace (0 <? remFrom) with true by lia.
      rewrite Hbody by assumption. unfold step.
      set (te := if toBits - filled <? remFrom then toBits - filled else remFrom) in *.
      assert (Hte : 1 <= te /\ te <= remFrom /\ te <= toBits - filled)
        by (unfold te; destruct (N.ltb_spec (toBits - filled) remFrom); lia).
      set (nx := u8 (N.lor (N.shiftl next te) (N.shiftr b (8 - te)))) in *.
      assert (Hb' : u8 (N.shiftl b te) < 256) by (unfold u8; apply N.mod_lt; discriminate).
      destruct (N.eqb_spec (filled + te) toBits) as [Hfull|Hpart].
      * change (rev out ++ [nx]) with (rev (nx :: out)).
        eapply IH; try eassumption; lia.
      * eapply IH; try eassumption; lia.
Qed.

(* ---------- the outer loop `for _, b := range data` ---------- *)

Definition proj (s : st) : N * N * list N :=
  let '(next, _, _, filled, reg) := s in (next, filled, reg).

(* what is used of the generated outer body: shift the byte, run the inner loop, keep
   (nextByte, filledBits, regrouped) *)
Definition outer_spec (fuel : nat) (fromBits : N) (cond : st -> bool) (body : st -> res st)
    (F : N * N * list N -> N -> res (N * N * list N)) : Prop :=
  forall next filled reg b,
    F (next, filled, reg) b =
    match Go.whileM fuel cond body (next, u8 (N.shiftl b (8 - fromBits)), fromBits, filled, reg) with
    | Ok s => Ok (proj s) | Err e => Err e | Panic k => Panic k
    end.

Lemma convert_loop_cons fromBits toBits b t next filled out :
  convert_loop fromBits toBits (b :: t) next filled out =
  let '(next, filled, out) := inner 8 toBits (u8 (N.shiftl b (8 - fromBits))) fromBits next filled out in
  convert_loop fromBits toBits t next filled out.
Proof. reflexivity. Qed.

Lemma outer_tie fuel fromBits toBits cond body F :
  fromBits <= 8 -> toBits <= 8 -> (N.to_nat fromBits <= fuel)%nat ->
  cond_spec cond -> body_spec toBits body -> outer_spec fuel fromBits cond body F ->
  forall data next filled out n' f' o',
    filled < toBits ->
    convert_loop fromBits toBits data next filled out = (n', f', o') ->
    f' < toBits /\ Go.foldM F data (next, filled, rev out) = Ok (n', f', rev o').
Proof.
  intros Hfrom Hto Hfuel Hcond Hbody HF.
  induction data as [|x data IH]; intros next filled out n' f' o' Hf Hcl.
  - cbn [convert_loop] in Hcl. injection Hcl as <- <- <-. split; [exact Hf | reflexivity].
  - rewrite convert_loop_cons in Hcl. cbn [Go.foldM]. rewrite HF.
    assert (H8 : (N.to_nat fromBits <= 8)%nat) by lia.
    revert Hcl H8. generalize 8%nat as fm. intros fm Hcl H8.
    destruct (inner fm toBits (u8 (N.shiftl x (8 - fromBits))) fromBits next filled out)
      as [[n1 f1] o1] eqn:Hin.
    assert (Hx : u8 (N.shiftl x (8 - fromBits)) < 256) by (unfold u8; apply N.mod_lt; discriminate).
    destruct (inner_tie toBits cond body Hto Hcond Hbody fm fuel _ _ _ _ _ _ _ _
                Hf Hfrom Hx H8 Hfuel Hin) as [Hf1 [b' [r' Hw]]].
    rewrite Hw. cbn [proj]. apply IH; assumption.
Qed.

(* ---------- ConvertBits ---------- *)

(* The hypothesis on fuel is the only one needed:
   - no `Bytes data`: the first thing both sides do to a data byte is `<< (8 - fromBits)` in uint8,
     i.e. reduce it mod 256 (a Go []byte can of course only hold bytes);
   - no `fromBits < 256`, `toBits < 256`: the range test 1..8 is the same on both sides and
     everything outside is rejected before any arithmetic;
   - fuel: the inner loop moves at least one of the remFromBits <= fromBits bits per iteration,
     and exactly one when toBits = 1, so fromBits iterations can be needed (and fuel is irrelevant
     when the range test fails, hence the premise fromBits <= 8). *)
Theorem ConvertBits_tie_gen fuel data fromBits toBits pad :
  (fromBits <= 8 -> (N.to_nat fromBits <= fuel)%nat) ->
  Kernels2.ConvertBits fuel data fromBits toBits pad =
  match Bech32.convert_bits data fromBits toBits pad with
  | Err 8 => Err 1
  | Err _ => Err 2
  | r => r
  end.
Proof.
  intros Hfuel. unfold Kernels2.ConvertBits, Bech32.convert_bits.
  destruct (orb (orb (orb (fromBits <? 1) (8 <? fromBits)) (toBits <? 1)) (8 <? toBits)) eqn:Hrange;
    [reflexivity|].
  assert (Hr : 1 <= fromBits <= 8 /\ 1 <= toBits <= 8) by lia. clear Hrange.
  destruct Hr as [[Hf1 Hf8] [Ht1 Ht8]]. specialize (Hfuel Hf8).
  change (2 ^ 8) with 256.
  match goal with |- context [Go.whileM fuel ?c ?b] => set (cond := c); set (body := b) end.
  match goal with |- context [Go.foldM ?f data _] => set (F := f) end.
  assert (Hcond : cond_spec cond) by (intros next b remFrom filled reg; reflexivity).
  assert (Hbody : body_spec toBits body).
  { intros next b remFrom filled reg Hfl Hrem Hb. unfold body, step. cbv beta iota.
    replace ((toBits + 256 - filled) mod 256) with (toBits - filled) by lia.
    set (te := if toBits - filled <? remFrom then toBits - filled else remFrom).
    assert (Hte : te <= remFrom /\ te <= toBits - filled)
      by (unfold te; destruct (N.ltb_spec (toBits - filled) remFrom); lia).
    replace ((8 + 256 - te) mod 256) with (8 - te) by lia.
    replace ((remFrom + 256 - te) mod 256) with (remFrom - te) by lia.
    replace ((filled + te) mod 256) with (filled + te) by lia.
    rewrite lor_mod_256 by (apply shiftr_lt_256; exact Hb).
    unfold u8. destruct (filled + te =? toBits); reflexivity. }
  assert (HF : outer_spec fuel fromBits cond body F).
  { intros next filled reg b. unfold F. cbv beta iota.
    replace ((8 + 256 - fromBits) mod 256) with (8 - fromBits) by lia.
    unfold rbind, u8.
    destruct (Go.whileM fuel cond body _) as [[[[[? ?] ?] ?] ?]| |]; reflexivity. }
  destruct (convert_loop fromBits toBits data 0 0 []) as [[n1 f1] o1] eqn:Hcl.
  destruct (outer_tie fuel fromBits toBits cond body F Hf8 Ht8 Hfuel Hcond Hbody HF
              data 0 0 [] n1 f1 o1 ltac:(lia) Hcl) as [Hlt Hfold].
  cbn [rev] in Hfold. rewrite Hfold. cbn [rbind].
  replace ((toBits + 256 - f1) mod 256) with (toBits - f1) by lia.
  unfold u8.
  destruct (pad && (0 <? f1))%bool.
  - reflexivity.
  - destruct ((0 <? f1) && ((4 <? f1) || negb (n1 =? 0)))%bool; reflexivity.
Qed.

(* the statement with a fuel that does not depend on the arguments: 8 iterations always suffice *)
Theorem ConvertBits_tie fuel data fromBits toBits pad :
  (8 <= fuel)%nat ->
  Kernels2.ConvertBits fuel data fromBits toBits pad =
  match Bech32.convert_bits data fromBits toBits pad with
  | Err 8 => Err 1
  | Err _ => Err 2
  | r => r
  end.
Proof. intros Hfuel. apply ConvertBits_tie_gen. lia. Qed.

(* the Ok / Err reading *)
Corollary ConvertBits_ok fuel data fromBits toBits pad l :
  (8 <= fuel)%nat ->
  Bech32.convert_bits data fromBits toBits pad = Ok l ->
  Kernels2.ConvertBits fuel data fromBits toBits pad = Ok l.
Proof. intros Hfuel H. rewrite ConvertBits_tie by exact Hfuel. rewrite H. reflexivity. Qed.

Corollary ConvertBits_ok_iff fuel data fromBits toBits pad l :
  (8 <= fuel)%nat ->
  Kernels2.ConvertBits fuel data fromBits toBits pad = Ok l <->
  Bech32.convert_bits data fromBits toBits pad = Ok l.
Proof.
  intros Hfuel. rewrite ConvertBits_tie by exact Hfuel.
  destruct (Bech32.convert_bits data fromBits toBits pad) as [r|e|k]; [tauto| |].
  - destruct e as [|p]; [split; discriminate|].
    do 4 (try destruct p as [p|p|]); split; discriminate.
  - split; discriminate.
Qed.

(* the model never panics and has only the two error classes, so neither does the code *)
Corollary ConvertBits_err fuel data fromBits toBits pad e :
  (8 <= fuel)%nat ->
  Bech32.convert_bits data fromBits toBits pad = Err e ->
  Kernels2.ConvertBits fuel data fromBits toBits pad = Err (if e =? 8 then 1 else 2).
Proof.
  intros Hfuel H. rewrite ConvertBits_tie by exact Hfuel. rewrite H.
  destruct e as [|p]; [reflexivity|].
  do 4 (try destruct p as [p|p|]); reflexivity.
Qed.

Lemma ConvertBits_no_panic fuel data fromBits toBits pad :
  (8 <= fuel)%nat -> is_panic (Kernels2.ConvertBits fuel data fromBits toBits pad) = false.
Proof.
  intros Hfuel. rewrite ConvertBits_tie by exact Hfuel.
  unfold Bech32.convert_bits.
  destruct ((fromBits <? 1) || (8 <? fromBits) || (toBits <? 1) || (8 <? toBits))%bool; [reflexivity|].
  destruct (convert_loop fromBits toBits data 0 0 []) as [[n f] o].
  destruct (pad && (0 <? f))%bool; [reflexivity|].
  destruct ((0 <? f) && ((4 <? f) || negb (n =? 0)))%bool; reflexivity.
Qed.

(* the fuel hypothesis cannot be dropped: with toBits = 1 the inner loop runs fromBits times *)
Example ConvertBits_fuel_needed :
  Kernels2.ConvertBits 7 [255] 8 1 false = Panic 9 /\
  Kernels2.ConvertBits 8 [255] 8 1 false = Ok [1; 1; 1; 1; 1; 1; 1; 1].
Proof. split; vm_compute; reflexivity. Qed.

Print Assumptions ConvertBits_tie.
Print Assumptions ConvertBits_ok.

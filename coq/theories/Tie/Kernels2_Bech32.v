(* Tie between the monadic-mode transliterations (Gen/Kernels2.v, regenerated from the Go ASTs on every
   run) of bech32/bech32.go and the hand-written model Bech32/Bech32.v.
   Closed sub-terms (literals, tables, index lists of counted loops) are evaluated, not restated. *)
From BU Require Import Lib.Bytes Lib.PolyMod Gen.Xbech32 Gen.Kernels Gen.Kernels2 Bech32.Bech32
  Tie.TieTactics Tie.KernelsTie Tie.Kernels2Lib.
From Coq Require Import ZifyBool ZifyN ZifyNat.

(* ---------- bit operations of Z on images of N ---------- *)
Lemma of_N_land a b : Z.land (Z.of_N a) (Z.of_N b) = Z.of_N (N.land a b).
Proof.
  apply Z.bits_inj'. intros n Hn.
  rewrite Z.land_spec, !Z.testbit_of_N' by exact Hn. now rewrite N.land_spec.
Qed.

Lemma of_N_lxor a b : Z.lxor (Z.of_N a) (Z.of_N b) = Z.of_N (N.lxor a b).
Proof.
  apply Z.bits_inj'. intros n Hn.
  rewrite Z.lxor_spec, !Z.testbit_of_N' by exact Hn. now rewrite N.lxor_spec.
Qed.

Lemma of_N_shiftr a k : Z.shiftr (Z.of_N a) (Z.of_N k) = Z.of_N (N.shiftr a k).
Proof.
  rewrite Z.shiftr_div_pow2 by apply N2Z.is_nonneg.
  now rewrite N.shiftr_div_pow2, N2Z.inj_div, N2Z.inj_pow.
Qed.

Lemma of_N_shiftl a k : Z.shiftl (Z.of_N a) (Z.of_N k) = Z.of_N (N.shiftl a k).
Proof.
  rewrite Z.shiftl_mul_pow2 by apply N2Z.is_nonneg.
  now rewrite N.shiftl_mul_pow2, N2Z.inj_mul, N2Z.inj_pow.
Qed.

Lemma of_N_eqb a b : (Z.of_N a =? Z.of_N b)%Z = (a =? b).
Proof. destruct (Z.eqb_spec (Z.of_N a) (Z.of_N b)), (N.eqb_spec a b); try reflexivity; lia. Qed.

(* write the closed positive Z constants of the goal as images of N constants *)
Ltac lift_pos :=
  repeat match goal with
  | |- context [Zpos ?p] => is_pos_cst p; change (Zpos p) with (Z.of_N (Npos p))
  end.
Ltac push_of_N :=
  repeat first [rewrite of_N_land | rewrite of_N_lxor | rewrite of_N_shiftr | rewrite of_N_shiftl
               | rewrite of_N_eqb].

(* a loop on Z states that is, step by step, the image of a loop on N states *)
Lemma foldM_of_N (f : Z -> Z -> res Z) (g : N -> N -> N) :
  (forall c d, f (Z.of_N c) (Z.of_N d) = Ok (Z.of_N (g c d))) ->
  forall ds c, Go.foldM f (map Z.of_N ds) (Z.of_N c) = Ok (Z.of_N (fold_left g ds c)).
Proof.
  intros H ds. induction ds as [|d ds IH]; intros c; cbn [map Go.foldM fold_left]; [reflexivity|].
  rewrite H. apply IH.
Qed.

Lemma if_Ok {A} (b : bool) (x y : A) : (if b then Ok x else Ok y) = Ok (if b then x else y).
Proof. now destruct b. Qed.
Lemma if_of_N (b : bool) x y : (if b then Z.of_N x else Z.of_N y) = Z.of_N (if b then x else y).
Proof. now destruct b. Qed.

Ltac is_Z_cst z := lazymatch z with Z0 => idtac | Zpos ?p => is_pos_cst p | Zneg ?p => is_pos_cst p end.

(* closed sub-terms left by unrolling a counted loop *)
Ltac eval_closed2 :=
  repeat match goal with
  | |- context [Z.to_N (?k mod 2 ^ 64)] =>
      let x := eval vm_compute in (Z.to_N (k mod 2 ^ 64)) in is_N_cst x; change (Z.to_N (k mod 2 ^ 64)) with x
  | |- context [Go.idx ?t ?k] => is_Z_cst k; eval_term (Go.idx t k)
  end.

(* ---------- bech32Polymod ---------- *)
Lemma bech32Polymod_of_N ds :
  Kernels2.bech32Polymod (map Z.of_N ds) = Ok (Z.of_N (Kernels.bech32Polymod ds)).
Proof.
  unfold Kernels2.bech32Polymod, Kernels.bech32Polymod.
  match goal with |- rbind (Go.foldM ?F _ _) _ = Ok (Z.of_N (fold_left ?G _ ?n0)) =>
    refine (eq_trans (f_equal (fun r => rbind r _) (foldM_of_N F G _ ds n0)) eq_refl)
  end.
  intros c d. cbv zeta.
  match goal with |- context [Go.zseq ?a ?n] => eval_term (Go.zseq a n) end.
  cbn [Go.foldM]. cbv [List.seq List.fold_left]. eval_closed. eval_closed2. cbn [rbind].
  lift_pos.
  repeat (push_of_N; rewrite ?if_of_N, ?if_Ok; cbn [rbind]).
  reflexivity.
Qed.

Theorem bech32Polymod_tie2 values :
  Forall (fun x => 0 <= x < 2 ^ 30)%Z values ->
  Kernels2.bech32Polymod values = Ok (Z.of_N (Bech32.polymod (map Z.to_N values))).
Proof.
  intros Hv.
  assert (E : values = map Z.of_N (map Z.to_N values)).
  { rewrite map_map. rewrite <- (map_id values) at 1. apply map_ext_in. intros x Hx.
    rewrite Forall_forall in Hv. specialize (Hv x Hx). now rewrite Z2N.id. }
  rewrite E at 1. rewrite bech32Polymod_of_N, bech32Polymod_tie; [reflexivity|].
  apply Forall_forall. intros x Hx. apply in_map_iff in Hx as [z [<- Hz]].
  rewrite Forall_forall in Hv. specialize (Hv z Hz). change (2 ^ 30)%Z with (Z.of_N (2 ^ 30)) in Hv. lia.
Qed.
Print Assumptions bech32Polymod_tie2.

(* ---------- loops `for i := 0; i < len(l); i++` that read only l[i] ---------- *)
(* F is the generated body (in terms of the index), G the same body in terms of the element *)
Lemma foldM_idx_gen {S A} (l : list A) (F : S -> Z -> res S) (G : S -> A -> res S) :
  (forall s i x, Go.idx l i = Ok x -> F s i = G s x) ->
  forall suf pre s, l = pre ++ suf ->
  Go.foldM F (Go.zseq (Z.of_nat (length pre)) (length suf)) s = Go.foldM G suf s.
Proof.
  intros H suf. induction suf as [|x suf IH]; intros pre s E; [reflexivity|].
  cbn [length Go.zseq Go.foldM]. rewrite (H s _ x) by (rewrite E; apply idx_mid).
  destruct (G s x) as [s'| |]; try reflexivity.
  specialize (IH (pre ++ [x]) s'). rewrite app_length, Nat2Z.inj_add in IH. cbn [length] in IH.
  apply IH. now rewrite <- app_assoc.
Qed.

Lemma foldM_idx {S A} (l : list A) (F : S -> Z -> res S) (G : S -> A -> res S) s :
  (forall s i x, Go.idx l i = Ok x -> F s i = G s x) ->
  Go.foldM F (Go.zseq 0%Z (Z.to_nat (Z.of_nat (length l)))) s = Go.foldM G l s.
Proof. intros H. rewrite Nat2Z.id. exact (foldM_idx_gen l F G H l [] s eq_refl). Qed.

(* a loop that appends one element per step and cannot fail *)
Lemma foldM_append_map {A B} (h : A -> B) l acc :
  Go.foldM (fun acc x => Ok (acc ++ [h x])) l acc = Ok (acc ++ map h l).
Proof.
  revert acc; induction l as [|x l IH]; intros acc; cbn [Go.foldM map]; [now rewrite app_nil_r|].
  rewrite IH, <- app_assoc. reflexivity.
Qed.

(* ---------- bech32HrpExpand ---------- *)
Theorem bech32HrpExpand_tie hrp :
  Kernels2.bech32HrpExpand hrp = Ok (map Z.of_N (Bech32.hrp_expand hrp)).
Proof.
  unfold Kernels2.bech32HrpExpand, Bech32.hrp_expand.
  eval_term (lit lits_bech32HrpExpand 4). eval_term (lit lits_bech32HrpExpand 7).
  rewrite !map_app, !map_map.
  erewrite foldM_idx; [|intros s i x Hi; rewrite Hi; cbn [rbind]; reflexivity].
  rewrite foldM_append_map. cbn [rbind app].
  erewrite foldM_idx; [|intros s i x Hi; rewrite Hi; cbn [rbind]; reflexivity].
  rewrite foldM_append_map. cbn [rbind]. rewrite <- app_assoc. reflexivity.
Qed.
Print Assumptions bech32HrpExpand_tie.

(* ---------- `for i, b := range data { integers[i] = h(b) }` ---------- *)
Lemma range_upd_loop {A B} (h : A -> B) (z : B) suf : forall done a,
  a = Z.of_nat (length done) ->
  Go.foldM (fun ints '(i, b) => do ints <- Go.upd ints i (h b) ;; Ok ints)
    (combine (Go.zseq a (length suf)) suf) (done ++ repeat z (length suf))
  = Ok (done ++ map h suf).
Proof.
  induction suf as [|x suf IH]; intros done a ->; [reflexivity|].
  cbn [length Go.zseq combine Go.foldM repeat map]. rewrite upd_mid. cbn [rbind].
  specialize (IH (done ++ [h x]) (Z.of_nat (length done) + 1)%Z).
  rewrite <- !app_assoc in IH. cbn [app] in IH. apply IH.
  rewrite app_length. cbn [length]. lia.
Qed.

Lemma range_upd {A B} (h : A -> B) (z : B) l :
  Go.foldM (fun ints '(i, b) => do ints <- Go.upd ints i (h b) ;; Ok ints)
    (Go.enum l) (repeat z (Z.to_nat (Z.of_nat (length l))))
  = Ok (map h l).
Proof. rewrite Nat2Z.id. exact (range_upd_loop h z l [] 0%Z eq_refl). Qed.

(* ---------- bech32Checksum ---------- *)
Lemma hrp_expand_small hrp : Bytes hrp -> Forall (fun x => x < 32) (Bech32.hrp_expand hrp).
Proof.
  intros Hh. unfold Bech32.hrp_expand.
  eval_term (lit lits_bech32HrpExpand 4). eval_term (lit lits_bech32HrpExpand 7).
  rewrite !Forall_app. repeat split.
  - apply Forall_forall. intros x Hx. apply in_map_iff in Hx as [c [<- Hc]].
    unfold Bytes in Hh. rewrite Forall_forall in Hh. specialize (Hh c Hc).
    apply (shiftr_small c 5 5). eapply N.lt_le_trans; [exact Hh | discriminate].
  - repeat constructor.
  - apply Forall_forall. intros x Hx. apply in_map_iff in Hx as [c [<- Hc]].
    rewrite N.land_comm. apply (land_lt_pow2 31 c 5). reflexivity.
Qed.

Lemma land31_mod x : N.land x 31 mod 256 = N.land x 31.
Proof.
  apply N.mod_small. apply (N.lt_trans _ 32); [|reflexivity].
  rewrite N.land_comm. apply (land_lt_pow2 31 x 5). reflexivity.
Qed.

Lemma Forall_lt_weaken (l : list N) a b : a <= b -> Forall (fun x => x < a) l -> Forall (fun x => x < b) l.
Proof. intros Hab H. eapply Forall_impl; [|exact H]. cbv beta. intros; lia. Qed.

(* the polymod calls of bech32Checksum / bech32VerifyChecksum *)
Lemma polymod_values hrp data tail :
  Bytes hrp -> Bytes data -> Bytes tail ->
  Kernels2.bech32Polymod ((map Z.of_N (Bech32.hrp_expand hrp) ++ map Z.of_N data) ++ map Z.of_N tail)
  = Ok (Z.of_N (Bech32.polymod (Bech32.hrp_expand hrp ++ data ++ tail))).
Proof.
  intros Hh Hd Ht. rewrite <- !map_app, <- app_assoc, bech32Polymod_of_N, bech32Polymod_tie; [reflexivity|].
  rewrite !Forall_app. repeat split.
  - apply (Forall_lt_weaken _ 32); [discriminate | now apply hrp_expand_small].
  - apply (Forall_lt_weaken _ 256); [discriminate | exact Hd].
  - apply (Forall_lt_weaken _ 256); [discriminate | exact Ht].
Qed.

Theorem bech32Checksum_tie hrp data : Bytes hrp -> Bytes data ->
  Kernels2.bech32Checksum hrp data = Ok (Bech32.create_checksum hrp data).
Proof.
  intros Hh Hd. unfold Kernels2.bech32Checksum, Bech32.create_checksum.
  rewrite (range_upd Z.of_N). cbn [rbind]. rewrite bech32HrpExpand_tie. cbn [rbind].
  match goal with |- context [Kernels2.bech32Polymod (_ ++ ?t)] =>
    let t' := eval vm_compute in (map Z.to_N t) in change t with (map Z.of_N t')
  end.
  rewrite polymod_values; [|assumption..|repeat constructor]. cbn [rbind repeat].
  match goal with |- context [polymod ?v] => generalize (polymod v) end. intros p.
  eval_term (lit lits_bech32Checksum 6).
  match goal with |- context [Go.zseq ?a ?n] => eval_term (Go.zseq a n) end.
  cbn [fold_left app unpack]. eval_closed2. eval_term (2 ^ 8)%Z.
  lift_pos. push_of_N. rewrite <- !N2Z.inj_mod, !N2Z.id, !land31_mod. reflexivity.
Qed.
Print Assumptions bech32Checksum_tie.

(* ---------- bech32VerifyChecksum ---------- *)
Theorem bech32VerifyChecksum_tie hrp data : Bytes hrp -> Bytes data ->
  Kernels2.bech32VerifyChecksum hrp data = Ok (Bech32.verify_checksum hrp data).
Proof.
  intros Hh Hd. unfold Kernels2.bech32VerifyChecksum, Bech32.verify_checksum.
  rewrite (range_upd Z.of_N). cbn [rbind]. rewrite bech32HrpExpand_tie. cbn [rbind].
  pose proof (polymod_values hrp data [] Hh Hd (Forall_nil _)) as H.
  cbn [map] in H. rewrite !app_nil_r in H. rewrite H. cbn [rbind].
  eval_term (lit lits_bech32VerifyChecksum 0). lift_pos. now rewrite of_N_eqb.
Qed.
Print Assumptions bech32VerifyChecksum_tie.

(* ---------- toBytes ---------- *)
Lemma charset_tie : Kernels2.bech32_charset = Bech32.charset.
Proof. reflexivity. Qed.

Lemma index_byte_from_spec c s : forall n,
  Go.index_byte_from s c (Z.of_N n) =
  match Bech32.index_of c s n with Some j => Z.of_N j | None => (-1)%Z end.
Proof.
  induction s as [|x t IH]; intros n; cbn [Go.index_byte_from Bech32.index_of]; [reflexivity|].
  destruct (x =? c); [reflexivity|]. rewrite <- IH. f_equal. lia.
Qed.

Lemma index_of_range c s : forall n j,
  Bech32.index_of c s n = Some j -> n <= j < n + N.of_nat (length s).
Proof.
  induction s as [|x t IH]; intros n j; cbn [Bech32.index_of length]; [discriminate|].
  destruct (x =? c).
  - intros [= <-]. lia.
  - intros H. apply IH in H. lia.
Qed.

Lemma index_of_charset_lt c j : Bech32.index_of c Bech32.charset 0 = Some j -> j < 32.
Proof.
  intros H. apply index_of_range in H.
  let x := eval vm_compute in (N.of_nat (length Bech32.charset)) in
    change (N.of_nat (length Bech32.charset)) with x in H.
  lia.
Qed.

Lemma toBytes_loop chars : forall acc,
  Go.foldM (fun s x => match Bech32.index_of x Bech32.charset 0 with
                       | Some j => Ok (s ++ [j]) | None => Err 1 end) chars acc
  = match Bech32.to_bytes chars with Some l => Ok (acc ++ l) | None => Err 1 end.
Proof.
  induction chars as [|c t IH]; intros acc; cbn [Go.foldM Bech32.to_bytes]; [now rewrite app_nil_r|].
  destruct (Bech32.index_of c Bech32.charset 0) as [j|].
  - rewrite IH. destruct (Bech32.to_bytes t); [|reflexivity]. now rewrite <- app_assoc.
  - reflexivity.
Qed.

Theorem toBytes_tie chars :
  Kernels2.toBytes chars = match Bech32.to_bytes chars with Some l => Ok l | None => Err 1 end.
Proof.
  unfold Kernels2.toBytes. rewrite charset_tie.
  rewrite (foldM_idx chars _ (fun s x => match Bech32.index_of x Bech32.charset 0 with
                                         | Some j => Ok (s ++ [j]) | None => Err 1 end)).
  - rewrite toBytes_loop. now destruct (Bech32.to_bytes chars).
  - intros s i x Hi. rewrite Hi. cbn [rbind]. cbv zeta. unfold Go.index_byte.
    change (Go.index_byte_from charset x 0%Z) with (Go.index_byte_from charset x (Z.of_N 0)).
    rewrite index_byte_from_spec.
    destruct (Bech32.index_of x Bech32.charset 0) as [j|] eqn:Ej.
    + apply index_of_charset_lt in Ej.
      destruct (Z.ltb_spec (Z.of_N j) 0); [lia|].
      do 3 f_equal. eval_term (2 ^ 8)%Z. lia.
    + reflexivity.
Qed.
Print Assumptions toBytes_tie.

(* ---------- toChars ---------- *)
Theorem toChars_tie data :
  Kernels2.toChars data = match Bech32.to_chars data with Some l => Ok l | None => Err 1 end.
Proof.
  unfold Kernels2.toChars. rewrite charset_tie.
  match goal with |- rbind (Go.foldM ?F data []) _ = _ =>
    assert (H : forall data acc, Go.foldM F data acc =
                  match Bech32.to_chars data with Some l => Ok (acc ++ l) | None => Err 1 end)
  end.
  { clear data. induction data as [|b t IH]; intros acc; cbn [Go.foldM Bech32.to_chars];
      [now rewrite app_nil_r|].
    assert (Hlen : length Bech32.charset = 32%nat) by reflexivity.
    rewrite Hlen. eval_term (N.of_nat 32).
    destruct (Z.leb_spec 32 (Z.of_N b)), (N.ltb_spec b 32); try lia; [reflexivity|].
    rewrite idx_N. unfold nth_res. rewrite (nth_error_nth' _ 0) by lia. cbn [rbind].
    rewrite IH. destruct (Bech32.to_chars t); [|reflexivity]. now rewrite <- app_assoc. }
  rewrite H. now destruct (Bech32.to_chars data).
Qed.
Print Assumptions toChars_tie.

(* ---------- Decode ---------- *)
(* a checking loop `for i := 0; i < len(l); i++ { if !P(l[i]) { return error e } }` *)
Lemma check_loop {A} (l : list A) (F : unit -> Z -> res unit) (P : A -> bool) e :
  (forall i x, Go.idx l i = Ok x -> F tt i = if P x then Ok tt else Err e) ->
  Go.foldM F (Go.zseq 0%Z (Z.to_nat (Z.of_nat (length l)))) tt = if forallb P l then Ok tt else Err e.
Proof.
  intros H.
  rewrite (foldM_idx l F (fun _ x => if P x then Ok tt else Err e)) by (intros [] i x Hi; now apply H).
  clear H. induction l as [|x t IH]; cbn [Go.foldM forallb]; [reflexivity|].
  destruct (P x); [exact IH | reflexivity].
Qed.

Lemma to_lower_tie s : Go.to_lower s = map Bech32.to_lower s.
Proof. reflexivity. Qed.
Lemma to_upper_tie s : Go.to_upper s = map Bech32.to_upper s.
Proof. reflexivity. Qed.

Definition zidx (o : option nat) : Z := match o with Some k => Z.of_nat k | None => (-1)%Z end.

Lemma last_index_byte_from_spec c s : forall i bo,
  Go.last_index_byte_from s c (Z.of_nat i) (zidx bo) = zidx (Bech32.last_index c s i bo).
Proof.
  induction s as [|x t IH]; intros i bo; cbn [Go.last_index_byte_from Bech32.last_index]; [reflexivity|].
  replace (Z.of_nat i + 1)%Z with (Z.of_nat (S i)) by lia.
  rewrite <- IH. f_equal. now destruct (x =? c).
Qed.

Lemma last_index_byte_spec c s :
  Go.last_index_byte s c = zidx (Bech32.last_index c s 0 None).
Proof. exact (last_index_byte_from_spec c s 0%nat None). Qed.

Lemma Bytes_firstn n l : Bytes l -> Bytes (firstn n l).
Proof. intros H. rewrite <- (firstn_skipn n l) in H. now apply Bytes_app in H. Qed.

Lemma to_bytes_props chars : forall l,
  Bech32.to_bytes chars = Some l -> length l = length chars /\ Forall (fun x => x < 32) l.
Proof.
  induction chars as [|c t IH]; intros l; cbn [Bech32.to_bytes].
  - intros [= <-]. split; [reflexivity | constructor].
  - destruct (Bech32.index_of c Bech32.charset 0) as [j|] eqn:Ej; [|discriminate].
    destruct (Bech32.to_bytes t) as [r|]; [|discriminate].
    intros [= <-]. destruct (IH r eq_refl) as [IH1 IH2]. cbn [length]. split; [now rewrite IH1|].
    constructor; [now apply index_of_charset_lt in Ej | exact IH2].
Qed.

Lemma lower_Bytes bech :
  forallb (fun c => negb ((c <? lit lits_Decode 3) || (lit lits_Decode 4 <? c))) bech = true ->
  Bytes (map Bech32.to_lower bech).
Proof.
  eval_term (lit lits_Decode 3). eval_term (lit lits_Decode 4).
  intros H. rewrite forallb_forall in H. apply Forall_forall. intros y Hy.
  apply in_map_iff in Hy as [c [<- Hc]]. specialize (H c Hc). unfold Bech32.to_lower.
  destruct ((65 <=? c) && (c <=? 90)); lia.
Qed.

(* both sides are conditionals on equivalent conditions (decided by lia) *)
Ltac same_if H :=
  match goal with |- (if ?c1 then _ else _) = (if ?c2 then _ else _) =>
    let E := fresh in assert (E : c1 = c2) by lia; rewrite E; clear E; destruct c2 eqn:H; [reflexivity|]
  end.

(* No hypothesis on bech: after the range check every byte is in 33..126, so the lowered string is a
   byte string (which is also where the ASCII-only intrinsics Go.to_lower/Go.to_upper are exact),
   and the decoded symbols are below 32.  In the failing-checksum branch the slices, bech32Checksum
   and toChars evaluated for the error message cannot panic (one+7 <= len gives len(decoded) >= 6). *)
Theorem Decode_tie bech : Kernels2.Decode bech = Bech32.decode bech.
Proof.
  unfold Kernels2.Decode, Bech32.decode. cbv zeta.
  rewrite to_lower_tie, to_upper_tie.
  pose proof (lower_Bytes bech) as Hlb.
  eval_term (lit lits_Decode 0). eval_term (lit lits_Decode 1).
  same_if Hlen.
  match goal with |- context [forallb ?P bech] =>
    rewrite (check_loop bech _ P 2)
  end.
  2:{ intros i x Hi. rewrite !Hi. cbn [rbind].
      eval_term (lit lits_Decode 3). eval_term (lit lits_Decode 4).
      destruct (x <? _); cbn [rbind orb negb]; [reflexivity|]. now destruct (_ <? x). }
  destruct (forallb _ bech); cbn [rbind negb]; [|reflexivity].
  specialize (Hlb eq_refl).
  destruct (negb (list_eqb bech (map to_lower bech)) && negb (list_eqb bech (map to_upper bech)));
    [reflexivity|].
  assert (Hn : length (map Bech32.to_lower bech) = length bech) by apply map_length.
  revert Hlb Hn. generalize (map Bech32.to_lower bech) as lower. intros lower Hlb Hn.
  rewrite !Hn. eval_term (lit lits_Decode 5). rewrite last_index_byte_spec.
  destruct (Bech32.last_index _ lower 0 None) as [k|]; cbn [zidx]; [|reflexivity].
  same_if Hk.
  (* hrp := bech[:one], data := bech[one+1:] *)
  rewrite slice_prefix by lia. cbn [rbind].
  replace (Z.of_nat k + 1)%Z with (Z.of_nat (k + 1)) by lia.
  rewrite <- Hn at 1. rewrite slice_nat by lia.
  rewrite (firstn_all2 (skipn (k + 1) lower)) by (rewrite skipn_length; lia). cbn [rbind].
  pose proof (skipn_length (k + 1) lower) as Hdl. revert Hdl.
  generalize (skipn (k + 1) lower) as data. intros data Hdl.
  pose proof (Bytes_firstn k lower Hlb) as Hhb. revert Hhb.
  generalize (firstn k lower) as hrp. intros hrp Hhb.
  rewrite toBytes_tie.
  destruct (Bech32.to_bytes data) as [decoded|] eqn:Edec; [|reflexivity].
  apply to_bytes_props in Edec as [Hdlen Hdsmall].
  assert (Hdb : Bytes decoded) by (apply (Forall_lt_weaken _ 32); [discriminate | exact Hdsmall]).
  rewrite bech32VerifyChecksum_tie by assumption. cbn [rbind].
  replace (Z.of_nat (length decoded) - 6)%Z with (Z.of_nat (length decoded - 6)) by lia.
  rewrite slice_prefix by lia.
  destruct (Bech32.verify_checksum hrp decoded); cbn [negb rbind]; [reflexivity|].
  (* the failing branch computes the expected checksum for the message only *)
  replace (Z.of_nat (length bech) - 6)%Z with (Z.of_nat (length bech - 6)) by lia.
  rewrite <- Hn at 2. rewrite slice_nat by lia. cbn [rbind].
  rewrite bech32Checksum_tie by (try apply Bytes_firstn; assumption). cbn [rbind].
  rewrite toChars_tie. now destruct (Bech32.to_chars _).
Qed.
Print Assumptions Decode_tie.

(* ---------- Encode ---------- *)
(* the model's error class 7 (data byte outside 0..31) is the code's only error return site, 1 *)
Theorem Encode_tie hrp data : Bytes hrp -> Bytes data ->
  Kernels2.Encode hrp data = match Bech32.encode hrp data with Err _ => Err 1 | r => r end.
Proof.
  intros Hh Hd. unfold Kernels2.Encode, Bech32.encode.
  rewrite bech32Checksum_tie by assumption. cbn [rbind app]. rewrite toChars_tie.
  destruct (Bech32.to_chars _); [|reflexivity]. now rewrite <- app_assoc.
Qed.
Print Assumptions Encode_tie.

(* sanity: the generated code runs (BIP-173 vector "A12UEL5L": hrp "a", empty data), and a corrupted
   checksum takes the branch discussed above *)
Example Decode_run : Kernels2.Decode [65; 49; 50; 85; 69; 76; 53; 76] = Ok ([97], []).
Proof. vm_compute. reflexivity. Qed.
Example Decode_run_bad : Kernels2.Decode [65; 49; 50; 85; 69; 76; 53; 77] = Err 6.
Proof. vm_compute. reflexivity. Qed.
Example Encode_run : Kernels2.Encode [97] [] = Ok [97; 49; 50; 117; 101; 108; 53; 108].
Proof. vm_compute. reflexivity. Qed.

(* Tie between the generated hash helpers of hash160.go / hash256.go (Gen/Kernels4.v: bchutil_calcHash,
   Hash160_impl, Hash256_impl) and the models' hash160 / hash256 (Address/Address.v) and sha256d
   (Lib/Sha256.v).  The hash.Hash objects are abstract in the translation (type Hash_t with Write and Sum as
   Section variables; sha256.New / ripemd160.New are values of that type).  They are instantiated here by the
   obvious streaming model: a hasher is (its algorithm, the bytes written so far); Write appends, Sum(b)
   appends the digest of what was written to b.  No model function existed for calcHash: its tie is against
   that specification (digest of the buffer under the hasher's algorithm, for a fresh hasher). *)
From BU Require Import Lib.Bytes Lib.Sha256 Address.Address Gen.Kernels4.

Section HashTie.
Variable ripemd160 : list N -> list N.

(* a hash.Hash: which algorithm, and what has been written *)
Definition hasher : Type := (list N -> list N) * list N.
Definition h_write (h : hasher) (p : list N) : Z * N * hasher := (Z.of_nat (length p), 0, (fst h, snd h ++ p)).
Definition h_sum (h : hasher) (b : list N) : list N := b ++ fst h (snd h).
Definition new_sha256 : hasher := (sha256, []).
Definition new_ripemd160 : hasher := (ripemd160, []).

Theorem calcHash_tie (alg : list N -> list N) (written buf : list N) :
  Kernels4.bchutil_calcHash hasher h_write h_sum buf (alg, written) = alg (written ++ buf).
Proof. reflexivity. Qed.

Theorem Hash160_tie buf :
  Kernels4.Hash160_impl hasher h_write h_sum new_sha256 new_ripemd160 buf = hash160 ripemd160 buf.
Proof. reflexivity. Qed.

Theorem Hash256_tie buf :
  Kernels4.Hash256_impl hasher h_write h_sum new_sha256 buf = hash256 buf.
Proof. reflexivity. Qed.

Theorem Hash256_sha256d_tie buf :
  Kernels4.Hash256_impl hasher h_write h_sum new_sha256 buf = sha256d buf.
Proof. reflexivity. Qed.
End HashTie.
Print Assumptions calcHash_tie.
Print Assumptions Hash160_tie.
Print Assumptions Hash256_tie.
Print Assumptions Hash256_sha256d_tie.

(* Tie between the generated gcs_Filter_readFullUint64 (Gen/Kernels3.v, from gcs/gcs.go:525) and the
   model Gcs.read_full (bit lists).

   The stream is an abstract type B whose methods ReadBit / ReadBits are parameters returning
   (value, error, new stream).  [reader_ok view inv RB RBs] says that they behave like the canonical
   bit-list reader through a bit-list [view] (under a representation invariant [inv]) and that the only
   error they return is io.EOF (true of github.com/kkdai/bstream v1.0.0: every error return of ReadBit,
   ReadByte and ReadBits is io.EOF).  Two instances: the stream IS the list of bits
   (list_reader_ok), and the byte/offset machine of Gcs/BStream.v (bstream_reader_ok, through
   BStreamProofs.bs_read_bit_spec / bs_read_bits_spec; needs P <= 64).

   Fuel: the unary loop `for c {..}` runs at most once per remaining bit: any
   fuel >= length (view s) suffices. *)
From BU Require Import Lib.Bytes Lib.PolyMod Gen.Kernels2 Gen.Kernels3 Gcs.SipHash Gcs.Gcs Gcs.GcsProofs
  Gcs.GcsBitsProofs Gcs.BStream Gcs.BStreamProofs Tie.Kernels2Lib Tie.Kernels3Lib Tie.Kernels2_Gcs
  Tie.Kernels3_GcsSer.
From Coq Require Import ZifyBool ZifyN ZifyNat.

Lemma whileC_unfold {S R} fuel (cond : S -> bool) (body : S -> res (Go.ctl S R)) s :
  Go.whileC fuel cond body s =
  if cond s then
    match fuel with
    | O => Panic 9
    | Datatypes.S f =>
        match body s with
        | Ok (Go.Next s') => Go.whileC f cond body s'
        | Ok (Go.Brk s') => Ok (Go.Next s')
        | Ok (Go.Ret r) => Ok (Go.Ret r)
        | Err e => Err e
        | Panic k => Panic k
        end
    end
  else Ok (Go.Next s).
Proof. destruct fuel; reflexivity. Qed.

Definition EOF : N := Kernels3.io_EOF.

Definition reader_ok {B : Type} (view : B -> list bool) (inv : B -> Prop)
  (RB : B -> bool * N * B) (RBs : B -> Z -> N * N * B) : Prop :=
  (forall s, inv s ->
     match view s with
     | [] => exists c s', RB s = (c, EOF, s')
     | x :: t => exists s', RB s = (x, 0, s') /\ view s' = t /\ inv s'
     end) /\
  (forall P s, P <= 64 -> inv s ->
     match read_bits (N.to_nat P) (view s) with
     | None => exists v s', RBs s (Z.of_N P) = (v, EOF, s')
     | Some (v, t) => exists s', RBs s (Z.of_N P) = (v, 0, s') /\ view s' = t /\ inv s'
     end).

Section Reader3.
  Context {B : Type}.
  Variable view : B -> list bool.
  Variable inv : B -> Prop.
  Variable RB : B -> bool * N * B.
  Variable RBs : B -> Z -> N * N * B.
  Hypothesis Hok : reader_ok view inv RB RBs.

  Local Notation st := (N * bool * N * B)%type.
  Local Notation rt := (N * N * B)%type.

  Lemma unary_loop3 (cond : st -> bool) (body : st -> res (Go.ctl st rt)) :
    (forall q c e b, cond (q, c, e, b) = c) ->
    (forall q c e b, body (q, c, e, b) =
       let '(c', e', b') := RB b in
       if negb (e' =? 0) then Ok (Go.Ret (0, Go3.prop 2 e', b'))
       else Ok (Go.Next ((q + 1) mod 2 ^ 64, c', e', b'))) ->
    forall fuel q c e b, inv b -> (S (length (view b)) <= fuel)%nat ->
      match read_unary (c :: view b) q with
      | None => exists b', Go.whileC fuel cond body (q, c, e, b) = Ok (Go.Ret (0, EOF, b'))
      | Some (q', t) =>
          exists e' b', Go.whileC fuel cond body (q, c, e, b) = Ok (Go.Next (q', false, e', b')) /\
                        view b' = t /\ inv b'
      end.
  Proof using Hok.
    destruct Hok as [RB_spec _]. clear Hok. intros Hcond Hbody.
    induction fuel as [|fuel IH]; intros q c e b Hi Hf; [lia|].
    rewrite whileC_unfold, Hcond. destruct c; cbn [read_unary].
    - rewrite Hbody. pose proof (RB_spec b Hi) as Hb.
      destruct (view b) as [|x t] eqn:Ev.
      + destruct Hb as (c' & b' & ->). cbn [read_unary]. exists b'. reflexivity.
      + destruct Hb as (b' & -> & Hv' & Hi'). cbn [length] in Hf. cbv beta iota.
        change (negb (0 =? 0)) with false. cbv iota.
        specialize (IH (w64 (q + 1)) x 0 b' Hi'). rewrite Hv' in IH. apply IH. lia.
    - exists e, b. auto.
  Qed.

  Theorem readFullUint64_generic fuel f s :
    inv s -> Kernels3.gcs_Filter_p f <= 64 -> (length (view s) <= fuel)%nat ->
    match read_full (Kernels3.gcs_Filter_p f) (view s) with
    | Some (v, t) =>
        exists s', Kernels3.gcs_Filter_readFullUint64 B RB RBs fuel f s = Ok (v, 0, s') /\ view s' = t /\ inv s'
    | None => exists s', Kernels3.gcs_Filter_readFullUint64 B RB RBs fuel f s = Ok (0, EOF, s')
    end.
  Proof using Hok.
    intros Hi HP Hf. pose proof Hok as [RB_spec RBs_spec].
    unfold Kernels3.gcs_Filter_readFullUint64. cbv zeta.
    pose proof (RB_spec s Hi) as Hb.
    destruct (view s) as [|c t0] eqn:Ev.
    - destruct Hb as (c' & s' & ->). cbv beta iota. exists s'. reflexivity.
    - destruct Hb as (b & -> & Hvb & Hib). cbv beta iota. change (negb (0 =? 0)) with false. cbv iota.
      subst t0.
      match goal with |- context [Go.whileC _ ?c0 ?bd _] => set (cond := c0); set (body := bd) end.
      pose proof (unary_loop3 cond body ltac:(intros; reflexivity) ltac:(intros; reflexivity)
                    fuel 0 c 0 b Hib) as Hl.
      cbn [length] in Hf. specialize (Hl Hf).
      unfold read_full.
      destruct (read_unary (c :: view b) 0) as [[q t]|].
      + destruct Hl as (e' & b' & -> & Hv' & Hi'). cbn [rbind].
        pose proof (RBs_spec _ b' HP Hi') as Hr. rewrite Hv' in Hr.
        destruct (read_bits (N.to_nat (Kernels3.gcs_Filter_p f)) t) as [[r t']|].
        * destruct Hr as (s' & -> & Hv'' & Hi''). cbv beta iota. change (negb (0 =? 0)) with false. cbv iota.
          exists s'. auto.
        * destruct Hr as (v & s' & ->). cbv beta iota. exists s'. reflexivity.
      + destruct Hl as (b' & ->). cbn [rbind]. exists b'. reflexivity.
  Qed.
End Reader3.

Print Assumptions readFullUint64_generic.

(* ---------- instance 1: the stream is the list of bits ---------- *)
Definition rd3_bit (bs : list bool) : bool * N * list bool :=
  match bs with [] => (false, EOF, []) | x :: t => (x, 0, t) end.

Definition rd3_bits (bs : list bool) (n : Z) : N * N * list bool :=
  match read_bits (Z.to_nat n) bs with Some (v, t) => (v, 0, t) | None => (0, EOF, bs) end.

Lemma list_reader_ok : reader_ok (fun bs : list bool => bs) (fun _ => True) rd3_bit rd3_bits.
Proof.
  split.
  - intros [|x t] _; cbn [rd3_bit]; eauto.
  - intros P s _ _. unfold rd3_bits. rewrite Z_of_N_to_nat.
    destruct (read_bits (N.to_nat P) s) as [[v t]|]; eauto.
Qed.

Theorem readFullUint64_tie fuel f bs :
  Kernels3.gcs_Filter_p f <= 64 -> (length bs <= fuel)%nat ->
  match read_full (Kernels3.gcs_Filter_p f) bs with
  | Some (v, t) => Kernels3.gcs_Filter_readFullUint64 (list bool) rd3_bit rd3_bits fuel f bs = Ok (v, 0, t)
  | None => exists s', Kernels3.gcs_Filter_readFullUint64 (list bool) rd3_bit rd3_bits fuel f bs = Ok (0, EOF, s')
  end.
Proof.
  intros HP Hf.
  pose proof (readFullUint64_generic _ _ _ _ list_reader_ok fuel f bs I HP Hf) as H. cbv beta in H.
  destruct (read_full (Kernels3.gcs_Filter_p f) bs) as [[v t]|]; [|exact H].
  destruct H as (s' & -> & -> & _). reflexivity.
Qed.

(* the two outcomes separately, which is what callers use *)
Corollary readFullUint64_list_some fuel f bs v t :
  Kernels3.gcs_Filter_p f <= 64 -> (length bs <= fuel)%nat ->
  read_full (Kernels3.gcs_Filter_p f) bs = Some (v, t) ->
  Kernels3.gcs_Filter_readFullUint64 (list bool) rd3_bit rd3_bits fuel f bs = Ok (v, 0, t).
Proof.
  intros HP Hf E.
  pose proof (readFullUint64_generic _ _ _ _ list_reader_ok fuel f bs I HP Hf) as H. cbv beta in H.
  rewrite E in H. destruct H as (s' & -> & -> & _). reflexivity.
Qed.

Corollary readFullUint64_list_none fuel f bs :
  Kernels3.gcs_Filter_p f <= 64 -> (length bs <= fuel)%nat ->
  read_full (Kernels3.gcs_Filter_p f) bs = None ->
  exists s', Kernels3.gcs_Filter_readFullUint64 (list bool) rd3_bit rd3_bits fuel f bs = Ok (0, EOF, s').
Proof.
  intros HP Hf E.
  pose proof (readFullUint64_generic _ _ _ _ list_reader_ok fuel f bs I HP Hf) as H. cbv beta in H.
  rewrite E in H. exact H.
Qed.

(* ---------- instance 2: the byte/offset machine of Gcs/BStream.v ---------- *)
Definition bsr3_bit (s : rstate) : bool * N * rstate :=
  match bs_read_bit s with Some (c, s') => (c, 0, s') | None => (false, EOF, s) end.

Definition bsr3_bits (s : rstate) (n : Z) : N * N * rstate :=
  match bs_read_bits (Z.to_N n) s with Some (v, s') => (v, 0, s') | None => (0, EOF, s) end.

Lemma bstream_reader_ok : reader_ok bits_of_state wf bsr3_bit bsr3_bits.
Proof.
  split.
  - intros s Hwf. pose proof (bs_read_bit_spec s Hwf) as H. unfold bsr3_bit.
    destruct (bits_of_state s) as [|x t].
    + rewrite H. eauto.
    + destruct H as (s' & -> & Hv & Hw). eauto.
  - intros P s HP Hwf. pose proof (bs_read_bits_spec P s Hwf HP) as H. cbv zeta in H.
    unfold bsr3_bits. rewrite N2Z.id.
    destruct (read_bits (N.to_nat P) (bits_of_state s)) as [[v t]|].
    + destruct H as (s' & -> & Hv & Hw). eauto.
    + rewrite H. eauto.
Qed.

Theorem readFullUint64_bstream_tie fuel f s :
  wf s -> Kernels3.gcs_Filter_p f <= 64 -> (bs_bits_left s <= fuel)%nat ->
  match bs_read_full (Kernels3.gcs_Filter_p f) s with
  | Some (v, s') =>
      exists s'', Kernels3.gcs_Filter_readFullUint64 rstate bsr3_bit bsr3_bits fuel f s = Ok (v, 0, s'') /\
                  bits_of_state s'' = bits_of_state s' /\ wf s''
  | None => exists s'', Kernels3.gcs_Filter_readFullUint64 rstate bsr3_bit bsr3_bits fuel f s = Ok (0, EOF, s'')
  end.
Proof.
  intros Hwf HP Hf.
  pose proof (bits_of_state_length s Hwf) as Hl.
  pose proof (readFullUint64_generic _ _ _ _ bstream_reader_ok fuel f s Hwf HP ltac:(lia)) as H.
  pose proof (bs_read_full_spec (Kernels3.gcs_Filter_p f) s Hwf HP) as Hs.
  destruct (read_full (Kernels3.gcs_Filter_p f) (bits_of_state s)) as [[v t]|].
  - destruct Hs as (s' & -> & Hv' & _). destruct H as (s'' & E & Hv'' & Hw''). exists s''.
    split; [exact E|]. split; [congruence|exact Hw''].
  - rewrite Hs. exact H.
Qed.

Print Assumptions readFullUint64_tie.
Print Assumptions readFullUint64_list_some.
Print Assumptions readFullUint64_list_none.
Print Assumptions readFullUint64_bstream_tie.

Example readFull3_example :
  let f := Kernels3.mk_gcs_Filter 3 2 0 [] in
  let bs := encode 2 0 [5; 9; 30] in
  Kernels3.gcs_Filter_readFullUint64 (list bool) rd3_bit rd3_bits (length bs) f bs = Ok (5, 0, encode 2 5 [9; 30]) /\
  Kernels3.gcs_Filter_readFullUint64 (list bool) rd3_bit rd3_bits 3 f [] = Ok (0, EOF, []) /\
  Kernels3.gcs_Filter_readFullUint64 (list bool) rd3_bit rd3_bits 3 f [true; true] = Ok (0, EOF, []) /\
  Kernels3.gcs_Filter_readFullUint64 (list bool) rd3_bit rd3_bits 3 f [true; false; true] = Ok (0, EOF, [true]).
Proof. vm_compute. repeat split. Qed.

(* Tie between the generated base58.Decode / base58.Encode (Gen/Kernels4.v, translated from
   base58/base58.go with math/big as the trusted intrinsic family of module Go4) and the model
   Base58/Base58.v, for every byte string; then the base58check / WIF ties of Tie/Kernels3_*.v
   restated with the generated Encode / Decode in place of the abstract dependency. *)
From BU Require Import Lib.Bytes Lib.Radix Lib.Sha256 Base58.Base58 Base58.Base58Proofs
  Wif.Wif Gen.Kernels2 Gen.Kernels3 Gen.Kernels4 Tie.Kernels2Lib Tie.Kernels3Lib Tie.Kernels3_Base58 Tie.Kernels3_Wif.
From Coq Require Import ZifyBool ZifyN ZifyNat Lia.

(* ---------- tables ---------- *)
Lemma tab_b58_eq : Kernels4.base58_b58 = b58tab.
Proof. vm_compute. reflexivity. Qed.
Lemma tab_alphabet_eq : Kernels4.base58_alphabet = alphabet.
Proof. vm_compute. reflexivity. Qed.

Lemma b58_idx c : c < 256 -> Go.idx Kernels4.base58_b58 (Z.of_N c) = Ok (b58 c).
Proof.
  intros Hc. rewrite tab_b58_eq. apply idx_N_ok. unfold b58.
  apply nth_error_nth'. rewrite tab_b58_len. lia.
Qed.

Lemma alpha_idx d : d < 58 -> Go.idx Kernels4.base58_alphabet (Z.of_N d) = Ok (alpha d).
Proof.
  intros Hd. rewrite tab_alphabet_eq. apply idx_N_ok. unfold alpha.
  apply nth_error_nth'. rewrite tab_alphabet_len. lia.
Qed.

(* ---------- positional values ---------- *)
Lemma value_acc b ds : forall acc, value b ds acc = acc * b ^ N.of_nat (length ds) + value b ds 0.
Proof.
  induction ds as [|d t IH]; intros acc.
  - simpl. lia.
  - cbn [value length]. rewrite (IH (acc * b + d)), (IH (0 * b + d)).
    rewrite Nat2N.inj_succ, N.pow_succ_r'. lia.
Qed.

Lemma value_cons b d ds : value b (d :: ds) 0 = d * b ^ N.of_nat (length ds) + value b ds 0.
Proof. cbn [value]. rewrite value_acc. lia. Qed.

Lemma decode_digits_length s ds : decode_digits s = Some ds -> length ds = length s.
Proof.
  revert ds; induction s as [|c s IH]; simpl; intros ds H.
  - inversion H. reflexivity.
  - destruct (b58 c =? 255); [discriminate|]. destruct (decode_digits s) as [d'|]; [|discriminate].
    inversion H; subst. simpl. f_equal. apply IH. reflexivity.
Qed.

(* ---------- Decode ---------- *)
Lemma copy_at_tail {A} (d : A) a (src : list A) :
  Go.copy_at (repeat d (a + length src)) (Z.of_nat a) src = Ok (repeat d a ++ src).
Proof.
  unfold Go.copy_at. rewrite repeat_length.
  destruct (Z.ltb_spec (Z.of_nat a) 0); [lia|].
  destruct (Z.ltb_spec (Z.of_nat (a + length src)) (Z.of_nat a)); [lia|]. cbn [orb].
  rewrite Nat2Z.id. replace (a + length src - a)%nat with (length src) by lia.
  rewrite Nat.min_id, firstn_all.
  rewrite (skipn_all2 (repeat d (a + length src))) by (rewrite repeat_length; lia).
  rewrite app_nil_r. do 2 f_equal.
  rewrite repeat_app, firstn_app, repeat_length, Nat.sub_diag. cbn [firstn].
  rewrite app_nil_r. apply firstn_all2. rewrite repeat_length. lia.
Qed.

Section DecodeLoop.
Variable b : list N.
Hypothesis Hb : Bytes b.

Lemma decode_loop (R := list N) cond body :
  (forall scr ans j i, cond (scr, ans, j, i) = (0 <=? i)%Z) ->
  (forall scr ans j pre c suf, b = pre ++ c :: suf ->
     body (scr, ans, j, Z.of_nat (length pre)) =
       if b58 c =? 255 then Ok (Go.Ret (S := Z * Z * Z * Z) (@nil N))
       else Ok (Go.Next (j * Z.of_N (b58 c), ans + j * Z.of_N (b58 c), j * 58, Z.of_nat (length pre) - 1))%Z) ->
  forall pre suf ds scr fuel,
    b = pre ++ suf -> decode_digits suf = Some ds -> (length pre <= fuel)%nat ->
    (decode_digits pre = None /\
     Go.whileC (R := R) fuel cond body
       (scr, Z.of_N (value 58 ds 0), (58 ^ Z.of_nat (length suf))%Z, (Z.of_nat (length pre) - 1)%Z) = Ok (Go.Ret []))
    \/
    (exists dp scr', decode_digits pre = Some dp /\
     Go.whileC (R := R) fuel cond body
       (scr, Z.of_N (value 58 ds 0), (58 ^ Z.of_nat (length suf))%Z, (Z.of_nat (length pre) - 1)%Z) =
     Ok (Go.Next (scr', Z.of_N (value 58 (dp ++ ds) 0), (58 ^ Z.of_nat (length b))%Z, (-1)%Z))).
Proof using Hb.
  intros Hcond Hbody pre. induction pre as [|c pre IH] using rev_ind; intros suf ds scr fuel E Hds Hf.
  - right. exists [], scr. split; [reflexivity|].
    destruct fuel; cbn [Go.whileC]; rewrite Hcond; cbn [length]; (destruct (Z.leb_spec 0 (0 - 1)); [lia|]);
      simpl in E; subst suf; reflexivity.
  - rewrite app_length in Hf |- *. cbn [length] in Hf |- *.
    destruct fuel as [|fuel]; [lia|]. cbn [Go.whileC]. rewrite Hcond.
    destruct (Z.leb_spec 0 (Z.of_nat (length pre + 1) - 1)); [|lia].
    replace (Z.of_nat (length pre + 1) - 1)%Z with (Z.of_nat (length pre)) by lia.
    rewrite <- app_assoc in E. cbn [app] in E.
    rewrite (Hbody _ _ _ _ _ _ E).
    rewrite decode_digits_app. cbn [decode_digits].
    destruct (N.eqb_spec (b58 c) 255) as [E255|N255].
    + left. split; [destruct (decode_digits pre); reflexivity|reflexivity].
    + assert (Hds' : decode_digits (c :: suf) = Some (b58 c :: ds)).
      { cbn [decode_digits]. destruct (N.eqb_spec (b58 c) 255); [contradiction|]. rewrite Hds. reflexivity. }
      assert (Hst : (Z.of_N (value 58 ds 0) + 58 ^ Z.of_nat (length suf) * Z.of_N (b58 c))%Z =
                    Z.of_N (value 58 (b58 c :: ds) 0)).
      { rewrite value_cons, (decode_digits_length _ _ Hds).
        rewrite N2Z.inj_add, N2Z.inj_mul, N2Z.inj_pow, nat_N_Z. change (Z.of_N 58) with 58%Z. lia. }
      rewrite Hst.
      replace (58 ^ Z.of_nat (length suf) * 58)%Z with (58 ^ Z.of_nat (length (c :: suf)))%Z
        by (cbn [length]; rewrite Nat2Z.inj_succ, Z.pow_succ_r by lia; lia).
      destruct (IH (c :: suf) (b58 c :: ds) (58 ^ Z.of_nat (length suf) * Z.of_N (b58 c))%Z fuel E Hds' ltac:(lia))
        as [[Hn Hw]|[dp [scr' [Hs Hw]]]].
      * left. rewrite Hn. split; [reflexivity|exact Hw].
      * right. exists (dp ++ [b58 c]), scr'. rewrite Hs. split; [reflexivity|].
        rewrite Hw. rewrite <- app_assoc. reflexivity.
Qed.

Lemma zeros_loop (R := list N) cond body :
  (forall k, cond k = (k <? Z.of_nat (length b))%Z) ->
  (forall pre c suf, b = pre ++ c :: suf ->
     body (Z.of_nat (length pre)) =
       if negb (c =? 49) then Ok (Go.Brk (R := R) (Z.of_nat (length pre)))
       else Ok (Go.Next (Z.of_nat (length pre) + 1)%Z)) ->
  forall suf pre fuel,
    b = pre ++ suf -> (length suf < fuel)%nat ->
    Go.whileC (R := R) fuel cond body (Z.of_nat (length pre)) =
      Ok (Go.Next (Z.of_nat (length pre + count_leading 49 suf))).
Proof using.
  clear Hb.
  intros Hcond Hbody suf. induction suf as [|c suf IH]; intros pre fuel E Hf.
  - destruct fuel; cbn [Go.whileC]; rewrite Hcond; subst b; rewrite app_nil_r;
      (destruct (Z.ltb_spec (Z.of_nat (length pre)) (Z.of_nat (length pre))); [lia|]);
      cbn [count_leading]; rewrite Nat.add_0_r; reflexivity.
  - cbn [length] in Hf. destruct fuel as [|fuel]; [lia|]. cbn [Go.whileC]. rewrite Hcond.
    destruct (Z.ltb_spec (Z.of_nat (length pre)) (Z.of_nat (length b))) as [_|Hge];
      [|subst b; rewrite app_length in Hge; cbn [length] in Hge; lia].
    rewrite (Hbody _ _ _ E). cbn [count_leading].
    destruct (N.eqb_spec c 49) as [->|Hne]; cbn [negb].
    + replace (Z.of_nat (length pre) + 1)%Z with (Z.of_nat (length (pre ++ [49]))) by (rewrite app_length; cbn [length]; lia).
      rewrite (IH (pre ++ [49]) fuel) by (try (rewrite <- app_assoc; exact E); lia).
      rewrite app_length. cbn [length]. do 3 f_equal. lia.
    + rewrite Nat.add_0_r. reflexivity.
Qed.
End DecodeLoop.

Theorem base58_Decode_tie b fuel :
  Bytes b -> (length b < fuel)%nat -> Kernels4.base58_Decode_ fuel b = Ok (Base58.decode b).
Proof.
  intros Hb Hf. unfold Kernels4.base58_Decode_, Go4.big_of_int64, Go4.big_mul, Go4.big_add, Go4.big_bytes.
  match goal with |- context [Go.whileC fuel ?c ?bd (_, _, _, _)] => set (cond := c); set (body := bd) end.
  assert (Hcond : forall scr ans j i, cond (scr, ans, j, i) = (0 <=? i)%Z) by reflexivity.
  assert (Hbody : forall scr ans j pre c suf, b = pre ++ c :: suf ->
     body (scr, ans, j, Z.of_nat (length pre)) =
       if b58 c =? 255 then Ok (Go.Ret (S := Z * Z * Z * Z) (@nil N))
       else Ok (Go.Next (j * Z.of_N (b58 c), ans + j * Z.of_N (b58 c), j * 58, Z.of_nat (length pre) - 1))%Z).
  { intros scr ans j pre c suf E. unfold body. rewrite E at 1. rewrite idx_mid. cbn [rbind].
    assert (Hc : c < 256).
    { rewrite E in Hb. apply Forall_app in Hb. destruct Hb as [_ Hb']. inversion Hb'; assumption. }
    rewrite (b58_idx _ Hc). cbn [rbind]. destruct (b58 c =? 255); reflexivity. }
  pose proof (decode_loop b Hb cond body Hcond Hbody b [] [] 0%Z fuel (eq_sym (app_nil_r b)) eq_refl ltac:(lia)) as HL.
  cbn [length value] in HL. change (58 ^ Z.of_nat 0)%Z with 1%Z in HL. change (Z.of_N 0) with 0%Z in HL.
  unfold Base58.decode.
  destruct HL as [[Hn Hw]|[dp [scr' [Hs Hw]]]]; rewrite Hw; cbn [rbind]; [rewrite Hn; reflexivity|].
  rewrite Hs, app_nil_r.
  match goal with |- context [Go.whileC fuel ?c ?bd 0%Z] => set (cond2 := c); set (body2 := bd) end.
  assert (Hcond2 : forall k, cond2 k = (k <? Z.of_nat (length b))%Z) by reflexivity.
  assert (Hbody2 : forall pre c suf, b = pre ++ c :: suf ->
     body2 (Z.of_nat (length pre)) =
       if negb (c =? 49) then Ok (Go.Brk (R := list N) (Z.of_nat (length pre)))
       else Ok (Go.Next (Z.of_nat (length pre) + 1)%Z)).
  { intros pre c suf E. unfold body2. rewrite E at 1. rewrite idx_mid. cbn [rbind]. reflexivity. }
  pose proof (zeros_loop b cond2 body2 Hcond2 Hbody2 b [] fuel eq_refl Hf) as HZ.
  cbn [length Nat.add] in HZ. change (Z.of_nat 0) with 0%Z in HZ. rewrite HZ. cbn [rbind].
  replace (Z.abs_N (Z.of_N (value 58 dp 0))) with (value 58 dp 0) by lia.
  rewrite <- Nat2Z.inj_add, make_nat. cbn [rbind].
  rewrite copy_at_tail. cbn [rbind]. rewrite tie_idx0. reflexivity.
Qed.
Print Assumptions base58_Decode_tie.

(* ---------- Encode ---------- *)
Lemma whileM_unfold {S} fuel (cond : S -> bool) body s :
  Go.whileM fuel cond body s =
    if cond s then
      match fuel with
      | O => Panic 9
      | Datatypes.S f =>
        match body s with Ok s' => Go.whileM f cond body s' | Err e => Err e | Panic k => Panic k end
      end
    else Ok s.
Proof. destruct fuel; reflexivity. Qed.

Lemma digits_length_step n : n <> 0 -> length (digits 58 n) = S (length (digits 58 (n / 58))).
Proof. intros Hn. rewrite digits_step by (lia || assumption). rewrite app_length. cbn [length]. lia. Qed.

Lemma divmod_loop cond body :
  (forall x acc, cond (x, acc) = (0 <? Go4.big_cmp x 0)%Z) ->
  (forall n acc, n <> 0 ->
     body (Z.of_N n, acc) = Ok (Z.of_N (n / 58), acc ++ [alpha (n mod 58)])) ->
  forall n acc fuel, (length (digits 58 n) <= fuel)%nat ->
    Go.whileM fuel cond body (Z.of_N n, acc) = Ok (0%Z, acc ++ rev (map alpha (digits 58 n))).
Proof.
  intros Hcond Hbody n. induction n as [|n Hn IH] using (div_ind 58 ltac:(lia)); intros acc fuel Hf.
  - rewrite whileM_unfold, Hcond. cbn. rewrite app_nil_r. reflexivity.
  - rewrite whileM_unfold, Hcond. unfold Go4.big_cmp.
    destruct (Z.compare_spec (Z.of_N n) 0) as [E|L|G]; try lia. cbn [Z.ltb Z.compare].
    rewrite digits_length_step in Hf by assumption.
    destruct fuel as [|fuel]; [lia|]. rewrite (Hbody n acc Hn).
    rewrite IH by lia. rewrite (digits_step 58 ltac:(lia) n Hn).
    rewrite map_app, rev_app_distr. cbn [map rev app]. rewrite <- app_assoc. reflexivity.
Qed.

Lemma zeros_fold (S := list N) (R := list N) f :
  (forall ans c, f ans c = if negb (c =? 0) then Ok (Go.Brk (R := R) ans) else Ok (Go.Next (ans ++ [49]))) ->
  forall l ans, Go.foldC (R := R) f l ans = Ok (Go.Next (ans ++ repeat 49 (count_leading 0 l))).
Proof.
  intros Hf l. induction l as [|c l IH]; intros ans; cbn [Go.foldC count_leading].
  - cbn. rewrite app_nil_r. reflexivity.
  - rewrite Hf. destruct (N.eqb_spec c 0); cbn [negb].
    + rewrite IH. cbn [repeat]. rewrite <- app_assoc. reflexivity.
    + cbn. rewrite app_nil_r. reflexivity.
Qed.

Lemma split_ends {A} (l : list A) : (2 <= length l)%nat -> exists x m y, l = x :: m ++ [y].
Proof.
  intros H. destruct l as [|x l]; [simpl in H; lia|].
  destruct (exists_last (l := l)) as [m [y E]]; [destruct l; simpl in H; [lia|discriminate]|].
  exists x, m, y. rewrite E. reflexivity.
Qed.

Lemma reverse_loop (f : list N -> Z -> res (list N)) alen :
  (forall l i, f l i =
     do t5 <- Go.idx l (alen - 1 - i)%Z ;; do t6 <- Go.idx l i ;;
     do l1 <- Go.upd l i t5 ;; do l2 <- Go.upd l1 (alen - 1 - i)%Z t6 ;; Ok l2) ->
  forall m pre mid post,
    length pre = length post -> (length mid / 2 = m)%nat ->
    alen = Z.of_nat (length pre + length mid + length post) ->
    Go.foldM f (Go.zseq (Z.of_nat (length pre)) m) (pre ++ mid ++ post) = Ok (pre ++ rev mid ++ post).
Proof.
  intros Hf m. induction m as [|m IH]; intros pre mid post Hpp Hm Hal.
  - cbn [Go.zseq Go.foldM].
    destruct mid as [|x [|y mid]]; [reflexivity|reflexivity|].
    cbn [length] in Hm. change (S (S (length mid))) with (2 + length mid)%nat in Hm.
    rewrite (Nat.div_add_l 1 2) in Hm by lia. lia.
  - assert (Hlen : (2 <= length mid)%nat).
    { destruct mid as [|x [|y mid]]; cbn [length]; try lia; cbn in Hm; lia. }
    destruct (split_ends mid Hlen) as [x [mid' [y ->]]].
    cbn [Go.zseq Go.foldM]. rewrite Hf.
    assert (Hidx1 : Go.idx (pre ++ (x :: mid' ++ [y]) ++ post) (alen - 1 - Z.of_nat (length pre))%Z = Ok y).
    { replace (pre ++ (x :: mid' ++ [y]) ++ post) with ((pre ++ x :: mid') ++ y :: post)
        by (rewrite <- !app_assoc; cbn [app]; rewrite <- app_assoc; reflexivity).
      replace (alen - 1 - Z.of_nat (length pre))%Z with (Z.of_nat (length (pre ++ x :: mid'))).
      - apply idx_mid.
      - rewrite Hal. rewrite !app_length. cbn [length]. rewrite app_length. cbn [length]. lia. }
    rewrite Hidx1. cbn [rbind].
    assert (Hidx2 : Go.idx (pre ++ (x :: mid' ++ [y]) ++ post) (Z.of_nat (length pre)) = Ok x).
    { cbn [app]. apply idx_mid. }
    rewrite Hidx2. cbn [rbind].
    cbn [app]. rewrite upd_mid. cbn [rbind].
    replace (pre ++ y :: (mid' ++ [y]) ++ post) with ((pre ++ y :: mid') ++ y :: post)
      by (rewrite <- !app_assoc; cbn [app]; reflexivity).
    replace (alen - 1 - Z.of_nat (length pre))%Z with (Z.of_nat (length (pre ++ y :: mid')))
      by (rewrite Hal; rewrite !app_length; cbn [length]; rewrite app_length; cbn [length]; lia).
    rewrite upd_mid. cbn [rbind].
    replace ((pre ++ y :: mid') ++ x :: post) with ((pre ++ [y]) ++ mid' ++ (x :: post))
      by (rewrite <- !app_assoc; reflexivity).
    replace (Z.of_nat (length pre) + 1)%Z with (Z.of_nat (length (pre ++ [y])))
      by (rewrite app_length; cbn [length]; lia).
    rewrite IH.
    + cbn [rev]. rewrite rev_app_distr. cbn [rev app]. rewrite <- !app_assoc. reflexivity.
    + rewrite app_length. cbn [length]. lia.
    + cbn [length] in Hm. rewrite app_length in Hm. cbn [length] in Hm.
      replace (S (length mid' + 1)) with (1 * 2 + length mid')%nat in Hm by lia.
      rewrite Nat.div_add_l in Hm by lia. lia.
    + rewrite Hal. rewrite !app_length. cbn [length]. rewrite app_length. cbn [length]. lia.
Qed.

Lemma rev_repeat' {A} (x : A) n : rev (repeat x n) = repeat x n.
Proof.
  induction n; [reflexivity|]. cbn [repeat rev]. rewrite IHn.
  clear IHn. induction n; [reflexivity|]. cbn [repeat app]. f_equal. exact IHn.
Qed.

Theorem base58_Encode_tie b fuel :
  Bytes b -> (length (digits 58 (value 256 b 0)) <= fuel)%nat ->
  Kernels4.base58_Encode_ fuel b = Ok (Base58.encode b).
Proof.
  intros Hb Hf. unfold Kernels4.base58_Encode_, Go4.big_set_bytes.
  match goal with |- context [Go.whileM fuel ?c ?bd _] => set (cond := c); set (body := bd) end.
  assert (Hcond : forall x acc, cond (x, acc) = (0 <? Go4.big_cmp x 0)%Z) by reflexivity.
  assert (Hbody : forall n acc, n <> 0 ->
     body (Z.of_N n, acc) = Ok (Z.of_N (n / 58), acc ++ [alpha (n mod 58)])).
  { intros n acc Hn. unfold body, Go4.big_divmod, Go4.big_int64.
    change (58 =? 0)%Z with false. cbn [rbind]. change (Z.abs 58) with 58%Z.
    assert (Hm : (Z.of_N n mod 58)%Z = Z.of_N (n mod 58)) by (rewrite N2Z.inj_mod; reflexivity).
    rewrite Hm.
    assert (Hq : ((Z.of_N n - Z.of_N (n mod 58)) / 58)%Z = Z.of_N (n / 58)).
    { rewrite N2Z.inj_div. change (Z.of_N 58) with 58%Z. rewrite <- Hm.
      rewrite (Z.div_mod (Z.of_N n) 58) at 1 by lia.
      replace (58 * (Z.of_N n / 58) + Z.of_N n mod 58 - Z.of_N n mod 58)%Z with ((Z.of_N n / 58) * 58)%Z by lia.
      apply Z.div_mul. lia. }
    rewrite Hq.
    assert (Hlt : n mod 58 < 58) by (apply N.mod_lt; lia).
    assert (Hw : Go.wrapZ 64 (Z.of_N (n mod 58)) = Z.of_N (n mod 58)).
    { unfold Go.wrapZ. rewrite Z.mod_small by lia. lia. }
    rewrite Hw, (alpha_idx _ Hlt). cbn [rbind]. reflexivity. }
  rewrite (divmod_loop cond body Hcond Hbody (value 256 b 0) [] fuel Hf). cbn [rbind app].
  match goal with |- context [Go.foldC ?f b _] => set (f2 := f) end.
  assert (Hf2 : forall ans c, f2 ans c = if negb (c =? 0) then Ok (Go.Brk (R := list N) ans) else Ok (Go.Next (ans ++ [49])))
    by reflexivity.
  rewrite (zeros_fold f2 Hf2). cbn [rbind].
  set (ans := rev (map alpha (digits 58 (value 256 b 0))) ++ repeat 49 (count_leading 0 b)).
  match goal with |- context [Go.foldM ?f _ ans] => set (f3 := f) end.
  assert (Hf3 : forall l i, f3 l i =
     do t5 <- Go.idx l (Z.of_nat (length ans) - 1 - i)%Z ;; do t6 <- Go.idx l i ;;
     do l1 <- Go.upd l i t5 ;; do l2 <- Go.upd l1 (Z.of_nat (length ans) - 1 - i)%Z t6 ;; Ok l2) by reflexivity.
  assert (Hq : Z.to_nat (Z.quot (Z.of_nat (length ans)) 2) = (length ans / 2)%nat).
  { rewrite Z.quot_div_nonneg by lia. change 2%Z with (Z.of_nat 2). rewrite <- Nat2Z.inj_div. apply Nat2Z.id. }
  rewrite Hq.
  pose proof (reverse_loop f3 (Z.of_nat (length ans)) Hf3 (length ans / 2)%nat [] ans [] eq_refl eq_refl) as HR.
  cbn [length app] in HR. rewrite app_nil_r in HR. change (Z.of_nat 0) with 0%Z in HR.
  rewrite HR by (f_equal; lia). cbn [rbind]. rewrite app_nil_r.
  unfold ans, Base58.encode. rewrite rev_app_distr, rev_involutive, rev_repeat', tie_idx0. reflexivity.
Qed.
Print Assumptions base58_Encode_tie.

(* ---------- how much fuel Encode needs: two iterations per input byte suffice ---------- *)
Lemma digits_len_bound k : forall n, n < 58 ^ N.of_nat k -> (length (digits 58 n) <= k)%nat.
Proof.
  induction k as [|k IH]; intros n Hn.
  - cbn in Hn. replace n with 0 by lia. cbn. lia.
  - destruct (N.eq_dec n 0) as [->|Hne]; [cbn; lia|].
    rewrite digits_length_step by assumption.
    assert (n / 58 < 58 ^ N.of_nat k).
    { rewrite Nat2N.inj_succ, N.pow_succ_r' in Hn. apply N.div_lt_upper_bound; lia. }
    specialize (IH _ H). lia.
Qed.

Lemma value256_bound b : Bytes b -> value 256 b 0 < 256 ^ N.of_nat (length b).
Proof.
  induction b as [|x b IH] using rev_ind; intros Hb; [cbn; lia|].
  apply Forall_app in Hb. destruct Hb as [Hb Hx]. inversion Hx; subst.
  rewrite value_app, app_length. cbn [value length]. specialize (IH Hb).
  replace (N.of_nat (length b + 1)) with (N.succ (N.of_nat (length b))) by lia.
  rewrite N.pow_succ_r'. lia.
Qed.

Lemma encode_fuel_bound b : Bytes b -> (length (digits 58 (value 256 b 0)) <= 2 * length b)%nat.
Proof.
  intros Hb. apply digits_len_bound. pose proof (value256_bound b Hb) as H.
  eapply N.lt_le_trans; [exact H|].
  replace (N.of_nat (2 * length b)) with (2 * N.of_nat (length b)) by lia.
  rewrite N.pow_mul_r. apply N.pow_le_mono_l. cbn. lia.
Qed.

Corollary base58_Encode_tie_len b fuel :
  Bytes b -> (2 * length b <= fuel)%nat -> Kernels4.base58_Encode_ fuel b = Ok (Base58.encode b).
Proof. intros Hb Hf. apply base58_Encode_tie; [assumption|]. pose proof (encode_fuel_bound b Hb). lia. Qed.
Print Assumptions base58_Encode_tie_len.

(* one iteration too few: the translation runs out of fuel (so the bound of base58_Encode_tie is sharp) *)
Example base58_Encode_fuel_sharp : Kernels4.base58_Encode_ 1 [255; 255] = Panic 9 /\
  Kernels4.base58_Encode_ 3 [255; 255] = Ok (Base58.encode [255; 255]).
Proof. split; vm_compute; reflexivity. Qed.

(* ---------- the base58check / WIF layer over the generated Encode / Decode ----------
   Gen/Kernels3.v takes base58.Encode / Decode as Section variables of type list N -> list N.  They are
   instantiated here by the generated functions (with their fuel; a run that fails would give []): nothing
   abstract remains between base58check / WIF and the big-integer code. *)
Definition encode4 (fuel : nat) (b : list N) : list N :=
  match Kernels4.base58_Encode_ fuel b with Ok s => s | _ => [] end.
Definition decode4 (fuel : nat) (s : list N) : list N :=
  match Kernels4.base58_Decode_ fuel s with Ok r => r | _ => [] end.

Lemma encode4_eq fuel b : Bytes b -> (2 * length b <= fuel)%nat -> encode4 fuel b = Base58.encode b.
Proof. intros Hb Hf. unfold encode4. rewrite base58_Encode_tie_len by assumption. reflexivity. Qed.
Lemma decode4_eq fuel s : Bytes s -> (length s < fuel)%nat -> decode4 fuel s = Base58.decode s.
Proof. intros Hb Hf. unfold decode4. rewrite base58_Decode_tie by assumption. reflexivity. Qed.

Theorem CheckEncode_tie4 input version fuel :
  Bytes input -> version < 256 -> (2 * (length input + 5) <= fuel)%nat ->
  Kernels3.CheckEncode sha256 (encode4 fuel) input version = Ok (check_encode input version).
Proof.
  intros Hb Hv Hf. rewrite <- CheckEncode_tie.
  unfold Kernels3.CheckEncode. cbn [app]. rewrite checksum_tie. cbn [rbind].
  rewrite encode4_eq; [reflexivity| |].
  - constructor; [assumption|]. apply Forall_app. split; [assumption|].
    unfold Base58.checksum, sha256d.
    pose proof (sha256_bytes (sha256 (version :: input))) as Hs.
    rewrite <- (firstn_skipn 4 (sha256 (sha256 (version :: input)))) in Hs.
    apply Forall_app in Hs. exact (proj1 Hs).
  - cbn [length]. rewrite app_length, checksum_length. lia.
Qed.
Print Assumptions CheckEncode_tie4.

Theorem CheckDecode_tie4 s fuel :
  Bytes s -> (length s < fuel)%nat ->
  Kernels3.CheckDecode sha256 (decode4 fuel) s = check_decode_view (check_decode s).
Proof.
  intros Hb Hf. rewrite <- CheckDecode_tie. unfold Kernels3.CheckDecode.
  rewrite decode4_eq by assumption. reflexivity.
Qed.
Print Assumptions CheckDecode_tie4.

Theorem DecodeWIF_tie4 (base_mult : N -> N * N) s fuel :
  Bytes s -> (length s < fuel)%nat ->
  Kernels3.DecodeWIF N unit (N * N) (decode4 fuel) sha256d tt (priv_from_bytes base_mult) s =
  decode_wif_view (decode_wif s).
Proof.
  intros Hb Hf. rewrite <- (DecodeWIF_tie base_mult). unfold gDecodeWIF, Kernels3.DecodeWIF.
  rewrite decode4_eq by assumption. reflexivity.
Qed.
Print Assumptions DecodeWIF_tie4.

(* Lemmas about the prelude of Gen/Kernels3.v (module Go3) and further lemmas about module Go, shared by
   the Tie/Kernels3_*.v files. *)
From BU Require Import Lib.Bytes Gen.Kernels2 Gen.Kernels3 Tie.Kernels2Lib.
From Coq Require Import ZifyBool ZifyN ZifyNat.

Lemma slice_suffix {A} (l : list A) (n : nat) :
  (n <= length l)%nat ->
  Go.slice l (Z.of_nat (length l) - Z.of_nat n)%Z (Z.of_nat (length l)) = Ok (skipn (length l - n) l).
Proof.
  intros H. replace (Z.of_nat (length l) - Z.of_nat n)%Z with (Z.of_nat (length l - n)) by lia.
  rewrite slice_nat by lia. f_equal.
  apply firstn_all2. rewrite skipn_length. lia.
Qed.

(* copy(dst[:], src) with as many source elements as the array has *)
Lemma copy_at_full {A} (dst src : list A) :
  length src = length dst -> Go.copy_at dst 0%Z src = Ok src.
Proof.
  intros H. unfold Go.copy_at.
  destruct (Z.ltb_spec 0 0); [lia|]. destruct (Z.ltb_spec (Z.of_nat (length dst)) 0); [lia|].
  cbn [orb Z.to_nat firstn app Nat.add]. rewrite Nat.sub_0_r, H, Nat.min_id.
  rewrite <- H, firstn_all. rewrite H, skipn_all. now rewrite app_nil_r.
Qed.

(* copy(dst[:], src) with a shorter source: zero-padded on the right when dst is zeroed *)
Lemma copy_at_0 {A} (dst src : list A) :
  Go.copy_at dst 0%Z src = Ok (firstn (length dst) src ++ skipn (length src) dst).
Proof.
  unfold Go.copy_at.
  destruct (Z.ltb_spec 0 0); [lia|]. destruct (Z.ltb_spec (Z.of_nat (length dst)) 0); [lia|].
  cbn [orb Z.to_nat firstn app Nat.add]. rewrite Nat.sub_0_r. f_equal.
  destruct (Nat.le_ge_cases (length dst) (length src)) as [Hle|Hge].
  - rewrite Nat.min_l by lia. rewrite !skipn_all2 by lia. reflexivity.
  - rewrite Nat.min_r by lia. now rewrite !firstn_all2 by lia.
Qed.

Lemma slice_full {A} (l : list A) : Go.slice l 0%Z (Z.of_nat (length l)) = Ok l.
Proof. rewrite slice_prefix by lia. now rewrite firstn_all. Qed.

Lemma deref_some {A} (a : A) : Go3.deref (Some a) = Ok a.
Proof. reflexivity. Qed.

Lemma prop_0 k : Go3.prop k 0 = 0.
Proof. reflexivity. Qed.

Lemma prop_sentinel k e : 1000 <= e -> Go3.prop k e = e.
Proof.
  intros H. unfold Go3.prop, Go3.sentinel_base.
  destruct (N.eqb_spec e 0); [lia|]. destruct (N.ltb_spec e 1000); [lia|]. reflexivity.
Qed.

Lemma prop_fresh k e : e <> 0 -> e < 1000 -> Go3.prop k e = k.
Proof.
  intros H0 H. unfold Go3.prop, Go3.sentinel_base.
  destruct (N.eqb_spec e 0); [lia|]. destruct (N.ltb_spec e 1000); [|lia]. reflexivity.
Qed.

(* Tie theorems for the small functions of Gen/Kernels4.v (gcs/builder, hdkeychain, merkleblock, bloom).

   AGAINST THE MODEL (hand-written Gallina of theories/Gcs, HD, Merkle, Bloom):
     WithKeyPM_tie, WithKey_tie, WithKeyHashPM_tie          Gcs/GcsBuilder.v  with_key_pm, with_key, with_key_hash_pm
                                                             (through Kernels3_GcsBuilder.brel and the ties of
                                                              WithKeyPNM / WithKeyHashPNM)
     WithRandomKeyPNM_tie, WithRandomKeyPM_tie,             Gcs/GcsBuilder.v  with_key_pnm / with_key_pm / with_key applied to
       WithRandomKey_tie                                      the 16 bytes copied out of the RNG buffer; the RNG error case
                                                              (a builder with only err set) has no counterpart in the model and
                                                              is stated on the generated record
     BuildBasicFilter_tie, BuildBasicFilter_model_tie,      Gcs/GcsBuilder.v  basic_filter_with_key, build_basic_filter,
       BuildMempoolFilter_tie, BuildMempoolFilter_model_tie   build_mempool_filter (through buildBasicFilterWithKey_tie)
     GetFilterHash_tie, MakeHeaderForFilter_tie             Gcs/GcsBuilder.v  filter_hash, filter_header
                                                              (buffer instance of Kernels3_GcsSer, DoubleHashH := sha256d)
     ExtendedKey_ECPubKey_tie, ExtendedKey_ECPrivKey_tie,   HD/HD.v  ec_pub, ec_priv, address (instance of Kernels3_HD)
       ExtendedKey_Address_tie
     GenerateSeed_model_tie                                 HD/HD.v  MinSeedBytes / MaxSeedBytes, the length check of new_master
     PartialBlock_GetMatches_tie, PartialBlock_GetItems_tie,
       PartialBlock_BadTree_tie                             Merkle/Merkle.v  x_matched, x_bad (through Kernels3_MerkleExtract.pb_gen)
     minUint32_tie                                          Bloom/Bloom.v  min_u32
     PartialBlock_accessors_extract_tie                     Merkle/Merkle.v  extract (the accessors after NewMerkleBlockFromMsg
                                                              and ExtractMatches: Kernels3_MerkleExtract.extract_tie restated)
     nil-pointer cases: BuildMempoolFilter_nil, GetFilterHash_nil, MakeHeaderForFilter_nil, ExtendedKey_Address_nil;
     GenerateSeed_new_master: a generated seed is never rejected by HD.new_master for its length

   AGAINST A SPECIFICATION WRITTEN IN THIS FILE (plain Gallina over the generated records and the same
   Section variables; the generated function is equal to it for ALL inputs and ALL instances of the variables):
     RandomKey_tie (random_key_spec), RandomKey_16_tie
     WithKeyPM_spec_tie, WithKey_spec_tie, WithKeyHashPM_spec_tie, WithRandomKeyPNM_spec_tie,
       WithRandomKeyPM_spec_tie, WithRandomKey_spec_tie       (equations between generated functions)
     BuildBasicFilter_spec_tie, BuildMempoolFilter_spec_tie
     GetFilterHash_spec_tie (filter_hash_spec), MakeHeaderForFilter_spec_tie (filter_header_spec)
     ExtendedKey_ECPubKey_spec_tie, ExtendedKey_ECPrivKey_spec_tie (ec_priv_spec), ExtendedKey_Address_spec_tie
     GenerateSeed_tie (generate_seed_spec)
     PartialBlock_GetMatches_proj_tie, PartialBlock_GetItems_proj_tie, PartialBlock_BadTree_proj_tie (projections)

   crypto/rand.Read is a Section variable of the translation: a FUNCTION of the buffer passed in,
   rand_Read buf = (n, err, buf').  RandomKey and GenerateSeed call it once, so no RNG state has to be
   threaded; the theorems hold for every such function (nothing is assumed of n, err, buf'; the clean
   corollaries assume that the buffer keeps its length, as io.ReadFull guarantees on success). *)
From BU Require Import Lib.Bytes Lib.PolyMod Lib.Sha256 Gen.Kernels2 Gen.Kernels3 Gen.Kernels4
  Gcs.SipHash Gcs.Gcs Gcs.GcsProofs Gcs.GcsTheorems Gcs.GcsBuilder Gcs.GcsBuilderProofs
  Tie.Kernels2Lib Tie.Kernels3Lib Tie.Kernels2_Gcs Tie.Kernels3_GcsSer Tie.Kernels3_GcsBuild
  Tie.Kernels3_GcsBuilder Tie.Kernels3_GcsBuilderBuild.
From BU Require HD.HD Merkle.Merkle Bloom.Bloom Tie.Kernels3_HD Tie.Kernels3_MerkleExtract.
From Coq Require Import Lia ZifyBool ZifyN ZifyNat Sorting.Permutation.
Local Open Scope N_scope.

(* ====================================================================== *)
(*                         small general lemmas                           *)
(* ====================================================================== *)
Lemma bind_ret {A} (r : res A) : (do t <- r ;; Ok t) = r.
Proof. destruct r; reflexivity. Qed.

Lemma prop_idem k e : Go3.prop k (Go3.prop k e) = Go3.prop k e.
Proof.
  unfold Go3.prop, Go3.sentinel_base.
  destruct (N.eqb_spec e 0) as [E0|E0]; [reflexivity|].
  destruct (N.ltb_spec e 1000) as [Hlt|Hge].
  - destruct (N.eqb_spec k 0) as [Ek|Ek]; [symmetry; exact Ek|].
    destruct (N.ltb_spec k 1000); reflexivity.
  - destruct (N.eqb_spec e 0) as [E1|_]; [contradiction|].
    destruct (N.ltb_spec e 1000) as [Hlt|_]; [lia|reflexivity].
Qed.

Lemma prop_eq0 k e : k <> 0 -> (Go3.prop k e =? 0) = (e =? 0).
Proof.
  intros Hk. unfold Go3.prop, Go3.sentinel_base.
  destruct (N.eqb_spec e 0) as [E0|E0]; [reflexivity|].
  destruct (N.ltb_spec e 1000) as [Hlt|Hge].
  - apply N.eqb_neq. exact Hk.
  - apply N.eqb_neq. exact E0.
Qed.

(* ====================================================================== *)
(*                       gcs/builder: RandomKey                           *)
(* ====================================================================== *)
(* specification: the buffer of 16 zero bytes goes to the RNG; on error the zero key and the error passed on
   at site 1; otherwise copy(key[:], randKey) = GcsBuilder.copy_key (the first 16 bytes, zero filled) *)
Definition random_key_spec (rand_Read : list N -> Z * N * list N) : res (list N * N) :=
  let '(_, err, buf') := rand_Read (repeat 0 16) in
  if err =? 0 then Ok (copy_key buf', 0) else Ok (repeat 0 16, Go3.prop 1 err).

Theorem RandomKey_tie rand_Read : Kernels4.RandomKey rand_Read = random_key_spec rand_Read.
Proof.
  unfold Kernels4.RandomKey, random_key_spec.
  destruct (rand_Read (repeat 0 16)) as [[cnt err] buf'].
  destruct (err =? 0); cbn [negb]; [|reflexivity].
  rewrite copy_key_eq. reflexivity.
Qed.
Print Assumptions RandomKey_tie.

(* the clean form: an RNG that keeps the length of its buffer *)
Corollary RandomKey_16_tie rand_Read cnt err buf' :
  rand_Read (repeat 0 16) = (cnt, err, buf') -> length buf' = 16%nat ->
  Kernels4.RandomKey rand_Read = if err =? 0 then Ok (buf', 0) else Ok (repeat 0 16, Go3.prop 1 err).
Proof.
  intros Hr Hlen. rewrite RandomKey_tie. unfold random_key_spec. rewrite Hr.
  destruct (err =? 0); [|reflexivity]. rewrite copy_key_16 by exact Hlen. reflexivity.
Qed.
Print Assumptions RandomKey_16_tie.

(* ====================================================================== *)
(*            gcs/builder: WithKeyPM, WithKey, WithKeyHashPM              *)
(* ====================================================================== *)
Theorem WithKeyPM_spec_tie key p m : Kernels4.WithKeyPM key p m = Kernels3.WithKeyPNM key p 0 m.
Proof. unfold Kernels4.WithKeyPM. apply bind_ret. Qed.
Print Assumptions WithKeyPM_spec_tie.

(* DefaultP = 19, DefaultM = 784931 (builder.go) *)
Theorem WithKey_spec_tie key : Kernels4.WithKey key = Kernels3.WithKeyPNM key 19 0 784931.
Proof. unfold Kernels4.WithKey. apply bind_ret. Qed.
Print Assumptions WithKey_spec_tie.

Theorem WithKeyHashPM_spec_tie (CB : option (list N) -> list N) kh p m :
  Kernels4.WithKeyHashPM CB kh p m = Kernels3.WithKeyHashPNM CB kh p 0 m.
Proof. unfold Kernels4.WithKeyHashPM. apply bind_ret. Qed.
Print Assumptions WithKeyHashPM_spec_tie.

(* against the model; key is a [16]byte *)
Theorem WithKeyPM_tie key p m : length key = 16%nat ->
  exists g', Kernels4.WithKeyPM key p m = Ok (Some g') /\ brel g' (with_key_pm key p m).
Proof.
  intros Hk. rewrite WithKeyPM_spec_tie. unfold with_key_pm. apply WithKeyPNM_tie. exact Hk.
Qed.
Print Assumptions WithKeyPM_tie.

Theorem WithKey_tie key : length key = 16%nat ->
  exists g', Kernels4.WithKey key = Ok (Some g') /\ brel g' (with_key key).
Proof.
  intros Hk. rewrite WithKey_spec_tie. unfold with_key.
  change default_p with 19. change default_m with 784931. apply WithKeyPNM_tie. exact Hk.
Qed.
Print Assumptions WithKey_tie.

Theorem WithKeyHashPM_tie (CB : option (list N) -> list N) kh p m : kh <> None ->
  exists g', Kernels4.WithKeyHashPM CB kh p m = Ok (Some g') /\ brel g' (with_key_hash_pm (CB kh) p m).
Proof. intro Hkh. rewrite WithKeyHashPM_spec_tie. unfold with_key_hash_pm. apply WithKeyHashPNM_tie. exact Hkh. Qed.
Print Assumptions WithKeyHashPM_tie.

(* ====================================================================== *)
(*     gcs/builder: WithRandomKeyPNM, WithRandomKeyPM, WithRandomKey      *)
(* ====================================================================== *)
(* the builder returned when the RNG fails: GCSBuilder{err: err} *)
Definition err_builder (e : N) : G := Kernels3.mk_builder_GCSBuilder 0 0 (repeat 0 16) None e.

Definition with_random_key_spec (rand_Read : list N -> Z * N * list N) (p n m : N) : res (option G) :=
  let '(_, err, buf') := rand_Read (repeat 0 16) in
  if err =? 0 then Kernels3.WithKeyPNM (copy_key buf') p n m else Ok (Some (err_builder (Go3.prop 1 err))).

Theorem WithRandomKeyPNM_spec_tie rand_Read p n m :
  Kernels4.WithRandomKeyPNM rand_Read p n m = with_random_key_spec rand_Read p n m.
Proof.
  unfold Kernels4.WithRandomKeyPNM, with_random_key_spec. rewrite RandomKey_tie. unfold random_key_spec.
  destruct (rand_Read (repeat 0 16)) as [[cnt err] buf'].
  destruct (err =? 0) eqn:E; cbn [rbind].
  - change (negb (0 =? 0)) with false. cbv iota. apply bind_ret.
  - rewrite prop_eq0 by discriminate. rewrite E. reflexivity.
Qed.
Print Assumptions WithRandomKeyPNM_spec_tie.

Theorem WithRandomKeyPM_spec_tie rand_Read p m :
  Kernels4.WithRandomKeyPM rand_Read p m = with_random_key_spec rand_Read p 0 m.
Proof. unfold Kernels4.WithRandomKeyPM. rewrite bind_ret. apply WithRandomKeyPNM_spec_tie. Qed.
Print Assumptions WithRandomKeyPM_spec_tie.

Theorem WithRandomKey_spec_tie rand_Read :
  Kernels4.WithRandomKey rand_Read = with_random_key_spec rand_Read 19 0 784931.
Proof. unfold Kernels4.WithRandomKey. rewrite bind_ret. apply WithRandomKeyPNM_spec_tie. Qed.
Print Assumptions WithRandomKey_spec_tie.

(* against the model: the RNG succeeded -> the model's builder for the copied key; it failed -> err_builder *)
Definition random_builder_ok (r : res (option G)) (err : N) (b : builder) : Prop :=
  (err = 0 -> exists g', r = Ok (Some g') /\ brel g' b) /\
  (err <> 0 -> r = Ok (Some (err_builder (Go3.prop 1 err)))).

Lemma with_random_key_model rand_Read p n m cnt err buf' :
  rand_Read (repeat 0 16) = (cnt, err, buf') ->
  random_builder_ok (with_random_key_spec rand_Read p n m) err (with_key_pnm (copy_key buf') p n m).
Proof.
  intros Hr. unfold with_random_key_spec, random_builder_ok. rewrite Hr. split.
  - intros ->. change (0 =? 0) with true. cbv iota. apply WithKeyPNM_tie. apply copy_key_length.
  - intros Hne. destruct (N.eqb_spec err 0) as [E|_]; [contradiction|reflexivity].
Qed.

Theorem WithRandomKeyPNM_tie rand_Read p n m cnt err buf' :
  rand_Read (repeat 0 16) = (cnt, err, buf') ->
  random_builder_ok (Kernels4.WithRandomKeyPNM rand_Read p n m) err (with_key_pnm (copy_key buf') p n m).
Proof. intros Hr. rewrite WithRandomKeyPNM_spec_tie. now apply with_random_key_model with (cnt := cnt). Qed.
Print Assumptions WithRandomKeyPNM_tie.

Theorem WithRandomKeyPM_tie rand_Read p m cnt err buf' :
  rand_Read (repeat 0 16) = (cnt, err, buf') ->
  random_builder_ok (Kernels4.WithRandomKeyPM rand_Read p m) err (with_key_pm (copy_key buf') p m).
Proof.
  intros Hr. rewrite WithRandomKeyPM_spec_tie. unfold with_key_pm.
  now apply with_random_key_model with (cnt := cnt).
Qed.
Print Assumptions WithRandomKeyPM_tie.

Theorem WithRandomKey_tie rand_Read cnt err buf' :
  rand_Read (repeat 0 16) = (cnt, err, buf') ->
  random_builder_ok (Kernels4.WithRandomKey rand_Read) err (with_key (copy_key buf')).
Proof.
  intros Hr. rewrite WithRandomKey_spec_tie. unfold with_key.
  change default_p with 19. change default_m with 784931.
  now apply with_random_key_model with (cnt := cnt).
Qed.
Print Assumptions WithRandomKey_tie.

(* ====================================================================== *)
(*          gcs/builder: BuildBasicFilter, BuildMempoolFilter             *)
(* ====================================================================== *)
(* the errors of the model's block filter are the two package-level errors of gcs: passing them on keeps them *)
Lemma basic_filter_errs hash sort txs kh e :
  basic_filter_with_key hash sort txs kh = Err e -> e = 1 \/ e = 2.
Proof. rewrite builder_content. apply build_errs. Qed.

Lemma build_view_prop (r : res filter) : (forall e, r = Err e -> e = 1 \/ e = 2) ->
  (do (t1_, t2_) <- build_view r ;; Ok (t1_, Go3.prop 1 t2_)) = build_view r.
Proof.
  intros He. destruct r as [f|e|k]; try reflexivity.
  destruct (He e eq_refl) as [-> | ->]; reflexivity.
Qed.

Section BasicSpec.
  Variables BlockHeader_t TokenData_t BStream_t Buffer_t : Type.
  Variable bstream_NewBStreamWriter : N -> BStream_t.
  Variable siphash_Sum64 : list N -> option (list N) -> N.
  Variable sort_Slice : forall A : Type, (A -> A -> bool) -> list A -> list A.
  Variable BStream_WriteBit : BStream_t -> bool -> BStream_t.
  Variable BStream_WriteBits : BStream_t -> N -> Z -> BStream_t.
  Variable BStream_Bytes : BStream_t -> list N.
  Variable Buffer_Bytes : Buffer_t -> list N.
  Variable Buffer_nil : Buffer_t.
  Variable chainhash_Hash_CloneBytes : option (list N) -> list N.
  Variable map_order : forall K V : Type, list (K * V) -> list (K * V).
  Variable wire_OutPoint_Serialize : Kernels3.wire_OutPoint -> Buffer_t -> N * Buffer_t.
  Variable wire_MsgBlock_BlockHash : option (Kernels3.wire_MsgBlock BlockHeader_t TokenData_t) -> list N.
  Variable BlockHeader_of : BlockHeader_t.
  Variable wire_NewMsgBlock : BlockHeader_t -> option (Kernels3.wire_MsgBlock BlockHeader_t TokenData_t).

  Local Notation withKey := (Kernels3.buildBasicFilterWithKey BlockHeader_t TokenData_t BStream_t Buffer_t
    bstream_NewBStreamWriter siphash_Sum64 sort_Slice BStream_WriteBit BStream_WriteBits BStream_Bytes Buffer_Bytes
    Buffer_nil chainhash_Hash_CloneBytes map_order wire_OutPoint_Serialize).

  (* the key is block.BlockHash(); the error is passed on at site 1 *)
  Theorem BuildBasicFilter_spec_tie fuel block :
    Kernels4.BuildBasicFilter BlockHeader_t TokenData_t BStream_t Buffer_t bstream_NewBStreamWriter siphash_Sum64
      sort_Slice BStream_WriteBit BStream_WriteBits BStream_Bytes Buffer_Bytes Buffer_nil chainhash_Hash_CloneBytes
      map_order wire_OutPoint_Serialize wire_MsgBlock_BlockHash fuel block
    = (do _ <- Go3.deref block ;;   (* (phase 5) block.BlockHash() on a nil block: Panic 5 *)
       do (f, e) <- withKey fuel block (wire_MsgBlock_BlockHash block) ;; Ok (f, Go3.prop 1 e)).
  Proof using. reflexivity. Qed.

  (* the empty transaction in front of txs, put into the block wire.NewMsgBlock(&wire.BlockHeader{}) returns
     (a nil pointer there: Panic 5); the key is the zero hash *)
  Theorem BuildMempoolFilter_spec_tie fuel txs :
    Kernels4.BuildMempoolFilter BlockHeader_t TokenData_t BStream_t Buffer_t bstream_NewBStreamWriter siphash_Sum64
      sort_Slice BStream_WriteBit BStream_WriteBits BStream_Bytes Buffer_Bytes Buffer_nil chainhash_Hash_CloneBytes
      map_order wire_OutPoint_Serialize BlockHeader_of wire_NewMsgBlock fuel txs
    = match wire_NewMsgBlock BlockHeader_of with
      | None => Panic 5
      | Some mb =>
          do (f, e) <- withKey fuel
            (Some (Kernels3.mk_wire_MsgBlock BlockHeader_t TokenData_t (Kernels3.wire_MsgBlock_Header _ _ mb)
                     (Some (Kernels3.mk_wire_MsgTx TokenData_t 0%Z [] [] 0) :: txs)))
            (repeat 0 32) ;;
          Ok (f, Go3.prop 1 e)
      end.
  Proof using. unfold Kernels4.BuildMempoolFilter. destruct (wire_NewMsgBlock BlockHeader_of); reflexivity. Qed.
End BasicSpec.
Print Assumptions BuildBasicFilter_spec_tie.
Print Assumptions BuildMempoolFilter_spec_tie.

(* against the model: the instance of Kernels3_GcsBuilderBuild (bit-list writer, bytes.Buffer = byte list) *)
Section BasicModel.
  Variables BlockHeader_t TokenData_t : Type.
  Variable H : list N -> option (list N) -> N.
  Variable srt : forall A : Type, (A -> A -> bool) -> list A -> list A.
  Variable map_order : forall K V : Type, list (K * V) -> list (K * V).
  Variable CB : option (list N) -> list N.
  Variable OS : Kernels3.wire_OutPoint -> list N -> N * list N.
  Variable BlockHash : option (Kernels3.wire_MsgBlock BlockHeader_t TokenData_t) -> list N.
  Variable hdr0 : BlockHeader_t.
  Variable new_block : BlockHeader_t -> option (Kernels3.wire_MsgBlock BlockHeader_t TokenData_t).
  Hypothesis MO : forall K V (l : list (K * V)), Permutation (map_order K V l) l.
  Hypothesis Hsort : sort_ok (sort_of srt).
  Hypothesis OS_spec : forall op, OS op [] = (0, ser_outpoint (abs_op op)).

  Definition gBuildBasic :=
    Kernels4.BuildBasicFilter BlockHeader_t TokenData_t (list bool) (list N) (fun _ => []) H srt
      wr_bit wr_bits pack (fun b => b) [] CB map_order OS BlockHash.
  Definition gBuildMempool :=
    Kernels4.BuildMempoolFilter BlockHeader_t TokenData_t (list bool) (list N) (fun _ => []) H srt
      wr_bit wr_bits pack (fun b => b) [] CB map_order OS hdr0 new_block.

  Theorem BuildBasicFilter_tie fuel blk txs :
    block_rel BlockHeader_t TokenData_t blk txs ->
    N.of_nat (length (basic_entries txs)) < two64 ->
    quots_fit fuel default_p 0
      (build_values (hash_of H) (sort_of srt) default_m (derive_key (CB (Some (BlockHash blk)))) (basic_entries txs)) ->
    gBuildBasic fuel blk
    = build_view (basic_filter_with_key (hash_of H) (sort_of srt) txs (CB (Some (BlockHash blk)))).
  Proof using MO Hsort OS_spec.
    clear hdr0 new_block.
    intros Hrel Hlen Hfit. unfold gBuildBasic. rewrite BuildBasicFilter_spec_tie.
    pose proof (buildBasicFilterWithKey_tie BlockHeader_t TokenData_t H srt map_order CB OS MO Hsort OS_spec
                  fuel blk (BlockHash blk) txs Hrel Hlen Hfit) as Ht.
    unfold gBasic in Ht.
    destruct Hrel as (mb & Emb & Hrel'). rewrite Emb at 1. cbn [Go3.deref rbind]. rewrite Ht.
    apply build_view_prop. intros e. apply basic_filter_errs.
  Qed.

  (* the model's BuildBasicFilter: the key is the double SHA-256 of the 80 header bytes *)
  Corollary BuildBasicFilter_model_tie fuel blk txs header :
    CB (Some (BlockHash blk)) = sha256d header ->
    block_rel BlockHeader_t TokenData_t blk txs ->
    N.of_nat (length (basic_entries txs)) < two64 ->
    quots_fit fuel default_p 0
      (build_values (hash_of H) (sort_of srt) default_m (derive_key (sha256d header)) (basic_entries txs)) ->
    gBuildBasic fuel blk = build_view (build_basic_filter (hash_of H) (sort_of srt) header txs).
  Proof using MO Hsort OS_spec.
    clear hdr0 new_block.
    intros Hk Hrel Hlen Hfit. unfold build_basic_filter. rewrite <- Hk in *.
    apply BuildBasicFilter_tie; assumption.
  Qed.

  Lemma empty_tx_rel : tx_rel TokenData_t (Some (Kernels3.mk_wire_MsgTx TokenData_t 0%Z [] [] 0)) (mkTx [] []).
  Proof using. exists (Kernels3.mk_wire_MsgTx TokenData_t 0%Z [] [] 0), [], []. repeat split; reflexivity. Qed.

  Theorem BuildMempoolFilter_tie fuel gtxs txs mb0 :
    new_block hdr0 = Some mb0 ->
    Forall2 (tx_rel TokenData_t) gtxs txs ->
    N.of_nat (length (basic_entries (mkTx [] [] :: txs))) < two64 ->
    quots_fit fuel default_p 0
      (build_values (hash_of H) (sort_of srt) default_m (derive_key (CB (Some (repeat 0 32))))
         (basic_entries (mkTx [] [] :: txs))) ->
    gBuildMempool fuel gtxs
    = build_view (basic_filter_with_key (hash_of H) (sort_of srt) (mkTx [] [] :: txs) (CB (Some (repeat 0 32)))).
  Proof using MO Hsort OS_spec.
    clear BlockHash.
    intros Hnb Hrel Hlen Hfit. unfold gBuildMempool. rewrite BuildMempoolFilter_spec_tie. rewrite Hnb.
    match goal with |- context [Kernels3.buildBasicFilterWithKey _ _ _ _ _ _ _ _ _ _ _ _ _ _ _ _ ?b _] =>
      assert (Hb : block_rel BlockHeader_t TokenData_t b (mkTx [] [] :: txs)) end.
    { eexists. split; [reflexivity|]. cbn [Kernels3.wire_MsgBlock_Transactions].
      constructor; [apply empty_tx_rel|exact Hrel]. }
    pose proof (buildBasicFilterWithKey_tie BlockHeader_t TokenData_t H srt map_order CB OS MO Hsort OS_spec
                  fuel _ (repeat 0 32) _ Hb Hlen Hfit) as Ht.
    unfold gBasic in Ht.
    rewrite Ht.
    apply build_view_prop. intros e. apply basic_filter_errs.
  Qed.

  (* the model's BuildMempoolFilter (CloneBytes of the zero hash is the zero hash) *)
  Corollary BuildMempoolFilter_model_tie fuel gtxs txs mb0 :
    CB (Some (repeat 0 32)) = repeat 0 32 ->
    new_block hdr0 = Some mb0 ->
    Forall2 (tx_rel TokenData_t) gtxs txs ->
    N.of_nat (length (basic_entries (mkTx [] [] :: txs))) < two64 ->
    quots_fit fuel default_p 0
      (build_values (hash_of H) (sort_of srt) default_m (derive_key (repeat 0 32)) (basic_entries (mkTx [] [] :: txs))) ->
    gBuildMempool fuel gtxs = build_view (build_mempool_filter (hash_of H) (sort_of srt) txs).
  Proof using MO Hsort OS_spec.
    clear BlockHash.
    intros Hk Hnb Hrel Hlen Hfit. unfold build_mempool_filter. rewrite <- Hk in *.
    eapply BuildMempoolFilter_tie; eassumption.
  Qed.

  Theorem BuildMempoolFilter_nil fuel gtxs : new_block hdr0 = None -> gBuildMempool fuel gtxs = Panic 5.
  Proof using.
    clear MO Hsort OS_spec BlockHash.
    intros Hnb. unfold gBuildMempool. rewrite BuildMempoolFilter_spec_tie, Hnb. reflexivity.
  Qed.
End BasicModel.
Print Assumptions BuildBasicFilter_tie.
Print Assumptions BuildBasicFilter_model_tie.
Print Assumptions BuildMempoolFilter_tie.
Print Assumptions BuildMempoolFilter_model_tie.
Print Assumptions BuildMempoolFilter_nil.

(* ====================================================================== *)
(*          gcs/builder: GetFilterHash, MakeHeaderForFilter               *)
(* ====================================================================== *)
(* copy(dst[len(a):], src) where dst = a ++ b and src fills b *)
Lemma copy_at_app {A} (a b src : list A) : length src = length b ->
  Go.copy_at (a ++ b) (Z.of_nat (length a)) src = Ok (a ++ src).
Proof.
  intros Hl. unfold Go.copy_at. rewrite app_length.
  destruct (Z.ltb_spec (Z.of_nat (length a)) 0) as [Hneg|_]; [lia|].
  destruct (Z.ltb_spec (Z.of_nat (length a + length b)) (Z.of_nat (length a))) as [Hbig|_]; [lia|].
  cbn [orb]. rewrite Nat2Z.id.
  replace (length a + length b - length a)%nat with (length b) by lia.
  rewrite <- Hl, Nat.min_id. f_equal.
  rewrite firstn_app, Nat.sub_diag, firstn_all. cbn [firstn]. rewrite app_nil_r. f_equal.
  rewrite firstn_all. rewrite skipn_all2 by (rewrite app_length; lia). now rewrite app_nil_r.
Qed.

Section FilterHashSpec.
  Variable Buffer_t : Type.
  Variable Buffer_Bytes : Buffer_t -> list N.
  Variable Buffer_nil : Buffer_t.
  Variable wire_VarIntSerializeSize : N -> Z.
  Variable Buffer_Grow : Buffer_t -> Z -> Buffer_t.
  Variable wire_WriteVarInt : Buffer_t -> N -> N -> N * Buffer_t.
  Variable Buffer_Write : Buffer_t -> list N -> Z * N * Buffer_t.
  Variable chainhash_DoubleHashH : list N -> list N.

  Local Notation NBytes := (Kernels3.gcs_Filter_NBytes Buffer_t Buffer_Bytes Buffer_nil wire_VarIntSerializeSize
    Buffer_Grow wire_WriteVarInt Buffer_Write).

  (* DoubleHashH of filter.NBytes(); the error of NBytes passed on at site 1 next to the zero hash; a nil filter panics *)
  Definition filter_hash_spec (filter : option Kernels3.gcs_Filter) : res (list N * N) :=
    match filter with
    | None => Panic 5
    | Some f => do (d, err) <- NBytes f ;;   (* (phase 5) NBytes can panic: Buffer.Grow with a negative count *)
                if err =? 0 then Ok (chainhash_DoubleHashH d, 0) else Ok (repeat 0 32, Go3.prop 1 err)
    end.

  Theorem GetFilterHash_spec_tie filter :
    Kernels4.GetFilterHash Buffer_t Buffer_Bytes Buffer_nil wire_VarIntSerializeSize Buffer_Grow wire_WriteVarInt
      Buffer_Write chainhash_DoubleHashH filter = filter_hash_spec filter.
  Proof using.
    unfold Kernels4.GetFilterHash, filter_hash_spec. destruct filter as [f|]; [|reflexivity].
    cbn [Go3.deref rbind]. destruct (NBytes f) as [[d err]|e|k]; [|reflexivity|reflexivity]. cbn [rbind]. destruct (err =? 0); reflexivity.
  Qed.

  (* DoubleHashH of filterHash ++ prevHeader; the same error behaviour *)
  Definition filter_header_spec (filter : option Kernels3.gcs_Filter) (prev : list N) : res (list N * N) :=
    match filter with
    | None => Panic 5
    | Some f => do (d, err) <- NBytes f ;;
                if err =? 0 then Ok (chainhash_DoubleHashH (chainhash_DoubleHashH d ++ prev), 0)
                else Ok (repeat 0 32, Go3.prop 1 err)
    end.

  (* domain: chainhash.Hash is a [32]byte (the result of DoubleHashH and prevHeader) *)
  Theorem MakeHeaderForFilter_spec_tie filter prev :
    (forall x, length (chainhash_DoubleHashH x) = 32%nat) -> length prev = 32%nat ->
    Kernels4.MakeHeaderForFilter Buffer_t Buffer_Bytes Buffer_nil wire_VarIntSerializeSize Buffer_Grow wire_WriteVarInt
      Buffer_Write chainhash_DoubleHashH filter prev = filter_header_spec filter prev.
  Proof using.
    intros Hdh Hprev. unfold Kernels4.MakeHeaderForFilter. rewrite GetFilterHash_spec_tie.
    unfold filter_hash_spec, filter_header_spec. destruct filter as [f|]; [|reflexivity].
    destruct (NBytes f) as [[d err]|e|k]; [|reflexivity|reflexivity]. cbn [rbind]. destruct (err =? 0) eqn:E; cbn [rbind].
    - change (negb (0 =? 0)) with false. cbv iota.
      rewrite copy_at_0, repeat_length, Hdh.
      rewrite firstn_all2 by (rewrite Hdh; lia).
      rewrite GcsMatchProofs.skipn_repeat. change (64 - 32)%nat with 32%nat. cbn [rbind].
      replace 32%Z with (Z.of_nat (length (chainhash_DoubleHashH d))) by (rewrite Hdh; reflexivity).
      rewrite copy_at_app by (rewrite repeat_length; exact Hprev). reflexivity.
    - rewrite prop_eq0 by discriminate. rewrite E. cbn [negb]. rewrite prop_idem. reflexivity.
  Qed.
End FilterHashSpec.
Print Assumptions GetFilterHash_spec_tie.
Print Assumptions MakeHeaderForFilter_spec_tie.

(* against the model: the bytes.Buffer / wire instance of Kernels3_GcsSer, DoubleHashH := sha256d *)
Definition gGetFilterHash (varint_size : N -> Z) :=
  Kernels4.GetFilterHash (list N) buf_bytes [] varint_size buf_grow wire_write_varint buf_write sha256d.
Definition gMakeHeaderForFilter (varint_size : N -> Z) :=
  Kernels4.MakeHeaderForFilter (list N) buf_bytes [] varint_size buf_grow wire_write_varint buf_write sha256d.

Lemma sha256d_len x : length (sha256d x) = 32%nat.
Proof. apply sha256_length_32. Qed.

(* domain: n is a uint32 *)
Theorem GetFilterHash_tie varint_size f : (forall v, (0 <= varint_size v)%Z) -> f_n f < two64 ->
  gGetFilterHash varint_size (Some (to_gen f)) = Ok (filter_hash f, 0).
Proof.
  intros Hvs Hn. unfold gGetFilterHash. rewrite GetFilterHash_spec_tie. unfold filter_hash_spec.
  pose proof (NBytes_tie varint_size Hvs f Hn) as Hb. unfold gNBytes in Hb. rewrite Hb. reflexivity.
Qed.
Print Assumptions GetFilterHash_tie.

Theorem MakeHeaderForFilter_tie varint_size f prev : (forall v, (0 <= varint_size v)%Z) -> f_n f < two64 -> length prev = 32%nat ->
  gMakeHeaderForFilter varint_size (Some (to_gen f)) prev = Ok (filter_header f prev, 0).
Proof.
  intros Hvs Hn Hprev. unfold gMakeHeaderForFilter.
  rewrite MakeHeaderForFilter_spec_tie by (try exact Hprev; exact sha256d_len).
  unfold filter_header_spec.
  pose proof (NBytes_tie varint_size Hvs f Hn) as Hb. unfold gNBytes in Hb. rewrite Hb. reflexivity.
Qed.
Print Assumptions MakeHeaderForFilter_tie.

Theorem GetFilterHash_nil varint_size : gGetFilterHash varint_size None = Panic 5.
Proof. reflexivity. Qed.
Theorem MakeHeaderForFilter_nil varint_size prev : gMakeHeaderForFilter varint_size None prev = Panic 5.
Proof. reflexivity. Qed.
Print Assumptions GetFilterHash_nil.
Print Assumptions MakeHeaderForFilter_nil.

(* ====================================================================== *)
(*     hdkeychain: ECPubKey, ECPrivKey, Address (specifications)          *)
(* ====================================================================== *)
Section HDSpec.
  Variables PrivateKey_t KoblitzCurve_t PublicKey_t Int_t : Type.
  Variable bchec_S256 : KoblitzCurve_t.
  Variable bchec_PrivKeyFromBytes : KoblitzCurve_t -> list N -> PrivateKey_t * PublicKey_t.
  Variable PublicKey_SerializeCompressed : PublicKey_t -> list N.
  Variable bchec_ParsePubKey : list N -> KoblitzCurve_t -> PublicKey_t * N.
  Variable bchutil_Hash160 : list N -> list N.
  Variable KoblitzCurve_ScalarBaseMult : KoblitzCurve_t -> list N -> Int_t * Int_t.
  Variable PublicKey_of_X_Y : Int_t -> Int_t -> PublicKey_t.
  Variable PrivateKey_nil : PrivateKey_t.

  Local Notation pubKeyBytes := (Kernels3.ExtendedKey_pubKeyBytes KoblitzCurve_t PublicKey_t Int_t bchec_S256
    PublicKey_SerializeCompressed KoblitzCurve_ScalarBaseMult PublicKey_of_X_Y).

  (* bchec.ParsePubKey(k.pubKeyBytes(), bchec.S256()); the receiver is the one pubKeyBytes leaves *)
  Theorem ExtendedKey_ECPubKey_spec_tie k :
    Kernels4.ExtendedKey_ECPubKey KoblitzCurve_t PublicKey_t Int_t bchec_S256 PublicKey_SerializeCompressed
      bchec_ParsePubKey KoblitzCurve_ScalarBaseMult PublicKey_of_X_Y k
    = (fst (bchec_ParsePubKey (fst (pubKeyBytes k)) bchec_S256),
       Go3.prop 1 (snd (bchec_ParsePubKey (fst (pubKeyBytes k)) bchec_S256)),
       snd (pubKeyBytes k)).
  Proof using.
    unfold Kernels4.ExtendedKey_ECPubKey. destruct (pubKeyBytes k) as [b k']. cbn [fst snd].
    destruct (bchec_ParsePubKey b bchec_S256) as [P e]. reflexivity.
  Qed.

  (* not private: (nil, ErrNotPrivExtKey); else the first component of bchec.PrivKeyFromBytes(S256(), k.key) *)
  Definition ec_priv_spec (k : Kernels3.hdkeychain_ExtendedKey) : PrivateKey_t * N :=
    if Kernels3.hdkeychain_ExtendedKey_isPrivate k
    then (fst (bchec_PrivKeyFromBytes bchec_S256 (Kernels3.hdkeychain_ExtendedKey_key k)), 0)
    else (PrivateKey_nil, Kernels4.hdkeychain_ErrNotPrivExtKey).

  Theorem ExtendedKey_ECPrivKey_spec_tie k :
    Kernels4.ExtendedKey_ECPrivKey PrivateKey_t KoblitzCurve_t PublicKey_t bchec_S256 bchec_PrivKeyFromBytes
      PrivateKey_nil k = ec_priv_spec k.
  Proof using.
    unfold Kernels4.ExtendedKey_ECPrivKey, ec_priv_spec.
    destruct (Kernels3.hdkeychain_ExtendedKey_isPrivate k); cbn [negb]; [|reflexivity].
    destruct (bchec_PrivKeyFromBytes bchec_S256 _) as [sk pk]. reflexivity.
  Qed.

  (* newAddressPubKeyHash(Hash160(k.pubKeyBytes()), net); the error passed on (twice) at site 1 *)
  Theorem ExtendedKey_Address_spec_tie k net :
    Kernels4.ExtendedKey_Address KoblitzCurve_t PublicKey_t Int_t bchec_S256 PublicKey_SerializeCompressed
      bchutil_Hash160 KoblitzCurve_ScalarBaseMult PublicKey_of_X_Y k net
    = (do (a, e) <- Kernels3.newAddressPubKeyHash (bchutil_Hash160 (fst (pubKeyBytes k))) net ;;
       Ok (a, Go3.prop 1 e, snd (pubKeyBytes k))).
  Proof using.
    unfold Kernels4.ExtendedKey_Address, Kernels4.NewAddressPubKeyHash.
    destruct (pubKeyBytes k) as [b k']. cbn [fst snd].
    destruct (Kernels3.newAddressPubKeyHash (bchutil_Hash160 b) net) as [[a e]|e|c]; cbn [rbind]; try reflexivity.
    rewrite prop_idem. reflexivity.
  Qed.
End HDSpec.
Print Assumptions ExtendedKey_ECPubKey_spec_tie.
Print Assumptions ExtendedKey_ECPrivKey_spec_tie.
Print Assumptions ExtendedKey_Address_spec_tie.

(* ====================================================================== *)
(*   hdkeychain: ECPubKey, ECPrivKey, Address against the model HD/HD.v   *)
(* ====================================================================== *)
(* the instance of Kernels3_HD: KoblitzCurve_t := unit, PublicKey_t := point, Int_t := N + point,
   ParsePubKey := parse_pk (error value 1), SerializeCompressed := ser_point; in addition here
   PrivateKey_t := N (the scalar), PrivKeyFromBytes(c, b) := (SetBytes b, the point of that scalar), nil := 0 *)
Section HDModel.
  Import HD.HD Tie.Kernels3_HD.
  Variable point : Type.
  Variable point_of_scalar : Z -> point.
  Variable ser_point : point -> list N.
  Variable parse_point : list N -> res point.
  Variable hash160 : list N -> list N.

  Local Notation mpub := (pubkey_bytes point point_of_scalar ser_point).
  Local Notation memo_ok' := (memo_ok point point_of_scalar ser_point).
  Local Notation fill_memo' := (fill_memo point point_of_scalar ser_point).
  Local Notation gPub' := (gPub point point_of_scalar ser_point).

  Definition gECPubKey :=
    Kernels4.ExtendedKey_ECPubKey unit point (Int_t point) tt ser_point (parse_pk point point_of_scalar parse_point)
      (c_ScalarBaseMult point point_of_scalar) (pk_of_X_Y point point_of_scalar).
  Definition priv_from_bytes (_ : unit) (b : list N) : N * point :=
    (set_bytes b, point_of_scalar (scalar_of b)).
  Definition gECPrivKey := Kernels4.ExtendedKey_ECPrivKey N unit point tt priv_from_bytes 0.
  Definition gAddress :=
    Kernels4.ExtendedKey_Address unit point (Int_t point) tt ser_point hash160
      (c_ScalarBaseMult point point_of_scalar) (pk_of_X_Y point point_of_scalar).

  (* the model's results seen through the translation's conventions *)
  Definition ec_pub_view (r : res point) : point * N :=
    match r with Ok P => (P, 0) | _ => (point_of_scalar 0, 1) end.
  Definition ec_priv_view (r : res N) : N * N :=
    match r with Ok v => (v, 0) | _ => (0, Kernels4.hdkeychain_ErrNotPrivExtKey) end.
  Definition address_view (prefix : list N) (r : res (list N)) : option Kernels3.bchutil_AddressPubKeyHash * N :=
    match r with Ok h => (Some (Kernels3.mk_bchutil_AddressPubKeyHash h prefix), 0) | _ => (None, 1) end.

  (* domain: memo_ok k (Kernels3_HD); the receiver afterwards has its memo filled *)
  Theorem ExtendedKey_ECPubKey_tie k : memo_ok' k ->
    gECPubKey k = (ec_pub_view (ec_pub point point_of_scalar ser_point parse_point (abs k)), fill_memo' k).
  Proof using.
    clear hash160.
    intros Hm. unfold gECPubKey. rewrite ExtendedKey_ECPubKey_spec_tie.
    change (Kernels3.ExtendedKey_pubKeyBytes unit point (Int_t point) tt ser_point
              (c_ScalarBaseMult point point_of_scalar) (pk_of_X_Y point point_of_scalar) k) with (gPub' k).
    rewrite (pubKeyBytes_tie point point_of_scalar ser_point k Hm). cbn [fst snd].
    unfold parse_pk, ec_pub, ec_pub_view. destruct (parse_point (mpub (abs k))); reflexivity.
  Qed.

  Theorem ExtendedKey_ECPrivKey_tie k : gECPrivKey k = ec_priv_view (ec_priv (abs k)).
  Proof using.
    clear hash160 parse_point ser_point.
    unfold gECPrivKey. rewrite ExtendedKey_ECPrivKey_spec_tie.
    unfold ec_priv_spec, ec_priv, ec_priv_view, abs, priv_from_bytes. cbn [xk_priv xk_key fst].
    destruct (ek_priv k); reflexivity.
  Qed.

  (* a *chaincfg.Params that is not nil: the model's HASH160 (or its 20-byte error), the prefix of the network *)
  Theorem ExtendedKey_Address_tie k p : memo_ok' k ->
    gAddress k (Some p)
    = Ok (address_view (Kernels3.chaincfg_Params_CashAddressPrefix p)
            (address point point_of_scalar ser_point hash160 (abs k)), fill_memo' k).
  Proof using.
    clear parse_point.
    intros Hm. unfold gAddress. rewrite ExtendedKey_Address_spec_tie.
    change (Kernels3.ExtendedKey_pubKeyBytes unit point (Int_t point) tt ser_point
              (c_ScalarBaseMult point point_of_scalar) (pk_of_X_Y point point_of_scalar) k) with (gPub' k).
    rewrite (pubKeyBytes_tie point point_of_scalar ser_point k Hm). cbn [fst snd].
    unfold Kernels3.newAddressPubKeyHash, address, address_view.
    set (h := hash160 (mpub (abs k))).
    destruct (Nat.eqb_spec (length h) 20) as [Hl|Hl];
      destruct (Z.eqb_spec (Z.of_nat (length h)) 20) as [Hz|Hz]; try lia; cbn [negb]; [|reflexivity].
    cbn [Go3.deref rbind Kernels3.bchutil_AddressPubKeyHash_hash].
    rewrite copy_at_full by (rewrite repeat_length; exact Hl). reflexivity.
  Qed.

  (* a nil *chaincfg.Params is dereferenced only after the length check *)
  Theorem ExtendedKey_Address_nil k : memo_ok' k ->
    gAddress k None
    = match address point point_of_scalar ser_point hash160 (abs k) with
      | Ok _ => Panic 5
      | _ => Ok (None, 1, fill_memo' k)
      end.
  Proof using.
    clear parse_point.
    intros Hm. unfold gAddress. rewrite ExtendedKey_Address_spec_tie.
    change (Kernels3.ExtendedKey_pubKeyBytes unit point (Int_t point) tt ser_point
              (c_ScalarBaseMult point point_of_scalar) (pk_of_X_Y point point_of_scalar) k) with (gPub' k).
    rewrite (pubKeyBytes_tie point point_of_scalar ser_point k Hm). cbn [fst snd].
    unfold Kernels3.newAddressPubKeyHash, address.
    set (h := hash160 (mpub (abs k))).
    destruct (Nat.eqb_spec (length h) 20) as [Hl|Hl];
      destruct (Z.eqb_spec (Z.of_nat (length h)) 20) as [Hz|Hz]; try lia; reflexivity.
  Qed.
End HDModel.
Print Assumptions ExtendedKey_ECPubKey_tie.
Print Assumptions ExtendedKey_ECPrivKey_tie.
Print Assumptions ExtendedKey_Address_tie.
Print Assumptions ExtendedKey_Address_nil.

(* ====================================================================== *)
(*                      hdkeychain: GenerateSeed                          *)
(* ====================================================================== *)
(* length < 16 or length > 64: (nil, ErrInvalidSeedLen), the RNG is not called; otherwise the RNG receives
   `length` zero bytes: its buffer is returned, or nil and its error passed on at site 2 *)
Definition generate_seed_spec (rand_Read : list N -> Z * N * list N) (len : N) : list N * N :=
  if (len <? 16) || (64 <? len) then ([], Kernels3.hdkeychain_ErrInvalidSeedLen)
  else let '(_, err, buf') := rand_Read (repeat 0 (N.to_nat len)) in
       if err =? 0 then (buf', 0) else ([], Go3.prop 2 err).

Theorem GenerateSeed_tie rand_Read len : Kernels4.GenerateSeed rand_Read len = generate_seed_spec rand_Read len.
Proof.
  unfold Kernels4.GenerateSeed, generate_seed_spec.
  destruct ((len <? 16) || (64 <? len)); [reflexivity|].
  destruct (rand_Read (repeat 0 (N.to_nat len))) as [[cnt err] buf']. destruct (err =? 0); reflexivity.
Qed.
Print Assumptions GenerateSeed_tie.

(* against the model: the range test is the one of HD.new_master (MinSeedBytes, MaxSeedBytes), so a seed that
   GenerateSeed returns without error passes the seed-length check of NewMaster (RNG keeping the buffer length) *)
Theorem GenerateSeed_model_tie rand_Read len :
  ((len <? 16) || (64 <? len)) = ((N.to_nat len <? HD.MinSeedBytes)%nat || (HD.MaxSeedBytes <? N.to_nat len)%nat) /\
  forall seed, (forall buf, length (snd (rand_Read buf)) = length buf) ->
    Kernels4.GenerateSeed rand_Read len = (seed, 0) ->
    length seed = N.to_nat len /\
    ((length seed <? HD.MinSeedBytes)%nat || (HD.MaxSeedBytes <? length seed)%nat) = false.
Proof.
  change HD.MinSeedBytes with 16%nat. change HD.MaxSeedBytes with 64%nat.
  assert (Hchk : ((len <? 16) || (64 <? len)) = ((N.to_nat len <? 16)%nat || (64 <? N.to_nat len)%nat)).
  { destruct (N.ltb_spec len 16), (N.ltb_spec 64 len), (Nat.ltb_spec (N.to_nat len) 16),
      (Nat.ltb_spec 64 (N.to_nat len)); try reflexivity; lia. }
  split; [exact Hchk|].
  intros seed Hlen. rewrite GenerateSeed_tie. unfold generate_seed_spec. rewrite Hchk.
  destruct ((N.to_nat len <? 16)%nat || (64 <? N.to_nat len)%nat) eqn:Echk; [intros [= _ Hbad]; discriminate Hbad|].
  pose proof (Hlen (repeat 0 (N.to_nat len))) as Hl. rewrite repeat_length in Hl.
  destruct (rand_Read (repeat 0 (N.to_nat len))) as [[cnt err] buf']. cbn [snd] in Hl.
  destruct (err =? 0) eqn:E.
  - intros [= <-]. split; [exact Hl|]. rewrite Hl. exact Echk.
  - intros [= _ Hp]. apply N.eqb_eq in Hp. rewrite prop_eq0 in Hp by discriminate. congruence.
Qed.
Print Assumptions GenerateSeed_model_tie.

Corollary GenerateSeed_new_master (hmac512 : list N -> list N -> list N) rand_Read len seed nt :
  (forall buf, length (snd (rand_Read buf)) = length buf) ->
  Kernels4.GenerateSeed rand_Read len = (seed, 0) ->
  HD.new_master hmac512 seed nt <> Err HD.E_seedlen.
Proof.
  intros Hlen Hg. destruct (GenerateSeed_model_tie rand_Read len) as [_ Hm].
  destruct (Hm seed Hlen Hg) as [_ Hc]. unfold HD.new_master. rewrite Hc.
  destruct (HD.master_out_of_range _); discriminate.
Qed.
Print Assumptions GenerateSeed_new_master.

(* ====================================================================== *)
(*            merkleblock: GetMatches, GetItems, BadTree                  *)
(* ====================================================================== *)
Theorem PartialBlock_GetMatches_proj_tie m :
  Kernels4.PartialBlock_GetMatches m = Kernels3.merkleblock_PartialBlock_matchedHashes m.
Proof. reflexivity. Qed.
Theorem PartialBlock_GetItems_proj_tie m :
  Kernels4.PartialBlock_GetItems m = Kernels3.merkleblock_PartialBlock_matchedItems m.
Proof. reflexivity. Qed.
Theorem PartialBlock_BadTree_proj_tie m :
  Kernels4.PartialBlock_BadTree m = Kernels3.merkleblock_PartialBlock_bad m.
Proof. reflexivity. Qed.
Print Assumptions PartialBlock_GetMatches_proj_tie.
Print Assumptions PartialBlock_GetItems_proj_tie.
Print Assumptions PartialBlock_BadTree_proj_tie.

(* against the model: a *PartialBlock is Kernels3_MerkleExtract.pb_gen of the model's pair (pblock, xstate) *)
Theorem PartialBlock_GetMatches_tie p s :
  Kernels4.PartialBlock_GetMatches (Kernels3_MerkleExtract.pb_gen p s)
  = map (fun ph => Some (snd ph)) (Merkle.x_matched s).
Proof. reflexivity. Qed.
Theorem PartialBlock_GetItems_tie p s :
  Kernels4.PartialBlock_GetItems (Kernels3_MerkleExtract.pb_gen p s) = map fst (Merkle.x_matched s).
Proof. reflexivity. Qed.
Theorem PartialBlock_BadTree_tie p s :
  Kernels4.PartialBlock_BadTree (Kernels3_MerkleExtract.pb_gen p s) = Merkle.x_bad s.
Proof. reflexivity. Qed.
Print Assumptions PartialBlock_GetMatches_tie.
Print Assumptions PartialBlock_GetItems_tie.
Print Assumptions PartialBlock_BadTree_tie.

(* the three accessors after NewMerkleBlockFromMsg and ExtractMatches: the model's extract (Kernels3_MerkleExtract.extract_tie
   read through the accessors) *)
Theorem PartialBlock_accessors_extract_tie (node_hash : Merkle.hash -> Merkle.hash -> Merkle.hash) (BH : Type)
    (hdr : BH) (maxtx : N) (m : Merkle.msg) (fuel : nat) :
  (33 <= fuel)%nat ->
  N.of_nat (length (Merkle.m_flags m)) * 8 < 2 ^ 32 ->
  N.of_nat (length (Merkle.m_hashes m)) < 2 ^ 32 ->
  exists pb',
    (do pb <- Kernels3.NewMerkleBlockFromMsg BH (Kernels3_MerkleExtract.msg_gen BH hdr m) ;;
     do pb <- Go3.deref pb ;;
     Kernels3_MerkleExtract.gEM node_hash maxtx fuel pb)
    = Ok (match Merkle.extract node_hash maxtx m with Ok (root, _) => Some root | _ => None end, pb') /\
    Kernels4.PartialBlock_BadTree pb'
      = Merkle.x_bad (snd (Merkle.extract_full node_hash maxtx (Merkle.new_from_msg m))) /\
    forall root ms, Merkle.extract node_hash maxtx m = Ok (root, ms) ->
      Kernels4.PartialBlock_GetItems pb' = map fst ms /\
      Kernels4.PartialBlock_GetMatches pb' = map (fun ph => Some (snd ph)) ms.
Proof. exact (Kernels3_MerkleExtract.extract_tie node_hash BH hdr maxtx m fuel). Qed.
Print Assumptions PartialBlock_accessors_extract_tie.

(* ====================================================================== *)
(*                          bloom: minUint32                              *)
(* ====================================================================== *)
Theorem minUint32_tie a b : Kernels4.minUint32 a b = Bloom.min_u32 a b.
Proof. reflexivity. Qed.
Print Assumptions minUint32_tie.

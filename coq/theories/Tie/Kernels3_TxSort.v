(* Tie between the generated txsort functions (Gen/Kernels3.v: InPlaceSort, txsort_Sort, txsort_IsSorted,
   translated from txsort/txsort.go) and the model TxSort/TxSort.v (inplace_sort, sort_tx, is_sorted over
   msgtx).

   The two sides represent a transaction differently:
     generated  wire_MsgTx = (Version, TxIn : list (option wire_TxIn), TxOut : list (option wire_TxOut), LockTime);
                pointers are options, object identity is NOT represented;
     model      msgtx = (tx_other, tx_in : list (object id * txin), tx_out : list (object id * txout)), with
                in_rest / out_rest / tx_other opaque numbers for the fields the comparators never read.
   They are related by [R m w]: "w is the content of m": the pointees of m, in order, are the abstractions
   [abs_in] / [abs_out] of the elements of w (for ARBITRARY encodings enc_in / enc_out / enc_other of the
   uncompared fields into the model's opaque numbers), and no pointer of w is nil (Less would dereference it).

   Dependencies (Section variables of the generated file), and what is assumed of them:
     sort.Sort(sortableInputSlice(x))     [sIn]  : on non-nil pointers, the content of the result is the content of
                                                   the model's [gosort _ in_less_p] on ANY list with that content
                                                   (object ids cannot influence the order), and it has no nil;
     sort.Sort(sortableOutputSlice(x))    [sOut] : the same with out_less_p;
     sort.IsSorted(...)                   [isIn, isOut] : the model's go_is_sorted for in_less / out_less;
     MsgTx.Copy (pointer recv)                [copy] : returns a transaction with the same content.
   [isort_instance] shows these hypotheses are satisfiable (gosort := the model's stable insertion sort). *)
From BU Require Import Lib.Bytes Gen.Kernels2 Gen.Kernels3 TxSort.TxSort Tie.Kernels2Lib Tie.Kernels3Lib.
From Coq Require Import ZifyBool ZifyN ZifyNat.

Definition nonnil {A} (l : list (option A)) : Prop := Forall (fun p => p <> None) l.

Lemma go_is_sorted_map {A B} (f : A -> B) (less : B -> B -> bool) (l : list A) :
  go_is_sorted (fun x y => less (f x) (f y)) l = go_is_sorted less (map f l).
Proof.
  induction l as [|a [|b t] IH]; [reflexivity|reflexivity|].
  change (go_is_sorted (fun x y => less (f x) (f y)) (a :: b :: t))
    with (negb (less (f b) (f a)) && go_is_sorted (fun x y => less (f x) (f y)) (b :: t)).
  rewrite IH. reflexivity.
Qed.

Lemma map_snd_fresh {A} (l : list (N * A)) : forall next, map snd (fresh next l) = map snd l.
Proof.
  induction l as [|[i v] t IH]; intros next; cbn [fresh map snd]; [reflexivity|]. now rewrite IH.
Qed.

Section TxSortTie.
Variable TokenData_t : Type.
Variable enc_in : list N -> N -> N.        (* SignatureScript, Sequence  |->  in_rest *)
Variable enc_out : TokenData_t -> N.       (* TokenData                  |->  out_rest *)
Variable enc_other : Z -> N -> N.          (* Version, LockTime          |->  tx_other *)

Notation WTx := (Kernels3.wire_MsgTx TokenData_t).
Notation WOut := (Kernels3.wire_TxOut TokenData_t).

Definition abs_in (p : option Kernels3.wire_TxIn) : txin :=
  match p with
  | Some t => mk_in (Kernels3.wire_OutPoint_Hash (Kernels3.wire_TxIn_PreviousOutPoint t))
                    (Kernels3.wire_OutPoint_Index (Kernels3.wire_TxIn_PreviousOutPoint t))
                    (enc_in (Kernels3.wire_TxIn_SignatureScript t) (Kernels3.wire_TxIn_Sequence t))
  | None => mk_in [] 0 0
  end.
Definition abs_out (p : option WOut) : txout :=
  match p with
  | Some t => mk_out (Kernels3.wire_TxOut_Value _ t) (Kernels3.wire_TxOut_PkScript _ t)
                     (enc_out (Kernels3.wire_TxOut_TokenData _ t))
  | None => mk_out 0%Z [] 0
  end.

Definition R (m : msgtx) (w : WTx) : Prop :=
  tx_other m = enc_other (Kernels3.wire_MsgTx_Version _ w) (Kernels3.wire_MsgTx_LockTime _ w)
  /\ map snd (tx_in m) = map abs_in (Kernels3.wire_MsgTx_TxIn _ w)
  /\ map snd (tx_out m) = map abs_out (Kernels3.wire_MsgTx_TxOut _ w)
  /\ nonnil (Kernels3.wire_MsgTx_TxIn _ w) /\ nonnil (Kernels3.wire_MsgTx_TxOut _ w).

Variable gosort : forall A : Type, (A -> A -> bool) -> list A -> list A.
Variable sIn : list (option Kernels3.wire_TxIn) -> list (option Kernels3.wire_TxIn).
Variable sOut : list (option WOut) -> list (option WOut).
Variable isIn : list (option Kernels3.wire_TxIn) -> bool.
Variable isOut : list (option WOut) -> bool.
Variable copy : option WTx -> option WTx.

Hypothesis HsIn : forall (ml : list (N * txin)) wl, nonnil wl -> map snd ml = map abs_in wl ->
  nonnil (sIn wl) /\ map snd (gosort _ in_less_p ml) = map abs_in (sIn wl).
Hypothesis HsOut : forall (ml : list (N * txout)) wl, nonnil wl -> map snd ml = map abs_out wl ->
  nonnil (sOut wl) /\ map snd (gosort _ out_less_p ml) = map abs_out (sOut wl).
Hypothesis HisIn : forall wl, nonnil wl -> isIn wl = go_is_sorted in_less (map abs_in wl).
Hypothesis HisOut : forall wl, nonnil wl -> isOut wl = go_is_sorted out_less (map abs_out wl).
Hypothesis Hcopy : forall w, copy (Some w) = Some w.

(* ---------- IsSorted ---------- *)
Theorem IsSorted_tie (m : msgtx) (w : WTx) : R m w ->
  Kernels3.txsort_IsSorted TokenData_t isIn isOut (Some w) = Ok (is_sorted m).
Proof using HisIn HisOut.
  clear HsIn HsOut Hcopy.
  intros (Hother & Hin & Hout & Hnin & Hnout).
  unfold Kernels3.txsort_IsSorted, is_sorted, in_less_p, out_less_p. cbn [Go3.deref rbind].
  rewrite (go_is_sorted_map snd in_less), (go_is_sorted_map snd out_less), Hin, Hout.
  rewrite (HisIn _ Hnin), (HisOut _ Hnout).
  destruct (go_is_sorted in_less _); cbn [negb]; [|reflexivity].
  destruct (go_is_sorted out_less _); reflexivity.
Qed.

(* a nil *wire.MsgTx: tx.TxIn is a nil dereference *)
Theorem IsSorted_nil : Kernels3.txsort_IsSorted TokenData_t isIn isOut None = Panic 5.
Proof using. reflexivity. Qed.

(* ---------- InPlaceSort: the new tx ---------- *)
Theorem InPlaceSort_tie (m : msgtx) (w : WTx) : R m w ->
  exists w', Kernels3.InPlaceSort TokenData_t sIn sOut (Some w) = Ok (Some w') /\ R (inplace_sort gosort m) w'.
Proof using HsIn HsOut.
  clear HisIn HisOut Hcopy.
  intros (Hother & Hin & Hout & Hnin & Hnout).
  destruct (HsIn _ _ Hnin Hin) as [Hn1 Hs1]. destruct (HsOut _ _ Hnout Hout) as [Hn2 Hs2].
  eexists. split; [reflexivity|].
  unfold R, inplace_sort.
  cbn [tx_other tx_in tx_out Kernels3.set_wire_MsgTx_TxIn Kernels3.set_wire_MsgTx_TxOut
       Kernels3.wire_MsgTx_Version Kernels3.wire_MsgTx_LockTime Kernels3.wire_MsgTx_TxIn Kernels3.wire_MsgTx_TxOut].
  repeat split; assumption.
Qed.

Theorem InPlaceSort_nil : Kernels3.InPlaceSort TokenData_t sIn sOut None = Panic 5.
Proof using. reflexivity. Qed.

(* ---------- Sort: a sorted copy ([next] = the model's allocation counter for the fresh objects) ---------- *)
Lemma R_copy next m w : R m w -> R (tx_copy next m) w.
Proof using.
  intros (Hother & Hin & Hout & Hnin & Hnout). unfold R, tx_copy. cbn [tx_other tx_in tx_out].
  rewrite !map_snd_fresh. repeat split; assumption.
Qed.

Theorem Sort_tie (next : N) (m : msgtx) (w : WTx) : R m w ->
  exists w', Kernels3.txsort_Sort TokenData_t sIn sOut copy (Some w) = Ok (Some w') /\ R (sort_tx gosort next m) w'.
Proof using HsIn HsOut Hcopy.
  clear HisIn HisOut.
  intros HR. unfold Kernels3.txsort_Sort, sort_tx. rewrite Hcopy.
  exact (InPlaceSort_tie _ _ (R_copy next m w HR)).
Qed.

End TxSortTie.

Print Assumptions IsSorted_tie.
Print Assumptions IsSorted_nil.
Print Assumptions InPlaceSort_tie.
Print Assumptions InPlaceSort_nil.
Print Assumptions Sort_tie.

(* ---------- the hypotheses are satisfiable: insertion sort on both sides ---------- *)
Lemma insert_map {A B K} (f : A -> K) (g : B -> K) (less : K -> K -> bool) x y : forall la lb,
  f x = g y -> map f la = map g lb ->
  map f (insert (fun a b => less (f a) (f b)) x la) = map g (insert (fun a b => less (g a) (g b)) y lb).
Proof.
  induction la as [|a la IH]; intros [|b lb] Hxy Hl; try discriminate.
  - cbn [insert map]. now rewrite Hxy.
  - cbn [map] in Hl. injection Hl as Hab Hl. cbn [insert]. rewrite Hab, Hxy.
    destruct (less (g b) (g y)); cbn [map]; [now rewrite Hab, (IH lb Hxy Hl) | now rewrite Hxy, Hab, Hl].
Qed.

Lemma isort_map {A B K} (f : A -> K) (g : B -> K) (less : K -> K -> bool) : forall la lb,
  map f la = map g lb ->
  map f (isort A (fun a b => less (f a) (f b)) la) = map g (isort B (fun a b => less (g a) (g b)) lb).
Proof.
  unfold isort. induction la as [|a la IH]; intros [|b lb] Hl; try discriminate; [reflexivity|].
  cbn [map] in Hl. injection Hl as Hab Hl. cbn [isort_aux]. apply insert_map; [exact Hab|]. apply IH, Hl.
Qed.

Lemma insert_Forall {A} (P : A -> Prop) less x l : P x -> Forall P l -> Forall P (insert less x l).
Proof.
  intros Hx Hl. induction Hl as [|y l Hy Hl IH]; cbn [insert]; [constructor; [exact Hx|constructor]|].
  destruct (less y x); constructor; auto.
Qed.

Lemma isort_Forall {A} (P : A -> Prop) less l : Forall P l -> Forall P (isort A less l).
Proof.
  unfold isort. intros Hl. induction Hl as [|y l Hy Hl IH]; cbn [isort_aux]; [constructor|].
  apply insert_Forall; assumption.
Qed.

Theorem isort_instance (T : Type) (enc_in : list N -> N -> N) (enc_out : T -> N) :
  let sIn := isort _ (fun a b => in_less (abs_in enc_in a) (abs_in enc_in b)) in
  let sOut := isort _ (fun a b => out_less (abs_out T enc_out a) (abs_out T enc_out b)) in
  (forall (ml : list (N * txin)) wl, nonnil wl -> map snd ml = map (abs_in enc_in) wl ->
     nonnil (sIn wl) /\ map snd (isort _ in_less_p ml) = map (abs_in enc_in) (sIn wl))
  /\ (forall (ml : list (N * txout)) wl, nonnil wl -> map snd ml = map (abs_out T enc_out) wl ->
     nonnil (sOut wl) /\ map snd (isort _ out_less_p ml) = map (abs_out T enc_out) (sOut wl)).
Proof.
  split; intros ml wl Hn Hm; (split; [apply isort_Forall, Hn|]).
  - exact (isort_map snd (abs_in enc_in) in_less ml wl Hm).
  - exact (isort_map snd (abs_out T enc_out) out_less ml wl Hm).
Qed.
Print Assumptions isort_instance.

(* (phase 5, H3) the sort sites of Gen/Kernels3.v, with the static type of the slice sorted at each: the theorems
   above (and those of Kernels3_CoinSet / Kernels3_CoinSetMinPrio) instantiate the per-type Section variables
   sort_Sort_<T> / sort_IsSorted_<T> with sorts for the MODEL's order of exactly these types, whose generated
   Less / Len / Swap are tied to that order in Kernels2_Misc (sortable*Slice_Less_tie) and Kernels4_CoinSetSort
   (by*_Less_tie, *_sorted_iff).  The translator refuses a sort through any type whose three methods are not
   translated; changing the type at a site changes this list. *)
Theorem sort_sites_tie :
  Kernels3.sort_sites =
  [ (* MinNumberCoinSelector_CoinSelect:Sort_Reverse:coinset.byAmount *)
    [77; 105; 110; 78; 117; 109; 98; 101; 114; 67; 111; 105; 110; 83; 101; 108; 101; 99; 116; 111; 114; 95; 67; 111; 105; 110; 83; 101; 108; 101; 99; 116; 58; 83; 111; 114; 116; 95; 82; 101; 118; 101; 114; 115; 101; 58; 99; 111; 105; 110; 115; 101; 116; 46; 98; 121; 65; 109; 111; 117; 110; 116];
    (* MaxValueAgeCoinSelector_CoinSelect:Sort_Reverse:coinset.byValueAge *)
    [77; 97; 120; 86; 97; 108; 117; 101; 65; 103; 101; 67; 111; 105; 110; 83; 101; 108; 101; 99; 116; 111; 114; 95; 67; 111; 105; 110; 83; 101; 108; 101; 99; 116; 58; 83; 111; 114; 116; 95; 82; 101; 118; 101; 114; 115; 101; 58; 99; 111; 105; 110; 115; 101; 116; 46; 98; 121; 86; 97; 108; 117; 101; 65; 103; 101];
    (* MinPriorityCoinSelector_CoinSelect:Sort:coinset.byValueAge *)
    [77; 105; 110; 80; 114; 105; 111; 114; 105; 116; 121; 67; 111; 105; 110; 83; 101; 108; 101; 99; 116; 111; 114; 95; 67; 111; 105; 110; 83; 101; 108; 101; 99; 116; 58; 83; 111; 114; 116; 58; 99; 111; 105; 110; 115; 101; 116; 46; 98; 121; 86; 97; 108; 117; 101; 65; 103; 101];
    (* InPlaceSort:Sort:txsort.sortableInputSlice *)
    [73; 110; 80; 108; 97; 99; 101; 83; 111; 114; 116; 58; 83; 111; 114; 116; 58; 116; 120; 115; 111; 114; 116; 46; 115; 111; 114; 116; 97; 98; 108; 101; 73; 110; 112; 117; 116; 83; 108; 105; 99; 101];
    (* InPlaceSort:Sort:txsort.sortableOutputSlice *)
    [73; 110; 80; 108; 97; 99; 101; 83; 111; 114; 116; 58; 83; 111; 114; 116; 58; 116; 120; 115; 111; 114; 116; 46; 115; 111; 114; 116; 97; 98; 108; 101; 79; 117; 116; 112; 117; 116; 83; 108; 105; 99; 101];
    (* txsort_Sort:Sort:txsort.sortableInputSlice *)
    [116; 120; 115; 111; 114; 116; 95; 83; 111; 114; 116; 58; 83; 111; 114; 116; 58; 116; 120; 115; 111; 114; 116; 46; 115; 111; 114; 116; 97; 98; 108; 101; 73; 110; 112; 117; 116; 83; 108; 105; 99; 101];
    (* txsort_Sort:Sort:txsort.sortableOutputSlice *)
    [116; 120; 115; 111; 114; 116; 95; 83; 111; 114; 116; 58; 83; 111; 114; 116; 58; 116; 120; 115; 111; 114; 116; 46; 115; 111; 114; 116; 97; 98; 108; 101; 79; 117; 116; 112; 117; 116; 83; 108; 105; 99; 101];
    (* txsort_IsSorted:IsSorted:txsort.sortableInputSlice *)
    [116; 120; 115; 111; 114; 116; 95; 73; 115; 83; 111; 114; 116; 101; 100; 58; 73; 115; 83; 111; 114; 116; 101; 100; 58; 116; 120; 115; 111; 114; 116; 46; 115; 111; 114; 116; 97; 98; 108; 101; 73; 110; 112; 117; 116; 83; 108; 105; 99; 101];
    (* txsort_IsSorted:IsSorted:txsort.sortableOutputSlice *)
    [116; 120; 115; 111; 114; 116; 95; 73; 115; 83; 111; 114; 116; 101; 100; 58; 73; 115; 83; 111; 114; 116; 101; 100; 58; 116; 120; 115; 111; 114; 116; 46; 115; 111; 114; 116; 97; 98; 108; 101; 79; 117; 116; 112; 117; 116; 83; 108; 105; 99; 101] ].
Proof. reflexivity. Qed.
Print Assumptions sort_sites_tie.

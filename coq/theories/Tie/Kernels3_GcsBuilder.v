(* Tie between the generated builder methods (Gen/Kernels3.v, from gcs/builder/builder.go:
   GCSBuilder_Key / SetKey / SetKeyFromHash / SetP / SetM / Preallocate / AddEntry / AddEntries / AddHash,
   DeriveKey, WithKeyPNM / WithKeyHashPNM / WithKeyHash) and the model Gcs/GcsBuilder.v.

   The two builder records are related by [brel g b]:
     p, m, key equal (key of length 16: it is a [16]byte);
     err: 0 <-> None, gcs.ErrPTooBig <-> Some 2 (the only error a builder can latch);
     data: nil map <-> None; a map with keys ks <-> Some l with  Permutation ks l  and  NoDup l
       (Go3.map_set puts the newest binding first and moves a re-inserted key to the front, the model
        keeps first-insertion order: the two agree as sets, which is all Build() can observe
        because BuildGCSFilter sorts: see Kernels3_GcsBuilderBuild.v).
   Every method theorem says: related inputs give related outputs (and the same panic).
   chainhash.Hash.CloneBytes stays abstract ([CB]); the model functions receive [CB h]. *)
From BU Require Import Lib.Bytes Lib.PolyMod Gen.Kernels2 Gen.Kernels3 Gcs.SipHash Gcs.Gcs Gcs.GcsBuilder
  Gcs.GcsBuilderProofs Tie.Kernels2Lib Tie.Kernels3Lib Tie.Kernels3_GcsSer.
From Coq Require Import ZifyBool ZifyN ZifyNat Sorting.Permutation.

Notation G := Kernels3.builder_GCSBuilder.

Definition keys_of (m : list (list N * unit)) : list (list N) := map fst m.

Definition data_rel (gd : option (list (list N * unit))) (bd : option (list (list N))) : Prop :=
  match gd, bd with
  | None, None => True
  | Some m, Some l => Permutation (keys_of m) l /\ NoDup l
  | _, _ => False
  end.

Definition err_rel (ge : N) (be : option N) : Prop :=
  (ge = 0 /\ be = None) \/ (ge = Kernels3.gcs_ErrPTooBig /\ be = Some 2).

Record brel (g : G) (b : builder) : Prop := mk_brel {
  br_p : Kernels3.builder_GCSBuilder_p g = b_p b;
  br_m : Kernels3.builder_GCSBuilder_m g = b_m b;
  br_key : Kernels3.builder_GCSBuilder_key g = b_key b;
  br_keylen : length (b_key b) = 16%nat;
  br_err : err_rel (Kernels3.builder_GCSBuilder_err g) (b_err b);
  br_data : data_rel (Kernels3.builder_GCSBuilder_data g) (b_data b) }.

(* a method returning (b, the new receiver) *)
Definition step_ok (r : res (option G * G)) (b' : builder) : Prop :=
  exists g', r = Ok (Some g', g') /\ brel g' b'.

Lemma err_rel_cases ge be : err_rel ge be ->
  (ge = 0 /\ be = None /\ negb (ge =? 0) = false) \/
  (ge = Kernels3.gcs_ErrPTooBig /\ be = Some 2 /\ negb (ge =? 0) = true).
Proof. intros [[-> ->]|[-> ->]]; [left|right]; repeat split; reflexivity. Qed.

Ltac fin_brel H Eb :=
  destruct H; constructor; cbn; auto;
  try (now rewrite <- Eb); try (right; split; reflexivity); try (split; assumption); try (split; constructor).

Ltac latch_cases g b H :=
  let E := fresh "Eerr" in let Eb := fresh "Eberr" in let Et := fresh "Etest" in
  destruct (err_rel_cases _ _ (br_err g b H)) as [(E & Eb & Et)|(E & Eb & Et)].

(* ---------- Key ---------- *)
Definition key_view (r : res (list N)) : list N * N :=
  match r with
  | Ok k => (k, 0)
  | Err e => (repeat 0 16, gcs_err e)
  | Panic _ => (repeat 0 16, 0)     (* b_key_get never panics *)
  end.

Theorem Key_tie g b : brel g b -> Kernels3.GCSBuilder_Key g = key_view (b_key_get b).
Proof.
  intros H. unfold Kernels3.GCSBuilder_Key, b_key_get. latch_cases g b H; rewrite Etest, Eberr.
  - cbn [key_view]. now rewrite (br_key g b H).
  - rewrite Eerr. reflexivity.
Qed.

(* ---------- DeriveKey ---------- *)
Lemma copy_key_eq (src : list N) :
  Go.copy_at (repeat 0 16) 0%Z src = Ok (copy_key src).
Proof.
  rewrite copy_at_0. f_equal. rewrite repeat_length. unfold copy_key. change key_size with 16%nat.
  rewrite firstn_app. f_equal.
  rewrite GcsMatchProofs.skipn_repeat.
  destruct (Nat.le_ge_cases 16 (length src)) as [Hge|Hlt].
  - replace (16 - length src)%nat with 0%nat by lia. reflexivity.
  - rewrite GcsMatchProofs.firstn_repeat by lia. reflexivity.
Qed.

(* (phase 5) keyHash.CloneBytes() on a nil *chainhash.Hash panics: the ties about key hashes need kh <> None *)
Lemma deref_nn_bind {A B} (o : option A) (k : res B) : o <> None -> (do _ <- Go3.deref o ;; k) = k.
Proof. destruct o; [reflexivity|congruence]. Qed.

Theorem DeriveKey_tie (CB : option (list N) -> list N) kh : kh <> None ->
  Kernels3.DeriveKey CB kh = Ok (derive_key (CB kh)).
Proof. intro Hkh. unfold Kernels3.DeriveKey, derive_key. rewrite deref_nn_bind by exact Hkh. now rewrite copy_key_eq. Qed.

Theorem DeriveKey_nil (CB : option (list N) -> list N) : Kernels3.DeriveKey CB None = Panic 5.
Proof. reflexivity. Qed.

Lemma copy_key_16 key : length key = 16%nat -> copy_key key = key.
Proof.
  intros H. unfold copy_key. change key_size with 16%nat. rewrite <- H.
  now destruct (GcsBitsProofs.firstn_skipn_exact key (repeat 0 (length key))) as [-> _].
Qed.

(* ---------- SetKey (key is a [16]byte) ---------- *)
Theorem SetKey_tie g b key : brel g b -> length key = 16%nat ->
  step_ok (Kernels3.GCSBuilder_SetKey g key) (set_key b key).
Proof.
  intros H Hk. unfold Kernels3.GCSBuilder_SetKey, set_key, latched. latch_cases g b H; rewrite Etest, Eberr.
  - rewrite copy_at_full by (rewrite (br_key g b H), (br_keylen g b H); exact Hk). cbn [rbind].
    eexists; split; [reflexivity|]. rewrite copy_key_16 by exact Hk.
    fin_brel H Eberr.
  - eexists; split; [reflexivity|exact H].
Qed.

Theorem SetKeyFromHash_tie (CB : option (list N) -> list N) g b kh : kh <> None -> brel g b ->
  step_ok (Kernels3.GCSBuilder_SetKeyFromHash CB g kh) (set_key_from_hash b (CB kh)).
Proof.
  intros Hkh H. unfold Kernels3.GCSBuilder_SetKeyFromHash, set_key_from_hash.
  pose proof (SetKey_tie g b (derive_key (CB kh)) H (copy_key_length _)) as Hs.
  unfold latched in *. latch_cases g b H; rewrite Etest, Eberr.
  - rewrite DeriveKey_tie by exact Hkh. cbn [rbind]. destruct Hs as (g' & -> & Hr). cbn [rbind].
    exists g'. split; [reflexivity|exact Hr].
  - eexists; split; [reflexivity|exact H].
Qed.

(* ---------- SetP / SetM / Preallocate (no panic possible: plain pairs) ---------- *)
Definition step_ok2 (r : option G * G) (b' : builder) : Prop :=
  exists g', r = (Some g', g') /\ brel g' b'.

Theorem SetP_tie g b p : brel g b -> step_ok2 (Kernels3.GCSBuilder_SetP g p) (set_p b p).
Proof.
  intros H. unfold Kernels3.GCSBuilder_SetP, set_p, latched. latch_cases g b H; rewrite Etest, Eberr.
  - change setp_max with 32. destruct (32 <? p); (eexists; split; [reflexivity|]);
      fin_brel H Eberr.
  - eexists; split; [reflexivity|exact H].
Qed.

Theorem SetM_tie g b m : brel g b -> step_ok2 (Kernels3.GCSBuilder_SetM g m) (set_m b m).
Proof.
  intros H. unfold Kernels3.GCSBuilder_SetM, set_m, latched. latch_cases g b H; rewrite Etest, Eberr.
  - change max_uint32 with 4294967295. destruct (4294967295 <? m); (eexists; split; [reflexivity|]);
      fin_brel H Eberr.
  - eexists; split; [reflexivity|exact H].
Qed.

Theorem Preallocate_tie g b n : brel g b -> step_ok2 (Kernels3.GCSBuilder_Preallocate g n) (preallocate b n).
Proof.
  intros H. unfold Kernels3.GCSBuilder_Preallocate, preallocate, latched. latch_cases g b H; rewrite Etest, Eberr.
  - pose proof (br_data g b H) as Hd. unfold data_rel in Hd.
    destruct (Kernels3.builder_GCSBuilder_data g) as [m|] eqn:Eg, (b_data b) as [l|] eqn:Eb; try contradiction;
      cbn [Go3.isnil]; (eexists; split; [reflexivity|]).
    + exact H.
    + fin_brel H Eberr.
  - eexists; split; [reflexivity|exact H].
Qed.

(* ---------- the entry set ---------- *)
Lemma keys_map_del m e :
  keys_of (Go3.map_del list_eqb m e) = List.filter (fun k => negb (list_eqb k e)) (keys_of m).
Proof.
  induction m as [|[k v] t IH]; [reflexivity|]. cbn [Go3.map_del keys_of map fst List.filter].
  destruct (list_eqb k e); cbn [negb]; [exact IH|]. cbn [map fst]. f_equal. exact IH.
Qed.

Lemma filter_notin e ks : ~ In e ks -> List.filter (fun k => negb (list_eqb k e)) ks = ks.
Proof.
  induction ks as [|x t IH]; intros Hn; [reflexivity|]. cbn [List.filter].
  destruct (list_eqb x e) eqn:E.
  - apply list_eqb_eq in E. subst x. exfalso. apply Hn. now left.
  - cbn [negb]. f_equal. apply IH. intros Hi. apply Hn. now right.
Qed.

Lemma perm_del e ks : NoDup ks -> In e ks ->
  Permutation (e :: List.filter (fun k => negb (list_eqb k e)) ks) ks.
Proof.
  induction ks as [|x t IH]; intros Hnd Hin; [destruct Hin|].
  inversion Hnd as [|? ? Hx Hnd']; subst. cbn [List.filter].
  destruct (list_eqb x e) eqn:E.
  - apply list_eqb_eq in E. subst x. cbn [negb]. now rewrite filter_notin.
  - cbn [negb]. destruct Hin as [->|Hin]; [rewrite list_eqb_refl in E; discriminate|].
    eapply Permutation_trans; [apply perm_swap|]. apply perm_skip. now apply IH.
Qed.

Lemma keys_set_add m l e :
  Permutation (keys_of m) l -> NoDup l ->
  Permutation (keys_of (Go3.map_set list_eqb m e tt)) (set_add e l) /\ NoDup (set_add e l).
Proof.
  intros Hp Hnd. split; [|now apply set_add_nodup].
  unfold Go3.map_set. cbn [keys_of map fst]. fold (keys_of (Go3.map_del list_eqb m e)).
  rewrite keys_map_del.
  assert (Hndk : NoDup (keys_of m)) by (eapply Permutation_NoDup; [apply Permutation_sym; exact Hp|exact Hnd]).
  unfold set_add. destruct (entry_mem e l) eqn:E.
  - apply entry_mem_iff in E.
    eapply Permutation_trans; [|exact Hp]. apply perm_del; [exact Hndk|].
    eapply Permutation_in; [apply Permutation_sym; exact Hp|exact E].
  - assert (Hn : ~ In e l) by (rewrite <- entry_mem_iff; congruence).
    rewrite filter_notin.
    + eapply Permutation_trans; [apply perm_skip; exact Hp|]. apply Permutation_cons_append.
    + intros Hi. apply Hn. eapply Permutation_in; [exact Hp|exact Hi].
Qed.

(* a method that may panic: the model's Panic is the translation's Panic *)
Definition step_res (r : res (option G * G)) (rb : res builder) : Prop :=
  match rb with
  | Ok b' => step_ok r b'
  | Panic k => r = Panic k
  | Err _ => False
  end.

Theorem AddEntry_tie g b e : brel g b ->
  step_res (Kernels3.GCSBuilder_AddEntry g e) (add_entry b e).
Proof.
  intros H. unfold Kernels3.GCSBuilder_AddEntry, add_entry, latched. latch_cases g b H; rewrite Etest, Eberr.
  - pose proof (br_data g b H) as Hd. unfold data_rel in Hd.
    destruct (Kernels3.builder_GCSBuilder_data g) as [m|] eqn:Eg, (b_data b) as [l|] eqn:Eb; try contradiction;
      cbn [Go3.mset rbind step_res]; [|reflexivity].
    destruct Hd as [Hp Hnd]. destruct (keys_set_add m l e Hp Hnd) as [Hp' Hnd'].
    eexists; split; [reflexivity|].
    fin_brel H Eberr.
  - cbn [step_res]. eexists; split; [reflexivity|exact H].
Qed.

Theorem AddHash_tie (CB : option (list N) -> list N) g b h : h <> None -> brel g b ->
  step_res (Kernels3.GCSBuilder_AddHash CB g h) (add_hash b (CB h)).
Proof.
  intros Hh H. unfold Kernels3.GCSBuilder_AddHash, add_hash. rewrite deref_nn_bind by exact Hh.
  pose proof (AddEntry_tie g b (CB h) H) as Ha. unfold latched.
  latch_cases g b H; rewrite Etest, Eberr.
  - destruct (add_entry b (CB h)) as [b'|e|k]; cbn [step_res] in *; [|exact Ha|now rewrite Ha].
    destruct Ha as (g' & -> & Hr). cbn [rbind]. exists g'. split; [reflexivity|exact Hr].
  - cbn [step_res]. eexists; split; [reflexivity|exact H].
Qed.

(* the loop of AddEntries *)
Lemma AddEntries_loop F es :
  (forall g e, F g e = (do (t1_, t2_) <- Kernels3.GCSBuilder_AddEntry g e ;; Ok t2_)) ->
  forall g b, brel g b ->
  match add_entries_loop b es with
  | Ok b' => exists g', Go.foldM F es g = Ok g' /\ brel g' b'
  | Panic k => Go.foldM F es g = Panic k
  | Err _ => False
  end.
Proof.
  intros HF. induction es as [|e t IH]; intros g b H; cbn [add_entries_loop Go.foldM].
  - exists g. split; [reflexivity|exact H].
  - rewrite HF. pose proof (AddEntry_tie g b e H) as Ha.
    destruct (add_entry b e) as [b1|?|k]; cbn [step_res rbind] in *; [|exact Ha|now rewrite Ha].
    destruct Ha as (g1 & -> & H1). cbn [rbind]. apply IH. exact H1.
Qed.

Theorem AddEntries_tie g b es : brel g b ->
  step_res (Kernels3.GCSBuilder_AddEntries g es) (add_entries b es).
Proof.
  intros H. unfold Kernels3.GCSBuilder_AddEntries, add_entries, latched.
  latch_cases g b H; rewrite Etest, Eberr.
  - match goal with |- context [Go.foldM ?F0] => set (F := F0) end.
    pose proof (AddEntries_loop F es ltac:(intros; reflexivity) g b H) as Hl.
    destruct (add_entries_loop b es) as [b'|?|k]; cbn [step_res]; [|exact Hl|now rewrite Hl].
    destruct Hl as (g' & -> & Hr). cbn [rbind]. exists g'. split; [reflexivity|exact Hr].
  - cbn [step_res]. eexists; split; [reflexivity|exact H].
Qed.

(* ---------- constructors ---------- *)
Definition gbuilder0 : G := Kernels3.mk_builder_GCSBuilder 0 0 (repeat 0 16) None 0.

Lemma brel0 : brel gbuilder0 builder0.
Proof. constructor; cbn; try reflexivity. left; split; reflexivity. Qed.

Theorem WithKeyPNM_tie key p n m : length key = 16%nat ->
  exists g', Kernels3.WithKeyPNM key p n m = Ok (Some g') /\ brel g' (with_key_pnm key p n m).
Proof.
  intros Hk. unfold Kernels3.WithKeyPNM, with_key_pnm. fold gbuilder0.
  destruct (SetKey_tie gbuilder0 builder0 key brel0 Hk) as (g1 & -> & H1). cbn [rbind Go3.deref].
  destruct (SetP_tie g1 _ p H1) as (g2 & -> & H2). cbn [rbind Go3.deref].
  destruct (SetM_tie g2 _ m H2) as (g3 & -> & H3). cbn [rbind Go3.deref].
  destruct (Preallocate_tie g3 _ n H3) as (g4 & -> & H4).
  exists g4. split; [reflexivity|exact H4].
Qed.

Theorem WithKeyHashPNM_tie (CB : option (list N) -> list N) kh p n m : kh <> None ->
  exists g', Kernels3.WithKeyHashPNM CB kh p n m = Ok (Some g') /\ brel g' (with_key_hash_pnm (CB kh) p n m).
Proof.
  intro Hkh. unfold Kernels3.WithKeyHashPNM, with_key_hash_pnm. rewrite DeriveKey_tie by exact Hkh. cbn [rbind].
  destruct (WithKeyPNM_tie (derive_key (CB kh)) p n m (copy_key_length _)) as (g' & -> & Hr).
  exists g'. split; [reflexivity|exact Hr].
Qed.

Theorem WithKeyHash_tie (CB : option (list N) -> list N) kh : kh <> None ->
  exists g', Kernels3.WithKeyHash CB kh = Ok (Some g') /\ brel g' (with_key_hash (CB kh)).
Proof.
  intro Hkh. unfold Kernels3.WithKeyHash, with_key_hash. change default_p with 19. change default_m with 784931.
  destruct (WithKeyHashPNM_tie CB kh 19 0 784931 Hkh) as (g' & -> & Hr).
  exists g'. split; [reflexivity|exact Hr].
Qed.

Print Assumptions Key_tie.
Print Assumptions DeriveKey_tie.
Print Assumptions SetKey_tie.
Print Assumptions SetKeyFromHash_tie.
Print Assumptions SetP_tie.
Print Assumptions SetM_tie.
Print Assumptions Preallocate_tie.
Print Assumptions AddEntry_tie.
Print Assumptions AddHash_tie.
Print Assumptions AddEntries_tie.
Print Assumptions WithKeyPNM_tie.
Print Assumptions WithKeyHashPNM_tie.
Print Assumptions WithKeyHash_tie.

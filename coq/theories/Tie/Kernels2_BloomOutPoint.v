(* Tie between the monadic-mode transliterations (Gen/Kernels2.v, regenerated from the Go AST on every
   run) of bloom/filter.go {matchesOutPoint, addOutPoint} and the model Bloom/Bloom.v
   {outpoint_bytes_m, outpoint_bytes, matches_outpoint, add_outpoint}.  Both Go functions build the
   36-byte buffer  outpoint.Hash ++ little-endian(outpoint.Index)  in a local array and hand it to
   matches / add, whose ties (Tie/Kernels2_Bloom.v) are reused unchanged.  No literal of the source is
   repeated here: the closed sub-terms of the model (the literal 4 of PutUint32's width) are evaluated. *)
From BU Require Import Lib.Bytes Lib.PolyMod Gen.Xbloom Gen.Kernels Gen.Kernels2 Bloom.Murmur3 Bloom.Bloom
  Tie.TieTactics Tie.Kernels2Lib Tie.Kernels2_Bloom.
From Coq Require Import ZifyBool ZifyN ZifyNat.

(* ====================================================================== *)
(* 1. the two array builtins on a local array                              *)
(* ====================================================================== *)

(* copy(dst[0:], src) with src no longer than dst: src replaces the prefix of dst *)
Lemma copy_at_zero {A} (dst src : list A) :
  (length src <= length dst)%nat -> Go.copy_at dst 0%Z src = Ok (src ++ skipn (length src) dst).
Proof.
  intros Hle. unfold Go.copy_at.
  destruct ((0 <? 0)%Z || (Z.of_nat (length dst) <? 0)%Z) eqn:E; [lia|].
  change (Z.to_nat 0) with O. cbn [firstn app Nat.add]. rewrite Nat.sub_0_r.
  rewrite Nat.min_r by exact Hle. rewrite firstn_all. reflexivity.
Qed.

(* copy(dst[0:], src) never panics and keeps the array length, whatever src *)
Lemma copy_at_zero_length {A} (dst src : list A) :
  exists r, Go.copy_at dst 0%Z src = Ok r /\ length r = length dst.
Proof.
  unfold Go.copy_at.
  destruct ((0 <? 0)%Z || (Z.of_nat (length dst) <? 0)%Z) eqn:E; [lia|].
  eexists; split; [reflexivity|].
  change (Z.to_nat 0) with O. cbn [firstn app Nat.add]. rewrite Nat.sub_0_r.
  rewrite app_length, firstn_length, skipn_length. lia.
Qed.

(* PutUint32(dst[|pre|:], v) on  pre ++ old ++ suf  with |old| = 4 replaces old *)
Lemma put_le32_mid (pre old suf : list N) v :
  length old = 4%nat ->
  Go.put_le32 (pre ++ old ++ suf) (Z.of_nat (length pre)) v
  = Ok (pre ++ [v mod 256; (v / 256) mod 256; (v / 65536) mod 256; (v / 16777216) mod 256] ++ suf).
Proof.
  intros Ho. unfold Go.put_le32. rewrite !app_length, Ho.
  destruct ((Z.of_nat (length pre) <? 0)%Z
            || (Z.of_nat (length pre + (4 + length suf)) <? Z.of_nat (length pre))%Z) eqn:E1; [lia|].
  destruct (Z.of_nat (length pre + (4 + length suf)) - Z.of_nat (length pre) <? 4)%Z eqn:E2; [lia|].
  rewrite Nat2Z.id. f_equal.
  rewrite firstn_app, firstn_all, Nat.sub_diag. cbn [firstn]. rewrite app_nil_r. f_equal. f_equal.
  rewrite skipn_app, skipn_all2 by lia. cbn [app].
  replace (length pre + 4 - length pre)%nat with (length old) by lia.
  rewrite skipn_app, skipn_all, Nat.sub_diag. reflexivity.
Qed.

(* PutUint32(dst[32:], v) never panics on a 36-byte array *)
Lemma put_le32_36_ok (dst : list N) v : length dst = 36%nat -> exists r, Go.put_le32 dst 32%Z v = Ok r.
Proof. intros H. unfold Go.put_le32. rewrite H. cbn [Z.of_nat Pos.of_succ_nat Pos.succ Z.ltb Z.compare Pos.compare Pos.compare_cont orb Z.sub Z.add Z.opp Z.pos_sub Pos.pred_double Z.succ_double Z.pred_double Z.double]. eexists; reflexivity. Qed.

(* ====================================================================== *)
(* 2. the model's serialisation                                            *)
(* ====================================================================== *)
Lemma w32_is_mod x : w32 x = x mod 2 ^ 32.
Proof. unfold w32. change 4294967295 with (N.ones 32). apply N.land_ones. Qed.

(* byte number k of  2^32*q + v  is byte number k of v  (d = 2^(8k), d*256*c = 2^32) *)
Lemma byte_of_low c d q v : d <> 0 -> ((d * 256 * c * q + v) / d) mod 256 = (v / d) mod 256.
Proof.
  intros Hd. replace (d * 256 * c * q + v) with (256 * c * q * d + v) by ring.
  rewrite N.div_add_l by exact Hd.
  replace (256 * c * q + v / d) with (v / d + c * q * 256) by ring.
  apply N.mod_add. discriminate.
Qed.

(* The generated PutUint32 takes the four bytes of [index] itself (a uint32 parameter), the model
   those of [w32 index]: the two agree for EVERY index, so no range hypothesis on index is needed. *)
Lemma le_bytes_4_w32 index :
  le_bytes 4 (w32 index)
  = [index mod 256; (index / 256) mod 256; (index / 65536) mod 256; (index / 16777216) mod 256].
Proof.
  rewrite w32_is_mod. cbn [le_bytes]. change (2 ^ 32) with 4294967296.
  set (v := index mod 4294967296).
  assert (Hv : index = 4294967296 * (index / 4294967296) + v) by (apply N.div_mod; lia).
  assert (Hlt : v < 4294967296) by (apply N.mod_upper_bound; lia).
  generalize dependent (index / 4294967296). intros q Hv. clearbody v. subst index.
  set (i := 4294967296 * q + v).
  rewrite !N.div_div by lia. change (256 * 256 * 256) with 16777216. change (256 * 256) with 65536.
  assert (E0 : i mod 256 = v mod 256) by (subst i; lia).
  assert (E1 : (i / 256) mod 256 = (v / 256) mod 256) by (exact (byte_of_low 65536 256 q v ltac:(lia))).
  assert (E2 : (i / 65536) mod 256 = (v / 65536) mod 256) by (exact (byte_of_low 256 65536 q v ltac:(lia))).
  assert (E3 : (i / 16777216) mod 256 = (v / 16777216) mod 256) by (exact (byte_of_low 1 16777216 q v ltac:(lia))).
  rewrite E0, E1, E2, E3. reflexivity.
Qed.

Lemma outpoint_lit_m : lit lits_Filter_matchesOutPoint 0 = 4.
Proof. reflexivity. Qed.
Lemma outpoint_lit_a : lit lits_Filter_addOutPoint 0 = 4.
Proof. reflexivity. Qed.

Lemma outpoint_bytes_m_val txid index :
  Bloom.outpoint_bytes_m txid index
  = txid ++ [index mod 256; (index / 256) mod 256; (index / 65536) mod 256; (index / 16777216) mod 256].
Proof.
  unfold Bloom.outpoint_bytes_m. eval_term (N.to_nat (lit lits_Filter_matchesOutPoint 0)).
  rewrite le_bytes_4_w32. reflexivity.
Qed.

Lemma outpoint_bytes_val txid index :
  Bloom.outpoint_bytes txid index
  = txid ++ [index mod 256; (index / 256) mod 256; (index / 65536) mod 256; (index / 16777216) mod 256].
Proof.
  unfold Bloom.outpoint_bytes. eval_term (N.to_nat (lit lits_Filter_addOutPoint 0)).
  rewrite le_bytes_4_w32. reflexivity.
Qed.

(* the two copies of the serialisation in the model agree (the two Go functions use the same width) *)
Theorem outpoint_bytes_agree txid index : Bloom.outpoint_bytes_m txid index = Bloom.outpoint_bytes txid index.
Proof. rewrite outpoint_bytes_m_val, outpoint_bytes_val. reflexivity. Qed.
Print Assumptions outpoint_bytes_agree.

(* ====================================================================== *)
(* 3. the buffer of matchesOutPoint / addOutPoint                          *)
(* ====================================================================== *)
(* [length txid = 32] is what the Go type chainhash.Hash = [32]byte guarantees.  It is needed: a
   shorter txid leaves zero bytes of the array between hash and index (model: none), a longer one is
   cut at 32 by the PutUint32 that follows (model: kept whole).  Nothing is assumed of index. *)
Theorem outpoint_buf_tie txid index :
  length txid = 32%nat ->
  rbind (Go.copy_at (repeat 0 36) 0%Z txid) (fun buf => Go.put_le32 buf 32%Z index)
  = Ok (Bloom.outpoint_bytes_m txid index).
Proof.
  intros Hl. rewrite copy_at_zero by (rewrite Hl, repeat_length; lia).
  rewrite rbind_ok, Hl. eval_term (skipn 32 (repeat 0 36)).
  replace 32%Z with (Z.of_nat (length txid)) by (rewrite Hl; reflexivity).
  rewrite <- (app_nil_r [0; 0; 0; 0]).
  rewrite put_le32_mid by reflexivity. rewrite app_nil_r.
  rewrite outpoint_bytes_m_val. reflexivity.
Qed.
Print Assumptions outpoint_buf_tie.

Theorem outpoint_buf_tie_add txid index :
  length txid = 32%nat ->
  rbind (Go.copy_at (repeat 0 36) 0%Z txid) (fun buf => Go.put_le32 buf 32%Z index)
  = Ok (Bloom.outpoint_bytes txid index).
Proof. intros Hl. rewrite outpoint_buf_tie by exact Hl. rewrite outpoint_bytes_agree. reflexivity. Qed.
Print Assumptions outpoint_buf_tie_add.

(* whatever the length of txid, building the buffer does not panic *)
Lemma outpoint_buf_ok (txid : list N) index :
  exists buf, rbind (Go.copy_at (repeat 0 36) 0%Z txid) (fun buf => Go.put_le32 buf 32%Z index) = Ok buf.
Proof.
  destruct (copy_at_zero_length (repeat 0 36) txid) as (r & -> & Hr). rewrite rbind_ok.
  apply put_le32_36_ok. rewrite Hr. reflexivity.
Qed.

Lemma outpoint_bytes_m_Bytes txid index : Bytes txid -> Bytes (Bloom.outpoint_bytes_m txid index).
Proof. intros H. unfold Bloom.outpoint_bytes_m. apply Bytes_app. split; [exact H | apply le_bytes_Bytes]. Qed.

Lemma outpoint_bytes_m_length txid index :
  length txid = 32%nat -> length (Bloom.outpoint_bytes_m txid index) = 36%nat.
Proof. intros H. rewrite outpoint_bytes_m_val, app_length, H. reflexivity. Qed.

(* ====================================================================== *)
(* 4. Filter.matchesOutPoint                                               *)
(* ====================================================================== *)
(* Hypotheses:  length txid = 32  — see outpoint_buf_tie (a Go type invariant);
                Bytes txid        — murmur3 of the model and of the code agree on bytes only
                                    (hypothesis [Bytes data] of Filter_matches_tie);
                m_nhash m < 2^32  — HashFuncs is a uint32 (hypothesis of Filter_matches_tie);
                len_ok_msg m      — uint32(len)<<3 does not wrap (hypothesis of Filter_matches_tie).
   [index < 2^32] is NOT needed (le_bytes_4_w32); [N.of_nat (length data) < 2^32] of
   Filter_matches_tie is discharged (36). *)
Theorem Filter_matchesOutPoint_tie m txid index :
  length txid = 32%nat -> Bytes txid -> m_nhash m < 2 ^ 32 -> len_ok_msg m ->
  Kernels2.Filter_matchesOutPoint txid index false (m_bytes m) (m_nhash m) (m_tweak m)
  = Ok (Bloom.matches_outpoint (Some m) txid index).
Proof.
  intros Hl Hb Hn Hok. unfold Kernels2.Filter_matchesOutPoint.
  pose proof (outpoint_buf_tie txid index Hl) as Hbuf.
  destruct (Go.copy_at (repeat 0 36) 0%Z txid) as [b|c|k]; cbn [rbind] in Hbuf |- *; try discriminate Hbuf.
  rewrite Hbuf. cbn [rbind].
  rewrite Filter_matches_tie; [reflexivity | | | exact Hn | exact Hok].
  - apply outpoint_bytes_m_Bytes; exact Hb.
  - rewrite outpoint_bytes_m_length by exact Hl. reflexivity.
Qed.
Print Assumptions Filter_matchesOutPoint_tie.

(* the form with the (redundant) uint32 range of index *)
Corollary Filter_matchesOutPoint_tie' m txid index :
  length txid = 32%nat -> Bytes txid -> index < 2 ^ 32 -> m_nhash m < 2 ^ 32 -> len_ok_msg m ->
  Kernels2.Filter_matchesOutPoint txid index false (m_bytes m) (m_nhash m) (m_tweak m)
  = Ok (Bloom.matches_outpoint (Some m) txid index).
Proof. intros Hl Hb _ Hn Hok. apply Filter_matchesOutPoint_tie; assumption. Qed.
Print Assumptions Filter_matchesOutPoint_tie'.

(* nil receiver / unloaded filter: no hypothesis at all (the buffer is built without panic for any txid) *)
Theorem Filter_matchesOutPoint_nil_tie txid index bytes nh tw :
  Kernels2.Filter_matchesOutPoint txid index true bytes nh tw
  = Ok (Bloom.matches_outpoint None txid index).
Proof.
  unfold Kernels2.Filter_matchesOutPoint.
  destruct (outpoint_buf_ok txid index) as (buf & Hbuf).
  destruct (Go.copy_at (repeat 0 36) 0%Z txid) as [b|c|k]; cbn [rbind] in Hbuf |- *; try discriminate Hbuf.
  rewrite Hbuf. cbn [rbind]. rewrite Filter_matches_nil_tie. reflexivity.
Qed.
Print Assumptions Filter_matchesOutPoint_nil_tie.

(* ====================================================================== *)
(* 5. Filter.addOutPoint                                                   *)
(* ====================================================================== *)
(* Same hypotheses as Filter_matchesOutPoint_tie, for the same reasons (those of Filter_add_tie);
   same form as Filter_add_tie: the returned array is the array of the model's new filter, and the
   model changes nothing but the array. *)
Theorem Filter_addOutPoint_tie m txid index :
  length txid = 32%nat -> Bytes txid -> m_nhash m < 2 ^ 32 -> len_ok_msg m ->
  Kernels2.Filter_addOutPoint txid index false (m_bytes m) (m_nhash m) (m_tweak m)
  = Ok (filter_bytes (Bloom.add_outpoint (Some m) txid index)) /\
  Bloom.add_outpoint (Some m) txid index
  = Some (MkMsg (filter_bytes (Bloom.add_outpoint (Some m) txid index)) (m_nhash m) (m_tweak m) (Bloom.m_flags m)).
Proof.
  intros Hl Hb Hn Hok. unfold Kernels2.Filter_addOutPoint, Bloom.add_outpoint.
  pose proof (outpoint_buf_tie_add txid index Hl) as Hbuf.
  assert (HB : Bytes (Bloom.outpoint_bytes txid index))
    by (rewrite <- outpoint_bytes_agree; apply outpoint_bytes_m_Bytes; exact Hb).
  assert (HL : N.of_nat (length (Bloom.outpoint_bytes txid index)) < 2 ^ 32)
    by (rewrite <- outpoint_bytes_agree, outpoint_bytes_m_length by exact Hl; reflexivity).
  destruct (Filter_add_tie m (Bloom.outpoint_bytes txid index) HB HL Hn Hok) as (Ha & Hm).
  split; [|exact Hm].
  destruct (Go.copy_at (repeat 0 36) 0%Z txid) as [b|c|k]; cbn [rbind] in Hbuf |- *; try discriminate Hbuf.
  rewrite Hbuf. cbn [rbind]. rewrite Ha. reflexivity.
Qed.
Print Assumptions Filter_addOutPoint_tie.

Theorem Filter_addOutPoint_nil_tie txid index bytes nh tw :
  Kernels2.Filter_addOutPoint txid index true bytes nh tw = Ok bytes /\
  Bloom.add_outpoint None txid index = None.
Proof.
  split; [|reflexivity]. unfold Kernels2.Filter_addOutPoint.
  destruct (outpoint_buf_ok txid index) as (buf & Hbuf).
  destruct (Go.copy_at (repeat 0 36) 0%Z txid) as [b|c|k]; cbn [rbind] in Hbuf |- *; try discriminate Hbuf.
  rewrite Hbuf. cbn [rbind].
  destruct (Filter_add_nil_tie bytes nh tw buf) as (-> & _). reflexivity.
Qed.
Print Assumptions Filter_addOutPoint_nil_tie.

(* Tie of the address.go / wif.go / block.go functions of Gen/Kernels4.v (the public constructors, the
   Hash160 / Hash256 / String / Format / SetFormat / PubKey accessors, ConvertSlpToCashAddress,
   ConvertCashToSlpAddress, paramsFromNetID, AddressPubKey.AddressPubKeyHash, NewWIF, OutOfRangeError.Error).

   The instantiation of the abstract dependencies is the one of Tie/Kernels3_AddressLib.v and
   Tie/Kernels3_Wif.v (PublicKey_t := option P, bchutil.Hash160 := hash160 ripemd160,
   bchutil.Hash256 := hash256, sha256.Sum256 := sha256, base58.Encode := Base58.encode,
   a *chaincfg.Params argument := Some (params_of net), PrivateKey_t := N).

   TIES AGAINST THE MODEL (Address/Address.v, Wif/Wif.v):
     NewAddressPubKeyHash_tie, NewAddressScriptHashFromHash_tie, NewAddressScriptHash_tie,
     NewAddressScriptHash32FromHash_tie, NewAddressScriptHash32_tie, NewLegacyAddressPubKeyHash_tie,
     NewLegacyAddressScriptHashFromHash_tie, NewLegacyAddressScriptHash_tie
       (new_pkh, new_sh, new_sh_script, new_sh32, new_sh32_script, new_leg_pkh, new_leg_sh, new_leg_sh_script;
        each through the tie of the unexported constructor in Tie/Kernels3_Address.v),
     the five X_Hash160_model_tie / Hash256_model_tie (script_address),
     the five X_String_model_tie (addr_string, through the EncodeAddress ties of Tie/Kernels3_Address.v),
     AddressPubKey_Format_model_tie, AddressPubKey_SetFormat_model_tie, AddressPubKey_PubKey_model_tie
       (the fields of the model's PubKey address),
     ConvertCashToSlpAddress_model_tie, ConvertSlpToCashAddress_model_tie (the model's PKH / SH addresses),
     NewWIF_model_tie (new_wif).

   TIES AGAINST A SPECIFICATION WRITTEN IN THIS FILE (over the generated records, all inputs):
     the eight constructor wrappers: X_wrapper_tie (equal to the unexported constructor of Gen/Kernels3.v,
       for every hash and every params pointer, nil included),
     X_Hash160_tie / Hash256_tie (the address of the hash field), X_String_tie (= X_EncodeAddress),
     ConvertSlpToCashAddress_tie, ConvertCashToSlpAddress_tie (convert_spec) and the round-trip facts
       Convert_roundtrip_pkh_tie, Convert_roundtrip_sh_tie, Convert_other_tie, Convert_nilptr_tie,
     AddressPubKey_Format_tie, AddressPubKey_SetFormat_tie, AddressPubKey_PubKey_tie (field access / update),
     paramsFromNetID_tie (params_from_net_id: first match in a table) and paramsFromNetID_cases_tie,
       paramsFromNetID_nets_tie (the values on the default networks of Gen/Nets.v),
     AddressPubKey_AddressPubKeyHash_tie (pubkey_to_pkh_spec), NewWIF_tie (new_wif_spec),
     OutOfRangeError_Error_tie. *)
From BU Require Import Lib.Bytes Lib.Radix Lib.PolyMod Lib.Sha256 Gen.Xbchutil Gen.Nets Base58.Base58
  Wif.Wif Tie.Kernels3_Wif
  CashAddr.CashAddr Address.Bits Address.Address Address.CashProofs
  Gen.Kernels2 Gen.Kernels3 Gen.Kernels4 Tie.Kernels2Lib Tie.Kernels3Lib Tie.Kernels3_Base58
  Tie.Kernels2_CashAddrEncode Tie.Kernels3_AddressLib Tie.Kernels3_Address.
From Coq Require Import Lia ZifyBool ZifyN ZifyNat.

(* ====================================================================================================
   1. The public constructors: thin wrappers of the unexported ones
   ==================================================================================================== *)

(* the unexported constructors only return the error values 0 (nil) and 1 (their single error site) *)
Definition err01 {A} (r : res (A * N)) : Prop :=
  match r with Ok (_, e) => e = 0 \/ e = 1 | _ => True end.

Lemma wrap_prop1 {A} (r : res (A * N)) : err01 r ->
  (do (a, e) <- r ;; Ok (a, Go3.prop 1 e)) = r.
Proof.
  destruct r as [[a e]|e|k]; cbn [err01 rbind]; intros H01; try reflexivity.
  destruct H01 as [-> | ->]; reflexivity.
Qed.

Lemma copy_at_ok {A} (dst src : list A) : exists r, Go.copy_at dst 0%Z src = Ok r.
Proof. rewrite copy_at_0. eexists. reflexivity. Qed.

Ltac err01_tac f :=
  intros; unfold f;
  match goal with |- context [negb ?b] => destruct b end; cbn [negb err01]; [|now right];
  match goal with
  | |- context [Go3.deref ?net] => destruct net; cbn [Go3.deref rbind err01]; [|exact I]
  | _ => idtac
  end;
  match goal with |- context [Go.copy_at ?d 0%Z ?s] =>
    let r := fresh "r" in let Hr := fresh "Hr" in destruct (copy_at_ok d s) as [r Hr]; rewrite Hr end;
  cbn [rbind err01]; now left.

Lemma newAddressPubKeyHash_err01 h net : err01 (Kernels3.newAddressPubKeyHash h net).
Proof. err01_tac Kernels3.newAddressPubKeyHash. Qed.
Lemma newAddressScriptHashFromHash_err01 h net : err01 (Kernels3.newAddressScriptHashFromHash h net).
Proof. err01_tac Kernels3.newAddressScriptHashFromHash. Qed.
Lemma newAddressScriptHash32FromHash_err01 h net : err01 (Kernels3.newAddressScriptHash32FromHash h net).
Proof. err01_tac Kernels3.newAddressScriptHash32FromHash. Qed.
Lemma newLegacyAddressPubKeyHash_err01 h id : err01 (Kernels3.newLegacyAddressPubKeyHash h id).
Proof. err01_tac Kernels3.newLegacyAddressPubKeyHash. Qed.
Lemma newLegacyAddressScriptHashFromHash_err01 h id : err01 (Kernels3.newLegacyAddressScriptHashFromHash h id).
Proof. err01_tac Kernels3.newLegacyAddressScriptHashFromHash. Qed.

(* ---------- specification: the wrapper returns what the unexported constructor returns ---------- *)
Theorem NewAddressPubKeyHash_wrapper_tie h net :
  Kernels4.NewAddressPubKeyHash h net = Kernels3.newAddressPubKeyHash h net.
Proof. apply wrap_prop1, newAddressPubKeyHash_err01. Qed.

Theorem NewAddressScriptHashFromHash_wrapper_tie h net :
  Kernels4.NewAddressScriptHashFromHash h net = Kernels3.newAddressScriptHashFromHash h net.
Proof. apply wrap_prop1, newAddressScriptHashFromHash_err01. Qed.

Theorem NewAddressScriptHash_wrapper_tie (H160 : list N -> list N) script net :
  Kernels4.NewAddressScriptHash H160 script net = Kernels3.newAddressScriptHashFromHash (H160 script) net.
Proof. apply wrap_prop1, newAddressScriptHashFromHash_err01. Qed.

Theorem NewAddressScriptHash32FromHash_wrapper_tie h net :
  Kernels4.NewAddressScriptHash32FromHash h net = Kernels3.newAddressScriptHash32FromHash h net.
Proof. apply wrap_prop1, newAddressScriptHash32FromHash_err01. Qed.

Theorem NewAddressScriptHash32_wrapper_tie (H256 : list N -> list N) script net :
  Kernels4.NewAddressScriptHash32 H256 script net = Kernels3.newAddressScriptHash32FromHash (H256 script) net.
Proof. apply wrap_prop1, newAddressScriptHash32FromHash_err01. Qed.

(* the Legacy wrappers read net.LegacyPubKeyHashAddrID / net.LegacyScriptHashAddrID first: a nil net is a nil
   dereference whatever the hash *)
Definition with_params {B} (net : option Kernels3.chaincfg_Params) (f : Kernels3.chaincfg_Params -> res B) : res B :=
  match net with Some p => f p | None => Panic 5 end.

Theorem NewLegacyAddressPubKeyHash_wrapper_tie h net :
  Kernels4.NewLegacyAddressPubKeyHash h net
  = with_params net (fun p => Kernels3.newLegacyAddressPubKeyHash h (Kernels3.chaincfg_Params_LegacyPubKeyHashAddrID p)).
Proof.
  unfold Kernels4.NewLegacyAddressPubKeyHash, with_params. destruct net as [p|]; [|reflexivity].
  cbn [Go3.deref rbind]. apply wrap_prop1, newLegacyAddressPubKeyHash_err01.
Qed.

Theorem NewLegacyAddressScriptHashFromHash_wrapper_tie h net :
  Kernels4.NewLegacyAddressScriptHashFromHash h net
  = with_params net (fun p =>
      Kernels3.newLegacyAddressScriptHashFromHash h (Kernels3.chaincfg_Params_LegacyScriptHashAddrID p)).
Proof.
  unfold Kernels4.NewLegacyAddressScriptHashFromHash, with_params. destruct net as [p|]; [|reflexivity].
  cbn [Go3.deref rbind]. apply wrap_prop1, newLegacyAddressScriptHashFromHash_err01.
Qed.

Theorem NewLegacyAddressScriptHash_wrapper_tie (H160 : list N -> list N) script net :
  Kernels4.NewLegacyAddressScriptHash H160 script net
  = with_params net (fun p =>
      Kernels3.newLegacyAddressScriptHashFromHash (H160 script) (Kernels3.chaincfg_Params_LegacyScriptHashAddrID p)).
Proof.
  unfold Kernels4.NewLegacyAddressScriptHash, with_params. destruct net as [p|]; [|reflexivity].
  cbn [Go3.deref rbind]. apply wrap_prop1, newLegacyAddressScriptHashFromHash_err01.
Qed.

(* closed forms of the two CashAddr constructors used by Convert*, for every hash and every params pointer *)
Lemma newAddressPubKeyHash_closed h net :
  Kernels3.newAddressPubKeyHash h net
  = if (length h =? 20)%nat
    then with_params net (fun p =>
           Ok (Some (Kernels3.mk_bchutil_AddressPubKeyHash h (Kernels3.chaincfg_Params_CashAddressPrefix p)), 0))
    else Ok (None, 1).
Proof.
  unfold Kernels3.newAddressPubKeyHash, with_params.
  destruct (Nat.eqb_spec (length h) 20) as [Hl|Hl]; destruct (Z.eqb_spec (Z.of_nat (length h)) 20) as [Hz|Hz];
    try lia; cbn [negb]; [|reflexivity].
  destruct net as [p|]; [|reflexivity]. cbn [Go3.deref rbind Kernels3.bchutil_AddressPubKeyHash_hash].
  rewrite copy_at_full by (rewrite repeat_length; exact Hl). reflexivity.
Qed.

Lemma newAddressScriptHashFromHash_closed h net :
  Kernels3.newAddressScriptHashFromHash h net
  = if (length h =? 20)%nat
    then with_params net (fun p =>
           Ok (Some (Kernels3.mk_bchutil_AddressScriptHash h (Kernels3.chaincfg_Params_CashAddressPrefix p)), 0))
    else Ok (None, 1).
Proof.
  unfold Kernels3.newAddressScriptHashFromHash, with_params.
  destruct (Nat.eqb_spec (length h) 20) as [Hl|Hl]; destruct (Z.eqb_spec (Z.of_nat (length h)) 20) as [Hz|Hz];
    try lia; cbn [negb]; [|reflexivity].
  destruct net as [p|]; [|reflexivity]. cbn [Go3.deref rbind Kernels3.bchutil_AddressScriptHash_hash].
  rewrite copy_at_full by (rewrite repeat_length; exact Hl). reflexivity.
Qed.

Section AddrTie4.
Variable ripemd160 : list N -> list N.
Variable P : Type.
Variable ec_parse : list N -> option P.
Variable ec_ser : N -> P -> list N.

Local Notation gaddr := (Kernels3.bchutil_Address (option P)).
Local Notation G_PKH := (Kernels3.bchutil_Address_AddressPubKeyHash (option P)).
Local Notation G_SH := (Kernels3.bchutil_Address_AddressScriptHash (option P)).
Local Notation G_SH32 := (Kernels3.bchutil_Address_AddressScriptHash32 (option P)).
Local Notation G_LegPKH := (Kernels3.bchutil_Address_LegacyAddressPubKeyHash (option P)).
Local Notation G_LegSH := (Kernels3.bchutil_Address_LegacyAddressScriptHash (option P)).
Local Notation G_PubKey := (Kernels3.bchutil_Address_AddressPubKey (option P)).
Local Notation G_nil := (Kernels3.bchutil_Address_nil (option P)).

(* ---------- model: the public constructors are the model's constructors ---------- *)
Theorem NewAddressPubKeyHash_tie n h :
  Kernels4.NewAddressPubKeyHash h (Some (params_of n)) = ctor_view pkh_of code1 (new_pkh P n false h).
Proof. rewrite NewAddressPubKeyHash_wrapper_tie. apply newAddressPubKeyHash_tie. Qed.

Theorem NewAddressScriptHashFromHash_tie n h :
  Kernels4.NewAddressScriptHashFromHash h (Some (params_of n)) = ctor_view sh_of code1 (new_sh P n false h).
Proof. rewrite NewAddressScriptHashFromHash_wrapper_tie. apply newAddressScriptHashFromHash_tie. Qed.

Theorem NewAddressScriptHash_tie n script :
  Kernels4.NewAddressScriptHash (hash160 ripemd160) script (Some (params_of n))
  = ctor_view sh_of code1 (new_sh_script ripemd160 P n script).
Proof. rewrite NewAddressScriptHash_wrapper_tie. apply newAddressScriptHashFromHash_tie. Qed.

Theorem NewAddressScriptHash32FromHash_tie n h :
  Kernels4.NewAddressScriptHash32FromHash h (Some (params_of n)) = ctor_view sh32_of code1 (new_sh32 P n false h).
Proof. rewrite NewAddressScriptHash32FromHash_wrapper_tie. apply newAddressScriptHash32FromHash_tie. Qed.

Theorem NewAddressScriptHash32_tie n script :
  Kernels4.NewAddressScriptHash32 hash256 script (Some (params_of n))
  = ctor_view sh32_of code1 (new_sh32_script P n script).
Proof. rewrite NewAddressScriptHash32_wrapper_tie. apply newAddressScriptHash32FromHash_tie. Qed.

Theorem NewLegacyAddressPubKeyHash_tie n h :
  Kernels4.NewLegacyAddressPubKeyHash h (Some (params_of n))
  = ctor_view leg_pkh_of code1 (new_leg_pkh P (pkh_id n) h).
Proof. rewrite NewLegacyAddressPubKeyHash_wrapper_tie. apply newLegacyAddressPubKeyHash_tie. Qed.

Theorem NewLegacyAddressScriptHashFromHash_tie n h :
  Kernels4.NewLegacyAddressScriptHashFromHash h (Some (params_of n))
  = ctor_view leg_sh_of code1 (new_leg_sh P (sh_id n) h).
Proof. rewrite NewLegacyAddressScriptHashFromHash_wrapper_tie. apply newLegacyAddressScriptHashFromHash_tie. Qed.

Theorem NewLegacyAddressScriptHash_tie n script :
  Kernels4.NewLegacyAddressScriptHash (hash160 ripemd160) script (Some (params_of n))
  = ctor_view leg_sh_of code1 (new_leg_sh_script ripemd160 P n script).
Proof. rewrite NewLegacyAddressScriptHash_wrapper_tie. apply newLegacyAddressScriptHashFromHash_tie. Qed.

(* a nil *chaincfg.Params: the CashAddr constructors dereference it only after the length check, the Legacy
   ones before *)
Theorem NewAddressPubKeyHash_nil_tie h :
  Kernels4.NewAddressPubKeyHash h None = if (length h =? 20)%nat then Panic 5 else Ok (None, 1).
Proof. rewrite NewAddressPubKeyHash_wrapper_tie. apply newAddressPubKeyHash_nil. Qed.

Theorem NewLegacy_nil_tie (H160 : list N -> list N) h :
  Kernels4.NewLegacyAddressPubKeyHash h None = Panic 5 /\
  Kernels4.NewLegacyAddressScriptHashFromHash h None = Panic 5 /\
  Kernels4.NewLegacyAddressScriptHash H160 h None = Panic 5.
Proof. repeat split. Qed.

(* ====================================================================================================
   2. Hash160 / Hash256: the address of the hash field (never nil)
   ==================================================================================================== *)
Theorem AddressPubKeyHash_Hash160_tie a :
  Kernels4.AddressPubKeyHash_Hash160 a = Some (Kernels3.bchutil_AddressPubKeyHash_hash a).
Proof. reflexivity. Qed.
Theorem AddressScriptHash_Hash160_tie a :
  Kernels4.AddressScriptHash_Hash160 a = Some (Kernels3.bchutil_AddressScriptHash_hash a).
Proof. reflexivity. Qed.
Theorem AddressScriptHash32_Hash256_tie a :
  Kernels4.AddressScriptHash32_Hash256 a = Some (Kernels3.bchutil_AddressScriptHash32_hash a).
Proof. reflexivity. Qed.
Theorem LegacyAddressPubKeyHash_Hash160_tie a :
  Kernels4.LegacyAddressPubKeyHash_Hash160 a = Some (Kernels3.bchutil_LegacyAddressPubKeyHash_hash a).
Proof. reflexivity. Qed.
Theorem LegacyAddressScriptHash_Hash160_tie a :
  Kernels4.LegacyAddressScriptHash_Hash160 a = Some (Kernels3.bchutil_LegacyAddressScriptHash_hash a).
Proof. reflexivity. Qed.

(* model: the hash of the model's address (its script_address) *)
Theorem AddressPubKeyHash_Hash160_model_tie p h :
  Kernels4.AddressPubKeyHash_Hash160 (g_pkh p h) = Some (script_address P ec_ser (PKH p h)).
Proof. reflexivity. Qed.
Theorem AddressScriptHash_Hash160_model_tie p h :
  Kernels4.AddressScriptHash_Hash160 (g_sh p h) = Some (script_address P ec_ser (SH p h)).
Proof. reflexivity. Qed.
Theorem AddressScriptHash32_Hash256_model_tie p h :
  Kernels4.AddressScriptHash32_Hash256 (g_sh32 p h) = Some (script_address P ec_ser (SH32 p h)).
Proof. reflexivity. Qed.
Theorem LegacyAddressPubKeyHash_Hash160_model_tie id h :
  Kernels4.LegacyAddressPubKeyHash_Hash160 (g_leg_pkh id h) = Some (script_address P ec_ser (LegPKH id h)).
Proof. reflexivity. Qed.
Theorem LegacyAddressScriptHash_Hash160_model_tie id h :
  Kernels4.LegacyAddressScriptHash_Hash160 (g_leg_sh id h) = Some (script_address P ec_ser (LegSH id h)).
Proof. reflexivity. Qed.

(* ====================================================================================================
   3. String() = EncodeAddress() for the five hash address types
   ==================================================================================================== *)
Lemma rbind_ret {A} (r : res A) : (do t <- r ;; Ok t) = r.
Proof. destruct r; reflexivity. Qed.

Theorem AddressPubKeyHash_String_tie fuel a :
  Kernels4.AddressPubKeyHash_String fuel a = Kernels3.AddressPubKeyHash_EncodeAddress fuel a.
Proof. apply rbind_ret. Qed.
Theorem AddressScriptHash_String_tie fuel a :
  Kernels4.AddressScriptHash_String fuel a = Kernels3.AddressScriptHash_EncodeAddress fuel a.
Proof. apply rbind_ret. Qed.
Theorem AddressScriptHash32_String_tie fuel a :
  Kernels4.AddressScriptHash32_String fuel a = Kernels3.AddressScriptHash32_EncodeAddress fuel a.
Proof. apply rbind_ret. Qed.
Theorem LegacyAddressPubKeyHash_String_tie (S256 B58 : list N -> list N) a :
  Kernels4.LegacyAddressPubKeyHash_String S256 B58 a = Kernels3.LegacyAddressPubKeyHash_EncodeAddress S256 B58 a.
Proof. apply rbind_ret. Qed.
Theorem LegacyAddressScriptHash_String_tie (S256 B58 : list N -> list N) a :
  Kernels4.LegacyAddressScriptHash_String S256 B58 a = Kernels3.LegacyAddressScriptHash_EncodeAddress S256 B58 a.
Proof. apply rbind_ret. Qed.

(* model: addr_string (63 <= fuel for the three CashAddr types, see encodeCashAddress_tie) *)
Theorem AddressPubKeyHash_String_model_tie fuel p h : (63 <= fuel)%nat ->
  Kernels4.AddressPubKeyHash_String fuel (g_pkh p h) = addr_string ripemd160 P ec_ser (PKH p h).
Proof.
  intros Hf. rewrite AddressPubKeyHash_String_tie.
  exact (AddressPubKeyHash_EncodeAddress_tie ripemd160 P ec_ser fuel p h Hf).
Qed.
Theorem AddressScriptHash_String_model_tie fuel p h : (63 <= fuel)%nat ->
  Kernels4.AddressScriptHash_String fuel (g_sh p h) = addr_string ripemd160 P ec_ser (SH p h).
Proof.
  intros Hf. rewrite AddressScriptHash_String_tie.
  exact (AddressScriptHash_EncodeAddress_tie ripemd160 P ec_ser fuel p h Hf).
Qed.
Theorem AddressScriptHash32_String_model_tie fuel p h : (63 <= fuel)%nat ->
  Kernels4.AddressScriptHash32_String fuel (g_sh32 p h) = addr_string ripemd160 P ec_ser (SH32 p h).
Proof.
  intros Hf. rewrite AddressScriptHash32_String_tie.
  exact (AddressScriptHash32_EncodeAddress_tie ripemd160 P ec_ser fuel p h Hf).
Qed.
Theorem LegacyAddressPubKeyHash_String_model_tie id h :
  Kernels4.LegacyAddressPubKeyHash_String sha256 Base58.encode (g_leg_pkh id h)
  = addr_string ripemd160 P ec_ser (LegPKH id h).
Proof.
  rewrite LegacyAddressPubKeyHash_String_tie.
  exact (LegacyAddressPubKeyHash_EncodeAddress_tie ripemd160 P ec_ser id h).
Qed.
Theorem LegacyAddressScriptHash_String_model_tie id h :
  Kernels4.LegacyAddressScriptHash_String sha256 Base58.encode (g_leg_sh id h)
  = addr_string ripemd160 P ec_ser (LegSH id h).
Proof.
  rewrite LegacyAddressScriptHash_String_tie.
  exact (LegacyAddressScriptHash_EncodeAddress_tie ripemd160 P ec_ser id h).
Qed.

(* ====================================================================================================
   4. ConvertSlpToCashAddress / ConvertCashToSlpAddress
   ==================================================================================================== *)
(* Specification, for every interface value and every params pointer.  [slp] selects the prefix written
   (true: SlpAddressPrefix, ConvertCashToSlpAddress; false: CashAddressPrefix, ConvertSlpToCashAddress).
   - a *AddressPubKeyHash / *AddressScriptHash: a nil pointer in the interface is a nil dereference (a.Hash160());
     otherwise the constructor is called on the hash: a hash whose length is not 20 (impossible in Go, the
     field is an array) gives the error site 1 / 2 and the interface holding the typed nil pointer; a nil
     params is a nil dereference; otherwise the same hash with the prefix of params;
   - any other dynamic type, the nil interface included: the nil interface and the error site 3
     (params is not looked at). *)
Definition conv_prefix (slp : bool) (p : Kernels3.chaincfg_Params) : list N :=
  if slp then Kernels3.chaincfg_Params_SlpAddressPrefix p else Kernels3.chaincfg_Params_CashAddressPrefix p.

Definition convert_spec (slp : bool) (addr : gaddr) (params : option Kernels3.chaincfg_Params) : res (gaddr * N) :=
  match addr with
  | Kernels3.bchutil_Address_AddressPubKeyHash _ None => Panic 5
  | Kernels3.bchutil_Address_AddressPubKeyHash _ (Some a) =>
      let h := Kernels3.bchutil_AddressPubKeyHash_hash a in
      if (length h =? 20)%nat then
        with_params params (fun p =>
          Ok (G_PKH (Some (Kernels3.mk_bchutil_AddressPubKeyHash h (conv_prefix slp p))), 0))
      else Ok (G_PKH None, 1)
  | Kernels3.bchutil_Address_AddressScriptHash _ None => Panic 5
  | Kernels3.bchutil_Address_AddressScriptHash _ (Some a) =>
      let h := Kernels3.bchutil_AddressScriptHash_hash a in
      if (length h =? 20)%nat then
        with_params params (fun p =>
          Ok (G_SH (Some (Kernels3.mk_bchutil_AddressScriptHash h (conv_prefix slp p))), 0))
      else Ok (G_SH None, 2)
  | _ => Ok (G_nil, 3)
  end.

Theorem ConvertSlpToCashAddress_tie addr params :
  Kernels4.ConvertSlpToCashAddress (option P) addr params = convert_spec false addr params.
Proof.
  unfold Kernels4.ConvertSlpToCashAddress, convert_spec.
  destruct addr as [[a|]|[a|]|?|?|?|?|]; try reflexivity; cbn [Go3.deref rbind].
  - unfold Kernels4.AddressPubKeyHash_Hash160. cbn [Go3.deref rbind].
    rewrite NewAddressPubKeyHash_wrapper_tie, newAddressPubKeyHash_closed.
    destruct (length _ =? 20)%nat; [|reflexivity]. destruct params as [p|]; reflexivity.
  - unfold Kernels4.AddressScriptHash_Hash160. cbn [Go3.deref rbind].
    rewrite NewAddressScriptHashFromHash_wrapper_tie, newAddressScriptHashFromHash_closed.
    destruct (length _ =? 20)%nat; [|reflexivity]. destruct params as [p|]; reflexivity.
Qed.

Theorem ConvertCashToSlpAddress_tie addr params :
  Kernels4.ConvertCashToSlpAddress (option P) addr params = convert_spec true addr params.
Proof.
  unfold Kernels4.ConvertCashToSlpAddress, convert_spec.
  destruct addr as [[a|]|[a|]|?|?|?|?|]; try reflexivity; cbn [Go3.deref rbind].
  - unfold Kernels4.AddressPubKeyHash_Hash160. cbn [Go3.deref rbind].
    unfold Kernels3.NewSlpAddressPubKeyHash. rewrite newAddressPubKeyHash_closed.
    destruct (length _ =? 20)%nat; [|reflexivity]. destruct params as [p|]; reflexivity.
  - unfold Kernels4.AddressScriptHash_Hash160. cbn [Go3.deref rbind].
    unfold Kernels3.NewSlpAddressScriptHashFromHash. rewrite newAddressScriptHashFromHash_closed.
    destruct (length _ =? 20)%nat; [|reflexivity]. destruct params as [p|]; reflexivity.
Qed.

(* ---------- round trip ---------- *)
(* a cash P2PKH address value of the network p (hash of length 20, prefix = p.CashAddressPrefix):
   ConvertCashToSlpAddress gives the same hash under p.SlpAddressPrefix, and ConvertSlpToCashAddress of that
   gives the address back; both with a nil error *)
Theorem Convert_roundtrip_pkh_tie (p : Kernels3.chaincfg_Params) (h : list N) : length h = 20%nat ->
  let cash := G_PKH (Some (Kernels3.mk_bchutil_AddressPubKeyHash h (Kernels3.chaincfg_Params_CashAddressPrefix p))) in
  let slp := G_PKH (Some (Kernels3.mk_bchutil_AddressPubKeyHash h (Kernels3.chaincfg_Params_SlpAddressPrefix p))) in
  Kernels4.ConvertCashToSlpAddress (option P) cash (Some p) = Ok (slp, 0) /\
  Kernels4.ConvertSlpToCashAddress (option P) slp (Some p) = Ok (cash, 0).
Proof.
  intros Hl cash slp. rewrite ConvertCashToSlpAddress_tie, ConvertSlpToCashAddress_tie.
  unfold cash, slp, convert_spec. cbn [Kernels3.bchutil_AddressPubKeyHash_hash]. rewrite Hl. split; reflexivity.
Qed.

Theorem Convert_roundtrip_sh_tie (p : Kernels3.chaincfg_Params) (h : list N) : length h = 20%nat ->
  let cash := G_SH (Some (Kernels3.mk_bchutil_AddressScriptHash h (Kernels3.chaincfg_Params_CashAddressPrefix p))) in
  let slp := G_SH (Some (Kernels3.mk_bchutil_AddressScriptHash h (Kernels3.chaincfg_Params_SlpAddressPrefix p))) in
  Kernels4.ConvertCashToSlpAddress (option P) cash (Some p) = Ok (slp, 0) /\
  Kernels4.ConvertSlpToCashAddress (option P) slp (Some p) = Ok (cash, 0).
Proof.
  intros Hl cash slp. rewrite ConvertCashToSlpAddress_tie, ConvertSlpToCashAddress_tie.
  unfold cash, slp, convert_spec. cbn [Kernels3.bchutil_AddressScriptHash_hash]. rewrite Hl. split; reflexivity.
Qed.

(* the input prefix is not looked at: any P2PKH / P2SH value with a 20-byte hash converts *)
Theorem Convert_any_prefix_tie (p : Kernels3.chaincfg_Params) (h pfx : list N) : length h = 20%nat ->
  Kernels4.ConvertCashToSlpAddress (option P) (G_PKH (Some (Kernels3.mk_bchutil_AddressPubKeyHash h pfx))) (Some p)
  = Ok (G_PKH (Some (Kernels3.mk_bchutil_AddressPubKeyHash h (Kernels3.chaincfg_Params_SlpAddressPrefix p))), 0) /\
  Kernels4.ConvertSlpToCashAddress (option P) (G_PKH (Some (Kernels3.mk_bchutil_AddressPubKeyHash h pfx))) (Some p)
  = Ok (G_PKH (Some (Kernels3.mk_bchutil_AddressPubKeyHash h (Kernels3.chaincfg_Params_CashAddressPrefix p))), 0) /\
  Kernels4.ConvertCashToSlpAddress (option P) (G_SH (Some (Kernels3.mk_bchutil_AddressScriptHash h pfx))) (Some p)
  = Ok (G_SH (Some (Kernels3.mk_bchutil_AddressScriptHash h (Kernels3.chaincfg_Params_SlpAddressPrefix p))), 0) /\
  Kernels4.ConvertSlpToCashAddress (option P) (G_SH (Some (Kernels3.mk_bchutil_AddressScriptHash h pfx))) (Some p)
  = Ok (G_SH (Some (Kernels3.mk_bchutil_AddressScriptHash h (Kernels3.chaincfg_Params_CashAddressPrefix p))), 0).
Proof.
  intros Hl. rewrite !ConvertCashToSlpAddress_tie, !ConvertSlpToCashAddress_tie. unfold convert_spec.
  cbn [Kernels3.bchutil_AddressPubKeyHash_hash Kernels3.bchutil_AddressScriptHash_hash]. rewrite Hl.
  repeat split; reflexivity.
Qed.

(* the other address kinds (whatever the pointer inside, nil included), and the nil interface: error site 3 and
   the nil interface, for every params pointer *)
Definition other_kind (addr : gaddr) : Prop :=
  match addr with
  | Kernels3.bchutil_Address_AddressPubKeyHash _ _ | Kernels3.bchutil_Address_AddressScriptHash _ _ => False
  | _ => True
  end.

Theorem Convert_other_tie addr params : other_kind addr ->
  Kernels4.ConvertCashToSlpAddress (option P) addr params = Ok (G_nil, 3) /\
  Kernels4.ConvertSlpToCashAddress (option P) addr params = Ok (G_nil, 3).
Proof. destruct addr; cbn [other_kind]; intros Hk; try contradiction; split; reflexivity. Qed.

(* a nil *AddressPubKeyHash / *AddressScriptHash inside the interface: nil dereference, for every params pointer *)
Theorem Convert_nilptr_tie params :
  Kernels4.ConvertCashToSlpAddress (option P) (G_PKH None) params = Panic 5 /\
  Kernels4.ConvertSlpToCashAddress (option P) (G_PKH None) params = Panic 5 /\
  Kernels4.ConvertCashToSlpAddress (option P) (G_SH None) params = Panic 5 /\
  Kernels4.ConvertSlpToCashAddress (option P) (G_SH None) params = Panic 5.
Proof. repeat split. Qed.

(* a nil params with a convertible address: nil dereference *)
Theorem Convert_nilparams_tie (h pfx : list N) : length h = 20%nat ->
  Kernels4.ConvertCashToSlpAddress (option P) (G_PKH (Some (Kernels3.mk_bchutil_AddressPubKeyHash h pfx))) None = Panic 5 /\
  Kernels4.ConvertSlpToCashAddress (option P) (G_PKH (Some (Kernels3.mk_bchutil_AddressPubKeyHash h pfx))) None = Panic 5 /\
  Kernels4.ConvertCashToSlpAddress (option P) (G_SH (Some (Kernels3.mk_bchutil_AddressScriptHash h pfx))) None = Panic 5 /\
  Kernels4.ConvertSlpToCashAddress (option P) (G_SH (Some (Kernels3.mk_bchutil_AddressScriptHash h pfx))) None = Panic 5.
Proof.
  intros Hl. rewrite !ConvertCashToSlpAddress_tie, !ConvertSlpToCashAddress_tie. unfold convert_spec.
  cbn [Kernels3.bchutil_AddressPubKeyHash_hash Kernels3.bchutil_AddressScriptHash_hash]. rewrite Hl.
  repeat split; reflexivity.
Qed.

(* model: on the model's addresses (seen through to_gen), with the model's constructors *)
Definition conv_model (n : net) (slp : bool) (a : addr P) : res (addr P) :=
  match a with
  | PKH _ h => new_pkh P n slp h
  | SH _ h => new_sh P n slp h
  | _ => Err 3
  end.

(* the view of a Convert result: the model's error classes are 10 (hash length; error site 1 for P2PKH, 2 for
   P2SH, with the typed nil pointer in the interface) and 3 (other kinds; error site 3, nil interface) *)
Definition conv_view (a : addr P) (r : res (addr P)) : res (gaddr * N) :=
  match r with
  | Ok b => Ok (to_gen b, 0)
  | Err e =>
      match a with
      | PKH _ _ => Ok (G_PKH None, 1)
      | SH _ _ => Ok (G_SH None, 2)
      | _ => Ok (G_nil, 3)
      end
  | Panic k => Panic k
  end.

Theorem ConvertCashToSlpAddress_model_tie n a :
  Kernels4.ConvertCashToSlpAddress (option P) (to_gen a) (Some (params_of n)) = conv_view a (conv_model n true a).
Proof.
  rewrite ConvertCashToSlpAddress_tie.
  destruct a as [p h|p h|p h|id h|id h|fmt pt id]; try reflexivity;
    cbn [to_gen convert_spec conv_model g_pkh g_sh Kernels3.bchutil_AddressPubKeyHash_hash
         Kernels3.bchutil_AddressScriptHash_hash]; unfold new_pkh, new_sh; change ripemd160_size with 20%nat;
    destruct (length h =? 20)%nat; reflexivity.
Qed.

Theorem ConvertSlpToCashAddress_model_tie n a :
  Kernels4.ConvertSlpToCashAddress (option P) (to_gen a) (Some (params_of n)) = conv_view a (conv_model n false a).
Proof.
  rewrite ConvertSlpToCashAddress_tie.
  destruct a as [p h|p h|p h|id h|id h|fmt pt id]; try reflexivity;
    cbn [to_gen convert_spec conv_model g_pkh g_sh Kernels3.bchutil_AddressPubKeyHash_hash
         Kernels3.bchutil_AddressScriptHash_hash]; unfold new_pkh, new_sh; change ripemd160_size with 20%nat;
    destruct (length h =? 20)%nat; reflexivity.
Qed.

(* model round trip: a cash address of the network n and its SLP form *)
Theorem Convert_roundtrip_model_tie n h : length h = 20%nat ->
  Kernels4.ConvertCashToSlpAddress (option P) (to_gen (PKH (cash_prefix n) h)) (Some (params_of n))
  = Ok (to_gen (PKH (slp_prefix n) h), 0) /\
  Kernels4.ConvertSlpToCashAddress (option P) (to_gen (PKH (slp_prefix n) h)) (Some (params_of n))
  = Ok (to_gen (PKH (cash_prefix n) h), 0) /\
  Kernels4.ConvertCashToSlpAddress (option P) (to_gen (SH (cash_prefix n) h)) (Some (params_of n))
  = Ok (to_gen (SH (slp_prefix n) h), 0) /\
  Kernels4.ConvertSlpToCashAddress (option P) (to_gen (SH (slp_prefix n) h)) (Some (params_of n))
  = Ok (to_gen (SH (cash_prefix n) h), 0).
Proof.
  intros Hl. rewrite !ConvertCashToSlpAddress_model_tie, !ConvertSlpToCashAddress_model_tie.
  cbn [conv_model]. unfold new_pkh, new_sh. change ripemd160_size with 20%nat. rewrite Hl.
  repeat split; reflexivity.
Qed.

(* ====================================================================================================
   5. AddressPubKey: Format, SetFormat, PubKey
   ==================================================================================================== *)
Theorem AddressPubKey_Format_tie (a : gpubkey P) :
  Kernels4.AddressPubKey_Format (option P) a = Kernels3.bchutil_AddressPubKey_pubKeyFormat (option P) a.
Proof. reflexivity. Qed.

Theorem AddressPubKey_PubKey_tie (a : gpubkey P) :
  Kernels4.AddressPubKey_PubKey (option P) a = Kernels3.bchutil_AddressPubKey_pubKey (option P) a.
Proof. reflexivity. Qed.

(* SetFormat: the record with the format field replaced (the key and the net id unchanged), for every int *)
Theorem AddressPubKey_SetFormat_tie (a : gpubkey P) (f : Z) :
  Kernels4.AddressPubKey_SetFormat (option P) a f
  = Kernels3.mk_bchutil_AddressPubKey (option P) f (Kernels3.bchutil_AddressPubKey_pubKey (option P) a)
      (Kernels3.bchutil_AddressPubKey_pubKeyHashID (option P) a).
Proof. reflexivity. Qed.

Theorem AddressPubKey_SetFormat_get_tie (a : gpubkey P) (f : Z) :
  Kernels4.AddressPubKey_Format (option P) (Kernels4.AddressPubKey_SetFormat (option P) a f) = f /\
  Kernels4.AddressPubKey_PubKey (option P) (Kernels4.AddressPubKey_SetFormat (option P) a f)
  = Kernels4.AddressPubKey_PubKey (option P) a /\
  Kernels3.bchutil_AddressPubKey_pubKeyHashID (option P) (Kernels4.AddressPubKey_SetFormat (option P) a f)
  = Kernels3.bchutil_AddressPubKey_pubKeyHashID (option P) a.
Proof. repeat split. Qed.

(* model: on the model's PubKey address *)
Theorem AddressPubKey_Format_model_tie fmt pt id :
  Kernels4.AddressPubKey_Format (option P) (g_pubkey fmt pt id) = Z.of_N fmt.
Proof. reflexivity. Qed.

Theorem AddressPubKey_PubKey_model_tie fmt pt id :
  Kernels4.AddressPubKey_PubKey (option P) (g_pubkey fmt pt id) = Some pt.
Proof. reflexivity. Qed.

Theorem AddressPubKey_SetFormat_model_tie fmt pt id fmt' :
  Kernels3.bchutil_Address_AddressPubKey (option P)
    (Some (Kernels4.AddressPubKey_SetFormat (option P) (g_pubkey fmt pt id) (Z.of_N fmt')))
  = to_gen (PubKey fmt' pt id).
Proof. reflexivity. Qed.

End AddrTie4.

(* ====================================================================================================
   6. paramsFromNetID
   ==================================================================================================== *)
Section NetID.
Variables TestNet3 RegressionNet SimNet MainNet : Kernels3.chaincfg_Params.

Local Notation pkh := Kernels3.chaincfg_Params_LegacyPubKeyHashAddrID.
Local Notation sh := Kernels3.chaincfg_Params_LegacyScriptHashAddrID.

(* specification: the first entry of the table whose key is the id, MainNetParams when there is none *)
Definition netid_table : list (N * Kernels3.chaincfg_Params) :=
  [(pkh TestNet3, TestNet3); (pkh RegressionNet, RegressionNet); (pkh SimNet, SimNet);
   (sh TestNet3, TestNet3); (sh RegressionNet, RegressionNet); (sh SimNet, SimNet)].

Fixpoint first_match (id : N) (tbl : list (N * Kernels3.chaincfg_Params)) (dflt : Kernels3.chaincfg_Params) :=
  match tbl with
  | [] => dflt
  | (k, v) :: t => if id =? k then v else first_match id t dflt
  end.

Definition params_from_net_id (id : N) : Kernels3.chaincfg_Params := first_match id netid_table MainNet.

Definition gParamsFromNetID := Kernels4.paramsFromNetID TestNet3 RegressionNet SimNet MainNet.

Theorem paramsFromNetID_tie id : gParamsFromNetID id = Some (params_from_net_id id).
Proof.
  unfold gParamsFromNetID, Kernels4.paramsFromNetID, params_from_net_id, netid_table. cbn [first_match].
  repeat match goal with |- context [if ?b then _ else _] => destruct b; [reflexivity|] end. reflexivity.
Qed.

(* the total case analysis *)
Theorem paramsFromNetID_cases_tie id :
  (id = pkh TestNet3 /\ gParamsFromNetID id = Some TestNet3) \/
  (id <> pkh TestNet3 /\ id = pkh RegressionNet /\ gParamsFromNetID id = Some RegressionNet) \/
  (id <> pkh TestNet3 /\ id <> pkh RegressionNet /\ id = pkh SimNet /\ gParamsFromNetID id = Some SimNet) \/
  (id <> pkh TestNet3 /\ id <> pkh RegressionNet /\ id <> pkh SimNet /\
   id = sh TestNet3 /\ gParamsFromNetID id = Some TestNet3) \/
  (id <> pkh TestNet3 /\ id <> pkh RegressionNet /\ id <> pkh SimNet /\ id <> sh TestNet3 /\
   id = sh RegressionNet /\ gParamsFromNetID id = Some RegressionNet) \/
  (id <> pkh TestNet3 /\ id <> pkh RegressionNet /\ id <> pkh SimNet /\ id <> sh TestNet3 /\
   id <> sh RegressionNet /\ id = sh SimNet /\ gParamsFromNetID id = Some SimNet) \/
  (id <> pkh TestNet3 /\ id <> pkh RegressionNet /\ id <> pkh SimNet /\ id <> sh TestNet3 /\
   id <> sh RegressionNet /\ id <> sh SimNet /\ gParamsFromNetID id = Some MainNet).
Proof.
  unfold gParamsFromNetID, Kernels4.paramsFromNetID.
  destruct (N.eqb_spec id (pkh TestNet3)) as [E1|E1]; [left; split; [exact E1|reflexivity]|right].
  destruct (N.eqb_spec id (pkh RegressionNet)) as [E2|E2]; [left; repeat split; first [assumption|reflexivity]|right].
  destruct (N.eqb_spec id (pkh SimNet)) as [E3|E3]; [left; repeat split; first [assumption|reflexivity]|right].
  destruct (N.eqb_spec id (sh TestNet3)) as [E4|E4]; [left; repeat split; first [assumption|reflexivity]|right].
  destruct (N.eqb_spec id (sh RegressionNet)) as [E5|E5]; [left; repeat split; first [assumption|reflexivity]|right].
  destruct (N.eqb_spec id (sh SimNet)) as [E6|E6]; [left; repeat split; first [assumption|reflexivity]|].
  right. repeat split; first [assumption|reflexivity].
Qed.

(* never the nil pointer *)
Theorem paramsFromNetID_nonnil_tie id : gParamsFromNetID id <> None.
Proof. rewrite paramsFromNetID_tie. discriminate. Qed.

End NetID.

(* on the default networks of Gen/Nets.v: 111 / 196 select TestNet3Params (RegressionNetParams has the same two
   ids and is never returned), 63 / 123 SimNetParams, every other byte MainNetParams *)
Definition default_paramsFromNetID :=
  gParamsFromNetID (params_of testnet3) (params_of regtest) (params_of simnet) (params_of mainnet).

Theorem paramsFromNetID_nets_tie id :
  default_paramsFromNetID id
  = Some (if (id =? 111) || (id =? 196) then params_of testnet3
          else if (id =? 63) || (id =? 123) then params_of simnet
          else params_of mainnet).
Proof.
  unfold default_paramsFromNetID. rewrite paramsFromNetID_tie.
  unfold params_from_net_id, netid_table, params_of at 1 3 5 7 9 11.
  cbn [first_match Kernels3.chaincfg_Params_LegacyPubKeyHashAddrID Kernels3.chaincfg_Params_LegacyScriptHashAddrID].
  change (pkh_id testnet3) with 111. change (pkh_id regtest) with 111. change (pkh_id simnet) with 63.
  change (sh_id testnet3) with 196. change (sh_id regtest) with 196. change (sh_id simnet) with 123.
  destruct (N.eqb_spec id 111) as [E1|E1]; [reflexivity|]. cbn [orb].
  destruct (N.eqb_spec id 63) as [E2|E2]; [destruct (N.eqb_spec id 196) as [E3|E3]; [lia|reflexivity]|]. cbn [orb].
  destruct (id =? 196); [reflexivity|]. destruct (id =? 123); reflexivity.
Qed.

(* ====================================================================================================
   7. AddressPubKey.AddressPubKeyHash
   ==================================================================================================== *)
(* copy(addr.hash[:], src) into the zeroed 20-byte array *)
Definition copy20 (src : list N) : list N := firstn 20 src ++ repeat 0 (20 - length src).

Lemma skipn_repeat {A} (x : A) : forall n m, skipn n (repeat x m) = repeat x (m - n).
Proof.
  induction n as [|n IH]; intros m; [now rewrite Nat.sub_0_r|].
  destruct m as [|m]; [reflexivity|]. cbn [repeat skipn Nat.sub]. apply IH.
Qed.

Lemma copy20_full src : length src = 20%nat -> copy20 src = src.
Proof.
  intros Hl. unfold copy20. rewrite Hl, Nat.sub_diag. cbn [repeat]. rewrite app_nil_r.
  rewrite <- Hl. apply firstn_all.
Qed.

Section PubKeyHash.
Variable PK : Type.
Variables SerC SerU SerH : PK -> list N.
Variable IsNil : PK -> bool.   (* (phase 5) PublicKey_isnil: a.pubKey.Serialize..() on a nil key is Panic 5 *)
Variable H160 : list N -> list N.
Variables TestNet3 RegressionNet SimNet MainNet : Kernels3.chaincfg_Params.

(* specification, for every *AddressPubKey value: the P2PKH address whose prefix is the CashAddressPrefix of
   paramsFromNetID(a.pubKeyHashID) and whose hash is Hash160(a.serialize()) copied into the array; never nil,
   no error *)
Definition pubkey_to_pkh_spec (a : Kernels3.bchutil_AddressPubKey PK) : res (option Kernels3.bchutil_AddressPubKeyHash) :=
  do ser <- Kernels3.AddressPubKey_serialize PK SerC SerU IsNil SerH a ;;
  Ok (Some (Kernels3.mk_bchutil_AddressPubKeyHash
    (copy20 (H160 ser))
    (Kernels3.chaincfg_Params_CashAddressPrefix
       (params_from_net_id TestNet3 RegressionNet SimNet MainNet (Kernels3.bchutil_AddressPubKey_pubKeyHashID PK a))))).

Theorem AddressPubKey_AddressPubKeyHash_tie a :
  Kernels4.AddressPubKey_AddressPubKeyHash PK SerC SerU IsNil SerH H160 TestNet3 RegressionNet SimNet MainNet a
  = pubkey_to_pkh_spec a.
Proof.
  unfold Kernels4.AddressPubKey_AddressPubKeyHash, pubkey_to_pkh_spec.
  fold (gParamsFromNetID TestNet3 RegressionNet SimNet MainNet). rewrite paramsFromNetID_tie.
  cbn [Go3.deref rbind Kernels3.bchutil_AddressPubKeyHash_hash].
  destruct (Kernels3.AddressPubKey_serialize PK SerC SerU IsNil SerH a) as [ser|e|k]; [|reflexivity|reflexivity].
  cbn [rbind]. rewrite copy_at_0. cbn [rbind].
  rewrite repeat_length, skipn_repeat. reflexivity.
Qed.

End PubKeyHash.

(* model instantiation: for the model's PubKey address on the default networks; when Hash160 returns 20 bytes
   (ripemd160 does) the result is the image of the model address PKH prefix (hash160 (serialize fmt pt)) *)
Theorem AddressPubKey_AddressPubKeyHash_model_tie (ripemd160 : list N -> list N) (P : Type) (ec_ser : N -> P -> list N)
    fmt pt id :
  (forall x, length (ripemd160 x) = 20%nat) ->
  Kernels4.AddressPubKey_AddressPubKeyHash (option P) (serC P ec_ser) (serU P ec_ser) (pkNil P) (serH P ec_ser)
    (hash160 ripemd160) (params_of testnet3) (params_of regtest) (params_of simnet) (params_of mainnet)
    (g_pubkey fmt pt id)
  = Ok (pkh_of (@PKH P (if (id =? 111) || (id =? 196) then cash_prefix testnet3
                       else if (id =? 63) || (id =? 123) then cash_prefix simnet
                       else cash_prefix mainnet)
                  (hash160 ripemd160 (serialize P ec_ser fmt pt)))).
Proof.
  intros Hlen. rewrite AddressPubKey_AddressPubKeyHash_tie. unfold pubkey_to_pkh_spec.
  rewrite AddressPubKey_serialize_tie. cbn [rbind]. rewrite copy20_full by apply Hlen.
  cbn [g_pubkey Kernels3.bchutil_AddressPubKey_pubKeyHashID pkh_of g_pkh].
  pose proof (paramsFromNetID_nets_tie id) as Hn. unfold default_paramsFromNetID in Hn.
  rewrite paramsFromNetID_tie in Hn. injection Hn as ->.
  destruct ((id =? 111) || (id =? 196)); [reflexivity|]. destruct ((id =? 63) || (id =? 123)); reflexivity.
Qed.

(* ====================================================================================================
   8. NewWIF
   ==================================================================================================== *)
(* specification, for every key, params pointer and flag: a nil net is the error site 1 and the nil pointer;
   otherwise the WIF made of the three values *)
Definition new_wif_spec {K : Type} (k : K) (net : option Kernels3.chaincfg_Params) (c : bool)
    : res (option (Kernels3.bchutil_WIF K) * N) :=
  match net with
  | None => Ok (None, 1)
  | Some p => Ok (Some (Kernels3.mk_bchutil_WIF K k c (Kernels3.chaincfg_Params_PrivateKeyID p)), 0)
  end.

Theorem NewWIF_tie (K : Type) (k : K) net c : Kernels4.NewWIF K k net c = new_wif_spec k net c.
Proof. destruct net; reflexivity. Qed.

(* model: bchec.PrivKeyFromBytes(curve, key) (the instantiation of Tie/Kernels3_Wif.v) followed by NewWIF is
   the model's new_wif *)
Theorem NewWIF_model_tie (base_mult : N -> N * N) (key : list N) (p : Kernels3.chaincfg_Params) (c : bool) :
  Kernels4.NewWIF N (fst (priv_from_bytes base_mult tt key)) (Some p) c
  = Ok (Some (Kernels3_Wif.to_gen (new_wif key (Kernels3.chaincfg_Params_PrivateKeyID p) c)), 0).
Proof. reflexivity. Qed.

Theorem NewWIF_model_net_tie (base_mult : N -> N * N) (key : list N) (n : net) (c : bool) :
  Kernels4.NewWIF N (fst (priv_from_bytes base_mult tt key)) (Some (params_of n)) c
  = Ok (Some (Kernels3_Wif.to_gen (new_wif key (wif_id n) c)), 0).
Proof. reflexivity. Qed.

(* ====================================================================================================
   9. OutOfRangeError.Error
   ==================================================================================================== *)
Theorem OutOfRangeError_Error_tie e : Kernels4.OutOfRangeError_Error e = e.
Proof. reflexivity. Qed.

Print Assumptions NewAddressPubKeyHash_wrapper_tie.
Print Assumptions NewAddressScriptHashFromHash_wrapper_tie.
Print Assumptions NewAddressScriptHash_wrapper_tie.
Print Assumptions NewAddressScriptHash32FromHash_wrapper_tie.
Print Assumptions NewAddressScriptHash32_wrapper_tie.
Print Assumptions NewLegacyAddressPubKeyHash_wrapper_tie.
Print Assumptions NewLegacyAddressScriptHashFromHash_wrapper_tie.
Print Assumptions NewLegacyAddressScriptHash_wrapper_tie.
Print Assumptions NewAddressPubKeyHash_tie.
Print Assumptions NewAddressScriptHashFromHash_tie.
Print Assumptions NewAddressScriptHash_tie.
Print Assumptions NewAddressScriptHash32FromHash_tie.
Print Assumptions NewAddressScriptHash32_tie.
Print Assumptions NewLegacyAddressPubKeyHash_tie.
Print Assumptions NewLegacyAddressScriptHashFromHash_tie.
Print Assumptions NewLegacyAddressScriptHash_tie.
Print Assumptions NewAddressPubKeyHash_nil_tie.
Print Assumptions NewLegacy_nil_tie.
Print Assumptions AddressPubKeyHash_Hash160_tie.
Print Assumptions AddressScriptHash_Hash160_tie.
Print Assumptions AddressScriptHash32_Hash256_tie.
Print Assumptions LegacyAddressPubKeyHash_Hash160_tie.
Print Assumptions LegacyAddressScriptHash_Hash160_tie.
Print Assumptions AddressPubKeyHash_Hash160_model_tie.
Print Assumptions AddressScriptHash_Hash160_model_tie.
Print Assumptions AddressScriptHash32_Hash256_model_tie.
Print Assumptions LegacyAddressPubKeyHash_Hash160_model_tie.
Print Assumptions LegacyAddressScriptHash_Hash160_model_tie.
Print Assumptions AddressPubKeyHash_String_tie.
Print Assumptions AddressScriptHash_String_tie.
Print Assumptions AddressScriptHash32_String_tie.
Print Assumptions LegacyAddressPubKeyHash_String_tie.
Print Assumptions LegacyAddressScriptHash_String_tie.
Print Assumptions AddressPubKeyHash_String_model_tie.
Print Assumptions AddressScriptHash_String_model_tie.
Print Assumptions AddressScriptHash32_String_model_tie.
Print Assumptions LegacyAddressPubKeyHash_String_model_tie.
Print Assumptions LegacyAddressScriptHash_String_model_tie.
Print Assumptions ConvertSlpToCashAddress_tie.
Print Assumptions ConvertCashToSlpAddress_tie.
Print Assumptions Convert_roundtrip_pkh_tie.
Print Assumptions Convert_roundtrip_sh_tie.
Print Assumptions Convert_any_prefix_tie.
Print Assumptions Convert_other_tie.
Print Assumptions Convert_nilptr_tie.
Print Assumptions Convert_nilparams_tie.
Print Assumptions ConvertCashToSlpAddress_model_tie.
Print Assumptions ConvertSlpToCashAddress_model_tie.
Print Assumptions Convert_roundtrip_model_tie.
Print Assumptions AddressPubKey_Format_tie.
Print Assumptions AddressPubKey_PubKey_tie.
Print Assumptions AddressPubKey_SetFormat_tie.
Print Assumptions AddressPubKey_SetFormat_get_tie.
Print Assumptions AddressPubKey_Format_model_tie.
Print Assumptions AddressPubKey_PubKey_model_tie.
Print Assumptions AddressPubKey_SetFormat_model_tie.
Print Assumptions paramsFromNetID_tie.
Print Assumptions paramsFromNetID_cases_tie.
Print Assumptions paramsFromNetID_nonnil_tie.
Print Assumptions paramsFromNetID_nets_tie.
Print Assumptions AddressPubKey_AddressPubKeyHash_tie.
Print Assumptions AddressPubKey_AddressPubKeyHash_model_tie.
Print Assumptions NewWIF_tie.
Print Assumptions NewWIF_model_tie.
Print Assumptions NewWIF_model_net_tie.
Print Assumptions OutOfRangeError_Error_tie.

(* Tie between the generated functions of gcs/gcs.go that do not touch the bit stream
   (Gen/Kernels3.v: gcs_Filter_Bytes / N / P / sizeHint / PBytes / NBytes / NPBytes, FromBytes, FromNBytes)
   and the model Gcs/Gcs.v (filter_bytes, f_n, f_p, size_hint, filter_pbytes, filter_nbytes,
   filter_npbytes, from_bytes, from_nbytes).

   Records: Kernels3.gcs_Filter (n, p, modulusNP, filterData) <-> Gcs.filter (f_n, f_p, f_mod, f_data)
   through to_gen / of_gen.
   Results: a model result [res filter] is seen through [filter_view] (Ok f -> (Some f, nil);
   Err 1 -> (nil, ErrNTooBig); Err 2 -> (nil, ErrPTooBig)).
   Instantiation of the dependencies (bytes.Buffer, wire):
     Buffer_t := list N (the unread / written bytes), bytes.NewBuffer := id, Buffer.Bytes := id,
     Buffer.Grow := no-op, Buffer.Write / WriteByte := append (never fail),
     wire.WriteVarInt := append (Gcs.write_varint v), wire.ReadVarInt := Gcs.read_varint (an error of
     class e is reported as the arbitrary non-nil error value [rv_code e]). *)
From BU Require Import Lib.Bytes Lib.PolyMod Gen.Kernels2 Gen.Kernels3 Gcs.SipHash Gcs.Gcs Gcs.GcsProofs
  Tie.Kernels2Lib Tie.Kernels3Lib.
From Coq Require Import ZifyBool ZifyN ZifyNat.

Definition to_gen (f : filter) : Kernels3.gcs_Filter :=
  Kernels3.mk_gcs_Filter (f_n f) (f_p f) (f_mod f) (f_data f).
Definition of_gen (g : Kernels3.gcs_Filter) : filter :=
  mkFilter (Kernels3.gcs_Filter_n g) (Kernels3.gcs_Filter_p g) (Kernels3.gcs_Filter_modulusNP g)
           (Kernels3.gcs_Filter_filterData g).

Lemma of_to f : of_gen (to_gen f) = f.
Proof. destruct f; reflexivity. Qed.
Lemma to_of g : to_gen (of_gen g) = g.
Proof. destruct g; reflexivity. Qed.

(* error classes of the model -> error values of the translation *)
Definition gcs_err (e : N) : N :=
  if e =? 1 then Kernels3.gcs_ErrNTooBig else if e =? 2 then Kernels3.gcs_ErrPTooBig else e.

Definition filter_view (r : res filter) : res (option Kernels3.gcs_Filter * N) :=
  match r with
  | Ok f => Ok (Some (to_gen f), 0)
  | Err e => Ok (None, gcs_err e)
  | Panic k => Panic k
  end.

Lemma mod64_small x : x < two64 -> x mod 2 ^ 64 = x.
Proof. intros H. apply N.mod_small. exact H. Qed.

Lemma w64_eq x : x mod 2 ^ 64 = w64 x.
Proof. reflexivity. Qed.

(* make([]byte, len(x)); copy(.., x) *)
Lemma make_copy (x : list N) :
  Go.copy_at (repeat 0 (Z.to_nat (Z.of_nat (length x)))) 0%Z x = Ok x.
Proof. rewrite Nat2Z.id. apply copy_at_full. now rewrite repeat_length. Qed.

(* ---------- Bytes, N, P ---------- *)
Theorem Bytes_tie f : Kernels3.gcs_Filter_Bytes (to_gen f) = Ok (filter_bytes f, 0).
Proof.
  unfold Kernels3.gcs_Filter_Bytes, to_gen, filter_bytes. cbn [Kernels3.gcs_Filter_filterData].
  rewrite make_copy. reflexivity.
Qed.

Theorem Bytes_gen g : Kernels3.gcs_Filter_Bytes g = Ok (Kernels3.gcs_Filter_filterData g, 0).
Proof. unfold Kernels3.gcs_Filter_Bytes. rewrite make_copy. reflexivity. Qed.

Theorem N_tie f : Kernels3.gcs_Filter_N (to_gen f) = f_n f.
Proof. reflexivity. Qed.

Theorem P_tie f : Kernels3.gcs_Filter_P (to_gen f) = f_p f.
Proof. reflexivity. Qed.

(* ---------- sizeHint ----------
   domain: len(filterData) is an int (< 2^63), p a uint8, n a uint32; the weaker bounds below suffice *)
Theorem sizeHint_tie f :
  N.of_nat (length (f_data f)) < two64 -> f_p f + 1 < two64 -> f_n f < 2 ^ 63 ->
  Kernels3.gcs_Filter_sizeHint (to_gen f) = Ok (Z.of_N (size_hint f)).
Proof.
  intros Hlen Hp Hn.
  unfold Kernels3.gcs_Filter_sizeHint, size_hint, to_gen.
  cbn [Kernels3.gcs_Filter_filterData Kernels3.gcs_Filter_p Kernels3.gcs_Filter_n].
  change hint_mul with 8. change hint_add with 1.
  set (len := length (f_data f)) in *.
  assert (E1 : Z.to_N (Z.of_nat len mod 2 ^ 64) = N.of_nat len).
  { rewrite Z.mod_small; [lia|]. split; [lia|]. unfold two64 in Hlen. lia. }
  rewrite E1.
  assert (E2 : (f_p f mod 2 ^ 64 + 1) mod 2 ^ 64 = f_p f + 1).
  { unfold two64 in Hp. rewrite (N.mod_small (f_p f)) by lia. apply N.mod_small. lia. }
  rewrite E2. unfold Go.divN.
  destruct (N.eqb_spec (f_p f + 1) 0) as [H0|_]; [lia|]. cbn [rbind].
  assert (E3 : f_n f mod 2 ^ 64 = f_n f) by (apply N.mod_small; lia).
  rewrite E3. rewrite w64_eq.
  set (mx := w64 (N.of_nat len * 8) / (f_p f + 1)).
  destruct (N.ltb_spec (f_n f) mx) as [Hlt|Hge]; [reflexivity|].
  f_equal. unfold Go.wrapZ.
  assert (Hmx : mx < 2 ^ 63) by lia.
  change (2 ^ (64 - 1))%Z with 9223372036854775808%Z. change (2 ^ 64)%Z with 18446744073709551616%Z.
  change (2 ^ 63) with 9223372036854775808 in Hmx.
  rewrite Z.mod_small by lia. lia.
Qed.

(* the call cannot panic for a uint8 p (the divisor uint64(p)+1 is not 0): HashMatchAny evaluates it as the
   size hint of a map *)
Lemma sizeHint_ok f : f_p f < 2 ^ 64 - 1 -> exists z, Kernels3.gcs_Filter_sizeHint (to_gen f) = Ok z.
Proof.
  intros Hp. unfold Kernels3.gcs_Filter_sizeHint, to_gen.
  cbn [Kernels3.gcs_Filter_filterData Kernels3.gcs_Filter_p Kernels3.gcs_Filter_n].
  assert (E2 : (f_p f mod 2 ^ 64 + 1) mod 2 ^ 64 = f_p f + 1).
  { rewrite (N.mod_small (f_p f)) by lia. apply N.mod_small. lia. }
  rewrite E2. unfold Go.divN. destruct (N.eqb_spec (f_p f + 1) 0) as [E|_]; [lia|]. cbn [rbind].
  match goal with |- context [if ?c then _ else _] => destruct c end; eexists; reflexivity.
Qed.


(* ---------- PBytes ---------- *)
Lemma upd_head {A} (x y : A) l : Go.upd (x :: l) 0%Z y = Ok (y :: l).
Proof.
  unfold Go.upd. cbn [length].
  destruct (Z.ltb_spec 0 0); [lia|]. destruct (Z.leb_spec (Z.of_nat (S (length l))) 0); [lia|].
  reflexivity.
Qed.

Lemma copy_at_tail {A} (y : A) (pad d : list A) :
  length pad = length d -> Go.copy_at (y :: pad) 1%Z d = Ok (y :: d).
Proof.
  intros Hl. unfold Go.copy_at. cbn [length].
  destruct (Z.ltb_spec 1 0); [lia|]. destruct (Z.ltb_spec (Z.of_nat (S (length pad))) 1); [lia|].
  cbn [orb]. change (Z.to_nat 1) with 1%nat.
  replace (S (length pad) - 1)%nat with (length d) by lia. rewrite Nat.min_id.
  cbn [firstn app]. rewrite firstn_all. change (1 + length d)%nat with (S (length d)). cbn [skipn].
  rewrite skipn_all2 by lia. now rewrite app_nil_r.
Qed.

Theorem PBytes_tie f : Kernels3.gcs_Filter_PBytes (to_gen f) = Ok (filter_pbytes f, 0).
Proof.
  unfold Kernels3.gcs_Filter_PBytes, filter_pbytes, to_gen.
  cbn [Kernels3.gcs_Filter_filterData Kernels3.gcs_Filter_p].
  set (d := f_data f).
  replace (Z.to_nat (Z.of_nat (length d) + 1)) with (S (length d)) by lia.
  cbn [repeat]. rewrite upd_head. cbn [rbind].
  rewrite copy_at_tail by apply repeat_length. reflexivity.
Qed.

(* ---------- FromBytes ----------  domain: N is a uint32 (n < 2^64 suffices) *)
Theorem FromBytes_tie n P M d :
  n < two64 ->
  Kernels3.FromBytes n P M d = filter_view (from_bytes n P M d).
Proof.
  intros Hn. unfold Kernels3.FromBytes, from_bytes. change frombytes_pmax with 32.
  destruct (32 <? P); [reflexivity|].
  cbn [Kernels3.set_gcs_Filter_modulusNP Kernels3.set_gcs_Filter_filterData Kernels3.gcs_Filter_n
       Kernels3.gcs_Filter_p Kernels3.gcs_Filter_modulusNP Kernels3.gcs_Filter_filterData].
  rewrite make_copy. cbn [rbind filter_view to_gen f_n f_p f_mod f_data].
  rewrite (mod64_small n) by exact Hn. reflexivity.
Qed.

(* ---------- the bytes.Buffer / wire instance ---------- *)
Section Buffers.
  (* the error value wire.ReadVarInt returns for the model's error class e (3 short read, 4 non-canonical) *)
  Variable rv_code : N -> N.
  Hypothesis rv_code_nz : forall e, rv_code e <> 0.

  Definition buf_new (d : list N) : list N := d.
  Definition buf_bytes (b : list N) : list N := b.
  Definition buf_grow (b : list N) (_ : Z) : list N := b.
  Definition buf_write (b d : list N) : Z * N * list N := (Z.of_nat (length d), 0, b ++ d).
  Definition buf_write_byte (b : list N) (x : N) : N * list N := (0, b ++ [x]).
  Definition wire_write_varint (b : list N) (_ v : N) : N * list N := (0, b ++ write_varint v).
  Definition wire_read_varint (b : list N) (_ : N) : N * N * list N :=
    match read_varint b with
    | Ok (v, rest) => (v, 0, rest)
    | Err e => (0, rv_code e, b)
    | Panic _ => (0, rv_code 0, b)
    end.
  (* wire.VarIntSerializeSize only feeds Grow; (phase 5) Grow panics on a negative count, so the size must be
     non-negative (it is 1, 3, 5 or 9) *)
  Variable varint_size : N -> Z.
  Hypothesis varint_size_nonneg : forall v, (0 <= varint_size v)%Z.
  Lemma require_size (v : N) (k : Z) : (0 <= k)%Z -> Go3.require (0 <=? varint_size v + k)%Z = Ok tt.
  Proof using varint_size_nonneg.
    clear rv_code rv_code_nz. intro Hk. unfold Go3.require. pose proof (varint_size_nonneg v) as Hv.
    destruct (Z.leb_spec 0 (varint_size v + k)); [reflexivity|lia].
  Qed.

  Definition gNBytes := Kernels3.gcs_Filter_NBytes (list N) buf_bytes [] varint_size buf_grow wire_write_varint buf_write.
  Definition gNPBytes := Kernels3.gcs_Filter_NPBytes (list N) buf_bytes [] varint_size buf_grow wire_write_varint
                           buf_write buf_write_byte.
  Definition gFromNBytes := Kernels3.FromNBytes (list N) buf_new wire_read_varint buf_bytes.

  (* domain: n is a uint32 *)
  Theorem NBytes_tie f : f_n f < two64 -> gNBytes (to_gen f) = Ok (filter_nbytes f, 0).
  Proof using varint_size_nonneg.
    clear rv_code_nz.
    intros Hn. unfold gNBytes, Kernels3.gcs_Filter_NBytes, filter_nbytes, to_gen.
    cbn [Kernels3.gcs_Filter_n Kernels3.gcs_Filter_filterData].
    rewrite (mod64_small (f_n f)) by exact Hn. rewrite require_size by lia. reflexivity.
  Qed.

  Theorem NPBytes_tie f : f_n f < two64 -> gNPBytes (to_gen f) = Ok (filter_npbytes f, 0).
  Proof using varint_size_nonneg.
    clear rv_code_nz.
    intros Hn. unfold gNPBytes, Kernels3.gcs_Filter_NPBytes, filter_npbytes, to_gen.
    cbn [Kernels3.gcs_Filter_n Kernels3.gcs_Filter_filterData Kernels3.gcs_Filter_p].
    rewrite (mod64_small (f_n f)) by exact Hn.
    rewrite <- Z.add_assoc. rewrite require_size by lia. cbn [rbind].
    unfold wire_write_varint, buf_write_byte, buf_write, buf_bytes, buf_grow.
    cbn [app negb N.eqb fst snd]. rewrite <- app_assoc. reflexivity.
  Qed.

  (* the model's result seen through the translation: a ReadVarInt error of class e (3, 4) is passed on
     at site 1 *)
  Definition from_nbytes_view (r : res filter) : res (option Kernels3.gcs_Filter * N) :=
    match r with
    | Ok f => Ok (Some (to_gen f), 0)
    | Err e => Ok (None, if (e =? 1) || (e =? 2) then gcs_err e else Go3.prop 1 (rv_code e))
    | Panic k => Panic k
    end.

  Lemma read_varint_errs d e : read_varint d = Err e -> e = 3 \/ e = 4.
  Proof using.
    clear rv_code_nz varint_size_nonneg varint_size rv_code.
    unfold read_varint, read_le. destruct d as [|x t]; [intros H; injection H; auto|].
    repeat match goal with |- context [if ?c then _ else _] => destruct c end;
      intros H; try discriminate; injection H; auto.
  Qed.

  Lemma read_varint_nopanic d k : read_varint d <> Panic k.
  Proof using.
    clear rv_code_nz varint_size_nonneg varint_size rv_code.
    unfold read_varint, read_le. destruct d as [|x t]; [discriminate|].
    repeat match goal with |- context [if ?c then _ else _] => destruct c end; discriminate.
  Qed.

  Theorem FromNBytes_tie P M d : gFromNBytes P M d = from_nbytes_view (from_nbytes P M d).
  Proof using rv_code_nz.
    clear varint_size_nonneg varint_size. unfold gFromNBytes, Kernels3.FromNBytes, from_nbytes, buf_new, buf_bytes, wire_read_varint.
    destruct (read_varint d) as [[n rest]|e|k] eqn:Er.
    - cbn [rbind N.eqb negb]. change (N.shiftl fromn_nbase fromn_nbits) with 4294967296.
      destruct (N.leb_spec 4294967296 n) as [Hbig|Hsmall]; [reflexivity|].
      rewrite (N.mod_small n) by (change (2 ^ 32) with 4294967296; lia).
      rewrite FromBytes_tie by (unfold two64; lia).
      unfold from_bytes. destruct (frombytes_pmax <? P); reflexivity.
    - destruct (read_varint_errs d e Er) as [-> | ->]; cbn [rbind];
        (match goal with |- context [rv_code ?e =? 0] =>
           destruct (N.eqb_spec (rv_code e) 0) as [H0|_]; [now apply rv_code_nz in H0|] end); reflexivity.
    - now apply read_varint_nopanic in Er.
  Qed.
End Buffers.

Print Assumptions Bytes_tie.
Print Assumptions Bytes_gen.
Print Assumptions N_tie.
Print Assumptions P_tie.
Print Assumptions sizeHint_tie.
Print Assumptions sizeHint_ok.
Print Assumptions PBytes_tie.
Print Assumptions FromBytes_tie.
Print Assumptions NBytes_tie.
Print Assumptions NPBytes_tie.
Print Assumptions FromNBytes_tie.

(* Tie between the generated functions of merkleblock/encode.go (Gen/Kernels3.v: MerkleBlock_calcTreeWidth,
   MerkleBlock_calcHash, MerkleBlock_traverseAndBuild, TxInSet, MerkleBlock_calcBlock,
   NewMerkleBlockWithTxnSet) and the model Merkle/Merkle.v (mb_tree_width, mb_calc_hash, mb_is_parent,
   mb_traverse_build, tx_in_set, mb_calc_block / pack_bits, mb_new_with_txnset).

   A *MerkleBlock is related to the model's arguments by [mb_gen n all mbits (bits, finalHashes)]:
     numTx = n, allHashes = map Some all, matchedBits = mbits, bits, finalHashes = map Some finalHashes. *)
From BU Require Import Lib.Bytes Lib.PolyMod Merkle.Merkle Merkle.MerkleArith Merkle.ExtractProofs
  Merkle.PmtProofs Merkle.LevelProofs Merkle.PackProofs Merkle.BuildProofs
  Gen.Kernels2 Gen.Kernels3 Tie.Kernels2Lib Tie.Kernels3Lib Tie.Kernels3_MerkleLib.
From Coq Require Import ZifyBool ZifyN ZifyNat.

Local Open Scope N_scope.

Notation MB := Kernels3.merkleblock_MerkleBlock.

Definition mb_gen (n : N) (all : list hash) (mbits : list N) (st : list N * list hash) : MB :=
  Kernels3.mk_merkleblock_MerkleBlock n (map Some all) (map Some (snd st)) mbits (fst st).

Ltac mbsimpl :=
  unfold mb_gen, Kernels3.set_merkleblock_MerkleBlock_bits, Kernels3.set_merkleblock_MerkleBlock_finalHashes,
         Kernels3.set_merkleblock_MerkleBlock_matchedBits, Kernels3.set_merkleblock_MerkleBlock_allHashes;
  cbn [Kernels3.merkleblock_MerkleBlock_numTx Kernels3.merkleblock_MerkleBlock_allHashes
       Kernels3.merkleblock_MerkleBlock_finalHashes Kernels3.merkleblock_MerkleBlock_matchedBits
       Kernels3.merkleblock_MerkleBlock_bits fst snd].

(* ---------- calcTreeWidth ---------- *)
Theorem MerkleBlock_calcTreeWidth_tie (m : MB) (height : N) :
  Kernels3.MerkleBlock_calcTreeWidth m height
  = mb_tree_width (Kernels3.merkleblock_MerkleBlock_numTx m) height.
Proof. reflexivity. Qed.
Print Assumptions MerkleBlock_calcTreeWidth_tie.

Lemma MB_calcTreeWidth_gtw (m : MB) h :
  Kernels3.MerkleBlock_calcTreeWidth m h = gtw (Kernels3.merkleblock_MerkleBlock_numTx m) h.
Proof. reflexivity. Qed.

(* ---------- TxInSet ---------- *)
Lemma TxInSet_loop tx : forall set,
  Go.foldC (R := bool) (fun (_ : unit) next =>
      do t1_ <- Go3.deref (Some tx) ;;
      do t2_ <- Go3.deref next ;;
      if (list_eqb t1_ t2_) then Ok (Go.Ret true) else Ok (Go.Next tt)) (map Some set) tt
  = Ok (if tx_in_set tx set then Go.Ret true else Go.Next tt).
Proof.
  induction set as [|x t IH]; cbn [map Go.foldC tx_in_set]; [reflexivity|].
  cbn [Go3.deref rbind]. unfold hash_eqb. destruct (list_eqb tx x); [reflexivity|]. exact IH.
Qed.

(* tx and the members of set are non-nil pointers (a nil one is a nil dereference, Panic 5, as soon as it is reached) *)
Theorem TxInSet_tie (tx : hash) (set : list hash) :
  Kernels3.TxInSet (Some tx) (map Some set) = Ok (tx_in_set tx set).
Proof.
  unfold Kernels3.TxInSet. rewrite TxInSet_loop. cbn [rbind]. destruct (tx_in_set tx set); reflexivity.
Qed.
Print Assumptions TxInSet_tie.

Section BuildTie.
Variable node_hash : hash -> hash -> hash.

Definition gCH := Kernels3.MerkleBlock_calcHash (hmb node_hash).
Definition gTB := Kernels3.MerkleBlock_traverseAndBuild (hmb node_hash).

(* ---------- calcHash ---------- *)
Theorem MerkleBlock_calcHash_tie (m : MB) (all : list hash) :
  Kernels3.merkleblock_MerkleBlock_allHashes m = map Some all ->
  forall (h fuel : nat) (pos : N),
  (h < fuel)%nat -> N.of_nat h < 2 ^ 32 ->
  gCH fuel m (N.of_nat h) pos
  = rmap Some (mb_calc_hash node_hash (Kernels3.merkleblock_MerkleBlock_numTx m) all h pos).
Proof.
  intros Hall. set (n := Kernels3.merkleblock_MerkleBlock_numTx m).
  induction h as [|h' IH]; intros fuel pos Hfuel Hh; (destruct fuel as [|fuel]; [lia|]).
  - unfold gCH. cbn [Kernels3.MerkleBlock_calcHash mb_calc_hash].
    change (N.of_nat 0 =? 0) with true. cbv iota.
    rewrite Hall, idx_N, nth_res_map.
    destruct (nth_res all (N.to_nat pos)); reflexivity.
  - unfold gCH. cbn [Kernels3.MerkleBlock_calcHash]. fold gCH.
    rewrite height_S_nonzero. cbv iota. rewrite dec_height by exact Hh.
    rewrite MB_calcTreeWidth_gtw, gtw_tw. fold n.
    rewrite wmul2add1_gen, wmul2_gen, mb_calc_hash_S.
    rewrite IH by lia.
    destruct (mb_calc_hash node_hash n all h' (wmul pos 2)) as [hl|e|k]; cbn [rmap rbind]; try reflexivity.
    destruct (wadd (wmul pos 2) 1 <? tw n (N.of_nat h')).
    + rewrite IH by lia.
      destruct (mb_calc_hash node_hash n all h' (wadd (wmul pos 2) 1)) as [hr|e|k]; reflexivity.
    + reflexivity.
Qed.

(* ---------- traverseAndBuild ---------- *)
Definition ip_cond (hi n : N) : N * N -> bool := fun '(isParent, i) => (i <? hi) && (i <? n).
Definition ip_body (mbits : list N) : N * N -> res (N * N) := fun '(isParent, i) =>
  do t1_ <- Go.idx mbits (Z.of_N i) ;;
  let isParent := (N.lor isParent t1_) in
  let i := ((i + 1) mod 2^32) in
  Ok (isParent, i).

Lemma is_parent_loop mbits n hi : n <= N.of_nat (length mbits) -> hi < 2 ^ 32 ->
  forall k i acc f, k = N.to_nat (N.min hi n - i) -> (k <= f)%nat ->
  exists i', Go.whileM f (ip_cond hi n) (ip_body mbits) (acc, i)
             = Ok (fold_left N.lor (firstn k (skipn (N.to_nat i) mbits)) acc, i').
Proof.
  intros Hn Hhi. rewrite pow32_val in Hhi.
  induction k as [|k IH]; intros i acc f Hk Hf.
  - exists i. destruct f; cbn [Go.whileM ip_cond].
    + assert (((i <? hi) && (i <? n)) = false) as -> by lia. reflexivity.
    + assert (((i <? hi) && (i <? n)) = false) as -> by lia. reflexivity.
  - destruct f as [|f]; [lia|]. cbn [Go.whileM ip_cond].
    assert (((i <? hi) && (i <? n)) = true) as -> by lia.
    assert (N.to_nat i < length mbits)%nat as Hi by lia.
    destruct (nth_error mbits (N.to_nat i)) as [x|] eqn:Ex; [|apply nth_error_None in Ex; lia].
    cbn [ip_body]. rewrite idx_N. unfold nth_res. rewrite Ex. cbn [rbind].
    rewrite N.mod_small by (rewrite pow32_val; lia).
    destruct (IH (i + 1) (N.lor acc x) f) as [i' Hi']; [lia|lia|].
    exists i'. rewrite Hi'. f_equal. f_equal.
    rewrite (nth_error_skipn_cons _ _ _ Ex). cbn [firstn fold_left].
    replace (N.to_nat (i + 1)) with (S (N.to_nat i)) by lia. reflexivity.
Qed.

(* the loop `for i := pos<<h; i < (pos+1)<<h && i < numTx; i++` runs at most min(numTx, 2^h) times, for any
   uint32 pos and h (also when the shifts wrap) *)
Lemma wshl_span n pos h :
  N.min (wshl (wadd pos 1) h) n - wshl pos h <= N.min n (2 ^ h).
Proof.
  unfold wshl, wadd, u32. rewrite !N.shiftl_mul_pow2.
  destruct (N.lt_ge_cases h 32) as [Hlt|Hge].
  - assert (2 ^ h <= 2 ^ 31) as HP by (apply N.pow_le_mono_r; lia).
    pose proof (pow2_pos h) as HP0. change (2 ^ 31) with 2147483648 in HP.
    set (P := 2 ^ h) in *. unfold two32.
    rewrite N.mul_mod_idemp_l by discriminate.
    replace ((pos + 1) * P) with (pos * P + P) by lia.
    rewrite <- N.add_mod_idemp_l by discriminate.
    set (lo := (pos * P) mod 4294967296).
    assert (lo < 4294967296) as Hlo by (apply N.mod_lt; discriminate).
    destruct (N.lt_ge_cases (lo + P) 4294967296) as [Hs|Hw].
    + rewrite N.mod_small by exact Hs. lia.
    + assert ((lo + P) mod 4294967296 = lo + P - 4294967296) as ->.
      { replace (lo + P) with ((lo + P - 4294967296) + 1 * 4294967296) at 1 by lia.
        rewrite N.mod_add by discriminate. apply N.mod_small. lia. }
      lia.
  - assert (forall x, (x * 2 ^ h) mod two32 = 0) as Hz.
    { intros x. replace h with ((h - 32) + 32) by lia. rewrite N.pow_add_r, N.mul_assoc.
      change (2 ^ 32) with two32. apply N.mod_mul. discriminate. }
    rewrite !Hz. lia.
Qed.

(* the loop of traverseAndBuild computes the model's isParent when it has min(numTx, 2^height) units of fuel *)
Lemma gen_is_parent mbits n height pos f :
  n <= N.of_nat (length mbits) -> (N.to_nat (N.min n (2 ^ height)) <= f)%nat ->
  exists i', Go.whileM f (ip_cond ((N.shiftl ((pos + 1) mod 2^32) height) mod 2^32) n) (ip_body mbits)
               (0, (N.shiftl pos height) mod 2^32)
             = Ok (is_parent n mbits height pos, i').
Proof.
  intros Hn Hf. unfold is_parent.
  apply (is_parent_loop mbits n); try assumption.
  - apply N.mod_lt. discriminate.
  - reflexivity.
  - pose proof (wshl_span n pos height). lia.
Qed.

(* fuel that suffices for traverseAndBuild at height h: the isParent loop at the top node (the longest one),
   the recursion depth, calcHash below *)
Definition tb_fuel (n : N) (h : nat) : nat := (N.to_nat (N.min n (2 ^ N.of_nat h)) + h + 2)%nat.

Lemma tb_fuel_S n h : (tb_fuel n h < tb_fuel n (S h))%nat.
Proof. unfold tb_fuel. rewrite pow2_S. pose proof (pow2_pos (N.of_nat h)). lia. Qed.

Lemma tb_fuel_le n h : (tb_fuel n h <= N.to_nat n + h + 2)%nat.
Proof. unfold tb_fuel. lia. Qed.

Theorem MerkleBlock_traverseAndBuild_tie_pow (n : N) (all : list hash) (mbits : list N) :
  n <= N.of_nat (length mbits) ->
  forall (h fuel : nat) (pos : N) (st : list N * list hash),
  (tb_fuel n h <= fuel)%nat -> N.of_nat h < 2 ^ 32 ->
  gTB fuel (mb_gen n all mbits st) (N.of_nat h) pos
  = rmap (mb_gen n all mbits) (mb_traverse_build node_hash n all mbits h pos st).
Proof.
  intros Hn.
  induction h as [|h' IH]; intros fuel pos st Hfuel Hh;
    (destruct fuel as [|fuel]; [unfold tb_fuel in Hfuel; lia|]).
  - unfold tb_fuel in Hfuel. unfold gTB. cbn [Kernels3.MerkleBlock_traverseAndBuild]. mbsimpl.
    destruct (gen_is_parent mbits n (N.of_nat 0) pos fuel Hn) as [i' Hloop]; [lia|].
    match goal with |- context [Go.whileM fuel ?c ?b ?s] =>
      change (Go.whileM fuel c b s) with
        (Go.whileM fuel (ip_cond ((N.shiftl ((pos + 1) mod 2^32) (N.of_nat 0)) mod 2^32) n) (ip_body mbits)
                   (0, (N.shiftl pos (N.of_nat 0)) mod 2^32)) end.
    rewrite Hloop. cbn [rbind]. change (N.of_nat 0 =? 0) with true. cbn [orb].
    rewrite mb_tb_O.
    pose proof (MerkleBlock_calcHash_tie
                  (Kernels3.mk_merkleblock_MerkleBlock n (map Some all) (map Some (snd st)) mbits
                     (fst st ++ [is_parent n mbits (N.of_nat 0) pos])) all eq_refl 0%nat fuel pos) as HC.
    unfold gCH in HC. cbn [Kernels3.merkleblock_MerkleBlock_numTx] in HC. rewrite HC by lia.
    destruct (mb_calc_hash node_hash n all 0 pos) as [x|e|k]; cbn [rmap rbind]; try reflexivity.
    mbsimpl. rewrite map_app. reflexivity.
  - pose proof (tb_fuel_S n h') as HfS. unfold tb_fuel in Hfuel.
    assert (tb_fuel n h' <= fuel)%nat as Hrec by (unfold tb_fuel in *; lia).
    unfold gTB. cbn [Kernels3.MerkleBlock_traverseAndBuild]. fold gTB. mbsimpl.
    destruct (gen_is_parent mbits n (N.of_nat (S h')) pos fuel Hn) as [i' Hloop]; [lia|].
    match goal with |- context [Go.whileM fuel ?c ?b ?s] =>
      change (Go.whileM fuel c b s) with
        (Go.whileM fuel (ip_cond ((N.shiftl ((pos + 1) mod 2^32) (N.of_nat (S h'))) mod 2^32) n) (ip_body mbits)
                   (0, (N.shiftl pos (N.of_nat (S h'))) mod 2^32)) end.
    rewrite Hloop. cbn [rbind]. rewrite height_S_nonzero. cbn [orb].
    rewrite mb_tb_S. cbv zeta.
    destruct (is_parent n mbits (N.of_nat (S h')) pos =? 0).
    + pose proof (MerkleBlock_calcHash_tie
                  (Kernels3.mk_merkleblock_MerkleBlock n (map Some all) (map Some (snd st)) mbits
                     (fst st ++ [is_parent n mbits (N.of_nat (S h')) pos])) all eq_refl (S h') fuel pos) as HC.
      unfold gCH in HC. cbn [Kernels3.merkleblock_MerkleBlock_numTx] in HC. rewrite HC by lia.
      destruct (mb_calc_hash node_hash n all (S h') pos) as [x|e|k]; cbn [rmap rbind]; try reflexivity.
      mbsimpl. rewrite map_app. reflexivity.
    + rewrite dec_height by exact Hh. rewrite wmul2add1_gen, wmul2_gen.
      change (Kernels3.mk_merkleblock_MerkleBlock n (map Some all) (map Some (snd st)) mbits
                (fst st ++ [is_parent n mbits (N.of_nat (S h')) pos]))
        with (mb_gen n all mbits (fst st ++ [is_parent n mbits (N.of_nat (S h')) pos], snd st)).
      rewrite IH by (try exact Hrec; lia).
      destruct (mb_traverse_build node_hash n all mbits h' (wmul pos 2) _) as [st1|e|k]; cbn [rmap rbind]; try reflexivity.
      rewrite MB_calcTreeWidth_gtw, gtw_tw. mbsimpl.
      destruct (wadd (wmul pos 2) 1 <? tw n (N.of_nat h')).
      * change (Kernels3.mk_merkleblock_MerkleBlock n (map Some all) (map Some (snd st1)) mbits (fst st1))
          with (mb_gen n all mbits st1).
        rewrite IH by (try exact Hrec; lia).
        destruct (mb_traverse_build node_hash n all mbits h' (wadd (wmul pos 2) 1) st1) as [st2|e|k]; reflexivity.
      * reflexivity.
Qed.

(* numTx + h + 2 units of fuel always suffice *)
Theorem MerkleBlock_traverseAndBuild_tie (n : N) (all : list hash) (mbits : list N) :
  n <= N.of_nat (length mbits) ->
  forall (h fuel : nat) (pos : N) (st : list N * list hash),
  (N.to_nat n + h + 2 <= fuel)%nat -> N.of_nat h < 2 ^ 32 ->
  gTB fuel (mb_gen n all mbits st) (N.of_nat h) pos
  = rmap (mb_gen n all mbits) (mb_traverse_build node_hash n all mbits h pos st).
Proof.
  intros Hn h fuel pos st Hfuel Hh. apply MerkleBlock_traverseAndBuild_tie_pow; try assumption.
  pose proof (tb_fuel_le n h). lia.
Qed.

End BuildTie.

(* The side condition numTx <= len(matchedBits) is needed: with fewer matched bits than transactions the Go
   loop indexes out of range (Panic 1) where the model's mb_is_parent (firstn/skipn) is total.  The builders
   always construct len(matchedBits) = len(transactions) >= numTx. *)
Example traverseAndBuild_short_matchedBits :
  gTB (fun a _ => a) 5 (mb_gen 1 [[7]] [] ([], [])) 0 0 = Panic 1 /\
  mb_traverse_build (fun a _ => a) 1 [[7]] [] 0 0 ([], []) = Ok ([0], [[7]]).
Proof. split; reflexivity. Qed.

Print Assumptions MerkleBlock_calcHash_tie.
Print Assumptions MerkleBlock_traverseAndBuild_tie_pow.
Print Assumptions MerkleBlock_traverseAndBuild_tie.

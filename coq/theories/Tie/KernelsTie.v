(* Tie between the Gallina transliteration of the Go integer kernels (Gen/Kernels.v, regenerated from
   the Go ASTs by harness/cmd/gotrans on every run) and the hand-written models the property theorems
   are about.  No constant of the source is repeated here: wherever a literal matters it is obtained by
   evaluating the model / the generated definitions, so these proofs speak about the shape of the code. *)
From BU Require Import Lib.Bytes Lib.PolyMod Gen.Kernels CashAddr.CashAddr Bech32.Bech32 Gcs.Gcs
  Checksum.StepFacts Tie.TieTactics.
From Coq Require Import ZifyBool ZifyN ZifyNat.

(* ---------- generic helpers ---------- *)
Lemma fold_left_inv_ext {A B} (P : A -> Prop) (Q : B -> Prop) (f g : A -> B -> A) l a :
  (forall a b, P a -> Q b -> f a b = g a b) ->
  (forall a b, P a -> Q b -> P (g a b)) ->
  P a -> Forall Q l ->
  fold_left f l a = fold_left g l a /\ P (fold_left g l a).
Proof.
  intros Hfg Hinv Ha Hl. revert a Ha.
  induction Hl as [|b l Hb Hl IH]; intros a Ha; cbn [fold_left]; [split; [reflexivity | exact Ha]|].
  rewrite Hfg by assumption. apply IH. apply Hinv; assumption.
Qed.

Lemma land_lt_pow2 a b n : a < 2 ^ n -> N.land a b < 2 ^ n.
Proof. rewrite !lt_pow2_shiftr. intros H. rewrite N.shiftr_land, H. apply N.land_0_l. Qed.

Lemma land_pow2 b k : N.land b (2 ^ k) = if N.testbit b k then 2 ^ k else 0.
Proof.
  apply N.bits_inj. intros n. rewrite N.land_spec, N.pow2_bits_eqb.
  destruct (N.testbit b k) eqn:Hb.
  - rewrite N.pow2_bits_eqb. destruct (N.eqb_spec k n) as [->|Hne]; [rewrite Hb; reflexivity | apply andb_false_r].
  - rewrite N.bits_0. destruct (N.eqb_spec k n) as [->|Hne]; [rewrite Hb; reflexivity | apply andb_false_r].
Qed.

(* the two ways the sources test bit k of the shifted-out symbol *)
Lemma bit_test b k : (N.land (N.shiftr b k) 1 =? 1) = (0 <? N.land b (2 ^ k)).
Proof.
  change 1 with (N.ones 1) at 1. rewrite N.land_ones. change (2 ^ 1) with 2.
  rewrite <- N.bit0_mod, N.shiftr_spec', N.add_0_l, land_pow2.
  assert (0 < 2 ^ k) by (apply N.neq_0_lt_0, N.pow_nonzero; lia).
  destruct (N.testbit b k); cbn [N.b2n]; lia.
Qed.

(* ---------- polyMod (address.go) = CashAddr.polymod ---------- *)
Lemma cash_wf_tie : pm_wf cash_params = true.
Proof. vm_compute. reflexivity. Qed.

Lemma cash_width_tie : 2 ^ pm_width cash_params = 2 ^ 40.
Proof. vm_compute. reflexivity. Qed.

Theorem polyMod_tie v : Bytes v -> Kernels.polyMod v = CashAddr.polymod v.
Proof.
  intros Hv. unfold Kernels.polyMod, CashAddr.polymod, pm_fold.
  let x := eval vm_compute in (L 0) in change (L 0) with x.
  let x := eval vm_compute in (L 19) in change (L 19) with x.
  f_equal.
  refine (proj1 (fold_left_inv_ext (fun c => c < 2 ^ 40) (fun d => d < 256) _ _ v 1 _ _ _ Hv)).
  - intros c d Hc Hd. cbv zeta.
    match goal with |- context [(N.shiftl (N.land c ?m) ?s) mod 2 ^ 64] =>
      assert (Hs : N.shiftl (N.land c m) s < 2 ^ 64)
        by (eapply N.lt_trans; [apply (shiftl_lt_pow2 _ 40 s), land_lt_pow2, Hc | reflexivity]);
      rewrite (N.mod_small _ _ Hs)
    end. rewrite (N.mod_small d (2 ^ 64)) by (eapply N.lt_trans; [exact Hd | reflexivity]).
    unfold pm_step.
    let x := eval vm_compute in cash_params in change cash_params with x.
    cbn [pm_shift pm_mask pm_sym pm_gens feedback]. reflexivity.
  - intros c d _ Hd. rewrite <- cash_width_tie. apply (step_bound _ cash_wf_tie).
    rewrite cash_width_tie. eapply N.lt_trans; [exact Hd | reflexivity].
  - reflexivity.
Qed.

(* ---------- bech32Polymod (bech32/bech32.go) = Bech32.polymod ---------- *)
Lemma bech_wf_tie : pm_wf bech_params = true.
Proof. vm_compute. reflexivity. Qed.

Lemma bech_width_tie : 2 ^ pm_width bech_params = 2 ^ 30.
Proof. vm_compute. reflexivity. Qed.

Lemma shiftr_small c n k : c < 2 ^ (n + k) -> N.shiftr c n < 2 ^ k.
Proof.
  intros H. rewrite N.shiftr_div_pow2. apply N.div_lt_upper_bound; [apply N.pow_nonzero; lia|].
  rewrite <- N.pow_add_r. exact H.
Qed.

(* closed sub-terms left by unrolling the counted loop are evaluated, whatever the constants are *)
Ltac eval_closed :=
  repeat match goal with
  | |- context [N.of_nat ?k] => is_nat_cst k; let x := eval vm_compute in (N.of_nat k) in change (N.of_nat k) with x
  end;
  repeat match goal with
  | |- context [?k mod 2 ^ 64] => is_N_cst k; let x := eval vm_compute in (k mod 2 ^ 64) in change (k mod 2 ^ 64) with x
  end;
  repeat match goal with
  | |- context [List.nth (N.to_nat ?k) ?t 0] => is_N_cst k; let x := eval vm_compute in (List.nth (N.to_nat k) t 0) in
                                         change (List.nth (N.to_nat k) t 0) with x
  end.

(* values: the symbols fed to the checksum (hrp expansion, data, zero padding), all below 32 in
   every use; the equality needs only that they are below 2^30, the register width *)
Theorem bech32Polymod_tie values :
  Forall (fun x => x < 2 ^ 30) values -> Kernels.bech32Polymod values = Bech32.polymod values.
Proof.
  intros Hv. unfold Kernels.bech32Polymod, Bech32.polymod, pm_fold.
  let x := eval vm_compute in (lit Xbech32.lits_bech32Polymod 0) in change (lit Xbech32.lits_bech32Polymod 0) with x.
  refine (proj1 (fold_left_inv_ext (fun c => c < 2 ^ 30) (fun d => d < 2 ^ 30) _ _ values 1 _ _ _ Hv)).
  - intros c d Hc Hd. cbv [List.seq List.fold_left]. cbv zeta. eval_closed.
    rewrite !bit_test.
    unfold pm_step.
    let x := eval vm_compute in bech_params in change bech_params with x.
    cbn [pm_shift pm_mask pm_sym pm_gens feedback].
    match goal with |- context [(N.shiftr c ?s) mod 256] =>
      rewrite (N.mod_small (N.shiftr c s) 256)
        by (eapply N.lt_trans; [apply (shiftr_small c s (30 - s)), Hc | reflexivity])
    end.
    repeat match goal with
    | |- context [2 ^ ?k] => is_N_cst k; let x := eval vm_compute in (2 ^ k) in change (2 ^ k) with x
    end.
    reflexivity.
  - intros c d _ Hd. rewrite <- bech_width_tie. apply (step_bound _ bech_wf_tie).
    rewrite bech_width_tie. exact Hd.
  - reflexivity.
Qed.

(* ---------- fastReduction (gcs/gcs.go) = high 64 bits of the 128-bit product ---------- *)
Lemma fast_core P Q R S vn :
  vn = S * 2 ^ 64 + (P + Q) * 2 ^ 32 + R ->
  S + P / 2 ^ 32 + Q / 2 ^ 32 + (P mod 2 ^ 32 + Q mod 2 ^ 32 + R / 2 ^ 32) / 2 ^ 32 = vn / 2 ^ 64.
Proof.
  intros ->. change (2 ^ 64) with 18446744073709551616. change (2 ^ 32) with 4294967296. lia.
Qed.

Theorem fastReduction_spec v nHi nLo :
  v < 2 ^ 64 -> nHi < 2 ^ 32 -> nLo < 2 ^ 32 ->
  Kernels.fastReduction v nHi nLo = (v * (nHi * 2 ^ 32 + nLo)) / 2 ^ 64.
Proof.
  intros Hv Hhi Hlo. unfold Kernels.fastReduction. cbv zeta.
  rewrite !N.shiftr_div_pow2.
  set (a := v / 2 ^ 32). set (b := v mod 2 ^ 32).
  assert (Ha : a < 2 ^ 32) by (apply N.div_lt_upper_bound; [discriminate | exact Hv]).
  assert (Hb : b < 2 ^ 32) by (apply N.mod_lt; discriminate).
  assert (Ev : v = a * 2 ^ 32 + b) by (unfold a, b; rewrite N.mul_comm; apply N.div_mod; discriminate).
  assert (Hmul : forall x y, x < 2 ^ 32 -> y < 2 ^ 32 -> x * y < 2 ^ 64).
  { intros x y Hx Hy. change (2 ^ 64) with (2 ^ 32 * 2 ^ 32). apply N.mul_lt_mono; assumption. }
  assert (H32 : forall x, x < 2 ^ 32 -> x mod 2 ^ 64 = x).
  { intros x Hx. apply N.mod_small. eapply N.lt_trans; [exact Hx | reflexivity]. }
  rewrite (H32 b Hb).
  rewrite (N.mod_small (a * nHi)), (N.mod_small (a * nLo)), (N.mod_small (nHi * b)), (N.mod_small (b * nLo))
    by (apply Hmul; assumption).
  rewrite (H32 ((a * nLo) mod 2 ^ 32)), (H32 ((nHi * b) mod 2 ^ 32)) by (apply N.mod_lt; discriminate).
  pose proof (Hmul a nHi Ha Hhi) as HS. pose proof (Hmul a nLo Ha Hlo) as HP.
  pose proof (Hmul nHi b Hhi Hb) as HQ. pose proof (Hmul b nLo Hb Hlo) as HR.
  assert (Evn : v * (nHi * 2 ^ 32 + nLo) = a * nHi * 2 ^ 64 + (a * nLo + nHi * b) * 2 ^ 32 + b * nLo).
  { rewrite Ev. change (2 ^ 64) with (2 ^ 32 * 2 ^ 32). ring. }
  pose proof (fast_core (a * nLo) (nHi * b) (b * nLo) (a * nHi) _ Evn) as Hcore.
  assert (Hlt : v * (nHi * 2 ^ 32 + nLo) / 2 ^ 64 < 2 ^ 64).
  { apply N.div_lt_upper_bound; [discriminate|].
    apply N.mul_lt_mono; [exact Hv|]. change (2 ^ 64) with (2 ^ 32 * 2 ^ 32).
    change (2 ^ 32) with 4294967296 in *. lia. }
  revert Hcore Hlt HS HP HQ HR.
  generalize (v * (nHi * 2 ^ 32 + nLo) / 2 ^ 64) as r.
  generalize (a * nLo) as P, (nHi * b) as Q, (b * nLo) as R, (a * nHi) as S.
  intros P Q R S r Hcore Hlt HS HP HQ HR.
  change (2 ^ 64) with 18446744073709551616 in *. change (2 ^ 32) with 4294967296 in *. lia.
Qed.

(* the same statement in the form used by the GCS model: n is the modulus N*P, split by the callers *)
Corollary fastReduction_spec_split v n :
  v < 2 ^ 64 -> n < 2 ^ 64 ->
  Kernels.fastReduction v (N.shiftr n 32) (n mod 2 ^ 32) = (v * n) / 2 ^ 64.
Proof.
  intros Hv Hn. rewrite fastReduction_spec; try assumption.
  - rewrite N.shiftr_div_pow2. f_equal. f_equal. rewrite N.mul_comm. symmetry. apply N.div_mod. discriminate.
  - rewrite N.shiftr_div_pow2. apply N.div_lt_upper_bound; [discriminate | exact Hn].
  - apply N.mod_lt. discriminate.
Qed.

(* equality with the hand-written model of engineer a-c13 (Gcs/Gcs.v), for ALL arguments: the two are
   the same term once the model's shift literals are evaluated *)
Lemma mod32_mod64 x : (x mod 2 ^ 32) mod 2 ^ 64 = x mod 2 ^ 32.
Proof.
  apply N.mod_small. eapply N.lt_trans; [apply N.mod_lt; discriminate | reflexivity].
Qed.

Theorem fastReduction_tie v nHi nLo : Kernels.fastReduction v nHi nLo = Gcs.fast_reduction v nHi nLo.
Proof.
  unfold Kernels.fastReduction, Gcs.fast_reduction, lo32, SipHash.w64.
  repeat match goal with
  | |- context [?f] =>
      first [constr_eq f fr_s0 | constr_eq f fr_s1 | constr_eq f fr_s2 | constr_eq f fr_s3 | constr_eq f fr_s4
            | constr_eq f two32 | constr_eq f SipHash.two64];
      let x := eval vm_compute in f in change f with x
  end.
  cbv zeta. rewrite !mod32_mod64. reflexivity.
Qed.

(* hence the model has the same specification (independently of Gcs/GcsProofs.v) *)
Corollary fast_reduction_model_spec v n :
  v < 2 ^ 64 -> n < 2 ^ 64 -> Gcs.fast_reduction v (N.shiftr n 32) (lo32 n) = (v * n) / 2 ^ 64.
Proof. intros Hv Hn. rewrite <- fastReduction_tie. apply fastReduction_spec_split; assumption. Qed.

Print Assumptions polyMod_tie.
Print Assumptions bech32Polymod_tie.
Print Assumptions fastReduction_spec.
Print Assumptions fastReduction_tie.

(* Correspondence driver for C17: evaluates the Flocq model of amount.go on the
   inputs the harness ran through the Go implementation.  Floats travel as their
   64-bit patterns; NaN results are compared as "is NaN". *)
From BU Require Export Lib.Bytes.
From Flocq Require Import Core IEEE754.BinarySingleNaN.
From BU Require Import Gen.Xbchutil Amount.Amount.

Inductive case :=
| NewAmt (bits : N) (ok : bool) (amt : Z)          (* NewAmount(f): accepted?, amount *)
| Rnd (bits : N) (amt : Z)                         (* round(f) (hook VerifRound) *)
| ToUnit (a u : Z) (bits : N) (nan : bool)         (* Amount(a).ToUnit(u) *)
| ToBCH (a : Z) (bits : N)                         (* Amount(a).ToBCH() *)
| MulF (a : Z) (fbits : N) (out : Z)               (* Amount(a).MulF64(f) *)
| Pow10 (n : Z) (bits : N)                         (* math.Pow10(n) (dependency, table model) *)
| UnitStr (u : Z) (s : list N)                     (* AmountUnit(u).String() *)
| Fmt (a u : Z) (text : list N)                    (* Amount(a).Format(u) against format_spec *)
| FmtO (a u : Z) (short text : list N)             (* Format with strconv's shortest text as oracle *)
| Short (bits : N) (text : list N).                (* strconv.FormatFloat(f,'f',-1,64) parses back to f *)

(* ---------- parsing %f text back to a float (validates the strconv dependency) ---------- *)
Fixpoint parse_digits (s : list N) (acc : Z) (nfrac : Z) (infrac : bool) : option (Z * Z) :=
  match s with
  | [] => Some (acc, nfrac)
  | c :: t =>
      if (c =? 46)%N then (if infrac then None else parse_digits t acc nfrac true)
      else if ((48 <=? c) && (c <=? 57))%N
           then parse_digits t (acc * 10 + Z.of_N (c - 48))%Z (if infrac then nfrac + 1 else nfrac)%Z infrac
           else None
  end.

Definition parse_dec (s : list N) : option (bool * Z * Z) :=
  match s with
  | 45%N :: t => match parse_digits t 0%Z 0%Z false with Some (m, k) => Some (true, m, k) | None => None end
  | _ => match parse_digits s 0%Z 0%Z false with Some (m, k) => Some (false, m, k) | None => None end
  end.

(* the binary64 nearest to (neg ? -1 : 1) * m / 10^k *)
Definition float_of_dec (neg : bool) (m k : Z) : float :=
  if (m =? 0)%Z then B754_zero neg
  else let f := rn_ratio m (10 ^ k) in if neg then Bopp f else f.

Definition float_matches (f : float) (bits : N) (nan : bool) : bool :=
  match f with
  | B754_nan => nan
  | _ => negb nan && (bits_of f =? bits)%N
  end.

Definition check (c : case) : bool :=
  match c with
  | NewAmt bits ok amt =>
      match new_amount (of_bits bits) with
      | Ok z => ok && (z =? amt)%Z
      | Err _ => negb ok
      | Panic _ => false
      end
  | Rnd bits amt => (round (of_bits bits) =? amt)%Z
  | ToUnit a u bits nan => float_matches (to_unit a u) bits nan
  | ToBCH a bits => float_matches (to_bch a) bits false
  | MulF a fbits out => (mul_f64 a (of_bits fbits) =? out)%Z
  | Pow10 n bits => float_matches (pow10 n) bits false
  | UnitStr u s => list_eqb (unit_string u) s
  | Fmt a u text => list_eqb (format_spec a u) text
  | FmtO a u short text =>
      list_eqb (format (fun _ => short) a u) text &&
      match parse_dec short with
      | Some (neg, m, k) => float_matches (float_of_dec neg m k) (bits_of (to_unit a u)) false
      | None => false
      end
  | Short bits text =>
      match parse_dec text with
      | Some (neg, m, k) => float_matches (float_of_dec neg m k) bits false
      | None => false
      end
  end.

Fixpoint mism (i : nat) (cs : list case) : list nat :=
  match cs with
  | [] => []
  | c :: t => if check c then mism (S i) t else i :: mism (S i) t
  end.
Definition mismatches (cs : list case) : list nat := mism 0 cs.

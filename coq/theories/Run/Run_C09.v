(* Correspondence driver for C09: evaluates the MurmurHash3 and bloom-filter models on the
   inputs the harness ran through bloom.MurmurHash3 / bloom.Filter and compares with what the
   implementation returned. *)
From BU Require Export Lib.Bytes.
From BU Require Export Bloom.Murmur3 Bloom.Bloom.

Definition zeros (n : N) : list N := repeat 0 (N.to_nat n).

(* (index, byte) of every non-zero byte, in order *)
Fixpoint sparse_from (i : N) (l : list N) : list (N * N) :=
  match l with
  | [] => []
  | b :: t => if b =? 0 then sparse_from (i + 1) t else (i, b) :: sparse_from (i + 1) t
  end.

Fixpoint pairs_eqb (a b : list (N * N)) : bool :=
  match a, b with
  | [], [] => true
  | (x1, y1) :: a', (x2, y2) :: b' => (x1 =? x2) && (y1 =? y2) && pairs_eqb a' b'
  | _, _ => false
  end.

Fixpoint bools_eqb (a b : list bool) : bool :=
  match a, b with
  | [], [] => true
  | x :: a', y :: b' => Bool.eqb x y && bools_eqb a' b'
  | _, _ => false
  end.

(* what MsgFilterLoad() showed at the end: None = unloaded; otherwise length, non-zero bytes, HashFuncs, Tweak, Flags *)
Definition fin := option (N * list (N * N) * N * N * N).

Definition fin_ok (f : filter) (o : fin) : bool :=
  match f, o with
  | None, None => true
  | Some m, Some (len, nz, nh, tw, fl) =>
      (N.of_nat (length (m_bytes m)) =? len) && pairs_eqb (sparse_from 0 (m_bytes m)) nz &&
      (m_nhash m =? nh) && (m_tweak m =? tw) && (m_flags m =? fl)
  | _, _ => false
  end.

Inductive case :=
| Limits (maxSize maxHash : N)                                   (* wire.MaxFilterLoadFilterSize, MaxFilterLoadHashFuncs *)
| Murmur (seed : N) (data : list N) (out : N)                    (* bloom.MurmurHash3 *)
| BitIdx (len tweak i : N) (data : list N) (out : N)             (* Filter.hash on an array of len bytes *)
| Hist (init : option msg) (ops : list op) (obs : list bool) (final : fin)   (* LoadFilter(init); ops; MsgFilterLoad() *)
| Sizing (conv_len arg conv_hash tweak flags : N) (final : fin). (* NewFilter: the two float->uint32 conversions as observed *)

Definition check (c : case) : bool :=
  match c with
  | Limits a b => (max_filter_size =? a) && (max_hash_funcs =? b)
  | Murmur s d out => murmur3 s d =? out
  | BitIdx len tw i d out => bit_index (MkMsg (zeros len) 0 tw 0) i d =? out
  | Hist init ops obs final =>
      let '(f, rs) := run (load_filter init) ops in bools_eqb rs obs && fin_ok f final
  | Sizing cl arg ch tw fl final =>
      (w32 (fst (sizing cl (fun _ => ch)) * nlit 3) =? arg) &&     (* the argument of the second conversion *)
      fin_ok (new_filter cl (fun _ => ch) tw fl) final
  end.

Fixpoint mism (i : nat) (cs : list case) : list nat :=
  match cs with
  | [] => []
  | c :: t => if check c then mism (S i) t else i :: mism (S i) t
  end.
Definition mismatches (cs : list case) : list nat := mism 0 cs.

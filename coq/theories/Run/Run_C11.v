(* Correspondence driver for C11: evaluates the models of the two merkle-block builders
   (merkleblock.NewMerkleBlockWithTxnSet / NewMerkleBlockWithFilter, bloom.NewMerkleBlock) and of
   extraction on the blocks the harness fed to the implementation and compares with what the
   implementation returned. *)
From BU Require Export Lib.Bytes.
From BU Require Import Lib.Sha256 Merkle.Merkle Merkle.MerkleRun.
Export Merkle.Merkle Merkle.MerkleRun.

Inductive case :=
| NodeHash (l r out : list N)
    (* blockchain.HashMerkleBranches(l, r) vs sha256d (l ++ r) of Lib/Sha256.v *)
| BuildSet (tbl : table) (header : list N) (leaves txnset : list (list N))
           (numTx : N) (hashes : list (list N)) (flags : list N) (idx : list N)
           (maxtx : N) (ok bad : bool) (root : list N) (matches : list (N * list N))
    (* NewMerkleBlockWithTxnSet(block, txnset): leaves = tx ids in block order, header = serialised
       block header; message fields (header must be the block's) and returned index list; then
       ExtractMatches on that message: ok/bad/root/matches as in [Ext] *)
| BuildFilter (tbl : table) (header : list N) (leaves : list (list N)) (matched : list bool)
              (numTx : N) (hashes : list (list N)) (flags : list N) (idx : list N)
              (numTx2 : N) (hashes2 : list (list N)) (flags2 : list N) (idx2 : list N)
    (* matched[i] = bloom.GetMatchedIndices(block, filter)[i]; first result: merkleblock.NewMerkleBlockWithFilter,
       second: bloom.NewMerkleBlock *)
| Ext (tbl : table) (maxtx numTx : N) (hashes : list (list N)) (flags : list N)
      (ok bad : bool) (root : list N) (matches : list (N * list N)).
    (* as in Run_C12: ExtractMatches on msg{numTx, hashes, flags} *)

Definition built_ok (r : res (msg * list N)) (header : list N) (numTx : N) (hashes : list (list N))
           (flags : list N) (idx : list N) : bool :=
  match r with
  | Ok (m, ix) => msg_eqb m (mkMsg header numTx hashes flags) && list_eqb ix idx
  | _ => false
  end.

Definition ext_ok (tbl : table) (maxtx numTx : N) (hashes : list (list N)) (flags : list N)
           (ok bad : bool) (root : list N) (matches : list (N * list N)) : bool :=
  match extract (node_hash_run tbl) maxtx (mkMsg [] numTx hashes flags) with
  | Ok (r, ms) => ok && negb bad && list_eqb r root && matches_eqb ms matches
  | Err e => negb ok && Bool.eqb bad (e =? 5)
  | Panic _ => false
  end.

Definition check (c : case) : bool :=
  match c with
  | NodeHash l r out => list_eqb (node_hash_run [] l r) out
  | BuildSet tbl header leaves txnset numTx hashes flags idx maxtx ok bad root matches =>
      built_ok (mb_new_with_txnset (node_hash_run tbl) header leaves txnset) header numTx hashes flags idx
      && ext_ok tbl maxtx numTx hashes flags ok bad root matches
  | BuildFilter tbl header leaves matched numTx hashes flags idx numTx2 hashes2 flags2 idx2 =>
      let mm := fun i => nth i matched false in
      built_ok (mb_new_with_filter (node_hash_run tbl) header leaves mm) header numTx hashes flags idx
      && built_ok (bl_new (node_hash_run tbl) header leaves mm) header numTx2 hashes2 flags2 idx2
  | Ext tbl maxtx numTx hashes flags ok bad root matches =>
      ext_ok tbl maxtx numTx hashes flags ok bad root matches
  end.

Definition mismatches (cs : list case) : list nat := mism_with check 0 cs.

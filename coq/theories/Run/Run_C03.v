(* Correspondence driver for C03: the implementation's own remainder functions (through the
   verif hooks), checksum creation/verification and the two string decoders, compared with the
   models the C03 theorems are about. *)
From BU Require Export Lib.Bytes.
From BU Require Import Lib.PolyMod CashAddr.CashAddr Bech32.Bech32.

Inductive case :=
| CashPoly (v : list N) (out : N)                               (* polyMod(v) *)
| BechPoly (v : list N) (out : N)                               (* bech32Polymod(v) *)
| CashVerify (prefix payload : list N) (ok : bool)              (* verifyChecksum *)
| BechVerify (hrp data : list N) (ok : bool)                    (* bech32VerifyChecksum *)
| CashCreate (prefix payload out : list N)                      (* createChecksum *)
| BechCreate (hrp data out : list N)                            (* bech32Checksum *)
| CashDec (s : list N) (ok chk : bool) (prefix payload : list N) (* DecodeCashAddress: accepted?, error is ErrChecksumMismatch?, fields *)
| BechDec (s : list N) (ok : bool) (hrp data : list N).          (* bech32.Decode *)

Definition check (c : case) : bool :=
  match c with
  | CashPoly v out => CashAddr.polymod v =? out
  | BechPoly v out => Bech32.polymod v =? out
  | CashVerify p v ok => Bool.eqb (CashAddr.verify_checksum p v) ok
  | BechVerify h d ok => Bool.eqb (Bech32.verify_checksum h d) ok
  | CashCreate p v out => list_eqb (CashAddr.create_checksum p v) out
  | BechCreate h d out => list_eqb (Bech32.create_checksum h d) out
  | CashDec s ok chk prefix payload =>
      match decode_cashaddr s with
      | Ok (p, v) => ok && list_eqb p prefix && list_eqb v payload
      | Err e => negb ok && Bool.eqb (e =? 8) chk
      | Panic _ => false
      end
  | BechDec s ok hrp data =>
      match Bech32.decode s with
      | Ok (h, d) => ok && list_eqb h hrp && list_eqb d data
      | Err _ => negb ok
      | Panic _ => false
      end
  end.

Fixpoint mism (i : nat) (cs : list case) : list nat :=
  match cs with
  | [] => []
  | c :: t => if check c then mism (S i) t else i :: mism (S i) t
  end.
Definition mismatches (cs : list case) : list nat := mism 0 cs.

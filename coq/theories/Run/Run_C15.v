(* Correspondence driver for C15: replays the histories the harness ran on hdkeychain.ExtendedKey
   through the heap machine of HDHeap/HDHeap.v and compares, after every step, the outcome of the
   operation and what every key of the pool shows (String payload / "zeroed", IsPrivate).
   HMAC-SHA512, secp256k1, HASH160 are looked up in an oracle table written by the harness (keyed by the
   full arguments, so a disagreement about what is fed to a primitive shows up); the 4-byte checksum of
   NewKeyFromString is computed with Lib/Sha256. *)
From BU Require Export Lib.Bytes HDHeap.HDHeap.
From BU Require Import Lib.Sha256 HDHeap.HDFinding.

(* (tag, arg1, arg2) -> (status, bytes); tags: 1 hmac512, 2 scalar_ok, 3 pub_of_priv, 4 priv_add, 5 pub_add,
   6 hash160, 7 parse_pub *)
Definition oracle := list ((N * list N * list N) * (N * list N)).

Fixpoint ask (t : oracle) (tag : N) (a b : list N) : N * list N :=
  match t with
  | [] => (99, [238; 238; 238])                        (* not in the table: poisons the result *)
  | ((tg, x, y), r) :: t' => if (tg =? tag) && list_eqb x a && list_eqb y b then r else ask t' tag a b
  end.

Definition res_of (r : N * list N) : res (list N) := if fst r =? 0 then Ok (snd r) else Err (fst r).

Definition orc_deps (t : oracle) : deps :=
  {| d_hmac512 := fun k d => snd (ask t 1 k d);
     d_scalar_ok := fun b => fst (ask t 2 b []) =? 1;
     d_pub_of_priv := fun k => snd (ask t 3 k []);
     d_priv_add := fun il k => snd (ask t 4 il k);
     d_pub_add := fun il K => res_of (ask t 5 il K);
     d_hash160 := fun b => snd (ask t 6 b []);
     d_parse_pub := fun b => res_of (ask t 7 b []);
     d_cks4 := fun p => firstn 4 (sha256d p) |}.

Inductive case :=
(* a history on an initially empty pool: operations, the outcome of each, and after each the
   observation of every key in the pool.  An expected `OErr 0` stands for "some error" (operations on
   zeroed keys whose error class the property does not specify). *)
| Hist (orc : oracle) (ops : list op) (outs : list outcome) (snaps : list (list (outcome * bool))).

Definition out_match (model expected : outcome) : bool :=
  match expected, model with
  | OErr 0, OErr _ => true
  | _, _ => outcome_eqb model expected
  end.

Fixpoint snap_eqb (a b : list (outcome * bool)) : bool :=
  match a, b with
  | [], [] => true
  | (o1, p1) :: a', (o2, p2) :: b' => outcome_eqb o1 o2 && Bool.eqb p1 p2 && snap_eqb a' b'
  | _, _ => false
  end.

Fixpoint replay (D : deps) (s : state) (ops : list op) (outs : list outcome) (snaps : list (list (outcome * bool))) : bool :=
  match ops, outs, snaps with
  | [], [], [] => true
  | o :: ops', r :: outs', sn :: snaps' =>
      let '(s1, r1) := step D s o in
      out_match r1 r && snap_eqb (snapshot s1) sn && replay D s1 ops' outs' snaps'
  | _, _, _ => false
  end.

(* the pure reference (trace machine) against the implementation's outcomes *)
Fixpoint pure_match (ps : list (option outcome)) (outs : list outcome) : bool :=
  match ps, outs with
  | [], [] => true
  | Some p :: ps', r :: outs' => out_match p r && pure_match ps' outs'
  | None :: ps', OErr _ :: outs' => pure_match ps' outs'
  | _, _ => false
  end.

Definition check (c : case) : bool :=
  match c with
  | Hist orc ops outs snaps =>
      let D := orc_deps orc in
      replay D init ops outs snaps && pure_match (snd (trace D [] ops)) outs
  end.

Fixpoint mism (i : nat) (cs : list case) : list nat :=
  match cs with
  | [] => []
  | c :: t => if check c then mism (S i) t else i :: mism (S i) t
  end.
Definition mismatches (cs : list case) : list nat := mism 0 cs.

(* Correspondence driver for C07: evaluates the Base58/Base58Check/bech32 models
   on the inputs the harness ran through the Go implementation and compares
   with what the implementation returned. *)
From BU Require Export Lib.Bytes.
From BU Require Import Lib.Sha256 Lib.Slice Base58.Base58 Bech32.Bech32 Bech32.PurityModel.

Inductive case :=
| Sha (msg out : list N)                                  (* crypto/sha256 vs Lib.Sha256 *)
| B58Dec (s out : list N)                                 (* base58.Decode *)
| B58Enc (b out : list N)                                 (* base58.Encode *)
| ChkEnc (input : list N) (ver : N) (out : list N)        (* base58.CheckEncode *)
| ChkDec (s : list N) (cls : N) (payload : list N) (ver : N)   (* base58.CheckDecode: cls 0 ok, 1 format, 2 checksum *)
| BechDec (s : list N) (ok : bool) (hrp data : list N)    (* bech32.Decode: accepted?, hrp, data *)
| BechEnc (hrp data : list N) (ok : bool) (out : list N)  (* bech32.Encode *)
| Conv (data : list N) (fromBits toBits : N) (pad : bool) (ok : bool) (out : list N) (* bech32.ConvertBits *)
| PureEnc (hrp data : list N) (spare : nat) (after : list N).  (* caller's backing array (len+spare bytes, spare filled with 0xA5) after bech32.Encode *)

Definition check (c : case) : bool :=
  match c with
  | Sha msg out => list_eqb (sha256 msg) out
  | B58Dec s out => list_eqb (Base58.decode s) out
  | B58Enc b out => list_eqb (Base58.encode b) out
  | ChkEnc input ver out => list_eqb (check_encode input ver) out
  | ChkDec s cls payload ver =>
      match check_decode s with
      | Ok (p, v) => (cls =? 0) && list_eqb p payload && (v =? ver)
      | Err e => e =? cls
      | Panic _ => false
      end
  | BechDec s ok hrp data =>
      match Bech32.decode s with
      | Ok (h, d) => ok && list_eqb h hrp && list_eqb d data
      | Err _ => negb ok
      | Panic _ => false
      end
  | BechEnc hrp data ok out =>
      match Bech32.encode hrp data with
      | Ok s => ok && list_eqb s out
      | Err _ => negb ok
      | Panic _ => false
      end
  | Conv data f t pad ok out =>
      match convert_bits data f t pad with
      | Ok r => ok && list_eqb r out
      | Err _ => negb ok
      | Panic _ => false
      end
  | PureEnc hrp data spare after =>
      let h := [data ++ repeat 165 spare] in
      let s := {| s_arr := 0; s_off := 0; s_len := length data; s_cap := length data + spare |} in
      list_eqb (arr (fst (encode_mem h s (create_checksum hrp data))) 0) after
  end.

Fixpoint mism (i : nat) (cs : list case) : list nat :=
  match cs with
  | [] => []
  | c :: t => if check c then mism (S i) t else i :: mism (S i) t
  end.
Definition mismatches (cs : list case) : list nat := mism 0 cs.

(* Correspondence driver for C05: NewKeyFromString and String of the model (HD/HD.v: parse, to_string)
   against what hdkeychain returned.  ParsePubKey comes from the oracle table of the case; double SHA-256
   is computed by Lib/Sha256.v when the case's o_dsha table is empty and looked up otherwise. *)
From BU Require Export Lib.Bytes.
From BU Require Export Gen.Nets HD.HD HD.HDRun.

Inductive case :=
| Parse (o : oracle) (s : list N) (out : res xkey)      (* NewKeyFromString: class / all fields *)
| Str (o : oracle) (k : xkey) (s : list N).             (* String *)

Definition check (c : case) : bool :=
  match c with
  | Parse o s out => res_eqb xkey_eqb (r_parse_key o s) out
  | Str o k s => list_eqb (r_to_string o k) s &&
                 (* and the model parses its own output back to the same key *)
                 res_eqb xkey_eqb (parse pt (fun b => match r_parse o b with Panic _ => Ok (0, 0) | x => x end) (r_dsha o) s)
                         (Ok (if xk_priv k then mk_xkey (xk_version k) (padded_append 32 [] (xk_key k)) (xk_chain k) (xk_fp k)
                                                       (xk_depth k) (xk_childnum k) true else k))
  end.

Fixpoint mism (i : nat) (cs : list case) : list nat :=
  match cs with
  | [] => []
  | c :: t => if check c then mism (S i) t else i :: mism (S i) t
  end.
Definition mismatches (cs : list case) : list nat := mism 0 cs.

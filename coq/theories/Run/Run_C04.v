(* Correspondence driver for C04: evaluates the HD model (HD/HD.v instantiated with the oracle tables the
   harness wrote, HD/HDRun.v) on the inputs the harness ran through hdkeychain and compares the
   projected observables (accept / error class, all fields of the resulting key, strings, HASH160). *)
From BU Require Export Lib.Bytes.
From BU Require Export Gen.Nets HD.HD HD.HDRun.

Inductive case :=
| CurveN (n : N)                                                        (* bchec.S256().N *)
| Master (o : oracle) (seed : list N) (net : N) (out : res xkey)        (* NewMaster *)
| Child (o : oracle) (k : xkey) (i : N) (out : res xkey)                (* Child *)
| Neuter (o : oracle) (k : xkey) (out : res xkey)                       (* Neuter *)
| Str (o : oracle) (k : xkey) (s : list N)                              (* String *)
| Addr (o : oracle) (k : xkey) (out : res (list N))                     (* Address(...).Hash160() *)
| PubBytes (o : oracle) (k : xkey) (out : list N)                       (* pubKeyBytes *)
| ECPriv (k : xkey) (out : res N)                                       (* ECPrivKey().D *)
| ECPub (o : oracle) (k : xkey) (out : res pt)                          (* ECPubKey() X, Y *)
| PadApp (size : nat) (dst src out : list N)                            (* paddedAppend *)
| ForNet (k : xkey) (net : N) (out : bool)                              (* IsForNet *)
| SetNet (k : xkey) (net : N) (out : xkey)                              (* SetNet *)
| Path (o : oracle) (seed : list N) (net : N) (path : list N)           (* NewMaster; Child...; String; Neuter; String; Address *)
       (out : res xkey) (str nstr h160 : list N).

Definition check (c : case) : bool :=
  match c with
  | CurveN n => n =? secp_nN
  | Master o seed nt out => res_eqb xkey_eqb (r_new_master o seed (net_of nt)) out
  | Child o k i out => res_eqb xkey_eqb (r_child o k i) out
  | Neuter o k out => res_eqb xkey_eqb (r_neuter o k) out
  | Str o k s => list_eqb (r_to_string o k) s
  | Addr o k out => res_eqb list_eqb (r_address o k) out
  | PubBytes o k out => list_eqb (r_pubkey_bytes o k) out
  | ECPriv k out => res_eqb N.eqb (ec_priv k) out
  | ECPub o k out => res_eqb pt_eqb (r_ec_pub o k) out
  | PadApp size dst src out => list_eqb (padded_append size dst src) out
  | ForNet k nt out => Bool.eqb (is_for_net k (net_of nt)) out
  | SetNet k nt out => xkey_eqb (set_net k (net_of nt)) out
  | Path o seed nt path out str nstr h160 =>
      let r := do m <- r_new_master o seed (net_of nt) ;; r_derive o m path in
      res_eqb xkey_eqb r out &&
      match r with
      | Ok k => list_eqb (r_to_string o k) str &&
                match r_neuter o k with Ok nk => list_eqb (r_to_string o nk) nstr | _ => false end &&
                res_eqb list_eqb (r_address o k) (Ok h160)
      | _ => true
      end
  end.

Fixpoint mism (i : nat) (cs : list case) : list nat :=
  match cs with
  | [] => []
  | c :: t => if check c then mism (S i) t else i :: mism (S i) t
  end.
Definition mismatches (cs : list case) : list nat := mism 0 cs.

(* Correspondence driver for C06: evaluates the WIF model on the inputs the harness ran through
   NewWIF / WIF.String / DecodeWIF / SerializePubKey / IsForNet and compares with what the
   implementation returned. *)
From BU Require Export Lib.Bytes.
From BU Require Import Lib.Sha256 Base58.Base58 Wif.Wif.
From BU Require Export Wif.WifHist.   (* the cases files name the constructors of wop *)

Inductive case :=
(* bchec.PrivKeyFromBytes(key); NewWIF(priv, net, compress).String() = out *)
| Enc (key : list N) (net : N) (compress : bool) (out : list N)
(* DecodeWIF(s): cls 0 ok / 1 malformed / 2 checksum; PrivKey.Serialize(), CompressPubKey, the
   unique id b with IsForNet(Params{PrivateKeyID: b}) *)
| Dec (s : list N) (cls : N) (key : list N) (compress : bool) (net : N)
(* SerializePubKey of NewWIF(key, _, compress), with the curve point (x, y) of the key as computed
   by an independent ScalarBaseMult call (oracle for the dependency) *)
| Pub (key : list N) (compress : bool) (x y : N) (out : list N)
(* a history on ONE value NewWIF(key, net, compress): flag assignments, String and SerializePubKey calls (the
   harness overwrites every returned slice before the next call); outs = what each step returned ([] for an
   assignment); (x, y) as in Pub *)
| Hist (key : list N) (net : N) (compress : bool) (ops : list wop) (x y : N) (outs : list (list N)).

Fixpoint lists_eqb (a b : list (list N)) : bool :=
  match a, b with
  | [], [] => true
  | x :: a', y :: b' => list_eqb x y && lists_eqb a' b'
  | _, _ => false
  end.

Definition check (c : case) : bool :=
  match c with
  | Enc key net compress out => list_eqb (wif_string (new_wif key net compress)) out
  | Dec s cls key compress net =>
      match decode_wif s with
      | Ok w => (cls =? 0) && list_eqb (priv_serialize w) key && Bool.eqb (w_compress w) compress &&
                is_for_net w net
      | Err e => e =? cls
      | Panic _ => false
      end
  | Pub key compress x y out =>
      list_eqb (serialize_pubkey (fun _ => (x, y)) (new_wif key 0 compress)) out
  | Hist key net compress ops x y outs =>
      lists_eqb (wrun (fun _ => (x, y)) (new_wif key net compress) ops) outs
  end.

Fixpoint mism (i : nat) (cs : list case) : list nat :=
  match cs with
  | [] => []
  | c :: t => if check c then mism (S i) t else i :: mism (S i) t
  end.
Definition mismatches (cs : list case) : list nat := mism 0 cs.

(* Correspondence driver for C10: evaluates the BloomTx model (matchTxAndUpdate and the
   block scan) on what the harness ran through the Go implementation.

   Filter instance.  The abstract filter of Bloom/BloomTx.v is instantiated by the bloom
   filter *as a set of bits*: the state is the bit array read as one number (bit j of
   byte k = bit 8k+j), and an item is represented by the mask of the bit positions its
   nHash murmur hashes select.  That mask is an ORACLE: for every byte string a case can
   query (transaction ids, data pushes, outpoints) the harness obtains it from the real
   code (a zeroed filter with the case's size/nHash/tweak, Filter.Add(item), read the
   array) and writes it in the case's table.  contains = "all mask bits set", insert =
   "or the mask in" is then exactly what bloom.Filter does, false positives included, so
   the model's answers (result, final bit array, matched indices) must equal the
   implementation's bit for bit on small, collision-rich filters as well as large ones.
   An item missing from the table is a mismatch (coverage is checked before evaluation).
   An unloaded filter (msgFilterLoad == nil) contains nothing and ignores insertions.

   Encoding.  To keep the shards small a byte string b is written as the number 0x01‖b
   (big-endian, the leading 01 keeps leading zero bytes and the length), so items and
   transaction ids are [N]; the outpoint serialisation hash‖LE32(index) is computed on
   that encoding.  The table gives, per item, the list of selected bit positions. *)
From BU Require Export Lib.Bytes Bloom.BloomTx.

Definition item := N.
Definition txid := N.
Definition table := list (item * N).           (* item -> mask *)
Definition ptable := list (item * list N).     (* item -> bit positions, as written by the harness *)

Definition mask_of (ps : list N) : N := fold_left (fun m p => N.lor m (N.shiftl 1 p)) ps 0.
Definition masks (pt : ptable) : table := map (fun e => (fst e, mask_of (snd e))) pt.

Fixpoint lookup (tbl : table) (x : item) : option N :=
  match tbl with
  | [] => None
  | (k, v) :: rest => if k =? x then Some v else lookup rest x
  end.

Record bf := { bf_loaded : bool; bf_bits : N }.

Definition bits_of (tbl : table) (x : item) : N :=
  match lookup tbl x with Some b => b | None => 0 end.

Definition bf_contains (tbl : table) (f : bf) (x : item) : bool :=
  bf_loaded f && (N.land (bf_bits f) (bits_of tbl x) =? bits_of tbl x).
Definition bf_insert (tbl : table) (f : bf) (x : item) : bf :=
  if bf_loaded f then {| bf_loaded := true; bf_bits := N.lor (bf_bits f) (bits_of tbl x) |} else f.

Definition id_item (h : txid) : item := h.
(* 0x01‖hash‖LE32(i) *)
Definition op_item (h : txid) (i : N) : item := h * 2 ^ 32 + be_value (le_bytes 4 i) 0.

(* compact transaction literals written by the harness *)
Definition T (id : txid) (outs : list (option (list item) * sclass)) (ins : list (txid * N * option (list item))) : tx item txid :=
  Build_tx id (map (fun o => Build_txout (fst o) (snd o)) outs)
              (map (fun i => Build_txin (fst (fst i)) (snd (fst i)) (snd i)) ins).

Inductive case :=
(* Filter.MatchTxAndUpdate: result and the bit array afterwards *)
| MatchTx (pt : ptable) (loaded : bool) (fl : uflag) (f0 : N) (t : tx item txid) (r : bool) (f1 : N)
(* bloom.GetMatchedIndices: the matched indices (any order) and the bit array afterwards *)
| Scan (pt : ptable) (loaded : bool) (fl : uflag) (f0 : N) (txs : list (tx item txid)) (matched : list nat) (f1 : N).

Definition opt_items (o : option (list item)) : list item := match o with Some l => l | None => [] end.
Definition tx_items (t : tx item txid) : list item :=
  id_item (t_id t)
  :: flat_map (fun o => opt_items (o_pushes o)) (t_outs t)
  ++ map (fun k => op_item (t_id t) (N.of_nat k)) (seq 0 (length (t_outs t)))
  ++ flat_map (fun i => op_item (i_hash i) (i_index i) :: opt_items (i_pushes i)) (t_ins t).
Definition covered (tbl : table) (t : tx item txid) : bool :=
  forallb (fun x => match lookup tbl x with Some _ => true | None => false end) (tx_items t).

Definition same_set (n : nat) (a b : list nat) : bool :=
  forallb (fun k => Bool.eqb (existsb (Nat.eqb k) a) (existsb (Nat.eqb k) b)) (seq 0 n)
  && forallb (fun k => Nat.ltb k n) a && forallb (fun k => Nat.ltb k n) b.

Definition check (c : case) : bool :=
  match c with
  | MatchTx pt loaded fl f0 t r f1 =>
      let tbl := masks pt in
      covered tbl t &&
      let '(r', f') := match_tx_update (bf_contains tbl) (bf_insert tbl) id_item op_item fl
                         {| bf_loaded := loaded; bf_bits := f0 |} t in
      Bool.eqb r r' && (bf_bits f' =? f1)
  | Scan pt loaded fl f0 txs matched f1 =>
      let tbl := masks pt in
      forallb (covered tbl) txs &&
      match scan (bf_contains tbl) (bf_insert tbl) N.eqb id_item op_item fl
                 {| bf_loaded := loaded; bf_bits := f0 |} txs with
      | Some st => same_set (length txs) matched (s_matched st) && (bf_bits (s_f st) =? f1)
      | None => false
      end
  end.

Fixpoint mism (i : nat) (cs : list case) : list nat :=
  match cs with
  | [] => []
  | c :: t => if check c then mism (S i) t else i :: mism (S i) t
  end.
Definition mismatches (cs : list case) : list nat := mism 0 cs.

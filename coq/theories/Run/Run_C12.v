(* Correspondence driver for C12: evaluates the model of merkleblock.NewMerkleBlockFromMsg +
   PartialBlock.ExtractMatches/GetMatches/GetItems/BadTree on the messages the harness fed to the
   implementation and compares with what the implementation returned. *)
From BU Require Export Lib.Bytes.
From BU Require Import Lib.Sha256 Merkle.Merkle Merkle.MerkleRun.
Export Merkle.Merkle Merkle.MerkleRun.

Inductive case :=
| NodeHash (l r out : list N)
    (* blockchain.HashMerkleBranches(l, r) vs sha256d (l ++ r) of Lib/Sha256.v *)
| Ext (tbl : table) (maxtx numTx : N) (hashes : list (list N)) (flags : list N)
      (ok bad : bool) (root : list N) (matches : list (N * list N)).
    (* msg{Transactions numTx, Hashes, Flags}; ok = ExtractMatches() != nil; bad = BadTree();
       root, matches = (GetItems()[k], GetMatches()[k]) when ok; maxtx = merkleblock.MaxTxnCount *)

Definition check (c : case) : bool :=
  match c with
  | NodeHash l r out => list_eqb (node_hash_run [] l r) out
  | Ext tbl maxtx numTx hashes flags ok bad root matches =>
      match extract (node_hash_run tbl) maxtx (mkMsg [] numTx hashes flags) with
      | Ok (r, ms) => ok && negb bad && list_eqb r root && matches_eqb ms matches
      | Err e => negb ok && Bool.eqb bad (e =? 5)
      | Panic _ => false
      end
  end.

Definition mismatches (cs : list case) : list nat := mism_with check 0 cs.

(* Correspondence driver for C14: filter bytes, serialisations, deserialisers,
   the GCSBuilder chain, block-filter content, filter hash and header. *)
From BU Require Export Lib.Bytes.
From BU Require Import Lib.Sha256 Gcs.SipHash Gcs.Sort Gcs.Gcs Gcs.BStream Gcs.GcsBuilder Gcs.Bip158Spec.
Export Gcs.GcsBuilder.

(* the two anonymous fmt.Errorf values of GCSBuilder.Build ("p value is not set" / "m value is not set": model classes 5 / 6)
   differ only in their message text, which is not an observable: both are class 5 for the comparison *)
Definition coarse (e : N) : N := if e =? 6 then 5 else e.

Definition res_filter_eqb (r : res filter) (cls n p : N) (bytes : list N) : bool :=
  match r with
  | Ok f => (cls =? 0) && (f_n f =? n) && (f_p f =? p) && list_eqb (f_data f) bytes
  | Err e => coarse e =? coarse cls
  | Panic _ => false
  end.

(* builder chain operations, in the order the harness applied them *)
Inductive bop :=
| OSetKey (k : list N) | OSetKeyHash (h : list N) | OSetP (p : N) | OSetM (m : N)
| OPrealloc (n : N) | OAdd (e : list N) | OAddMany (es : list (list N)) | OAddHash (h : list N).

Inductive bstart :=
| SZero                                   (* GCSBuilder{} *)
| SKeyPNM (k : list N) (p n m : N) | SKeyPM (k : list N) (p m : N) | SKey (k : list N)
| SHashPNM (h : list N) (p n m : N) | SHashPM (h : list N) (p m : N) | SHash (h : list N).

Definition start (s : bstart) : builder :=
  match s with
  | SZero => builder0
  | SKeyPNM k p n m => with_key_pnm k p n m
  | SKeyPM k p m => with_key_pm k p m
  | SKey k => with_key k
  | SHashPNM h p n m => with_key_hash_pnm h p n m
  | SHashPM h p m => with_key_hash_pm h p m
  | SHash h => with_key_hash h
  end.

Definition apply_op (b : builder) (o : bop) : res builder :=
  match o with
  | OSetKey k => Ok (set_key b k)
  | OSetKeyHash h => Ok (set_key_from_hash b h)
  | OSetP p => Ok (set_p b p)
  | OSetM m => Ok (set_m b m)
  | OPrealloc n => Ok (preallocate b n)
  | OAdd e => add_entry b e
  | OAddMany es => add_entries b es
  | OAddHash h => add_hash b h
  end.

Fixpoint apply_ops (b : builder) (os : list bop) : res builder :=
  match os with
  | [] => Ok b
  | o :: t => do b' <- apply_op b o ;; apply_ops b' t
  end.

Inductive case :=
| Red (v nhi nlo out : N)
| Build (P M : N) (key : list N) (data : list (list N)) (cls n : N) (bytes : list N)
| Ser (n P M : N) (bytes nb pb npb : list N)              (* FromBytes then NBytes / PBytes / NPBytes *)
| FromN (P M : N) (d : list N) (cls n p : N) (bytes : list N)   (* FromNBytes: class, N(), P(), Bytes() *)
| FromB (n P M : N) (d : list N) (cls : N)                  (* FromBytes: class *)
| Chain (s : bstart) (ops : list bop) (panicked : bool) (keycls : N) (key : list N)
        (cls n p : N) (bytes : list N)                      (* builder chain, then Key() and Build() *)
| Basic (header : list N) (txs : list tx) (cls n : N) (bytes hash : list N) (prev hdr : list N)
                                                            (* BuildBasicFilter, GetFilterHash, MakeHeaderForFilter *)
| Mempool (txs : list tx) (cls n : N) (bytes : list N)
| Spec (P M : N) (key : list N) (data : list (list N)) (bytes : list N)   (* Bip158Spec on the same input *)
| Writer (P : N) (vals : list N).                           (* model-internal: bstream writer machine = pack *)

Definition check (c : case) : bool :=
  match c with
  | Red v nhi nlo out => fast_reduction v nhi nlo =? out
  | Build P M key data cls n bytes => res_filter_eqb (build siphash isort P M key data) cls n P bytes
  | Ser n P M bytes nb pb npb =>
      match from_bytes n P M bytes with
      | Ok f => list_eqb (filter_bytes f) bytes && list_eqb (filter_nbytes f) nb
                && list_eqb (filter_pbytes f) pb && list_eqb (filter_npbytes f) npb
      | _ => false
      end
  | FromN P M d cls n p bytes => res_filter_eqb (from_nbytes P M d) cls n p bytes
  | FromB n P M d cls => res_filter_eqb (from_bytes n P M d) cls n P d
  | Chain s ops panicked keycls key cls n p bytes =>
      match apply_ops (start s) ops with
      | Panic _ => panicked
      | Err _ => false
      | Ok b =>
          negb panicked &&
          match b_key_get b with
          | Ok k => (keycls =? 0) && list_eqb k key
          | Err e => e =? keycls
          | Panic _ => false
          end &&
          res_filter_eqb (b_build siphash isort b) cls n p bytes
      end
  | Basic header txs cls n bytes h prev hdr =>
      match build_basic_filter siphash isort header txs with
      | Ok f => (cls =? 0) && (f_n f =? n) && (f_p f =? default_p) && list_eqb (f_data f) bytes
                && list_eqb (filter_hash f) h && list_eqb (filter_header f prev) hdr
      | Err e => e =? cls
      | Panic _ => false
      end
  | Mempool txs cls n bytes => res_filter_eqb (build_mempool_filter siphash isort txs) cls n default_p bytes
  | Spec P M key data bytes => list_eqb (spec_filter_bytes siphash isort P M key data) bytes
  | Writer P vals => writer_agree P vals
  end.

Fixpoint mism (i : nat) (cs : list case) : list nat :=
  match cs with
  | [] => []
  | c :: t => if check c then mism (S i) t else i :: mism (S i) t
  end.
Definition mismatches (cs : list case) : list nat := mism 0 cs.

(* Correspondence driver for C19: evaluates the coinset models (int64 wrap, insertion sort = what
   Go's sort.Sort does on at most 12 elements) on the inputs the harness ran through the Go
   implementation and compares the projected observables. *)
From BU Require Export Lib.Bytes.
From BU Require Export CoinSet.CoinSet.
Open Scope Z_scope.

(* the shards are written with every number in Z_scope *)
Definition C (i : Z) (v c : Z) : coin := mkCoin (Z.to_N i) v c.
Definition zid (c : coin) : Z := Z.of_N (cid c).
Fixpoint zlist_eqb (a b : list Z) : bool :=
  match a, b with
  | [], [] => true
  | x :: a', y :: b' => (x =? y) && zlist_eqb a' b'
  | _, _ => false
  end.

Inductive case :=
(* selector kind (0 MinIndex, 1 MinNumber, 2 MaxValueAge, 3 MinPriority), MaxInputs, MinChange, MinAvg
   (ignored unless kind 3), target, offered coins; observed: success?, selected ids in order,
   TotalValue, TotalValueAge of the returned *CoinSet *)
| Sel (kind : Z) (maxin minchange minavg target : Z) (coins : list coin)
      (ok : bool) (ids : list Z) (tv tva : Z)
(* NewCoinSet(init) then the operations; observed after every operation:
   (id returned or None, Num, TotalValue, TotalValueAge); finally the ids of Coins() *)
| Hist (init : list coin) (ops : list op) (obs : list (option Z * Z * Z * Z)) (final : list Z)
(* NewMsgTxWithInputCoins(version, NewCoinSet(coins)): version, outpoint ids in order, all
   signature scripts nil and all sequences MaxTxInSequenceNum, number of outputs, locktime *)
| Tx (version : Z) (coins : list coin) (outpoints : list Z) (plain : bool) (nout : nat) (locktime : Z).

Definition select (kind : Z) (maxin minchange minavg target : Z) (coins : list coin) : res coinset :=
  match kind with
  | 0 => min_index w64 maxin minchange target coins
  | 1 => min_number w64 isort maxin minchange target coins
  | 2 => max_value_age w64 isort maxin minchange target coins
  | _ => snd (min_priority_sel w64 isort maxin minchange minavg target coins)
  end.

Fixpoint obs_of (ops : list op) (s : coinset) : list (option Z * Z * Z * Z) :=
  match ops with
  | [] => []
  | o :: t =>
      let out := match o with
                 | Push _ => None
                 | Pop => option_map zid (fst (pop w64 s))
                 | Shift => option_map zid (fst (shift w64 s))
                 end in
      let s' := step w64 s o in
      (out, cs_num s', cs_tv s', cs_tva s') :: obs_of t s'
  end.

Definition optN_eqb (a b : option Z) : bool :=
  match a, b with Some x, Some y => Z.eqb x y | None, None => true | _, _ => false end.

Fixpoint obs_eqb (a b : list (option Z * Z * Z * Z)) : bool :=
  match a, b with
  | [], [] => true
  | (o1, n1, v1, a1) :: t1, (o2, n2, v2, a2) :: t2 =>
      optN_eqb o1 o2 && (n1 =? n2) && (v1 =? v2) && (a1 =? a2) && obs_eqb t1 t2
  | _, _ => false
  end.

Definition check (c : case) : bool :=
  match c with
  | Sel kind maxin mc minavg target coins ok ids tv tva =>
      match select kind maxin mc minavg target coins with
      | Ok s => ok && zlist_eqb (map zid (cs_list s)) ids && (cs_tv s =? tv) && (cs_tva s =? tva)
      | Err _ => negb ok
      | Panic _ => false
      end
  | Hist init ops obs final =>
      let s0 := new_coinset w64 init in
      obs_eqb (obs_of ops s0) obs && zlist_eqb (map zid (cs_list (run_ops w64 ops s0))) final
  | Tx version coins outpoints plain nout locktime =>
      let t := tx_of_coins version (new_coinset w64 coins) in
      (tx_version t =? version) && zlist_eqb (map (fun i => Z.of_N (ti_outpoint i)) (tx_in t)) outpoints && plain
      && forallb (fun i => match ti_script i with [] => true | _ => false end && (ti_sequence i =? max_sequence)) (tx_in t)
      && Nat.eqb (tx_nout t) nout && (tx_locktime t =? locktime)
  end.

Fixpoint mism (i : nat) (cs : list case) : list nat :=
  match cs with
  | [] => []
  | c :: t => if check c then mism (S i) t else i :: mism (S i) t
  end.
Definition mismatches (cs : list case) : list nat := mism 0 cs.

(* Correspondence driver for C20.  The dynamic half of C20 is runtime evidence: harness/cmd/c20 runs the
   real bloom.Filter from up to 32 goroutines under the race detector.  What comes back to Coq: for every
   stress run, the initial message, every item inserted by any goroutine (in goroutine order, which is
   irrelevant: insertion only ORs bits in) and the array found afterwards; the model must compute the same
   array (no lost insertion, bit for bit). *)
From BU Require Export Run.Run_C09.

Inductive case :=
| ConcFinal (init : option msg) (items : list (list N)) (final : fin).    (* after all goroutines joined *)

Definition check (c : case) : bool :=
  match c with
  | ConcFinal init items final => fin_ok (fold_left add items (load_filter init)) final
  end.

Fixpoint mism (i : nat) (cs : list case) : list nat :=
  match cs with
  | [] => []
  | c :: t => if check c then mism (S i) t else i :: mism (S i) t
  end.
Definition mismatches (cs : list case) : list nat := mism 0 cs.

(* Correspondence driver for C13: evaluates the GCS model (SipHash-2-4 in Coq,
   insertion sort for sort.Slice) on the inputs the harness ran through
   /repo/gcs and compares with what the implementation returned. *)
From BU Require Export Lib.Bytes.
From BU Require Import Gcs.SipHash Gcs.Sort Gcs.Gcs Gcs.BStream.

Definition rbool_eqb (r : res bool) (b : bool) : bool :=
  match r with Ok x => Bool.eqb x b | _ => false end.

Fixpoint bools_eqb (a b : list bool) : bool :=
  match a, b with
  | [], [] => true
  | x :: a', y :: b' => Bool.eqb x y && bools_eqb a' b'
  | _, _ => false
  end.

Fixpoint singles_eqb (rs : list (res bool)) (bs : list bool) : bool :=
  match rs, bs with
  | [], [] => true
  | r :: rs', b :: bs' => rbool_eqb r b && singles_eqb rs' bs'
  | _, _ => false
  end.

Inductive case :=
| Sip (key msg : list N) (out : N)                       (* siphash.Sum64 vs Gcs.SipHash *)
| Red (v nhi nlo out : N)                                (* fastReduction *)
| Build (P M : N) (key : list N) (data : list (list N)) (cls n : N) (bytes : list N)
                                                         (* BuildGCSFilter: class, N(), Bytes() *)
| Query (n P M : N) (bytes key : list N) (qs : list (list N))
        (single : list bool) (zip hash any : bool)       (* FromBytes(n,P,M,bytes) then Match each / Zip / Hash / MatchAny *)
| Stream (P : N) (bytes : list N).                       (* model-internal: bstream machine reader = bit-list reader *)

Definition check (c : case) : bool :=
  match c with
  | Sip key msg out => siphash key msg =? out
  | Red v nhi nlo out => fast_reduction v nhi nlo =? out
  | Build P M key data cls n bytes =>
      match build siphash isort P M key data with
      | Ok f => (cls =? 0) && (f_n f =? n) && list_eqb (f_data f) bytes
      | Err e => e =? cls
      | Panic _ => false
      end
  | Query n P M bytes key qs single zip hash any =>
      match from_bytes n P M bytes with
      | Ok f =>
          singles_eqb (map (gmatch siphash f key) qs) single
          && rbool_eqb (zip_match_any siphash isort f key qs) zip
          && rbool_eqb (hash_match_any siphash f key qs) hash
          && rbool_eqb (match_any siphash isort f key qs) any
      | _ => false
      end
  | Stream P bytes => stream_agree P bytes
  end.

Fixpoint mism (i : nat) (cs : list case) : list nat :=
  match cs with
  | [] => []
  | c :: t => if check c then mism (S i) t else i :: mism (S i) t
  end.
Definition mismatches (cs : list case) : list nat := mism 0 cs.

(* Correspondence driver for C18: evaluates the txsort model on the transactions the
   harness ran through txsort.Sort / InPlaceSort / IsSorted and compares.
   sort.Sort is not stable, so for the sorting cases the implementation's result is
   given as the list of original positions; the driver checks that it is a permutation,
   that the model's IsSorted accepts it, and that its key sequence equals the one of
   the model's (insertion-sorted) result. *)
From BU Require Export Lib.Bytes TxSort.TxSort.

Inductive case :=
| InLess (a b : txin) (out : bool)        (* sortableInputSlice.Less observed as !IsSorted([b, a]) *)
| OutLess (a b : txout) (out : bool)
| SortCase (ins : list txin) (outs : list txout)
           (sorted : bool)                 (* IsSorted(tx) *)
           (pin pout : list nat)           (* Sort(tx): original position of each result element *)
           (qin qout : list nat).          (* InPlaceSort(copy) likewise (by pointer identity) *)

Fixpoint nat_list_eqb (a b : list nat) : bool :=
  match a, b with
  | [], [] => true
  | x :: a', y :: b' => Nat.eqb x y && nat_list_eqb a' b'
  | _, _ => false
  end.

Definition perm_ok (n : nat) (p : list nat) : bool := nat_list_eqb (isort _ Nat.ltb p) (seq 0 n).

Definition pick {A} (d : A) (l : list A) (p : list nat) : list A := map (fun i => nth i l d) p.

Definition in_key_eqb (a b : txin) : bool := list_eqb (in_hash a) (in_hash b) && (in_index a =? in_index b).
Definition out_key_eqb (a b : txout) : bool := Z.eqb (out_value a) (out_value b) && list_eqb (out_script a) (out_script b).

Fixpoint all2 {A} (f : A -> A -> bool) (a b : list A) : bool :=
  match a, b with
  | [], [] => true
  | x :: a', y :: b' => f x y && all2 f a' b'
  | _, _ => false
  end.

Definition d_in := mk_in [] 0 0.
Definition d_out := mk_out 0%Z [] 0.

Definition tag {A} (l : list A) : list (N * A) := map (fun v => (0, v)) l.

Definition check (c : case) : bool :=
  match c with
  | InLess a b out => Bool.eqb (in_less a b) out
  | OutLess a b out => Bool.eqb (out_less a b) out
  | SortCase ins outs sorted pin pout qin qout =>
      let tx := mk_tx 0 (tag ins) (tag outs) in
      let m := sort_tx isort 1 tx in
      let mi := map snd (tx_in m) in
      let mo := map snd (tx_out m) in
      let chk_in p := perm_ok (length ins) p && go_is_sorted in_less (pick d_in ins p) && all2 in_key_eqb (pick d_in ins p) mi in
      let chk_out p := perm_ok (length outs) p && go_is_sorted out_less (pick d_out outs p) && all2 out_key_eqb (pick d_out outs p) mo in
      Bool.eqb (is_sorted tx) sorted && chk_in pin && chk_in qin && chk_out pout && chk_out qout
      && is_sorted m
  end.

Fixpoint mism (i : nat) (cs : list case) : list nat :=
  match cs with
  | [] => []
  | c :: t => if check c then mism (S i) t else i :: mism (S i) t
  end.
Definition mismatches (cs : list case) : list nat := mism 0 cs.

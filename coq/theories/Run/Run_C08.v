(* Correspondence driver for C08: evaluates, on the inputs the harness ran through the Go
   implementation (structured-degenerate, mutated and random streams), the models whose no-panic
   theorems are in Props/C08.v, and compares with what the implementation returned.  A model that
   returns Panic where the implementation returned (or vice versa: the implementation panicked, which
   the harness reports as a monitor violation) is a mismatch.  The CHECKED variants (directory NoPanic) are
   evaluated too, so a disagreement between a checked bound and the real slice shows up here. *)
From BU Require Export Lib.Bytes.
From BU Require Export JsonPb.JsonPb.
From BU Require Import CashAddr.CashAddr Base58.Base58 Bech32.Bech32 JsonPb.Codecs.
From BU Require Import NoPanic.CashAddrNP NoPanic.Base58NP NoPanic.Bech32NP.
From BU Require Import Bloom.Bloom NoPanic.BloomNP NoPanic.BloomHistNP Merkle.Merkle Merkle.MerkleRun.

(* operations of a bloom history as the harness writes them (translated to Bloom.op by to_op) *)
Inductive bop :=
| BAdd (d : list N)
| BMatches (d : list N)
| BReload (loaded : bool) (bytes : list N) (nhash tweak flags : N)     (* Reload(nil) when loaded = false *)
| BUnload
| BIsLoaded.

Inductive case :=
| CashDec (s : list N) (ok : bool) (prefix payload : list N)       (* bchutil.DecodeCashAddress *)
| ChkDec (s : list N) (cls : N) (payload : list N) (ver : N)        (* base58.CheckDecode: cls 0 ok, 1 format, 2 checksum *)
| BechDec (s : list N) (ok : bool) (hrp data : list N)              (* bech32.Decode *)
| BechEnc (hrp data : list N) (ok : bool) (out : list N)            (* bech32.Encode *)
| Conv (data : list N) (fromBits toBits : N) (pad : bool) (ok : bool) (out : list N)   (* bech32.ConvertBits *)
| ConvHex (input output : json)                                     (* jsonpb.convertHex, tree before / after *)
| ConvB64 (input output : json)                                     (* jsonpb.convertBase64 *)
| BloomM (loaded : bool) (bytes : list N) (nhash tweak flags : N) (data : list N) (res : bool)
                                                                    (* bloom.LoadFilter(msg).Matches(data) *)
| BloomA (bytes : list N) (nhash tweak flags : N) (data : list N) (after : list N)
                                                                    (* ... .Add(data); MsgFilterLoad().Filter *)
| MerkleX (maxtx ntx : N) (hashes : list (list N)) (flagbytes : list N) (accepted bad : bool)
| BloomH (loaded : bool) (bytes : list N) (nhash tweak flags : N) (ops : list bop) (outs : list bool) (final_loaded : bool) (final : list N).
                                                                    (* a history on ONE filter object: successive Reloads of different
                                                                       sizes with Add / Matches between them; what each call returned
                                                                       (true for calls without a result) and the array at the end *)
                                                                    (* NewMerkleBlockFromMsg + ExtractMatches: root != nil, BadTree() *)

Definition to_op (o : bop) : Bloom.op :=
  match o with
  | BAdd d => OAdd d
  | BMatches d => OMatches d
  | BReload loaded bytes nhash tweak flags => OReload (if loaded then Some (MkMsg bytes nhash tweak flags) else None)
  | BUnload => OUnload
  | BIsLoaded => OIsLoaded
  end.

Fixpoint bools_eqb (a b : list bool) : bool :=
  match a, b with
  | [], [] => true
  | x :: a', y :: b' => Bool.eqb x y && bools_eqb a' b'
  | _, _ => false
  end.

Definition res_pair_eqb (a b : res (list N * list N)) : bool :=
  match a, b with
  | Ok (x, y), Ok (x', y') => list_eqb x x' && list_eqb y y'
  | Err e, Err e' => e =? e'
  | _, _ => false
  end.

Definition check (c : case) : bool :=
  match c with
  | CashDec s ok prefix payload =>
      let m := decode_cashaddr s in
      res_pair_eqb (CashAddrNP.decode_checked true s) m &&
      match m with
      | Ok (p, d) => ok && list_eqb p prefix && list_eqb d payload
      | Err _ => negb ok
      | Panic _ => false
      end
  | ChkDec s cls payload ver =>
      match check_decode s, Base58NP.check_decode_checked s with
      | Ok (p, v), Ok (p', v') => (cls =? 0) && list_eqb p payload && (v =? ver) && list_eqb p' payload && (v' =? ver)
      | Err e, Err e' => (e =? cls) && (e' =? cls)
      | _, _ => false
      end
  | BechDec s ok hrp data =>
      let m := Bech32.decode s in
      res_pair_eqb (Bech32NP.decode_checked s) m &&
      match m with
      | Ok (h, d) => ok && list_eqb h hrp && list_eqb d data
      | Err _ => negb ok
      | Panic _ => false
      end
  | BechEnc hrp data ok out =>
      match Bech32.encode hrp data, Bech32NP.encode_checked hrp data with
      | Ok s, Ok s' => ok && list_eqb s out && list_eqb s' out
      | Err _, Err _ => negb ok
      | _, _ => false
      end
  | Conv data f t pad ok out =>
      match convert_bits data f t pad with
      | Ok r => ok && list_eqb r out
      | Err _ => negb ok
      | Panic _ => false
      end
  | ConvHex input output =>
      match conv_hex input with
      | Ok j => json_eqb j output
      | _ => false
      end
  | ConvB64 input output =>
      match conv_base64 input with
      | Ok j => json_eqb j output
      | _ => false
      end
  | BloomM loaded bytes nhash tweak flags data res =>
      let f := if loaded then Some (MkMsg bytes nhash tweak flags) else None in
      match BloomNP.matches_checked true f data with
      | Ok b => Bool.eqb b res && Bool.eqb (Bloom.matches f data) res
      | _ => false
      end
  | BloomA bytes nhash tweak flags data after =>
      match BloomNP.add_checked true (Some (MkMsg bytes nhash tweak flags)) data with
      | Ok (Some m) => list_eqb (m_bytes m) after
      | _ => false
      end
  | BloomH loaded bytes nhash tweak flags ops outs final_loaded final =>
      let f := if loaded then Some (MkMsg bytes nhash tweak flags) else None in
      match BloomHistNP.run_checked f (map to_op ops) with
      | Ok (f', rs) =>
          bools_eqb rs outs && bools_eqb (snd (Bloom.run f (map to_op ops))) outs &&
          match f' with
          | Some m => final_loaded && list_eqb (m_bytes m) final
          | None => negb final_loaded
          end
      | _ => false
      end
  | MerkleX maxtx ntx hashes flagbytes accepted bad =>
      match Merkle.extract (node_hash_run []) maxtx (mkMsg [] ntx hashes flagbytes) with
      | Ok _ => accepted && negb bad
      | Err e => negb accepted && Bool.eqb bad (e =? 5)
      | Panic _ => false
      end
  end.

Fixpoint mism (i : nat) (cs : list case) : list nat :=
  match cs with
  | [] => []
  | c :: t => if check c then mism (S i) t else i :: mism (S i) t
  end.
Definition mismatches (cs : list case) : list nat := mism 0 cs.

(* the historical loops, evaluated with the real codecs on the document of the finding *)
Example old_hex_panics_on_finding :
  conv_hex_old (JObj [([97], JArr [JStr [97; 98]; JNum [49]])]) = Panic 4.
Proof. vm_compute. reflexivity. Qed.
Example now_hex_on_finding :
  conv_hex (JObj [([97], JArr [JStr [97; 98]; JNum [49]])]) = Ok (JObj [([97], JArr [JStr [113; 119; 61; 61]; JNum [49]])]).
Proof. vm_compute. reflexivity. Qed.

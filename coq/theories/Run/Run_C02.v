(* Correspondence driver for C02 (strict, canonical, network-separating decoding): the case type,
   [check] and [mismatches] are shared with C01 and live in Address/RunCommon.v. *)
From BU Require Export Lib.Bytes Address.RunCommon.

(* Correspondence driver for C16: replays constructor x accessor histories through the
   Block/Tx wrapper model and compares every observation with what the implementation
   returned.  Object identities are compared up to renaming: *bchutil.Tx and
   *chainhash.Hash pointers are numbered by first appearance in the trace (the harness
   numbers the implementation's pointers the same way); a wrapped transaction's MsgTx()
   is reported as the first position of that *wire.MsgTx in MsgBlock().Transactions.
   Package wire is an oracle: transaction/header contents are (serialisation, hash) pairs
   computed by wire itself, Deserialize / DeserializeTxLoc are tables written by the harness. *)
From BU Require Export Lib.Bytes Block.Block.

Definition content := (list N * list N)%type.       (* (wire serialisation, wire hash) *)
Notation obsN := (obs (list N)).
Notation mtx := (msg_tx content).
Notation mblk := (msg_block content content).

Definition varint (n : nat) : list N :=
  let v := N.of_nat n in
  if v <? 253 then [v]
  else if v <? 65536 then 253 :: le_bytes 2 v
  else if v <? 4294967296 then 254 :: le_bytes 4 v
  else 255 :: le_bytes 8 v.

Fixpoint assoc {B} (tbl : list (list N * B)) (k : list N) : option B :=
  match tbl with
  | [] => None
  | (k', v) :: t => if list_eqb k' k then Some v else assoc t k
  end.

Definition dtab := list (list N * option (content * list content * list N)).
Definition ltab := list (list N * option (list (nat * nat))).
Definition ttab := list (list N * option (content * list N)).

Definition join {B} (o : option (option B)) : option B := match o with Some x => x | None => None end.

Definition mkW (d : dtab) (l : ltab) (t : ttab) : wire content content (list N) :=
  mk_wire content content (list N) fst varint fst snd snd
    (fun b => join (assoc d b)) (fun b => join (assoc t b)) (fun b => join (assoc l b)).

(* constructors of obs/op at the instance, for the case files *)
Definition XErr (c : N) : obsN := OErr _ c.
Definition XPanic (k : N) : obsN := OPanic _ k.
Definition XTx (w : N) (mpos : N) (i : Z) : obsN := OTxV _ (w, mpos, i).
Definition XTxs (l : list (option (N * N * Z))) : obsN := OTxsV _ l.
Definition XHash (p : N) (h : list N) : obsN := OHashV _ p h.
Definition XBytes (b : list N) : obsN := OBytesV _ b.
Definition XLocs (l : list (nat * nat)) : obsN := OLocsV _ l.
Definition XInt (z : Z) : obsN := OIntV _ z.
Definition XPtr (p : N) : obsN := OPtrV _ p.
Definition XUnit : obsN := OUnit _.
Definition MT (p : N) (ser hash : list N) : mtx := mk_mtx content p (ser, hash).
Definition MB (hser hhash : list N) (txs : list mtx) : mblk := mk_mblk content content (hser, hhash) txs.

Inductive ctor :=
| CNew (m : mblk)
| CReader (bytes : list N) (unread : nat)       (* what the reader still holds afterwards *)
| CBytes (bytes : list N)
| CBlockAndBytes (m : mblk) (bytes : list N).

Inductive tctor :=
| TNew (m : mtx)
| TFromBytes (bytes : list N)
| TFromReader (bytes : list N) (unread : nat).

Inductive case :=
| BlockCase (c : ctor) (d : dtab) (l : ltab) (ok : bool) (ops : list op) (outs : list obsN)
| TxCase (c : tctor) (t : ttab) (ok : bool) (ops : list top) (outs : list obsN).

(* ---------- renaming of identities ---------- *)
Definition num (tbl : list N) (x : N) : list N * N :=
  let fix go (l : list N) (k : N) : option N :=
    match l with [] => None | y :: t => if y =? x then Some k else go t (k + 1) end in
  match go tbl 0 with
  | Some k => (tbl, k)
  | None => (tbl ++ [x], N.of_nat (length tbl))
  end.

Definition mpos (m : mblk) (p : N) : N :=
  let fix go (l : list mtx) (k : N) : N :=
    match l with [] => 999999 | t :: r => if mt_ptr _ t =? p then k else go r (k + 1) end in
  go (mb_txs _ _ m) 0.

Definition canon_view (m : mblk) (tw : list N) (v : N * N * Z) : list N * (N * N * Z) :=
  let '(w, mp, i) := v in
  let (tw', w') := num tw w in (tw', (w', mpos m mp, i)).

Fixpoint canon_views (m : mblk) (tw : list N) (l : list (option (N * N * Z))) : list N * list (option (N * N * Z)) :=
  match l with
  | [] => (tw, [])
  | None :: r => let (tw', r') := canon_views m tw r in (tw', None :: r')
  | Some v :: r =>
      let (tw1, v') := canon_view m tw v in
      let (tw2, r') := canon_views m tw1 r in (tw2, Some v' :: r')
  end.

(* tables: wrappers, hashes, msg pointers (the last only for stand-alone Tx cases) *)
Fixpoint canon (m : mblk) (tw th tm : list N) (l : list obsN) : list obsN :=
  match l with
  | [] => []
  | x :: r =>
      match x with
      | OTxV _ v => let (tw', v') := canon_view m tw v in OTxV _ v' :: canon m tw' th tm r
      | OTxsV _ vs => let (tw', vs') := canon_views m tw vs in OTxsV _ vs' :: canon m tw' th tm r
      | OHashV _ p h => let (th', p') := num th p in OHashV _ p' h :: canon m tw th' tm r
      | OPtrV _ p => let (tm', p') := num tm p in OPtrV _ p' :: canon m tw th tm' r
      | y => y :: canon m tw th tm r
      end
  end.

(* ---------- equality of observations ---------- *)
Definition view_eqb (a b : N * N * Z) : bool :=
  let '(w1, m1, i1) := a in let '(w2, m2, i2) := b in (w1 =? w2) && (m1 =? m2) && Z.eqb i1 i2.
Fixpoint views_eqb (a b : list (option (N * N * Z))) : bool :=
  match a, b with
  | [], [] => true
  | None :: a', None :: b' => views_eqb a' b'
  | Some x :: a', Some y :: b' => view_eqb x y && views_eqb a' b'
  | _, _ => false
  end.
Fixpoint locs_eqb (a b : list (nat * nat)) : bool :=
  match a, b with
  | [], [] => true
  | (s1, l1) :: a', (s2, l2) :: b' => Nat.eqb s1 s2 && Nat.eqb l1 l2 && locs_eqb a' b'
  | _, _ => false
  end.
Definition obs_eqb (a b : obsN) : bool :=
  match a, b with
  | OErr _ x, OErr _ y => x =? y
  | OPanic _ x, OPanic _ y => x =? y
  | OTxV _ x, OTxV _ y => view_eqb x y
  | OTxsV _ x, OTxsV _ y => views_eqb x y
  | OHashV _ p h, OHashV _ q g => (p =? q) && list_eqb h g
  | OBytesV _ x, OBytesV _ y => list_eqb x y
  | OLocsV _ x, OLocsV _ y => locs_eqb x y
  | OIntV _ x, OIntV _ y => Z.eqb x y
  | OPtrV _ x, OPtrV _ y => x =? y
  | OUnit _, OUnit _ => true
  | _, _ => false
  end.
Fixpoint all_eqb (a b : list obsN) : bool :=
  match a, b with
  | [], [] => true
  | x :: a', y :: b' => obs_eqb x y && all_eqb a' b'
  | _, _ => false
  end.

Definition max_ptr (m : mblk) : N := fold_left (fun a t => N.max a (mt_ptr _ t + 1)) (mb_txs _ _ m) 0.

Definition check (c : case) : bool :=
  match c with
  | BlockCase ct d l ok ops outs =>
      let W := mkW d l [] in
      let r : res (world content content (list N)) :=
        match ct with
        | CNew m => Ok (new_block _ _ _ (max_ptr m) m)
        | CReader bytes unread =>
            match new_block_from_reader _ _ _ W 0 bytes with
            | Ok (w, rest) => if Nat.eqb (length rest) unread then Ok w else Panic 99
            | Err e => Err e
            | Panic k => Panic k
            end
        | CBytes bytes => new_block_from_bytes _ _ _ W 0 bytes
        | CBlockAndBytes m bytes => Ok (new_block_from_block_and_bytes _ _ _ (max_ptr m) m bytes)
        end in
      match r with
      | Ok w => ok && all_eqb (canon (b_msg _ _ _ (w_blk _ _ _ w)) [] [] [] (run _ _ _ W w ops)) outs
      | Err _ => negb ok
      | Panic _ => false
      end
  | TxCase ct t ok ops outs =>
      let W := mkW [] [] t in
      let r : res (N * wtx content (list N)) :=
        match ct with
        | TNew m => Ok (new_tx _ _ (mt_ptr _ m + 1) m)
        | TFromBytes bytes => new_tx_from_bytes _ _ _ W 0 bytes
        | TFromReader bytes unread =>
            match new_tx_from_reader _ _ _ W 0 bytes with
            | Ok (s, rest) => if Nat.eqb (length rest) unread then Ok s else Panic 99
            | Err e => Err e
            | Panic k => Panic k
            end
        end in
      match r with
      | Ok s => ok && all_eqb (canon (MB [] [] []) [] [] [] (trun _ _ _ W s ops)) outs
      | Err _ => negb ok
      | Panic _ => false
      end
  end.

Fixpoint mism (i : nat) (cs : list case) : list nat :=
  match cs with
  | [] => []
  | c :: t => if check c then mism (S i) t else i :: mism (S i) t
  end.
Definition mismatches (cs : list case) : list nat := mism 0 cs.

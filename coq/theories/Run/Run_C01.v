(* Correspondence driver for C01 (address construction / encoding / round trip): the case type,
   [check] and [mismatches] are shared with C02 and live in Address/RunCommon.v. *)
From BU Require Export Lib.Bytes Address.RunCommon.

(* Proofs about the GCS model (Gcs.v). *)
From BU Require Import Lib.Bytes Lib.PolyMod Gen.Xgcs Gcs.SipHash Gcs.Gcs.
From Coq Require Import ZifyBool ZifyN ZifyNat.

Lemma empty_query_none hash sort f key :
  zip_match_any hash sort f key [] = Ok false /\
  hash_match_any hash f key [] = Ok false /\
  match_any hash sort f key [] = Ok false.
Proof.
  unfold match_any, zip_match_any, hash_match_any.
  repeat split; destruct (_ <=? _); reflexivity.
Qed.

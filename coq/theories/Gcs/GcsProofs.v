(* Proofs about the GCS model (Gcs.v). *)
From BU Require Import Lib.Bytes Lib.PolyMod Gen.Xgcs Gcs.SipHash Gcs.Gcs.
From Coq Require Import ZifyBool ZifyN ZifyNat.

Lemma empty_query_none hash sort f key :
  zip_match_any hash sort f key [] = Ok false /\
  hash_match_any hash f key [] = Ok false /\
  match_any hash sort f key [] = Ok false.
Proof.
  unfold match_any, zip_match_any, hash_match_any.
  repeat split; destruct (_ <=? _); reflexivity.
Qed.

(* ---------- literals: what the Go source says today ---------- *)
Lemma fr_lits : fr_s0 = 32 /\ fr_s1 = 32 /\ fr_s2 = 32 /\ fr_s3 = 32 /\ fr_s4 = 32.
Proof. repeat split; reflexivity. Qed.

Lemma shift_lits :
  build_nbits = 32 /\ build_pmax = 32 /\ build_hshift = 32 /\ frombytes_pmax = 32 /\ fromn_nbits = 32 /\
  match_hshift = 32 /\ zip_hshift = 32 /\ hash_hshift = 32 /\ any_div = 2 /\ hint_mul = 8 /\ hint_add = 1.
Proof. repeat split; reflexivity. Qed.

(* ---------- fastReduction ---------- *)
Lemma mul32_lt a b : a < two32 -> b < two32 -> a * b < two64.
Proof. unfold two32, two64. intros. nia. Qed.

Lemma fast_reduction_halves a b c d :
  a < two32 -> b < two32 -> c < two32 -> d < two32 ->
  fast_reduction (a * two32 + b) c d = ((a * two32 + b) * (c * two32 + d)) / two64.
Proof.
  intros Ha Hb Hc Hd.
  unfold fast_reduction. destruct fr_lits as (-> & -> & -> & -> & ->).
  rewrite !N.shiftr_div_pow2. change (2 ^ 32) with two32.
  assert (Ea : (a * two32 + b) / two32 = a) by (unfold two32 in *; lia).
  assert (Eb : lo32 (a * two32 + b) = b) by (unfold lo32, two32 in *; lia).
  rewrite Ea, Eb.
  pose proof (mul32_lt a c Ha Hc) as Hac. pose proof (mul32_lt a d Ha Hd) as Had.
  pose proof (mul32_lt c b Hc Hb) as Hcb. pose proof (mul32_lt b d Hb Hd) as Hbd.
  replace ((a * two32 + b) * (c * two32 + d)) with (a * c * two64 + (a * d + c * b) * two32 + b * d)
    by (unfold two64, two32; ring).
  assert (Hac' : a * c <= 18446744065119617025) by (unfold two32 in *; nia).
  assert (Had' : a * d <= 18446744065119617025) by (unfold two32 in *; nia).
  assert (Hcb' : c * b <= 18446744065119617025) by (unfold two32 in *; nia).
  assert (Hbd' : b * d <= 18446744065119617025) by (unfold two32 in *; nia).
  generalize dependent (a * c). generalize dependent (a * d).
  generalize dependent (c * b). generalize dependent (b * d).
  intros bd _ Hbd cb _ Hcb ad _ Had ac _ Hac.
  unfold w64, lo32, two64, two32 in *.
  lia.
Qed.

Theorem fast_reduction_spec v n :
  v < two64 -> n < two64 ->
  fast_reduction v (N.shiftr n 32) (lo32 n) = v * n / two64.
Proof.
  intros Hv Hn.
  rewrite N.shiftr_div_pow2. change (2 ^ 32) with two32.
  pose proof (N.div_mod v two32) as Ev. pose proof (N.div_mod n two32) as En.
  assert (Hvh : v / two32 < two32) by (unfold two32, two64 in *; lia).
  assert (Hnh : n / two32 < two32) by (unfold two32, two64 in *; lia).
  assert (Hvl : v mod two32 < two32) by (unfold two32; lia).
  assert (Hnl : n mod two32 < two32) by (unfold two32; lia).
  pose proof (fast_reduction_halves (v / two32) (v mod two32) (n / two32) (n mod two32) Hvh Hvl Hnh Hnl) as H.
  replace (v / two32 * two32 + v mod two32) with v in H by (unfold two32 in *; lia).
  replace (n / two32 * two32 + n mod two32) with n in H by (unfold two32 in *; lia).
  exact H.
Qed.

Lemma fast_reduction_lt v n : v < two64 -> n < two64 -> 0 < n ->
  fast_reduction v (N.shiftr n 32) (lo32 n) < n.
Proof.
  intros Hv Hn Hpos. rewrite fast_reduction_spec by assumption.
  apply N.div_lt_upper_bound; [unfold two64; lia|]. unfold two64 in *. nia.
Qed.

(* Proofs about the GCS model (Gcs.v). *)
From BU Require Import Lib.Bytes Lib.PolyMod Gen.Xgcs Gcs.SipHash Gcs.Gcs.
From Coq Require Import ZifyBool ZifyN ZifyNat.

Lemma empty_query_none hash sort f key :
  zip_match_any hash sort f key [] = Ok false /\
  hash_match_any hash f key [] = Ok false /\
  match_any hash sort f key [] = Ok false.
Proof.
  unfold match_any, zip_match_any, hash_match_any.
  repeat split; destruct (_ <=? _); reflexivity.
Qed.

(* ---------- literals: what the Go source says today ---------- *)
Lemma fr_lits : fr_s0 = 32 /\ fr_s1 = 32 /\ fr_s2 = 32 /\ fr_s3 = 32 /\ fr_s4 = 32.
Proof. repeat split; reflexivity. Qed.

Lemma shift_lits :
  build_nbits = 32 /\ build_pmax = 32 /\ build_hshift = 32 /\ frombytes_pmax = 32 /\ fromn_nbits = 32 /\
  match_hshift = 32 /\ zip_hshift = 32 /\ hash_hshift = 32 /\ any_div = 2 /\ hint_mul = 8 /\ hint_add = 1.
Proof. repeat split; reflexivity. Qed.

(* loop starts, the empty-filter shortcut and the base of the two `1 << 32` bounds *)
Lemma start_lits :
  build_nbase = 1 /\ build_empty = 0 /\ fromn_nbase = 1 /\ match_i0 = 0 /\ zip_i0 = 0.
Proof. repeat split; reflexivity. Qed.

(* [lit l i] is 0 beyond the end of [l], and several of the values above ARE 0: pin the number of
   literals too, so that a literal that disappeared from the source cannot satisfy start_lits by default *)
Lemma lits_counts :
  length lits_fastReduction = 5%nat /\ length lits_BuildGCSFilter = 10%nat /\ length lits_FromBytes = 1%nat /\
  length lits_FromNBytes = 2%nat /\ length lits_Filter_Match = 2%nat /\ length lits_Filter_MatchAny = 1%nat /\
  length lits_Filter_ZipMatchAny = 4%nat /\ length lits_Filter_HashMatchAny = 2%nat /\ length lits_Filter_sizeHint = 2%nat.
Proof. repeat split; reflexivity. Qed.

(* ---------- fastReduction ---------- *)
Lemma w64_small x : x < two64 -> w64 x = x.
Proof. intros. apply N.mod_small. assumption. Qed.

Definition K32 : N := 18446744065119617025.

Lemma mul32_le a b : a < two32 -> b < two32 -> a * b <= K32.
Proof. unfold two32, K32. intros. Timeout 30 nia. Qed.

Lemma fr_core s p q r : s <= K32 -> p <= K32 -> q <= K32 -> r <= K32 ->
  w64 (w64 (w64 (s + p / two32) + q / two32)
       + (w64 (w64 (lo32 p + lo32 q) + r / two32)) / two32)
  = (s * two64 + (p + q) * two32 + r) / two64.
Proof.
  intros Hs Hp Hq Hr. unfold lo32.
  pose proof (N.div_mod p two32) as Ep. pose proof (N.mod_lt p two32) as Lp.
  pose proof (N.div_mod q two32) as Eq. pose proof (N.mod_lt q two32) as Lq.
  pose proof (N.div_mod r two32) as Er. pose proof (N.mod_lt r two32) as Lr.
  remember (p / two32) as p1. remember (p mod two32) as p0.
  remember (q / two32) as q1. remember (q mod two32) as q0.
  remember (r / two32) as r1. remember (r mod two32) as r0.
  clear Heqp1 Heqp0 Heqq1 Heqq0 Heqr1 Heqr0.
  unfold two32, K32 in *.
  specialize (Ep ltac:(lia)). specialize (Lp ltac:(lia)).
  specialize (Eq ltac:(lia)). specialize (Lq ltac:(lia)).
  specialize (Er ltac:(lia)). specialize (Lr ltac:(lia)).
  assert (Hp1 : p1 <= 4294967294) by lia.
  assert (Hq1 : q1 <= 4294967294) by lia.
  assert (Hr1 : r1 <= 4294967294) by lia.
  rewrite (w64_small (p0 + q0)) by (unfold two64; lia).
  rewrite (w64_small (p0 + q0 + r1)) by (unfold two64; lia).
  pose proof (N.div_mod (p0 + q0 + r1) 4294967296 ltac:(lia)) as Et.
  pose proof (N.mod_lt (p0 + q0 + r1) 4294967296 ltac:(lia)) as Lt.
  remember ((p0 + q0 + r1) / 4294967296) as c. remember ((p0 + q0 + r1) mod 4294967296) as t0.
  clear Heqc Heqt0.
  assert (Hc : c <= 2) by lia.
  rewrite (w64_small (s + p1)) by (unfold two64; lia).
  rewrite (w64_small (s + p1 + q1)) by (unfold two64; lia).
  rewrite (w64_small (s + p1 + q1 + c)) by (unfold two64; lia).
  apply N.div_unique with (r := t0 * 4294967296 + r0); unfold two64; lia.
Qed.

Lemma K32_lt : K32 < two64. Proof. reflexivity. Qed.

Lemma fast_reduction_halves a b c d :
  a < two32 -> b < two32 -> c < two32 -> d < two32 ->
  fast_reduction (a * two32 + b) c d = ((a * two32 + b) * (c * two32 + d)) / two64.
Proof.
  intros Ha Hb Hc Hd.
  unfold fast_reduction. destruct fr_lits as (-> & -> & -> & -> & ->).
  rewrite !N.shiftr_div_pow2. change (2 ^ 32) with two32.
  assert (Ea : (a * two32 + b) / two32 = a).
  { symmetry. apply N.div_unique with (r := b); [assumption | lia]. }
  assert (Eb : lo32 (a * two32 + b) = b).
  { unfold lo32. symmetry. apply N.mod_unique with (q := a); [assumption | lia]. }
  rewrite Ea, Eb.
  pose proof (mul32_le a c Ha Hc) as Hac. pose proof (mul32_le a d Ha Hd) as Had.
  pose proof (mul32_le c b Hc Hb) as Hcb. pose proof (mul32_le b d Hb Hd) as Hbd.
  pose proof K32_lt as HK.
  rewrite (w64_small (a * c)), (w64_small (a * d)), (w64_small (c * b)), (w64_small (b * d)) by lia.
  rewrite fr_core by assumption.
  f_equal. unfold two64, two32. ring.
Qed.

Theorem fast_reduction_spec v n :
  v < two64 -> n < two64 ->
  fast_reduction v (N.shiftr n 32) (lo32 n) = v * n / two64.
Proof.
  intros Hv Hn.
  rewrite N.shiftr_div_pow2. change (2 ^ 32) with two32. unfold lo32.
  assert (Hvh : v / two32 < two32) by (apply N.div_lt_upper_bound; [discriminate | exact Hv]).
  assert (Hnh : n / two32 < two32) by (apply N.div_lt_upper_bound; [discriminate | exact Hn]).
  assert (Hvl : v mod two32 < two32) by (apply N.mod_lt; discriminate).
  assert (Hnl : n mod two32 < two32) by (apply N.mod_lt; discriminate).
  pose proof (fast_reduction_halves (v / two32) (v mod two32) (n / two32) (n mod two32) Hvh Hvl Hnh Hnl) as H.
  assert (Ev : v / two32 * two32 + v mod two32 = v).
  { rewrite N.mul_comm. symmetry. apply N.div_mod. discriminate. }
  assert (En : n / two32 * two32 + n mod two32 = n).
  { rewrite N.mul_comm. symmetry. apply N.div_mod. discriminate. }
  rewrite Ev, En in H. exact H.
Qed.

Lemma fast_reduction_lt v n : v < two64 -> n < two64 ->
  fast_reduction v (N.shiftr n 32) (lo32 n) < two64 /\ (0 < n -> fast_reduction v (N.shiftr n 32) (lo32 n) < n).
Proof.
  intros Hv Hn. rewrite fast_reduction_spec by assumption.
  assert (Hlt : v * n < two64 * n \/ n = 0).
  { destruct (N.eq_dec n 0); [right; assumption | left]. apply N.mul_lt_mono_pos_r; lia. }
  split.
  - apply N.div_lt_upper_bound; [discriminate|].
    destruct Hlt as [Hlt | ->]; [| rewrite N.mul_0_r; reflexivity].
    eapply N.lt_trans; [exact Hlt|]. apply N.mul_lt_mono_pos_l; [reflexivity | exact Hn].
  - intros Hpos. apply N.div_lt_upper_bound; [discriminate|].
    destruct Hlt as [Hlt | ->]; [exact Hlt | lia].
Qed.

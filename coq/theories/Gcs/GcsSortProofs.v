(* The insertion sort used by the run drivers returns a sorted permutation,
   i.e. it satisfies what the theorems assume of sort.Slice. *)
From BU Require Import Lib.Bytes Gcs.Sort.
From Coq Require Import ZifyBool ZifyN ZifyNat Sorting.Sorted Sorting.Permutation.

Lemma insert_perm x l : Permutation (x :: l) (insert x l).
Proof.
  induction l as [|y t IH]; cbn [insert]; [reflexivity|].
  destruct (x <=? y); [reflexivity|].
  rewrite perm_swap. constructor. exact IH.
Qed.

Lemma isort_perm l : Permutation l (isort l).
Proof.
  induction l as [|x t IH]; cbn [isort]; [constructor|].
  rewrite <- insert_perm. constructor. exact IH.
Qed.

Lemma insert_sorted x l : Sorted N.le l -> Sorted N.le (insert x l).
Proof.
  induction 1 as [|y t Hs IH Hd]; cbn [insert]; [repeat constructor|].
  destruct (N.leb_spec x y) as [Hle|Hgt].
  - constructor; [constructor; assumption | constructor; exact Hle].
  - constructor; [exact IH|].
    destruct t as [|z t']; cbn [insert]; [constructor; lia|].
    destruct (N.leb_spec x z); constructor; [lia|]. inversion Hd; assumption.
Qed.

Lemma isort_sorted l : Sorted N.le (isort l).
Proof. induction l as [|x t IH]; cbn [isort]; [constructor | apply insert_sorted; exact IH]. Qed.

(* C13: the theorems about built filters (members always match through every
   query form; all query forms agree with the item-by-item query). *)
From BU Require Import Lib.Bytes Gcs.SipHash Gcs.Gcs Gcs.GcsProofs Gcs.GcsBitsProofs Gcs.GcsMatchProofs.
From Coq Require Import ZifyBool ZifyN ZifyNat Sorting.Sorted Sorting.Permutation.

Lemma existsb_map {A B} (f : B -> bool) (g : A -> B) l : existsb f (map g l) = existsb (fun x => f (g x)) l.
Proof. induction l as [|x t IH]; cbn [map existsb]; congruence. Qed.

Lemma Ok_inj {A} (a b : A) : Ok a = Ok b -> a = b.
Proof. intros H. injection H. auto. Qed.

Section Built.
  Variable hash : list N -> list N -> N.
  Variable sort : list N -> list N.
  Hypothesis hash_lt : forall k d, hash k d < two64.
  Hypothesis sort_sorted : forall l, Sorted N.le (sort l).
  Hypothesis sort_perm : forall l, Permutation l (sort l).

  (* the value an item is mapped to under the filter's modulus *)
  Definition hashed (f : filter) (key d : list N) : N := reduce_with 32 f (hash key d).
  (* the sorted hashed members, i.e. what the filter encodes *)
  Definition values_of (f : filter) (key : list N) (data : list (list N)) : list N :=
    sort (map (hashed f key) data).

  Lemma sort_nil : sort [] = [].
  Proof. apply Permutation_nil. apply sort_perm. Qed.

  Lemma sort_length l : length (sort l) = length l.
  Proof. symmetry. apply Permutation_length. apply sort_perm. Qed.

  Lemma hashed_lt f key d : f_mod f < two64 -> hashed f key d < two64.
  Proof. intros H. unfold hashed, reduce_with. apply fast_reduction_lt; [apply hash_lt | exact H]. Qed.

  Lemma values_chain f key data : f_mod f < two64 -> chain 0 (values_of f key data).
  Proof.
    intros Hm. apply sorted_chain; [apply sort_sorted|].
    apply Forall_forall. intros v Hin. unfold values_of in Hin.
    apply (Permutation_in _ (Permutation_sym (sort_perm _))) in Hin.
    apply in_map_iff in Hin. destruct Hin as (d & <- & _). apply hashed_lt. exact Hm.
  Qed.

  Lemma values_sorted f key data : StronglySorted N.le (values_of f key data).
  Proof. apply Sorted_StronglySorted; [intros x y z; apply N.le_trans | apply sort_sorted]. Qed.

  (* what BuildGCSFilter returns *)
  Lemma build_inv P M key data f :
    build hash sort P M key data = Ok f ->
    P <= 32 /\ N.of_nat (length data) < two32 /\
    f_n f = N.of_nat (length data) /\ f_p f = P /\ f_mod f = w64 (N.of_nat (length data) * M) /\
    f_data f = pack (encode P 0 (values_of f key data)).
  Proof.
    unfold build. destruct shift_lits as (-> & -> & -> & _). destruct start_lits as (-> & -> & _).
    change (N.shiftl 1 32) with two32.
    destruct (N.leb_spec two32 (N.of_nat (length data))) as [|Hn]; [discriminate|].
    destruct (N.ltb_spec 32 P) as [|HP]; [discriminate|].
    destruct (N.of_nat (length data) =? 0) eqn:E0; intros H; apply Ok_inj in H; subst f;
      cbn [f_n f_p f_mod f_data];
      (split; [exact HP | split; [exact Hn | split; [reflexivity | split; [reflexivity | split; [reflexivity|]]]]]).
    - apply N.eqb_eq in E0. destruct data; [|discriminate]. unfold values_of. cbn [map]. rewrite sort_nil. reflexivity.
    - reflexivity.
  Qed.

  Lemma build_ok P M key data :
    P <= 32 -> N.of_nat (length data) < two32 -> exists f, build hash sort P M key data = Ok f.
  Proof.
    intros HP Hn. unfold build. destruct shift_lits as (-> & -> & _). destruct start_lits as (-> & -> & _).
    change (N.shiftl 1 32) with two32.
    destruct (N.leb_spec two32 (N.of_nat (length data))); [lia|].
    destruct (N.ltb_spec 32 P); [lia|].
    destruct (_ =? 0); eexists; reflexivity.
  Qed.

  Section OneFilter.
    Variables (P M : N) (key : list N) (data : list (list N)) (f : filter).
    Hypothesis Hbuild : build hash sort P M key data = Ok f.

    Let vals := values_of f key data.

    Lemma built_mod_lt : f_mod f < two64.
    Proof.
      destruct (build_inv _ _ _ _ _ Hbuild) as (_ & _ & _ & _ & -> & _). apply N.mod_lt. discriminate.
    Qed.

    Lemma built_bits : exists k,
      bits_of_bytes (f_data f) = encode (f_p f) 0 vals ++ repeat false k /\
      f_p f <= 32 /\ chain 0 vals /\ f_n f = N.of_nat (length vals) /\
      (length (encode (f_p f) 0 vals ++ repeat false k) < fuel_of f)%nat.
    Proof.
      destruct (build_inv _ _ _ _ _ Hbuild) as (HP & Hn & En & Ep & Em & Ed).
      destruct (pack_bits (encode P 0 vals)) as (k & _ & Ek).
      exists k. rewrite Ep, Ed. fold vals. rewrite Ek.
      split; [reflexivity | split; [exact HP | split; [| split]]].
      - apply values_chain. apply built_mod_lt.
      - rewrite En. unfold vals, values_of. rewrite sort_length, map_length. reflexivity.
      - rewrite <- Ek. rewrite bits_of_bytes_length. unfold fuel_of. rewrite Ed. fold vals. lia.
    Qed.

    Theorem match_spec q : gmatch hash f key q = Ok (mem (hashed f key q) vals).
    Proof.
      destruct built_bits as (k & Eb & HP & Hc & En & Hfuel).
      unfold gmatch. destruct shift_lits as (_ & _ & _ & _ & _ & -> & _).
      destruct start_lits as (_ & _ & _ & -> & _). rewrite N.sub_0_r.
      rewrite Eb. apply match_loop_spec; try assumption. reflexivity.
    Qed.

    Theorem zip_spec qs : zip_match_any hash sort f key qs = Ok (existsb (fun q => mem (hashed f key q) vals) qs).
    Proof.
      destruct built_bits as (k & Eb & HP & Hc & En & Hfuel).
      unfold zip_match_any. destruct shift_lits as (_ & _ & _ & _ & _ & _ & -> & _).
      destruct start_lits as (_ & _ & _ & _ & ->). rewrite N.sub_0_r.
      destruct qs as [|q0 qs']; [reflexivity|]. set (qs := q0 :: qs').
      rewrite Eb. rewrite zip_loop_spec; try assumption; try reflexivity.
      - f_equal. unfold any_in.
        rewrite <- (existsb_perm _ _ _ (sort_perm _)). rewrite existsb_map. reflexivity.
      - apply Sorted_StronglySorted; [intros x y z; apply N.le_trans | apply sort_sorted].
    Qed.

    Theorem hash_spec qs : hash_match_any hash f key qs = Ok (existsb (fun q => mem (hashed f key q) vals) qs).
    Proof.
      destruct built_bits as (k & Eb & HP & Hc & En & Hfuel).
      unfold hash_match_any. destruct shift_lits as (_ & _ & _ & _ & _ & _ & _ & -> & _).
      destruct qs as [|q0 qs']; [reflexivity|]. set (qs := q0 :: qs').
      destruct (list_eq_dec N.eq_dec vals []) as [E|NE].
      - (* empty set: no bytes were written *)
        destruct (build_inv _ _ _ _ _ Hbuild) as (_ & _ & _ & _ & _ & Ed).
        fold vals in Ed. rewrite E in Ed. cbn [encode pack] in Ed. rewrite Ed.
        unfold fuel_of. rewrite Ed. cbn [length bits_of_bytes flat_map Nat.mul decode_all read_full read_unary rbind].
        rewrite E. reflexivity.
      - rewrite Eb. destruct (decode_all_built (f_p f) vals k (fuel_of f) HP Hc NE Hfuel) as (vs & -> & Hvs).
        cbn [rbind]. f_equal. apply existsb_ext_in. intros q _. apply Hvs.
    Qed.

    Theorem match_any_spec qs : match_any hash sort f key qs = Ok (existsb (fun q => mem (hashed f key q) vals) qs).
    Proof. unfold match_any. destruct (_ <=? _); [apply hash_spec | apply zip_spec]. Qed.

    Lemma member_value d : In d data -> mem (hashed f key d) vals = true.
    Proof.
      intros Hin. apply mem_true_iff. unfold vals, values_of.
      apply (Permutation_in _ (sort_perm _)). apply in_map. exact Hin.
    Qed.

    (* C13: a member is reported by all four query forms *)
    Theorem member_matches d : In d data ->
      gmatch hash f key d = Ok true /\
      forall qs, In d qs ->
        zip_match_any hash sort f key qs = Ok true /\
        hash_match_any hash f key qs = Ok true /\
        match_any hash sort f key qs = Ok true.
    Proof.
      intros Hin. split; [rewrite match_spec, member_value by assumption; reflexivity|].
      intros qs Hq.
      assert (E : existsb (fun q => mem (hashed f key q) vals) qs = true).
      { apply existsb_exists. exists d. split; [exact Hq | apply member_value; exact Hin]. }
      rewrite zip_spec, hash_spec, match_any_spec, E. auto.
    Qed.

    (* C13: every any-of form is true exactly when some queried item matches individually *)
    Definition matches_individually (q : list N) : bool :=
      match gmatch hash f key q with Ok true => true | _ => false end.

    Theorem strategies_agree qs :
      zip_match_any hash sort f key qs = Ok (existsb matches_individually qs) /\
      hash_match_any hash f key qs = Ok (existsb matches_individually qs) /\
      match_any hash sort f key qs = Ok (existsb matches_individually qs).
    Proof.
      assert (E : existsb matches_individually qs = existsb (fun q => mem (hashed f key q) vals) qs).
      { apply existsb_ext_in. intros q _. unfold matches_individually. rewrite match_spec.
        destruct (mem _ _); reflexivity. }
      rewrite E, zip_spec, hash_spec, match_any_spec. auto.
    Qed.

    Corollary strategies_agree_iff qs :
      let some_item := exists q, In q qs /\ gmatch hash f key q = Ok true in
      (zip_match_any hash sort f key qs = Ok true <-> some_item) /\
      (hash_match_any hash f key qs = Ok true <-> some_item) /\
      (match_any hash sort f key qs = Ok true <-> some_item).
    Proof.
      cbv zeta. destruct (strategies_agree qs) as (-> & -> & ->).
      assert (H : Ok (existsb matches_individually qs) = Ok true <-> exists q, In q qs /\ gmatch hash f key q = Ok true).
      { split.
        - intros H. inversion H as [H']. apply existsb_exists in H'. destruct H' as (q & Hin & Hq).
          exists q. split; [exact Hin|]. unfold matches_individually in Hq.
          destruct (gmatch hash f key q) as [[|]| |]; congruence.
        - intros (q & Hin & Hq). f_equal. apply existsb_exists. exists q. split; [exact Hin|].
          unfold matches_individually. rewrite Hq. reflexivity. }
      auto.
    Qed.
  End OneFilter.

  (* C13: an empty filter matches nothing *)
  Theorem empty_filter_none P M key f :
    build hash sort P M key [] = Ok f ->
    (forall q, gmatch hash f key q = Ok false) /\
    (forall qs, zip_match_any hash sort f key qs = Ok false /\
                hash_match_any hash f key qs = Ok false /\
                match_any hash sort f key qs = Ok false).
  Proof.
    intros Hb.
    assert (Hv : values_of f key [] = []) by (unfold values_of; cbn [map]; apply sort_nil).
    split.
    - intros q. rewrite (match_spec _ _ _ _ _ Hb), Hv. reflexivity.
    - intros qs.
      assert (E : existsb (fun q => mem (hashed f key q) (values_of f key [])) qs = false).
      { apply existsb_false_all. intros. rewrite Hv. reflexivity. }
      rewrite (zip_spec _ _ _ _ _ Hb), (hash_spec _ _ _ _ _ Hb), (match_any_spec _ _ _ _ _ Hb), E. auto.
  Qed.
End Built.

(* ---------- packaged forms (what Props/C13.v states) ---------- *)
Definition hash_ok (hash : list N -> list N -> N) : Prop := forall k d, hash k d < two64.
Definition sort_ok (sort : list N -> list N) : Prop :=
  (forall l, Sorted N.le (sort l)) /\ (forall l, Permutation l (sort l)).

Theorem member_matches_all hash sort : hash_ok hash -> sort_ok sort ->
  forall P M key data f, build hash sort P M key data = Ok f ->
  forall d, In d data ->
    gmatch hash f key d = Ok true /\
    forall qs, In d qs ->
      zip_match_any hash sort f key qs = Ok true /\
      hash_match_any hash f key qs = Ok true /\
      match_any hash sort f key qs = Ok true.
Proof. intros Hh [Hs Hp] P M key data f Hb. exact (member_matches hash sort Hh Hs Hp P M key data f Hb). Qed.

Theorem empty_filter_none_all hash sort : hash_ok hash -> sort_ok sort ->
  forall P M key f, build hash sort P M key [] = Ok f ->
    (forall q, gmatch hash f key q = Ok false) /\
    (forall qs, zip_match_any hash sort f key qs = Ok false /\
                hash_match_any hash f key qs = Ok false /\
                match_any hash sort f key qs = Ok false).
Proof. intros Hh [Hs Hp]. exact (empty_filter_none hash sort Hh Hs Hp). Qed.

Theorem strategies_agree_all hash sort : hash_ok hash -> sort_ok sort ->
  forall P M key data f, build hash sort P M key data = Ok f ->
  forall qs,
    let some_item := exists q, In q qs /\ gmatch hash f key q = Ok true in
    (zip_match_any hash sort f key qs = Ok true <-> some_item) /\
    (hash_match_any hash f key qs = Ok true <-> some_item) /\
    (match_any hash sort f key qs = Ok true <-> some_item).
Proof. intros Hh [Hs Hp] P M key data f Hb. exact (strategies_agree_iff hash sort Hh Hs Hp P M key data f Hb). Qed.

(* the boolean form: the three any-of answers are Ok of the same boolean, never an error *)
Theorem strategies_agree_bool hash sort : hash_ok hash -> sort_ok sort ->
  forall P M key data f, build hash sort P M key data = Ok f ->
  forall qs,
    let b := existsb (fun q => match gmatch hash f key q with Ok true => true | _ => false end) qs in
    zip_match_any hash sort f key qs = Ok b /\
    hash_match_any hash f key qs = Ok b /\
    match_any hash sort f key qs = Ok b.
Proof. intros Hh [Hs Hp] P M key data f Hb. exact (strategies_agree hash sort Hh Hs Hp P M key data f Hb). Qed.

(* a single-item query answers membership of the hashed value among the hashed members *)
Theorem match_exact hash sort : hash_ok hash -> sort_ok sort ->
  forall P M key data f, build hash sort P M key data = Ok f ->
  forall q, gmatch hash f key q = Ok true <-> exists d, In d data /\ hashed hash f key d = hashed hash f key q.
Proof.
  intros Hh [Hs Hp] P M key data f Hb q.
  rewrite (match_spec hash sort Hh Hs Hp P M key data f Hb).
  split.
  - intros H. apply Ok_inj in H. apply mem_true_iff in H. unfold values_of in H.
    apply (Permutation_in _ (Permutation_sym (Hp _))) in H. apply in_map_iff in H.
    destruct H as (d & E & Hin). exists d. auto.
  - intros (d & Hin & E). f_equal. rewrite <- E.
    exact (member_value hash sort Hp key data f d Hin).
Qed.

Theorem build_total hash sort P M key data :
  P <= 32 -> N.of_nat (length data) < two32 -> exists f, build hash sort P M key data = Ok f.
Proof.
  intros HP Hn. unfold build. destruct shift_lits as (-> & -> & _). destruct start_lits as (-> & -> & _).
  change (N.shiftl 1 32) with two32.
  destruct (N.leb_spec two32 (N.of_nat (length data))); [lia|].
  destruct (N.ltb_spec 32 P); [lia|].
  destruct (_ =? 0); eexists; reflexivity.
Qed.

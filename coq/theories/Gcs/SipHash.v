(* Executable SipHash-2-4 (64-bit output) over byte lists, mirroring
   github.com/aead/siphash Sum64 (genericCore / genericFinalize64): every 64-bit
   addition and rotation has its wrap written out.  Validated against the
   64 reference vectors of the SipHash reference implementation (Gcs/SipHashVectors.v) and
   against the Go implementation on every run (Run_C13, case [Sip]). *)
From BU Require Import Lib.Bytes.

Definition two64 : N := 18446744073709551616.
Definition w64 (x : N) : N := x mod two64.
Definition add64 (a b : N) : N := w64 (a + b).
Definition rotl64 (x r : N) : N := N.lor (w64 (N.shiftl x r)) (N.shiftr x (64 - r)).

Definition sip_c0 : N := 0x736f6d6570736575.
Definition sip_c1 : N := 0x646f72616e646f6d.
Definition sip_c2 : N := 0x6c7967656e657261.
Definition sip_c3 : N := 0x7465646279746573.

Definition sipstate : Type := (N * N * N * N)%type.

Definition sipround (s : sipstate) : sipstate :=
  let '(v0, v1, v2, v3) := s in
  let v0 := add64 v0 v1 in
  let v1 := rotl64 v1 13 in
  let v1 := N.lxor v1 v0 in
  let v0 := rotl64 v0 32 in
  let v2 := add64 v2 v3 in
  let v3 := rotl64 v3 16 in
  let v3 := N.lxor v3 v2 in
  let v0 := add64 v0 v3 in
  let v3 := rotl64 v3 21 in
  let v3 := N.lxor v3 v0 in
  let v2 := add64 v2 v1 in
  let v1 := rotl64 v1 17 in
  let v1 := N.lxor v1 v2 in
  let v2 := rotl64 v2 32 in
  (v0, v1, v2, v3).

(* one message word: v3 ^= m; 2 rounds; v0 ^= m *)
Definition sip_absorb (s : sipstate) (m : N) : sipstate :=
  let '(v0, v1, v2, v3) := s in
  let '(v0, v1, v2, v3) := sipround (sipround (v0, v1, v2, N.lxor v3 m)) in
  (N.lxor v0 m, v1, v2, v3).

(* little-endian value of the first 8 bytes (missing bytes read as 0) *)
Definition le64 (l : list N) : N := le_value (firstn 8 l).

(* full 8-byte blocks, then the tail (< 8 bytes) *)
Fixpoint sip_blocks (fuel : nat) (s : sipstate) (msg : list N) : sipstate * list N :=
  match fuel with
  | O => (s, msg)
  | S k =>
      match msg with
      | b0 :: b1 :: b2 :: b3 :: b4 :: b5 :: b6 :: b7 :: t =>
          sip_blocks k (sip_absorb s (le_value [b0; b1; b2; b3; b4; b5; b6; b7])) t
      | _ => (s, msg)
      end
  end.

Definition siphash (key msg : list N) : N :=
  let k0 := le64 key in
  let k1 := le64 (skipn 8 key) in
  let s0 := (N.lxor k0 sip_c0, N.lxor k1 sip_c1, N.lxor k0 sip_c2, N.lxor k1 sip_c3) in
  let ctr := N.of_nat (length msg) mod 256 in
  let '(s, tail) := sip_blocks (length msg) s0 msg in
  (* last block: the < 8 remaining bytes, zero padded, byte 7 = length mod 256 *)
  let m := le_value (firstn 7 (tail ++ repeat 0 7)) + ctr * 72057594037927936 in
  let '(v0, v1, v2, v3) := sip_absorb s m in
  let '(v0, v1, v2, v3) := sipround (sipround (sipround (sipround (v0, v1, N.lxor v2 255, v3)))) in
  N.lxor (N.lxor v0 v1) (N.lxor v2 v3).

(* Bit-level facts about the GCS model: big-endian bit lists, the Golomb-Rice
   code of one delta, packing to bytes and the zero padding. *)
From BU Require Import Lib.Bytes Gcs.SipHash Gcs.Gcs Gcs.GcsProofs.
From Coq Require Import ZifyBool ZifyN ZifyNat.

(* ---------- value_be / bits_be ---------- *)
Lemma value_be_acc bs acc : value_be bs acc = acc * 2 ^ N.of_nat (length bs) + value_be bs 0.
Proof.
  revert acc. induction bs as [|b t IH]; intros acc.
  - cbn [value_be length]. change (2 ^ N.of_nat 0) with 1. lia.
  - cbn [value_be length]. rewrite IH. rewrite (IH (2 * 0 + N.b2n b)).
    rewrite Nat2N.inj_succ, N.pow_succ_r'. lia.
Qed.

Lemma value_be_app a b acc : value_be (a ++ b) acc = value_be b (value_be a acc).
Proof. revert acc. induction a as [|x a IH]; intros acc; cbn [value_be app]; auto. Qed.

Lemma bits_be_length n v : length (bits_be n v) = n.
Proof. induction n; cbn [bits_be length]; auto. Qed.

Lemma mod_pow2_succ v k : v mod 2 ^ N.succ k = v mod 2 ^ k + 2 ^ k * N.b2n (N.testbit v k).
Proof.
  rewrite N.pow_succ_r'. rewrite (N.mul_comm 2).
  rewrite N.mod_mul_r by (try apply N.pow_nonzero; discriminate).
  rewrite N.testbit_spec'. reflexivity.
Qed.

Lemma value_bits_be n v : value_be (bits_be n v) 0 = v mod 2 ^ N.of_nat n.
Proof.
  induction n as [|k IH].
  - cbn. rewrite N.mod_1_r. reflexivity.
  - cbn [bits_be value_be]. rewrite value_be_acc, bits_be_length, IH.
    rewrite Nat2N.inj_succ, mod_pow2_succ. lia.
Qed.

Lemma value_be_lt bs : value_be bs 0 < 2 ^ N.of_nat (length bs).
Proof.
  induction bs as [|b t IH].
  - cbn. lia.
  - cbn [value_be length]. rewrite value_be_acc. rewrite Nat2N.inj_succ, N.pow_succ_r'.
    destruct b; cbn [N.b2n]; lia.
Qed.

(* ---------- reading P bits / a unary run ---------- *)
Lemma firstn_skipn_exact {A} (a b : list A) : firstn (length a) (a ++ b) = a /\ skipn (length a) (a ++ b) = b.
Proof. induction a; cbn; [auto|]. destruct IHa as [-> ->]. auto. Qed.

Lemma read_bits_app n r rest :
  read_bits n (bits_be n r ++ rest) = Some (r mod 2 ^ N.of_nat n, rest).
Proof.
  unfold read_bits.
  assert (Hlen : (length (bits_be n r ++ rest) <? n)%nat = false).
  { apply Nat.ltb_ge. rewrite app_length, bits_be_length. lia. }
  rewrite Hlen.
  destruct (firstn_skipn_exact (bits_be n r) rest) as [Hf Hs].
  rewrite bits_be_length in Hf, Hs. rewrite Hf, Hs.
  rewrite value_bits_be. reflexivity.
Qed.

Lemma read_unary_run q acc rest :
  acc + N.of_nat q < two64 ->
  read_unary (repeat true q ++ false :: rest) acc = Some (acc + N.of_nat q, rest).
Proof.
  revert acc. induction q as [|q IH]; intros acc H.
  - cbn. rewrite N.add_0_r. reflexivity.
  - cbn [repeat app read_unary]. unfold w64. rewrite N.mod_small by lia.
    rewrite IH by lia. f_equal. f_equal. lia.
Qed.

(* ---------- one Golomb-Rice code ---------- *)
Lemma sub64_small a b : b <= a -> a < two64 -> sub64 a b = a - b.
Proof.
  intros Hle Hlt. unfold sub64.
  replace (a + two64 - b) with ((a - b) + 1 * two64) by lia.
  rewrite N.mod_add by discriminate. apply N.mod_small. lia.
Qed.

Lemma pow2_le_32 P : P <= 32 -> 2 ^ P <= two32.
Proof. intros H. change two32 with (2 ^ 32). apply N.pow_le_mono_r; [discriminate | exact H]. Qed.

Lemma mask_is_ones P : P <= 32 -> sub64 (w64 (N.shiftl 1 P)) 1 = N.ones P.
Proof.
  intros HP. rewrite N.shiftl_1_l. pose proof (pow2_le_32 P HP) as Hp.
  assert (Hpos : 0 < 2 ^ P) by (apply N.neq_0_lt_0, N.pow_nonzero; discriminate).
  unfold w64. rewrite N.mod_small by (unfold two32, two64 in *; lia).
  rewrite sub64_small by (unfold two32, two64 in *; lia).
  rewrite N.ones_equiv. lia.
Qed.

(* what the writer emits for one value, in arithmetic terms *)
Lemma delta_bits_spec P last v :
  P <= 32 -> last <= v -> v < two64 ->
  delta_bits P last v =
    repeat true (N.to_nat ((v - last) / 2 ^ P)) ++ false :: bits_be (N.to_nat P) ((v - last) mod 2 ^ P).
Proof.
  intros HP Hle Hlt. unfold delta_bits.
  rewrite (sub64_small v last) by assumption.
  rewrite mask_is_ones by assumption. rewrite N.land_ones.
  set (d := v - last).
  assert (Hpos : 2 ^ P <> 0) by (apply N.pow_nonzero; discriminate).
  pose proof (N.div_mod d (2 ^ P) Hpos) as Ed.
  pose proof (N.mod_lt d (2 ^ P) Hpos) as Lr.
  assert (Hd : d < two64) by (unfold d; lia).
  pose proof (N.mod_le d (2 ^ P) Hpos) as Hle'.
  rewrite (sub64_small d (d mod 2 ^ P) Hle' Hd).
  rewrite N.shiftr_div_pow2.
  assert (E : d - d mod 2 ^ P = d / 2 ^ P * 2 ^ P).
  { rewrite (N.mul_comm (d / 2 ^ P)). generalize dependent (2 ^ P * (d / 2 ^ P)). intros. lia. }
  rewrite E.
  rewrite N.div_mul by assumption. reflexivity.
Qed.

Lemma read_full_code P q r rest :
  P <= 32 -> r < 2 ^ P -> q * 2 ^ P + r < two64 ->
  read_full P (repeat true (N.to_nat q) ++ false :: bits_be (N.to_nat P) r ++ rest) = Some (q * 2 ^ P + r, rest).
Proof.
  intros HP Hr Hlt. unfold read_full.
  assert (Hpos : 0 < 2 ^ P) by (apply N.neq_0_lt_0, N.pow_nonzero; discriminate).
  assert (Hq : q < two64) by nia.
  rewrite read_unary_run by (rewrite N2Nat.id; lia).
  rewrite N2Nat.id, N.add_0_l.
  rewrite read_bits_app. rewrite N2Nat.id.
  rewrite (N.mod_small r) by assumption.
  rewrite N.shiftl_mul_pow2. unfold w64.
  rewrite (N.mod_small (q * 2 ^ P)) by lia.
  rewrite N.mod_small by lia. reflexivity.
Qed.

Lemma read_full_delta P last v rest :
  P <= 32 -> last <= v -> v < two64 ->
  read_full P (delta_bits P last v ++ rest) = Some (v - last, rest).
Proof.
  intros HP Hle Hlt. rewrite delta_bits_spec by assumption.
  assert (Hpos : 2 ^ P <> 0) by (apply N.pow_nonzero; discriminate).
  pose proof (N.div_mod (v - last) (2 ^ P) Hpos) as Ed.
  pose proof (N.mod_lt (v - last) (2 ^ P) Hpos) as Lr.
  rewrite <- app_assoc. cbn [app].
  rewrite read_full_code; try assumption; [f_equal; f_equal; lia | lia].
Qed.

(* every successful read consumes at least P + 1 bits *)
Lemma read_unary_consumes bs q q' rest : read_unary bs q = Some (q', rest) -> (length rest < length bs)%nat.
Proof.
  revert q. induction bs as [|b t IH]; intros q H; [discriminate|].
  cbn [read_unary] in H. destruct b.
  - apply IH in H. cbn [length]. lia.
  - inversion H; subst. cbn [length]. lia.
Qed.

Lemma read_full_consumes P bs d rest :
  read_full P bs = Some (d, rest) -> (length rest + N.to_nat P + 1 <= length bs)%nat.
Proof.
  unfold read_full. destruct (read_unary bs 0) as [[q t]|] eqn:Hu; [|discriminate].
  apply read_unary_consumes in Hu.
  unfold read_bits. destruct (length t <? N.to_nat P)%nat eqn:Hl; [discriminate|].
  intros H. inversion H; subst. rewrite skipn_length. apply Nat.ltb_ge in Hl. lia.
Qed.

(* ---------- the whole stream ---------- *)
(* vals is an ascending chain starting at or above [last], all below 2^64 *)
Fixpoint chain (last : N) (vals : list N) : Prop :=
  match vals with
  | [] => True
  | v :: t => last <= v /\ v < two64 /\ chain v t
  end.

Fixpoint deltas (last : N) (vals : list N) : list N :=
  match vals with
  | [] => []
  | v :: t => (v - last) :: deltas v t
  end.

Theorem decode_encode P last vals rest :
  P <= 32 -> chain last vals ->
  read_values (length vals) P (encode P last vals ++ rest) = Some (deltas last vals, rest).
Proof.
  intros HP. revert last. induction vals as [|v t IH]; intros last Hc.
  - reflexivity.
  - destruct Hc as (Hle & Hlt & Hc). cbn [length read_values encode deltas].
    rewrite <- app_assoc. rewrite read_full_delta by assumption.
    rewrite IH by assumption. reflexivity.
Qed.

(* ---------- packing into bytes ---------- *)
Lemma bits_value_8 b7 b6 b5 b4 b3 b2 b1 b0 :
  bits_be 8 (value_be [b7; b6; b5; b4; b3; b2; b1; b0] 0) = [b7; b6; b5; b4; b3; b2; b1; b0].
Proof. destruct b7, b6, b5, b4, b3, b2, b1, b0; reflexivity. Qed.

Lemma pack_short bs : (0 < length bs < 8)%nat ->
  exists k, (k < 8)%nat /\ bits_of_bytes (pack bs) = bs ++ repeat false k.
Proof.
  intros H. exists (8 - length bs)%nat. split; [lia|].
  destruct bs as [|a [|b [|c [|d [|e [|f [|g [|h t]]]]]]]]; cbn [length] in H; try lia;
    cbn [pack app repeat firstn bits_of_bytes flat_map length Nat.sub];
    rewrite bits_value_8; reflexivity.
Qed.

Lemma pack_bits_n n : forall bs, (length bs <= n)%nat ->
  exists k, (k < 8)%nat /\ bits_of_bytes (pack bs) = bs ++ repeat false k.
Proof.
  induction n as [n IH] using lt_wf_ind. intros bs Hn.
  destruct (Nat.eq_dec (length bs) 0) as [E0|N0].
  - destruct bs; [|discriminate]. exists 0%nat. split; [lia | reflexivity].
  - destruct (Nat.lt_ge_cases (length bs) 8) as [Hlt|Hge].
    + apply pack_short. lia.
    + destruct bs as [|b7 [|b6 [|b5 [|b4 [|b3 [|b2 [|b1 [|b0 t]]]]]]]]; cbn [length] in Hge; try lia.
      cbn [length] in Hn.
      destruct (IH (length t) ltac:(lia) t (le_n _)) as (k & Hk & E).
      exists k. split; [exact Hk|].
      cbn [pack bits_of_bytes flat_map]. fold (bits_of_bytes (pack t)).
      rewrite bits_value_8, E. reflexivity.
Qed.

Theorem pack_bits bs : exists k, (k < 8)%nat /\ bits_of_bytes (pack bs) = bs ++ repeat false k.
Proof. exact (pack_bits_n (length bs) bs (le_n _)). Qed.

Lemma bits_of_bytes_length l : length (bits_of_bytes l) = (8 * length l)%nat.
Proof.
  induction l as [|b t IH]; [reflexivity|].
  unfold bits_of_bytes in *. cbn [flat_map]. rewrite app_length, bits_be_length, IH. cbn [length]. lia.
Qed.

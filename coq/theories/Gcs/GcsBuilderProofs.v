(* C14: the builder (entry set, error latch), block-filter content, order
   independence of Build(), filter hash and header. *)
From BU Require Import Lib.Bytes Lib.Sha256 Gcs.SipHash Gcs.Gcs Gcs.GcsProofs Gcs.GcsBitsProofs Gcs.GcsMatchProofs
  Gcs.GcsTheorems Gcs.GcsSerProofs Gcs.Bip158Spec Gcs.GcsBuilder.
From Coq Require Import ZifyBool ZifyN ZifyNat Sorting.Sorted Sorting.Permutation.

(* ---------- a sorted permutation is unique: Build() does not depend on map iteration order ---------- *)
Lemma sorted_perm_unique l : forall l',
  StronglySorted N.le l -> StronglySorted N.le l' -> Permutation l l' -> l = l'.
Proof.
  induction l as [|x t IH]; intros l' Hs Hs' Hp.
  - apply Permutation_nil in Hp. auto.
  - destruct l' as [|y t']; [apply Permutation_sym, Permutation_nil in Hp; discriminate|].
    inversion Hs as [|? ? Hst Hall]; subst. inversion Hs' as [|? ? Hst' Hall']; subst.
    assert (Exy : x = y).
    { assert (Hy : In y (x :: t)) by (apply (Permutation_in _ (Permutation_sym Hp)); left; reflexivity).
      assert (Hx : In x (y :: t')) by (apply (Permutation_in _ Hp); left; reflexivity).
      rewrite Forall_forall in Hall, Hall'.
      destruct Hy as [->|Hy]; [reflexivity|]. destruct Hx as [->|Hx]; [reflexivity|].
      specialize (Hall _ Hy). specialize (Hall' _ Hx). lia. }
    subst y. f_equal. apply IH; try assumption. exact (Permutation_cons_inv Hp).
Qed.

Theorem build_perm hash sort : sort_ok sort ->
  forall P M key data data', Permutation data data' ->
    build hash sort P M key data = build hash sort P M key data'.
Proof.
  intros [Hs Hp] P M key data data' Hperm. unfold build.
  rewrite (Permutation_length Hperm).
  set (g := fun d => fast_reduction (hash key d) _ _).
  assert (E : sort (map g data) = sort (map g data')).
  { apply sorted_perm_unique.
    - apply Sorted_StronglySorted; [intros x y z; apply N.le_trans | apply Hs].
    - apply Sorted_StronglySorted; [intros x y z; apply N.le_trans | apply Hs].
    - eapply Permutation_trans; [apply Permutation_sym, Hp|].
      eapply Permutation_trans; [|apply Hp]. apply Permutation_map. exact Hperm. }
  rewrite E. reflexivity.
Qed.

(* ---------- the entry set ---------- *)
Lemma entry_mem_iff e l : entry_mem e l = true <-> In e l.
Proof.
  unfold entry_mem. rewrite existsb_exists. split.
  - intros (x & Hin & E). apply list_eqb_eq in E. subst. exact Hin.
  - intros H. exists e. split; [exact H | apply list_eqb_refl].
Qed.

Lemma set_add_in e l x : In x (set_add e l) <-> x = e \/ In x l.
Proof.
  unfold set_add. destruct (entry_mem e l) eqn:E.
  - apply entry_mem_iff in E. split; [auto|]. intros [->|H]; assumption.
  - rewrite in_app_iff. cbn [In]. split; intros [H|H]; auto. destruct H as [H|[]]; auto.
Qed.

Lemma set_add_nodup e l : NoDup l -> NoDup (set_add e l).
Proof.
  intros H. unfold set_add. destruct (entry_mem e l) eqn:E; [exact H|].
  assert (Hn : ~ In e l) by (rewrite <- entry_mem_iff; congruence).
  clear E. induction l as [|y t IH]; cbn [app]; [repeat constructor; auto|].
  inversion H; subst. constructor.
  - rewrite in_app_iff. cbn [In]. intros [Hy|[<-|[]]]; [auto|]. apply Hn. left. reflexivity.
  - apply IH; [assumption|]. intros Hin. apply Hn. right. exact Hin.
Qed.

Definition add_all (l : list (list N)) (es : list (list N)) : list (list N) :=
  fold_left (fun acc e => set_add e acc) es l.

Lemma add_all_in es : forall l x, In x (add_all l es) <-> In x l \/ In x es.
Proof.
  unfold add_all. induction es as [|e t IH]; intros l x; cbn [fold_left In]; [tauto|].
  rewrite IH, set_add_in. intuition.
Qed.

Lemma add_all_nodup es : forall l, NoDup l -> NoDup (add_all l es).
Proof.
  unfold add_all. induction es as [|e t IH]; intros l H; cbn [fold_left]; [exact H|].
  apply IH, set_add_nodup, H.
Qed.

Lemma add_all_app l a b : add_all l (a ++ b) = add_all (add_all l a) b.
Proof. unfold add_all. apply fold_left_app. Qed.

(* ---------- block content ---------- *)
Definition tx_entries (i : nat) (t : tx) : list (list N) :=
  match i with O => [] | S _ => map ser_outpoint (tx_ins t) end ++ List.filter is_nonempty (tx_outs t).

Fixpoint block_entries (i : nat) (txs : list tx) : list (list N) :=
  match txs with
  | [] => []
  | t :: rest => tx_entries i t ++ block_entries (S i) rest
  end.

Definition with_data (b : builder) (l : list (list N)) : builder :=
  mkBuilder (b_p b) (b_m b) (b_key b) (Some l) (b_err b).

Lemma ser_outpoint_nonempty o : is_nonempty (ser_outpoint o) = true.
Proof. unfold ser_outpoint. destruct (op_hash o); reflexivity. Qed.

Section Content.
  Variable hash : list N -> list N -> N.
  Variable sort : list N -> list N.
  Variable b : builder.
  Hypothesis Herr : b_err b = None.

  Lemma add_entry_live l e : add_entry (with_data b l) e = Ok (with_data b (set_add e l)).
  Proof. unfold add_entry, latched, with_data. cbn. rewrite Herr. reflexivity. Qed.

  Lemma add_inputs_live i ins : forall l,
    add_inputs i (with_data b l) ins =
      Ok (with_data b (add_all l (match i with O => [] | S _ => map ser_outpoint ins end))).
  Proof.
    induction ins as [|o t IH]; intros l; cbn [add_inputs].
    - destruct i; reflexivity.
    - change coinbase_index with 0. destruct i as [|i'].
      + change (N.of_nat 0 =? 0) with true. cbv iota. rewrite IH. reflexivity.
      + replace (N.of_nat (S i') =? 0) with false by (symmetry; apply N.eqb_neq; lia).
        rewrite ser_outpoint_nonempty, add_entry_live. cbn [rbind]. rewrite IH. reflexivity.
  Qed.

  Lemma add_outputs_live outs : forall l,
    add_outputs (with_data b l) outs = Ok (with_data b (add_all l (List.filter is_nonempty outs))).
  Proof.
    induction outs as [|s t IH]; intros l; cbn [add_outputs List.filter]; [reflexivity|].
    destruct (is_nonempty s).
    - rewrite add_entry_live. cbn [rbind]. rewrite IH. reflexivity.
    - apply IH.
  Qed.

  Lemma add_txs_live txs : forall i l,
    add_txs i (with_data b l) txs = Ok (with_data b (add_all l (block_entries i txs))).
  Proof.
    induction txs as [|t rest IH]; intros i l; cbn [add_txs block_entries]; [reflexivity|].
    rewrite add_inputs_live. cbn [rbind]. rewrite add_outputs_live. cbn [rbind].
    rewrite IH. unfold tx_entries. rewrite !add_all_app. reflexivity.
  Qed.
End Content.

Lemma default_params : default_p = 19 /\ default_m = 784931.
Proof. split; reflexivity. Qed.

(* literals of builder.go / gcs.go the model reads (what the source says today) *)
Lemma builder_lits : key_size = 16%nat /\ build_p_unset = 0 /\ build_m_unset = 0 /\ coinbase_index = 0 /\ setp_max = 32 /\
  length Gen.Xgcs_builder.lits_GCSBuilder_Build = 3%nat /\ length Gen.Xgcs_builder.lits_buildBasicFilterWithKey = 3%nat /\
  length Gen.Xgcs_builder.lits_GCSBuilder_SetP = 1%nat.
Proof. repeat split; reflexivity. Qed.

Lemma copy_key_length x : length (copy_key x) = 16%nat.
Proof.
  unfold copy_key. change key_size with 16%nat. rewrite firstn_length, app_length, repeat_length. lia.
Qed.

Lemma copy_key_idem x : copy_key (copy_key x) = copy_key x.
Proof.
  unfold copy_key at 1. pose proof (copy_key_length x) as H.
  change key_size with 16%nat. rewrite <- H at 1.
  destruct (firstn_skipn_exact (copy_key x) (repeat 0 16)) as [-> _]. reflexivity.
Qed.

Lemma with_key_hash_eq h : with_key_hash h = mkBuilder default_p default_m (derive_key h) (Some []) None.
Proof.
  transitivity (mkBuilder default_p default_m (copy_key (derive_key h)) (Some []) None); [reflexivity|].
  unfold derive_key. rewrite copy_key_idem. reflexivity.
Qed.

(* BuildBasicFilter's content, key and parameters *)
Theorem builder_content hash sort txs keyhash :
  basic_filter_with_key hash sort txs keyhash =
    build hash sort default_p default_m (firstn 16 (keyhash ++ repeat 0 16)) (add_all [] (block_entries 0 txs)).
Proof.
  unfold basic_filter_with_key. rewrite with_key_hash_eq.
  set (b0 := mkBuilder default_p default_m (derive_key keyhash) (Some []) None).
  change (b_key_get b0) with (Ok (derive_key keyhash)). cbn [rbind].
  change b0 with (with_data b0 []).
  rewrite (add_txs_live b0 eq_refl). cbn [rbind].
  reflexivity.
Qed.

Lemma block_entries_in txs : forall i e,
  In e (block_entries i txs) <->
  (exists k t o, nth_error txs k = Some t /\ (0 < i + k)%nat /\ In o (tx_ins t) /\ e = ser_outpoint o) \/
  (exists t, In t txs /\ In e (tx_outs t) /\ e <> []).
Proof.
  induction txs as [|t rest IH]; intros i e; cbn [block_entries].
  - split; [intros []|]. intros [(k & t & o & H & _)|(t & [] & _)]. destruct k; discriminate.
  - rewrite in_app_iff, IH. unfold tx_entries. rewrite in_app_iff, filter_In.
    split.
    + intros [[Hin|[Hin Hne]]|[(k & t' & o & Hn & Hk & Ho & E)|(t' & Ht & Ho & Hne)]].
      * destruct i; [destruct Hin|]. apply in_map_iff in Hin. destruct Hin as (o & <- & Ho).
        left. exists 0%nat, t, o. cbn. repeat split; auto. lia.
      * right. exists t. repeat split; auto; [left; reflexivity|]. intros ->. discriminate.
      * left. exists (S k), t', o. cbn. repeat split; auto. lia.
      * right. exists t'. repeat split; auto. right. exact Ht.
    + intros [(k & t' & o & Hn & Hk & Ho & E)|(t' & [<-|Ht] & Ho & Hne)].
      * destruct k as [|k]; cbn in Hn.
        -- injection Hn as <-. left. left. destruct i; [lia|]. apply in_map_iff. exists o. auto.
        -- right. left. exists k, t', o. repeat split; auto. lia.
      * left. right. split; [exact Ho|]. destruct e; [congruence | reflexivity].
      * right. right. exists t'. auto.
Qed.

(* the entry set of a block: exactly the serialised outpoints of the inputs of every transaction but
   the first (the coinbase) and the non-empty output scripts of every transaction, without duplicates *)
Theorem basic_entries_spec txs :
  let es := add_all [] (block_entries 0 txs) in
  NoDup es /\
  forall e, In e es <->
    (exists k t o, nth_error txs (S k) = Some t /\ In o (tx_ins t) /\ e = ser_outpoint o) \/
    (exists t, In t txs /\ In e (tx_outs t) /\ e <> []).
Proof.
  cbv zeta. split; [apply add_all_nodup; constructor|].
  intros e. rewrite add_all_in, block_entries_in. cbn [In]. split.
  - intros [[]|[(k & t & o & Hn & Hk & Ho & E)|H]]; [|right; exact H].
    destruct k; [lia|]. left. exists k, t, o. auto.
  - intros [(k & t & o & Hn & Ho & E)|H]; right; [left | right; exact H].
    exists (S k), t, o. repeat split; auto. lia.
Qed.

(* BuildBasicFilter keys the filter by the first 16 bytes of the block hash (SHA256d of the 80-byte header);
   BuildMempoolFilter by 16 zero bytes, and (an empty transaction standing in for the coinbase) includes the
   inputs of ALL the transactions it is given *)
Theorem block_filter_keys hash sort header txs :
  build_basic_filter hash sort header txs =
    build hash sort default_p default_m (firstn 16 (sha256d header ++ repeat 0 16)) (add_all [] (block_entries 0 txs)) /\
  build_mempool_filter hash sort txs =
    build hash sort default_p default_m (repeat 0 16) (add_all [] (block_entries 1 txs)).
Proof.
  unfold build_basic_filter, build_mempool_filter. rewrite !builder_content. split; reflexivity.
Qed.

Theorem mempool_entries_spec txs :
  let es := add_all [] (block_entries 1 txs) in
  NoDup es /\
  forall e, In e es <->
    (exists t o, In t txs /\ In o (tx_ins t) /\ e = ser_outpoint o) \/
    (exists t, In t txs /\ In e (tx_outs t) /\ e <> []).
Proof.
  cbv zeta. split; [apply add_all_nodup; constructor|].
  intros e. rewrite add_all_in, block_entries_in. cbn [In]. split.
  - intros [[]|[(k & t & o & Hn & _ & Ho & E)|H]]; [|right; exact H].
    left. exists t, o. split; [eapply nth_error_In; exact Hn | auto].
  - intros [(t & o & Ht & Ho & E)|H]; right; [left | right; exact H].
    destruct (In_nth_error _ _ Ht) as [k Hk]. exists k, t, o. repeat split; auto. lia.
Qed.

(* ---------- error latch ---------- *)
Theorem builder_latch hash sort b e : b_err b = Some e ->
  (forall k, set_key b k = b) /\ (forall h, set_key_from_hash b h = b) /\
  (forall p, set_p b p = b) /\ (forall m, set_m b m = b) /\ (forall n, preallocate b n = b) /\
  (forall x, add_entry b x = Ok b) /\ (forall xs, add_entries b xs = Ok b) /\ (forall h, add_hash b h = Ok b) /\
  b_key_get b = Err e /\ b_build hash sort b = Err e.
Proof.
  intros H. unfold set_key, set_key_from_hash, set_p, set_m, preallocate, add_entry, add_entries, add_hash,
    b_key_get, b_build, latched. rewrite H. repeat split.
Qed.

Theorem builder_build_live hash sort b : b_err b = None ->
  b_build hash sort b =
    if b_p b =? 0 then Err 5 else if b_m b =? 0 then Err 6
    else build hash sort (b_p b) (b_m b) (b_key b) (entries_of b).
Proof. intros H. unfold b_build. rewrite H. reflexivity. Qed.

Theorem builder_param_checks b : b_err b = None ->
  (forall p, 32 < p -> b_err (set_p b p) = Some 2) /\
  (forall p, p <= 32 -> set_p b p = mkBuilder p (b_m b) (b_key b) (b_data b) None) /\
  (forall m, 4294967295 < m -> b_err (set_m b m) = Some 2) /\
  (forall m, m <= 4294967295 -> set_m b m = mkBuilder (b_p b) m (b_key b) (b_data b) None).
Proof.
  intros H. unfold set_p, set_m, latched. rewrite H. change setp_max with 32. change max_uint32 with 4294967295.
  repeat split; intros x Hx.
  - destruct (N.ltb_spec 32 x); [reflexivity | lia].
  - destruct (N.ltb_spec 32 x); [lia | reflexivity].
  - destruct (N.ltb_spec 4294967295 x); [reflexivity | lia].
  - destruct (N.ltb_spec 4294967295 x); [lia | reflexivity].
Qed.

(* ---------- filter hash and header ---------- *)
Theorem hash_header f prev :
  filter_hash f = sha256d (compact_size (f_n f) ++ f_data f) /\
  filter_header f prev = sha256d (sha256d (compact_size (f_n f) ++ f_data f) ++ prev).
Proof.
  unfold filter_header, filter_hash, filter_nbytes. rewrite write_varint_compact. split; reflexivity.
Qed.

(* Model of /repo/gcs/gcs.go (Golomb-coded sets).

   Machine integers are N with every wrap written out (w64, lo32); the bit
   stream of github.com/kkdai/bstream is a [list bool] (most significant bit of
   each byte first); Gcs/BStream.v models bstream's byte/offset machine and
   BStreamProofs.v shows the two readers equal, EOF rules included.
   The hash (siphash.Sum64) and sort.Slice are parameters of the section:
   theorems take them as arbitrary functions with the hypotheses they need, the
   run driver instantiates them with Gcs/SipHash.v and an insertion sort.

   Error classes of [res]: 1 ErrNTooBig, 2 ErrPTooBig, 3 short read (io.EOF /
   io.ErrUnexpectedEOF from wire.ReadVarInt), 4 non-canonical CompactSize.
   Panic 9 = out of fuel (excluded by C13_match_cost). *)
From BU Require Import Lib.Bytes Lib.PolyMod Gen.Xgcs Gcs.SipHash.

(* ---------- literals taken from the Go source on every run ---------- *)
Definition two32 : N := 4294967296.
Definition lo32 (x : N) : N := x mod two32.             (* uint64(uint32(x)) *)

Definition fr_s0 : N := lit lits_fastReduction 0.       (* v >> 32 *)
Definition fr_s1 : N := lit lits_fastReduction 1.       (* vnplo >> 32 *)
Definition fr_s2 : N := lit lits_fastReduction 2.       (* (...) >> 32 *)
Definition fr_s3 : N := lit lits_fastReduction 3.       (* vnpmid >> 32 *)
Definition fr_s4 : N := lit lits_fastReduction 4.       (* npvmid >> 32 *)
Definition build_nbase : N := lit lits_BuildGCSFilter 0.  (* the 1 of len(data) >= 1 << 32 *)
Definition build_nbits : N := lit lits_BuildGCSFilter 1.  (* len(data) >= 1 << 32 *)
Definition build_pmax : N := lit lits_BuildGCSFilter 2.   (* P > 32 *)
Definition build_empty : N := lit lits_BuildGCSFilter 3.  (* f.n == 0 *)
Definition build_hshift : N := lit lits_BuildGCSFilter 6. (* modulusNP >> 32 *)
Definition frombytes_pmax : N := lit lits_FromBytes 0.    (* P > 32 *)
Definition fromn_nbase : N := lit lits_FromNBytes 0.      (* the 1 of N >= 1 << 32 *)
Definition fromn_nbits : N := lit lits_FromNBytes 1.      (* N >= 1 << 32 *)
Definition match_hshift : N := lit lits_Filter_Match 0.
Definition match_i0 : N := lit lits_Filter_Match 1.       (* for i := uint32(0); i < f.N() *)
Definition zip_hshift : N := lit lits_Filter_ZipMatchAny 2.
Definition zip_i0 : N := lit lits_Filter_ZipMatchAny 3.   (* for i := uint32(0); i < f.N() *)
Definition hash_hshift : N := lit lits_Filter_HashMatchAny 1.
Definition any_div : N := lit lits_Filter_MatchAny 0.     (* f.N() / 2 *)
Definition hint_mul : N := lit lits_Filter_sizeHint 0.    (* len * 8 *)
Definition hint_add : N := lit lits_Filter_sizeHint 1.    (* p + 1 *)

(* ---------- fastReduction: high 64 bits of v * (nHi * 2^32 + nLo) ---------- *)
Definition fast_reduction (v nHi nLo : N) : N :=
  let vhi := N.shiftr v fr_s0 in
  let vlo := lo32 v in
  let vnphi := w64 (vhi * nHi) in
  let vnpmid := w64 (vhi * nLo) in
  let npvmid := w64 (nHi * vlo) in
  let vnplo := w64 (vlo * nLo) in
  let carry := N.shiftr (w64 (w64 (lo32 vnpmid + lo32 npvmid) + N.shiftr vnplo fr_s1)) fr_s2 in
  w64 (w64 (w64 (vnphi + N.shiftr vnpmid fr_s3) + N.shiftr npvmid fr_s4) + carry).

(* ---------- bits ---------- *)
(* the n low bits of v, most significant first *)
Fixpoint bits_be (n : nat) (v : N) : list bool :=
  match n with
  | O => []
  | S k => N.testbit v (N.of_nat k) :: bits_be k v
  end.

Fixpoint value_be (bs : list bool) (acc : N) : N :=
  match bs with
  | [] => acc
  | b :: t => value_be t (2 * acc + N.b2n b)
  end.

Definition bits_of_bytes (l : list N) : list bool := flat_map (bits_be 8) l.

(* bstream writer: bits fill each byte from the top; Bytes() leaves the unused
   low bits of the last byte zero *)
Fixpoint pack (bs : list bool) : list N :=
  match bs with
  | [] => []
  | b7 :: b6 :: b5 :: b4 :: b3 :: b2 :: b1 :: b0 :: t =>
      value_be [b7; b6; b5; b4; b3; b2; b1; b0] 0 :: pack t
  | _ => [value_be (firstn 8 (bs ++ repeat false 7)) 0]
  end.

(* ---------- Golomb-Rice writer (BuildGCSFilter's second loop) ---------- *)
Definition sub64 (a b : N) : N := (a + two64 - b) mod two64.

Definition delta_bits (P last v : N) : list bool :=
  let d := sub64 v last in
  let remainder := N.land d (sub64 (w64 (N.shiftl 1 P)) 1) in
  let value := N.shiftr (sub64 d remainder) P in
  repeat true (N.to_nat value) ++ false :: bits_be (N.to_nat P) remainder.

Fixpoint encode (P last : N) (vals : list N) : list bool :=
  match vals with
  | [] => []
  | v :: t => delta_bits P last v ++ encode P v t
  end.

(* ---------- Golomb-Rice reader (readFullUint64) ---------- *)
Fixpoint read_unary (bs : list bool) (q : N) : option (N * list bool) :=
  match bs with
  | [] => None
  | true :: t => read_unary t (w64 (q + 1))
  | false :: t => Some (q, t)
  end.

Definition read_bits (n : nat) (bs : list bool) : option (N * list bool) :=
  if (length bs <? n)%nat then None else Some (value_be (firstn n bs) 0, skipn n bs).

Definition read_full (P : N) (bs : list bool) : option (N * list bool) :=
  match read_unary bs 0 with
  | None => None
  | Some (q, t) =>
      match read_bits (N.to_nat P) t with
      | None => None
      | Some (r, t') => Some (w64 (w64 (N.shiftl q P) + r), t')
      end
  end.

(* n successive reads (the deltas); used to state decode_encode *)
Fixpoint read_values (n : nat) (P : N) (bs : list bool) : option (list N * list bool) :=
  match n with
  | O => Some ([], bs)
  | S k =>
      match read_full P bs with
      | None => None
      | Some (d, bs') =>
          match read_values k P bs' with
          | None => None
          | Some (ds, bs'') => Some (d :: ds, bs'')
          end
      end
  end.

(* ---------- the filter ---------- *)
Record filter := mkFilter { f_n : N; f_p : N; f_mod : N; f_data : list N }.

Definition filter_eqb (a b : filter) : bool :=
  (f_n a =? f_n b) && (f_p a =? f_p b) && (f_mod a =? f_mod b) && list_eqb (f_data a) (f_data b).

Definition reduce_with (shift : N) (f : filter) (v : N) : N :=
  fast_reduction v (N.shiftr (f_mod f) shift) (lo32 (f_mod f)).

(* Match: the loop `for i := i0; i < N; i++` is written with the number of iterations left
   (N - i0, truncated subtraction: no iteration when N <= i0);
   fuel is the termination measure (every iteration consumes at least one bit) *)
Fixpoint match_loop (fuel : nat) (P left : N) (bs : list bool) (value term : N) : res bool :=
  match fuel with
  | O => Panic 9
  | S k =>
      if left =? 0 then Ok false else
      match read_full P bs with
      | None => Ok false                                  (* io.EOF *)
      | Some (delta, bs') =>
          let value := w64 (value + delta) in
          if value =? term then Ok true
          else if term <? value then Ok false
          else match_loop k P (left - 1) bs' value term
      end
  end.

(* inner `for { switch … }` of ZipMatchAny *)
Inductive zipstep := ZDone (b : bool) | ZNext (qs : list N).

Fixpoint zip_inner (qs : list N) (value : N) : zipstep :=
  match qs with
  | [] => ZDone false
  | q :: t =>
      if q =? value then ZDone true
      else if value <? q then ZNext qs
      else zip_inner t value
  end.

Fixpoint zip_loop (fuel : nat) (P left : N) (bs : list bool) (value : N) (qs : list N) : res bool :=
  match fuel with
  | O => Panic 9
  | S k =>
      if left =? 0 then Ok false else
      match read_full P bs with
      | None => Ok false
      | Some (delta, bs') =>
          let value := w64 (value + delta) in
          match zip_inner qs value with
          | ZDone b => Ok b
          | ZNext qs' => zip_loop k P (left - 1) bs' value qs'
          end
      end
  end.

(* HashMatchAny's first loop: decode until EOF (NOT bounded by N) *)
Fixpoint decode_all (fuel : nat) (P : N) (bs : list bool) (last : N) : res (list N) :=
  match fuel with
  | O => Panic 9
  | S k =>
      match read_full P bs with
      | None => Ok []
      | Some (delta, bs') =>
          let v := w64 (last + delta) in
          do rest <- decode_all k P bs' v ;; Ok (v :: rest)
      end
  end.

Definition mem (v : N) (l : list N) : bool := existsb (N.eqb v) l.

(* fuel that always suffices: one more than the number of bits *)
Definition fuel_of (f : filter) : nat := S (8 * length (f_data f)).

(* sizeHint (the capacity HashMatchAny asks for) *)
Definition size_hint (f : filter) : N :=
  let mx := w64 (N.of_nat (length (f_data f)) * hint_mul) / (f_p f + hint_add) in
  if f_n f <? mx then f_n f else mx.

(* ---------- CompactSize (wire.WriteVarInt / ReadVarInt; wire is a dependency) ---------- *)
Definition write_varint (v : N) : list N :=
  if v <? 0xfd then [v]
  else if v <=? 0xffff then 0xfd :: le_bytes 2 v
  else if v <=? 0xffffffff then 0xfe :: le_bytes 4 v
  else 0xff :: le_bytes 8 v.

Definition read_le (n : nat) (minv : N) (l : list N) : res (N * list N) :=
  if (length l <? n)%nat then Err 3
  else let v := le_value (firstn n l) in
       if v <? minv then Err 4 else Ok (v, skipn n l).

Definition read_varint (l : list N) : res (N * list N) :=
  match l with
  | [] => Err 3
  | d :: t =>
      if d =? 0xff then read_le 8 0x100000000 t
      else if d =? 0xfe then read_le 4 0x10000 t
      else if d =? 0xfd then read_le 2 0xfd t
      else Ok (d, t)
  end.

(* ---------- serialisations ---------- *)
Definition filter_bytes (f : filter) : list N := f_data f.
Definition filter_nbytes (f : filter) : list N := write_varint (f_n f) ++ f_data f.
Definition filter_pbytes (f : filter) : list N := f_p f :: f_data f.
Definition filter_npbytes (f : filter) : list N := write_varint (f_n f) ++ f_p f :: f_data f.

Definition from_bytes (n P M : N) (d : list N) : res filter :=
  if frombytes_pmax <? P then Err 2
  else Ok (mkFilter n P (w64 (n * M)) d).

Definition from_nbytes (P M : N) (d : list N) : res filter :=
  do (n, rest) <- read_varint d ;;
  if N.shiftl fromn_nbase fromn_nbits <=? n then Err 1
  else from_bytes n P M rest.           (* uint32(N) = N below 2^32 *)

Section WithDeps.
  Variable hash : list N -> list N -> N.      (* siphash.Sum64(data, &key) *)
  Variable sort : list N -> list N.           (* sort.Slice(values, <) *)

  (* BuildGCSFilter *)
  Definition build (P M : N) (key : list N) (data : list (list N)) : res filter :=
    let len := N.of_nat (length data) in
    if N.shiftl build_nbase build_nbits <=? len then Err 1
    else if build_pmax <? P then Err 2
    else
      let n := len in
      let modnp := w64 (n * M) in
      if n =? build_empty then Ok (mkFilter n P modnp [])
      else
        let nphi := N.shiftr modnp build_hshift in
        let nplo := lo32 modnp in
        let values := sort (map (fun d => fast_reduction (hash key d) nphi nplo) data) in
        Ok (mkFilter n P modnp (pack (encode P 0 values))).

  Definition gmatch (f : filter) (key d : list N) : res bool :=
    match_loop (fuel_of f) (f_p f) (f_n f - match_i0) (bits_of_bytes (f_data f)) 0
               (reduce_with match_hshift f (hash key d)).

  Definition zip_match_any (f : filter) (key : list N) (data : list (list N)) : res bool :=
    match data with
    | [] => Ok false
    | _ =>
        let values := sort (map (fun d => reduce_with zip_hshift f (hash key d)) data) in
        zip_loop (fuel_of f) (f_p f) (f_n f - zip_i0) (bits_of_bytes (f_data f)) 0 values
    end.

  Definition hash_match_any (f : filter) (key : list N) (data : list (list N)) : res bool :=
    match data with
    | [] => Ok false
    | _ =>
        do values <- decode_all (fuel_of f) (f_p f) (bits_of_bytes (f_data f)) 0 ;;
        Ok (existsb (fun d => mem (reduce_with hash_hshift f (hash key d)) values) data)
    end.

  Definition match_any (f : filter) (key : list N) (data : list (list N)) : res bool :=
    if f_n f / any_div <=? N.of_nat (length data) then hash_match_any f key data
    else zip_match_any f key data.
End WithDeps.

(* The query loops of gcs.go on a stream written by the encoder: each loop is
   characterised by membership in the list of encoded values. *)
From BU Require Import Lib.Bytes Gcs.SipHash Gcs.Gcs Gcs.GcsProofs Gcs.GcsBitsProofs.
From Coq Require Import ZifyBool ZifyN ZifyNat Sorting.Sorted Sorting.Permutation.

(* ---------- membership helpers ---------- *)
Lemma mem_true_iff v l : mem v l = true <-> In v l.
Proof.
  unfold mem. rewrite existsb_exists. split.
  - intros (x & Hin & E). apply N.eqb_eq in E. subst. exact Hin.
  - intros H. exists v. split; [exact H | apply N.eqb_refl].
Qed.

Lemma mem_false_iff v l : mem v l = false <-> ~ In v l.
Proof. rewrite <- mem_true_iff. destruct (mem v l); split; congruence. Qed.

Lemma mem_cons v x l : mem v (x :: l) = (v =? x) || mem v l.
Proof. reflexivity. Qed.

Lemma mem_app v a b : mem v (a ++ b) = mem v a || mem v b.
Proof. unfold mem. apply existsb_app. Qed.

Lemma existsb_perm {A} (f : A -> bool) l l' : Permutation l l' -> existsb f l = existsb f l'.
Proof.
  induction 1; cbn [existsb]; try congruence.
  - rewrite !orb_assoc. f_equal. apply orb_comm.
Qed.

Lemma mem_perm v l l' : Permutation l l' -> mem v l = mem v l'.
Proof. apply existsb_perm. Qed.

Lemma existsb_ext_in {A} (f g : A -> bool) l : (forall x, In x l -> f x = g x) -> existsb f l = existsb g l.
Proof.
  induction l as [|x t IH]; intros H; [reflexivity|]. cbn [existsb].
  rewrite H by (left; reflexivity). rewrite IH; [reflexivity|]. intros y Hy. apply H. right. exact Hy.
Qed.

Lemma existsb_false_all {A} (f : A -> bool) l : (forall x, In x l -> f x = false) -> existsb f l = false.
Proof.
  induction l as [|x t IH]; intros H; [reflexivity|]. cbn [existsb].
  rewrite H by (left; reflexivity). cbn [orb]. apply IH. intros y Hy. apply H. right. exact Hy.
Qed.

(* ---------- chains ---------- *)
Lemma chain_lower last vals : chain last vals -> Forall (fun v => last <= v) vals.
Proof.
  revert last. induction vals as [|v t IH]; intros last H; constructor.
  - apply H.
  - destruct H as (Hle & _ & Hc). specialize (IH v Hc).
    eapply Forall_impl; [|exact IH]. cbn. intros. lia.
Qed.

Lemma chain_lt64 last vals : chain last vals -> Forall (fun v => v < two64) vals.
Proof.
  revert last. induction vals as [|v t IH]; intros last H; constructor.
  - apply H.
  - destruct H as (_ & _ & Hc). exact (IH v Hc).
Qed.

Lemma chain_not_below last vals term : chain last vals -> term < last -> mem term vals = false.
Proof.
  intros Hc Hlt. apply mem_false_iff. intros Hin.
  pose proof (chain_lower _ _ Hc) as Hf. rewrite Forall_forall in Hf. specialize (Hf _ Hin). lia.
Qed.

Lemma sorted_chain vals :
  Sorted N.le vals -> Forall (fun v => v < two64) vals -> chain 0 vals.
Proof.
  intros Hs Hf. apply Sorted_StronglySorted in Hs; [| intros x y z; apply N.le_trans].
  assert (G : forall last, Forall (fun v => last <= v) vals -> chain last vals).
  { induction Hs as [|v t Hs IH Hall]; intros last Hl; cbn [chain]; [exact I|].
    inversion Hf; subst. inversion Hl; subst. repeat split; try assumption.
    apply IH; assumption. }
  apply G. apply Forall_forall. intros. lia.
Qed.

Lemma delta_bits_nonempty P last v : (1 <= length (delta_bits P last v))%nat.
Proof. unfold delta_bits. rewrite app_length. cbn [length]. lia. Qed.

(* ---------- Match ---------- *)
Lemma match_loop_spec P term : P <= 32 ->
  forall vals fuel last rest left,
    chain last vals -> left = N.of_nat (length vals) ->
    (length (encode P last vals ++ rest) < fuel)%nat -> last < two64 ->
    match_loop fuel P left (encode P last vals ++ rest) last term = Ok (mem term vals).
Proof.
  intros HP. induction vals as [|v t IH]; intros fuel last rest left Hc Hleft Hfuel Hlast.
  - destruct fuel as [|k]; [lia|]. subst left. reflexivity.
  - destruct fuel as [|k]; [lia|]. destruct Hc as (Hle & Hlt & Hc).
    cbn [match_loop]. subst left. cbn [length].
    destruct (N.eqb_spec (N.of_nat (S (length t))) 0) as [E|_]; [lia|].
    cbn [encode] in *. rewrite <- app_assoc in *. rewrite read_full_delta by assumption.
    assert (Ev : w64 (last + (v - last)) = v).
    { unfold w64. replace (last + (v - last)) with v by lia. apply N.mod_small. exact Hlt. }
    rewrite Ev. rewrite mem_cons. rewrite (N.eqb_sym term v).
    destruct (N.eqb_spec v term) as [E|NE]; [reflexivity|].
    destruct (N.ltb_spec term v) as [Hlt'|Hge].
    + cbn [orb]. rewrite (chain_not_below v t term Hc Hlt'). reflexivity.
    + cbn [orb]. apply IH; try assumption; [lia|].
      pose proof (delta_bits_nonempty P last v). rewrite app_length in Hfuel. lia.
Qed.

(* ---------- ZipMatchAny ---------- *)
Definition any_in (qs vals : list N) : bool := existsb (fun q => mem q vals) qs.

Lemma zip_inner_spec v qs : StronglySorted N.le qs ->
  match zip_inner qs v with
  | ZDone true => In v qs
  | ZDone false => Forall (fun q => q < v) qs
  | ZNext qs' => exists pre, qs = pre ++ qs' /\ Forall (fun q => q < v) pre /\
                            Forall (fun q => v < q) qs' /\ StronglySorted N.le qs'
  end.
Proof.
  induction 1 as [|q t Hs IH Hall]; cbn [zip_inner]; [constructor|].
  destruct (N.eqb_spec q v) as [E|NE]; [left; exact E|].
  destruct (N.ltb_spec v q) as [Hlt|Hge].
  - exists []. repeat split; [constructor | | constructor; assumption].
    constructor; [exact Hlt|]. eapply Forall_impl; [|exact Hall]. cbn. intros. lia.
  - destruct (zip_inner t v) as [[|]|qs'].
    + right. exact IH.
    + constructor; [lia | exact IH].
    + destruct IH as (pre & E & Hpre & Hpost & Hs'). exists (q :: pre). subst t.
      repeat split; try assumption. constructor; [lia | exact Hpre].
Qed.

Lemma any_in_below qs vals v :
  Forall (fun q => q < v) qs -> Forall (fun x => v <= x) vals -> any_in qs vals = false.
Proof.
  intros Hq Hv. apply existsb_false_all. intros q Hin. apply mem_false_iff. intros Hin'.
  rewrite Forall_forall in Hq, Hv. specialize (Hq _ Hin). specialize (Hv _ Hin'). lia.
Qed.

Lemma any_in_skip qs v t : Forall (fun q => v < q) qs -> any_in qs (v :: t) = any_in qs t.
Proof.
  intros Hq. apply existsb_ext_in. intros q Hin. rewrite mem_cons.
  rewrite Forall_forall in Hq. specialize (Hq _ Hin).
  destruct (N.eqb_spec q v); [lia | reflexivity].
Qed.

Lemma zip_loop_spec P : P <= 32 ->
  forall vals fuel last rest left qs,
    chain last vals -> left = N.of_nat (length vals) ->
    (length (encode P last vals ++ rest) < fuel)%nat -> last < two64 ->
    StronglySorted N.le qs ->
    zip_loop fuel P left (encode P last vals ++ rest) last qs = Ok (any_in qs vals).
Proof.
  intros HP. induction vals as [|v t IH]; intros fuel last rest left qs Hc Hleft Hfuel Hlast Hqs.
  - destruct fuel as [|k]; [lia|]. subst left. cbn [zip_loop length N.of_nat N.eqb].
    f_equal. symmetry. apply existsb_false_all. intros. reflexivity.
  - destruct fuel as [|k]; [lia|]. pose proof Hc as Hc0. destruct Hc as (Hle & Hlt & Hc).
    cbn [zip_loop]. subst left. cbn [length].
    destruct (N.eqb_spec (N.of_nat (S (length t))) 0) as [E|_]; [lia|].
    cbn [encode] in *. rewrite <- app_assoc in *. rewrite read_full_delta by assumption.
    assert (Ev : w64 (last + (v - last)) = v).
    { unfold w64. replace (last + (v - last)) with v by lia. apply N.mod_small. exact Hlt. }
    rewrite Ev.
    pose proof (zip_inner_spec v qs Hqs) as Hin.
    assert (Hvt : Forall (fun x => v <= x) (v :: t)).
    { constructor; [lia | exact (chain_lower v t Hc)]. }
    destruct (zip_inner qs v) as [[|]|qs'].
    + f_equal. symmetry. apply existsb_exists. exists v. split; [exact Hin|].
      rewrite mem_cons, N.eqb_refl. reflexivity.
    + f_equal. symmetry. exact (any_in_below qs (v :: t) v Hin Hvt).
    + destruct Hin as (pre & E & Hpre & Hpost & Hs'). subst qs.
      rewrite IH; try assumption.
      * f_equal. unfold any_in at 2. rewrite existsb_app.
        fold (any_in pre (v :: t)). fold (any_in qs' (v :: t)).
        rewrite (any_in_below pre (v :: t) v Hpre Hvt). rewrite any_in_skip by assumption. reflexivity.
      * lia.
      * pose proof (delta_bits_nonempty P last v). rewrite app_length in Hfuel. lia.
Qed.

(* The query loops of gcs.go on a stream written by the encoder: each loop is
   characterised by membership in the list of encoded values. *)
From BU Require Import Lib.Bytes Gcs.SipHash Gcs.Gcs Gcs.GcsProofs Gcs.GcsBitsProofs.
From Coq Require Import ZifyBool ZifyN ZifyNat Sorting.Sorted Sorting.Permutation.

(* ---------- membership helpers ---------- *)
Lemma mem_true_iff v l : mem v l = true <-> In v l.
Proof.
  unfold mem. rewrite existsb_exists. split.
  - intros (x & Hin & E). apply N.eqb_eq in E. subst. exact Hin.
  - intros H. exists v. split; [exact H | apply N.eqb_refl].
Qed.

Lemma mem_false_iff v l : mem v l = false <-> ~ In v l.
Proof. rewrite <- mem_true_iff. destruct (mem v l); split; congruence. Qed.

Lemma mem_cons v x l : mem v (x :: l) = (v =? x) || mem v l.
Proof. reflexivity. Qed.

Lemma mem_app v a b : mem v (a ++ b) = mem v a || mem v b.
Proof. unfold mem. apply existsb_app. Qed.

Lemma existsb_perm {A} (f : A -> bool) l l' : Permutation l l' -> existsb f l = existsb f l'.
Proof.
  induction 1; cbn [existsb]; try congruence.
  - rewrite !orb_assoc. f_equal. apply orb_comm.
Qed.

Lemma mem_perm v l l' : Permutation l l' -> mem v l = mem v l'.
Proof. apply existsb_perm. Qed.

Lemma existsb_ext_in {A} (f g : A -> bool) l : (forall x, In x l -> f x = g x) -> existsb f l = existsb g l.
Proof.
  induction l as [|x t IH]; intros H; [reflexivity|]. cbn [existsb].
  rewrite H by (left; reflexivity). rewrite IH; [reflexivity|]. intros y Hy. apply H. right. exact Hy.
Qed.

Lemma existsb_false_all {A} (f : A -> bool) l : (forall x, In x l -> f x = false) -> existsb f l = false.
Proof.
  induction l as [|x t IH]; intros H; [reflexivity|]. cbn [existsb].
  rewrite H by (left; reflexivity). cbn [orb]. apply IH. intros y Hy. apply H. right. exact Hy.
Qed.

(* ---------- chains ---------- *)
Lemma chain_lower last vals : chain last vals -> Forall (fun v => last <= v) vals.
Proof.
  revert last. induction vals as [|v t IH]; intros last H; constructor.
  - apply H.
  - destruct H as (Hle & _ & Hc). specialize (IH v Hc).
    eapply Forall_impl; [|exact IH]. cbn. intros. lia.
Qed.

Lemma chain_lt64 last vals : chain last vals -> Forall (fun v => v < two64) vals.
Proof.
  revert last. induction vals as [|v t IH]; intros last H; constructor.
  - apply H.
  - destruct H as (_ & _ & Hc). exact (IH v Hc).
Qed.

Lemma chain_not_below last vals term : chain last vals -> term < last -> mem term vals = false.
Proof.
  intros Hc Hlt. apply mem_false_iff. intros Hin.
  pose proof (chain_lower _ _ Hc) as Hf. rewrite Forall_forall in Hf. specialize (Hf _ Hin). lia.
Qed.

Lemma sorted_chain vals :
  Sorted N.le vals -> Forall (fun v => v < two64) vals -> chain 0 vals.
Proof.
  intros Hs Hf. apply Sorted_StronglySorted in Hs; [| intros x y z; apply N.le_trans].
  assert (G : forall last, Forall (fun v => last <= v) vals -> chain last vals).
  { induction Hs as [|v t Hs IH Hall]; intros last Hl; cbn [chain]; [exact I|].
    inversion Hf; subst. inversion Hl; subst. repeat split; try assumption.
    apply IH; assumption. }
  apply G. apply Forall_forall. intros. lia.
Qed.

Lemma delta_bits_nonempty P last v : (1 <= length (delta_bits P last v))%nat.
Proof. unfold delta_bits. rewrite app_length. cbn [length]. lia. Qed.

(* ---------- Match ---------- *)
Lemma match_loop_spec P term : P <= 32 ->
  forall vals fuel last rest left,
    chain last vals -> left = N.of_nat (length vals) ->
    (length (encode P last vals ++ rest) < fuel)%nat -> last < two64 ->
    match_loop fuel P left (encode P last vals ++ rest) last term = Ok (mem term vals).
Proof.
  intros HP. induction vals as [|v t IH]; intros fuel last rest left Hc Hleft Hfuel Hlast.
  - destruct fuel as [|k]; [lia|]. subst left. reflexivity.
  - destruct fuel as [|k]; [lia|]. destruct Hc as (Hle & Hlt & Hc).
    cbn [match_loop]. subst left. cbn [length].
    destruct (N.eqb_spec (N.of_nat (S (length t))) 0) as [E|_]; [lia|].
    cbn [encode] in *. rewrite <- app_assoc in *. rewrite read_full_delta by assumption.
    assert (Ev : w64 (last + (v - last)) = v).
    { unfold w64. replace (last + (v - last)) with v by lia. apply N.mod_small. exact Hlt. }
    rewrite Ev. rewrite mem_cons. rewrite (N.eqb_sym term v).
    destruct (N.eqb_spec v term) as [E|NE]; [reflexivity|].
    destruct (N.ltb_spec term v) as [Hlt'|Hge].
    + cbn [orb]. rewrite (chain_not_below v t term Hc Hlt'). reflexivity.
    + cbn [orb]. apply IH; try assumption; [lia|].
      pose proof (delta_bits_nonempty P last v). rewrite app_length in Hfuel. lia.
Qed.

(* ---------- ZipMatchAny ---------- *)
Definition any_in (qs vals : list N) : bool := existsb (fun q => mem q vals) qs.

Lemma zip_inner_spec v qs : StronglySorted N.le qs ->
  match zip_inner qs v with
  | ZDone true => In v qs
  | ZDone false => Forall (fun q => q < v) qs
  | ZNext qs' => exists pre, qs = pre ++ qs' /\ Forall (fun q => q < v) pre /\
                            Forall (fun q => v < q) qs' /\ StronglySorted N.le qs'
  end.
Proof.
  induction 1 as [|q t Hs IH Hall]; cbn [zip_inner]; [constructor|].
  destruct (N.eqb_spec q v) as [E|NE]; [left; exact E|].
  destruct (N.ltb_spec v q) as [Hlt|Hge].
  - exists []. repeat split; [constructor | | constructor; assumption].
    constructor; [exact Hlt|]. eapply Forall_impl; [|exact Hall]. cbn. intros. lia.
  - destruct (zip_inner t v) as [[|]|qs'].
    + right. exact IH.
    + constructor; [lia | exact IH].
    + destruct IH as (pre & E & Hpre & Hpost & Hs'). exists (q :: pre). subst t.
      repeat split; try assumption. constructor; [lia | exact Hpre].
Qed.

Lemma any_in_below qs vals v :
  Forall (fun q => q < v) qs -> Forall (fun x => v <= x) vals -> any_in qs vals = false.
Proof.
  intros Hq Hv. apply existsb_false_all. intros q Hin. apply mem_false_iff. intros Hin'.
  rewrite Forall_forall in Hq, Hv. specialize (Hq _ Hin). specialize (Hv _ Hin'). lia.
Qed.

Lemma any_in_skip qs v t : Forall (fun q => v < q) qs -> any_in qs (v :: t) = any_in qs t.
Proof.
  intros Hq. apply existsb_ext_in. intros q Hin. rewrite mem_cons.
  rewrite Forall_forall in Hq. specialize (Hq _ Hin).
  destruct (N.eqb_spec q v); [lia | reflexivity].
Qed.

Lemma zip_loop_spec P : P <= 32 ->
  forall vals fuel last rest left qs,
    chain last vals -> left = N.of_nat (length vals) ->
    (length (encode P last vals ++ rest) < fuel)%nat -> last < two64 ->
    StronglySorted N.le qs ->
    zip_loop fuel P left (encode P last vals ++ rest) last qs = Ok (any_in qs vals).
Proof.
  intros HP. induction vals as [|v t IH]; intros fuel last rest left qs Hc Hleft Hfuel Hlast Hqs.
  - destruct fuel as [|k]; [lia|]. subst left. cbn [zip_loop length N.of_nat N.eqb].
    f_equal. symmetry. apply existsb_false_all. intros. reflexivity.
  - destruct fuel as [|k]; [lia|]. pose proof Hc as Hc0. destruct Hc as (Hle & Hlt & Hc).
    cbn [zip_loop]. subst left. cbn [length].
    destruct (N.eqb_spec (N.of_nat (S (length t))) 0) as [E|_]; [lia|].
    cbn [encode] in *. rewrite <- app_assoc in *. rewrite read_full_delta by assumption.
    assert (Ev : w64 (last + (v - last)) = v).
    { unfold w64. replace (last + (v - last)) with v by lia. apply N.mod_small. exact Hlt. }
    rewrite Ev.
    pose proof (zip_inner_spec v qs Hqs) as Hin.
    assert (Hvt : Forall (fun x => v <= x) (v :: t)).
    { constructor; [lia | exact (chain_lower v t Hc)]. }
    destruct (zip_inner qs v) as [[|]|qs'].
    + f_equal. symmetry. apply existsb_exists. exists v. split; [exact Hin|].
      rewrite mem_cons, N.eqb_refl. reflexivity.
    + f_equal. symmetry. exact (any_in_below qs (v :: t) v Hin Hvt).
    + destruct Hin as (pre & E & Hpre & Hpost & Hs'). subst qs.
      rewrite IH; try assumption.
      * f_equal. unfold any_in at 2. rewrite existsb_app.
        fold (any_in pre (v :: t)). fold (any_in qs' (v :: t)).
        rewrite (any_in_below pre (v :: t) v Hpre Hvt). rewrite any_in_skip by assumption. reflexivity.
      * lia.
      * pose proof (delta_bits_nonempty P last v). rewrite app_length in Hfuel. lia.
Qed.

(* ---------- HashMatchAny: decode until EOF ---------- *)
Lemma decode_all_fuel P : forall f1 f2 bs last,
  (length bs < f1)%nat -> (length bs < f2)%nat -> decode_all f1 P bs last = decode_all f2 P bs last.
Proof.
  induction f1 as [|k1 IH]; intros f2 bs last H1 H2; [lia|].
  destruct f2 as [|k2]; [lia|]. cbn [decode_all].
  destruct (read_full P bs) as [[d bs']|] eqn:E; [|reflexivity].
  apply read_full_consumes in E. rewrite (IH k2) by lia. reflexivity.
Qed.

Lemma decode_all_ok P : forall fuel bs last, (length bs < fuel)%nat -> exists vs, decode_all fuel P bs last = Ok vs.
Proof.
  induction fuel as [|k IH]; intros bs last H; [lia|]. cbn [decode_all].
  destruct (read_full P bs) as [[d bs']|] eqn:E; [|eexists; reflexivity].
  apply read_full_consumes in E. destruct (IH bs' (w64 (last + d)) ltac:(lia)) as [vs ->].
  eexists. reflexivity.
Qed.

Definition last_of (last : N) (vals : list N) : N := List.last vals last.

Lemma last_default_irrel {A} (x : A) l d d' : List.last (x :: l) d = List.last (x :: l) d'.
Proof. revert x. induction l as [|y l IH]; intros x; [reflexivity|]. exact (IH y). Qed.

Lemma last_of_cons last v t : last_of last (v :: t) = last_of v t.
Proof.
  unfold last_of. destruct t as [|w t]; [reflexivity|].
  change (List.last (v :: w :: t) last) with (List.last (w :: t) last). apply last_default_irrel.
Qed.

Lemma decode_all_encode P : P <= 32 ->
  forall vals fuel last rest,
    chain last vals -> (length (encode P last vals ++ rest) < fuel)%nat ->
    decode_all fuel P (encode P last vals ++ rest) last =
      do r <- decode_all (S (length rest)) P rest (last_of last vals) ;; Ok (vals ++ r).
Proof.
  intros HP. induction vals as [|v t IH]; intros fuel last rest Hc Hfuel.
  - cbn [encode app last_of List.last] in *.
    rewrite (decode_all_fuel P fuel (S (length rest))) by lia.
    destruct (decode_all (S (length rest)) P rest last); reflexivity.
  - destruct fuel as [|k]; [lia|]. destruct Hc as (Hle & Hlt & Hc).
    rewrite last_of_cons. remember (decode_all (S (length rest)) P rest (last_of v t)) as R eqn:HR.
    cbn [decode_all encode] in *. rewrite <- app_assoc in *. rewrite read_full_delta by assumption.
    assert (Ev : w64 (last + (v - last)) = v).
    { unfold w64. replace (last + (v - last)) with v by lia. apply N.mod_small. exact Hlt. }
    rewrite Ev. rewrite IH; try assumption.
    + rewrite <- HR. destruct R; reflexivity.
    + pose proof (delta_bits_nonempty P last v). rewrite app_length in Hfuel. lia.
Qed.

(* the zero pad bits decode only to repeats of the last value *)
Lemma value_be_zeros n : value_be (repeat false n) 0 = 0.
Proof. induction n; cbn [repeat value_be]; auto. Qed.

Lemma firstn_repeat {A} (x : A) n m : (n <= m)%nat -> firstn n (repeat x m) = repeat x n.
Proof.
  revert m. induction n; intros m H; [reflexivity|]. destruct m; [lia|].
  cbn [repeat firstn]. f_equal. apply IHn. lia.
Qed.

Lemma skipn_repeat {A} (x : A) n m : skipn n (repeat x m) = repeat x (m - n).
Proof.
  revert m. induction n; intros m; [rewrite Nat.sub_0_r; reflexivity|]. destruct m; [reflexivity|].
  cbn [repeat skipn Nat.sub]. apply IHn.
Qed.

Lemma read_full_zeros P k :
  read_full P (repeat false k) =
    if (k <? S (N.to_nat P))%nat then None else Some (0, repeat false (k - S (N.to_nat P))).
Proof.
  unfold read_full. destruct k as [|k].
  - reflexivity.
  - cbn [repeat read_unary]. unfold read_bits. rewrite repeat_length.
    change (S k <? S (N.to_nat P))%nat with (k <? N.to_nat P)%nat.
    destruct (Nat.ltb_spec k (N.to_nat P)) as [Hlt|Hge]; [reflexivity|].
    rewrite firstn_repeat by lia. rewrite skipn_repeat, value_be_zeros.
    rewrite N.shiftl_0_l. reflexivity.
Qed.

Lemma decode_all_pad P last : last < two64 ->
  forall fuel k, (k < fuel)%nat -> exists j, decode_all fuel P (repeat false k) last = Ok (repeat last j).
Proof.
  intros Hl. induction fuel as [|f IH]; intros k Hk; [lia|].
  cbn [decode_all]. rewrite read_full_zeros.
  destruct (k <? S (N.to_nat P))%nat eqn:E.
  - exists 0%nat. reflexivity.
  - apply Nat.ltb_ge in E.
    assert (Ev : w64 (last + 0) = last) by (rewrite N.add_0_r; apply N.mod_small; exact Hl).
    rewrite Ev. destruct (IH (k - S (N.to_nat P))%nat ltac:(lia)) as [j ->].
    exists (S j). reflexivity.
Qed.

Lemma last_of_in last v t : In (last_of last (v :: t)) (v :: t).
Proof.
  unfold last_of. revert v. induction t as [|w t IH]; intros v; [left; reflexivity|].
  right. exact (IH w).
Qed.

Lemma last_of_lt64 last vals : last < two64 -> chain last vals -> last_of last vals < two64.
Proof.
  intros Hl Hc. destruct vals as [|v t]; [exact Hl|].
  pose proof (chain_lt64 _ _ Hc) as Hf. rewrite Forall_forall in Hf. apply Hf. apply last_of_in.
Qed.

(* decoding a written stream followed by at most-anything zero padding: same set of values *)
Lemma decode_all_built P vals k fuel :
  P <= 32 -> chain 0 vals -> vals <> [] -> (length (encode P 0 vals ++ repeat false k) < fuel)%nat ->
  exists vs, decode_all fuel P (encode P 0 vals ++ repeat false k) 0 = Ok vs /\
             forall x, mem x vs = mem x vals.
Proof.
  intros HP Hc Hne Hfuel. rewrite decode_all_encode by assumption.
  assert (Hl : last_of 0 vals < two64) by (apply last_of_lt64; [reflexivity | exact Hc]).
  destruct (decode_all_pad P (last_of 0 vals) Hl (S (length (repeat false k))) k) as [j ->].
  { rewrite repeat_length. lia. }
  cbn [rbind]. eexists. split; [reflexivity|].
  intros x. rewrite mem_app. destruct vals as [|v t]; [congruence|].
  assert (Hin : In (last_of 0 (v :: t)) (v :: t)) by apply last_of_in.
  destruct (mem x (repeat (last_of 0 (v :: t)) j)) eqn:E; [|rewrite orb_false_r; reflexivity].
  apply mem_true_iff in E. apply repeat_spec in E. subst x.
  rewrite orb_true_r. symmetry. apply mem_true_iff. exact Hin.
Qed.

(* github.com/kkdai/bstream v1.0.0 as the byte/offset machine it is, so that the
   bit-list view used by Gcs.v can be compared with (and proved equal to) it.

   Reader state: (stream, rCount) — rCount = number of bits still unread in the
   first byte of stream.  Writer state: (reversed stream, wCount) — wCount =
   number of bits still empty in the last byte.  EOF is [None]. *)
From BU Require Import Lib.Bytes Gcs.SipHash Gcs.Gcs.

Definition rstate : Type := (list N * N)%type.

Definition new_reader (data : list N) : rstate := (data, 8).

(* the common prologue of ReadBit and ReadByte *)
Definition r_advance (s : rstate) : option rstate :=
  let '(st, rc) := s in
  match st with
  | [] => None                                   (* len(b.stream) == 0 *)
  | _ :: t =>
      if rc =? 0 then
        match t with [] => None | _ => Some (t, 8) end
      else Some (st, rc)
  end.

Definition bs_read_bit (s : rstate) : option (bool * rstate) :=
  match r_advance s with
  | None => None
  | Some (st, rc) =>
      match st with
      | [] => None
      | b :: _ => Some (negb (N.land b (N.shiftl 1 (rc - 1)) =? 0), (st, rc - 1))
      end
  end.

Definition bs_read_byte (s : rstate) : option (N * rstate) :=
  match r_advance s with
  | None => None
  | Some (st, rc) =>
      match st with
      | [] => None
      | b :: t =>
          if rc =? 8 then Some (b, (t, rc))
          else
            let ret := N.shiftl b (8 - rc) mod 256 in
            match t with
            | [] => None                          (* cannot finish on the next byte *)
            | b2 :: _ => Some (N.lor ret (N.shiftr b2 rc), (t, rc))
            end
      end
  end.

Fixpoint bs_read_bytes (k : nat) (s : rstate) (acc : N) : option (N * rstate) :=
  match k with
  | O => Some (acc, s)
  | S k' =>
      match bs_read_byte s with
      | None => None
      | Some (b, s') => bs_read_bytes k' s' (N.lor (w64 (N.shiftl acc 8)) b)
      end
  end.

Fixpoint bs_read_bitsn (k : nat) (s : rstate) (acc : N) : option (N * rstate) :=
  match k with
  | O => Some (acc, s)
  | S k' =>
      match bs_read_bit s with
      | None => None
      | Some (b, s') => bs_read_bitsn k' s' (N.lor (w64 (N.shiftl acc 1)) (N.b2n b))
      end
  end.

(* ReadBits(count): whole bytes while count >= 8, then single bits *)
Definition bs_read_bits (count : N) (s : rstate) : option (N * rstate) :=
  match bs_read_bytes (N.to_nat (count / 8)) s 0 with
  | None => None
  | Some (acc, s') => bs_read_bitsn (N.to_nat (count mod 8)) s' acc
  end.

Fixpoint bs_read_unary (fuel : nat) (s : rstate) (q : N) : option (N * rstate) :=
  match fuel with
  | O => None
  | S k =>
      match bs_read_bit s with
      | None => None
      | Some (true, s') => bs_read_unary k s' (w64 (q + 1))
      | Some (false, s') => Some (q, s')
      end
  end.

Definition bs_bits_left (s : rstate) : nat := (8 * length (fst s))%nat.

Definition bs_read_full (P : N) (s : rstate) : option (N * rstate) :=
  match bs_read_unary (S (bs_bits_left s)) s 0 with
  | None => None
  | Some (q, s1) =>
      match bs_read_bits P s1 with
      | None => None
      | Some (r, s2) => Some (w64 (w64 (N.shiftl q P) + r), s2)
      end
  end.

Fixpoint bs_decode_all (fuel : nat) (P : N) (s : rstate) (last : N) : res (list N) :=
  match fuel with
  | O => Panic 9
  | S k =>
      match bs_read_full P s with
      | None => Ok []
      | Some (delta, s') =>
          let v := w64 (last + delta) in
          do rest <- bs_decode_all k P s' v ;; Ok (v :: rest)
      end
  end.

(* model-internal agreement test used by the run driver *)
Definition stream_agree (P : N) (bytes : list N) : bool :=
  let fuel := S (8 * length bytes) in
  match decode_all fuel P (bits_of_bytes bytes) 0, bs_decode_all fuel P (new_reader bytes) 0 with
  | Ok a, Ok b => list_eqb a b
  | _, _ => false
  end.

(* ---------- writer ---------- *)
Definition wstate : Type := (list N * N)%type.        (* reversed stream, wCount *)

Definition new_writer : wstate := ([], 0).

Definition bs_write_bit (s : wstate) (input : bool) : wstate :=
  let '(rs, wc) := s in
  let '(rs, wc) := if wc =? 0 then (0 :: rs, 8) else (rs, wc) in
  match rs with
  | [] => (rs, wc)                                     (* unreachable: stream is non-empty here *)
  | lastb :: pre =>
      ((if input then N.lor lastb (N.shiftl 1 (wc - 1)) else lastb) :: pre, wc - 1)
  end.

Definition bs_write_byte (s : wstate) (data : N) : wstate :=
  let '(rs, wc) := s in
  if wc =? 0 then (data :: rs, wc)
  else
    match rs with
    | [] => (rs, wc)
    | lastb :: pre =>
        ((N.shiftl data wc mod 256) :: N.lor lastb (N.shiftr data (8 - wc)) :: pre, wc)
    end.

Fixpoint bs_write_bytes (k : nat) (s : wstate) (data : N) : wstate * N :=
  match k with
  | O => (s, data)
  | S k' => bs_write_bytes k' (bs_write_byte s (N.shiftr data 56)) (w64 (N.shiftl data 8))
  end.

Fixpoint bs_write_bitsn (k : nat) (s : wstate) (data : N) : wstate :=
  match k with
  | O => s
  | S k' => bs_write_bitsn k' (bs_write_bit s (N.shiftr data 63 =? 1)) (w64 (N.shiftl data 1))
  end.

(* WriteBits(data, count) *)
Definition bs_write_bits (s : wstate) (data count : N) : wstate :=
  let data := w64 (N.shiftl data (64 - count)) in
  let '(s', data') := bs_write_bytes (N.to_nat (count / 8)) s data in
  bs_write_bitsn (N.to_nat (count mod 8)) s' data'.

Fixpoint bs_write_ones (k : nat) (s : wstate) : wstate :=
  match k with O => s | S k' => bs_write_ones k' (bs_write_bit s true) end.

Fixpoint bs_encode (P last : N) (vals : list N) (s : wstate) : wstate :=
  match vals with
  | [] => s
  | v :: t =>
      let d := sub64 v last in
      let remainder := N.land d (sub64 (w64 (N.shiftl 1 P)) 1) in
      let value := N.shiftr (sub64 d remainder) P in
      let s := bs_write_ones (N.to_nat value) s in
      let s := bs_write_bit s false in
      bs_encode P v t (bs_write_bits s remainder P)
  end.

Definition bs_bytes (s : wstate) : list N := rev (fst s).

Definition writer_agree (P : N) (vals : list N) : bool :=
  list_eqb (bs_bytes (bs_encode P 0 vals new_writer)) (pack (encode P 0 vals)).

(* The bit-list reader used by Gcs.v equals the byte/offset machine of
   github.com/kkdai/bstream (BStream.v), EOF rules included: ReadBit, ReadByte,
   ReadBits, the unary run, one Golomb-Rice code and the decode-until-EOF loop. *)
From BU Require Import Lib.Bytes Gcs.SipHash Gcs.Gcs Gcs.GcsProofs Gcs.GcsBitsProofs Gcs.BStream.
From Coq Require Import ZifyBool ZifyN ZifyNat.

(* the bits a reader state still has to deliver *)
Definition bits_of_state (s : rstate) : list bool :=
  match fst s with
  | [] => []
  | b :: t => bits_be (N.to_nat (snd s)) b ++ bits_of_bytes t
  end.

Definition wf (s : rstate) : Prop := snd s <= 8 /\ Bytes (fst s).

Lemma bits_of_new_reader data : bits_of_state (new_reader data) = bits_of_bytes data.
Proof. destruct data; reflexivity. Qed.

Lemma bits_of_state_full t : bits_of_state (t, 8) = bits_of_bytes t.
Proof. destruct t; reflexivity. Qed.

Lemma testbit_land_pow2 b k : negb (N.land b (N.shiftl 1 k) =? 0) = N.testbit b k.
Proof.
  rewrite N.shiftl_1_l. destruct (N.testbit b k) eqn:E.
  - destruct (N.eqb_spec (N.land b (2 ^ k)) 0) as [H|]; [|reflexivity].
    assert (T : N.testbit (N.land b (2 ^ k)) k = true) by (rewrite N.land_spec, E, N.pow2_bits_true; reflexivity).
    rewrite H, N.bits_0 in T. discriminate.
  - assert (H : N.land b (2 ^ k) = 0).
    { apply N.bits_inj. intros m. rewrite N.land_spec, N.bits_0, N.pow2_bits_eqb.
      destruct (N.eqb_spec k m) as [<-|]; [rewrite E; reflexivity | apply andb_false_r]. }
    rewrite H. reflexivity.
Qed.

Lemma to_nat_pred rc : 0 < rc -> N.to_nat rc = S (N.to_nat (rc - 1)).
Proof. lia. Qed.

(* ---------- ReadBit ---------- *)
Lemma bs_read_bit_spec s : wf s ->
  match bits_of_state s with
  | [] => bs_read_bit s = None
  | bit :: rest => exists s', bs_read_bit s = Some (bit, s') /\ bits_of_state s' = rest /\ wf s'
  end.
Proof.
  destruct s as [st rc]. intros [Hrc Hb]. cbn [fst snd] in *.
  unfold bits_of_state, bs_read_bit, r_advance. cbn [fst snd].
  destruct st as [|b t]; [reflexivity|].
  destruct (N.eqb_spec rc 0) as [->|Hnz].
  - cbn [N.to_nat bits_be app]. destruct t as [|b2 t2]; [reflexivity|].
    cbn [bits_of_bytes flat_map]. change (bits_be 8 b2) with (N.testbit b2 7 :: bits_be 7 b2). cbn [app].
    eexists. split; [rewrite testbit_land_pow2; reflexivity|]. split; [reflexivity|].
    split; [cbn; lia | apply Bytes_cons in Hb; apply Hb].
  - rewrite (to_nat_pred rc) by lia. cbn [bits_be app]. rewrite N2Nat.id.
    eexists. split; [rewrite testbit_land_pow2; reflexivity|]. split; [reflexivity|].
    split; [cbn [snd]; lia | exact Hb].
Qed.

(* ---------- ReadByte ---------- *)
Fixpoint upto (n : nat) : list N := match n with O => [] | S k => N.of_nat k :: upto k end.

Lemma upto_in n x : x < N.of_nat n -> In x (upto n).
Proof.
  induction n as [|k IH]; intros H; [lia|]. cbn [upto].
  destruct (N.eq_dec x (N.of_nat k)); [left; auto | right; apply IH; lia].
Qed.

Definition byte_join_ok (rc b b2 : N) : bool :=
  value_be (bits_be (N.to_nat rc) b ++ firstn (8 - N.to_nat rc) (bits_be 8 b2)) 0
    =? N.lor (N.shiftl b (8 - rc) mod 256) (N.shiftr b2 rc).

Lemma byte_join_all :
  forallb (fun rc => forallb (fun b => forallb (fun b2 => byte_join_ok rc b b2) (upto 256)) (upto 256)) (upto 8) = true.
Proof. vm_compute. reflexivity. Qed.

Lemma byte_join rc b b2 : rc < 8 -> b < 256 -> b2 < 256 ->
  value_be (bits_be (N.to_nat rc) b ++ firstn (8 - N.to_nat rc) (bits_be 8 b2)) 0
    = N.lor (N.shiftl b (8 - rc) mod 256) (N.shiftr b2 rc).
Proof.
  intros Hrc Hb Hb2. pose proof byte_join_all as H.
  rewrite forallb_forall in H. specialize (H rc (upto_in 8 rc Hrc)).
  rewrite forallb_forall in H. specialize (H b (upto_in 256 b Hb)).
  rewrite forallb_forall in H. specialize (H b2 (upto_in 256 b2 Hb2)).
  apply N.eqb_eq in H. exact H.
Qed.

Lemma skipn_bits_be k r v : skipn k (bits_be (k + r) v) = bits_be r v.
Proof. induction k as [|k IH]; [reflexivity|]. cbn [Nat.add bits_be skipn]. exact IH. Qed.

Lemma value_bits8 b : b < 256 -> value_be (bits_be 8 b) 0 = b.
Proof. intros H. rewrite value_bits_be. apply N.mod_small. exact H. Qed.

Lemma bs_read_byte_spec s : wf s ->
  let bits := bits_of_state s in
  if (length bits <? 8)%nat then bs_read_byte s = None
  else exists s', bs_read_byte s = Some (value_be (firstn 8 bits) 0, s') /\ bits_of_state s' = skipn 8 bits /\ wf s'.
Proof.
  destruct s as [st rc]. intros [Hrc Hb]. cbn [fst snd] in *. cbv zeta.
  unfold bits_of_state, bs_read_byte, r_advance. cbn [fst snd].
  destruct st as [|b t]; [reflexivity|].
  apply Bytes_cons in Hb. destruct Hb as [Hb Ht].
  assert (Full : forall b' t', b' < 256 -> Bytes t' ->
     exists s', Some (b', (t', 8)) = Some (value_be (firstn 8 (bits_be 8 b' ++ bits_of_bytes t')) 0, s') /\
                bits_of_state s' = skipn 8 (bits_be 8 b' ++ bits_of_bytes t') /\ wf s').
  { intros b' t' Hb' Ht'. exists (t', 8).
    destruct (firstn_skipn_exact (bits_be 8 b') (bits_of_bytes t')) as [Hf Hs].
    rewrite bits_be_length in Hf, Hs. rewrite Hf, Hs, value_bits8 by assumption.
    split; [reflexivity|]. split; [apply bits_of_state_full|]. split; [cbn; lia | exact Ht']. }
  destruct (N.eqb_spec rc 0) as [->|Hnz].
  - cbn [N.to_nat bits_be app]. destruct t as [|b2 t2]; [reflexivity|].
    apply Bytes_cons in Ht. destruct Ht as [Hb2 Ht2].
    cbn [bits_of_bytes flat_map]. fold (bits_of_bytes t2).
    rewrite app_length, bits_be_length. cbn [N.eqb]. 
    replace (8 + length (bits_of_bytes t2) <? 8)%nat with false by (symmetry; apply Nat.ltb_ge; lia).
    apply Full; assumption.
  - destruct (N.eqb_spec rc 8) as [->|Hn8].
    + change (N.to_nat 8) with 8%nat. rewrite app_length, bits_be_length.
      replace (8 + length (bits_of_bytes t) <? 8)%nat with false by (symmetry; apply Nat.ltb_ge; lia).
      apply Full; assumption.
    + assert (Hlt : rc < 8) by lia.
      destruct t as [|b2 t2].
      * cbn [bits_of_bytes flat_map]. rewrite app_nil_r, bits_be_length.
        replace (N.to_nat rc <? 8)%nat with true by (symmetry; apply Nat.ltb_lt; lia). reflexivity.
      * apply Bytes_cons in Ht. destruct Ht as [Hb2 Ht2].
        cbn [bits_of_bytes flat_map]. fold (bits_of_bytes t2).
        rewrite !app_length, !bits_be_length.
        replace (N.to_nat rc + (8 + length (bits_of_bytes t2)) <? 8)%nat with false by (symmetry; apply Nat.ltb_ge; lia).
        exists (b2 :: t2, rc).
        set (k := N.to_nat rc). assert (Hk : (k < 8)%nat) by (unfold k; lia).
        assert (Ef : firstn 8 (bits_be k b ++ bits_be 8 b2 ++ bits_of_bytes t2)
                     = bits_be k b ++ firstn (8 - k) (bits_be 8 b2)).
        { rewrite firstn_app, bits_be_length. rewrite firstn_all2 by (rewrite bits_be_length; lia).
          f_equal. rewrite firstn_app, bits_be_length.
          replace (8 - k - 8)%nat with 0%nat by lia. cbn [firstn]. apply app_nil_r. }
        assert (Es : skipn 8 (bits_be k b ++ bits_be 8 b2 ++ bits_of_bytes t2)
                     = bits_be k b2 ++ bits_of_bytes t2).
        { rewrite skipn_app, bits_be_length. rewrite skipn_all2 by (rewrite bits_be_length; lia).
          cbn [app]. rewrite skipn_app, bits_be_length.
          replace (8 - k - 8)%nat with 0%nat by lia. cbn [skipn]. f_equal.
          replace 8%nat with ((8 - k) + k)%nat at 2 by lia. apply skipn_bits_be. }
        rewrite Ef, Es. unfold k. rewrite byte_join by assumption.
        split; [reflexivity|]. split; [reflexivity|]. split; [cbn [snd]; lia|].
        cbn [fst]. apply Bytes_cons. auto.
Qed.

(* ---------- accumulating reads ---------- *)
Lemma land_shiftl_small a b n : b < 2 ^ n -> N.land (N.shiftl a n) b = 0.
Proof.
  intros Hb. apply N.bits_inj. intros m. rewrite N.land_spec, N.bits_0.
  destruct (N.lt_ge_cases m n) as [Hlt|Hge].
  - rewrite N.shiftl_spec_low by exact Hlt. reflexivity.
  - destruct (N.eq_dec b 0) as [->|Hnz]; [rewrite N.bits_0; apply andb_false_r|].
    rewrite (N.bits_above_log2 b m); [apply andb_false_r|].
    apply N.lt_le_trans with n; [|exact Hge]. apply N.log2_lt_pow2; lia.
Qed.

Lemma lor_shift_add a b n : b < 2 ^ n -> N.lor (N.shiftl a n) b = a * 2 ^ n + b.
Proof.
  intros Hb. pose proof (land_shiftl_small a b n Hb) as H0.
  rewrite <- N.lxor_lor by exact H0. rewrite <- N.add_nocarry_lxor by exact H0.
  rewrite N.shiftl_mul_pow2. reflexivity.
Qed.

Lemma value_be_bound l acc j : acc < 2 ^ j -> value_be l acc < 2 ^ (j + N.of_nat (length l)).
Proof.
  intros H. rewrite value_be_acc. pose proof (value_be_lt l) as Hl.
  rewrite N.pow_add_r. 
  assert (Hp : 0 < 2 ^ N.of_nat (length l)) by (apply N.neq_0_lt_0, N.pow_nonzero; discriminate).
  nia.
Qed.

Lemma firstn_add {A} a b (l : list A) : firstn (a + b) l = firstn a l ++ firstn b (skipn a l).
Proof.
  revert l. induction a as [|a IH]; intros l; [reflexivity|].
  destruct l as [|x l]; [cbn; rewrite firstn_nil; reflexivity|].
  cbn [Nat.add firstn skipn app]. f_equal. apply IH.
Qed.

Lemma skipn_add {A} a b (l : list A) : skipn (a + b) l = skipn b (skipn a l).
Proof.
  revert l. induction a as [|a IH]; intros l; [reflexivity|].
  destruct l as [|x l]; [cbn; rewrite skipn_nil; reflexivity|].
  cbn [Nat.add skipn]. apply IH.
Qed.

Lemma w64_shift acc j n : acc < 2 ^ j -> j + n <= 64 -> w64 (N.shiftl acc n) = N.shiftl acc n.
Proof.
  intros Ha Hj. unfold w64. apply N.mod_small. rewrite N.shiftl_mul_pow2.
  apply N.lt_le_trans with (2 ^ j * 2 ^ n).
  - apply N.mul_lt_mono_pos_r; [apply N.neq_0_lt_0, N.pow_nonzero; discriminate | exact Ha].
  - rewrite <- N.pow_add_r. change two64 with (2 ^ 64). apply N.pow_le_mono_r; [discriminate | exact Hj].
Qed.

Lemma bs_read_bytes_spec k : forall s acc j, wf s -> acc < 2 ^ j -> j + 8 * N.of_nat k <= 64 ->
  let bits := bits_of_state s in
  if (length bits <? 8 * k)%nat then bs_read_bytes k s acc = None
  else exists s', bs_read_bytes k s acc = Some (value_be (firstn (8 * k) bits) acc, s') /\
                  bits_of_state s' = skipn (8 * k) bits /\ wf s'.
Proof.
  induction k as [|k IH]; intros s acc j Hwf Hacc Hj; cbv zeta.
  - cbn [Nat.mul]. exists s. cbn. auto.
  - cbn [bs_read_bytes]. pose proof (bs_read_byte_spec s Hwf) as Hb. cbv zeta in Hb.
    destruct (Nat.ltb_spec (length (bits_of_state s)) 8) as [Hlt|Hge].
    + rewrite Hb. replace (length (bits_of_state s) <? 8 * S k)%nat with true by (symmetry; apply Nat.ltb_lt; lia).
      reflexivity.
    + destruct Hb as (s1 & -> & Hbits1 & Hwf1).
      set (v8 := value_be (firstn 8 (bits_of_state s)) 0).
      assert (Hv8 : v8 < 2 ^ 8).
      { unfold v8. pose proof (value_be_lt (firstn 8 (bits_of_state s))) as H.
        rewrite firstn_length_le in H by lia. exact H. }
      rewrite (w64_shift acc j 8) by (try assumption; lia).
      rewrite lor_shift_add by exact Hv8.
      assert (Eacc : acc * 2 ^ 8 + v8 = value_be (firstn 8 (bits_of_state s)) acc).
      { rewrite (value_be_acc _ acc). rewrite firstn_length_le by lia. reflexivity. }
      rewrite Eacc.
      assert (Hacc' : value_be (firstn 8 (bits_of_state s)) acc < 2 ^ (j + 8)).
      { pose proof (value_be_bound (firstn 8 (bits_of_state s)) acc j Hacc) as H.
        rewrite firstn_length_le in H by lia. exact H. }
      specialize (IH s1 _ (j + 8) Hwf1 Hacc' ltac:(lia)). cbv zeta in IH.
      rewrite Hbits1 in IH. rewrite skipn_length in IH.
      replace (8 * S k)%nat with (8 + 8 * k)%nat by lia.
      destruct (Nat.ltb_spec (length (bits_of_state s) - 8) (8 * k)) as [Hlt2|Hge2].
      * rewrite IH. replace (length (bits_of_state s) <? 8 + 8 * k)%nat with true by (symmetry; apply Nat.ltb_lt; lia).
        reflexivity.
      * replace (length (bits_of_state s) <? 8 + 8 * k)%nat with false by (symmetry; apply Nat.ltb_ge; lia).
        destruct IH as (s' & -> & Hbits' & Hwf'). exists s'.
        rewrite firstn_add, value_be_app, skipn_add. auto.
Qed.

Lemma lor_bit acc b : N.lor (N.shiftl acc 1) (N.b2n b) = 2 * acc + N.b2n b.
Proof. rewrite lor_shift_add by (destruct b; reflexivity). change (2 ^ 1) with 2. lia. Qed.

Lemma bs_read_bitsn_spec k : forall s acc j, wf s -> acc < 2 ^ j -> j + N.of_nat k <= 64 ->
  let bits := bits_of_state s in
  if (length bits <? k)%nat then bs_read_bitsn k s acc = None
  else exists s', bs_read_bitsn k s acc = Some (value_be (firstn k bits) acc, s') /\
                  bits_of_state s' = skipn k bits /\ wf s'.
Proof.
  induction k as [|k IH]; intros s acc j Hwf Hacc Hj; cbv zeta.
  - exists s. cbn. auto.
  - cbn [bs_read_bitsn]. pose proof (bs_read_bit_spec s Hwf) as Hb.
    destruct (bits_of_state s) as [|bit rest] eqn:Ebits.
    + rewrite Hb. reflexivity.
    + destruct Hb as (s1 & -> & Hbits1 & Hwf1).
      rewrite (w64_shift acc j 1) by (try assumption; lia). rewrite lor_bit.
      assert (Hacc' : 2 * acc + N.b2n bit < 2 ^ (j + 1)).
      { rewrite N.pow_add_r. change (2 ^ 1) with 2. destruct bit; cbn [N.b2n]; lia. }
      specialize (IH s1 _ (j + 1) Hwf1 Hacc' ltac:(lia)). cbv zeta in IH. rewrite Hbits1 in IH.
      cbn [length firstn skipn value_be]. change (S (length rest) <? S k)%nat with (length rest <? k)%nat.
      destruct (length rest <? k)%nat; [exact IH|].
      destruct IH as (s' & -> & Hbits' & Hwf'). exists s'. auto.
Qed.

(* ReadBits(count) for count <= 64: EOF exactly when fewer than count bits remain *)
Theorem bs_read_bits_spec P s : wf s -> P <= 64 ->
  let bits := bits_of_state s in
  match read_bits (N.to_nat P) bits with
  | None => bs_read_bits P s = None
  | Some (v, rest) => exists s', bs_read_bits P s = Some (v, s') /\ bits_of_state s' = rest /\ wf s'
  end.
Proof.
  intros Hwf HP. cbv zeta. unfold read_bits, bs_read_bits.
  pose proof (N.div_mod P 8 ltac:(discriminate)) as EP.
  pose proof (N.mod_lt P 8 ltac:(discriminate)) as HR.
  set (kb := N.to_nat (P / 8)) in *. set (kr := N.to_nat (P mod 8)) in *.
  assert (Esum : N.to_nat P = (8 * kb + kr)%nat) by (unfold kb, kr; lia).
  pose proof (bs_read_bytes_spec kb s 0 0 Hwf ltac:(reflexivity) ltac:(unfold kb; lia)) as Hbytes.
  cbv zeta in Hbytes. rewrite Esum.
  destruct (Nat.ltb_spec (length (bits_of_state s)) (8 * kb)) as [Hlt|Hge].
  - rewrite Hbytes. replace (length (bits_of_state s) <? 8 * kb + kr)%nat with true by (symmetry; apply Nat.ltb_lt; lia).
    reflexivity.
  - destruct Hbytes as (s1 & -> & Hbits1 & Hwf1).
    assert (Hacc : value_be (firstn (8 * kb) (bits_of_state s)) 0 < 2 ^ (0 + N.of_nat (8 * kb))).
    { pose proof (value_be_bound (firstn (8 * kb) (bits_of_state s)) 0 0 ltac:(reflexivity)) as H.
      rewrite firstn_length_le in H by lia. exact H. }
    pose proof (bs_read_bitsn_spec kr s1 _ _ Hwf1 Hacc ltac:(unfold kb, kr; lia)) as Hb.
    cbv zeta in Hb. rewrite Hbits1, skipn_length in Hb.
    destruct (Nat.ltb_spec (length (bits_of_state s) - 8 * kb) kr) as [Hlt2|Hge2].
    + rewrite Hb. replace (length (bits_of_state s) <? 8 * kb + kr)%nat with true by (symmetry; apply Nat.ltb_lt; lia).
      reflexivity.
    + replace (length (bits_of_state s) <? 8 * kb + kr)%nat with false by (symmetry; apply Nat.ltb_ge; lia).
      destruct Hb as (s' & -> & Hbits' & Hwf'). exists s'.
      rewrite firstn_add, value_be_app, skipn_add. auto.
Qed.

(* ---------- unary run, one code, the whole stream ---------- *)
Lemma bs_read_unary_spec : forall fuel s q, wf s -> (length (bits_of_state s) < fuel)%nat ->
  match read_unary (bits_of_state s) q with
  | None => bs_read_unary fuel s q = None
  | Some (q', rest) => exists s', bs_read_unary fuel s q = Some (q', s') /\ bits_of_state s' = rest /\ wf s'
  end.
Proof.
  induction fuel as [|k IH]; intros s q Hwf Hf; [lia|].
  cbn [bs_read_unary]. pose proof (bs_read_bit_spec s Hwf) as Hb.
  destruct (bits_of_state s) as [|bit rest] eqn:Ebits; cbn [read_unary].
  - rewrite Hb. reflexivity.
  - destruct Hb as (s1 & -> & Hbits1 & Hwf1). destruct bit.
    + specialize (IH s1 (w64 (q + 1)) Hwf1). rewrite Hbits1 in IH. apply IH. cbn [length] in Hf. lia.
    + exists s1. auto.
Qed.

Lemma bits_of_state_length s : wf s -> (length (bits_of_state s) <= bs_bits_left s)%nat.
Proof.
  destruct s as [st rc]. intros [Hrc _]. unfold bits_of_state, bs_bits_left. cbn [fst snd] in *.
  destruct st as [|b t]; [cbn; lia|].
  rewrite app_length, bits_be_length, bits_of_bytes_length. cbn [length]. lia.
Qed.

Theorem bs_read_full_spec P s : wf s -> P <= 64 ->
  match read_full P (bits_of_state s) with
  | None => bs_read_full P s = None
  | Some (d, rest) => exists s', bs_read_full P s = Some (d, s') /\ bits_of_state s' = rest /\ wf s'
  end.
Proof.
  intros Hwf HP. unfold read_full, bs_read_full.
  pose proof (bs_read_unary_spec (S (bs_bits_left s)) s 0 Hwf) as Hu.
  specialize (Hu ltac:(pose proof (bits_of_state_length s Hwf); lia)).
  destruct (read_unary (bits_of_state s) 0) as [[q t]|].
  - destruct Hu as (s1 & -> & Hbits1 & Hwf1).
    pose proof (bs_read_bits_spec P s1 Hwf1 HP) as Hb. cbv zeta in Hb. rewrite Hbits1 in Hb.
    destruct (read_bits (N.to_nat P) t) as [[r t']|].
    + destruct Hb as (s2 & -> & Hbits2 & Hwf2). exists s2. auto.
    + rewrite Hb. reflexivity.
  - rewrite Hu. reflexivity.
Qed.

Theorem bs_decode_all_spec P : P <= 64 -> forall fuel s last, wf s ->
  bs_decode_all fuel P s last = decode_all fuel P (bits_of_state s) last.
Proof.
  intros HP. induction fuel as [|k IH]; intros s last Hwf; [reflexivity|].
  cbn [bs_decode_all decode_all]. pose proof (bs_read_full_spec P s Hwf HP) as Hr.
  destruct (read_full P (bits_of_state s)) as [[d rest]|].
  - destruct Hr as (s' & -> & Hbits' & Hwf'). rewrite IH by exact Hwf'. rewrite Hbits'. reflexivity.
  - rewrite Hr. reflexivity.
Qed.

(* on a byte string the machine and the bit list decode the same values, for every P a filter can have *)
Corollary stream_readers_agree P data last fuel : P <= 64 -> Bytes data ->
  bs_decode_all fuel P (new_reader data) last = decode_all fuel P (bits_of_bytes data) last.
Proof.
  intros HP Hb. rewrite bs_decode_all_spec; [rewrite bits_of_new_reader; reflexivity | exact HP |].
  split; [cbn; lia | exact Hb].
Qed.

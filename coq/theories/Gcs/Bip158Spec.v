(* BIP158-style specification of a Golomb-coded set, written with plain
   arithmetic (no machine words): what C14 says the filter bytes are.

     hash_to_range(item) = floor(H(key, item) * F / 2^64),  F = N * M
     the values are sorted ascending and delta coded;
     golomb_encode(x) = (x >> P) one bits, a zero bit, then the P low bits of x, most significant first;
     the bit string is written most significant bit first and zero padded to a whole byte.

   [pack] (bits -> bytes, Gcs.v) is shared with the model: it is the definition of
   "most significant bit first, zero padded". *)
From BU Require Import Lib.Bytes Gcs.SipHash Gcs.Gcs.

Definition hash_to_range (hash : list N -> list N -> N) (key : list N) (F : N) (item : list N) : N :=
  hash key item * F / 2 ^ 64.

Definition golomb_encode (P x : N) : list bool :=
  repeat true (N.to_nat (x / 2 ^ P)) ++ false :: bits_be (N.to_nat P) (x mod 2 ^ P).

Fixpoint golomb_deltas (P last : N) (sorted : list N) : list bool :=
  match sorted with
  | [] => []
  | v :: t => golomb_encode P (v - last) ++ golomb_deltas P v t
  end.

Definition spec_values (hash : list N -> list N -> N) (sort : list N -> list N)
           (M : N) (key : list N) (items : list (list N)) : list N :=
  sort (map (hash_to_range hash key (N.of_nat (length items) * M)) items).

Definition spec_filter_bytes (hash : list N -> list N -> N) (sort : list N -> list N)
           (P M : N) (key : list N) (items : list (list N)) : list N :=
  pack (golomb_deltas P 0 (spec_values hash sort M key items)).

(* CompactSize as BIP/Bitcoin define it *)
Definition compact_size (n : N) : list N :=
  if n <? 253 then [n]
  else if n <? 65536 then 253 :: le_bytes 2 n
  else if n <? 4294967296 then 254 :: le_bytes 4 n
  else 255 :: le_bytes 8 n.

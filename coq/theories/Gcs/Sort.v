(* The sort used to instantiate the section variable [sort] of Gcs.v in the run
   drivers: a plain insertion sort on N (ascending).  GcsSortProofs.v shows it
   returns a sorted permutation, which is all the theorems assume of sort.Slice. *)
From BU Require Import Lib.Bytes.

Fixpoint insert (x : N) (l : list N) : list N :=
  match l with
  | [] => [x]
  | y :: t => if x <=? y then x :: l else y :: insert x t
  end.

Fixpoint isort (l : list N) : list N :=
  match l with
  | [] => []
  | x :: t => insert x (isort t)
  end.

(* C14: CompactSize round trip, the four serialisations, lossless deserialisation,
   and the BIP158 reading of the filter bytes. *)
From BU Require Import Lib.Bytes Gcs.SipHash Gcs.Gcs Gcs.GcsProofs Gcs.GcsBitsProofs Gcs.GcsMatchProofs
  Gcs.GcsTheorems Gcs.Bip158Spec Gcs.Sort Gcs.GcsSortProofs.
From Coq Require Import ZifyBool ZifyN ZifyNat Sorting.Sorted Sorting.Permutation.

(* ---------- CompactSize ---------- *)
Lemma write_varint_compact n : write_varint n = compact_size n.
Proof.
  unfold write_varint, compact_size.
  destruct (N.ltb_spec n 253); [reflexivity|].
  destruct (N.leb_spec n 65535), (N.ltb_spec n 65536); try lia; [reflexivity|].
  destruct (N.leb_spec n 4294967295), (N.ltb_spec n 4294967296); try lia; reflexivity.
Qed.

Lemma read_le_app k minv v rest :
  v < 256 ^ N.of_nat k -> minv <= v ->
  read_le k minv (le_bytes k v ++ rest) = Ok (v, rest).
Proof.
  intros Hv Hmin. unfold read_le.
  assert (Hl : (length (le_bytes k v ++ rest) <? k)%nat = false).
  { apply Nat.ltb_ge. rewrite app_length, le_bytes_length. lia. }
  rewrite Hl. destruct (firstn_skipn_exact (le_bytes k v) rest) as [Hf Hs].
  rewrite le_bytes_length in Hf, Hs. rewrite Hf, Hs. rewrite le_value_le_bytes by exact Hv.
  destruct (N.ltb_spec v minv); [lia | reflexivity].
Qed.

Theorem read_write_varint n rest : n < two64 -> read_varint (write_varint n ++ rest) = Ok (n, rest).
Proof.
  intros Hn. unfold write_varint.
  destruct (N.ltb_spec n 253) as [H1|H1].
  - cbn [app read_varint].
    destruct (N.eqb_spec n 255); [lia|]. destruct (N.eqb_spec n 254); [lia|].
    destruct (N.eqb_spec n 253); [lia|]. reflexivity.
  - destruct (N.leb_spec n 65535) as [H2|H2].
    + cbn [app read_varint N.eqb Pos.eqb]. apply read_le_app; [change (256 ^ N.of_nat 2) with 65536; lia | lia].
    + destruct (N.leb_spec n 4294967295) as [H3|H3].
      * cbn [app read_varint N.eqb Pos.eqb]. apply read_le_app; [change (256 ^ N.of_nat 4) with 4294967296; lia | lia].
      * cbn [app read_varint N.eqb Pos.eqb]. apply read_le_app; [change (256 ^ N.of_nat 8) with two64; lia | lia].
Qed.

(* ---------- serialisations ---------- *)
Theorem serialisations f :
  filter_bytes f = f_data f /\
  filter_nbytes f = compact_size (f_n f) ++ f_data f /\
  filter_pbytes f = [f_p f] ++ f_data f /\
  filter_npbytes f = compact_size (f_n f) ++ [f_p f] ++ f_data f.
Proof.
  unfold filter_bytes, filter_nbytes, filter_pbytes, filter_npbytes.
  rewrite write_varint_compact. repeat split.
Qed.

(* ---------- deserialisation is lossless ---------- *)
Theorem deserialise_roundtrip f M :
  f_n f < two32 -> f_p f <= 32 -> f_mod f = w64 (f_n f * M) ->
  from_bytes (f_n f) (f_p f) M (filter_bytes f) = Ok f /\
  from_nbytes (f_p f) M (filter_nbytes f) = Ok f.
Proof.
  intros Hn Hp Hm.
  assert (Hfb : from_bytes (f_n f) (f_p f) M (f_data f) = Ok f).
  { unfold from_bytes. destruct shift_lits as (_ & _ & _ & -> & _).
    destruct (N.ltb_spec 32 (f_p f)); [lia|]. rewrite <- Hm. destruct f; reflexivity. }
  split; [exact Hfb|].
  unfold from_nbytes, filter_nbytes. rewrite read_write_varint by (unfold two32, two64 in *; lia).
  cbn [rbind]. destruct shift_lits as (_ & _ & _ & _ & -> & _). destruct start_lits as (_ & _ & -> & _).
  change (N.shiftl 1 32) with two32. destruct (N.leb_spec two32 (f_n f)); [lia | exact Hfb].
Qed.

(* what FromNBytes accepts, in full *)
Theorem from_nbytes_accepts P M d f :
  from_nbytes P M d = Ok f <->
  exists n rest, read_varint d = Ok (n, rest) /\ n < two32 /\ P <= 32 /\ f = mkFilter n P (w64 (n * M)) rest.
Proof.
  unfold from_nbytes, from_bytes. destruct shift_lits as (_ & _ & _ & -> & -> & _).
  destruct start_lits as (_ & _ & -> & _).
  change (N.shiftl 1 32) with two32.
  destruct (read_varint d) as [[n rest]| |]; cbn [rbind].
  - destruct (N.leb_spec two32 n).
    + split; [discriminate|]. intros (n' & r' & E & Hn & _). apply Ok_inj in E. injection E as <- <-. lia.
    + destruct (N.ltb_spec 32 P).
      * split; [discriminate|]. intros (n' & r' & E & _ & HP & _). lia.
      * split.
        -- intros E. apply Ok_inj in E. exists n, rest. auto.
        -- intros (n' & r' & E & _ & _ & ->). apply Ok_inj in E. injection E as <- <-. reflexivity.
  - split; [discriminate|]. intros (n' & r' & E & _). discriminate.
  - split; [discriminate|]. intros (n' & r' & E & _). discriminate.
Qed.

(* ---------- the filter bytes are the BIP158 encoding ---------- *)
Lemma encode_is_golomb P : P <= 32 -> forall vals last, chain last vals -> encode P last vals = golomb_deltas P last vals.
Proof.
  intros HP. induction vals as [|v t IH]; intros last Hc; [reflexivity|].
  destruct Hc as (Hle & Hlt & Hc). cbn [encode golomb_deltas].
  rewrite delta_bits_spec by assumption. rewrite IH by assumption. reflexivity.
Qed.

Section Bip158.
  Variable hash : list N -> list N -> N.
  Variable sort : list N -> list N.
  Hypothesis hash_lt : hash_ok hash.
  Hypothesis sort_good : sort_ok sort.

  Theorem build_is_bip158 P M key data :
    P <= 32 -> N.of_nat (length data) < two32 -> N.of_nat (length data) * M < two64 ->
    exists f, build hash sort P M key data = Ok f /\
              f_n f = N.of_nat (length data) /\ f_p f = P /\
              f_data f = spec_filter_bytes hash sort P M key data.
  Proof.
    intros HP Hn HF. destruct sort_good as [Hs Hperm].
    destruct (build_total hash sort P M key data HP Hn) as [f Hb].
    exists f. destruct (build_inv hash sort Hperm P M key data f Hb) as (_ & _ & En & Ep & Em & Ed).
    split; [exact Hb|]. split; [exact En|]. split; [exact Ep|].
    rewrite Ed. unfold spec_filter_bytes. f_equal.
    assert (Hmod : f_mod f < two64) by (rewrite Em; apply N.mod_lt; discriminate).
    assert (Ev : values_of hash sort f key data = spec_values hash sort M key data).
    { unfold values_of, spec_values. f_equal. apply map_ext. intros d.
      unfold hashed, reduce_with, hash_to_range. rewrite fast_reduction_spec by (try apply hash_lt; assumption).
      rewrite Em. unfold w64. rewrite N.mod_small by exact HF. reflexivity. }
    rewrite <- Ev. apply encode_is_golomb; [exact HP|].
    apply (values_chain hash sort hash_lt Hs Hperm). exact Hmod.
  Qed.
End Bip158.

(* ---------- review round 2: prefixed forms, built filters, the wrap boundary ---------- *)

(* the N- and NP-prefixed strings parse uniquely: CompactSize N, then (for NP) the byte P, then the bytes *)
Theorem npbytes_parse f : f_n f < two64 ->
  read_varint (filter_nbytes f) = Ok (f_n f, f_data f) /\
  read_varint (filter_npbytes f) = Ok (f_n f, f_p f :: f_data f).
Proof.
  intros Hn. unfold filter_nbytes, filter_npbytes. split; apply read_write_varint; exact Hn.
Qed.

(* a filter rebuilt from the P- or NP-prefixed form (strip P, resp. CompactSize N and P, then FromBytes;
   this version of the library has no FromPBytes / FromNPBytes) is the same filter *)
Theorem deserialise_roundtrip_prefixed f M :
  f_n f < two32 -> f_p f <= 32 -> f_mod f = w64 (f_n f * M) ->
  (exists rest, filter_pbytes f = f_p f :: rest /\ from_bytes (f_n f) (f_p f) M rest = Ok f) /\
  (exists rest, read_varint (filter_npbytes f) = Ok (f_n f, f_p f :: rest) /\
                from_bytes (f_n f) (f_p f) M rest = Ok f).
Proof.
  intros Hn Hp Hm. destruct (deserialise_roundtrip f M Hn Hp Hm) as [Hfb _].
  unfold filter_bytes in Hfb.
  split; exists (f_data f); (split; [|exact Hfb]); [reflexivity|].
  apply npbytes_parse. unfold two32, two64 in *. lia.
Qed.

(* the fields of a built filter, with no assumption on the hash or the sort *)
Lemma build_fields hash sort P M key data f :
  build hash sort P M key data = Ok f ->
  P <= 32 /\ N.of_nat (length data) < two32 /\
  f_n f = N.of_nat (length data) /\ f_p f = P /\ f_mod f = w64 (N.of_nat (length data) * M).
Proof.
  unfold build. destruct shift_lits as (-> & -> & -> & _). destruct start_lits as (-> & -> & _).
  change (N.shiftl 1 32) with two32.
  destruct (N.leb_spec two32 (N.of_nat (length data))) as [|Hn]; [discriminate|].
  destruct (N.ltb_spec 32 P) as [|HP]; [discriminate|].
  destruct (N.of_nat (length data) =? 0); intros H; apply Ok_inj in H; subst f; cbn [f_n f_p f_mod]; auto.
Qed.

(* every BUILT filter round-trips through all four serialisations *)
Theorem built_roundtrip hash sort P M key data f :
  build hash sort P M key data = Ok f ->
  from_bytes (f_n f) (f_p f) M (filter_bytes f) = Ok f /\
  from_nbytes (f_p f) M (filter_nbytes f) = Ok f /\
  (exists rest, filter_pbytes f = f_p f :: rest /\ from_bytes (f_n f) (f_p f) M rest = Ok f) /\
  (exists rest, read_varint (filter_npbytes f) = Ok (f_n f, f_p f :: rest) /\
                from_bytes (f_n f) (f_p f) M rest = Ok f).
Proof.
  intros Hb. destruct (build_fields _ _ _ _ _ _ _ Hb) as (HP & Hn & En & Ep & Em).
  assert (H1 : f_n f < two32) by (rewrite En; exact Hn).
  assert (H2 : f_p f <= 32) by (rewrite Ep; exact HP).
  assert (H3 : f_mod f = w64 (f_n f * M)) by (rewrite En; exact Em).
  destruct (deserialise_roundtrip f M H1 H2 H3) as [Ha Hb'].
  destruct (deserialise_roundtrip_prefixed f M H1 H2 H3) as [Hc Hd].
  auto.
Qed.

(* the hypothesis N*M < 2^64 of build_is_bip158 cannot be dropped: uint64(n)*M wraps in the code, and
   the bytes then differ from the BIP158 encoding (here N = 2, M = 2^63, P = 32: the code's modulus is 0) *)
Theorem bip158_unbounded_refuted :
  exists hash sort P M key data f,
    hash_ok hash /\ sort_ok sort /\ P <= 32 /\ N.of_nat (length data) < two32 /\
    two64 <= N.of_nat (length data) * M /\
    build hash sort P M key data = Ok f /\
    f_data f <> spec_filter_bytes hash sort P M key data.
Proof.
  exists (fun _ _ => 1099511627776), isort, 32, 9223372036854775808, [], [[]; []].
  eexists. split; [intros k d; reflexivity|].
  split; [split; [exact isort_sorted | exact isort_perm]|].
  split; [discriminate|]. split; [reflexivity|]. split; [discriminate|].
  split; [vm_compute; reflexivity|].
  intros H. vm_compute in H. discriminate H.
Qed.

(* Cost and allocation bounds for queries on ANY filter (built or hostile):
   every loop terminates within the fuel 8*|bytes|+1 (each iteration consumes at
   least P+1 bits of the stream), the table HashMatchAny builds has at most
   8*|bytes|/(P+1) entries and the capacity it asks for is bounded likewise. *)
From BU Require Import Lib.Bytes Gcs.SipHash Gcs.Gcs Gcs.GcsProofs Gcs.GcsBitsProofs Gcs.GcsMatchProofs.
From Coq Require Import ZifyBool ZifyN ZifyNat.

Lemma match_loop_total P term : forall fuel left bs value,
  (length bs < fuel)%nat -> exists b, match_loop fuel P left bs value term = Ok b.
Proof.
  induction fuel as [|k IH]; intros left bs value H; [lia|]. cbn [match_loop].
  destruct (left =? 0); [eexists; reflexivity|].
  destruct (read_full P bs) as [[d bs']|] eqn:E; [|eexists; reflexivity].
  destruct (_ =? term); [eexists; reflexivity|]. destruct (term <? _); [eexists; reflexivity|].
  apply read_full_consumes in E. apply IH. lia.
Qed.

Lemma zip_loop_total P : forall fuel left bs value qs,
  (length bs < fuel)%nat -> exists b, zip_loop fuel P left bs value qs = Ok b.
Proof.
  induction fuel as [|k IH]; intros left bs value qs H; [lia|]. cbn [zip_loop].
  destruct (left =? 0); [eexists; reflexivity|].
  destruct (read_full P bs) as [[d bs']|] eqn:E; [|eexists; reflexivity].
  destruct (zip_inner qs _); [eexists; reflexivity|].
  apply read_full_consumes in E. apply IH. lia.
Qed.

Lemma decode_all_count P : forall fuel bs last vs,
  decode_all fuel P bs last = Ok vs -> (length vs * (N.to_nat P + 1) <= length bs)%nat.
Proof.
  induction fuel as [|k IH]; intros bs last vs H; [discriminate|]. cbn [decode_all] in H.
  destruct (read_full P bs) as [[d bs']|] eqn:E.
  - destruct (decode_all k P bs' (w64 (last + d))) as [r| |] eqn:Er; try discriminate.
    cbn [rbind] in H. injection H as <-. apply IH in Er. apply read_full_consumes in E.
    cbn [length]. lia.
  - injection H as <-. cbn [length]. lia.
Qed.

Lemma fuel_enough f : (length (bits_of_bytes (f_data f)) < fuel_of f)%nat.
Proof. rewrite bits_of_bytes_length. unfold fuel_of. lia. Qed.

Theorem match_cost hash sort f key q qs :
  (exists b, gmatch hash f key q = Ok b) /\
  (exists b, zip_match_any hash sort f key qs = Ok b) /\
  (exists b, hash_match_any hash f key qs = Ok b) /\
  (exists b, match_any hash sort f key qs = Ok b) /\
  (forall bs d rest, read_full (f_p f) bs = Some (d, rest) ->
     (length rest + N.to_nat (f_p f) + 1 <= length bs)%nat).
Proof.
  assert (Hz : exists b, zip_match_any hash sort f key qs = Ok b).
  { unfold zip_match_any. destruct qs; [eexists; reflexivity|]. apply zip_loop_total, fuel_enough. }
  assert (Hh : exists b, hash_match_any hash f key qs = Ok b).
  { unfold hash_match_any. destruct qs; [eexists; reflexivity|].
    destruct (decode_all_ok (f_p f) (fuel_of f) (bits_of_bytes (f_data f)) 0 (fuel_enough f)) as [vs ->].
    eexists. reflexivity. }
  split; [apply match_loop_total, fuel_enough|]. split; [exact Hz|]. split; [exact Hh|]. split.
  - unfold match_any. destruct (_ <=? _); assumption.
  - intros bs d rest. apply read_full_consumes.
Qed.

Theorem alloc_bound f :
  size_hint f <= N.of_nat (8 * length (f_data f)) / (f_p f + 1) /\
  size_hint f <= f_n f /\
  forall vs, decode_all (fuel_of f) (f_p f) (bits_of_bytes (f_data f)) 0 = Ok vs ->
             N.of_nat (length vs) <= N.of_nat (8 * length (f_data f)) / (f_p f + 1).
Proof.
  unfold size_hint. destruct shift_lits as (_ & _ & _ & _ & _ & _ & _ & _ & _ & -> & ->).
  assert (Hw : w64 (N.of_nat (length (f_data f)) * 8) <= N.of_nat (8 * length (f_data f))).
  { unfold w64. rewrite Nat2N.inj_mul. change (N.of_nat 8) with 8. rewrite (N.mul_comm 8).
    apply N.mod_le. discriminate. }
  assert (Hd : w64 (N.of_nat (length (f_data f)) * 8) / (f_p f + 1) <= N.of_nat (8 * length (f_data f)) / (f_p f + 1)).
  { apply N.div_le_mono; [lia | exact Hw]. }
  split; [|split].
  - destruct (N.ltb_spec (f_n f) (w64 (N.of_nat (length (f_data f)) * 8) / (f_p f + 1))); lia.
  - destruct (N.ltb_spec (f_n f) (w64 (N.of_nat (length (f_data f)) * 8) / (f_p f + 1))); lia.
  - intros vs H. apply decode_all_count in H. rewrite bits_of_bytes_length in H.
    apply N.div_le_lower_bound; [lia|]. lia.
Qed.

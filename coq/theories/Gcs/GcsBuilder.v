(* Model of /repo/gcs/builder/builder.go: the GCSBuilder chain (error latch,
   entry set, parameter checks), the basic / mempool block-filter content rule,
   key derivation, filter hash and filter-header chain.

   The entry set (a Go map[string]struct{}) is a duplicate-free list in first
   insertion order; Build() ranges over the map in an unspecified order, which
   GcsBuilderProofs.build_perm shows immaterial (the values are sorted).
   Error classes: 2 gcs.ErrPTooBig (SetP > 32, and SetM > MaxUint32 returns the same error value),
   5 "p value is not set", 6 "m value is not set"; Panic 5 = write to a nil map
   (AddEntry on a builder whose Preallocate never ran). *)
From BU Require Import Lib.Bytes Lib.PolyMod Lib.Sha256 Gen.Xgcs Gen.Xgcs_builder Gcs.SipHash Gcs.Gcs.

Definition default_p : N := Z.to_N c_DefaultP.
Definition default_m : N := Z.to_N c_DefaultM.
Definition setp_max : N := lit lits_GCSBuilder_SetP 0.      (* p > 32 *)
Definition max_uint32 : N := 4294967295.                    (* math.MaxUint32 *)
Definition key_size : nat := Z.to_nat c_KeySize.            (* gcs.KeySize, from gcs/gcs.go *)
Definition build_p_unset : N := lit lits_GCSBuilder_Build 0.   (* b.p == 0 *)
Definition build_m_unset : N := lit lits_GCSBuilder_Build 1.   (* b.m == 0 *)
Definition coinbase_index : N := lit lits_buildBasicFilterWithKey 0.   (* if i == 0 { continue } *)

Record builder := mkBuilder {
  b_p : N; b_m : N; b_key : list N;
  b_data : option (list (list N));     (* None = nil map *)
  b_err : option N }.

Definition builder0 : builder := mkBuilder 0 0 (repeat 0 key_size) None None.

Definition latched (b : builder) : bool := match b_err b with Some _ => true | None => false end.

(* copy(key[:], src): the first 16 bytes, zero filled *)
Definition copy_key (src : list N) : list N := firstn key_size (src ++ repeat 0 key_size).

Definition derive_key (hash32 : list N) : list N := copy_key hash32.

Definition b_key_get (b : builder) : res (list N) :=
  match b_err b with Some e => Err e | None => Ok (b_key b) end.

Definition set_key (b : builder) (key : list N) : builder :=
  if latched b then b else mkBuilder (b_p b) (b_m b) (copy_key key) (b_data b) (b_err b).

Definition set_key_from_hash (b : builder) (h : list N) : builder :=
  if latched b then b else set_key b (derive_key h).

Definition set_p (b : builder) (p : N) : builder :=
  if latched b then b
  else if setp_max <? p then mkBuilder (b_p b) (b_m b) (b_key b) (b_data b) (Some 2)
  else mkBuilder p (b_m b) (b_key b) (b_data b) (b_err b).

Definition set_m (b : builder) (m : N) : builder :=
  if latched b then b
  else if max_uint32 <? m then mkBuilder (b_p b) (b_m b) (b_key b) (b_data b) (Some 2)
  else mkBuilder (b_p b) m (b_key b) (b_data b) (b_err b).

Definition preallocate (b : builder) (n : N) : builder :=
  if latched b then b
  else match b_data b with
       | None => mkBuilder (b_p b) (b_m b) (b_key b) (Some []) (b_err b)
       | Some _ => b
       end.

Definition entry_mem (e : list N) (l : list (list N)) : bool := existsb (list_eqb e) l.

Definition set_add (e : list N) (l : list (list N)) : list (list N) :=
  if entry_mem e l then l else l ++ [e].

Definition add_entry (b : builder) (e : list N) : res builder :=
  if latched b then Ok b
  else match b_data b with
       | None => Panic 5
       | Some l => Ok (mkBuilder (b_p b) (b_m b) (b_key b) (Some (set_add e l)) (b_err b))
       end.

Fixpoint add_entries_loop (b : builder) (es : list (list N)) : res builder :=
  match es with
  | [] => Ok b
  | e :: t => do b' <- add_entry b e ;; add_entries_loop b' t
  end.

Definition add_entries (b : builder) (es : list (list N)) : res builder :=
  if latched b then Ok b else add_entries_loop b es.

(* AddHash(hash) = AddEntry(hash.CloneBytes()) *)
Definition add_hash (b : builder) (h : list N) : res builder :=
  if latched b then Ok b else add_entry b h.

Definition with_key_pnm (key : list N) (p n m : N) : builder :=
  preallocate (set_m (set_p (set_key builder0 key) p) m) n.
Definition with_key_pm (key : list N) (p m : N) : builder := with_key_pnm key p 0 m.
Definition with_key (key : list N) : builder := with_key_pnm key default_p 0 default_m.
Definition with_key_hash_pnm (h : list N) (p n m : N) : builder := with_key_pnm (derive_key h) p n m.
Definition with_key_hash_pm (h : list N) (p m : N) : builder := with_key_hash_pnm h p 0 m.
Definition with_key_hash (h : list N) : builder := with_key_hash_pnm h default_p 0 default_m.

Definition entries_of (b : builder) : list (list N) := match b_data b with Some l => l | None => [] end.

(* ---------- block content ---------- *)
Record outpoint := mkOutpoint { op_hash : list N; op_index : N }.
Record tx := mkTx { tx_ins : list outpoint; tx_outs : list (list N) }.   (* previous outpoints; pkScripts *)

(* wire.OutPoint.Serialize: 32-byte hash, index as 4 bytes little endian *)
Definition ser_outpoint (o : outpoint) : list N := op_hash o ++ le_bytes 4 (op_index o).

Definition is_nonempty (s : list N) : bool := match s with [] => false | _ => true end.

Section WithDeps.
  Variable hash : list N -> list N -> N.
  Variable sort : list N -> list N.

  Definition b_build (b : builder) : res filter :=
    match b_err b with
    | Some e => Err e
    | None =>
        if b_p b =? build_p_unset then Err 5
        else if b_m b =? build_m_unset then Err 6
        else build hash sort (b_p b) (b_m b) (b_key b) (entries_of b)
    end.

  (* the two inner loops of buildBasicFilterWithKey for transaction number i *)
  Fixpoint add_inputs (i : nat) (b : builder) (ins : list outpoint) : res builder :=
    match ins with
    | [] => Ok b
    | o :: t =>
        if N.of_nat i =? coinbase_index then add_inputs i b t        (* coinbase: continue *)
        else
          let s := ser_outpoint o in
          if is_nonempty s then (do b' <- add_entry b s ;; add_inputs i b' t)
          else add_inputs i b t
    end.

  Fixpoint add_outputs (b : builder) (outs : list (list N)) : res builder :=
    match outs with
    | [] => Ok b
    | s :: t =>
        if is_nonempty s then (do b' <- add_entry b s ;; add_outputs b' t)
        else add_outputs b t
    end.

  Fixpoint add_txs (i : nat) (b : builder) (txs : list tx) : res builder :=
    match txs with
    | [] => Ok b
    | t :: rest =>
        do b1 <- add_inputs i b (tx_ins t) ;;
        do b2 <- add_outputs b1 (tx_outs t) ;;
        add_txs (S i) b2 rest
    end.

  Definition basic_filter_with_key (txs : list tx) (keyhash : list N) : res filter :=
    let b := with_key_hash keyhash in
    do _ <- b_key_get b ;;
    do b' <- add_txs 0 b txs ;;
    b_build b'.

  (* BuildBasicFilter: the key is the block hash (double SHA-256 of the 80-byte header) *)
  Definition build_basic_filter (header : list N) (txs : list tx) : res filter :=
    basic_filter_with_key txs (sha256d header).

  (* BuildMempoolFilter: an empty transaction stands in for the coinbase, zero hash as key *)
  Definition build_mempool_filter (txs : list tx) : res filter :=
    basic_filter_with_key (mkTx [] [] :: txs) (repeat 0 32).
End WithDeps.

(* GetFilterHash / MakeHeaderForFilter; prev is a chainhash.Hash (32 bytes) *)
Definition filter_hash (f : filter) : list N := sha256d (filter_nbytes f).
Definition filter_header (f : filter) (prev : list N) : list N := sha256d (filter_hash f ++ prev).

(* C20 — k threads, one mutex, one shared cell.

   Part 1 (semantics, generic): a small-step interleaving semantics.  Every thread has a private
   state and a sequence of instructions [Lk | Ul | Acc f]; [Acc f] is one access to the shared cell
   (it may also update the thread's private state: a result being recorded).  Any enabled thread may
   take the next step: an unprotected [Acc] can happen at any moment, [Lk] only when the mutex is
   free, [Ul] only by the holder.

   Part 2 (lock discipline of the Go source): the predicates evaluated on Gen/LockIR.v.

   No proofs here (Conc/ConcProofs.v). *)
From Coq Require Import List Arith Bool String Lia.
From BU Require Import Conc.LockEvents.
Import ListNotations.

Section Semantics.
  Variables (S L : Type).          (* shared cell, thread-private state *)

  Inductive instr :=
  | Lk
  | Ul
  | Acc (f : L -> S -> L * S).

  Record thread := mkThread { t_loc : L; t_code : list instr }.
  Record state := mkState { sh : S; owner : option nat; thr : list thread }.

  Fixpoint set_thread (ts : list thread) (i : nat) (t : thread) : list thread :=
    match ts, i with
    | [], _ => []
    | _ :: r, O => t :: r
    | x :: r, Datatypes.S k => x :: set_thread r k t
    end.

  (* thread i takes one step *)
  Inductive step : state -> nat -> state -> Prop :=
  | step_lock st i l c :
      nth_error (thr st) i = Some (mkThread l (Lk :: c)) -> owner st = None ->
      step st i (mkState (sh st) (Some i) (set_thread (thr st) i (mkThread l c)))
  | step_unlock st i l c :
      nth_error (thr st) i = Some (mkThread l (Ul :: c)) -> owner st = Some i ->
      step st i (mkState (sh st) None (set_thread (thr st) i (mkThread l c)))
  | step_acc st i l c f :
      nth_error (thr st) i = Some (mkThread l (Acc f :: c)) ->
      step st i (mkState (snd (f l (sh st))) (owner st) (set_thread (thr st) i (mkThread (fst (f l (sh st))) c))).

  (* an execution, with the schedule (which thread moved) and the order in which the mutex was acquired *)
  Inductive exec : state -> list nat -> state -> Prop :=
  | exec_nil st : exec st [] st
  | exec_snoc st tr st1 i st2 : exec st tr st1 -> step st1 i st2 -> exec st (tr ++ [i]) st2.

  (* acquisition order of an execution: the threads whose step was a Lk, in order *)
  Inductive acq_order : state -> list nat -> state -> list nat -> Prop :=
  | acq_nil st : acq_order st [] st []
  | acq_snoc_lock st tr st1 i st2 a :
      acq_order st tr st1 a -> step st1 i st2 -> owner st1 = None -> owner st2 = Some i ->
      acq_order st (tr ++ [i]) st2 (a ++ [i])
  | acq_snoc_other st tr st1 i st2 a :
      acq_order st tr st1 a -> step st1 i st2 -> ~ (owner st1 = None /\ owner st2 = Some i) ->
      acq_order st (tr ++ [i]) st2 a.

  (* ---- the sequential meaning: run a thread's code up to and including its next Ul, alone *)
  Fixpoint run_cs (c : list instr) (l : L) (s : S) : list instr * L * S :=
    match c with
    | [] => ([], l, s)
    | Lk :: c' => run_cs c' l s
    | Ul :: c' => (c', l, s)
    | Acc f :: c' => run_cs c' (fst (f l s)) (snd (f l s))
    end.

  (* the serial machine: thread i runs its next method body to completion, nobody else moves *)
  Definition serial_step (st : state) (i : nat) : state :=
    match nth_error (thr st) i with
    | Some t =>
        let '(c, l, s) := run_cs (t_code t) (t_loc t) (sh st) in
        mkState s None (set_thread (thr st) i (mkThread l c))
    | None => st
    end.

  Definition serial (st : state) (order : list nat) : state := fold_left serial_step order st.

  (* ---- the discipline: a method body is  Lk; shared accesses; Ul  *)
  Definition is_acc (i : instr) : bool := match i with Acc _ => true | _ => false end.

  Definition well_locked_body (b : list instr) : Prop :=
    exists accs, b = Lk :: accs ++ [Ul] /\ forallb is_acc accs = true.

  (* a thread's program is a sequence of such bodies *)
  Definition well_locked_code (c : list instr) : Prop :=
    exists bodies, c = List.concat bodies /\ Forall well_locked_body bodies.

  Definition well_locked_state (st : state) : Prop :=
    owner st = None /\ Forall (fun t => well_locked_code (t_code t)) (thr st).

  Definition finished (st : state) : Prop := Forall (fun t => t_code t = []) (thr st).
End Semantics.

Arguments Lk {S L}.
Arguments Ul {S L}.
Arguments Acc {S L} f.
Arguments mkThread {S L} t_loc t_code.
Arguments mkState {S L} sh owner thr.

(* ------------------------------------------------------------------------------------------
   Part 2: the discipline on the extracted IR *)
Local Open Scope string_scope.

Definition lookup (tbl : list method) (n : string) : option method :=
  find (fun m => String.eqb (m_name m) n) tbl.

(* a worker ("MUST be called with the filter lock held"): unexported, never touches the mutex, only accesses
   the shared fields or calls other workers *)
Definition worker_event_ok (tbl : list method) (e : event) : bool :=
  match e with
  | ReadField _ | WriteField _ | UseArg _ | Return => true
  | CallWorker w => match lookup tbl w with Some m => negb (m_exported m) | None => false end
  | _ => false
  end.

Definition worker_ok (tbl : list method) (m : method) : bool :=
  negb (m_exported m) && forallb (fun p => forallb (worker_event_ok tbl) p) (m_paths m).

(* inside the critical section: accesses, uses of reference-typed arguments and worker calls until the Unlock, then
   nothing but Return.  Arguments are used INSIDE the section only: what a call does to caller-shared memory (e.g.
   tx.Hash() filling the Tx's unsynchronised memo) is then serialised with every other call on the same filter. *)
Fixpoint inside_ok (tbl : list method) (p : list event) : bool :=
  match p with
  | Unlock :: rest => match rest with [Return] => true | _ => false end
  | (ReadField _ | WriteField _ | UseArg _) :: rest => inside_ok tbl rest
  | CallWorker w :: rest =>
      match lookup tbl w with Some m => worker_ok tbl m && inside_ok tbl rest | None => false end
  | _ => false
  end.

(* an exported path is  Lock; (accesses | worker calls)*; Unlock; Return   or touches nothing at all *)
Definition exported_path_ok (tbl : list method) (p : list event) : bool :=
  match p with
  | [Return] => true
  | Lock :: rest => inside_ok tbl rest
  | _ => false
  end.

Definition well_locked_in (tbl : list method) (m : method) : bool :=
  if m_exported m then forallb (exported_path_ok tbl) (m_paths m) && negb (match m_paths m with [] => true | _ => false end)
  else worker_ok tbl m.

(* Lock/Unlock events do not name the mutex: the discipline above is meaningful only if the type has exactly one
   mutex field (two methods locking two different mutexes would each look well locked and still race) *)
Definition single_mutex (fields : list string) : bool := match fields with [_] => true | _ => false end.

(* no method mentions a package-level variable (state shared between all filters, which no receiver's mutex guards;
   [Global] also falls into the rejecting default of every predicate in this file) *)
Definition is_global (e : event) : bool := match e with Global _ => true | _ => false end.
Definition no_globals (tbl : list method) : bool :=
  forallb (fun m => forallb (fun p => negb (existsb is_global p)) (m_paths m)) tbl.

(* Diagnostic refinement for reader/writer locks (sync.RWMutex).  The theorem of Part 1 is about an exclusive mutex,
   and [well_locked_in] above accepts exclusive sections only (RLock/RUnlock fall into the rejecting default).  The
   predicates below say what a sound use of a shared lock would at least require: a section opened with RLock may
   only read, directly and through every worker it calls; everything that writes needs the exclusive lock. *)
Fixpoint reads_only (fuel : nat) (tbl : list method) (w : string) : bool :=
  match fuel with
  | O => false
  | S k =>
      match lookup tbl w with
      | Some m =>
          negb (m_exported m) &&
          forallb (fun p => forallb (fun e => match e with
                                              | ReadField _ | UseArg _ | Return => true
                                              | CallWorker w' => reads_only k tbl w'
                                              | _ => false
                                              end) p) (m_paths m)
      | None => false
      end
  end.

Fixpoint shared_inside_ok (tbl : list method) (p : list event) : bool :=
  match p with
  | RUnlock :: rest => match rest with [Return] => true | _ => false end
  | (ReadField _ | UseArg _) :: rest => shared_inside_ok tbl rest
  | CallWorker w :: rest => reads_only (S (List.length tbl)) tbl w && shared_inside_ok tbl rest
  | _ => false
  end.

Definition rw_path_ok (tbl : list method) (p : list event) : bool :=
  match p with
  | RLock :: rest => shared_inside_ok tbl rest
  | _ => exported_path_ok tbl p
  end.

(* the operations documented "safe for concurrent access" must be present (so that an empty or
   truncated extraction cannot pass vacuously) *)
Definition bloom_documented_safe : list string :=
  ["IsLoaded"; "Reload"; "Unload"; "Matches"; "MatchesOutPoint"; "Add"; "AddHash"; "AddOutPoint"; "MatchTxAndUpdate"; "MsgFilterLoad"].

Definition has_exported (tbl : list method) (n : string) : bool :=
  match lookup tbl n with Some m => m_exported m | None => false end.

(* constructors of an immutable type must not store (an alias of) a reference-typed parameter in a field: the value
   would change when the caller reuses its buffer.  [inits] = (function, field, parameters flowing into the value) *)
Definition no_aliasing_inits (inits : list (string * string * list string)) : bool :=
  forallb (fun i => match snd i with [] => true | _ => false end) inits.
Definition has_init (inits : list (string * string * list string)) (fn : string) : bool :=
  existsb (fun i => String.eqb (fst (fst i)) fn) inits.

(* GCS filters are immutable: no method writes a field, hands the receiver on, or touches anything the
   translator could not follow; the byte array leaves the receiver only towards bytes.Buffer.Write (which
   copies) and the builtin copy (as its source) *)
Definition gcs_readers : list string := ["buffer.Write"].

Definition gcs_event_ok (tbl : list method) (e : event) : bool :=
  match e with
  | ReadField _ | UseArg _ | Return => true
  | CallWorker w => match lookup tbl w with Some _ => true | None => false end
  | PassField _ callee => existsb (String.eqb callee) gcs_readers
  | _ => false
  end.

Definition gcs_method_private (tbl : list method) (m : method) : bool :=
  forallb (fun p => forallb (gcs_event_ok tbl) p) (m_paths m).

Definition gcs_queries : list string := ["Match"; "MatchAny"; "ZipMatchAny"; "HashMatchAny"].

(* a query starts by taking a private copy of the filter bytes (f.Bytes()) on every path that reads anything *)
Definition is_usearg (e : event) : bool := match e with UseArg _ => true | _ => false end.
Definition starts_with_copy (p0 : list event) : bool :=
  match filter (fun e => negb (is_usearg e)) p0 with   (* looking at the arguments is not reading the filter *)
  | [Return] => true
  | CallWorker "Bytes" :: _ => true
  | p => forallb (fun e => match e with CallWorker _ | Return => true | _ => false end) p   (* pure delegation: MatchAny *)
  end.

Definition no_direct_array_access (p : list event) : bool :=
  forallb (fun e => match e with ReadField "filterData" | PassField "filterData" _ => false | _ => true end) p.

Definition gcs_query_on_copy (tbl : list method) (n : string) : bool :=
  match lookup tbl n with
  | Some m => m_exported m && forallb (fun p => starts_with_copy p && no_direct_array_access p) (m_paths m)
  | None => false
  end.

(* The event vocabulary of the lock IR that harness/cmd/lockir extracts from the Go sources
   (Gen/LockIR.v is generated data over these types; Conc/Conc.v gives them meaning). *)
From Coq Require Import List String.

Inductive event :=
| Lock                               (* recv.mtx.Lock() *)
| Unlock                             (* recv.mtx.Unlock(), also the deferred one before a Return *)
| RLock                              (* recv.mtx.RLock(): shared side of a sync.RWMutex *)
| RUnlock                            (* recv.mtx.RUnlock() *)
| ReadField (f : string)             (* recv.f, or memory reached through it, is read *)
| WriteField (f : string)            (* recv.f, or memory reached through it, is written *)
| UseArg (a : string)                (* a parameter of reference type is mentioned: memory the caller may share with
                                       other goroutines (a *bchutil.Tx with its unsynchronised hash memo, a []byte) *)
| CallWorker (w : string)            (* recv.w(..): method of the same type on the same receiver *)
| PassField (f callee : string)      (* a reference into recv.f handed to someone else *)
| PassRecv (callee : string)         (* the receiver itself handed on *)
| Global (g : string)                (* a package-level variable is mentioned: state shared by all values of the type,
                                       not guarded by the receiver's mutex *)
| Unsupported (what : string)        (* construct not followed by the translator *)
| Return.

(* name, exported?, one event list per syntactic path *)
Inductive method := Method (name : string) (exported : bool) (paths : list (list event)).

Definition m_name (m : method) : string := match m with Method n _ _ => n end.
Definition m_exported (m : method) : bool := match m with Method _ e _ => e end.
Definition m_paths (m : method) : list (list event) := match m with Method _ _ p => p end.

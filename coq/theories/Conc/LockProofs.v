(* The lock discipline evaluated on the IR extracted from the Go sources (Gen/LockIR.v, regenerated on every
   run), and the link from an accepted IR path to a well-locked body of the semantics. *)
From Coq Require Import List Bool String.
From BU Require Import Conc.LockEvents Conc.Conc Gen.LockIR.
Import ListNotations.

(* every path of every method of bloom.Filter: exported methods are Lock; (accesses | calls of lock-free workers)*;
   Unlock; Return, unexported ones never touch the mutex and only call unexported ones *)
Lemma bloom_methods_well_locked : forallb (well_locked_in bloom_methods) bloom_methods = true.
Proof. vm_compute. reflexivity. Qed.

Lemma bloom_documented_safe_present : forallb (has_exported bloom_methods) bloom_documented_safe = true.
Proof. vm_compute. reflexivity. Qed.

(* exactly one mutex field (Lock events do not name the mutex), no field of the type touched by code that is not one
   of its methods (package-level functions, methods of other types: they would bypass the per-method discipline),
   no package-level variable mentioned by any method of the two types (cross-filter shared state) *)
Lemma bloom_single_mutex : single_mutex bloom_mutex_fields = true.
Proof. vm_compute. reflexivity. Qed.

Lemma bloom_fields_private : bloom_outside_accesses = [].
Proof. reflexivity. Qed.

Lemma no_package_level_state : no_globals (bloom_methods ++ gcs_methods) = true.
Proof. vm_compute. reflexivity. Qed.

(* the GCS constructors store no alias of a reference-typed parameter in the filter (FromBytes copies, BuildGCSFilter
   stores the bytes of its own bit stream; FromNBytes delegates to FromBytes and initialises nothing itself) *)
Lemma gcs_constructors_copy :
  no_aliasing_inits gcs_field_inits = true /\
  has_init gcs_field_inits "FromBytes" = true /\ has_init gcs_field_inits "BuildGCSFilter" = true.
Proof. vm_compute. repeat split. Qed.

(* no translator give-ups anywhere in the two types *)
Definition is_unsupported (e : event) : bool := match e with Unsupported _ => true | _ => false end.
Lemma nothing_unsupported :
  forallb (fun m => forallb (fun p => negb (existsb is_unsupported p)) (m_paths m)) (bloom_methods ++ gcs_methods) = true.
Proof. vm_compute. reflexivity. Qed.

Lemma gcs_queries_private :
  forallb (gcs_method_private gcs_methods) gcs_methods = true /\
  forallb (gcs_query_on_copy gcs_methods) gcs_queries = true.
Proof. split; vm_compute; reflexivity. Qed.

(* ---- an accepted exported path denotes a well-locked body, whatever the accesses mean ---- *)
Section Compile.
  Variables (S L : Type) (sem : event -> L -> S -> L * S).

  Definition compile1 (e : event) : list (instr S L) :=
    match e with
    | Lock => [Lk]
    | Unlock => [Ul]
    | Return => []
    | e => [Acc (sem e)]
    end.
  Definition compile (p : list event) : list (instr S L) := flat_map compile1 p.

  Lemma inside_shape tbl p : inside_ok tbl p = true ->
    exists accs, compile p = accs ++ [Ul] /\ forallb (is_acc S L) accs = true.
  Proof.
    induction p as [|e p IH]; [discriminate|]. cbn [inside_ok].
    destruct e; try discriminate.
    - (* Unlock *) destruct p as [|e1 p1]; [discriminate|]. destruct e1; try discriminate.
      destruct p1; [|discriminate]. intros _. exists []. split; reflexivity.
    - intros H. destruct (IH H) as (accs & E & Ha). exists (Acc (sem (ReadField f)) :: accs).
      cbn [compile flat_map compile1 app]. fold (compile p). rewrite E. split; [reflexivity|exact Ha].
    - intros H. destruct (IH H) as (accs & E & Ha). exists (Acc (sem (WriteField f)) :: accs).
      cbn [compile flat_map compile1 app]. fold (compile p). rewrite E. split; [reflexivity|exact Ha].
    - intros H. destruct (IH H) as (accs & E & Ha). exists (Acc (sem (UseArg a)) :: accs).
      cbn [compile flat_map compile1 app]. fold (compile p). rewrite E. split; [reflexivity|exact Ha].
    - destruct (lookup tbl w); [|discriminate]. intros H. apply andb_true_iff in H as [_ H].
      destruct (IH H) as (accs & E & Ha). exists (Acc (sem (CallWorker w)) :: accs).
      cbn [compile flat_map compile1 app]. fold (compile p). rewrite E. split; [reflexivity|exact Ha].
  Qed.

  Theorem accepted_path_is_well_locked tbl p :
    exported_path_ok tbl p = true -> p <> [Return] -> well_locked_body S L (compile p).
  Proof.
    intros H Hne. destruct p as [|e p]; [discriminate|]. destruct e; try discriminate.
    - cbn [exported_path_ok] in H. destruct (inside_shape tbl p H) as (accs & E & Ha).
      exists accs. cbn [compile flat_map compile1 app]. fold (compile p). rewrite E. split; [reflexivity|exact Ha].
    - destruct p; [congruence|discriminate].
  Qed.
End Compile.

(* (2) joined to (1), for THIS source: every path of every exported method of bloom.Filter that touches anything --
   MatchTxAndUpdate and MsgFilterLoad included -- denotes a well-locked body of the interleaving semantics, whatever
   meaning [sem] gives to its field accesses and worker calls; so well_locked_linearizable applies to any program
   made of calls of these methods *)
Theorem bloom_source_bodies_well_locked (S L : Type) (sem : event -> L -> S -> L * S) m p :
  In m bloom_methods -> m_exported m = true -> In p (m_paths m) -> p <> [Return] ->
  well_locked_body S L (compile S L sem p).
Proof.
  intros Hm He Hp Hne.
  pose proof bloom_methods_well_locked as H. rewrite forallb_forall in H. specialize (H m Hm).
  unfold well_locked_in in H. rewrite He in H. apply andb_true_iff in H as [H _].
  rewrite forallb_forall in H. apply (accepted_path_is_well_locked S L sem bloom_methods p (H p Hp) Hne).
Qed.

(* Proof that well-locked programs are linearizable in lock-acquisition order (generic in the
   shared cell and the private state). *)
From Coq Require Import List Arith Bool Lia.
From BU Require Import Conc.LockEvents Conc.Conc.
Import ListNotations.

Section Proofs.
  Variables (S L : Type).
  Notation instr := (instr S L).
  Notation thread := (thread S L).
  Notation state := (state S L).

  (* ---------- set_thread ---------- *)
  Lemma set_thread_length (ts : list thread) i t : length (set_thread S L ts i t) = length ts.
  Proof. revert i. induction ts as [|x r IH]; intros [|k]; cbn [set_thread length]; auto. Qed.

  Lemma set_thread_same (ts : list thread) i t : i < length ts -> nth_error (set_thread S L ts i t) i = Some t.
  Proof.
    revert i. induction ts as [|x r IH]; intros [|k] H; cbn [set_thread length nth_error] in *; try lia; [reflexivity|].
    apply IH. lia.
  Qed.

  Lemma set_thread_other (ts : list thread) i u t : u <> i -> nth_error (set_thread S L ts i t) u = nth_error ts u.
  Proof.
    revert i u. induction ts as [|x r IH]; intros [|k] [|v] H; cbn [set_thread nth_error]; try reflexivity; try lia.
    apply IH. lia.
  Qed.

  Lemma nth_error_lt (ts : list thread) i t : nth_error ts i = Some t -> i < length ts.
  Proof. intros H. apply nth_error_Some. congruence. Qed.

  Lemma list_ext (a b : list thread) : length a = length b -> (forall i, nth_error a i = nth_error b i) -> a = b.
  Proof.
    revert b. induction a as [|x a IH]; intros [|y b] Hl H; try discriminate; [reflexivity|].
    f_equal.
    - specialize (H 0). cbn in H. congruence.
    - apply IH; [cbn in Hl; lia|]. intros i. apply (H (Datatypes.S i)).
  Qed.

  (* ---------- shapes of code ---------- *)
  Definition outside (c : list instr) : Prop := well_locked_code S L c.
  Definition inside (c : list instr) : Prop :=
    exists accs rest, c = accs ++ Ul :: rest /\ forallb (is_acc S L) accs = true /\ well_locked_code S L rest.

  Lemma outside_cases c : outside c -> c = [] \/ exists c', c = Lk :: c' /\ inside c'.
  Proof.
    intros (bodies & -> & HF). induction HF as [|b bs Hb HF IH]; [left; reflexivity|].
    right. destruct Hb as (accs & -> & Ha). cbn [concat app].
    exists ((accs ++ [Ul]) ++ concat bs). split; [reflexivity|].
    exists accs, (concat bs). split; [rewrite <- app_assoc; reflexivity|]. split; [exact Ha|].
    exists bs. split; [reflexivity|exact HF].
  Qed.

  Lemma inside_cases c : inside c ->
    (exists rest, c = Ul :: rest /\ outside rest) \/ (exists f c', c = Acc f :: c' /\ inside c').
  Proof.
    intros (accs & rest & -> & Ha & Hr). destruct accs as [|a accs].
    - left. exists rest. split; [reflexivity|exact Hr].
    - right. cbn [forallb] in Ha. apply andb_true_iff in Ha as [Ha1 Ha2].
      destruct a as [| |f]; try discriminate. exists f, (accs ++ Ul :: rest). split; [reflexivity|].
      exists accs, rest. repeat split; assumption.
  Qed.

  (* ---------- the invariant ---------- *)
  Definition same_but (t : nat) (a b : list thread) : Prop :=
    length a = length b /\ forall u, u <> t -> nth_error a u = nth_error b u.

  Definition Inv (st0 st : state) (a : list nat) : Prop :=
    match owner S L st with
    | None =>
        st = serial S L st0 a /\ Forall (fun t => outside (t_code S L t)) (thr S L st)
    | Some t =>
        exists a', a = a' ++ [t] /\
        let q := serial S L st0 a' in
        exists tt qt,
          nth_error (thr S L st) t = Some tt /\ nth_error (thr S L q) t = Some qt /\
          inside (t_code S L tt) /\
          run_cs S L (t_code S L tt) (t_loc S L tt) (sh S L st) = run_cs S L (t_code S L qt) (t_loc S L qt) (sh S L q) /\
          same_but t (thr S L st) (thr S L q) /\
          (forall u tu, u <> t -> nth_error (thr S L st) u = Some tu -> outside (t_code S L tu))
    end.

  Lemma serial_snoc st a i : serial S L st (a ++ [i]) = serial_step S L (serial S L st a) i.
  Proof. unfold serial. rewrite fold_left_app. reflexivity. Qed.

  Lemma Forall_nth (P : thread -> Prop) ts : (forall u tu, nth_error ts u = Some tu -> P tu) <-> Forall P ts.
  Proof.
    split.
    - intros H. apply Forall_forall. intros x Hx. apply In_nth_error in Hx as [n Hn]. apply (H n x Hn).
    - intros H u tu Hu. rewrite Forall_forall in H. apply H. eapply nth_error_In. exact Hu.
  Qed.

  Lemma inv_step st0 st1 a i st2 :
    Inv st0 st1 a -> step S L st1 i st2 ->
    (owner S L st1 = None /\ owner S L st2 = Some i /\ Inv st0 st2 (a ++ [i])) \/
    (~ (owner S L st1 = None /\ owner S L st2 = Some i) /\ Inv st0 st2 a).
  Proof.
    intros HI Hs. unfold Inv in HI. destruct (owner S L st1) as [t|] eqn:Eo.
    - (* somebody holds the mutex *)
      right. split; [intros [H _]; discriminate|].
      destruct HI as (a' & -> & tt & qt & Htt & Hqt & Hin & Hrun & [Hlen Hsame] & Hout).
      assert (Hi : i = t).
      { destruct (Nat.eq_dec i t) as [E|NE]; [exact E|exfalso].
        inversion Hs as [st i' l c Hn Ho|st i' l c Hn Ho|st i' l c f Hn]; subst.
        - congruence.
        - congruence.
        - specialize (Hout i _ NE Hn). cbn in Hout. apply outside_cases in Hout as [E|(c' & E & _)]; discriminate. }
      subst i. pose proof (nth_error_lt _ _ _ Htt) as Hlt.
      apply inside_cases in Hin as [(rest & Ec & Hrest)|(f & c' & Ec & Hc')].
      + (* Ul: the critical section ends; the state is the serial one *)
        inversion Hs as [st i' l c Hn Ho|st i' l c Hn Ho|st i' l c f Hn Ho]; subst; rewrite Htt in Hn; inversion Hn; subst; cbn [t_code t_loc] in *; try discriminate.
        inversion Ec; subst c. unfold Inv. cbn [owner]. split.
        * rewrite serial_snoc. unfold serial_step. rewrite Hqt. rewrite <- Hrun. cbn [run_cs]. f_equal.
          apply list_ext.
          -- rewrite !set_thread_length. exact Hlen.
          -- intros u. destruct (Nat.eq_dec u t) as [->|NE].
             ++ rewrite !set_thread_same; [reflexivity|rewrite <- Hlen; exact Hlt|exact Hlt].
             ++ rewrite !set_thread_other by exact NE. apply Hsame; exact NE.
        * cbn [thr]. apply Forall_nth. intros u tu Hu. destruct (Nat.eq_dec u t) as [->|NE].
          -- rewrite set_thread_same in Hu by exact Hlt. inversion Hu; subst. exact Hrest.
          -- rewrite set_thread_other in Hu by assumption. apply (Hout u tu NE Hu).
      + (* Acc inside the critical section *)
        inversion Hs as [st i' l c Hn Ho|st i' l c Hn Ho|st i' l c g Hn]; subst; rewrite Htt in Hn; inversion Hn; subst; cbn [t_code t_loc] in *; try discriminate.
        inversion Ec; subst. unfold Inv. cbn [owner]. rewrite Eo.
        exists a'. split; [reflexivity|]. cbn zeta.
        eexists. exists qt. cbn [thr sh]. split; [apply set_thread_same; exact Hlt|]. split; [exact Hqt|].
        cbn [t_code t_loc]. split; [exact Hc'|]. split; [rewrite <- Hrun; reflexivity|]. split.
        * split; [rewrite set_thread_length; exact Hlen|].
          intros u NE. rewrite set_thread_other by assumption. apply Hsame. exact NE.
        * intros u tu NE Hu. rewrite set_thread_other in Hu by assumption. apply (Hout u tu NE Hu).
    - (* the mutex is free: the only possible step is a Lk *)
      destruct HI as [Est Hall].
      assert (Hall' := proj2 (Forall_nth _ _) Hall).
      revert Est.
      inversion Hs as [st i' l c Hn Ho|st i' l c Hn Ho|st i' l c f Hn]; subst; intros Est.
      + left. split; [reflexivity|]. split; [reflexivity|].
        pose proof (nth_error_lt _ _ _ Hn) as Hlt.
        pose proof (Hall' _ _ Hn) as Hi. cbn in Hi. apply outside_cases in Hi as [E|(c' & E & Hc')]; [discriminate|].
        inversion E; subst c'.
        unfold Inv. cbn [owner]. exists a. split; [reflexivity|]. cbn zeta. rewrite <- Est.
        eexists. eexists. cbn [thr sh]. split; [apply set_thread_same; exact Hlt|]. split; [exact Hn|].
        cbn [t_code t_loc]. split; [exact Hc'|]. split; [reflexivity|]. split.
        * split; [apply set_thread_length|]. intros u NE. apply set_thread_other; assumption.
        * intros u tu NE Hu. rewrite set_thread_other in Hu by assumption. apply (Hall' u tu Hu).
      + congruence.
      + exfalso. pose proof (Hall' _ _ Hn) as Hi. cbn in Hi. apply outside_cases in Hi as [E|(c' & E & _)]; discriminate.
  Qed.

  Lemma inv_init st0 : well_locked_state S L st0 -> Inv st0 st0 [].
  Proof. intros [Ho Hall]. unfold Inv. rewrite Ho. split; [reflexivity|exact Hall]. Qed.

  Lemma acq_order_inv st0 tr st a : well_locked_state S L st0 -> acq_order S L st0 tr st a -> Inv st0 st a.
  Proof.
    intros Hw H. induction H as [st|st tr st1 i st2 a H IH Hs Ho1 Ho2|st tr st1 i st2 a H IH Hs Hno].
    - apply inv_init. exact Hw.
    - destruct (inv_step _ _ _ _ _ (IH Hw) Hs) as [(_ & _ & HI)|(Hn & _)]; [exact HI|].
      exfalso. apply Hn. split; assumption.
    - destruct (inv_step _ _ _ _ _ (IH Hw) Hs) as [(H1 & H2 & _)|(_ & HI)]; [|exact HI].
      exfalso. apply Hno. split; assumption.
  Qed.

  Lemma exec_acq_order st0 tr st : exec S L st0 tr st -> exists a, acq_order S L st0 tr st a.
  Proof.
    intros H. induction H as [st|st tr st1 i st2 H [a IH] Hs].
    - exists []. constructor.
    - destruct (owner S L st1) as [t|] eqn:E1.
      + exists a. eapply acq_snoc_other; eauto. intros [H1 _]. congruence.
      + destruct (owner S L st2) as [t|] eqn:E2.
        * destruct (Nat.eq_dec t i) as [->|NE].
          -- exists (a ++ [i]). eapply acq_snoc_lock; eauto.
          -- exists a. eapply acq_snoc_other; eauto. intros [_ H2]. congruence.
        * exists a. eapply acq_snoc_other; eauto. intros [_ H2]. congruence.
  Qed.

  (* every interleaved execution of well-locked programs that ends with the mutex free is, state for state
     (shared cell, every thread's private state and remaining program), the serial execution of the method
     bodies in the order in which the mutex was acquired *)
  Theorem well_locked_linearizable st0 tr st :
    well_locked_state S L st0 -> exec S L st0 tr st -> owner S L st = None ->
    exists order, acq_order S L st0 tr st order /\ st = serial S L st0 order.
  Proof.
    intros Hw He Ho. destruct (exec_acq_order _ _ _ He) as [a Ha]. exists a. split; [exact Ha|].
    pose proof (acq_order_inv _ _ _ _ Hw Ha) as HI. unfold Inv in HI. rewrite Ho in HI. apply HI.
  Qed.

  (* mutual exclusion: while the mutex is held, only the holder can move *)
  Theorem only_holder_moves st0 tr st t i st' :
    well_locked_state S L st0 -> exec S L st0 tr st -> owner S L st = Some t -> step S L st i st' -> i = t.
  Proof.
    intros Hw He Ho Hs. destruct (exec_acq_order _ _ _ He) as [a Ha].
    pose proof (acq_order_inv _ _ _ _ Hw Ha) as HI. unfold Inv in HI. rewrite Ho in HI.
    destruct HI as (a' & -> & tt & qt & Htt & Hqt & Hin & Hrun & _ & Hout).
    destruct (Nat.eq_dec i t) as [E|NE]; [exact E|exfalso].
    inversion Hs as [s i' l c Hn Ho'|s i' l c Hn Ho'|s i' l c f Hn]; subst.
    - congruence.
    - congruence.
    - specialize (Hout i _ NE Hn). cbn in Hout. apply outside_cases in Hout as [E|(c' & E & _)]; discriminate.
  Qed.

  (* when every thread has run to completion the mutex is free *)
  Theorem finished_quiescent st0 tr st :
    well_locked_state S L st0 -> exec S L st0 tr st -> finished S L st -> owner S L st = None.
  Proof.
    intros Hw He Hf. destruct (exec_acq_order _ _ _ He) as [a Ha].
    pose proof (acq_order_inv _ _ _ _ Hw Ha) as HI. unfold Inv in HI.
    destruct (owner S L st) as [t|]; [exfalso|reflexivity].
    destruct HI as (a' & _ & tt & qt & Htt & _ & Hin & _).
    unfold finished in Hf. rewrite Forall_forall in Hf. apply nth_error_In in Htt. apply Hf in Htt.
    destruct Hin as (accs & rest & E & _). rewrite Htt in E. destruct accs; discriminate.
  Qed.
End Proofs.

(* The generic linearizability theorem instantiated with the bloom-filter model of C09:
   k goroutines, each issuing a sequence of the exported operations on one shared bloom.Filter.
   Every exported operation is  Lock; <the model's step>; Unlock  (that this is the shape of the Go
   methods is Props/C20.bloom_methods_well_locked, about Gen/LockIR.v). *)
From BU Require Import Lib.Bytes Bloom.Murmur3 Bloom.Bloom Bloom.BloomProofs Conc.LockEvents Conc.Conc Conc.ConcProofs.

Definition results := list bool.            (* what the thread's completed calls returned, oldest first *)
Notation binstr := (instr filter results).
Notation bthread := (thread filter results).
Notation bstate := (state filter results).

Definition acc_of (o : op) : results -> filter -> results * filter :=
  fun l s => (l ++ [snd (Bloom.step s o)], fst (Bloom.step s o)).

Definition body_of (o : op) : list binstr := [Lk; Acc (acc_of o); Ul].
Definition code_of (ops : list op) : list binstr := concat (map body_of ops).

(* abstract view of a quiescent state: the filter, and per thread (results so far, operations still to issue) *)
Definition astate := (filter * list (results * list op))%type.

Definition conc (a : astate) : bstate :=
  mkState (fst a) None (map (fun lp => mkThread (fst lp) (code_of (snd lp))) (snd a)).

Definition init (f0 : filter) (progs : list (list op)) : bstate := conc (f0, map (fun p => ([], p)) progs).

Fixpoint set_nth {A} (l : list A) (i : nat) (x : A) : list A :=
  match l, i with
  | [], _ => []
  | _ :: r, O => x :: r
  | y :: r, S k => y :: set_nth r k x
  end.

(* thread i issues its next operation, atomically *)
Definition astep (a : astate) (i : nat) : astate :=
  match nth_error (snd a) i with
  | Some (l, o :: p) => (fst (Bloom.step (fst a) o), set_nth (snd a) i (l ++ [snd (Bloom.step (fst a) o)], p))
  | _ => a
  end.

Definition issued (a : astate) (i : nat) : list op :=
  match nth_error (snd a) i with
  | Some (_, o :: _) => [o]
  | _ => []
  end.

(* the operations in the order in which they took effect *)
Fixpoint lin_ops (a : astate) (order : list nat) : list op :=
  match order with
  | [] => []
  | i :: r => issued a i ++ lin_ops (astep a i) r
  end.

Lemma well_locked_code_of ops : well_locked_code filter results (code_of ops).
Proof.
  exists (map body_of ops). split; [reflexivity|]. apply Forall_forall. intros b Hb.
  apply in_map_iff in Hb as (o & <- & _). exists [Acc (acc_of o)]. split; reflexivity.
Qed.

Lemma conc_well_locked a : well_locked_state filter results (conc a).
Proof.
  split; [reflexivity|]. cbn [conc thr]. apply Forall_forall. intros t Ht.
  apply in_map_iff in Ht as (lp & <- & _). apply well_locked_code_of.
Qed.

Lemma set_thread_map (l : list (results * list op)) i x :
  set_thread filter results (map (fun lp => mkThread (fst lp) (code_of (snd lp))) l) i (mkThread (fst x) (code_of (snd x)))
  = map (fun lp => mkThread (fst lp) (code_of (snd lp))) (set_nth l i x).
Proof.
  revert i. induction l as [|y r IH]; intros [|k]; cbn [map set_thread set_nth]; try reflexivity.
  f_equal. apply IH.
Qed.

Lemma set_nth_same {A} (l : list A) i x : nth_error l i = Some x -> set_nth l i x = l.
Proof.
  revert i. induction l as [|y r IH]; intros [|k] H; cbn [set_nth nth_error] in *; try discriminate; try congruence.
  f_equal. apply IH. exact H.
Qed.

Lemma serial_step_conc a i : serial_step filter results (conc a) i = conc (astep a i).
Proof.
  destruct a as [f tl]. unfold serial_step, astep. cbn [conc thr sh fst snd].
  rewrite nth_error_map. destruct (nth_error tl i) as [[l p]|] eqn:E; cbn [option_map]; [|reflexivity].
  cbn [t_code t_loc fst snd]. destruct p as [|o p].
  - cbn [code_of map concat run_cs]. unfold conc. cbn [fst snd]. f_equal.
    change (mkThread l []) with (mkThread (fst (l, @nil op)) (code_of (snd (l, @nil op)))).
    rewrite set_thread_map, set_nth_same by exact E. reflexivity.
  - cbn [code_of map concat body_of app run_cs acc_of fst snd]. unfold conc. cbn [fst snd]. f_equal.
    change (mkThread (l ++ [snd (Bloom.step f o)]) (concat (map body_of p)))
      with (mkThread (fst (l ++ [snd (Bloom.step f o)], p)) (code_of (snd (l ++ [snd (Bloom.step f o)], p)))).
    apply set_thread_map.
Qed.

Lemma serial_conc order : forall a, serial filter results (conc a) order = conc (fold_left astep order a).
Proof.
  induction order as [|i r IH]; intros a; [reflexivity|].
  unfold serial in *. cbn [fold_left]. rewrite serial_step_conc. apply IH.
Qed.

Lemma astep_filter a i : fst (astep a i) = final (fst a) (issued a i).
Proof.
  unfold astep, issued. destruct (nth_error (snd a) i) as [[l [|o p]]|]; try reflexivity.
  cbn [fst]. rewrite run_cons. reflexivity.
Qed.

Lemma fold_astep_filter order : forall a, fst (fold_left astep order a) = final (fst a) (lin_ops a order).
Proof.
  induction order as [|i r IH]; intros a; [reflexivity|].
  cbn [fold_left lin_ops]. rewrite IH, final_app, astep_filter. reflexivity.
Qed.

(* every operation of every program is either in the linearised list or still to be issued, and nothing else is *)
Lemma nth_error_set_nth_same {A} (l : list A) i x : (i < length l)%nat -> nth_error (set_nth l i x) i = Some x.
Proof.
  revert i. induction l as [|y r IH]; intros [|k] H; cbn [set_nth nth_error length] in *; try lia; [reflexivity|].
  apply IH. lia.
Qed.
Lemma nth_error_set_nth_other {A} (l : list A) i u x : u <> i -> nth_error (set_nth l i x) u = nth_error l u.
Proof.
  revert i u. induction l as [|y r IH]; intros [|k] [|v] H; cbn [set_nth nth_error]; try reflexivity; try lia.
  apply IH. lia.
Qed.

Definition remaining (a : astate) (t : nat) : list op :=
  match nth_error (snd a) t with Some (_, p) => p | None => [] end.

Lemma issued_or_remaining a i t o :
  In o (remaining a t) <-> (In o (issued a i) /\ i = t) \/ In o (remaining (astep a i) t).
Proof.
  unfold remaining, issued, astep.
  destruct (nth_error (snd a) i) as [[l [|o1 p]]|] eqn:E.
  - split; [intros H; right; exact H|intros [[[] _]|H]; exact H].
  - cbn [snd]. destruct (Nat.eq_dec t i) as [->|NE].
    + rewrite E. rewrite nth_error_set_nth_same by (apply nth_error_Some; congruence).
      split.
      * intros [<-|H]; [left; split; [left; reflexivity|reflexivity]|right; exact H].
      * intros [[[<-|[]] _]|H]; [left; reflexivity|right; exact H].
    + rewrite nth_error_set_nth_other by exact NE.
      split; [intros H; right; exact H|intros [[_ Heq]|H]; [congruence|exact H]].
  - split; [intros H; right; exact H|intros [[[] _]|H]; exact H].
Qed.

Lemma lin_ops_complete order : forall a t o,
  In o (remaining a t) -> In o (lin_ops a order) \/ In o (remaining (fold_left astep order a) t).
Proof.
  induction order as [|i r IH]; intros a t o H; [right; exact H|].
  cbn [lin_ops fold_left]. apply (issued_or_remaining a i t o) in H as [[H _]|H].
  - left. apply in_or_app. left. exact H.
  - destruct (IH _ _ _ H) as [H1|H1]; [left; apply in_or_app; right; exact H1|right; exact H1].
Qed.

Lemma lin_ops_sound order : forall a o, In o (lin_ops a order) -> exists t, In o (remaining a t).
Proof.
  induction order as [|i r IH]; intros a o H; [destruct H|].
  cbn [lin_ops] in H. apply in_app_or in H as [H|H].
  - exists i. apply (issued_or_remaining a i i o). left. split; [exact H|reflexivity].
  - destruct (IH _ _ H) as [t Ht]. exists t. apply (issued_or_remaining a i t o). right. exact Ht.
Qed.

Lemma code_of_nil p : code_of p = [] -> p = [].
Proof. destruct p; [reflexivity|discriminate]. Qed.

Lemma finished_remaining a t : finished filter results (conc a) -> remaining a t = [].
Proof.
  intros H. unfold remaining. destruct (nth_error (snd a) t) as [[l p]|] eqn:E; [|reflexivity].
  unfold finished in H. rewrite Forall_forall in H.
  apply code_of_nil. apply (H (mkThread l (code_of p))). cbn [conc thr].
  apply in_map_iff. exists (l, p). split; [reflexivity|]. eapply nth_error_In. exact E.
Qed.

Lemma remaining_init f0 progs t p : nth_error progs t = Some p -> remaining (f0, map (fun p => ([], p)) progs) t = p.
Proof. intros H. unfold remaining. cbn [snd]. rewrite nth_error_map, H. reflexivity. Qed.

Lemma remaining_init_in f0 progs t o :
  In o (remaining (f0, map (fun p => ([], p)) progs) t) -> exists p, nth_error progs t = Some p /\ In o p.
Proof.
  unfold remaining. cbn [snd]. rewrite nth_error_map. destruct (nth_error progs t) as [p|]; cbn [option_map]; [|intros []].
  intros H. exists p. split; [reflexivity|exact H].
Qed.

(* ---- any complete concurrent run = the model's sequential run of some interleaving of the programs ---- *)
Theorem bloom_linearizable f0 progs tr st :
  exec filter results (init f0 progs) tr st -> finished filter results st ->
  exists order ops,
    acq_order filter results (init f0 progs) tr st order /\
    sh filter results st = final f0 ops /\
    (forall t p o, nth_error progs t = Some p -> In o p -> In o ops) /\
    (forall o, In o ops -> exists t p, nth_error progs t = Some p /\ In o p).
Proof.
  intros He Hf. unfold init in *.
  set (a0 := (f0, map (fun p : list op => (@nil bool, p)) progs)) in *.
  pose proof (finished_quiescent _ _ _ _ _ (conc_well_locked a0) He Hf) as Hq.
  destruct (well_locked_linearizable _ _ _ _ _ (conc_well_locked a0) He Hq) as (order & Ha & Est).
  rewrite serial_conc in Est. exists order, (lin_ops a0 order). split; [exact Ha|]. split; [|split].
  - rewrite Est. cbn [conc sh]. apply fold_astep_filter.
  - intros t p o Hp Ho. rewrite <- (remaining_init f0 progs t p Hp) in Ho.
    destruct (lin_ops_complete order a0 t o Ho) as [H|H]; [exact H|].
    rewrite Est in Hf. rewrite (finished_remaining _ t Hf) in H. destruct H.
  - intros o Ho. destruct (lin_ops_sound order a0 o Ho) as [t Ht]. apply remaining_init_in in Ht as (p & Hp & Hi). eauto.
Qed.

(* no lost insertion: if nobody reloads or unloads, then after all goroutines are done every item that any of
   them inserted is reported present *)
Theorem no_lost_insertion f0 progs tr st t p o x :
  len_ok f0 -> is_loaded f0 = true ->
  Forall no_reset progs ->
  exec filter results (init f0 progs) tr st -> finished filter results st ->
  nth_error progs t = Some p -> In o p -> item_of o = Some x ->
  matches (sh filter results st) x = true.
Proof.
  intros Hok Hl Hn He Hf Hp Ho Hi.
  destruct (bloom_linearizable f0 progs tr st He Hf) as (order & ops & _ & -> & Hc & Hs).
  apply (inserted_items_match f0 ops o x); try assumption.
  - apply Forall_forall. intros o1 Ho1. destruct (Hs o1 Ho1) as (t1 & p1 & Hp1 & Hi1).
    rewrite Forall_forall in Hn. apply nth_error_In in Hp1. specialize (Hn p1 Hp1).
    unfold no_reset in Hn. rewrite Forall_forall in Hn. apply Hn. exact Hi1.
  - apply (Hc t p o Hp Ho).
Qed.

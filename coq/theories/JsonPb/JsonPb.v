(* Model of the two JSON tree rewriters of jsonpb/jsonpb.go: convertBase64 (Marshal side) and
   convertHex (Unmarshal side).  A decoded JSON document (what encoding/json puts into an
   interface{}) is a [json] tree.  Go rewrites the tree in place and returns nothing; the model
   returns the rewritten tree in [res], so that every Go operation that can panic (index, unchecked
   type assertion) is a checked primitive returning [Panic].  Type switches and comma-ok assertions
   cannot panic in Go and are plain matches here.  Integer literals come from Gen.Xjsonpb.
   The codecs (encoding/base64, encoding/hex, chainhash) are Section variables: they are
   dependencies; executable versions for the correspondence run are in JsonPb/Codecs.v. *)
From BU Require Import Lib.Bytes Lib.PolyMod Gen.Xjsonpb.

Inductive json : Type :=
| JNull
| JBool (b : bool)
| JNum (text : list N)                 (* a float64; never inspected by the rewriters, kept as its decimal text *)
| JStr (s : list N)                    (* string, as bytes *)
| JArr (l : list json)                 (* []interface{} *)
| JObj (l : list (list N * json)).     (* map[string]interface{}: association list, keys distinct *)

(* ---------- checked primitives ---------- *)
(* v.(string) : panics when v is not a string *)
Definition assert_string (v : json) : res (list N) :=
  match v with JStr s => Ok s | _ => Panic 4 end.
(* s, ok := v.(string) : never panics *)
Definition string_ok (v : json) : option (list N) :=
  match v with JStr s => Some s | _ => None end.
(* d[i] *)
Definition index (d : list json) (i : N) : res json := nth_res d (N.to_nat i).

Section Rewriters.
  (* which function's literals: lits_convertBase64 = [32;0;0;32], lits_convertHex = [64;0;0;64]
     (map-branch length test, `len(d) > 0`, `d[0]`, array-branch length test) *)
  Variable lits : list Z.
  (* what happens to a string value in the map branch / in the array branch: Some s' when the Go code
     assigns d[k] = s' (resp. d[i] = s'), None when it leaves the value alone *)
  Variable conv_map conv_arr : list N -> option (list N).

  Definition subst (f : list N -> option (list N)) (s : list N) : json :=
    match f s with Some s' => JStr s' | None => JStr s end.

  (* for i, v := range d { s, ok := v.(string); if !ok { continue }; ... d[i] = ... } *)
  Fixpoint string_loop (d : list json) : res (list json) :=
    match d with
    | [] => Ok []
    | v :: t =>
        match string_ok v with
        | None => do t' <- string_loop t ;; Ok (v :: t')
        | Some s => do t' <- string_loop t ;; Ok (subst conv_arr s :: t')
        end
    end.

  (* the loop as it was before the repair: for i, s := range d { ... s.(string) ... } *)
  Fixpoint string_loop_old (d : list json) : res (list json) :=
    match d with
    | [] => Ok []
    | v :: t =>
        do s <- assert_string v ;;
        do t' <- string_loop_old t ;;
        Ok (subst conv_arr s :: t')
    end.

  (* [loop] selects the string-array loop (current or historical) *)
  Section WithLoop.
    Variable loop : list json -> res (list json).

    Fixpoint rewrite (j : json) : res json :=
      match j with
      | JObj kvs =>
          (* for k, v := range d { switch tv := v.(type) { ... } }: entries are independent of each other *)
          do kvs' <- (fix entries (l : list (list N * json)) : res (list (list N * json)) :=
                        match l with
                        | [] => Ok []
                        | (k, v) :: t =>
                            match v with
                            | JStr tv => do t' <- entries t ;; Ok ((k, subst conv_map tv) :: t')
                            | JObj _ | JArr _ => do v' <- rewrite v ;; do t' <- entries t ;; Ok ((k, v') :: t')
                            | JNull => entries t                                  (* delete(d, k) *)
                            | _ => do t' <- entries t ;; Ok ((k, v) :: t')
                            end
                        end) kvs ;;
          Ok (JObj kvs')
      | JArr d =>
          if (lit lits 1 <? N.of_nat (length d)) then        (* if len(d) > 0 *)
            do first <- index d (lit lits 2) ;;              (* switch d[0].(type) *)
            match first with
            | JStr _ => do d' <- loop d ;; Ok (JArr d')
            | JObj _ | JArr _ =>
                (* for _, t := range d { convert(t) } : convert on a scalar is a no-op *)
                do d' <- (fix elems (l : list json) : res (list json) :=
                            match l with
                            | [] => Ok []
                            | x :: t => do x' <- rewrite x ;; do t' <- elems t ;; Ok (x' :: t')
                            end) d ;;
                Ok (JArr d')
            | _ => Ok (JArr d)
            end
          else Ok (JArr d)
      | _ => Ok j
      end.
  End WithLoop.

  Definition convert : json -> res json := rewrite string_loop.
  Definition convert_old : json -> res json := rewrite string_loop_old.
End Rewriters.

Section Codecs.
  Variable b64_decode : list N -> option (list N).   (* base64.StdEncoding.DecodeString; Some iff err == nil *)
  Variable b64_encode : list N -> list N.            (* base64.StdEncoding.EncodeToString *)
  Variable hex_decode : list N -> option (list N).   (* hex.DecodeString; Some iff err == nil *)
  Variable hex_encode : list N -> list N.            (* hex.EncodeToString *)
  Variable hash_from_str : list N -> option (list N). (* chainhash.NewHashFromStr, then CloneBytes *)
  Variable hash_string : list N -> list N.           (* chainhash.Hash.String *)

  (* chainhash.NewHash: fails iff the length is not HashSize *)
  Definition new_hash (b : list N) : option (list N) :=
    if (length b =? 32)%nat then Some b else None.

  (* string value on the Marshal side; [n] is the literal of `len(decoded) == 32` *)
  Definition b64_value (n : N) (tv : list N) : option (list N) :=
    match b64_decode tv with
    | Some decoded =>
        if N.of_nat (length decoded) =? n then
          match new_hash decoded with Some ch => Some (hash_string ch) | None => None end
        else Some (hex_encode decoded)
    | None => None
    end.

  (* string value on the Unmarshal side; [n] is the literal of `len(tv) == 64` *)
  Definition hex_value (n : N) (tv : list N) : option (list N) :=
    let fallback := match hex_decode tv with Some d => Some (b64_encode d) | None => None end in
    match hash_from_str tv with
    | Some ch => if N.of_nat (length tv) =? n then Some (b64_encode ch) else fallback
    | None => fallback
    end.

  Definition convert_base64 : json -> res json :=
    convert lits_convertBase64 (b64_value (lit lits_convertBase64 0)) (b64_value (lit lits_convertBase64 3)).
  Definition convert_hex : json -> res json :=
    convert lits_convertHex (hex_value (lit lits_convertHex 0)) (hex_value (lit lits_convertHex 3)).

  (* the functions as they were before commit ab5eec7 *)
  Definition convert_base64_old : json -> res json :=
    convert_old lits_convertBase64 (b64_value (lit lits_convertBase64 0)) (b64_value (lit lits_convertBase64 3)).
  Definition convert_hex_old : json -> res json :=
    convert_old lits_convertHex (hex_value (lit lits_convertHex 0)) (hex_value (lit lits_convertHex 3)).
End Codecs.

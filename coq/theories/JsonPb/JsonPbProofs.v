(* Proofs about the jsonpb tree rewriters: the current functions return on every tree (no panic);
   the historical array loop panics on a heterogeneous array. *)
From BU Require Import Lib.Bytes Lib.PolyMod Gen.Xjsonpb JsonPb.JsonPb.
From Coq Require Import ZifyBool ZifyN ZifyNat.

(* ---------- nested induction principle for json ---------- *)
Section JsonInd.
  Variable P : json -> Prop.
  Hypothesis Hnull : P JNull.
  Hypothesis Hbool : forall b, P (JBool b).
  Hypothesis Hnum : forall t, P (JNum t).
  Hypothesis Hstr : forall s, P (JStr s).
  Hypothesis Harr : forall l, Forall P l -> P (JArr l).
  Hypothesis Hobj : forall l, Forall (fun kv => P (snd kv)) l -> P (JObj l).

  Fixpoint json_nested_ind (j : json) : P j :=
    match j with
    | JNull => Hnull
    | JBool b => Hbool b
    | JNum t => Hnum t
    | JStr s => Hstr s
    | JArr l =>
        Harr l ((fix go (l : list json) : Forall P l :=
                   match l with
                   | [] => Forall_nil P
                   | x :: t => Forall_cons x (json_nested_ind x) (go t)
                   end) l)
    | JObj l =>
        Hobj l ((fix go (l : list (list N * json)) : Forall (fun kv => P (snd kv)) l :=
                   match l with
                   | [] => Forall_nil _
                   | kv :: t => Forall_cons kv (json_nested_ind (snd kv)) (go t)
                   end) l)
    end.
End JsonInd.

(* ---------- the literal obligations (re-checked against the source on every run) ---------- *)
(* `if len(d) > 0 { switch d[0] ... }`: the index used is covered by the guard *)
Lemma lits_guard_base64 : (lit lits_convertBase64 2 <=? lit lits_convertBase64 1) = true.
Proof. vm_compute. reflexivity. Qed.
Lemma lits_guard_hex : (lit lits_convertHex 2 <=? lit lits_convertHex 1) = true.
Proof. vm_compute. reflexivity. Qed.

Section NoPanic.
  Variable lits : list Z.
  Variable conv_map conv_arr : list N -> option (list N).
  Hypothesis Hguard : (lit lits 2 <=? lit lits 1) = true.

  Lemma string_loop_ok d : exists d', string_loop conv_arr d = Ok d'.
  Proof.
    induction d as [|v t [t' IH]]; cbn [string_loop].
    - eauto.
    - destruct (string_ok v); rewrite IH; cbn [rbind]; eauto.
  Qed.

  Lemma index_guarded (d : list json) :
    (lit lits 1 <? N.of_nat (length d)) = true -> exists x, index d (lit lits 2) = Ok x.
  Proof.
    intros Hlt. unfold index, nth_res.
    destruct (nth_error d (N.to_nat (lit lits 2))) as [x|] eqn:E; [eauto|].
    apply nth_error_None in E. lia.
  Qed.

  (* the two inner loops, for an arbitrary function R in place of the recursive call *)
  Lemma elems_ok (R : json -> res json) l :
    Forall (fun j => exists j', R j = Ok j') l ->
    exists d',
      (fix elems (l0 : list json) : res (list json) :=
         match l0 with
         | [] => Ok []
         | x :: t => do x' <- R x ;; do t' <- elems t ;; Ok (x' :: t')
         end) l = Ok d'.
  Proof.
    intros IH. induction IH as [|x t [x' Hx] _ [t' Ht]]; [eauto|].
    rewrite Hx. cbn [rbind]. rewrite Ht. cbn [rbind]. eauto.
  Qed.

  Lemma entries_ok (R : json -> res json) l :
    Forall (fun kv : list N * json => exists j', R (snd kv) = Ok j') l ->
    exists kvs',
      (fix entries (l0 : list (list N * json)) : res (list (list N * json)) :=
         match l0 with
         | [] => Ok []
         | (k, v) :: t =>
             match v with
             | JStr tv => do t' <- entries t ;; Ok ((k, subst conv_map tv) :: t')
             | JObj _ | JArr _ => do v' <- R v ;; do t' <- entries t ;; Ok ((k, v') :: t')
             | JNull => entries t
             | _ => do t' <- entries t ;; Ok ((k, v) :: t')
             end
         end) l = Ok kvs'.
  Proof.
    intros IH. induction IH as [|[k v] t Hv _ [t' Ht]]; [eauto|].
    cbn [snd] in Hv. destruct Hv as [v' Hv].
    destruct v as [| b | n | s | a | o].
    - exists t'. exact Ht.
    - rewrite Ht. cbn [rbind]. eauto.
    - rewrite Ht. cbn [rbind]. eauto.
    - rewrite Ht. cbn [rbind]. eauto.
    - rewrite Hv. cbn [rbind]. rewrite Ht. cbn [rbind]. eauto.
    - rewrite Hv. cbn [rbind]. rewrite Ht. cbn [rbind]. eauto.
  Qed.

  Theorem convert_ok j : exists j', convert lits conv_map conv_arr j = Ok j'.
  Proof.
    unfold convert.
    induction j as [| b | t | s | l IH | l IH] using json_nested_ind; cbn [rewrite]; eauto.
    - (* array *)
      destruct (lit lits 1 <? N.of_nat (length l)) eqn:Hlen; [|eauto].
      destruct (index_guarded l Hlen) as [first Hfirst]. rewrite Hfirst. cbn [rbind].
      pose proof (elems_ok _ l IH) as Helems.
      destruct first; eauto.
      + destruct (string_loop_ok l) as [d' Hd]. rewrite Hd. cbn [rbind]. eauto.
      + destruct Helems as [d' Hd]. rewrite Hd. cbn [rbind]. eauto.
      + destruct Helems as [d' Hd]. rewrite Hd. cbn [rbind]. eauto.
    - (* object *)
      destruct (entries_ok _ l IH) as [kvs' Hk]. rewrite Hk. cbn [rbind]. eauto.
  Qed.
End NoPanic.

Section Top.
  Variable b64_decode : list N -> option (list N).
  Variable b64_encode : list N -> list N.
  Variable hex_decode : list N -> option (list N).
  Variable hex_encode : list N -> list N.
  Variable hash_from_str : list N -> option (list N).
  Variable hash_string : list N -> list N.

  (* for every JSON tree and whatever the codecs return, both rewriters return a tree *)
  Theorem jsonpb_convert_total (j : json) :
    (exists j', convert_base64 b64_decode hex_encode hash_string j = Ok j') /\
    (exists j', convert_hex b64_encode hex_decode hash_from_str j = Ok j').
  Proof.
    split.
    - apply convert_ok. exact lits_guard_base64.
    - apply convert_ok. exact lits_guard_hex.
  Qed.

  Theorem jsonpb_convert_no_panic (j : json) :
    is_panic (convert_base64 b64_decode hex_encode hash_string j) = false /\
    is_panic (convert_hex b64_encode hex_decode hash_from_str j) = false.
  Proof.
    destruct (jsonpb_convert_total j) as [[a Ha] [b Hb]]. rewrite Ha, Hb. auto.
  Qed.

  (* the loop as it was before the repair panics on ["ab", 1] (string first, then a number),
     in both rewriters and whatever the codecs do *)
  Definition old_witness : json := JArr [JStr [97; 98]; JNum [49]].

  Theorem jsonpb_old_refuted :
    convert_base64_old b64_decode hex_encode hash_string old_witness = Panic 4 /\
    convert_hex_old b64_encode hex_decode hash_from_str old_witness = Panic 4.
  Proof. split; reflexivity. Qed.

  (* ... and so does the document of the finding, {"a": ["ab", 1]} *)
  Theorem jsonpb_old_refuted_doc :
    convert_hex_old b64_encode hex_decode hash_from_str (JObj [([97], old_witness)]) = Panic 4.
  Proof. reflexivity. Qed.
End Top.

(* hypotheses are satisfiable / the statement is not vacuous: the repaired rewriter on the same tree *)
Example convert_hex_on_witness :
  forall b64e hd hfs, exists j', convert_hex b64e hd hfs old_witness = Ok j'.
Proof. intros. apply convert_ok. exact lits_guard_hex. Qed.

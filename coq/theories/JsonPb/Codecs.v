(* Executable versions of the codecs the jsonpb rewriters depend on (encoding/hex,
   encoding/base64 StdEncoding, chainhash), used to instantiate JsonPb's Section variables in the
   correspondence run.  They are dependencies of bchutil, not part of it: the no-panic theorem is
   proved for arbitrary codec functions; these instances are validated against the Go ones on every
   run through the rewritten trees. *)
From BU Require Import Lib.Bytes JsonPb.JsonPb.

(* ---------- hex ---------- *)
Definition hex_digit (v : N) : N := if v <? 10 then 48 + v else 87 + v.     (* 0-9 a-f *)
Definition hex_encode (b : list N) : list N :=
  flat_map (fun x => [hex_digit (x / 16); hex_digit (x mod 16)]) b.

Definition hex_val (c : N) : option N :=
  if (48 <=? c) && (c <=? 57) then Some (c - 48)
  else if (97 <=? c) && (c <=? 102) then Some (c - 87)
  else if (65 <=? c) && (c <=? 70) then Some (c - 55)
  else None.

(* hex.DecodeString: any invalid character or an odd length is an error *)
Fixpoint hex_decode (s : list N) : option (list N) :=
  match s with
  | [] => Some []
  | a :: b :: t =>
      match hex_val a, hex_val b, hex_decode t with
      | Some x, Some y, Some r => Some (x * 16 + y :: r)
      | _, _, _ => None
      end
  | _ => None
  end.

(* ---------- chainhash ---------- *)
(* Hash.String: hex of the byte-reversed hash *)
Definition hash_string (h : list N) : list N := hex_encode (rev h).

(* NewHashFromStr (chainhash.Decode): at most 64 characters; an odd-length string gets a leading
   '0'; the decoded bytes are right-aligned in 32 bytes and the whole is byte-reversed *)
Definition hash_from_str (s : list N) : option (list N) :=
  if (64 <? length s)%nat then None else
  let s' := if Nat.even (length s) then s else 48 :: s in
  match hex_decode s' with
  | Some d => Some (rev (repeat 0 (32 - length d) ++ d))
  | None => None
  end.

(* ---------- base64 (standard alphabet, '=' padding) ---------- *)
Definition b64_char (v : N) : N :=
  if v <? 26 then 65 + v else if v <? 52 then 71 + v else if v <? 62 then v - 4 else if v =? 62 then 43 else 47.

Fixpoint b64_encode (b : list N) : list N :=
  match b with
  | [] => []
  | [x] => [b64_char (x / 4); b64_char ((x mod 4) * 16); 61; 61]
  | [x; y] => [b64_char (x / 4); b64_char ((x mod 4) * 16 + y / 16); b64_char ((y mod 16) * 4); 61]
  | x :: y :: z :: t =>
      b64_char (x / 4) :: b64_char ((x mod 4) * 16 + y / 16) :: b64_char ((y mod 16) * 4 + z / 64) :: b64_char (z mod 64)
      :: b64_encode t
  end.

Definition b64_val (c : N) : option N :=
  if (65 <=? c) && (c <=? 90) then Some (c - 65)
  else if (97 <=? c) && (c <=? 122) then Some (c - 71)
  else if (48 <=? c) && (c <=? 57) then Some (c + 4)
  else if c =? 43 then Some 62
  else if c =? 47 then Some 63
  else None.

(* Go's decoder: '\r' and '\n' are skipped wherever they occur; what remains must be quanta of four
   alphabet characters, the last of which may be "xx==" or "xxx="; the decoder is not strict, so
   the unused low bits of a padded quantum are ignored *)
Fixpoint b64_quanta (fuel : nat) (s : list N) : option (list N) :=
  match fuel with
  | O => None
  | S f =>
      match s with
      | [] => Some []
      | [a; b; 61; 61] =>
          match b64_val a, b64_val b with
          | Some x, Some y => Some [(x * 4 + y / 16) mod 256]
          | _, _ => None
          end
      | [a; b; c; 61] =>
          match b64_val a, b64_val b, b64_val c with
          | Some x, Some y, Some z => Some [(x * 4 + y / 16) mod 256; ((y mod 16) * 16 + z / 4) mod 256]
          | _, _, _ => None
          end
      | a :: b :: c :: d :: t =>
          match b64_val a, b64_val b, b64_val c, b64_val d, b64_quanta f t with
          | Some x, Some y, Some z, Some w, Some r =>
              Some ((x * 4 + y / 16) mod 256 :: ((y mod 16) * 16 + z / 4) mod 256 :: ((z mod 4) * 64 + w) mod 256 :: r)
          | _, _, _, _, _ => None
          end
      | _ => None
      end
  end.

Definition b64_decode (s : list N) : option (list N) :=
  let s' := filter (fun c => negb ((c =? 10) || (c =? 13))) s in
  b64_quanta (S (length s')) s'.

(* ---------- the rewriters with these codecs ---------- *)
Definition conv_base64 : json -> res json := convert_base64 b64_decode hex_encode hash_string.
Definition conv_hex : json -> res json := convert_hex b64_encode hex_decode hash_from_str.
Definition conv_base64_old : json -> res json := convert_base64_old b64_decode hex_encode hash_string.
Definition conv_hex_old : json -> res json := convert_hex_old b64_encode hex_decode hash_from_str.

(* ---------- structural equality of trees ---------- *)
Fixpoint json_eqb (a b : json) : bool :=
  match a, b with
  | JNull, JNull => true
  | JBool x, JBool y => Bool.eqb x y
  | JNum x, JNum y => list_eqb x y
  | JStr x, JStr y => list_eqb x y
  | JArr x, JArr y =>
      (fix go (l m : list json) : bool :=
         match l, m with
         | [], [] => true
         | p :: l', q :: m' => json_eqb p q && go l' m'
         | _, _ => false
         end) x y
  | JObj x, JObj y =>
      (fix go (l m : list (list N * json)) : bool :=
         match l, m with
         | [], [] => true
         | (k, p) :: l', (k', q) :: m' => list_eqb k k' && json_eqb p q && go l' m'
         | _, _ => false
         end) x y
  | _, _ => false
  end.

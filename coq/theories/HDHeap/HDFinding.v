(* The C15 finding, kept as a theorem: with the Neuter of before commit 4c97b03 (neuter_old, sharing the
   public-key, chain-code and fingerprint slices of the private key) the history
       m := NewMaster(seed); p := m.Neuter(); m.Zero(); observe p.String()
   contradicts key independence; with the repaired Neuter the same history agrees with the pure values. *)
From BU Require Import Lib.Bytes HDHeap.HDHeap HDHeap.HeapLemmas HDHeap.HDHeapProofs HDHeap.HDToy.

Lemma toy_pub_add_nil : forall il, exists e, d_pub_add toy il [] = Err e.
Proof. intros il. exists 4. reflexivity. Qed.
Lemma toy_parse_pub_nil : exists e, d_parse_pub toy [] = Err e.
Proof. exists 4. reflexivity. Qed.

(* the observation that goes wrong: operation 4 (String of the neutered key after the parent's Zero) *)
Theorem keys_independent_refuted_old :
  exists ops n o po,
    nth_error (snd (run_gen toy true init ops)) n = Some o /\
    nth_error (snd (trace toy [] ops)) n = Some (Some po) /\
    o <> po.
Proof.
  exists finding_history, 4%nat.
  eexists. eexists. split; [vm_compute; reflexivity|]. split; [vm_compute; reflexivity|].
  intros H. discriminate H.
Qed.

(* ... because the two keys' mutable slices overlap (the separation clause of keys_independent fails) *)
Theorem old_neuter_shares :
  let s := fst (run_gen toy true init [NewMaster seed16 0; Neuter 0]) in
  exists k k' a, nth_error (st_keys s) 0 = Some k /\ nth_error (st_keys s) 1 = Some k' /\
    In a (owned k) /\ In a (owned k') /\ s_len a <> 0%nat.
Proof.
  vm_compute. eexists. eexists. eexists. split; [reflexivity|]. split; [reflexivity|].
  split; [right; right; left; reflexivity|]. split; [right; left; reflexivity|]. discriminate.
Qed.

(* the repaired Neuter on the same history: every outcome is the pure one (an instance of
   keys_independent, here by evaluation) *)
Definition outcome_eqb (a b : outcome) : bool :=
  match a, b with
  | OCreated x, OCreated y | OSame x, OSame y => Nat.eqb x y
  | OErr x, OErr y => N.eqb x y
  | OBytes x, OBytes y => list_eqb x y
  | OZeroed, OZeroed | ODone, ODone => true
  | _, _ => false
  end.
Fixpoint agree_all (rs : list outcome) (ps : list (option outcome)) : bool :=
  match rs, ps with
  | [], [] => true
  | r :: rs', Some p :: ps' => outcome_eqb r p && agree_all rs' ps'
  | OErr _ :: rs', None :: ps' => agree_all rs' ps'
  | _, _ => false
  end.

Example finding_history_now_fine :
  agree_all (snd (run toy init finding_history)) (snd (trace toy [] finding_history)) = true.
Proof. vm_compute. reflexivity. Qed.

Example finding_history_old_not_fine :
  agree_all (snd (run_gen toy true init finding_history)) (snd (trace toy [] finding_history)) = false.
Proof. vm_compute. reflexivity. Qed.

(* a longer history touching every operation, on the current code *)
Definition tour : list op :=
  [NewMaster seed16 1; Child 0 5; Child 0 2147483649; Child 1 7; Neuter 1; Child 4 7; Neuter 3; StringOf 5; StringOf 6;
   Address 2; ECPubKey 2; Zero 1; StringOf 1; StringOf 4; StringOf 5; ECPrivKey 1; ECPrivKey 2; Child 1 3; Neuter 1;
   SetNet 4 0; StringOf 4; Zero 0; StringOf 2; StringOf 3; Child 2 1; Zero 4; StringOf 5; Neuter 4; Address 1].
Example tour_fine : agree_all (snd (run toy init tour)) (snd (trace toy [] tour)) = true.
Proof. vm_compute. reflexivity. Qed.

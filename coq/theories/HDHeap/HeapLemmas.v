(* Heap / slice lemmas for C15: reading through a slice is unaffected by allocation and by zeroing a
   disjoint slice; zeroing a slice makes it read all-zero and never un-zeroes anything. *)
From BU Require Import Lib.Bytes HDHeap.HDHeap.
From Coq Require Import ZifyBool ZifyN ZifyNat.

Definition disj (a b : slc) : Prop :=
  s_id a <> s_id b \/ (s_off a + s_len a <= s_off b)%nat \/ (s_off b + s_len b <= s_off a)%nat.

Lemma disj_sym a b : disj a b -> disj b a.
Proof. unfold disj. intuition. Qed.

(* ---------- list helpers ---------- *)
Lemma nth_skipn' {A} (o : nat) : forall (X : list A) p d, nth p (skipn o X) d = nth (o + p) X d.
Proof.
  induction o as [|o IH]; intros X p d; [reflexivity|].
  destruct X as [|x X]; [destruct p; reflexivity|]. cbn [skipn Nat.add nth]. apply IH.
Qed.

Lemma nth_firstn' {A} (n : nat) : forall (X : list A) p d, (p < n)%nat -> nth p (firstn n X) d = nth p X d.
Proof.
  induction n as [|n IH]; intros X p d Hp; [lia|].
  destruct X as [|x X]; [reflexivity|]. destruct p as [|p]; [reflexivity|]. cbn [firstn nth]. apply IH. lia.
Qed.

Lemma set_nth_length {A} (l : list A) : forall i x, length (set_nth l i x) = length l.
Proof. induction l as [|y l IH]; intros [|i] x; cbn [set_nth length]; auto. Qed.

Lemma set_nth_same {A} (l : list A) : forall i x, (i < length l)%nat -> nth_error (set_nth l i x) i = Some x.
Proof.
  induction l as [|y l IH]; intros [|i] x Hi; cbn [length] in Hi; try lia; cbn [set_nth nth_error]; auto.
  apply IH. lia.
Qed.

Lemma set_nth_other {A} (l : list A) : forall i j x, i <> j -> nth_error (set_nth l i x) j = nth_error l j.
Proof.
  induction l as [|y l IH]; intros [|i] [|j] x Hij; cbn [set_nth nth_error]; auto; try lia.
Qed.

Lemma set_nth_id {A} (l : list A) : forall i x, nth_error l i = Some x -> set_nth l i x = l.
Proof.
  induction l as [|y l IH]; intros [|i] x H; cbn [set_nth nth_error] in *; try discriminate; auto.
  - congruence.
  - f_equal. auto.
Qed.

Lemma set_nth_In {A} (l : list A) : forall i x y, In y (set_nth l i x) -> y = x \/ In y l.
Proof.
  induction l as [|z l IH]; intros [|i] x y H; cbn [set_nth] in H; try contradiction.
  - destruct H as [<-|H]; [auto | right; right; exact H].
  - destruct H as [<-|H]; [right; left; reflexivity|]. destruct (IH _ _ _ H); [auto | right; right; assumption].
Qed.

Lemma nth_error_In' {A} (l : list A) i x : nth_error l i = Some x -> In x l.
Proof. apply nth_error_In. Qed.

Lemma nth_error_lt {A} (l : list A) i x : nth_error l i = Some x -> (i < length l)%nat.
Proof. intros H. apply nth_error_Some. congruence. Qed.

(* ---------- zero_buf, upd ---------- *)
Lemma zero_buf_length b : forall off len, length (zero_buf off len b) = length b.
Proof.
  induction b as [|x b IH]; intros off len; [reflexivity|].
  cbn [zero_buf]. destruct off; [destruct len|]; cbn [length]; auto.
Qed.

Lemma zero_buf_nil off len : zero_buf off len [] = [].
Proof. reflexivity. Qed.

Lemma zero_buf_nth_in b : forall off len p d, (off <= p < off + len)%nat -> (p < length b)%nat ->
  nth p (zero_buf off len b) d = 0.
Proof.
  induction b as [|x b IH]; intros off len p d H1 H2; [simpl in H2; lia|].
  cbn [zero_buf]. destruct off as [|off].
  - destruct len as [|len]; [lia|]. destruct p as [|p]; [reflexivity|].
    cbn [nth]. apply IH; cbn [length] in H2; lia.
  - destruct p as [|p]; [lia|]. cbn [nth]. apply IH; cbn [length] in H2; lia.
Qed.

Lemma zero_buf_nth_out b : forall off len p d, ~ (off <= p < off + len)%nat ->
  nth p (zero_buf off len b) d = nth p b d.
Proof.
  induction b as [|x b IH]; intros off len p d H; [reflexivity|].
  cbn [zero_buf]. destruct off as [|off].
  - destruct len as [|len]; [reflexivity|]. destruct p as [|p]; [lia|].
    cbn [nth]. apply IH. lia.
  - destruct p as [|p]; [reflexivity|]. cbn [nth]. apply IH. lia.
Qed.

Lemma upd_length h : forall i f, length (upd h i f) = length h.
Proof. induction h as [|b h IH]; intros [|i] f; cbn [upd length]; auto. Qed.

Lemma nth_upd h : forall i j f, f [] = [] ->
  nth j (upd h i f) [] = if (j =? i)%nat then f (nth j h []) else nth j h [].
Proof.
  induction h as [|b h IH]; intros i j f Hf.
  - cbn [upd]. destruct j; cbn [nth]; destruct (_ =? _)%nat; auto.
  - destruct i as [|i], j as [|j]; cbn [upd nth Nat.eqb]; auto.
Qed.

Lemma nth_zero_slc h a j :
  nth j (zero_slc h a) [] = if (j =? s_id a)%nat then zero_buf (s_off a) (s_len a) (nth j h []) else nth j h [].
Proof. unfold zero_slc. apply nth_upd. reflexivity. Qed.

Lemma zero_slc_length h a : length (zero_slc h a) = length h.
Proof. apply upd_length. Qed.

Lemma zero_opt_length h o : length (zero_opt h o) = length h.
Proof. destruct o; [apply zero_slc_length | reflexivity]. Qed.

(* ---------- reading ---------- *)
Lemma rd_length h s : length (rd h s) = Nat.min (s_len s) (length (nth (s_id s) h []) - s_off s).
Proof. unfold rd. rewrite firstn_length, skipn_length. reflexivity. Qed.

Lemma rd_nth h s p d : (p < length (rd h s))%nat -> nth p (rd h s) d = nth (s_off s + p) (nth (s_id s) h []) d.
Proof.
  intros Hp. rewrite rd_length in Hp. unfold rd. rewrite nth_firstn' by lia. apply nth_skipn'.
Qed.

Lemma rd_zero_length h a b : length (rd (zero_slc h a) b) = length (rd h b).
Proof.
  rewrite !rd_length, nth_zero_slc. destruct (_ =? _)%nat; [rewrite zero_buf_length|]; reflexivity.
Qed.

Lemma rd_zero_disj h a b : disj a b -> rd (zero_slc h a) b = rd h b.
Proof.
  intros Hd. apply (nth_ext _ _ 0 0); [apply rd_zero_length|].
  intros p Hp. rewrite rd_nth by exact Hp. rewrite rd_zero_length in Hp. rewrite rd_nth by exact Hp.
  rewrite nth_zero_slc. destruct (Nat.eqb_spec (s_id b) (s_id a)) as [E|]; [|reflexivity].
  apply zero_buf_nth_out. rewrite rd_length in Hp. unfold disj in Hd. lia.
Qed.

Lemma rd_zero_same h a : rd (zero_slc h a) a = repeat 0 (length (rd h a)).
Proof.
  apply (nth_ext _ _ 0 0); [rewrite repeat_length; apply rd_zero_length|].
  intros p Hp. rewrite rd_nth by exact Hp. rewrite rd_zero_length in Hp.
  rewrite nth_zero_slc, Nat.eqb_refl. rewrite rd_length in Hp.
  rewrite zero_buf_nth_in by lia. symmetry. apply nth_repeat.
Qed.

Definition allz (l : list N) : Prop := l = repeat 0 (length l).

Lemma allz_nth l : allz l <-> forall p, (p < length l)%nat -> nth p l 0 = 0.
Proof.
  unfold allz. split.
  - intros H p Hp. rewrite H. apply nth_repeat.
  - intros H. apply (nth_ext _ _ 0 0); [rewrite repeat_length; reflexivity|].
    intros p Hp. rewrite H by exact Hp. symmetry. apply nth_repeat.
Qed.

Lemma rd_zero_allz h a b : allz (rd h b) -> allz (rd (zero_slc h a) b).
Proof.
  rewrite !allz_nth. intros H p Hp. rewrite rd_nth by exact Hp. rewrite rd_zero_length in Hp.
  specialize (H p Hp). rewrite rd_nth in H by exact Hp.
  rewrite nth_zero_slc. destruct (Nat.eqb_spec (s_id b) (s_id a)) as [E|]; [|exact H].
  destruct (Nat.le_gt_cases (s_off a) (s_off b + p)) as [H1|H1];
    [destruct (Nat.lt_ge_cases (s_off b + p) (s_off a + s_len a)) as [H2|H2]|].
  - apply zero_buf_nth_in; [lia|]. rewrite rd_length in Hp. lia.
  - rewrite zero_buf_nth_out by lia. exact H.
  - rewrite zero_buf_nth_out by lia. exact H.
Qed.

Lemma rd_zero_same_allz h a : allz (rd (zero_slc h a) a).
Proof. unfold allz. rewrite rd_zero_same, repeat_length. reflexivity. Qed.

(* allocation *)
Lemma rd_app h ext s : (s_id s < length h)%nat -> rd (h ++ ext) s = rd h s.
Proof. intros H. unfold rd. rewrite app_nth1 by exact H. reflexivity. Qed.

Lemma rdo_app h ext o : (forall s, o = Some s -> (s_id s < length h)%nat) -> rdo (h ++ ext) o = rdo h o.
Proof. intros H. destruct o as [s|]; [|reflexivity]. apply rd_app. auto. Qed.

Lemma rd_sub_new h ext j off len :
  rd (h ++ ext) (sub (length h + j) off len) = firstn len (skipn off (nth j ext [])).
Proof. unfold rd, sub. cbn [s_id s_off s_len]. rewrite app_nth2 by lia. replace (length h + j - length h)%nat with j by lia. reflexivity. Qed.

Lemma rd_whole_new h ext j b : nth j ext [] = b -> rd (h ++ ext) (whole (length h + j) b) = b.
Proof. intros E. unfold whole. fold (sub (length h + j) 0 (length b)). rewrite rd_sub_new, E. cbn [skipn]. apply firstn_all. Qed.

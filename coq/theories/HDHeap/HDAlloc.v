(* C15, allocation reading of "the buffers that held its key material, cached public key, chain code ...
   contain only zero bytes" (review round 2, after /repo 593a81b).

   HDHeapProofs.zero_erases shows that every SLICE a key held reads all-zero after Zero, in any state.  Here the
   statement is about the whole ALLOCATIONS (heap buffers) those slices live in.  That needs a fact about
   reachable states only: how every operation lays out the key, the cached public key and the chain code.

     shape:  the cached public key is always an allocation of its own; key and chain code are
       lay_own     allocations of their own                      (Child, Neuter, NewExtendedKey on fresh buffers)
       lay_master  the two halves of ONE allocation, which they tile   (NewMaster: lr[:32], lr[32:])
       lay_parsed  ranges [45|46,78) and [13,45) of the decoded payload of NewKeyFromString

   [alloc_inv] is preserved by every operation; hence [zero_erases_allocations]: after Zero on a live key of a
   reachable state the allocations of the cached public key, of the key and of the chain code are all-zero,
   EXCEPT for a parsed key, whose key / chain code / fingerprint / version are ranges of the one 82-byte decoded
   payload: there the four ranges are zero (zero_erases) and the depth byte, the child number, the 0x00 prefix of a
   private key and the checksum -- public data -- stay.  The parent fingerprint is not covered by the allocation
   statement either: for a derived key it is the first four bytes of a fresh 20-byte HASH160 of the parent's PUBLIC
   key, whose other 16 bytes stay.

   [zero_allocation_refuted_old]: with the layout of before 593a81b (child_old: chain code = ilr[32:]) the
   allocation that holds the chain code of a derived key still contains Il after Zero. *)
From BU Require Import Lib.Bytes Lib.PolyMod Gen.Nets Gen.Xhdkeychain HDHeap.HDHeap HDHeap.HeapLemmas HDHeap.HDHeapProofs HDHeap.HDToy.
From Coq Require Import ZifyBool ZifyN ZifyNat.

Definition buf_len (h : heap) (id : nat) : nat := length (nth id h []).
Definition whole_of (h : heap) (a : slc) : Prop := s_off a = 0%nat /\ s_len a = buf_len h (s_id a).
Definition owhole (h : heap) (o : option slc) : Prop := forall a, o = Some a -> whole_of h a.

Definition lay_own (h : heap) (xk : xkey) : Prop := owhole h (x_key xk) /\ owhole h (x_cc xk).
Definition lay_master (h : heap) (xk : xkey) : Prop :=
  exists id n m, x_key xk = Some (sub id 0 n) /\ x_cc xk = Some (sub id n m) /\ buf_len h id = (n + m)%nat.
Definition lay_parsed (xk : xkey) : Prop :=
  exists id, x_cc xk = Some (sub id 13 32) /\ (x_key xk = Some (sub id 45 33) \/ x_key xk = Some (sub id 46 32)).

Definition shape (h : heap) (xk : xkey) : Prop :=
  owhole h (x_pub xk) /\ (x_key xk = None \/ lay_own h xk \/ lay_master h xk \/ lay_parsed xk).

Definition bounded (h : heap) (xk : xkey) : Prop := forall a, In a (owned xk) -> (s_id a < length h)%nat.

Definition alloc_inv (s : state) : Prop :=
  forall xk, In xk (st_keys s) -> shape (st_heap s) xk /\ bounded (st_heap s) xk.

(* the heap only grows, and buffers keep their lengths *)
Definition ext (h h' : heap) : Prop :=
  (length h <= length h')%nat /\ forall i, (i < length h)%nat -> buf_len h' i = buf_len h i.

Lemma ext_refl h : ext h h.
Proof. split; auto. Qed.

Lemma ext_trans h1 h2 h3 : ext h1 h2 -> ext h2 h3 -> ext h1 h3.
Proof. intros [L1 B1] [L2 B2]. split; [lia|]. intros i Hi. rewrite B2 by lia. apply B1. exact Hi. Qed.

Lemma ext_app h l : ext h (h ++ l).
Proof. split; [rewrite app_length; lia|]. intros i Hi. unfold buf_len. rewrite app_nth1 by exact Hi. reflexivity. Qed.

Lemma buf_len_zero_opt h o i : buf_len (zero_opt h o) i = buf_len h i.
Proof.
  destruct o as [a|]; [|reflexivity]. cbn [zero_opt]. unfold buf_len. rewrite nth_zero_slc.
  destruct (_ =? _)%nat; [apply zero_buf_length | reflexivity].
Qed.

Lemma ext_zero h xk : ext h (zero_heap h xk).
Proof.
  split; [rewrite zero_heap_length; lia|]. intros i _. unfold zero_heap. rewrite !buf_len_zero_opt. reflexivity.
Qed.

Lemma in_owned_key xk a : x_key xk = Some a -> In a (owned xk).
Proof. intros H. apply in_owned. auto. Qed.
Lemma in_owned_pub xk a : x_pub xk = Some a -> In a (owned xk).
Proof. intros H. apply in_owned. auto. Qed.
Lemma in_owned_cc xk a : x_cc xk = Some a -> In a (owned xk).
Proof. intros H. apply in_owned. auto. Qed.

Lemma whole_ext h h' a : ext h h' -> (s_id a < length h)%nat -> whole_of h a -> whole_of h' a.
Proof. intros [_ B] Hb [H0 Hl]. split; [exact H0|]. rewrite B by exact Hb. exact Hl. Qed.

Lemma shape_ext h h' xk : ext h h' -> bounded h xk -> shape h xk -> shape h' xk /\ bounded h' xk.
Proof.
  intros E Hb [Hp Hk]. split; [|intros a Ha; specialize (Hb a Ha); destruct E; lia].
  split.
  - intros a Ha. apply (whole_ext h); [exact E | apply Hb, in_owned_pub, Ha | apply Hp, Ha].
  - destruct Hk as [H|[[H1 H2]|[(id & n & m & Hkk & Hcc & Hl)|H]]]; [auto| | |auto].
    + right. left. split; intros a Ha.
      * apply (whole_ext h); [exact E | apply Hb, in_owned_key, Ha | apply H1, Ha].
      * apply (whole_ext h); [exact E | apply Hb, in_owned_cc, Ha | apply H2, Ha].
    + right. right. left. exists id, n, m. split; [exact Hkk|]. split; [exact Hcc|].
      destruct E as [_ B]. rewrite B; [exact Hl|]. apply (Hb _ (in_owned_key _ _ Hkk)).
Qed.

Lemma alloc_inv_ext h h' ks : ext h h' -> alloc_inv {| st_heap := h; st_keys := ks |} -> alloc_inv {| st_heap := h'; st_keys := ks |}.
Proof.
  intros E I xk Hx. cbn [st_heap st_keys] in *. destruct (I xk Hx) as [S B]. apply (shape_ext h); assumption.
Qed.

(* replace one key, extend the heap *)
Lemma alloc_inv_set h h' ks k nk :
  ext h h' -> alloc_inv {| st_heap := h; st_keys := ks |} -> shape h' nk -> bounded h' nk ->
  alloc_inv {| st_heap := h'; st_keys := set_nth ks k nk |}.
Proof.
  intros E I S B xk Hx. cbn [st_heap st_keys] in *. apply set_nth_In in Hx. destruct Hx as [->|Hx]; [auto|].
  destruct (I xk Hx) as [S0 B0]. apply (shape_ext h); assumption.
Qed.

(* add one key *)
Lemma alloc_inv_push h ks nk :
  alloc_inv {| st_heap := h; st_keys := ks |} -> shape h nk -> bounded h nk ->
  alloc_inv {| st_heap := h; st_keys := ks ++ [nk] |}.
Proof.
  intros I S B xk Hx. cbn [st_heap st_keys] in *. apply in_app_iff in Hx. destruct Hx as [Hx|[<-|[]]]; auto.
Qed.

(* a fresh buffer at the end of the heap, taken whole *)
Lemma whole_new (h ext0 : heap) j b : nth_error ext0 j = Some b -> whole_of (h ++ ext0) (whole (length h + j) b).
Proof.
  intros Hj. split; [reflexivity|]. cbn [whole s_len s_id]. unfold buf_len. rewrite app_nth2 by lia.
  replace (length h + j - length h)%nat with j by lia. rewrite (nth_error_nth _ _ _ Hj). reflexivity.
Qed.

Lemma id_new (h ext0 : heap) j (b : list N) : nth_error ext0 j = Some b -> (length h + j < length (h ++ ext0))%nat.
Proof. intros Hj. rewrite app_length. pose proof (nth_error_lt _ _ _ Hj). lia. Qed.

Section Alloc.
Variable D : deps.

(* pubKeyBytes: the key record changes in its memo only, which is a fresh whole buffer *)
Lemma pkb_alloc h xk h1 xk1 pbs :
  pub_key_bytes D h xk = (h1, xk1, pbs) -> shape h xk -> bounded h xk ->
  ext h h1 /\ shape h1 xk1 /\ bounded h1 xk1 /\
  x_key xk1 = x_key xk /\ x_cc xk1 = x_cc xk /\ x_fp xk1 = x_fp xk /\ x_ver xk1 = x_ver xk.
Proof.
  unfold pub_key_bytes. intros E S B.
  assert (Same : ext h h /\ shape h xk /\ bounded h xk /\
                 x_key xk = x_key xk /\ x_cc xk = x_cc xk /\ x_fp xk = x_fp xk /\ x_ver xk = x_ver xk).
  { split; [apply ext_refl|]. split; [exact S|]. split; [exact B|]. split; [reflexivity|]. split; [reflexivity|].
    split; reflexivity. }
  destruct (negb (x_priv xk)); [injection E as <- <- <-; exact Same|].
  destruct (_ =? _)%nat; [|injection E as <- <- <-; exact Same].
  clear Same. injection E as <- <- <-.
  set (pb := d_pub_of_priv D (rdo h (x_key xk))).
  assert (Ex : ext h (h ++ [pb])) by apply ext_app.
  destruct (shape_ext _ _ _ Ex B S) as [[_ Sk] B1].
  split; [exact Ex|]. split; [|split; [|split; [reflexivity|]; split; [reflexivity|]; split; reflexivity]].
  - split.
    + intros a Ha. cbn [set_pub x_pub] in Ha. injection Ha as <-.
      replace (length h) with (length h + 0)%nat by lia. apply whole_new. reflexivity.
    + destruct Sk as [H|[[H1 H2]|[H|H]]]; [left; exact H | right; left; split; assumption | right; right; left; exact H | right; right; right; exact H].
  - intros a Ha. apply in_owned in Ha. cbn [set_pub x_key x_pub x_cc x_fp] in Ha.
    destruct Ha as [Ha|[Ha|[Ha|Ha]]].
    + apply B1. apply in_owned. auto.
    + injection Ha as <-. cbn [whole s_id]. rewrite app_length. cbn [length]. lia.
    + apply B1. apply in_owned. auto.
    + apply B1. apply in_owned. auto.
Qed.

Lemma half_tie : litn lits_NewMaster 0 = litn lits_NewMaster 1.
Proof. reflexivity. Qed.

Lemma step_alloc s o : alloc_inv s -> alloc_inv (fst (step D s o)).
Proof.
  intros I. destruct s as [h ks]. destruct o; cbn [step step_gen].
  - (* NewMaster *)
    unfold new_master. cbn [st_heap st_keys]. destruct (master_val D seed) as [lr|e|p]; cbn [fst]; [|exact I|exact I].
    unfold push. cbn [fst]. apply alloc_inv_push; [apply (alloc_inv_ext h); [apply ext_app | exact I]| |].
    + split; [intros a Ha; discriminate Ha|]. right. right. left.
      exists (length h), (length lr / litn lits_NewMaster 0)%nat, (length lr - length lr / litn lits_NewMaster 1)%nat.
      cbn [x_key x_cc]. split; [reflexivity|]. split; [rewrite half_tie; reflexivity|].
      unfold buf_len. rewrite app_nth2 by lia. rewrite Nat.sub_diag. cbn [nth]. rewrite half_tie.
      assert (length lr / litn lits_NewMaster 1 <= length lr)%nat by (apply Nat.div_le_upper_bound; [discriminate | change (litn lits_NewMaster 1) with 2%nat; lia]).
      lia.
    + intros a Ha. apply in_owned in Ha. cbn [x_key x_pub x_cc x_fp] in Ha. rewrite app_length. cbn [length].
      destruct Ha as [H|[H|[H|H]]]; try discriminate; injection H as <-; cbn [sub whole s_id]; lia.
  - (* NewKeyFromString *)
    unfold from_string. cbn [st_heap st_keys]. destruct (string_val D decoded) as [f|e|p] eqn:E; cbn [fst]; [|exact I|exact I].
    destruct (string_val_fields D _ _ E) as (Fv & Ff & Fc & Fk).
    unfold push. cbn [fst]. apply alloc_inv_push; [apply (alloc_inv_ext h); [apply ext_app | exact I]| |].
    + split; [intros a Ha; discriminate Ha|]. right. right. right. exists (length h). cbn [x_key x_cc].
      rewrite Fc. split; [reflexivity|]. destruct Fk as [-> | ->]; [left | right]; reflexivity.
    + intros a Ha. apply in_owned in Ha. cbn [x_key x_pub x_cc x_fp] in Ha. rewrite app_length. cbn [length].
      destruct Ha as [H|[H|[H|H]]]; try discriminate; injection H as <-; cbn [rng sub s_id]; lia.
  - (* NewExtendedKey on four fresh buffers *)
    unfold new_ext, push. cbn [st_heap st_keys fst].
    apply alloc_inv_push; [apply (alloc_inv_ext h); [apply ext_app | exact I]| |].
    + split; [intros a Ha; discriminate Ha|]. right. left. split; intros a Ha; cbn [x_key x_cc] in Ha; injection Ha as <-.
      * apply whole_new. reflexivity.
      * apply whole_new. reflexivity.
    + intros a Ha. apply in_owned in Ha. cbn [x_key x_pub x_cc x_fp] in Ha. rewrite app_length. cbn [length].
      destruct Ha as [H|[H|[H|H]]]; try discriminate; injection H as <-; cbn [whole s_id]; lia.
  - (* Child *)
    unfold child. cbn [st_heap st_keys]. destruct (nth_error ks k) as [xk|] eqn:Hk; [|exact I].
    destruct (x_depth xk =? max_depth); [exact I|]. destruct (negb (x_priv xk) && is_hard i)%bool; [exact I|].
    destruct (I xk (nth_error_In' _ _ _ Hk)) as [S B]. cbn [st_heap] in S, B.
    assert (H1 : exists h1 xk1 keyish, (if is_hard i then (h, xk, x_key xk) else pub_key_bytes D h xk) = (h1, xk1, keyish) /\
                 ext h h1 /\ shape h1 xk1 /\ bounded h1 xk1).
    { destruct (is_hard i).
      - exists h, xk, (x_key xk). auto using ext_refl.
      - destruct (pub_key_bytes D h xk) as [[h1 xk1] pbs] eqn:Ep. exists h1, xk1, pbs.
        destruct (pkb_alloc _ _ _ _ _ Ep S B) as (E1 & S1 & B1 & _). auto. }
    destruct H1 as (h1 & xk1 & keyish & -> & E1 & S1 & B1).
    destruct (child_core D _ _ _ _ i) as [[ilr ck]|e|p]; cbn [fst].
    2,3: apply (alloc_inv_set h); assumption.
    destruct (pub_key_bytes D h1 xk1) as [[h2 xk2] pbs] eqn:Ep2.
    destruct (pkb_alloc _ _ _ _ _ Ep2 S1 B1) as (E2 & S2 & B2 & _).
    unfold push. cbn [fst].
    apply alloc_inv_push.
    + apply (alloc_inv_ext h2); [apply ext_app|]. apply (alloc_inv_set h); [eapply ext_trans; eassumption | exact I | exact S2 | exact B2].
    + split; [intros a Ha; discriminate Ha|]. right. left. split; intros a Ha; cbn [x_key x_cc] in Ha; injection Ha as <-.
      * apply whole_new. reflexivity.
      * apply whole_new. reflexivity.
    + intros a Ha. apply in_owned in Ha. cbn [x_key x_pub x_cc x_fp] in Ha. rewrite app_length. cbn [length].
      destruct Ha as [H|[H|[H|H]]]; try discriminate; injection H as <-; cbn [whole sub s_id]; lia.
  - (* Neuter *)
    unfold neuter. cbn [st_heap st_keys]. destruct (nth_error ks k) as [xk|] eqn:Hk; [|exact I].
    destruct (negb (x_priv xk)); [exact I|]. destruct (priv_to_pub _) as [[vs q]|]; [|exact I].
    destruct (I xk (nth_error_In' _ _ _ Hk)) as [S B]. cbn [st_heap] in S, B.
    destruct (pub_key_bytes D h xk) as [[h1 xk1] pbs] eqn:Ep.
    destruct (pkb_alloc _ _ _ _ _ Ep S B) as (E1 & S1 & B1 & _).
    unfold push. cbn [fst].
    apply alloc_inv_push.
    + apply (alloc_inv_ext h1); [apply ext_app|]. apply (alloc_inv_set h); assumption.
    + split; [intros a Ha; discriminate Ha|]. right. left. split; intros a Ha; cbn [x_key x_cc] in Ha; injection Ha as <-.
      * replace (length h1) with (length h1 + 0)%nat by lia. apply whole_new. reflexivity.
      * apply whole_new. reflexivity.
    + intros a Ha. apply in_owned in Ha. cbn [x_key x_pub x_cc x_fp] in Ha. rewrite app_length. cbn [length].
      destruct Ha as [H|[H|[H|H]]]; try discriminate; injection H as <-; cbn [whole s_id]; lia.
  - (* SetNet: only the version reference changes *)
    unfold set_net. cbn [st_heap st_keys]. destruct (nth_error ks k) as [xk|] eqn:Hk; [|exact I]. cbn [fst].
    destruct (I xk (nth_error_In' _ _ _ Hk)) as [S B]. cbn [st_heap] in S, B.
    apply (alloc_inv_set h); [apply ext_refl | exact I | exact S | exact B].
  - (* Zero *)
    unfold zero. cbn [st_heap st_keys]. destruct (nth_error ks k) as [xk|] eqn:Hk; [|exact I]. cbn [fst].
    destruct (I xk (nth_error_In' _ _ _ Hk)) as [S B]. cbn [st_heap] in S, B.
    assert (E : ext h (zero_heap h xk)) by apply ext_zero.
    destruct (shape_ext _ _ _ E B S) as [[Sp _] B'].
    apply (alloc_inv_set h); [exact E | exact I | |].
    + split; [exact Sp | left; reflexivity].
    + intros a Ha. apply B'. apply in_owned in Ha. cbn [zeroed_key x_key x_pub x_cc x_fp] in Ha. apply in_owned.
      destruct Ha as [H|[H|[H|H]]]; [discriminate | auto | auto | auto].
  - (* String *)
    unfold string_of. cbn [st_keys]. destruct (nth_error ks k); exact I.
  - (* ECPubKey *)
    unfold with_pub. cbn [st_heap st_keys]. destruct (nth_error ks k) as [xk|] eqn:Hk; [|exact I].
    destruct (I xk (nth_error_In' _ _ _ Hk)) as [S B]. cbn [st_heap] in S, B.
    destruct (pub_key_bytes D h xk) as [[h1 xk1] pbs] eqn:Ep. cbn [fst].
    destruct (pkb_alloc _ _ _ _ _ Ep S B) as (E1 & S1 & B1 & _). apply (alloc_inv_set h); assumption.
  - (* ECPrivKey *)
    unfold ec_priv. cbn [st_keys]. destruct (nth_error ks k); exact I.
  - (* Address *)
    unfold with_pub. cbn [st_heap st_keys]. destruct (nth_error ks k) as [xk|] eqn:Hk; [|exact I].
    destruct (I xk (nth_error_In' _ _ _ Hk)) as [S B]. cbn [st_heap] in S, B.
    destruct (pub_key_bytes D h xk) as [[h1 xk1] pbs] eqn:Ep. cbn [fst].
    destruct (pkb_alloc _ _ _ _ _ Ep S B) as (E1 & S1 & B1 & _). apply (alloc_inv_set h); assumption.
Qed.

Lemma alloc_inv_init : alloc_inv init.
Proof. intros xk []. Qed.

Lemma run_alloc ops : forall s, alloc_inv s -> alloc_inv (fst (run D s ops)).
Proof.
  induction ops as [|o ops IH]; intros s I; [exact I|].
  unfold run in *. cbn [run_gen]. pose proof (step_alloc s o I) as I1. unfold step in I1.
  destruct (step_gen D false s o) as [s1 r]. cbn [fst] in I1. specialize (IH s1 I1).
  destruct (run_gen D false s1 ops) as [s2 rs]. exact IH.
Qed.

(* a slice that is its whole allocation: the allocation is what the slice reads *)
Lemma rd_whole_of h a : whole_of h a -> rd h a = nth (s_id a) h [].
Proof. intros [H0 Hl]. unfold rd. rewrite H0, Hl. cbn [skipn]. apply firstn_all. Qed.

Lemma allz_app (a b : list N) : allz a -> allz b -> allz (a ++ b).
Proof. unfold allz. intros Ha Hb. rewrite app_length, repeat_app, <- Ha, <- Hb. reflexivity. Qed.

(* Zero on a live key of a reachable state: the ALLOCATIONS of the cached public key, the key and the chain code
   are all-zero afterwards -- unless the key was parsed from a string (then they are ranges of the decoded payload) *)
Theorem zero_erases_allocations ops k xk :
  let s := fst (run D init ops) in
  nth_error (st_keys s) k = Some xk -> x_key xk <> None ->
  let h' := st_heap (fst (step D s (Zero k))) in
  (forall a, x_pub xk = Some a -> allz (nth (s_id a) h' [])) /\
  (lay_parsed xk \/
   ((forall a, x_key xk = Some a -> allz (nth (s_id a) h' [])) /\ (forall a, x_cc xk = Some a -> allz (nth (s_id a) h' [])))).
Proof.
  intros s Hk Hlive. pose proof (run_alloc ops init alloc_inv_init) as I. fold s in I.
  destruct (I xk (nth_error_In' _ _ _ Hk)) as [[Sp Sk] B].
  cbn [step step_gen]. unfold zero. rewrite Hk. cbn [fst st_heap].
  set (h := st_heap s) in *. set (h' := zero_heap h xk).
  assert (E : ext h h') by apply ext_zero.
  assert (W : forall a, In a (owned xk) -> whole_of h a -> allz (nth (s_id a) h' [])).
  { intros a Ha Hw. rewrite <- (rd_whole_of h' a) by (apply (whole_ext h); [exact E | apply B, Ha | exact Hw]).
    apply zero_heap_erases. exact Ha. }
  split.
  - intros a Ha. apply W; [apply in_owned_pub, Ha | apply Sp, Ha].
  - destruct Sk as [H|[[H1 H2]|[(id & n & m & Hkk & Hcc & Hl)|H]]]; [contradiction | | | left; exact H].
    + right. split; intros a Ha.
      * apply W; [apply in_owned_key, Ha | apply H1, Ha].
      * apply W; [apply in_owned_cc, Ha | apply H2, Ha].
    + right.
      assert (Hb : allz (nth id h' [])).
      { pose proof (zero_heap_erases h xk _ (in_owned_key _ _ Hkk)) as [Z1 _].
        pose proof (zero_heap_erases h xk _ (in_owned_cc _ _ Hcc)) as [Z2 _]. fold h' in Z1, Z2.
        assert (Hl' : length (nth id h' []) = (n + m)%nat).
        { destruct E as [_ Bl]. specialize (Bl id (B _ (in_owned_key _ _ Hkk))). unfold buf_len in *. lia. }
        unfold rd, sub in Z1, Z2. cbn [s_id s_off s_len skipn] in Z1, Z2.
        rewrite <- (firstn_skipn n (nth id h' [])).
        apply allz_app; [exact Z1|].
        replace (skipn n (nth id h' [])) with (firstn m (skipn n (nth id h' []))); [exact Z2|].
        apply firstn_all2. rewrite skipn_length. lia. }
      split; intros a Ha; [rewrite Hkk in Ha | rewrite Hcc in Ha]; injection Ha as <-; exact Hb.
Qed.

End Alloc.

(* ---------- the layout of before 593a81b: Il survives Zero ---------- *)
(* NewMaster; Child 0 (2^31) with child_old; Zero on the child: the allocation that holds the child's chain code
   (the 64-byte HMAC output) is not all-zero -- its first half is Il. *)
Definition old_child_state : state :=
  let s1 := fst (new_master toy init seed16 0) in
  let s2 := fst (child_old toy s1 0 2147483648) in
  fst (zero s2 1).

Theorem zero_allocation_refuted_old :
  exists xk a, nth_error (st_keys (fst (child_old toy (fst (new_master toy init seed16 0)) 0 2147483648))) 1 = Some xk /\
    x_cc xk = Some a /\
    allz (rd (st_heap old_child_state) a) /\                 (* the slice is erased ... *)
    ~ allz (nth (s_id a) (st_heap old_child_state) []) /\    (* ... the allocation is not: *)
    firstn 32 (nth (s_id a) (st_heap old_child_state) []) =  (* its first half is still Il *)
      firstn 32 (toy_hmac (skipn 32 (toy_hmac c_masterKey seed16)) (child_data true (firstn 32 (toy_hmac c_masterKey seed16)) 2147483648)).
Proof.
  eexists. eexists. split; [vm_compute; reflexivity|]. split; [reflexivity|].
  split; [vm_compute; reflexivity|]. split; [vm_compute; intros H; discriminate H | vm_compute; reflexivity].
Qed.

(* the same history with the current layout: the allocation is all-zero *)
Example zero_allocation_now_fine :
  let s2 := fst (child toy (fst (new_master toy init seed16 0)) 0 2147483648) in
  match nth_error (st_keys s2) 1 with
  | Some xk => match x_cc xk with Some a => allz (nth (s_id a) (st_heap (fst (zero s2 1))) []) | None => False end
  | None => False
  end.
Proof. vm_compute. reflexivity. Qed.

(* A toy instantiation of the cryptographic dependencies (deterministic, trivially computable) used
   for the `Example`s and for the counterexample against the pre-fix Neuter.  C15 is about aliasing:
   any functions satisfying the two section hypotheses of HDHeapProofs.v will do. *)
From BU Require Import Lib.Bytes HDHeap.HDHeap.

Definition tsum (l : list N) : N := fold_left N.add l 0.
Definition toy_hmac (k d : list N) : list N :=
  let s := tsum k * 31 + tsum d * 7 + N.of_nat (length d) in
  map (fun j => (s + N.of_nat j * 13 + 1) mod 256) (seq 0 64).
Definition toy_scalar_ok (b : list N) : bool := negb (forallb (fun x => x =? 0) b).
Definition toy_pub_of_priv (k : list N) : list N := 2 :: map (fun x => (x + 1) mod 256) k.
Fixpoint add_bytes (a b : list N) : list N :=
  match a, b with x :: a', y :: b' => (x + y) mod 256 :: add_bytes a' b' | _, _ => a end.
Definition toy_priv_add (il k : list N) : list N := add_bytes il k.
Definition toy_pub_add (il K : list N) : res (list N) :=
  match K with [] => Err 4 | h :: t => Ok (h :: add_bytes t il) end.
Definition toy_hash160 (b : list N) : list N := firstn 20 (toy_hmac [160] b).
Definition toy_parse_pub (b : list N) : res (list N) :=
  match b with h :: _ => if (h =? 2) || (h =? 3) then Ok b else Err 4 | [] => Err 4 end.
Definition toy_cks4 (p : list N) : list N := firstn 4 (toy_hmac [4] p).

Definition toy : deps := {| d_hmac512 := toy_hmac; d_scalar_ok := toy_scalar_ok; d_pub_of_priv := toy_pub_of_priv;
  d_priv_add := toy_priv_add; d_pub_add := toy_pub_add; d_hash160 := toy_hash160; d_parse_pub := toy_parse_pub; d_cks4 := toy_cks4 |}.

Definition seed16 : list N := map N.of_nat (seq 1 16).

(* the three-step history of the finding: p := m.Neuter(); m.Zero(); observe p *)
Definition finding_history : list op := [NewMaster seed16 0; Neuter 0; StringOf 1; Zero 0; StringOf 1].

(* C15 — model of the buffer discipline of hdkeychain/extendedkey.go.

   A heap of byte buffers (buffer id = index in a list; allocation appends; the allocation counter is
   the length), slices (buffer id, offset, length) as Go slices over a backing array, an extended key as
   a record of optional slices + scalars, a pool of keys addressed by handles (indices).  Each
   operation allocates, shares or carves exactly the slices the Go code does:

     NewMaster          key = lr[:32], chainCode = lr[32:] of ONE fresh 64-byte HMAC buffer; fresh parentFP;
                        version = the static array net.HDPrivateKeyID[:]
     NewKeyFromString   version/parentFP/chainCode/key are four ranges of the ONE decoded buffer
     NewExtendedKey     stores the caller's four slices (the property quantifies over fresh ones)
     Child              key fresh; chainCode = a fresh COPY of ilr[32:] (since /repo 593a81b: a buffer of its own, so
                        that Il = ilr[:32] is not left in front of it in the same allocation; child_old is the
                        earlier layout chainCode = ilr[32:]); the 64-byte HMAC output itself becomes garbage;
                        parentFP = Hash160(..)[:4] of a fresh 20-byte buffer; version = the parent's slice
                        (shared); may memoise the parent's pubKey (also when the derivation then fails)
     Neuter             public key: returns the same key (same handle); private key: fresh copies of the
                        public key bytes, chain code and fingerprint, static version from chaincfg's map
                        (neuter_old: the pre-fix code, sharing the three slices)
     SetNet             replaces the version reference by a static array
     Zero               zeroes key, pubKey, chainCode, parentFP in place through the slices; key and version
                        become nil, the other three keep pointing at the zeroed memory
     String/ECPubKey/ECPrivKey/Address   read; ECPubKey/Address/Child/Neuter memoise pubKey on private keys

   Cryptography (HMAC-SHA512, secp256k1, HASH160, SHA-256d prefix) is abstracted as Section functions from
   byte contents to byte contents: C15 is about aliasing.  No proofs in this file. *)
From BU Require Import Lib.Bytes Lib.PolyMod Gen.Nets Gen.Xhdkeychain.

(* ---------- heap and slices ---------- *)
Definition heap := list (list N).
Record slc := { s_id : nat; s_off : nat; s_len : nat }.

Definition rd (h : heap) (s : slc) : list N := firstn (s_len s) (skipn (s_off s) (nth (s_id s) h [])).
Definition rdo (h : heap) (o : option slc) : list N := match o with Some s => rd h s | None => [] end.

(* zero(b): `for i := 0; i < lenb; i++ { b[i] = 0 }` -- the start index and the stored byte are the two integer
   literals of the function body as extracted from the source (review round 2: so that `i := 1` or `b[i] = 1`
   in the source breaks C15_zero_erases at make time, not only the harness monitor) *)
Definition zero_from : nat := N.to_nat (lit lits_zero 0).
Definition zero_byte : N := lit lits_zero 1.

(* b[off .. off+len) := zero_byte, within the bounds of b *)
Fixpoint zero_buf (off len : nat) (b : list N) : list N :=
  match b with
  | [] => []
  | x :: t =>
      match off with
      | S o => x :: zero_buf o len t
      | O => match len with O => x :: t | S l => zero_byte :: zero_buf 0 l t end
      end
  end.

Fixpoint upd (h : heap) (i : nat) (f : list N -> list N) : heap :=
  match h, i with
  | [], _ => []
  | b :: t, O => f b :: t
  | b :: t, S i' => b :: upd t i' f
  end.

(* zero(b) of extendedkey.go on a slice *)
Definition zero_slc (h : heap) (s : slc) : heap :=
  upd h (s_id s) (zero_buf (zero_from + s_off s) (Nat.iter zero_from pred (s_len s))).
Definition zero_opt (h : heap) (o : option slc) : heap := match o with Some s => zero_slc h s | None => h end.

Definition whole (id : nat) (b : list N) : slc := {| s_id := id; s_off := 0; s_len := length b |}.
Definition sub (id off len : nat) : slc := {| s_id := id; s_off := off; s_len := len |}.

(* ---------- static arrays (chaincfg globals; nothing in hdkeychain writes through them) ---------- *)
Definition statics : heap :=
  flat_map (fun n => [hd_priv_id n; hd_pub_id n]) all_nets ++ map snd hd_priv_to_pub.
Definition nstatic : nat := length statics.
Definition the_net (n : nat) : net := nth n all_nets mainnet.
Definition static_priv (n : nat) : slc := sub (2 * (n mod length all_nets)) 0 (length (hd_priv_id (the_net (n mod length all_nets)))).
Definition static_pub (n : nat) : slc := sub (2 * (n mod length all_nets) + 1) 0 (length (hd_pub_id (the_net (n mod length all_nets)))).

(* chaincfg.HDPrivateKeyToPublicKeyID: index of the registered entry *)
Fixpoint find_ver (v : list N) (tab : list (list N * list N)) (i : nat) : option (nat * list N) :=
  match tab with
  | [] => None
  | (p, q) :: t => if list_eqb p v then Some (i, q) else find_ver v t (S i)
  end.
Definition priv_to_pub (v : list N) : option (slc * list N) :=
  match find_ver v hd_priv_to_pub 0 with
  | Some (m, q) => Some (sub (2 * length all_nets + m) 0 (length q), q)
  | None => None
  end.

(* ---------- keys, pool, state ---------- *)
Record xkey := { x_key : option slc; x_pub : option slc; x_cc : option slc; x_fp : option slc; x_ver : option slc;
                 x_depth : N; x_num : N; x_priv : bool }.
Record state := { st_heap : heap; st_keys : list xkey }.

Definition init : state := {| st_heap := statics; st_keys := [] |}.

Definition set_pub (k : xkey) (p : option slc) : xkey :=
  {| x_key := x_key k; x_pub := p; x_cc := x_cc k; x_fp := x_fp k; x_ver := x_ver k;
     x_depth := x_depth k; x_num := x_num k; x_priv := x_priv k |}.
Definition set_ver (k : xkey) (v : option slc) : xkey :=
  {| x_key := x_key k; x_pub := x_pub k; x_cc := x_cc k; x_fp := x_fp k; x_ver := v;
     x_depth := x_depth k; x_num := x_num k; x_priv := x_priv k |}.

Fixpoint set_nth {A} (l : list A) (i : nat) (x : A) : list A :=
  match l, i with
  | [], _ => []
  | _ :: t, O => x :: t
  | y :: t, S i' => y :: set_nth t i' x
  end.

(* the value a key denotes: what its accessors read through the heap *)
Record pkey := { p_ver : list N; p_key : list N; p_cc : list N; p_fp : list N; p_depth : N; p_num : N; p_priv : bool }.

Definition view (h : heap) (k : xkey) : pkey :=
  {| p_ver := rdo h (x_ver k); p_key := rdo h (x_key k); p_cc := rdo h (x_cc k); p_fp := rdo h (x_fp k);
     p_depth := x_depth k; p_num := x_num k; p_priv := x_priv k |}.

(* ---------- constants and literals from the source ---------- *)
Definition litn (l : list Z) (i : nat) : nat := N.to_nat (lit l i).
Definition hardened_start : N := Z.to_N c_HardenedKeyStart.
Definition max_depth : N := Z.to_N c_maxUint8.
Definition ser_len : nat := Z.to_nat c_serializedKeyLen.
Definition is_hard (i : N) : bool := hardened_start <=? i.
Definition ser32 (i : N) : list N := be_bytes 4 (i mod 4294967296).       (* binary.BigEndian.PutUint32 *)

(* copy(dst[off:], src) *)
Definition copy_at (dst : list N) (off : nat) (src : list N) : list N :=
  let room := (length dst - off)%nat in
  let n := Nat.min room (length src) in
  firstn off dst ++ firstn n src ++ skipn (off + n) dst.

(* data of Child: make([]byte, keyLen+4); copy(data[1:], key) | copy(data, pub); PutUint32(data[keyLen:], i) *)
Definition child_data (hard : bool) (keyish : list N) (i : N) : list N :=
  let key_len := litn lits_ExtendedKey_Child 0 in
  let d0 := repeat 0 (key_len + litn lits_ExtendedKey_Child 1) in
  let d1 := copy_at d0 (if hard then litn lits_ExtendedKey_Child 2 else 0%nat) keyish in
  copy_at d1 key_len (ser32 i).

(* paddedAppend *)
Definition pad_to (size : nat) (src : list N) : list N := repeat 0 (size - length src) ++ src.

Inductive outcome :=
| OCreated (handle : nat)     (* a new key object, added to the pool under this handle *)
| OSame (handle : nat)        (* the operation returned the key it was applied to (Neuter of a public key) *)
| OErr (e : N)
| OBytes (b : list N)
| OZeroed                     (* String() = "zeroed extended key" *)
| ODone.

Inductive op :=
| NewMaster (seed : list N) (net : nat)
| FromString (decoded : list N)            (* NewKeyFromString, given base58.Decode of the string *)
| NewExt (ver key cc fp : list N) (depth num : N) (priv : bool)   (* NewExtendedKey on four fresh caller buffers *)
| Child (k : nat) (i : N)
| Neuter (k : nat)
| SetNet (k : nat) (net : nat)
| Zero (k : nat)
| StringOf (k : nat)
| ECPubKey (k : nat)
| ECPrivKey (k : nat)
| Address (k : nat).

(* dependencies, as functions on byte contents *)
Record deps := {
  d_hmac512 : list N -> list N -> list N;          (* key, data -> 64 bytes *)
  d_scalar_ok : list N -> bool;                    (* 0 < parse256(b) < n *)
  d_pub_of_priv : list N -> list N;                (* SerializeCompressed(ScalarBaseMult(k)) *)
  d_priv_add : list N -> list N -> list N;         (* il, parent key -> (il + k) mod n, left-padded to 32 *)
  d_pub_add : list N -> list N -> res (list N);    (* il, parent pubkey -> serP(point(il) + K); Err 3 invalid child, Err 4 parse *)
  d_hash160 : list N -> list N;
  d_parse_pub : list N -> res (list N);            (* bchec.ParsePubKey then SerializeCompressed *)
  d_cks4 : list N -> list N                        (* chainhash.DoubleHashB(b)[:4] *)
}.

Section HD.
Variable D : deps.
Local Notation hmac512 := (d_hmac512 D).
Local Notation scalar_ok := (d_scalar_ok D).
Local Notation pub_of_priv := (d_pub_of_priv D).
Local Notation priv_add := (d_priv_add D).
Local Notation pub_add := (d_pub_add D).
Local Notation hash160 := (d_hash160 D).
Local Notation parse_pub := (d_parse_pub D).
Local Notation cks4 := (d_cks4 D).

(* ---------- value-level computations shared by the heap machine and the pure reference ---------- *)
Definition pub_val (priv : bool) (key : list N) : list N := if priv then pub_of_priv key else key.

(* HMAC, split, range check, child key.  Result: the 64-byte HMAC output and the child key bytes *)
Definition child_core (priv : bool) (key keyish cc : list N) (i : N) : res (list N * list N) :=
  let ilr := hmac512 cc (child_data (is_hard i) keyish i) in
  let il := firstn (length ilr / litn lits_ExtendedKey_Child 3) ilr in
  if negb (scalar_ok il) then Err 3
  else if priv then Ok (ilr, priv_add il key)
  else do ck <- pub_add il key ;; Ok (ilr, ck).

Definition cc_off (ilr : list N) : nat := (length ilr / litn lits_ExtendedKey_Child 4)%nat.
Definition fp_len : nat := litn lits_ExtendedKey_Child 11.
Definition next_depth (d : N) : N := (d + lit lits_ExtendedKey_Child 12) mod 256.

(* serialised payload of String (before checksum and Base58) *)
Definition payload (k : pkey) : list N :=
  p_ver k ++ [p_depth k] ++ p_fp k ++ ser32 (p_num k) ++ p_cc k ++
  (if p_priv k then lit lits_ExtendedKey_String 4 :: pad_to (litn lits_ExtendedKey_String 5) (p_key k) else p_key k).

Definition string_obs (k : pkey) : outcome :=
  if (length (p_key k) =? litn lits_ExtendedKey_String 0)%nat then OZeroed else OBytes (payload k).

(* NewMaster on values: Err 1 seed length, Err 2 unusable seed *)
Definition master_val (seed : list N) : res (list N) :=
  if ((length seed <? Z.to_nat c_MinSeedBytes) || (Z.to_nat c_MaxSeedBytes <? length seed))%nat then Err 1
  else let lr := hmac512 c_masterKey seed in
       if negb (scalar_ok (firstn (length lr / litn lits_NewMaster 0) lr)) then Err 2 else Ok lr.
Definition master_fp : list N := map (fun z => Z.to_N z) (firstn 4 (skipn 4 lits_NewMaster)).   (* []byte{0,0,0,0} *)

(* NewKeyFromString on values: the field ranges of the decoded buffer.
   Err 1 length, 2 checksum, 3 unusable scalar, 4 public key does not parse *)
Definition L := lits_NewKeyFromString.
Record str_fields := { f_ver : nat * nat; f_depth : nat; f_fp : nat * nat; f_num : nat * nat; f_cc : nat * nat;
                       f_key : nat * nat; f_priv : bool }.
Definition range (b : list N) (r : nat * nat) : list N := firstn (snd r - fst r) (skipn (fst r) b).

Definition string_val (dec : list N) : res str_fields :=
  if negb (length dec =? ser_len + litn L 0)%nat then Err 1 else
  let n := length dec in
  let pay := firstn (n - litn L 1) dec in
  let ck := skipn (n - litn L 2) dec in
  if negb (list_eqb ck (cks4 pay)) then Err 2 else
  let kd := (litn L 13, litn L 15) in
  let isp := nth (fst kd + litn L 16) dec 0 =? lit L 17 in
  if isp then
    let kd' := (fst kd + litn L 18, snd kd)%nat in
    if negb (scalar_ok (range dec kd')) then Err 3
    else Ok {| f_ver := (0%nat, litn L 4); f_depth := (litn L 5 + litn L 7)%nat; f_fp := (litn L 8, litn L 9);
               f_num := (litn L 10, litn L 11); f_cc := (litn L 12, litn L 13); f_key := kd'; f_priv := true |}
  else
    match parse_pub (range dec kd) with
    | Ok _ => Ok {| f_ver := (0%nat, litn L 4); f_depth := (litn L 5 + litn L 7)%nat; f_fp := (litn L 8, litn L 9);
                    f_num := (litn L 10, litn L 11); f_cc := (litn L 12, litn L 13); f_key := kd; f_priv := false |}
    | Err _ => Err 4
    | Panic p => Panic p
    end.

(* ---------- the heap machine ---------- *)
(* pubKeyBytes(): returns the slice; memoises on private keys *)
Definition pub_key_bytes (h : heap) (k : xkey) : heap * xkey * option slc :=
  if negb (x_priv k) then (h, k, x_key k)
  else if (length (rdo h (x_pub k)) =? litn lits_ExtendedKey_pubKeyBytes 0)%nat
       then let pb := pub_of_priv (rdo h (x_key k)) in
            (h ++ [pb], set_pub k (Some (whole (length h) pb)), Some (whole (length h) pb))
       else (h, k, x_pub k).

Definition push (h : heap) (ks : list xkey) (k : xkey) : state * outcome :=
  ({| st_heap := h; st_keys := ks ++ [k] |}, OCreated (length ks)).

Definition new_master (s : state) (seed : list N) (net : nat) : state * outcome :=
  match master_val seed with
  | Ok lr =>
      let h := st_heap s in
      let half := (length lr / litn lits_NewMaster 1)%nat in
      let a := length h in
      push (h ++ [lr; master_fp]) (st_keys s)
        {| x_key := Some (sub a 0 (length lr / litn lits_NewMaster 0)); x_pub := None;
           x_cc := Some (sub a half (length lr - half)); x_fp := Some (whole (S a) master_fp);
           x_ver := Some (static_priv net); x_depth := 0; x_num := 0; x_priv := true |}
  | Err e => (s, OErr e)
  | Panic p => (s, OErr (100 + p))
  end.

Definition rng (a : nat) (r : nat * nat) : slc := sub a (fst r) (snd r - fst r).

Definition from_string (s : state) (dec : list N) : state * outcome :=
  match string_val dec with
  | Ok f =>
      let h := st_heap s in
      let a := length h in
      push (h ++ [dec]) (st_keys s)
        {| x_key := Some (rng a (f_key f)); x_pub := None; x_cc := Some (rng a (f_cc f)); x_fp := Some (rng a (f_fp f));
           x_ver := Some (rng a (f_ver f)); x_depth := nth (f_depth f) dec 0;
           x_num := be_value (range dec (f_num f)) 0; x_priv := f_priv f |}
  | Err e => (s, OErr e)
  | Panic p => (s, OErr (100 + p))
  end.

Definition new_ext (s : state) (ver key cc fp : list N) (depth num : N) (priv : bool) : state * outcome :=
  let h := st_heap s in
  let a := length h in
  push (h ++ [ver; key; cc; fp]) (st_keys s)
    {| x_key := Some (whole (a + 1) key); x_pub := None; x_cc := Some (whole (a + 2) cc); x_fp := Some (whole (a + 3) fp);
       x_ver := Some (whole a ver); x_depth := depth mod 256; x_num := num mod 4294967296; x_priv := priv |}.

Definition child (s : state) (k : nat) (i : N) : state * outcome :=
  match nth_error (st_keys s) k with
  | None => (s, OErr 99)
  | Some xk =>
      if x_depth xk =? max_depth then (s, OErr 1)
      else if negb (x_priv xk) && is_hard i then (s, OErr 2)
      else
        let h := st_heap s in
        (* non-hardened: copy(data, k.pubKeyBytes()) memoises before the HMAC *)
        let '(h1, xk1, keyish) :=
           if is_hard i then (h, xk, x_key xk) else pub_key_bytes h xk in
        match child_core (x_priv xk1) (rdo h1 (x_key xk1)) (rdo h1 keyish) (rdo h1 (x_cc xk1)) i with
        | Ok (ilr, ck) =>
            (* parentFP := Hash160(k.pubKeyBytes())[:4]   (memoises on the hardened path) *)
            let '(h2, xk2, pbs) := pub_key_bytes h1 xk1 in
            let h160 := hash160 (rdo h2 pbs) in
            let a := length h2 in
            (* childChainCode := append([]byte(nil), ilr[len(ilr)/2:]...) *)
            let cc := skipn (cc_off ilr) ilr in
            push (h2 ++ [ilr; ck; h160; cc]) (set_nth (st_keys s) k xk2)
              {| x_key := Some (whole (a + 1) ck); x_pub := None;
                 x_cc := Some (whole (a + 3) cc);
                 x_fp := Some (sub (a + 2) 0 fp_len); x_ver := x_ver xk2;
                 x_depth := next_depth (x_depth xk2); x_num := i; x_priv := x_priv xk2 |}
        | Err e => ({| st_heap := h1; st_keys := set_nth (st_keys s) k xk1 |}, OErr e)
        | Panic p => ({| st_heap := h1; st_keys := set_nth (st_keys s) k xk1 |}, OErr (100 + p))
        end
  end.

(* Child as it was before commit 593a81b (chainCode := ilr[len(ilr)/2:], a slice of the HMAC output): kept verbatim to
   document that Il survives Zero in that layout (HDAlloc.zero_allocation_refuted_old) *)
Definition child_old (s : state) (k : nat) (i : N) : state * outcome :=
  match nth_error (st_keys s) k with
  | None => (s, OErr 99)
  | Some xk =>
      if x_depth xk =? max_depth then (s, OErr 1)
      else if negb (x_priv xk) && is_hard i then (s, OErr 2)
      else
        let h := st_heap s in
        (* non-hardened: copy(data, k.pubKeyBytes()) memoises before the HMAC *)
        let '(h1, xk1, keyish) :=
           if is_hard i then (h, xk, x_key xk) else pub_key_bytes h xk in
        match child_core (x_priv xk1) (rdo h1 (x_key xk1)) (rdo h1 keyish) (rdo h1 (x_cc xk1)) i with
        | Ok (ilr, ck) =>
            (* parentFP := Hash160(k.pubKeyBytes())[:4]   (memoises on the hardened path) *)
            let '(h2, xk2, pbs) := pub_key_bytes h1 xk1 in
            let h160 := hash160 (rdo h2 pbs) in
            let a := length h2 in
            push (h2 ++ [ilr; ck; h160]) (set_nth (st_keys s) k xk2)
              {| x_key := Some (whole (a + 1) ck); x_pub := None;
                 x_cc := Some (sub a (cc_off ilr) (length ilr - cc_off ilr));
                 x_fp := Some (sub (a + 2) 0 fp_len); x_ver := x_ver xk2;
                 x_depth := next_depth (x_depth xk2); x_num := i; x_priv := x_priv xk2 |}
        | Err e => ({| st_heap := h1; st_keys := set_nth (st_keys s) k xk1 |}, OErr e)
        | Panic p => ({| st_heap := h1; st_keys := set_nth (st_keys s) k xk1 |}, OErr (100 + p))
        end
  end.

(* Neuter after the repair ("fix: Neuter returns a key that owns its buffers") *)
Definition neuter (s : state) (k : nat) : state * outcome :=
  match nth_error (st_keys s) k with
  | None => (s, OErr 99)
  | Some xk =>
      if negb (x_priv xk) then (s, OSame k)
      else match priv_to_pub (rdo (st_heap s) (x_ver xk)) with
           | None => (s, OErr 5)
           | Some (vs, _) =>
               let '(h1, xk1, pbs) := pub_key_bytes (st_heap s) xk in
               let kb := rdo h1 pbs in let cb := rdo h1 (x_cc xk1) in let fb := rdo h1 (x_fp xk1) in
               let a := length h1 in
               push (h1 ++ [kb; cb; fb]) (set_nth (st_keys s) k xk1)
                 {| x_key := Some (whole a kb); x_pub := None; x_cc := Some (whole (a + 1) cb);
                    x_fp := Some (whole (a + 2) fb); x_ver := Some vs;
                    x_depth := x_depth xk1; x_num := x_num xk1; x_priv := false |}
           end
  end.

(* Neuter as it was before commit 4c97b03 (kept to document the finding) *)
Definition neuter_old (s : state) (k : nat) : state * outcome :=
  match nth_error (st_keys s) k with
  | None => (s, OErr 99)
  | Some xk =>
      if negb (x_priv xk) then (s, OSame k)
      else match priv_to_pub (rdo (st_heap s) (x_ver xk)) with
           | None => (s, OErr 5)
           | Some (vs, _) =>
               let '(h1, xk1, pbs) := pub_key_bytes (st_heap s) xk in
               push h1 (set_nth (st_keys s) k xk1)
                 {| x_key := pbs; x_pub := None; x_cc := x_cc xk1; x_fp := x_fp xk1; x_ver := Some vs;
                    x_depth := x_depth xk1; x_num := x_num xk1; x_priv := false |}
           end
  end.

Definition set_net (s : state) (k : nat) (net : nat) : state * outcome :=
  match nth_error (st_keys s) k with
  | None => (s, OErr 99)
  | Some xk =>
      ({| st_heap := st_heap s;
          st_keys := set_nth (st_keys s) k (set_ver xk (Some (if x_priv xk then static_priv net else static_pub net))) |}, ODone)
  end.

Definition zeroed_key (xk : xkey) : xkey :=
  {| x_key := None; x_pub := x_pub xk; x_cc := x_cc xk; x_fp := x_fp xk; x_ver := None;
     x_depth := lit lits_ExtendedKey_Zero 0; x_num := lit lits_ExtendedKey_Zero 1; x_priv := false |}.

Definition zero_heap (h : heap) (xk : xkey) : heap :=
  zero_opt (zero_opt (zero_opt (zero_opt h (x_key xk)) (x_pub xk)) (x_cc xk)) (x_fp xk).

Definition zero (s : state) (k : nat) : state * outcome :=
  match nth_error (st_keys s) k with
  | None => (s, OErr 99)
  | Some xk =>
      ({| st_heap := zero_heap (st_heap s) xk; st_keys := set_nth (st_keys s) k (zeroed_key xk) |}, ODone)
  end.

Definition res_out (r : res (list N)) : outcome :=
  match r with Ok b => OBytes b | Err e => OErr e | Panic p => OErr (100 + p) end.

(* observers that go through pubKeyBytes() *)
Definition with_pub (s : state) (k : nat) (f : list N -> outcome) : state * outcome :=
  match nth_error (st_keys s) k with
  | None => (s, OErr 99)
  | Some xk =>
      let '(h1, xk1, pbs) := pub_key_bytes (st_heap s) xk in
      ({| st_heap := h1; st_keys := set_nth (st_keys s) k xk1 |}, f (rdo h1 pbs))
  end.

Definition string_of (s : state) (k : nat) : state * outcome :=
  match nth_error (st_keys s) k with
  | None => (s, OErr 99)
  | Some xk => (s, string_obs (view (st_heap s) xk))
  end.

Definition ec_priv (s : state) (k : nat) : state * outcome :=
  match nth_error (st_keys s) k with
  | None => (s, OErr 99)
  | Some xk => (s, if x_priv xk then OBytes (rdo (st_heap s) (x_key xk)) else OErr 1)
  end.

Definition step_gen (old_neuter : bool) (s : state) (o : op) : state * outcome :=
  match o with
  | NewMaster seed net => new_master s seed net
  | FromString dec => from_string s dec
  | NewExt ver key cc fp depth num priv => new_ext s ver key cc fp depth num priv
  | Child k i => child s k i
  | Neuter k => if old_neuter then neuter_old s k else neuter s k
  | SetNet k net => set_net s k net
  | Zero k => zero s k
  | StringOf k => string_of s k
  | ECPubKey k => with_pub s k (fun pb => res_out (parse_pub pb))
  | ECPrivKey k => ec_priv s k
  | Address k => with_pub s k (fun pb => OBytes (hash160 pb))
  end.

Fixpoint run_gen (old : bool) (s : state) (ops : list op) : state * list outcome :=
  match ops with
  | [] => (s, [])
  | o :: t => let '(s1, r) := step_gen old s o in let '(s2, rs) := run_gen old s1 t in (s2, r :: rs)
  end.

Definition step := step_gen false.
Definition run := run_gen false.

(* what every accessor of every key in the pool shows: (String observation, IsPrivate) *)
Definition snapshot (s : state) : list (outcome * bool) :=
  map (fun xk => (string_obs (view (st_heap s) xk), x_priv xk)) (st_keys s).

(* ---------- the pure reference: a key is a value, determined by its own derivation ---------- *)
Inductive deriv :=
| DMaster (seed : list N) (net : nat)
| DString (dec : list N)
| DExt (ver key cc fp : list N) (depth num : N) (priv : bool)
| DChild (d : deriv) (i : N)
| DNeuter (d : deriv)
| DSetNet (d : deriv) (net : nat).

Definition pure_child (k : pkey) (i : N) : res pkey :=
  if p_depth k =? max_depth then Err 1
  else if negb (p_priv k) && is_hard i then Err 2
  else
    let pb := pub_val (p_priv k) (p_key k) in
    do (ilr, ck) <- child_core (p_priv k) (p_key k) (if is_hard i then p_key k else pb) (p_cc k) i ;;
    Ok {| p_ver := p_ver k; p_key := ck; p_cc := skipn (cc_off ilr) ilr; p_fp := firstn fp_len (hash160 pb);
          p_depth := next_depth (p_depth k); p_num := i; p_priv := p_priv k |}.

Definition pure_neuter (k : pkey) : res pkey :=
  match priv_to_pub (p_ver k) with
  | None => Err 5
  | Some (_, q) => Ok {| p_ver := q; p_key := pub_val true (p_key k); p_cc := p_cc k; p_fp := p_fp k;
                         p_depth := p_depth k; p_num := p_num k; p_priv := false |}
  end.

Definition net_ver (priv : bool) (n : nat) : list N :=
  let nt := the_net (n mod length all_nets) in if priv then hd_priv_id nt else hd_pub_id nt.

Fixpoint eval (d : deriv) : res pkey :=
  match d with
  | DMaster seed net =>
      do lr <- master_val seed ;;
      let half := (length lr / litn lits_NewMaster 1)%nat in
      Ok {| p_ver := net_ver true net; p_key := firstn (length lr / litn lits_NewMaster 0) lr;
            p_cc := skipn half lr; p_fp := master_fp; p_depth := 0; p_num := 0; p_priv := true |}
  | DString dec =>
      do f <- string_val dec ;;
      Ok {| p_ver := range dec (f_ver f); p_key := range dec (f_key f); p_cc := range dec (f_cc f);
            p_fp := range dec (f_fp f); p_depth := nth (f_depth f) dec 0;
            p_num := be_value (range dec (f_num f)) 0; p_priv := f_priv f |}
  | DExt ver key cc fp depth num priv =>
      Ok {| p_ver := ver; p_key := key; p_cc := cc; p_fp := fp; p_depth := depth mod 256;
            p_num := num mod 4294967296; p_priv := priv |}
  | DChild d' i => do k <- eval d' ;; pure_child k i
  | DNeuter d' => do k <- eval d' ;; pure_neuter k
  | DSetNet d' net => do k <- eval d' ;;
      Ok {| p_ver := net_ver (p_priv k) net; p_key := p_key k; p_cc := p_cc k; p_fp := p_fp k;
            p_depth := p_depth k; p_num := p_num k; p_priv := p_priv k |}
  end.

(* the trace machine: every pool slot holds the derivation of its key ([None] once zeroed).  An
   operation on slot k reads and changes slot k only, or appends a slot built from slot k only; so the
   value in a slot depends on nothing but the operations in its own ancestry.  Outcome [None] = not
   specified beyond "an error" (Child / ECPubKey on a zeroed key). *)
Definition tpush (ds : list (option deriv)) (d : deriv) : list (option deriv) * option outcome :=
  match eval d with
  | Ok _ => (ds ++ [Some d], Some (OCreated (length ds)))
  | Err e => (ds, Some (OErr e))
  | Panic p => (ds, Some (OErr (100 + p)))
  end.

Definition tobs (ds : list (option deriv)) (k : nat) (live : pkey -> outcome) (zeroed : option outcome)
  : list (option deriv) * option outcome :=
  match nth_error ds k with
  | None => (ds, Some (OErr 99))
  | Some None => (ds, zeroed)
  | Some (Some d) => (ds, match eval d with Ok pk => Some (live pk) | _ => Some (OErr 98) end)
  end.

Definition tstep (ds : list (option deriv)) (o : op) : list (option deriv) * option outcome :=
  match o with
  | NewMaster seed net => tpush ds (DMaster seed net)
  | FromString dec => tpush ds (DString dec)
  | NewExt ver key cc fp depth num priv => tpush ds (DExt ver key cc fp depth num priv)
  | Child k i =>
      match nth_error ds k with
      | None => (ds, Some (OErr 99))
      | Some None => (ds, if is_hard i then Some (OErr 2) else None)
      | Some (Some d) => tpush ds (DChild d i)
      end
  | Neuter k =>
      match nth_error ds k with
      | None => (ds, Some (OErr 99))
      | Some None => (ds, Some (OSame k))
      | Some (Some d) =>
          match eval d with
          | Ok pk => if p_priv pk then tpush ds (DNeuter d) else (ds, Some (OSame k))
          | _ => (ds, Some (OErr 98))
          end
      end
  | SetNet k net =>
      match nth_error ds k with
      | None => (ds, Some (OErr 99))
      | Some None => (ds, Some ODone)
      | Some (Some d) => (set_nth ds k (Some (DSetNet d net)), Some ODone)
      end
  | Zero k =>
      match nth_error ds k with
      | None => (ds, Some (OErr 99))
      | Some _ => (set_nth ds k None, Some ODone)
      end
  | StringOf k => tobs ds k string_obs (Some OZeroed)
  | ECPubKey k => tobs ds k (fun pk => res_out (parse_pub (pub_val (p_priv pk) (p_key pk)))) None
  | ECPrivKey k => tobs ds k (fun pk => if p_priv pk then OBytes (p_key pk) else OErr 1) (Some (OErr 1))
  | Address k => tobs ds k (fun pk => OBytes (hash160 (pub_val (p_priv pk) (p_key pk)))) (Some (OBytes (hash160 [])))
  end.

Fixpoint trace (ds : list (option deriv)) (ops : list op) : list (option deriv) * list (option outcome) :=
  match ops with
  | [] => (ds, [])
  | o :: t => let '(ds1, r) := tstep ds o in let '(ds2, rs) := trace ds1 t in (ds2, r :: rs)
  end.

Definition agree_out (o : outcome) (po : option outcome) : Prop :=
  match po with Some x => o = x | None => exists e, o = OErr e end.

End HD.

(* C15 proofs: the separation invariant of the heap machine and its consequences
   (keys_independent, zero_erases). *)
From BU Require Import Lib.Bytes Lib.PolyMod Gen.Nets Gen.Xhdkeychain HDHeap.HDHeap HDHeap.HeapLemmas.
From Coq Require Import ZifyBool ZifyN ZifyNat.

Definition olist (o : option slc) : list slc := match o with Some s => [s] | None => [] end.
(* the slices Zero writes through *)
Definition owned (k : xkey) : list slc := olist (x_key k) ++ olist (x_pub k) ++ olist (x_cc k) ++ olist (x_fp k).
Definition vers (k : xkey) : list slc := olist (x_ver k).

Lemma in_owned k a : In a (owned k) <->
  x_key k = Some a \/ x_pub k = Some a \/ x_cc k = Some a \/ x_fp k = Some a.
Proof.
  unfold owned. rewrite !in_app_iff.
  destruct (x_key k), (x_pub k), (x_cc k), (x_fp k); cbn [olist In]; split; intros H;
    repeat match goal with H : _ \/ _ |- _ => destruct H end; subst; try contradiction; try discriminate; auto;
    try (match goal with H : Some _ = Some _ |- _ => injection H as -> end; auto 6).
Qed.

Lemma in_vers k v : In v (vers k) <-> x_ver k = Some v.
Proof. unfold vers. destruct (x_ver k); cbn [olist In]; split; intros H; try contradiction; try discriminate.
  - destruct H as [->|[]]. reflexivity.
  - injection H as ->. auto.
Qed.

(* ---------- the static arrays (obligations over Gen/Nets.v, re-checked when chaincfg changes) ---------- *)
Lemma nets_len : length all_nets = 6%nat. Proof. reflexivity. Qed.
Lemma nstatic_val : nstatic = 18%nat. Proof. reflexivity. Qed.

Lemma static_priv_ok n : (s_id (static_priv n) < nstatic)%nat /\ rd statics (static_priv n) = net_ver true n.
Proof.
  unfold static_priv, net_ver. rewrite nets_len, nstatic_val.
  pose proof (Nat.mod_upper_bound n 6 ltac:(discriminate)) as Hm. revert Hm. generalize (n mod 6)%nat. intros m Hm.
  do 6 (destruct m as [|m]; [split; [cbn [s_id sub]; lia | reflexivity]|]). lia.
Qed.

Lemma static_pub_ok n : (s_id (static_pub n) < nstatic)%nat /\ rd statics (static_pub n) = net_ver false n.
Proof.
  unfold static_pub, net_ver. rewrite nets_len, nstatic_val.
  pose proof (Nat.mod_upper_bound n 6 ltac:(discriminate)) as Hm. revert Hm. generalize (n mod 6)%nat. intros m Hm.
  do 6 (destruct m as [|m]; [split; [cbn [s_id sub]; lia | reflexivity]|]). lia.
Qed.

Lemma priv_to_pub_ok v vs q : priv_to_pub v = Some (vs, q) -> (s_id vs < nstatic)%nat /\ rd statics vs = q.
Proof.
  unfold priv_to_pub, hd_priv_to_pub. rewrite nstatic_val. cbn [find_ver].
  repeat (destruct (list_eqb _ v); [intros H; injection H as <- <-; split; [cbn [s_id sub length]; rewrite nets_len; lia | reflexivity]|]).
  discriminate.
Qed.

(* ---------- the invariant ---------- *)
Section Proofs.
Variable D : deps.
Hypothesis pub_add_nil : forall il, exists e, d_pub_add D il [] = Err e.       (* ParsePubKey of an empty key fails *)
Hypothesis parse_pub_nil : exists e, d_parse_pub D [] = Err e.

Definition memo_ok (h : heap) (k : xkey) : Prop :=
  x_priv k = true -> length (rdo h (x_pub k)) <> 0%nat -> rdo h (x_pub k) = d_pub_of_priv D (rdo h (x_key k)).

Record inv (s : state) (ds : list (option deriv)) : Prop := {
  i_len : length (st_keys s) = length ds;
  i_nst : (nstatic <= length (st_heap s))%nat;
  i_stat : forall i, (i < nstatic)%nat -> nth i (st_heap s) [] = nth i statics [];
  i_bound : forall k a, In k (st_keys s) -> In a (owned k ++ vers k) -> (s_id a < length (st_heap s))%nat;
  i_dyn : forall k a, In k (st_keys s) -> In a (owned k) -> (nstatic <= s_id a)%nat;
  (* mutable buffers of distinct keys are disjoint *)
  i_sep1 : forall j j' k k' a b, j <> j' -> nth_error (st_keys s) j = Some k -> nth_error (st_keys s) j' = Some k' ->
            In a (owned k') -> In b (owned k) -> disj a b;
  (* nothing writable overlaps any version slice (shared, immutable) *)
  i_sep2 : forall k k' a v, In k (st_keys s) -> In k' (st_keys s) -> In a (owned k') -> In v (vers k) -> disj a v;
  (* every live key denotes the pure value of its own derivation; its memo is right *)
  i_live : forall j d, nth_error ds j = Some (Some d) ->
            exists k, nth_error (st_keys s) j = Some k /\ eval D d = Ok (view (st_heap s) k) /\ memo_ok (st_heap s) k;
  i_dead : forall j, nth_error ds j = Some None ->
            exists k, nth_error (st_keys s) j = Some k /\ x_key k = None /\ x_priv k = false
}.

Lemma rd_static h s : (forall i, (i < nstatic)%nat -> nth i h [] = nth i statics []) -> (s_id s < nstatic)%nat -> rd h s = rd statics s.
Proof. intros H Hs. unfold rd. rewrite H by exact Hs. reflexivity. Qed.

Lemma inv_init : inv init [].
Proof.
  constructor; cbn [init st_heap st_keys]; try (intros; contradiction); try reflexivity.
  - unfold nstatic. lia.
  - intros; destruct j; discriminate.
  - intros j d H. destruct j; discriminate.
  - intros j H. destruct j; discriminate.
Qed.

(* views are stable under allocation *)
Lemma view_app h ext k : (forall a, In a (owned k ++ vers k) -> (s_id a < length h)%nat) -> view (h ++ ext) k = view h k.
Proof.
  intros Hb. unfold view. f_equal; apply rdo_app; intros s E; apply Hb; apply in_app_iff;
    rewrite in_owned, in_vers; auto 6.
Qed.

Lemma memo_app h ext k : (forall a, In a (owned k ++ vers k) -> (s_id a < length h)%nat) -> memo_ok h k -> memo_ok (h ++ ext) k.
Proof.
  intros Hb Hm. unfold memo_ok in *.
  rewrite !rdo_app; [exact Hm| |]; intros s E; apply Hb; apply in_app_iff; rewrite in_owned; auto 6.
Qed.

(* ---------- (a) memoisation through pubKeyBytes ---------- *)
Lemma pub_key_bytes_spec s ds k xk h1 xk1 pbs :
  inv s ds -> nth_error (st_keys s) k = Some xk ->
  pub_key_bytes D (st_heap s) xk = (h1, xk1, pbs) ->
  (nth_error ds k = Some None \/ exists d, nth_error ds k = Some (Some d)) ->
  inv {| st_heap := h1; st_keys := set_nth (st_keys s) k xk1 |} ds /\
  nth_error (set_nth (st_keys s) k xk1) k = Some xk1 /\
  view h1 xk1 = view (st_heap s) xk /\
  rdo h1 pbs = pub_val D (x_priv xk) (rdo (st_heap s) (x_key xk)) /\
  x_ver xk1 = x_ver xk /\ x_cc xk1 = x_cc xk /\ x_fp xk1 = x_fp xk /\ x_key xk1 = x_key xk /\
  x_depth xk1 = x_depth xk /\ x_num xk1 = x_num xk /\ x_priv xk1 = x_priv xk /\
  (x_priv xk = true -> pbs = x_pub xk1) /\ (x_priv xk = false -> pbs = x_key xk) /\
  (exists ext, h1 = st_heap s ++ ext).
Proof.
  intros I Hk E Hds. destruct s as [h ks]. cbn [st_heap st_keys] in *.
  pose proof (nth_error_lt _ _ _ Hk) as Hlt.
  unfold pub_key_bytes in E.
  assert (Hsame : forall pbs', (h, xk, pbs') = (h1, xk1, pbs) ->
            inv {| st_heap := h1; st_keys := set_nth ks k xk1 |} ds /\ nth_error (set_nth ks k xk1) k = Some xk1 /\
            view h1 xk1 = view h xk /\ xk1 = xk /\ h1 = h /\ pbs' = pbs).
  { intros pbs' E'. injection E' as <- <- <-. rewrite (set_nth_id _ _ _ Hk). auto 10. }
  destruct (x_priv xk) eqn:Hp; cbn [negb] in E.
  2:{ destruct (Hsame _ E) as (H1 & H2 & H3 & -> & -> & <-). repeat split; auto; try discriminate.
      - unfold pub_val. reflexivity.
      - exists []. symmetry. apply app_nil_r. }
  destruct (Nat.eqb_spec (length (rdo h (x_pub xk))) (litn lits_ExtendedKey_pubKeyBytes 0)) as [Hz|Hnz].
  2:{ destruct (Hsame _ E) as (H1 & H2 & H3 & -> & -> & <-). repeat split; auto; try congruence.
      - unfold pub_val. destruct Hds as [Hd|[d Hd]].
        + destruct (i_dead _ _ I k Hd) as (k0 & Hk0 & _ & Hpf). cbn [st_keys] in Hk0. congruence.
        + destruct (i_live _ _ I k d Hd) as (k0 & Hk0 & _ & Hm). cbn [st_keys st_heap] in *.
          assert (k0 = xk) by congruence. subst k0. apply Hm; [exact Hp|]. exact Hnz.
      - exists []. symmetry. apply app_nil_r. }
  (* memoise *)
  injection E as <- <- <-.
  set (pb := d_pub_of_priv D (rdo h (x_key xk))).
  set (nk := set_pub xk (Some (whole (length h) pb))).
  assert (Hb : forall a, In a (owned xk ++ vers xk) -> (s_id a < length h)%nat).
  { intros a Ha. apply (i_bound _ _ I xk a); [apply (nth_error_In' _ _ _ Hk) | exact Ha]. }
  assert (Hown : forall a, In a (owned nk) -> In a (owned xk) \/ a = whole (length h) pb).
  { intros a Ha. apply in_owned in Ha. cbn [nk set_pub x_key x_pub x_cc x_fp] in Ha.
    rewrite in_owned. destruct Ha as [H|[H|[H|H]]]; auto. injection H as <-. auto. }
  assert (Hvn : vers nk = vers xk) by reflexivity.
  assert (Hnew : rd (h ++ [pb]) (whole (length h) pb) = pb).
  { replace (length h) with (length h + 0)%nat by lia. apply rd_whole_new. reflexivity. }
  assert (Hin : forall y, In y (set_nth ks k nk) -> y = nk \/ In y ks) by (intros y; apply set_nth_In).
  assert (Hget : forall j y, nth_error (set_nth ks k nk) j = Some y -> (j = k /\ y = nk) \/ (j <> k /\ nth_error ks j = Some y)).
  { intros j y Hy. destruct (Nat.eq_dec j k) as [->|Hne].
    - rewrite set_nth_same in Hy by exact Hlt. injection Hy as <-. auto.
    - rewrite set_nth_other in Hy by auto. auto. }
  assert (Hview : view (h ++ [pb]) nk = view h xk).
  { transitivity (view (h ++ [pb]) xk); [reflexivity|]. apply view_app. exact Hb. }
  split; [|repeat split; auto].
  - constructor; cbn [st_heap st_keys].
    + rewrite set_nth_length. apply (i_len _ _ I).
    + rewrite app_length. pose proof (i_nst _ _ I). cbn [st_heap] in *. lia.
    + intros i Hi. rewrite app_nth1; [apply (i_stat _ _ I i Hi)|]. pose proof (i_nst _ _ I). cbn [st_heap] in *. lia.
    + intros y a Hy Ha. rewrite app_length. cbn [length].
      destruct (Hin y Hy) as [->|Hy'].
      * apply in_app_iff in Ha. destruct Ha as [Ha|Ha].
        -- destruct (Hown a Ha) as [Ha'|->]; [|cbn [whole s_id]; lia].
           specialize (Hb a ltac:(apply in_app_iff; auto)). lia.
        -- rewrite Hvn in Ha. specialize (Hb a ltac:(apply in_app_iff; auto)). lia.
      * pose proof (i_bound _ _ I y a Hy' Ha). cbn [st_heap] in *. lia.
    + intros y a Hy Ha. destruct (Hin y Hy) as [->|Hy'].
      * destruct (Hown a Ha) as [Ha'|->].
        -- apply (i_dyn _ _ I xk a); [apply (nth_error_In' _ _ _ Hk) | exact Ha'].
        -- cbn [whole s_id]. apply (i_nst _ _ I).
      * apply (i_dyn _ _ I y a Hy' Ha).
    + intros j j' y y' a b Hjj Hy Hy' Ha Hbb.
      destruct (Hget _ _ Hy) as [[-> ->]|[Hj Hyo]]; destruct (Hget _ _ Hy') as [[-> ->]|[Hj' Hyo']]; try congruence.
      * (* b in nk (slot k), a in y' (other) *)
        destruct (Hown b Hbb) as [Hb'|->].
        -- apply (i_sep1 _ _ I k j' xk y' a b); auto.
        -- left. cbn [whole s_id]. pose proof (i_bound _ _ I y' a (nth_error_In' _ _ _ Hyo') ltac:(apply in_app_iff; auto)).
           cbn [st_heap] in *. lia.
      * destruct (Hown a Ha) as [Ha'|->].
        -- apply (i_sep1 _ _ I j k y xk a b); auto.
        -- left. cbn [whole s_id]. pose proof (i_bound _ _ I y b (nth_error_In' _ _ _ Hyo) ltac:(apply in_app_iff; auto)).
           cbn [st_heap] in *. lia.
      * apply (i_sep1 _ _ I j j' y y' a b); auto.
    + intros y y' a v Hy Hy' Ha Hv.
      assert (Hv' : exists y0, In y0 ks /\ In v (vers y0)).
      { destruct (Hin y Hy) as [->|Hy0]; [exists xk; split; [apply (nth_error_In' _ _ _ Hk) | exact Hv] | exists y; auto]. }
      destruct Hv' as (y0 & Hy0 & Hv0).
      destruct (Hin y' Hy') as [->|Hy0'].
      * destruct (Hown a Ha) as [Ha'|->].
        -- apply (i_sep2 _ _ I y0 xk a v); auto. apply (nth_error_In' _ _ _ Hk).
        -- left. cbn [whole s_id]. pose proof (i_bound _ _ I y0 v Hy0 ltac:(apply in_app_iff; auto)). cbn [st_heap] in *. lia.
      * apply (i_sep2 _ _ I y0 y' a v); auto.
    + intros j d Hd. destruct (i_live _ _ I j d Hd) as (y & Hy & Hev & Hm). cbn [st_heap st_keys] in *.
      destruct (Nat.eq_dec j k) as [->|Hne].
      * assert (y = xk) by congruence. subst y. exists nk. rewrite set_nth_same by exact Hlt. split; [reflexivity|]. split.
        -- rewrite Hview. exact Hev.
        -- unfold memo_ok. intros _ _. cbn [nk set_pub x_pub x_key rdo]. rewrite Hnew.
           rewrite rdo_app; [reflexivity|]. intros s0 E0. apply Hb. apply in_app_iff. left. apply in_owned. auto.
      * exists y. rewrite set_nth_other by auto. split; [exact Hy|].
        assert (Hby : forall a, In a (owned y ++ vers y) -> (s_id a < length h)%nat).
        { intros a Ha. apply (i_bound _ _ I y a (nth_error_In' _ _ _ Hy) Ha). }
        split; [rewrite view_app by exact Hby; exact Hev | apply memo_app; assumption].
    + intros j Hd. destruct (i_dead _ _ I j Hd) as (y & Hy & Hkn & Hpf). cbn [st_keys] in *.
      destruct (Nat.eq_dec j k) as [->|Hne]; [congruence|].
      exists y. rewrite set_nth_other by auto. auto.
  - apply set_nth_same. exact Hlt.
  - cbn [rdo]. rewrite Hnew. unfold pub_val. reflexivity.
  - intros _. reflexivity.
  - discriminate.
  - exists [pb]. reflexivity.
Qed.

End Proofs.

(* C15 proofs: the separation invariant of the heap machine and its consequences
   (keys_independent, zero_erases). *)
From BU Require Import Lib.Bytes Lib.PolyMod Gen.Nets Gen.Xhdkeychain HDHeap.HDHeap HDHeap.HeapLemmas.
From Coq Require Import ZifyBool ZifyN ZifyNat.

Definition olist (o : option slc) : list slc := match o with Some s => [s] | None => [] end.
(* the slices Zero writes through *)
Definition owned (k : xkey) : list slc := olist (x_key k) ++ olist (x_pub k) ++ olist (x_cc k) ++ olist (x_fp k).
Definition vers (k : xkey) : list slc := olist (x_ver k).

Lemma in_owned k a : In a (owned k) <->
  x_key k = Some a \/ x_pub k = Some a \/ x_cc k = Some a \/ x_fp k = Some a.
Proof.
  unfold owned. rewrite !in_app_iff.
  destruct (x_key k), (x_pub k), (x_cc k), (x_fp k); cbn [olist In]; split; intros H;
    repeat match goal with H : _ \/ _ |- _ => destruct H end; subst; try contradiction; try discriminate; auto;
    try (match goal with H : Some _ = Some _ |- _ => injection H as -> end; auto 6).
Qed.

Lemma in_vers k v : In v (vers k) <-> x_ver k = Some v.
Proof. unfold vers. destruct (x_ver k); cbn [olist In]; split; intros H; try contradiction; try discriminate.
  - destruct H as [->|[]]. reflexivity.
  - injection H as ->. auto.
Qed.

(* ---------- the static arrays (obligations over Gen/Nets.v, re-checked when chaincfg changes) ---------- *)
Lemma nets_len : length all_nets = 6%nat. Proof. reflexivity. Qed.
Lemma nstatic_val : nstatic = 18%nat. Proof. reflexivity. Qed.

Lemma static_priv_ok n : (s_id (static_priv n) < nstatic)%nat /\ rd statics (static_priv n) = net_ver true n.
Proof.
  unfold static_priv, net_ver. rewrite nets_len, nstatic_val.
  pose proof (Nat.mod_upper_bound n 6 (Nat.neq_succ_0 5)) as Hm. revert Hm. generalize (n mod 6)%nat. intros m Hm.
  do 6 (destruct m as [|m]; [split; [cbn [s_id sub]; lia | reflexivity]|]). lia.
Qed.

Lemma static_pub_ok n : (s_id (static_pub n) < nstatic)%nat /\ rd statics (static_pub n) = net_ver false n.
Proof.
  unfold static_pub, net_ver. rewrite nets_len, nstatic_val.
  pose proof (Nat.mod_upper_bound n 6 (Nat.neq_succ_0 5)) as Hm. revert Hm. generalize (n mod 6)%nat. intros m Hm.
  do 6 (destruct m as [|m]; [split; [cbn [s_id sub]; lia | reflexivity]|]). lia.
Qed.

Lemma priv_to_pub_ok v vs q : priv_to_pub v = Some (vs, q) -> (s_id vs < nstatic)%nat /\ rd statics vs = q.
Proof.
  unfold priv_to_pub, hd_priv_to_pub. rewrite nstatic_val. cbn [find_ver].
  repeat (destruct (list_eqb _ v); cbv iota beta;
          [intros H; injection H as <- <-; split; [cbn [s_id sub length]; lia | reflexivity]|]).
  intros H; discriminate H.
Qed.

(* ---------- the invariant ---------- *)
Section Proofs.
Variable D : deps.
Hypothesis pub_add_nil : forall il, exists e, d_pub_add D il [] = Err e.       (* ParsePubKey of an empty key fails *)
Hypothesis parse_pub_nil : exists e, d_parse_pub D [] = Err e.

Definition memo_ok (h : heap) (k : xkey) : Prop :=
  x_priv k = true -> length (rdo h (x_pub k)) <> 0%nat -> rdo h (x_pub k) = d_pub_of_priv D (rdo h (x_key k)).

Definition dead_key (k : xkey) : Prop := x_key k = None /\ x_priv k = false /\ x_depth k = 0.

Record inv (s : state) (ds : list (option deriv)) : Prop := {
  i_len : length (st_keys s) = length ds;
  i_nst : (nstatic <= length (st_heap s))%nat;
  i_stat : forall i, (i < nstatic)%nat -> nth i (st_heap s) [] = nth i statics [];
  i_bound : forall k a, In k (st_keys s) -> In a (owned k ++ vers k) -> (s_id a < length (st_heap s))%nat;
  i_dyn : forall k a, In k (st_keys s) -> In a (owned k) -> (nstatic <= s_id a)%nat;
  (* mutable buffers of distinct keys are disjoint *)
  i_sep1 : forall j j' k k' a b, j <> j' -> nth_error (st_keys s) j = Some k -> nth_error (st_keys s) j' = Some k' ->
            In a (owned k') -> In b (owned k) -> disj a b;
  (* nothing writable overlaps any version slice (shared, immutable) *)
  i_sep2 : forall k k' a v, In k (st_keys s) -> In k' (st_keys s) -> In a (owned k') -> In v (vers k) -> disj a v;
  (* every live key denotes the pure value of its own derivation; its memo is right *)
  i_live : forall j d, nth_error ds j = Some (Some d) ->
            exists k, nth_error (st_keys s) j = Some k /\ eval D d = Ok (view (st_heap s) k) /\ memo_ok (st_heap s) k;
  i_dead : forall j, nth_error ds j = Some None ->
            exists k, nth_error (st_keys s) j = Some k /\ dead_key k
}.

Lemma rd_static h s : (forall i, (i < nstatic)%nat -> nth i h [] = nth i statics []) -> (s_id s < nstatic)%nat -> rd h s = rd statics s.
Proof. intros H Hs. unfold rd. rewrite H by exact Hs. reflexivity. Qed.

Lemma inv_init : inv init [].
Proof.
  constructor; cbn [init st_heap st_keys].
  - reflexivity.
  - apply Nat.le_refl.
  - reflexivity.
  - intros k a [].
  - intros k a [].
  - intros j j' k k' a b _ H. destruct j; discriminate H.
  - intros k k' a v [].
  - intros j d H. destruct j; discriminate H.
  - intros j H. destruct j; discriminate H.
Qed.

(* views are stable under allocation *)
Lemma view_app h ext k : (forall a, In a (owned k ++ vers k) -> (s_id a < length h)%nat) -> view (h ++ ext) k = view h k.
Proof.
  intros Hb. unfold view. f_equal; apply rdo_app; intros s E; apply Hb; apply in_app_iff;
    rewrite in_owned, in_vers; auto 6.
Qed.

Lemma memo_app h ext k : (forall a, In a (owned k ++ vers k) -> (s_id a < length h)%nat) -> memo_ok h k -> memo_ok (h ++ ext) k.
Proof.
  intros Hb Hm. unfold memo_ok in *.
  rewrite !rdo_app; [exact Hm| |]; intros s E; apply Hb; apply in_app_iff; rewrite in_owned; auto 6.
Qed.

(* ---------- (a) memoisation through pubKeyBytes ---------- *)
Lemma pub_key_bytes_spec s ds k xk h1 xk1 pbs :
  inv s ds -> nth_error (st_keys s) k = Some xk ->
  pub_key_bytes D (st_heap s) xk = (h1, xk1, pbs) ->
  (nth_error ds k = Some None \/ exists d, nth_error ds k = Some (Some d)) ->
  inv {| st_heap := h1; st_keys := set_nth (st_keys s) k xk1 |} ds /\
  nth_error (set_nth (st_keys s) k xk1) k = Some xk1 /\
  view h1 xk1 = view (st_heap s) xk /\
  rdo h1 pbs = pub_val D (x_priv xk) (rdo (st_heap s) (x_key xk)) /\
  x_ver xk1 = x_ver xk /\ x_cc xk1 = x_cc xk /\ x_fp xk1 = x_fp xk /\ x_key xk1 = x_key xk /\
  x_depth xk1 = x_depth xk /\ x_num xk1 = x_num xk /\ x_priv xk1 = x_priv xk /\
  (x_priv xk = true -> pbs = x_pub xk1) /\ (x_priv xk = false -> pbs = x_key xk) /\
  (exists ext, h1 = st_heap s ++ ext).
Proof.
  intros I Hk E Hds. destruct s as [h ks]. cbn [st_heap st_keys] in *.
  pose proof (nth_error_lt _ _ _ Hk) as Hlt.
  unfold pub_key_bytes in E.
  assert (Hsame : forall pbs', (h, xk, pbs') = (h1, xk1, pbs) ->
            inv {| st_heap := h1; st_keys := set_nth ks k xk1 |} ds /\ nth_error (set_nth ks k xk1) k = Some xk1 /\
            view h1 xk1 = view h xk /\ xk1 = xk /\ h1 = h /\ pbs' = pbs).
  { intros pbs' E'. injection E' as <- <- <-. rewrite (set_nth_id _ _ _ Hk). auto 10. }
  destruct (x_priv xk) eqn:Hp; cbn [negb] in E.
  2:{ destruct (Hsame _ E) as (H1 & H2 & H3 & -> & -> & <-).
      split; [exact H1|]. split; [exact H2|]. split; [exact H3|]. split; [reflexivity|].
      do 7 (split; [first [reflexivity | assumption | congruence]|]). split; [intros; congruence|]. split; [intros; congruence|].
      exists []. symmetry. apply app_nil_r. }
  destruct (Nat.eqb_spec (length (rdo h (x_pub xk))) (litn lits_ExtendedKey_pubKeyBytes 0)) as [Hz|Hnz].
  2:{ destruct (Hsame _ E) as (H1 & H2 & H3 & -> & -> & <-).
      split; [exact H1|]. split; [exact H2|]. split; [exact H3|]. split.
      { unfold pub_val. destruct Hds as [Hd|[d Hd]].
        + destruct (i_dead _ _ I k Hd) as (k0 & Hk0 & _ & Hpf & _). cbn [st_keys] in Hk0. congruence.
        + destruct (i_live _ _ I k d Hd) as (k0 & Hk0 & _ & Hm). cbn [st_keys st_heap] in *.
          assert (k0 = xk) by congruence. subst k0. apply Hm; [exact Hp|]. exact Hnz. }
      do 7 (split; [first [reflexivity | assumption | congruence]|]). split; [intros; congruence|]. split; [intros; congruence|].
      exists []. symmetry. apply app_nil_r. }
  (* memoise *)
  injection E as <- <- <-.
  set (pb := d_pub_of_priv D (rdo h (x_key xk))).
  set (nk := set_pub xk (Some (whole (length h) pb))).
  assert (Hb : forall a, In a (owned xk ++ vers xk) -> (s_id a < length h)%nat).
  { intros a Ha. apply (i_bound _ _ I xk a); [apply (nth_error_In' _ _ _ Hk) | exact Ha]. }
  assert (Hown : forall a, In a (owned nk) -> In a (owned xk) \/ a = whole (length h) pb).
  { intros a Ha. apply in_owned in Ha. cbn [nk set_pub x_key x_pub x_cc x_fp] in Ha.
    rewrite in_owned. destruct Ha as [H|[H|[H|H]]]; auto. injection H as <-. auto. }
  assert (Hvn : vers nk = vers xk) by reflexivity.
  assert (Hnew : rd (h ++ [pb]) (whole (length h) pb) = pb).
  { replace (length h) with (length h + 0)%nat by lia. apply rd_whole_new. reflexivity. }
  assert (Hin : forall y, In y (set_nth ks k nk) -> y = nk \/ In y ks) by (intros y; apply set_nth_In).
  assert (Hget : forall j y, nth_error (set_nth ks k nk) j = Some y -> (j = k /\ y = nk) \/ (j <> k /\ nth_error ks j = Some y)).
  { intros j y Hy. destruct (Nat.eq_dec j k) as [->|Hne].
    - rewrite set_nth_same in Hy by exact Hlt. injection Hy as <-. auto.
    - rewrite set_nth_other in Hy by auto. auto. }
  assert (Hview : view (h ++ [pb]) nk = view h xk).
  { transitivity (view (h ++ [pb]) xk); [reflexivity|]. apply view_app. exact Hb. }
  split; [|split; [apply set_nth_same; exact Hlt|]; split; [exact Hview|]; split;
             [cbn [rdo]; rewrite Hnew; unfold pub_val; reflexivity|];
             do 7 (split; [first [reflexivity | assumption | congruence]|]); split; [intros; reflexivity|]; split; [intros; congruence|]; exists [pb]; reflexivity].
  - constructor; cbn [st_heap st_keys].
    + rewrite set_nth_length. apply (i_len _ _ I).
    + rewrite app_length. pose proof (i_nst _ _ I). cbn [st_heap] in *. lia.
    + intros i Hi. rewrite app_nth1; [apply (i_stat _ _ I i Hi)|]. pose proof (i_nst _ _ I). cbn [st_heap] in *. lia.
    + intros y a Hy Ha. rewrite app_length. cbn [length].
      destruct (Hin y Hy) as [->|Hy'].
      * apply in_app_iff in Ha. destruct Ha as [Ha|Ha].
        -- destruct (Hown a Ha) as [Ha'| ->]; [|cbn [whole s_id]; lia].
           specialize (Hb a ltac:(apply in_app_iff; auto)). lia.
        -- rewrite Hvn in Ha. specialize (Hb a ltac:(apply in_app_iff; auto)). lia.
      * pose proof (i_bound _ _ I y a Hy' Ha). cbn [st_heap] in *. lia.
    + intros y a Hy Ha. destruct (Hin y Hy) as [->|Hy'].
      * destruct (Hown a Ha) as [Ha'| ->].
        -- apply (i_dyn _ _ I xk a); [apply (nth_error_In' _ _ _ Hk) | exact Ha'].
        -- cbn [whole s_id]. apply (i_nst _ _ I).
      * apply (i_dyn _ _ I y a Hy' Ha).
    + intros j j' y y' a b Hjj Hy Hy' Ha Hbb.
      destruct (Hget _ _ Hy) as [(-> & ->)|(Hj & Hyo)]; destruct (Hget _ _ Hy') as [(-> & ->)|(Hj' & Hyo')]; try congruence.
      * (* b in nk (slot k), a in y' (other) *)
        destruct (Hown b Hbb) as [Hb'| ->].
        -- apply (i_sep1 _ _ I k j' xk y' a b); auto.
        -- left. cbn [whole s_id]. pose proof (i_bound _ _ I y' a (nth_error_In' _ _ _ Hyo') ltac:(apply in_app_iff; auto)).
           cbn [st_heap] in *. lia.
      * destruct (Hown a Ha) as [Ha'| ->].
        -- apply (i_sep1 _ _ I j k y xk a b); auto.
        -- left. cbn [whole s_id]. pose proof (i_bound _ _ I y b (nth_error_In' _ _ _ Hyo) ltac:(apply in_app_iff; auto)).
           cbn [st_heap] in *. lia.
      * apply (i_sep1 _ _ I j j' y y' a b); auto.
    + intros y y' a v Hy Hy' Ha Hv.
      assert (Hv' : exists y0, In y0 ks /\ In v (vers y0)).
      { destruct (Hin y Hy) as [->|Hy0]; [exists xk; split; [apply (nth_error_In' _ _ _ Hk) | exact Hv] | exists y; auto]. }
      destruct Hv' as (y0 & Hy0 & Hv0).
      destruct (Hin y' Hy') as [->|Hy0'].
      * destruct (Hown a Ha) as [Ha'| ->].
        -- apply (i_sep2 _ _ I y0 xk a v); auto. apply (nth_error_In' _ _ _ Hk).
        -- left. cbn [whole s_id]. pose proof (i_bound _ _ I y0 v Hy0 ltac:(apply in_app_iff; auto)). cbn [st_heap] in *. lia.
      * apply (i_sep2 _ _ I y0 y' a v); auto.
    + intros j d Hd. destruct (i_live _ _ I j d Hd) as (y & Hy & Hev & Hm). cbn [st_heap st_keys] in *.
      destruct (Nat.eq_dec j k) as [->|Hne].
      * assert (y = xk) by congruence. subst y. exists nk. rewrite set_nth_same by exact Hlt. split; [reflexivity|]. split.
        -- rewrite Hview. exact Hev.
        -- unfold memo_ok. intros _ _. cbn [nk set_pub x_pub x_key rdo]. rewrite Hnew.
           rewrite rdo_app; [reflexivity|]. intros s0 E0. apply Hb. apply in_app_iff. left. apply in_owned. auto.
      * exists y. rewrite set_nth_other by auto. split; [exact Hy|].
        assert (Hby : forall a, In a (owned y ++ vers y) -> (s_id a < length h)%nat).
        { intros a Ha. apply (i_bound _ _ I y a (nth_error_In' _ _ _ Hy) Ha). }
        split; [rewrite view_app by exact Hby; exact Hev | apply memo_app; assumption].
    + intros j Hd. destruct (i_dead _ _ I j Hd) as (y & Hy & Hdk). cbn [st_keys] in *.
      destruct (Nat.eq_dec j k) as [->|Hne]; [destruct Hdk as (_ & Hpf & _); congruence|].
      exists y. rewrite set_nth_other by auto. auto.
Qed.

(* ---------- (b) a new key on fresh buffers joins the pool ---------- *)
Lemma nth_error_snoc {A} (l : list A) x j y : nth_error (l ++ [x]) j = Some y ->
  ((j < length l)%nat /\ nth_error l j = Some y) \/ (j = length l /\ y = x).
Proof.
  intros H. destruct (Nat.lt_ge_cases j (length l)) as [Hl|Hl].
  - rewrite nth_error_app1 in H by exact Hl. auto.
  - rewrite nth_error_app2 in H by exact Hl. destruct (j - length l)%nat eqn:E.
    + cbn in H. injection H as <-. right. split; [lia|reflexivity].
    + cbn in H. destruct n; discriminate.
Qed.

Lemma memo_none h k : x_pub k = None -> memo_ok h k.
Proof. intros E. unfold memo_ok. rewrite E. cbn [rdo length]. intros _ H. contradiction. Qed.

Lemma inv_push s ds nk d ext :
  inv s ds ->
  (forall a, In a (owned nk) -> (length (st_heap s) <= s_id a < length (st_heap s) + length ext)%nat) ->
  (forall v, In v (vers nk) ->
      (s_id v < nstatic)%nat \/ (exists y, In y (st_keys s) /\ In v (vers y)) \/
      ((length (st_heap s) <= s_id v < length (st_heap s) + length ext)%nat /\ forall a, In a (owned nk) -> disj a v)) ->
  eval D d = Ok (view (st_heap s ++ ext) nk) ->
  x_pub nk = None ->
  inv {| st_heap := st_heap s ++ ext; st_keys := st_keys s ++ [nk] |} (ds ++ [Some d]).
Proof.
  intros I Hown Hver Hev Hpub. destruct s as [h ks]. cbn [st_heap st_keys] in *.
  pose proof (i_nst _ _ I) as Hnst. cbn [st_heap] in Hnst.
  assert (Hbo : forall y a, In y ks -> In a (owned y ++ vers y) -> (s_id a < length h)%nat) by (intros y a; apply (i_bound _ _ I)).
  assert (Hin : forall y, In y (ks ++ [nk]) -> In y ks \/ y = nk).
  { intros y Hy. apply in_app_iff in Hy. destruct Hy as [|[<-|[]]]; auto. }
  assert (Hvb : forall v, In v (vers nk) -> (s_id v < length h + length ext)%nat).
  { intros v Hv. destruct (Hver v Hv) as [H|[(y & Hy & Hvy)|[H _]]]; [lia| |lia].
    specialize (Hbo y v Hy ltac:(apply in_app_iff; auto)). lia. }
  constructor; cbn [st_heap st_keys].
  - rewrite !app_length. cbn [length]. pose proof (i_len _ _ I) as Hlen. cbn [st_keys] in Hlen. lia.
  - rewrite app_length. lia.
  - intros i Hi. rewrite app_nth1 by lia. apply (i_stat _ _ I i Hi).
  - intros y a Hy Ha. rewrite app_length. destruct (Hin y Hy) as [Hy'| ->].
    + specialize (Hbo y a Hy' Ha). lia.
    + apply in_app_iff in Ha. destruct Ha as [Ha|Ha]; [specialize (Hown a Ha); lia | apply Hvb; exact Ha].
  - intros y a Hy Ha. destruct (Hin y Hy) as [Hy'| ->]; [apply (i_dyn _ _ I y a Hy' Ha)|]. specialize (Hown a Ha). lia.
  - intros j j' y y' a b Hjj Hy Hy' Ha Hb.
    destruct (nth_error_snoc _ _ _ _ Hy) as [[Hl Hyo]|[-> ->]]; destruct (nth_error_snoc _ _ _ _ Hy') as [[Hl' Hyo']|[-> ->]].
    + apply (i_sep1 _ _ I j j' y y' a b); auto.
    + left. specialize (Hown a Ha). specialize (Hbo y b (nth_error_In' _ _ _ Hyo) ltac:(apply in_app_iff; auto)). lia.
    + left. specialize (Hown b Hb). specialize (Hbo y' a (nth_error_In' _ _ _ Hyo') ltac:(apply in_app_iff; auto)). lia.
    + congruence.
  - intros y y' a v Hy Hy' Ha Hv.
    destruct (Hin y Hy) as [Hyo| ->]; destruct (Hin y' Hy') as [Hyo'| ->].
    + apply (i_sep2 _ _ I y y' a v); auto.
    + left. specialize (Hown a Ha). specialize (Hbo y v Hyo ltac:(apply in_app_iff; auto)). lia.
    + destruct (Hver v Hv) as [H|[(y0 & Hy0 & Hvy)|[H _]]].
      * left. pose proof (i_dyn _ _ I y' a Hyo' Ha). lia.
      * apply (i_sep2 _ _ I y0 y' a v); auto.
      * left. specialize (Hbo y' a Hyo' ltac:(apply in_app_iff; auto)). lia.
    + destruct (Hver v Hv) as [H|[(y0 & Hy0 & Hvy)|[H Hd]]].
      * left. specialize (Hown a Ha). lia.
      * left. specialize (Hown a Ha). specialize (Hbo y0 v Hy0 ltac:(apply in_app_iff; auto)). lia.
      * apply Hd. exact Ha.
  - intros j d0 Hd. destruct (nth_error_snoc _ _ _ _ Hd) as [[Hl Hdo]|[-> E]].
    + destruct (i_live _ _ I j d0 Hdo) as (y & Hy & Hev0 & Hm). cbn [st_heap st_keys] in *.
      exists y. rewrite nth_error_app1 by (apply (nth_error_lt _ _ _ Hy)). split; [exact Hy|].
      assert (Hby : forall a, In a (owned y ++ vers y) -> (s_id a < length h)%nat) by (intros a; apply Hbo; apply (nth_error_In' _ _ _ Hy)).
      split; [rewrite view_app by exact Hby; exact Hev0 | apply memo_app; assumption].
    + injection E as <-. exists nk. pose proof (i_len _ _ I) as Hlen. cbn [st_keys] in Hlen. rewrite <- Hlen.
      rewrite nth_error_app2 by lia. rewrite Nat.sub_diag. split; [reflexivity|]. split; [exact Hev | apply memo_none; exact Hpub].
  - intros j Hd. destruct (nth_error_snoc _ _ _ _ Hd) as [[Hl Hdo]|[_ E]]; [|discriminate].
    destruct (i_dead _ _ I j Hdo) as (y & Hy & H1). cbn [st_keys] in *.
    exists y. rewrite nth_error_app1 by (apply (nth_error_lt _ _ _ Hy)). auto.
Qed.

(* ---------- (c)/(d) one key is replaced; the heap keeps its shape; other keys' slices read the same ---------- *)
Lemma view_frame h h' y : (forall b, In b (owned y ++ vers y) -> rd h' b = rd h b) ->
  view h' y = view h y /\ (memo_ok h y -> memo_ok h' y).
Proof.
  intros Hf.
  assert (Ho : forall o, (forall b, o = Some b -> In b (owned y ++ vers y)) -> rdo h' o = rdo h o).
  { intros [b|] Hb; [|reflexivity]. cbn [rdo]. apply Hf. apply Hb. reflexivity. }
  assert (Hk : rdo h' (x_key y) = rdo h (x_key y)) by (apply Ho; intros b E; apply in_app_iff; left; apply in_owned; auto).
  assert (Hp : rdo h' (x_pub y) = rdo h (x_pub y)) by (apply Ho; intros b E; apply in_app_iff; left; apply in_owned; auto).
  assert (Hc : rdo h' (x_cc y) = rdo h (x_cc y)) by (apply Ho; intros b E; apply in_app_iff; left; apply in_owned; auto).
  assert (Hfp : rdo h' (x_fp y) = rdo h (x_fp y)) by (apply Ho; intros b E; apply in_app_iff; left; apply in_owned; auto 6).
  assert (Hv : rdo h' (x_ver y) = rdo h (x_ver y)) by (apply Ho; intros b E; apply in_app_iff; right; apply in_vers; auto).
  split.
  - unfold view. rewrite Hk, Hc, Hfp, Hv. reflexivity.
  - unfold memo_ok. rewrite Hk, Hp. auto.
Qed.

Lemma inv_replace s ds ds' k xk nk h' :
  inv s ds -> nth_error (st_keys s) k = Some xk ->
  length h' = length (st_heap s) -> (forall i, (i < nstatic)%nat -> nth i h' [] = nth i (st_heap s) []) ->
  (forall a, In a (owned nk) -> In a (owned xk)) ->
  (forall v, In v (vers nk) -> In v (vers xk) \/ (s_id v < nstatic)%nat) ->
  length ds' = length ds -> (forall j, j <> k -> nth_error ds' j = nth_error ds j) ->
  (forall j y, j <> k -> nth_error (st_keys s) j = Some y -> forall b, In b (owned y ++ vers y) -> rd h' b = rd (st_heap s) b) ->
  ((exists d', nth_error ds' k = Some (Some d') /\ eval D d' = Ok (view h' nk) /\ memo_ok h' nk) \/
   (nth_error ds' k = Some None /\ dead_key nk)) ->
  inv {| st_heap := h'; st_keys := set_nth (st_keys s) k nk |} ds'.
Proof.
  intros I Hk Hlen Hst Hown Hver Hdl Hds Hfr Hkth. destruct s as [h ks]. cbn [st_heap st_keys] in *.
  pose proof (nth_error_lt _ _ _ Hk) as Hlt. pose proof (nth_error_In' _ _ _ Hk) as Hkin.
  pose proof (i_nst _ _ I) as Hnst. cbn [st_heap] in Hnst.
  assert (Hin : forall y, In y (set_nth ks k nk) -> y = nk \/ In y ks) by (intros y; apply set_nth_In).
  assert (Hget : forall j y, nth_error (set_nth ks k nk) j = Some y -> (j = k /\ y = nk) \/ (j <> k /\ nth_error ks j = Some y)).
  { intros j y Hy. destruct (Nat.eq_dec j k) as [->|Hne].
    - rewrite set_nth_same in Hy by exact Hlt. injection Hy as <-. auto.
    - rewrite set_nth_other in Hy by auto. auto. }
  constructor; cbn [st_heap st_keys].
  - rewrite set_nth_length, Hdl. apply (i_len _ _ I).
  - lia.
  - intros i Hi. rewrite Hst by exact Hi. apply (i_stat _ _ I i Hi).
  - intros y a Hy Ha. rewrite Hlen. destruct (Hin y Hy) as [->|Hy'].
    + apply in_app_iff in Ha. destruct Ha as [Ha|Ha].
      * apply (i_bound _ _ I xk a Hkin). apply in_app_iff. left. apply Hown. exact Ha.
      * destruct (Hver a Ha) as [Ha'|Ha']; [|lia]. apply (i_bound _ _ I xk a Hkin). apply in_app_iff. auto.
    + apply (i_bound _ _ I y a Hy' Ha).
  - intros y a Hy Ha. destruct (Hin y Hy) as [->|Hy']; [apply (i_dyn _ _ I xk a Hkin); apply Hown; exact Ha | apply (i_dyn _ _ I y a Hy' Ha)].
  - intros j j' y y' a b Hjj Hy Hy' Ha Hb.
    destruct (Hget _ _ Hy) as [(-> & ->)|(Hj & Hyo)]; destruct (Hget _ _ Hy') as [(-> & ->)|(Hj' & Hyo')]; try congruence.
    + apply (i_sep1 _ _ I k j' xk y' a b); auto.
    + apply (i_sep1 _ _ I j k y xk a b); auto.
    + apply (i_sep1 _ _ I j j' y y' a b); auto.
  - intros y y' a v Hy Hy' Ha Hv.
    assert (Ha' : exists y0, In y0 ks /\ In a (owned y0)).
    { destruct (Hin y' Hy') as [->|Hy0]; [exists xk; split; [exact Hkin | apply Hown; exact Ha] | exists y'; auto]. }
    destruct Ha' as (y0' & Hy0' & Ha0).
    destruct (Hin y Hy) as [->|Hy0].
    + destruct (Hver v Hv) as [Hv'|Hv'].
      * apply (i_sep2 _ _ I xk y0' a v); auto.
      * left. pose proof (i_dyn _ _ I y0' a Hy0' Ha0). lia.
    + apply (i_sep2 _ _ I y y0' a v); auto.
  - intros j d Hd. destruct (Nat.eq_dec j k) as [->|Hne].
    + destruct Hkth as [(d' & Hd' & Hev & Hm)|(Hd' & _)]; [|congruence].
      assert (d' = d) by congruence. subst d'. exists nk. rewrite set_nth_same by exact Hlt. auto.
    + rewrite Hds in Hd by exact Hne. destruct (i_live _ _ I j d Hd) as (y & Hy & Hev & Hm). cbn [st_heap st_keys] in *.
      exists y. rewrite set_nth_other by auto. split; [exact Hy|].
      destruct (view_frame h h' y (Hfr j y Hne Hy)) as [Hv Hmm]. rewrite Hv. auto.
  - intros j Hd. destruct (Nat.eq_dec j k) as [->|Hne].
    + destruct Hkth as [(d' & Hd' & _)|(_ & H1)]; [congruence|].
      exists nk. rewrite set_nth_same by exact Hlt. auto.
    + rewrite Hds in Hd by exact Hne. destruct (i_dead _ _ I j Hd) as (y & Hy & H1). cbn [st_keys] in *.
      exists y. rewrite set_nth_other by auto. auto.
Qed.

(* zeroing a key leaves every slice of every other key as it was *)
Lemma zero_opt_frame h o b : (forall a, o = Some a -> disj a b) -> rd (zero_opt h o) b = rd h b.
Proof. intros H. destruct o as [a|]; [|reflexivity]. cbn [zero_opt]. apply rd_zero_disj. auto. Qed.

Lemma zero_heap_frame h xk b : (forall a, In a (owned xk) -> disj a b) -> rd (zero_heap h xk) b = rd h b.
Proof.
  intros H. unfold zero_heap.
  rewrite !zero_opt_frame; [reflexivity| | | |]; intros a E; apply H; apply in_owned; auto 6.
Qed.

Lemma zero_heap_length h xk : length (zero_heap h xk) = length h.
Proof. unfold zero_heap. rewrite !zero_opt_length. reflexivity. Qed.

Lemma zero_opt_nth h o i : (forall a, o = Some a -> s_id a <> i) -> nth i (zero_opt h o) [] = nth i h [].
Proof.
  intros H. destruct o as [a|]; [|reflexivity]. cbn [zero_opt]. rewrite nth_zero_slc.
  destruct (Nat.eqb_spec i (s_id a)) as [E|]; [|reflexivity]. exfalso. apply (H a eq_refl). auto.
Qed.

Lemma zero_heap_nth h xk i : (forall a, In a (owned xk) -> s_id a <> i) -> nth i (zero_heap h xk) [] = nth i h [].
Proof.
  intros H. unfold zero_heap.
  rewrite !zero_opt_nth; [reflexivity| | | |]; intros a E; apply H; apply in_owned; auto 6.
Qed.

Lemma inv_zero s ds k xk :
  inv s ds -> nth_error (st_keys s) k = Some xk ->
  inv {| st_heap := zero_heap (st_heap s) xk; st_keys := set_nth (st_keys s) k (zeroed_key xk) |} (set_nth ds k None).
Proof.
  intros I Hk. pose proof (nth_error_In' _ _ _ Hk) as Hkin.
  assert (Hltd : (k < length ds)%nat) by (rewrite <- (i_len _ _ I); apply (nth_error_lt _ _ _ Hk)).
  apply (inv_replace s ds (set_nth ds k None) k xk (zeroed_key xk)); auto.
  - apply zero_heap_length.
  - intros i Hi. apply zero_heap_nth. intros a Ha E. pose proof (i_dyn _ _ I xk a Hkin Ha). lia.
  - intros a Ha. apply in_owned in Ha. cbn [zeroed_key x_key x_pub x_cc x_fp] in Ha. apply in_owned.
    destruct Ha as [H|[H|[H|H]]]; auto. discriminate.
  - intros v Hv. apply in_vers in Hv. discriminate.
  - apply set_nth_length.
  - intros j Hj. apply set_nth_other. auto.
  - intros j y Hj Hy b Hb. apply zero_heap_frame. intros a Ha.
    apply in_app_iff in Hb. destruct Hb as [Hb|Hb].
    + apply (i_sep1 _ _ I j k y xk a b); auto.
    + apply (i_sep2 _ _ I y xk a b); auto. apply (nth_error_In' _ _ _ Hy).
  - right. rewrite set_nth_same by exact Hltd. split; [reflexivity|]. repeat split; reflexivity.
Qed.

(* ---------- one step of the heap machine against one step of the trace machine ---------- *)
Definition step_ok (s : state) (ds : list (option deriv)) (r : state * outcome) (t : list (option deriv) * option outcome) : Prop :=
  inv (fst r) (fst t) /\ agree_out (snd r) (snd t).

Lemma lookup_none s ds k : inv s ds -> nth_error (st_keys s) k = None -> nth_error ds k = None.
Proof. intros I H. apply nth_error_None. rewrite <- (i_len _ _ I). apply nth_error_None. exact H. Qed.

Lemma lookup_some s ds k xk : inv s ds -> nth_error (st_keys s) k = Some xk ->
  (nth_error ds k = Some None /\ dead_key xk) \/
  (exists d, nth_error ds k = Some (Some d) /\ eval D d = Ok (view (st_heap s) xk) /\ memo_ok (st_heap s) xk).
Proof.
  intros I H. pose proof (nth_error_lt _ _ _ H) as Hlt. rewrite (i_len _ _ I) in Hlt.
  destruct (nth_error ds k) as [[d|]|] eqn:E; [| |apply nth_error_None in E; lia].
  - right. exists d. split; [reflexivity|]. destruct (i_live _ _ I k d E) as (y & Hy & H1 & H2). assert (y = xk) by congruence. subst y. auto.
  - left. split; [reflexivity|]. destruct (i_dead _ _ I k E) as (y & Hy & H1). assert (y = xk) by congruence. subst y. auto.
Qed.

Lemma firstn_skipn_rest {A} (l : list A) off : firstn (length l - off) (skipn off l) = skipn off l.
Proof. apply firstn_all2. rewrite skipn_length. lia. Qed.

Lemma rd_ver_static s ds vs : inv s ds -> (s_id vs < nstatic)%nat -> forall ext, rd (st_heap s ++ ext) vs = rd statics vs.
Proof.
  intros I Hv ext. rewrite rd_app by (pose proof (i_nst _ _ I); lia). apply rd_static; [apply (i_stat _ _ I) | exact Hv].
Qed.

Lemma new_master_ok s ds seed net : inv s ds -> step_ok s ds (new_master D s seed net) (tpush D ds (DMaster seed net)).
Proof.
  intros I. unfold new_master, tpush. cbn [eval]. destruct (master_val D seed) as [lr|e|p] eqn:E; cbn [rbind].
  2,3: split; cbn [fst snd agree_out]; auto.
  unfold push. split; cbn [fst snd agree_out]; [|rewrite (i_len _ _ I); reflexivity].
  apply inv_push; [exact I| | | |reflexivity].
  - intros a Ha. apply in_owned in Ha. cbn [x_key x_pub x_cc x_fp length] in Ha.
    destruct Ha as [H|[H|[H|H]]]; try discriminate; injection H as <-; cbn [sub whole s_id length]; lia.
  - intros v Hv. apply in_vers in Hv. cbn [x_ver] in Hv. injection Hv as <-. left. apply static_priv_ok.
  - cbn [eval]. rewrite E. cbn [rbind]. f_equal. unfold view. cbn [x_ver x_key x_cc x_fp x_depth x_num x_priv rdo]. f_equal.
    + rewrite (rd_ver_static s ds) by (exact I || apply static_priv_ok). symmetry. apply static_priv_ok.
    + replace (length (st_heap s)) with (length (st_heap s) + 0)%nat by lia. rewrite rd_sub_new. reflexivity.
    + replace (length (st_heap s)) with (length (st_heap s) + 0)%nat by lia. rewrite rd_sub_new. cbn [nth].
      symmetry. apply firstn_skipn_rest.
    + replace (S (length (st_heap s))) with (length (st_heap s) + 1)%nat by lia. symmetry. apply rd_whole_new. reflexivity.
Qed.

Lemma string_val_fields dec f : string_val D dec = Ok f ->
  f_ver f = (0, 4)%nat /\ f_fp f = (5, 9)%nat /\ f_cc f = (13, 45)%nat /\ (f_key f = (45, 78)%nat \/ f_key f = (46, 78)%nat).
Proof.
  unfold string_val.
  repeat (match goal with
          | |- (if ?c then _ else _) = _ -> _ => destruct c
          | |- (match ?c with Ok _ => _ | Err _ => _ | Panic _ => _ end) = _ -> _ => destruct c
          end); try discriminate; intros H; injection H as <-; vm_compute; auto.
Qed.

Lemma from_string_ok s ds dec : inv s ds -> step_ok s ds (from_string D s dec) (tpush D ds (DString dec)).
Proof.
  intros I. unfold from_string, tpush. cbn [eval]. destruct (string_val D dec) as [f|e|p] eqn:E; cbn [rbind].
  2,3: split; cbn [fst snd agree_out]; auto.
  destruct (string_val_fields _ _ E) as (Fv & Ff & Fc & Fk).
  unfold push. split; cbn [fst snd agree_out]; [|rewrite (i_len _ _ I); reflexivity].
  apply inv_push; [exact I| | | |reflexivity].
  - intros a Ha. apply in_owned in Ha. cbn [x_key x_pub x_cc x_fp length] in Ha.
    destruct Ha as [H|[H|[H|H]]]; try discriminate; injection H as <-; cbn [rng sub s_id length]; lia.
  - intros v Hv. apply in_vers in Hv. cbn [x_ver] in Hv. injection Hv as <-. right. right.
    split; [cbn [rng sub s_id length]; lia|].
    intros a Ha. apply in_owned in Ha. cbn [x_key x_pub x_cc x_fp] in Ha. unfold disj. right.
    destruct Ha as [H|[H|[H|H]]]; try discriminate; injection H as <-; rewrite Fv; cbn [rng sub s_off s_len fst snd].
    + destruct Fk as [-> | ->]; cbn [fst snd]; lia.
    + rewrite Fc. cbn [fst snd]. lia.
    + rewrite Ff. cbn [fst snd]. lia.
  - cbn [eval]. rewrite E. cbn [rbind]. f_equal. unfold view. cbn [x_ver x_key x_cc x_fp x_depth x_num x_priv rdo]. unfold rng.
    replace (length (st_heap s)) with (length (st_heap s) + 0)%nat by lia. rewrite !rd_sub_new. reflexivity.
Qed.

Lemma new_ext_ok s ds ver key cc fp depth num priv : inv s ds ->
  step_ok s ds (new_ext s ver key cc fp depth num priv) (tpush D ds (DExt ver key cc fp depth num priv)).
Proof.
  intros I. unfold new_ext, tpush. cbn [eval]. unfold push. split; cbn [fst snd agree_out]; [|rewrite (i_len _ _ I); reflexivity].
  apply inv_push; [exact I| | | |reflexivity].
  - intros a Ha. apply in_owned in Ha. cbn [x_key x_pub x_cc x_fp length] in Ha.
    destruct Ha as [H|[H|[H|H]]]; try discriminate; injection H as <-; cbn [whole s_id length]; lia.
  - intros v Hv. apply in_vers in Hv. cbn [x_ver] in Hv. injection Hv as <-. right. right.
    split; [cbn [whole s_id length]; lia|].
    intros a Ha. apply in_owned in Ha. cbn [x_key x_pub x_cc x_fp] in Ha. left.
    destruct Ha as [H|[H|[H|H]]]; try discriminate; injection H as <-; cbn [whole s_id]; lia.
  - cbn [eval]. f_equal. unfold view. cbn [x_ver x_key x_cc x_fp x_depth x_num x_priv rdo].
    replace (length (st_heap s)) with (length (st_heap s) + 0)%nat at 1 by lia.
    rewrite !rd_whole_new by reflexivity. reflexivity.
Qed.

Lemma inv_same_keys s ds k xk : inv s ds -> nth_error (st_keys s) k = Some xk ->
  inv {| st_heap := st_heap s; st_keys := set_nth (st_keys s) k xk |} ds.
Proof. intros I H. rewrite (set_nth_id _ _ _ H). destruct s. exact I. Qed.

Lemma set_net_ok s ds k net : inv s ds -> step_ok s ds (set_net s k net) (tstep D ds (SetNet k net)).
Proof.
  intros I. unfold set_net. cbn [tstep]. destruct (nth_error (st_keys s) k) as [xk|] eqn:Hk.
  2:{ rewrite (lookup_none _ _ _ I Hk). split; cbn [fst snd agree_out]; auto. }
  set (vs := if x_priv xk then static_priv net else static_pub net).
  assert (Hvs : (s_id vs < nstatic)%nat /\ rd statics vs = net_ver (x_priv xk) net).
  { unfold vs. destruct (x_priv xk); [apply static_priv_ok | apply static_pub_ok]. }
  assert (Hvers : forall v, In v (vers (set_ver xk (Some vs))) -> In v (vers xk) \/ (s_id v < nstatic)%nat).
  { intros v Hv. apply in_vers in Hv. cbn [set_ver x_ver] in Hv. injection Hv as <-. right. apply Hvs. }
  destruct (lookup_some _ _ _ _ I Hk) as [(Hd & Hdk)|(d & Hd & Hev & Hm)]; rewrite Hd.
  - split; cbn [fst snd agree_out]; [|reflexivity].
    apply (inv_replace s ds ds k xk (set_ver xk (Some vs)) (st_heap s)); auto.
  - split; cbn [fst snd agree_out]; [|reflexivity].
    assert (Hlt : (k < length ds)%nat) by (apply nth_error_Some; congruence).
    apply (inv_replace s ds _ k xk (set_ver xk (Some vs)) (st_heap s)); auto.
    + apply set_nth_length.
    + intros j Hj. apply set_nth_other. auto.
    + left. exists (DSetNet d net). rewrite set_nth_same by exact Hlt. split; [reflexivity|]. split; [|exact Hm].
      cbn [eval]. rewrite Hev. cbn [rbind]. f_equal. unfold view. cbn [set_ver x_ver x_key x_cc x_fp x_depth x_num x_priv rdo p_priv p_key p_cc p_fp p_depth p_num].
      f_equal. rewrite (rd_static (st_heap s) vs (i_stat _ _ I)) by apply Hvs. symmetry. apply Hvs.
Qed.

Lemma zero_ok s ds k : inv s ds -> step_ok s ds (zero s k) (tstep D ds (Zero k)).
Proof.
  intros I. unfold zero. cbn [tstep]. destruct (nth_error (st_keys s) k) as [xk|] eqn:Hk.
  2:{ rewrite (lookup_none _ _ _ I Hk). split; cbn [fst snd agree_out]; auto. }
  assert (Hd : exists o, nth_error ds k = Some o).
  { destruct (lookup_some _ _ _ _ I Hk) as [(Hd & _)|(d & Hd & _)]; eauto. }
  destruct Hd as (o & ->). split; cbn [fst snd agree_out]; [|reflexivity]. apply inv_zero; assumption.
Qed.

Lemma string_zeroed_tie : litn lits_ExtendedKey_String 0 = 0%nat. Proof. reflexivity. Qed.

Lemma string_of_ok s ds k : inv s ds -> step_ok s ds (string_of s k) (tstep D ds (StringOf k)).
Proof.
  intros I. unfold string_of. cbn [tstep]. unfold tobs. destruct (nth_error (st_keys s) k) as [xk|] eqn:Hk.
  2:{ rewrite (lookup_none _ _ _ I Hk). split; cbn [fst snd agree_out]; auto. }
  destruct (lookup_some _ _ _ _ I Hk) as [(Hd & Hdk)|(d & Hd & Hev & Hm)]; rewrite Hd.
  - split; cbn [fst snd agree_out]; [exact I|]. destruct Hdk as (Hkn & _).
    unfold string_obs, view. cbn [p_key]. rewrite Hkn. cbn [rdo length]. rewrite string_zeroed_tie. reflexivity.
  - rewrite Hev. split; cbn [fst snd agree_out]; [exact I|reflexivity].
Qed.

Lemma ec_priv_ok s ds k : inv s ds -> step_ok s ds (ec_priv s k) (tstep D ds (ECPrivKey k)).
Proof.
  intros I. unfold ec_priv. cbn [tstep]. unfold tobs. destruct (nth_error (st_keys s) k) as [xk|] eqn:Hk.
  2:{ rewrite (lookup_none _ _ _ I Hk). split; cbn [fst snd agree_out]; auto. }
  destruct (lookup_some _ _ _ _ I Hk) as [(Hd & Hdk)|(d & Hd & Hev & Hm)]; rewrite Hd.
  - split; cbn [fst snd agree_out]; [exact I|]. destruct Hdk as (_ & -> & _). reflexivity.
  - rewrite Hev. split; cbn [fst snd agree_out]; [exact I|reflexivity].
Qed.

Lemma with_pub_ok s ds k (f : list N -> outcome) (z : option outcome) :
  inv s ds -> agree_out (f []) z ->
  step_ok s ds (with_pub D s k f) (tobs D ds k (fun pk => f (pub_val D (p_priv pk) (p_key pk))) z).
Proof.
  intros I Hz. unfold with_pub, tobs. destruct (nth_error (st_keys s) k) as [xk|] eqn:Hk.
  2:{ rewrite (lookup_none _ _ _ I Hk). split; cbn [fst snd agree_out]; auto. }
  destruct (pub_key_bytes D (st_heap s) xk) as [[h1 xk1] pbs] eqn:Ep.
  assert (Hds : nth_error ds k = Some None \/ exists d, nth_error ds k = Some (Some d)).
  { destruct (lookup_some _ _ _ _ I Hk) as [(Hd & _)|(d & Hd & _)]; eauto. }
  destruct (pub_key_bytes_spec s ds k xk h1 xk1 pbs I Hk Ep Hds) as (I1 & _ & _ & Hpb & _).
  destruct (lookup_some _ _ _ _ I Hk) as [(Hd & Hdk)|(d & Hd & Hev & Hm)]; rewrite Hd.
  - split; cbn [fst snd]; [exact I1|]. rewrite Hpb. destruct Hdk as (-> & -> & _). exact Hz.
  - rewrite Hev. split; cbn [fst snd agree_out]; [exact I1|]. rewrite Hpb. reflexivity.
Qed.

Lemma set_nth_twice {A} (l : list A) : forall k a b, set_nth (set_nth l k a) k b = set_nth l k b.
Proof. induction l as [|y l IH]; intros [|k] a b; cbn [set_nth]; auto. f_equal. apply IH. Qed.

Lemma view_fields h xk h1 xk1 : view h1 xk1 = view h xk ->
  rdo h1 (x_ver xk1) = rdo h (x_ver xk) /\ rdo h1 (x_key xk1) = rdo h (x_key xk) /\
  rdo h1 (x_cc xk1) = rdo h (x_cc xk) /\ rdo h1 (x_fp xk1) = rdo h (x_fp xk).
Proof. intros H. unfold view in H. injection H as H1 H2 H3 H4 _ _ _. auto. Qed.

Lemma view_scalars h xk h1 xk1 : view h1 xk1 = view h xk ->
  x_depth xk1 = x_depth xk /\ x_num xk1 = x_num xk /\ x_priv xk1 = x_priv xk.
Proof. intros H. unfold view in H. injection H as _ _ _ _ H5 H6 H7. auto. Qed.

Lemma neuter_ok s ds k : inv s ds -> step_ok s ds (neuter D s k) (tstep D ds (Neuter k)).
Proof.
  intros I. unfold neuter. cbn [tstep]. destruct (nth_error (st_keys s) k) as [xk|] eqn:Hk.
  2:{ rewrite (lookup_none _ _ _ I Hk). split; cbn [fst snd agree_out]; auto. }
  destruct (lookup_some _ _ _ _ I Hk) as [(Hd & Hdk)|(d & Hd & Hev & Hm)]; rewrite Hd.
  { destruct Hdk as (_ & -> & _). split; cbn [fst snd agree_out negb]; auto. }
  rewrite Hev. cbn [view p_priv].
  destruct (x_priv xk) eqn:Hp; cbn [negb]; [|split; cbn [fst snd agree_out]; auto].
  unfold tpush. cbn [eval]. rewrite Hev. cbn [rbind]. unfold pure_neuter. cbn [view p_ver].
  destruct (priv_to_pub (rdo (st_heap s) (x_ver xk))) as [[vs q]|] eqn:Ev; [|split; cbn [fst snd agree_out]; auto].
  destruct (pub_key_bytes D (st_heap s) xk) as [[h1 xk1] pbs] eqn:Ep.
  destruct (pub_key_bytes_spec s ds k xk h1 xk1 pbs I Hk Ep (or_intror (ex_intro _ d Hd)))
    as (I1 & Hg1 & Hv1 & Hpb & Fver & Fcc & Ffp & Fkey & Fdep & Fnum & Fpriv & _ & _ & _).
  destruct (view_fields _ _ _ _ Hv1) as (Vv & Vk & Vc & Vf).
  destruct (priv_to_pub_ok _ _ _ Ev) as (Hvs & Hq).
  unfold push. split; cbn [fst snd agree_out]; [|rewrite set_nth_length, (i_len _ _ I); reflexivity].
  apply (inv_push {| st_heap := h1; st_keys := set_nth (st_keys s) k xk1 |} ds _ (DNeuter d)); [exact I1| | | |reflexivity]; cbn [st_heap st_keys].
  - intros a Ha. apply in_owned in Ha. cbn [x_key x_pub x_cc x_fp] in Ha.
    destruct Ha as [H|[H|[H|H]]]; try discriminate; injection H as <-; cbn [whole s_id length]; lia.
  - intros v Hv. apply in_vers in Hv. cbn [x_ver] in Hv. injection Hv as <-. left. exact Hvs.
  - cbn [eval]. rewrite Hev. cbn [rbind]. unfold pure_neuter. cbn [view p_ver]. rewrite Ev.
    f_equal. unfold view. cbn [x_ver x_key x_cc x_fp x_depth x_num x_priv rdo p_key p_cc p_fp p_depth p_num].
    f_equal.
    + rewrite (rd_ver_static _ _ vs I1 Hvs). symmetry. exact Hq.
    + replace (length h1) with (length h1 + 0)%nat by lia. rewrite rd_whole_new by reflexivity.
      rewrite Hpb, Hp. reflexivity.
    + rewrite rd_whole_new by reflexivity. symmetry. exact Vc.
    + rewrite rd_whole_new by reflexivity. symmetry. exact Vf.
    + symmetry. exact Fdep.
    + symmetry. exact Fnum.
Qed.

Lemma tie_fp_len : fp_len = 4%nat. Proof. reflexivity. Qed.
(* zero(): the loop starts at index 0 and stores the byte 0 (literals of the source, Gen/Xhdkeychain.lits_zero) *)
Lemma tie_zero_lits : (zero_from, zero_byte) = (0%nat, 0). Proof. reflexivity. Qed.

Lemma child_ok s ds k i : inv s ds -> step_ok s ds (child D s k i) (tstep D ds (Child k i)).
Proof.
  intros I. unfold child. cbn [tstep]. destruct (nth_error (st_keys s) k) as [xk|] eqn:Hk.
  2:{ rewrite (lookup_none _ _ _ I Hk). split; cbn [fst snd agree_out]; auto. }
  destruct (lookup_some _ _ _ _ I Hk) as [(Hd & Hdk)|(d & Hd & Hev & Hm)]; rewrite Hd.
  { (* a zeroed key: never derives *)
    destruct Hdk as (Hkn & Hpf & Hdp). rewrite Hdp, Hpf. change (0 =? max_depth) with false. cbv iota. cbn [negb andb].
    destruct (is_hard i) eqn:Hh; [split; cbn [fst snd agree_out]; auto|].
    unfold pub_key_bytes. rewrite Hpf. cbn [negb]. rewrite Hpf, Hkn. cbn [rdo].
    unfold child_core. rewrite Hh.
    destruct (negb _); cbn [rbind].
    - split; cbn [fst snd agree_out]; [apply inv_same_keys; assumption | eauto].
    - destruct (pub_add_nil (firstn (length (d_hmac512 D (rdo (st_heap s) (x_cc xk)) (child_data false [] i)) / litn lits_ExtendedKey_Child 3)
                  (d_hmac512 D (rdo (st_heap s) (x_cc xk)) (child_data false [] i)))) as (e & ->).
      cbn [rbind]. split; cbn [fst snd agree_out]; [apply inv_same_keys; assumption | eauto]. }
  (* a live key *)
  unfold tpush. cbn [eval]. rewrite Hev. cbn [rbind]. unfold pure_child. cbn [view p_depth p_priv p_key p_cc p_ver].
  destruct (x_depth xk =? max_depth) eqn:Edep; [split; cbn [fst snd agree_out]; auto|].
  destruct (negb (x_priv xk) && is_hard i) eqn:Hnh; [split; cbn [fst snd agree_out]; auto|].
  (* first pubKeyBytes (non-hardened path) *)
  assert (Hstep1 : exists h1 xk1 keyish,
            (if is_hard i then (st_heap s, xk, x_key xk) else pub_key_bytes D (st_heap s) xk) = (h1, xk1, keyish) /\
            inv {| st_heap := h1; st_keys := set_nth (st_keys s) k xk1 |} ds /\
            nth_error (set_nth (st_keys s) k xk1) k = Some xk1 /\ view h1 xk1 = view (st_heap s) xk /\
            rdo h1 keyish = (if is_hard i then rdo (st_heap s) (x_key xk) else pub_val D (x_priv xk) (rdo (st_heap s) (x_key xk))) /\
            x_priv xk1 = x_priv xk).
  { destruct (is_hard i).
    - exists (st_heap s), xk, (x_key xk). split; [reflexivity|]. split; [apply inv_same_keys; assumption|].
      rewrite (set_nth_id _ _ _ Hk). auto.
    - destruct (pub_key_bytes D (st_heap s) xk) as [[h1 xk1] pbs] eqn:Ep. exists h1, xk1, pbs. split; [reflexivity|].
      destruct (pub_key_bytes_spec s ds k xk h1 xk1 pbs I Hk Ep (or_intror (ex_intro _ d Hd)))
        as (I1 & Hg1 & Hv1 & Hpb & _ & _ & _ & _ & _ & _ & Fpriv & _). auto 10. }
  destruct Hstep1 as (h1 & xk1 & keyish & -> & I1 & Hg1 & Hv1 & Hki & Fp1).
  destruct (view_fields _ _ _ _ Hv1) as (Vv & Vk & Vc & Vf).
  rewrite Fp1, Vk, Vc, Hki.
  destruct (child_core D (x_priv xk) (rdo (st_heap s) (x_key xk))
               (if is_hard i then rdo (st_heap s) (x_key xk) else pub_val D (x_priv xk) (rdo (st_heap s) (x_key xk)))
               (rdo (st_heap s) (x_cc xk)) i) as [[ilr ck]|e|p] eqn:Ecc; cbn [rbind].
  2,3: split; cbn [fst snd agree_out]; auto.
  (* second pubKeyBytes (fingerprint) *)
  destruct (pub_key_bytes D h1 xk1) as [[h2 xk2] pbs] eqn:Ep2.
  destruct (pub_key_bytes_spec {| st_heap := h1; st_keys := set_nth (st_keys s) k xk1 |} ds k xk1 h2 xk2 pbs I1 Hg1 Ep2
              (or_intror (ex_intro _ d Hd)))
    as (I2 & Hg2 & Hv2 & Hpb2 & Fver & _ & _ & _ & Fdep & _ & Fpriv & _ & _ & _).
  cbn [st_heap st_keys] in *. rewrite set_nth_twice in I2, Hg2.
  destruct (view_fields _ _ _ _ Hv2) as (Vv2 & Vk2 & _ & _).
  unfold push. split; cbn [fst snd agree_out]; [|rewrite set_nth_length, (i_len _ _ I); reflexivity].
  apply (inv_push {| st_heap := h2; st_keys := set_nth (st_keys s) k xk2 |} ds _ (DChild d i)); [exact I2| | | |reflexivity]; cbn [st_heap st_keys].
  - intros a Ha. apply in_owned in Ha. cbn [x_key x_pub x_cc x_fp] in Ha.
    destruct Ha as [H|[H|[H|H]]]; try discriminate; injection H as <-; cbn [whole sub s_id length]; lia.
  - intros v Hv. right. left. exists xk2. split; [apply (nth_error_In' _ _ _ Hg2) | exact Hv].
  - cbn [eval]. rewrite Hev. cbn [rbind]. unfold pure_child. cbn [view p_depth p_priv p_key p_cc p_ver].
    rewrite Edep, Hnh, Ecc. cbn [rbind].
    destruct (view_scalars _ _ _ _ Hv1) as (Sd1 & _ & _). destruct (view_scalars _ _ _ _ Hv2) as (Sd2 & _ & Sp2).
    assert (Hbv : forall sv, x_ver xk2 = Some sv -> (s_id sv < length h2)%nat).
    { intros sv Hsv. apply (i_bound _ _ I2 xk2 sv (nth_error_In' _ _ _ Hg2)). apply in_app_iff. right. apply in_vers. exact Hsv. }
    f_equal. unfold view. cbn [x_ver x_key x_cc x_fp x_depth x_num x_priv rdo].
    f_equal.
    + rewrite rdo_app by exact Hbv. rewrite Vv2. exact (eq_sym Vv).
    + rewrite rd_whole_new by reflexivity. reflexivity.
    + rewrite rd_whole_new by reflexivity. reflexivity.
    + rewrite rd_sub_new. cbn [nth skipn]. rewrite Hpb2, Fp1, Vk. reflexivity.
    + rewrite Sd2, Sd1. reflexivity.
    + rewrite Sp2, Fp1. reflexivity.
Qed.

Lemma step_inv s ds o : inv s ds -> step_ok s ds (step D s o) (tstep D ds o).
Proof.
  intros I. destruct o; cbn [step step_gen tstep].
  - apply new_master_ok; exact I.
  - apply from_string_ok; exact I.
  - apply new_ext_ok; exact I.
  - apply child_ok; exact I.
  - apply neuter_ok; exact I.
  - apply set_net_ok; exact I.
  - apply zero_ok; exact I.
  - apply string_of_ok; exact I.
  - apply with_pub_ok; [exact I|]. destruct parse_pub_nil as (e & ->). cbn [res_out agree_out]. eauto.
  - apply ec_priv_ok; exact I.
  - apply with_pub_ok; [exact I|]. reflexivity.
Qed.

Lemma run_inv ops : forall s ds, inv s ds ->
  inv (fst (run D s ops)) (fst (trace D ds ops)) /\ Forall2 agree_out (snd (run D s ops)) (snd (trace D ds ops)).
Proof.
  induction ops as [|o ops IH]; intros s ds I.
  - cbn. split; [exact I | constructor].
  - unfold run in *. cbn [run_gen trace]. destruct (step_inv s ds o I) as [I1 Ho]. unfold step in *.
    destruct (step_gen D false s o) as [s1 r]. destruct (tstep D ds o) as [ds1 pr]. cbn [fst snd] in *.
    destruct (IH s1 ds1 I1) as [I2 Hos].
    destruct (run_gen D false s1 ops) as [s2 rs]. destruct (trace D ds1 ops) as [ds2 prs]. cbn [fst snd] in *.
    split; [exact I2 | constructor; assumption].
Qed.

(* Every key that has not itself been zeroed denotes, through the heap, the pure value of its own
   derivation; and every outcome of every operation is the one computed from those pure values. *)
Theorem keys_independent ops :
  let s := fst (run D init ops) in let ds := fst (trace D [] ops) in
  length (st_keys s) = length ds /\
  Forall2 agree_out (snd (run D init ops)) (snd (trace D [] ops)) /\
  (forall j d, nth_error ds j = Some (Some d) ->
     exists k, nth_error (st_keys s) j = Some k /\ eval D d = Ok (view (st_heap s) k)) /\
  (* the separation that makes it so *)
  (forall j j' k k' a b, j <> j' -> nth_error (st_keys s) j = Some k -> nth_error (st_keys s) j' = Some k' ->
     In a (owned k') -> In b (owned k) -> disj a b) /\
  (forall k k' a v, In k (st_keys s) -> In k' (st_keys s) -> In a (owned k') -> In v (vers k) -> disj a v).
Proof.
  intros s ds. destruct (run_inv ops init [] inv_init) as [I Ho]. fold s ds in I.
  split; [apply (i_len _ _ I)|]. split; [exact Ho|]. split; [|split; [apply (i_sep1 _ _ I) | apply (i_sep2 _ _ I)]].
  intros j d Hd. destruct (i_live _ _ I j d Hd) as (k & Hk & Hev & _). eauto.
Qed.

End Proofs.

(* ---------- Zero really erases (holds in every state, whatever the aliasing) ---------- *)
Lemma zero_opt_allz h o b : allz (rd h b) -> allz (rd (zero_opt h o) b).
Proof. intros H. destruct o as [a|]; [apply rd_zero_allz; exact H | exact H]. Qed.

Lemma zero_heap_erases h xk a : In a (owned xk) -> allz (rd (zero_heap h xk) a) /\ length (rd (zero_heap h xk) a) = length (rd h a).
Proof.
  intros Ha. split.
  - apply in_owned in Ha. unfold zero_heap. destruct Ha as [H|[H|[H|H]]]; rewrite H; cbn [zero_opt].
    + do 3 apply zero_opt_allz. apply rd_zero_same_allz.
    + do 2 apply zero_opt_allz. apply rd_zero_same_allz.
    + apply zero_opt_allz. apply rd_zero_same_allz.
    + apply rd_zero_same_allz.
  - unfold zero_heap.
    assert (Hl : forall h o, length (rd (zero_opt h o) a) = length (rd h a)).
    { intros h0 [x|]; [apply rd_zero_length | reflexivity]. }
    rewrite !Hl. reflexivity.
Qed.

Theorem zero_erases D s k xk :
  nth_error (st_keys s) k = Some xk ->
  let s' := fst (step D s (Zero k)) in
  snd (step D s (Zero k)) = ODone /\
  (* every slice the key referenced for key material, cached public key, chain code, fingerprint reads all-zero *)
  (forall a, In a (owned xk) -> allz (rd (st_heap s') a) /\ length (rd (st_heap s') a) = length (rd (st_heap s) a)) /\
  (* the key reports zeroed and yields no private key *)
  snd (step D s' (StringOf k)) = OZeroed /\
  snd (step D s' (ECPrivKey k)) = OErr 1 /\
  (exists xk', nth_error (st_keys s') k = Some xk' /\ x_key xk' = None /\ x_ver xk' = None /\ x_priv xk' = false /\
               x_depth xk' = 0 /\ x_num xk' = 0).
Proof.
  intros Hk. cbn [step step_gen]. unfold zero. rewrite Hk. cbn [fst snd st_heap st_keys].
  pose proof (nth_error_lt _ _ _ Hk) as Hlt.
  split; [reflexivity|]. split; [intros a Ha; apply zero_heap_erases; exact Ha|].
  unfold string_of, ec_priv. cbn [st_keys st_heap]. rewrite set_nth_same by exact Hlt.
  split; [reflexivity|]. split; [reflexivity|].
  exists (zeroed_key xk). repeat split; reflexivity.
Qed.

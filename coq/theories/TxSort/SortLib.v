(* Generic facts about sorting with a comparator that is, on the elements at hand,
   the pull-back of a strict total order on keys. *)
From BU Require Import Lib.Bytes TxSort.TxSort.
From Coq Require Import Permutation Sorted.

Section Generic.
  Context {A K : Type}.
  Variables (key : A -> K) (klt : K -> K -> bool) (less : A -> A -> bool) (P : A -> Prop).
  Hypothesis klt_irrefl : forall a, klt a a = false.
  Hypothesis klt_trans : forall a b c, klt a b = true -> klt b c = true -> klt a c = true.
  Hypothesis klt_total : forall a b, klt a b = false -> klt b a = false -> a = b.
  Hypothesis less_key : forall a b, P a -> P b -> less a b = klt (key a) (key b).

  Definition kle (a b : K) : Prop := klt b a = false.

  Lemma kle_refl a : kle a a.
  Proof. apply klt_irrefl. Qed.

  Lemma kle_trans a b c : kle a b -> kle b c -> kle a c.
  Proof.
    unfold kle. intros Hab Hbc.
    destruct (klt c a) eqn:Hca; [|reflexivity].
    destruct (klt a b) eqn:Hab'.
    - rewrite (klt_trans c a b Hca Hab') in Hbc. discriminate.
    - assert (a = b) by (apply klt_total; assumption). subst. congruence.
  Qed.

  Lemma kle_antisym a b : kle a b -> kle b a -> a = b.
  Proof. unfold kle. intros H1 H2. apply klt_total; assumption. Qed.

  Lemma swo_of_key l : Forall P l -> swo_on l less.
  Proof.
    intros HP. rewrite Forall_forall in HP. repeat split.
    - intros a Ha. rewrite less_key by auto. apply klt_irrefl.
    - intros a b c Ha Hb Hc. rewrite !less_key by auto. apply klt_trans.
    - intros a b c Ha Hb Hc. rewrite !less_key by auto. intros H1 H2.
      exact (kle_trans (key c) (key b) (key a) H2 H1).
  Qed.

  (* sortedness on key lists *)
  Definition ksorted (ks : list K) : Prop := StronglySorted kle ks.

  Lemma ksorted_perm_eq ks1 : forall ks2, Permutation ks1 ks2 -> ksorted ks1 -> ksorted ks2 -> ks1 = ks2.
  Proof.
    induction ks1 as [|a t IH]; intros ks2 Hp H1 H2.
    - apply Permutation_nil in Hp. auto.
    - destruct ks2 as [|b u]; [apply Permutation_sym, Permutation_nil in Hp; discriminate|].
      inversion H1 as [|? ? Ht Ha]; subst. inversion H2 as [|? ? Hu Hb]; subst.
      rewrite Forall_forall in Ha, Hb.
      assert (a = b) as ->.
      { assert (In b (a :: t)) as Hin1 by (eapply Permutation_in; [apply Permutation_sym; eassumption| left; reflexivity]).
        assert (In a (b :: u)) as Hin2 by (eapply Permutation_in; [eassumption| left; reflexivity]).
        destruct Hin1 as [E|Hin1]; [auto|]. destruct Hin2 as [E|Hin2]; [auto|].
        apply kle_antisym; auto. }
      f_equal. apply IH; auto. eapply Permutation_cons_inv; eassumption.
  Qed.

  (* adjacent check = all pairs, on P-elements *)
  Lemma go_is_sorted_iff l : Forall P l ->
    (go_is_sorted less l = true <-> ksorted (map key l)).
  Proof.
    induction l as [|a t IH]; intros HP.
    - simpl. split; [constructor|reflexivity].
    - inversion HP as [|? ? Pa Pt]; subst. specialize (IH Pt).
      destruct t as [|b u].
      + simpl. split; [intros _; repeat constructor|reflexivity].
      + inversion Pt as [|? ? Pb Pu]; subst.
        change (go_is_sorted less (a :: b :: u)) with (negb (less b a) && go_is_sorted less (b :: u)).
        rewrite andb_true_iff, negb_true_iff, IH, less_key by assumption.
        split.
        * intros [Hba Hs]. constructor; [assumption|].
          simpl. constructor; [exact Hba|].
          inversion Hs as [|? ? _ Hall]; subst. simpl in Hall.
          rewrite Forall_forall in *. intros k Hk.
          eapply kle_trans; [exact Hba| apply Hall; assumption].
        * intros Hs. inversion Hs as [|? ? Hs' Hall]; subst. split; [|assumption].
          simpl in Hall. inversion Hall; assumption.
  Qed.

  (* insertion sort *)
  Lemma insert_perm x l : Permutation (x :: l) (insert less x l).
  Proof.
    induction l as [|y t IH]; simpl; [reflexivity|].
    destruct (less y x); [|reflexivity].
    etransitivity; [apply perm_swap|]. apply perm_skip. exact IH.
  Qed.

  Lemma isort_perm l : Permutation l (isort A less l).
  Proof.
    unfold isort. induction l as [|x t IH]; simpl; [reflexivity|].
    etransitivity; [apply perm_skip; exact IH|]. apply insert_perm.
  Qed.

  Lemma insert_sorted x l : P x -> Forall P l ->
    ksorted (map key l) -> ksorted (map key (insert less x l)).
  Proof.
    intros Px. induction l as [|y t IH]; intros HP Hs.
    - simpl. repeat constructor.
    - inversion HP as [|? ? Py Pt]; subst. inversion Hs as [|? ? Hs' Hall]; subst.
      simpl. destruct (less y x) eqn:Hyx.
      + simpl. constructor; [apply IH; assumption|].
        rewrite Forall_forall in *. intros k Hk.
        apply in_map_iff in Hk as [z [<- Hz]].
        eapply Permutation_in in Hz; [|apply Permutation_sym, insert_perm].
        destruct Hz as [<-|Hz].
        * rewrite less_key in Hyx by assumption. unfold kle.
          destruct (klt (key x) (key y)) eqn:E; [|reflexivity].
          pose proof (klt_trans _ _ _ Hyx E) as Hc. rewrite klt_irrefl in Hc. discriminate.
        * apply Hall. apply in_map. assumption.
      + simpl. constructor; [simpl in Hs; exact Hs|].
        rewrite less_key in Hyx by assumption.
        constructor; [exact Hyx|].
        rewrite Forall_forall in *. intros k Hk.
        eapply kle_trans; [exact Hyx| apply Hall; assumption].
  Qed.

  Lemma isort_P l : Forall P l -> Forall P (isort A less l).
  Proof.
    intros HP. rewrite Forall_forall in *. intros x Hx. apply HP.
    eapply Permutation_in; [apply Permutation_sym, isort_perm| exact Hx].
  Qed.

  Lemma isort_sorted l : Forall P l -> ksorted (map key (isort A less l)).
  Proof.
    induction l as [|x t IH]; intros HP; [constructor|].
    inversion HP as [|? ? Px Pt]; subst. unfold isort in *. simpl.
    apply insert_sorted; auto. apply (isort_P t Pt).
  Qed.

  (* any two sorted permutations of P-elements have the same key sequence *)
  Lemma sorted_perm_keys l1 l2 : Forall P l1 -> Permutation l1 l2 ->
    go_is_sorted less l1 = true -> go_is_sorted less l2 = true -> map key l1 = map key l2.
  Proof.
    intros HP Hp H1 H2.
    assert (Forall P l2) as HP2.
    { rewrite Forall_forall in *. intros x Hx. apply HP. eapply Permutation_in; [apply Permutation_sym; eassumption|assumption]. }
    apply ksorted_perm_eq.
    - apply Permutation_map. assumption.
    - apply go_is_sorted_iff; assumption.
    - apply go_is_sorted_iff; assumption.
  Qed.
End Generic.

(* when equal keys force equal elements the sorted permutation itself is unique *)
Lemma map_key_inj {A K} (key : A -> K) (l1 l2 : list A) :
  (forall a b, In a l1 -> In b l2 -> key a = key b -> a = b) -> map key l1 = map key l2 -> l1 = l2.
Proof.
  revert l2. induction l1 as [|a t IH]; intros [|b u] Hinj E; simpl in *; try discriminate; auto.
  inversion E. f_equal; [apply Hinj; auto|]. apply IH; auto.
Qed.

(* the reference instance meets the contract whenever the comparator is a pulled-back strict total order:
   used to show the contract is satisfiable; the general statement is isort_contract below *)
Section InsertionSortContract.
  Context {A : Type}.
  Variable less : A -> A -> bool.

  Lemma insert_perm' x l : Permutation (x :: l) (insert less x l).
  Proof.
    induction l as [|y t IH]; simpl; [reflexivity|].
    destruct (less y x); [|reflexivity].
    etransitivity; [apply perm_swap|]. apply perm_skip. exact IH.
  Qed.

  Lemma isort_perm' l : Permutation l (isort A less l).
  Proof.
    unfold isort. induction l as [|x t IH]; simpl; [reflexivity|].
    etransitivity; [apply perm_skip; exact IH|]. apply insert_perm'.
  Qed.

  (* all-pairs sortedness in terms of less itself *)
  Definition lsorted (l : list A) : Prop := StronglySorted (fun a b => less b a = false) l.

  Lemma lsorted_go l : lsorted l -> go_is_sorted less l = true.
  Proof.
    induction l as [|a [|b u] IH]; intros H; try reflexivity.
    inversion H as [|? ? Hs Hall]; subst.
    change (negb (less b a) && go_is_sorted less (b :: u) = true).
    inversion Hall as [|? ? Hba _]; subst. rewrite Hba. simpl. apply IH. assumption.
  Qed.

  Lemma insert_lsorted (U : list A) x l :
    swo_on U less -> In x U -> incl l U -> lsorted l -> lsorted (insert less x l).
  Proof.
    intros [Hirr [Htr Hnt]] Hx. induction l as [|y t IH]; intros Hincl Hs.
    - simpl. repeat constructor.
    - assert (In y U) as Hy by (apply Hincl; left; reflexivity).
      assert (incl t U) as Ht by (intros z Hz; apply Hincl; right; assumption).
      inversion Hs as [|? ? Hs' Hall]; subst.
      simpl. destruct (less y x) eqn:Hyx.
      + constructor; [apply IH; assumption|].
        rewrite Forall_forall in *. intros z Hz.
        eapply Permutation_in in Hz; [|apply Permutation_sym, insert_perm'].
        destruct Hz as [<-|Hz]; [|apply Hall; assumption].
        destruct (less x y) eqn:E; [|reflexivity].
        pose proof (Htr y x y Hy Hx Hy Hyx E) as Hc. rewrite Hirr in Hc; [discriminate|assumption].
      + constructor; [exact Hs|]. constructor; [exact Hyx|].
        rewrite Forall_forall in *. intros z Hz.
        apply (Hnt z y x); auto.
  Qed.

  Lemma isort_lsorted l : swo_on l less -> lsorted (isort A less l).
  Proof.
    intros Hswo. unfold isort.
    assert (forall t, incl t l -> lsorted (isort_aux less t) /\ incl (isort_aux less t) l) as H.
    { induction t as [|x t IH]; intros Hincl; simpl.
      - split; [constructor| intros z []].
      - assert (In x l) as Hx by (apply Hincl; left; reflexivity).
        assert (incl t l) as Ht by (intros z Hz; apply Hincl; right; assumption).
        destruct (IH Ht) as [Hs Hi]. split.
        + eapply insert_lsorted; eauto.
        + intros z Hz. eapply Permutation_in in Hz; [|apply Permutation_sym, insert_perm'].
          destruct Hz as [<-|Hz]; auto. }
    apply H. apply incl_refl.
  Qed.
End InsertionSortContract.

Lemma isort_contract : sort_contract isort.
Proof.
  intros A less l Hswo. split.
  - apply isort_perm'.
  - apply lsorted_go. apply isort_lsorted. assumption.
Qed.

(* Model of /repo/txsort/txsort.go (BIP69 sorting of transaction inputs and outputs).

   Elements:  a TxIn is (previous-outpoint hash as stored = little-endian 32 bytes,
   previous-outpoint index uint32, rest) and a TxOut is (Value int64 as Z, PkScript,
   rest); `rest` is an opaque number standing for the fields the comparators never
   read (SignatureScript+Sequence; TokenData).  Two elements with the same sort key
   can therefore be different values - an unstable sort may order them either way.

   Pointers:  wire.MsgTx holds []*TxIn / []*TxOut; an element of the model slices is
   (object id, pointee).  tx.Copy() allocates fresh objects, sort.Sort swaps the
   pointers of the slice it is given.

   Dependencies:  bytes.Compare is modelled as the lexicographic three-way comparison;
   sort.Sort / sort.IsSorted are `gosort` (a Section variable in the proofs, bound only
   by [sort_contract]) and [go_is_sorted]; chainhash.HashSize is [hash_size].
   Literals of the two Less bodies come from Gen/Xtxsort.v. *)
From BU Require Import Lib.Bytes Lib.PolyMod Gen.Xtxsort.
From Coq Require Import Permutation Sorted.

(* ---------- bytes.Compare ---------- *)
Fixpoint bytes_compare (a b : list N) : Z :=
  match a, b with
  | [], [] => 0%Z
  | [], _ :: _ => (-1)%Z
  | _ :: _, [] => 1%Z
  | x :: a', y :: b' => if x <? y then (-1)%Z else if y <? x then 1%Z else bytes_compare a' b'
  end.

(* ---------- elements ---------- *)
Record txin := mk_in { in_hash : list N; in_index : N; in_rest : N }.
Record txout := mk_out { out_value : Z; out_script : list N; out_rest : N }.

Definition hash_size : nat := 32.     (* chainhash.HashSize (bchd) *)

(* ---------- sortableInputSlice.Less ---------- *)
Fixpoint set_nth (l : list N) (i : nat) (v : N) : list N :=
  match l, i with
  | [], _ => []
  | _ :: t, O => v :: t
  | x :: t, S k => x :: set_nth t k v
  end.

(* h[i], h[j] = h[j'], h[i']   (Go evaluates the right-hand sides first, then assigns left to right) *)
Definition assign2 (h : list N) (i j j' i' : nat) : list N :=
  let vj := nth j' h 0 in let vi := nth i' h 0 in
  set_nth (set_nth h i vj) j vi.

Definition L_in (k : nat) : nat := N.to_nat (lit lits_sortableInputSlice_Less k).

(* for b := 0; b < hashSize/2; b++ { h[b], h[hashSize-1-b] = h[hashSize-1-b], h[b] }
   offL / offR are the two literals `1` of the statement for this array *)
Fixpoint rev_loop (fuel b : nat) (offL offR : nat) (h : list N) : list N :=
  match fuel with
  | O => h
  | S f =>
      if Nat.ltb b (Nat.div hash_size (L_in 1))
      then rev_loop f (S b) offL offR (assign2 h b (hash_size - offL - b) (hash_size - offR - b) b)
      else h
  end.

Definition reversed_i (h : list N) : list N := rev_loop hash_size (L_in 0) (L_in 2) (L_in 3) h.
Definition reversed_j (h : list N) : list N := rev_loop hash_size (L_in 0) (L_in 4) (L_in 5) h.

Definition in_less (a b : txin) : bool :=
  if list_eqb (in_hash a) (in_hash b)               (* ihash == jhash  (array equality) *)
  then in_index a <? in_index b
  else Z.eqb (bytes_compare (reversed_i (in_hash a)) (reversed_j (in_hash b)))
             (- Z.of_N (lit lits_sortableInputSlice_Less 6)).   (* == -1 *)

(* ---------- sortableOutputSlice.Less ---------- *)
Definition out_less (a b : txout) : bool :=
  if Z.eqb (out_value a) (out_value b)
  then Z.ltb (bytes_compare (out_script a) (out_script b)) (Z.of_N (lit lits_sortableOutputSlice_Less 0))
  else Z.ltb (out_value a) (out_value b).

(* ---------- package sort ---------- *)
(* sort.IsSorted: for i := n-1; i > 0; i-- { if Less(i, i-1) { return false } }; return true *)
Fixpoint go_is_sorted {A} (less : A -> A -> bool) (l : list A) : bool :=
  match l with
  | a :: (b :: _) as t => negb (less b a) && go_is_sorted less t
  | _ => true
  end.

(* what sort.Sort needs of Less on the elements it is given *)
Definition swo_on {A} (l : list A) (less : A -> A -> bool) : Prop :=
  (forall a, In a l -> less a a = false) /\
  (forall a b c, In a l -> In b l -> In c l -> less a b = true -> less b c = true -> less a c = true) /\
  (forall a b c, In a l -> In b l -> In c l -> less a b = false -> less b c = false -> less a c = false).

(* what sort.Sort promises then (and nothing more: it is not stable) *)
Definition sort_contract (gosort : forall A : Type, (A -> A -> bool) -> list A -> list A) : Prop :=
  forall (A : Type) (less : A -> A -> bool) (l : list A),
    swo_on l less -> Permutation l (gosort A less l) /\ go_is_sorted less (gosort A less l) = true.

(* reference instance: stable insertion sort *)
Fixpoint insert {A} (less : A -> A -> bool) (x : A) (l : list A) : list A :=
  match l with
  | [] => [x]
  | y :: t => if less y x then y :: insert less x t else x :: y :: t
  end.
Fixpoint isort_aux {A} (less : A -> A -> bool) (l : list A) : list A :=
  match l with [] => [] | x :: t => insert less x (isort_aux less t) end.
Definition isort (A : Type) (less : A -> A -> bool) (l : list A) : list A := isort_aux less l.

(* ---------- transactions ---------- *)
Record msgtx := mk_tx { tx_other : N;                   (* Version, LockTime *)
                        tx_in : list (N * txin);        (* []*TxIn  : (object id, pointee) *)
                        tx_out : list (N * txout) }.    (* []*TxOut *)

Definition in_less_p (x y : N * txin) : bool := in_less (snd x) (snd y).
Definition out_less_p (x y : N * txout) : bool := out_less (snd x) (snd y).

Fixpoint fresh {A} (next : N) (l : list (N * A)) : list (N * A) :=
  match l with [] => [] | (_, v) :: t => (next, v) :: fresh (next + 1) t end.

(* MsgTx.Copy: new TxIn / TxOut objects (and new script buffers) with equal contents *)
Definition tx_copy (next : N) (tx : msgtx) : msgtx :=
  mk_tx (tx_other tx) (fresh next (tx_in tx)) (fresh (next + N.of_nat (length (tx_in tx))) (tx_out tx)).

Section WithSort.
  Variable gosort : forall A : Type, (A -> A -> bool) -> list A -> list A.

  Definition inplace_sort (tx : msgtx) : msgtx :=
    mk_tx (tx_other tx) (gosort _ in_less_p (tx_in tx)) (gosort _ out_less_p (tx_out tx)).

  (* Sort: the argument is not part of the result; `next` is the allocation counter *)
  Definition sort_tx (next : N) (tx : msgtx) : msgtx := inplace_sort (tx_copy next tx).
End WithSort.

Definition is_sorted (tx : msgtx) : bool :=
  if negb (go_is_sorted in_less_p (tx_in tx)) then false
  else if negb (go_is_sorted out_less_p (tx_out tx)) then false
  else true.

(* ---------- specification vocabulary (BIP69) ---------- *)
Definition wf_in (a : txin) : Prop := length (in_hash a) = hash_size /\ Bytes (in_hash a).
Definition wf_tx (tx : msgtx) : Prop := Forall (fun p => wf_in (snd p)) (tx_in tx).

(* the transaction id as displayed (byte-reversed), read as a big-endian number *)
Definition id_num (a : txin) : N := le_value (in_hash a).

Definition in_spec_lt (a b : txin) : Prop :=
  id_num a < id_num b \/ (id_num a = id_num b /\ in_index a < in_index b).

(* lexicographic order on byte strings; a proper prefix comes first *)
Inductive lex_lt : list N -> list N -> Prop :=
| lex_nil : forall y t, lex_lt [] (y :: t)
| lex_head : forall x y s t, x < y -> lex_lt (x :: s) (y :: t)
| lex_tail : forall x s t, lex_lt s t -> lex_lt (x :: s) (x :: t).

Definition out_spec_lt (a b : txout) : Prop :=
  (out_value a < out_value b)%Z \/ (out_value a = out_value b /\ lex_lt (out_script a) (out_script b)).

Definition ordered {A} (lt : A -> A -> Prop) (l : list A) : Prop :=
  StronglySorted (fun a b => ~ lt b a) l.

Definition bip69_ordered (tx : msgtx) : Prop :=
  ordered in_spec_lt (map snd (tx_in tx)) /\ ordered out_spec_lt (map snd (tx_out tx)).

(* the sort keys *)
Definition in_key (a : txin) : list N * N := (in_hash a, in_index a).
Definition out_key (a : txout) : Z * list N := (out_value a, out_script a).
Definition keyseq (tx : msgtx) := (map (fun p => in_key (snd p)) (tx_in tx), map (fun p => out_key (snd p)) (tx_out tx)).
Definition ids (tx : msgtx) : list N := map fst (tx_in tx) ++ map fst (tx_out tx).

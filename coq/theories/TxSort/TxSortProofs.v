(* Proofs for C18 (BIP69 sorting). *)
From BU Require Import Lib.Bytes Lib.PolyMod Gen.Xtxsort TxSort.TxSort TxSort.SortLib.
From Coq Require Import Permutation Sorted.
From Coq Require Import ZifyBool ZifyN ZifyNat.

(* ================= bytes.Compare ================= *)
Lemma cmp_range a : forall b, bytes_compare a b = (-1)%Z \/ bytes_compare a b = 0%Z \/ bytes_compare a b = 1%Z.
Proof.
  induction a as [|x a IH]; intros [|y b]; simpl; auto.
  destruct (x <? y); auto. destruct (y <? x); auto.
Qed.

Lemma cmp_refl a : bytes_compare a a = 0%Z.
Proof. induction a as [|x a IH]; simpl; auto. rewrite N.ltb_irrefl. exact IH. Qed.

Lemma cmp_eq a : forall b, bytes_compare a b = 0%Z -> a = b.
Proof.
  induction a as [|x a IH]; intros [|y b]; simpl; intros H; try discriminate; auto.
  destruct (x <? y) eqn:E1; [discriminate|]. destruct (y <? x) eqn:E2; [discriminate|].
  assert (x = y) by lia. subst. f_equal. auto.
Qed.

Lemma cmp_antisym a : forall b, bytes_compare b a = (- bytes_compare a b)%Z.
Proof.
  induction a as [|x a IH]; intros [|y b]; simpl; auto.
  destruct (x <? y) eqn:E1; destruct (y <? x) eqn:E2; auto. lia.
Qed.

Lemma cmp_trans a : forall b c, bytes_compare a b = (-1)%Z -> bytes_compare b c = (-1)%Z -> bytes_compare a c = (-1)%Z.
Proof.
  induction a as [|x a IH]; intros [|y b] [|z c]; simpl; intros H1 H2; try discriminate; auto.
  destruct (x <? y) eqn:E1; destruct (y <? z) eqn:E2; destruct (x <? z) eqn:E3; auto; try lia;
  destruct (y <? x) eqn:E4; try discriminate; destruct (z <? y) eqn:E5; try discriminate;
  destruct (z <? x) eqn:E6; try lia.
  eapply IH; eassumption.
Qed.

Lemma cmp_lex a : forall b, bytes_compare a b = (-1)%Z <-> lex_lt a b.
Proof.
  induction a as [|x a IH]; intros [|y b]; simpl.
  - split; [discriminate| intros H; inversion H].
  - split; [constructor| reflexivity].
  - split; [discriminate| intros H; inversion H].
  - destruct (x <? y) eqn:E1.
    + split; [intros _; apply lex_head; lia| reflexivity].
    + destruct (y <? x) eqn:E2.
      * split; [discriminate|]. intros H. inversion H; subst; lia.
      * assert (x = y) by lia. subst. rewrite IH. split.
        -- apply lex_tail.
        -- intros H. inversion H; subst; [lia|assumption].
Qed.

Lemma lex_lt_char a b :
  lex_lt a b <->
  (exists s, s <> [] /\ b = a ++ s) \/
  (exists p x s y t, a = p ++ x :: s /\ b = p ++ y :: t /\ x < y).
Proof.
  split.
  - induction 1 as [y t|x y s t Hxy|x s t H IH].
    + left. exists (y :: t). split; [discriminate|reflexivity].
    + right. exists [], x, s, y, t. auto.
    + destruct IH as [[u [Hu ->]]|[p [x' [s' [y' [t' [-> [-> Hlt]]]]]]]].
      * left. exists u. auto.
      * right. exists (x :: p), x', s', y', t'. auto.
  - intros [[s [Hs ->]]|[p [x [s [y [t [-> [-> Hlt]]]]]]]].
    + induction a as [|x a IH]; simpl.
      * destruct s; [congruence|constructor].
      * apply lex_tail. exact IH.
    + induction p as [|z p IH]; simpl.
      * apply lex_head. assumption.
      * apply lex_tail. exact IH.
Qed.

Lemma cmp_app p : forall q s t, length p = length q ->
  bytes_compare (p ++ s) (q ++ t) = if Z.eqb (bytes_compare p q) 0 then bytes_compare s t else bytes_compare p q.
Proof.
  induction p as [|x p IH]; intros [|y q] s t Hl; simpl in *; try discriminate; auto.
  destruct (x <? y); [reflexivity|]. destruct (y <? x); [reflexivity|]. apply IH. lia.
Qed.

Definition cmpN (u v : N) : Z := if u <? v then (-1)%Z else if v <? u then 1%Z else 0%Z.

Lemma le_value_bound a : Bytes a -> le_value a < 256 ^ N.of_nat (length a).
Proof.
  induction a as [|x a IH]; intros HB.
  - simpl. lia.
  - apply Bytes_cons in HB as [Hx HB]. specialize (IH HB).
    cbn [le_value length]. rewrite Nat2N.inj_succ, N.pow_succ_r'. lia.
Qed.

Lemma cmp_rev_num a : forall b, length a = length b -> Bytes a -> Bytes b ->
  bytes_compare (rev a) (rev b) = cmpN (le_value a) (le_value b).
Proof.
  induction a as [|x a IH]; intros [|y b] Hl Ha Hb; simpl in Hl; try discriminate.
  - reflexivity.
  - apply Bytes_cons in Ha as [Hx Ha]. apply Bytes_cons in Hb as [Hy Hb].
    cbn [rev le_value]. rewrite cmp_app by (rewrite !rev_length; lia).
    rewrite IH by (auto; lia).
    change (bytes_compare [x] [y]) with (if x <? y then (-1)%Z else if y <? x then 1%Z else 0%Z).
    generalize (le_value a) (le_value b). intros u v. unfold cmpN.
    destruct (N.ltb_spec u v), (N.ltb_spec v u), (N.ltb_spec x y), (N.ltb_spec y x),
             (N.ltb_spec (x + 256 * u) (y + 256 * v)), (N.ltb_spec (y + 256 * v) (x + 256 * u));
      cbn [Z.eqb]; try reflexivity; try lia.
Qed.

Lemma le_value_rev_be h : le_value h = be_value (rev h) 0.
Proof.
  assert (forall l acc, be_value (rev l) acc = le_value l + acc * 256 ^ N.of_nat (length l)) as H.
  { induction l as [|x l IH]; intros acc.
    - simpl. lia.
    - cbn [rev length le_value].
      assert (forall u v acc', be_value (u ++ v) acc' = be_value v (be_value u acc')) as Happ.
      { induction u as [|z u IHu]; intros; simpl; auto. }
      rewrite Happ, IH. cbn [be_value]. rewrite Nat2N.inj_succ, N.pow_succ_r'. lia. }
  rewrite H. lia.
Qed.

(* ================= the byte reversal loop ================= *)
Lemma reversed_is_rev h : length h = hash_size -> reversed_i h = rev h /\ reversed_j h = rev h.
Proof.
  unfold hash_size. intros Hl.
  do 32 (destruct h as [|? h]; [discriminate|]).
  destruct h; [|discriminate].
  split; vm_compute; reflexivity.
Qed.

(* ================= input comparator ================= *)
Definition in_klt (k1 k2 : list N * N) : bool :=
  if list_eqb (fst k1) (fst k2) then snd k1 <? snd k2
  else Z.eqb (bytes_compare (rev (fst k1)) (rev (fst k2))) (-1).

Lemma list_eqb_false a b : list_eqb a b = false <-> a <> b.
Proof.
  split.
  - intros H E. apply list_eqb_eq in E. congruence.
  - intros H. destruct (list_eqb a b) eqn:E; [apply list_eqb_eq in E; contradiction|reflexivity].
Qed.

Lemma rev_inj {A} (a b : list A) : rev a = rev b -> a = b.
Proof. intros H. rewrite <- (rev_involutive a), <- (rev_involutive b). congruence. Qed.

Lemma in_klt_irrefl k : in_klt k k = false.
Proof. unfold in_klt. rewrite list_eqb_refl. apply N.ltb_irrefl. Qed.

Lemma in_klt_trans k1 k2 k3 : in_klt k1 k2 = true -> in_klt k2 k3 = true -> in_klt k1 k3 = true.
Proof.
  destruct k1 as [h1 i1], k2 as [h2 i2], k3 as [h3 i3]. unfold in_klt. simpl.
  destruct (list_eqb h1 h2) eqn:E12; [apply list_eqb_eq in E12; subst|];
  (destruct (list_eqb h2 h3) eqn:E23; [apply list_eqb_eq in E23; subst|]); intros H1 H2.
  - try rewrite list_eqb_refl. lia.
  - try rewrite E23. assumption.
  - try rewrite E12. assumption.
  - apply Z.eqb_eq in H1, H2.
    destruct (list_eqb h1 h3) eqn:E13.
    + apply list_eqb_eq in E13. subst.
      match goal with H : bytes_compare ?u ?v = _, H' : bytes_compare ?v ?u = _ |- _ =>
        rewrite (cmp_antisym u v) in H'; lia end.
    + apply Z.eqb_eq. eapply cmp_trans; eassumption.
Qed.

Lemma in_klt_total k1 k2 : in_klt k1 k2 = false -> in_klt k2 k1 = false -> k1 = k2.
Proof.
  destruct k1 as [h1 i1], k2 as [h2 i2]. unfold in_klt. simpl.
  destruct (list_eqb h1 h2) eqn:E12.
  - apply list_eqb_eq in E12. subst. rewrite list_eqb_refl. intros. f_equal. lia.
  - assert (list_eqb h2 h1 = false) as E21.
    { apply list_eqb_false. apply list_eqb_false in E12. congruence. }
    rewrite E21. intros H1 H2. exfalso.
    apply Z.eqb_neq in H1, H2. rewrite (cmp_antisym (rev h1) (rev h2)) in H2.
    destruct (cmp_range (rev h1) (rev h2)) as [H|[H|H]]; try lia.
    apply cmp_eq, rev_inj in H. apply list_eqb_false in E12. contradiction.
Qed.

Lemma in_less_key a b : wf_in a -> wf_in b -> in_less a b = in_klt (in_key a) (in_key b).
Proof.
  intros [La _] [Lb _]. unfold in_less, in_klt, in_key. cbn [fst snd].
  destruct (reversed_is_rev _ La) as [-> _]. destruct (reversed_is_rev _ Lb) as [_ ->].
  reflexivity.
Qed.

Lemma le_value_inj a : forall b, length a = length b -> Bytes a -> Bytes b -> le_value a = le_value b -> a = b.
Proof.
  induction a as [|x a IH]; intros [|y b] Hl Ha Hb E; simpl in Hl; try discriminate; auto.
  apply Bytes_cons in Ha as [Hx Ha]. apply Bytes_cons in Hb as [Hy Hb].
  cbn [le_value] in E. assert (x = y /\ le_value a = le_value b) as [-> E'] by lia.
  f_equal. apply IH; auto.
Qed.

Lemma in_klt_spec a b : wf_in a -> wf_in b ->
  (in_klt (in_key a) (in_key b) = true <-> in_spec_lt a b).
Proof.
  intros [La Ba] [Lb Bb]. unfold in_klt, in_key, in_spec_lt, id_num. simpl.
  destruct (list_eqb (in_hash a) (in_hash b)) eqn:E.
  - apply list_eqb_eq in E. rewrite E. split; [intros H; right; lia|intros [H|[_ H]]; lia].
  - apply list_eqb_false in E.
    rewrite cmp_rev_num by (auto; congruence). unfold cmpN. split.
    + intros H. left. destruct (le_value (in_hash a) <? le_value (in_hash b)) eqn:F; [lia|].
      destruct (le_value (in_hash b) <? le_value (in_hash a)); discriminate.
    + intros [H|[H _]].
      * destruct (le_value (in_hash a) <? le_value (in_hash b)) eqn:F; [reflexivity|lia].
      * exfalso. apply E. apply le_value_inj; auto. congruence.
Qed.

Lemma in_less_is_spec a b : wf_in a -> wf_in b -> (in_less a b = true <-> in_spec_lt a b).
Proof. intros Ha Hb. rewrite in_less_key by assumption. apply in_klt_spec; assumption. Qed.

(* ================= output comparator ================= *)
Definition out_klt (k1 k2 : Z * list N) : bool :=
  if Z.eqb (fst k1) (fst k2) then Z.ltb (bytes_compare (snd k1) (snd k2)) 0 else Z.ltb (fst k1) (fst k2).

Lemma out_less_key a b : out_less a b = out_klt (out_key a) (out_key b).
Proof. reflexivity. Qed.

Lemma out_klt_irrefl k : out_klt k k = false.
Proof. unfold out_klt. rewrite Z.eqb_refl, cmp_refl. reflexivity. Qed.

Lemma out_klt_trans k1 k2 k3 : out_klt k1 k2 = true -> out_klt k2 k3 = true -> out_klt k1 k3 = true.
Proof.
  destruct k1 as [v1 s1], k2 as [v2 s2], k3 as [v3 s3]. unfold out_klt. simpl.
  destruct (Z.eqb_spec v1 v2), (Z.eqb_spec v2 v3), (Z.eqb_spec v1 v3); intros H1 H2; try lia.
  destruct (cmp_range s1 s2) as [A|[A|A]]; try lia.
  destruct (cmp_range s2 s3) as [B|[B|B]]; try lia.
  rewrite (cmp_trans _ _ _ A B). reflexivity.
Qed.

Lemma out_klt_total k1 k2 : out_klt k1 k2 = false -> out_klt k2 k1 = false -> k1 = k2.
Proof.
  destruct k1 as [v1 s1], k2 as [v2 s2]. unfold out_klt. simpl.
  destruct (Z.eqb_spec v1 v2), (Z.eqb_spec v2 v1); intros H1 H2; try lia.
  subst. f_equal. apply cmp_eq. rewrite (cmp_antisym s1 s2) in H2.
  destruct (cmp_range s1 s2) as [A|[A|A]]; lia.
Qed.

Lemma out_less_is_spec a b : out_less a b = true <-> out_spec_lt a b.
Proof.
  rewrite out_less_key. unfold out_klt, out_key, out_spec_lt. simpl.
  destruct (Z.eqb_spec (out_value a) (out_value b)) as [E|E].
  - rewrite <- cmp_lex. destruct (cmp_range (out_script a) (out_script b)) as [A|[A|A]]; rewrite A; split; intros H; try lia; try (right; auto; fail); destruct H as [H|[_ H]]; lia.
  - split; [intros H; left; lia| intros [H|[H _]]; lia].
Qed.

(* ================= strict weak orders ================= *)
Lemma in_less_swo l : Forall wf_in l -> swo_on l in_less.
Proof.
  apply (swo_of_key in_key in_klt in_less wf_in in_klt_irrefl in_klt_trans in_klt_total in_less_key).
Qed.

Lemma out_less_swo l : swo_on l out_less.
Proof.
  apply (swo_of_key out_key out_klt out_less (fun _ => True) out_klt_irrefl out_klt_trans out_klt_total
           (fun a b _ _ => out_less_key a b)).
  apply Forall_forall. auto.
Qed.

(* ================= pointer-tagged slices ================= *)
Lemma go_is_sorted_snd {A} (less : A -> A -> bool) (l : list (N * A)) :
  go_is_sorted (fun x y => less (snd x) (snd y)) l = go_is_sorted less (map snd l).
Proof.
  induction l as [|a [|b u] IH]; try reflexivity.
  change (negb (less (snd b) (snd a)) && go_is_sorted (fun x y => less (snd x) (snd y)) (b :: u)
          = negb (less (snd b) (snd a)) && go_is_sorted less (map snd (b :: u))).
  rewrite IH. reflexivity.
Qed.

Lemma swo_on_snd {A} (less : A -> A -> bool) (l : list (N * A)) :
  swo_on (map snd l) less -> swo_on l (fun x y => less (snd x) (snd y)).
Proof.
  intros [H1 [H2 H3]]. repeat split.
  - intros a Ha. apply H1. apply in_map. assumption.
  - intros a b c Ha Hb Hc. apply H2; apply in_map; assumption.
  - intros a b c Ha Hb Hc. apply H3; apply in_map; assumption.
Qed.

Lemma fresh_snd {A} (l : list (N * A)) : forall n, map snd (fresh n l) = map snd l.
Proof. induction l as [|[i v] t IH]; intros n; simpl; [reflexivity|]. rewrite IH. reflexivity. Qed.

Lemma fresh_length {A} (l : list (N * A)) : forall n, length (fresh n l) = length l.
Proof. induction l as [|[i v] t IH]; intros n; simpl; [reflexivity|]. rewrite IH. reflexivity. Qed.

Lemma fresh_ids_range {A} (l : list (N * A)) : forall n i,
  In i (map fst (fresh n l)) -> n <= i < n + N.of_nat (length l).
Proof.
  induction l as [|[j v] t IH]; intros n i; simpl; [tauto|].
  intros [<-|H]; [lia|]. apply IH in H. lia.
Qed.

Lemma fresh_ids_nodup {A} (l : list (N * A)) : forall n, NoDup (map fst (fresh n l)).
Proof.
  induction l as [|[j v] t IH]; intros n; simpl; constructor.
  - intros H. apply fresh_ids_range in H. lia.
  - apply IH.
Qed.

Lemma nodup_app {A} (a b : list A) : NoDup a -> NoDup b -> (forall x, In x a -> ~ In x b) -> NoDup (a ++ b).
Proof.
  induction a as [|x a IH]; intros Ha Hb Hd; simpl; [assumption|].
  inversion Ha; subst. constructor.
  - rewrite in_app_iff. intros [H|H]; [contradiction| apply (Hd x); [left; reflexivity|assumption]].
  - apply IH; auto. intros y Hy. apply Hd. right. assumption.
Qed.

Lemma StronglySorted_map_iff {A B} (f : A -> B) (R : B -> B -> Prop) (S : A -> A -> Prop) (P : A -> Prop) l :
  Forall P l -> (forall a b, P a -> P b -> (R (f a) (f b) <-> S a b)) ->
  (StronglySorted R (map f l) <-> StronglySorted S l).
Proof.
  intros HP Heq. induction l as [|a t IH]; simpl.
  - split; constructor.
  - inversion HP as [|? ? Pa Pt]; subst. specialize (IH Pt). rewrite Forall_forall in Pt. split.
    + intros H. inversion H as [|? ? Hs Hall]; subst. constructor; [apply IH; assumption|].
      rewrite Forall_forall in *. intros b Hb. apply Heq; auto. apply Hall. apply in_map. assumption.
    + intros H. inversion H as [|? ? Hs Hall]; subst. constructor; [apply IH; assumption|].
      rewrite Forall_forall in *. intros b Hb. apply in_map_iff in Hb as [c [<- Hc]]. apply Heq; auto.
Qed.

(* sortedness by the comparator = BIP69 order *)
Lemma in_sorted_ordered (l : list txin) : Forall wf_in l ->
  (go_is_sorted in_less l = true <-> ordered in_spec_lt l).
Proof.
  intros HP.
  rewrite (go_is_sorted_iff in_key in_klt in_less wf_in in_klt_trans in_klt_total in_less_key l HP).
  unfold ksorted, ordered. apply (StronglySorted_map_iff in_key _ _ wf_in l HP).
  intros a b Ha Hb. unfold kle. rewrite <- in_klt_spec by assumption.
  destruct (in_klt (in_key b) (in_key a)); split; intros H; congruence.
Qed.

Lemma out_sorted_ordered (l : list txout) :
  go_is_sorted out_less l = true <-> ordered out_spec_lt l.
Proof.
  assert (Forall (fun _ : txout => True) l) as HP by (apply Forall_forall; auto).
  rewrite (go_is_sorted_iff out_key out_klt out_less (fun _ => True) out_klt_trans out_klt_total
             (fun a b _ _ => out_less_key a b) l HP).
  unfold ksorted, ordered. apply (StronglySorted_map_iff out_key _ _ (fun _ => True) l HP).
  intros a b _ _. unfold kle. rewrite <- out_less_is_spec, out_less_key.
  destruct (out_klt (out_key b) (out_key a)); split; intros H; congruence.
Qed.

Lemma Forall_perm {A} (P : A -> Prop) l1 l2 : Permutation l1 l2 -> Forall P l1 -> Forall P l2.
Proof.
  intros Hp H. rewrite Forall_forall in *. intros x Hx. apply H.
  eapply Permutation_in; [apply Permutation_sym; eassumption|assumption].
Qed.

Lemma wf_tx_values tx : wf_tx tx <-> Forall wf_in (map snd (tx_in tx)).
Proof.
  unfold wf_tx. rewrite !Forall_forall. split.
  - intros H x Hx. apply in_map_iff in Hx as [p [<- Hp]]. auto.
  - intros H p Hp. apply H. apply in_map. assumption.
Qed.

Lemma map_map_key {A K} (key : A -> K) (l : list (N * A)) :
  map (fun p => key (snd p)) l = map key (map snd l).
Proof. rewrite map_map. reflexivity. Qed.

(* ================= transaction-level theorems ================= *)
Section Tx.
  Variable gosort : forall A : Type, (A -> A -> bool) -> list A -> list A.
  Hypothesis gosort_ok : sort_contract gosort.

  Lemma gosort_in (l : list (N * txin)) : Forall wf_in (map snd l) ->
    Permutation l (gosort _ in_less_p l) /\ go_is_sorted in_less (map snd (gosort _ in_less_p l)) = true.
  Proof.
    intros Hwf. destruct (gosort_ok _ in_less_p l) as [Hp Hs].
    { apply swo_on_snd. apply in_less_swo. assumption. }
    split; [assumption|]. unfold in_less_p in Hs. rewrite go_is_sorted_snd in Hs. assumption.
  Qed.

  Lemma gosort_out (l : list (N * txout)) :
    Permutation l (gosort _ out_less_p l) /\ go_is_sorted out_less (map snd (gosort _ out_less_p l)) = true.
  Proof.
    destruct (gosort_ok _ out_less_p l) as [Hp Hs].
    { apply swo_on_snd. apply out_less_swo. }
    split; [assumption|]. unfold out_less_p in Hs. rewrite go_is_sorted_snd in Hs. assumption.
  Qed.

  Lemma inplace_perm_sorted tx : wf_tx tx ->
    let s := inplace_sort gosort tx in
    tx_other s = tx_other tx /\
    Permutation (tx_in tx) (tx_in s) /\ Permutation (tx_out tx) (tx_out s) /\
    bip69_ordered s /\ wf_tx s.
  Proof.
    intros Hwf. apply wf_tx_values in Hwf. simpl.
    destruct (gosort_in _ Hwf) as [Hpi Hsi]. destruct (gosort_out (tx_out tx)) as [Hpo Hso].
    assert (Forall wf_in (map snd (gosort _ in_less_p (tx_in tx)))) as Hwf'.
    { eapply Forall_perm; [apply Permutation_map; eassumption|assumption]. }
    repeat split; try assumption.
    - simpl. apply in_sorted_ordered; assumption.
    - simpl. apply out_sorted_ordered; assumption.
    - apply wf_tx_values. assumption.
  Qed.

  Lemma wf_tx_copy next tx : wf_tx tx -> wf_tx (tx_copy next tx).
  Proof. rewrite !wf_tx_values. simpl. rewrite fresh_snd. auto. Qed.

  Lemma sort_perm_sorted next tx : wf_tx tx ->
    let s := sort_tx gosort next tx in
    tx_other s = tx_other tx /\
    Permutation (map snd (tx_in tx)) (map snd (tx_in s)) /\
    Permutation (map snd (tx_out tx)) (map snd (tx_out s)) /\
    bip69_ordered s.
  Proof.
    intros Hwf s. destruct (inplace_perm_sorted (tx_copy next tx) (wf_tx_copy next tx Hwf)) as [Ho [Hpi [Hpo [Hb _]]]].
    repeat split; try apply Hb.
    - apply Permutation_map with (f := snd) in Hpi. simpl in Hpi. rewrite fresh_snd in Hpi. exact Hpi.
    - apply Permutation_map with (f := snd) in Hpo. simpl in Hpo. rewrite fresh_snd in Hpo. exact Hpo.
  Qed.

  Lemma sort_wf next tx : wf_tx tx -> wf_tx (sort_tx gosort next tx).
  Proof. intros Hwf. apply (inplace_perm_sorted (tx_copy next tx) (wf_tx_copy next tx Hwf)). Qed.
End Tx.

Lemma is_sorted_split tx :
  is_sorted tx = true <-> go_is_sorted in_less (map snd (tx_in tx)) = true /\ go_is_sorted out_less (map snd (tx_out tx)) = true.
Proof.
  unfold is_sorted, in_less_p, out_less_p. rewrite !go_is_sorted_snd.
  destruct (go_is_sorted in_less (map snd (tx_in tx))); destruct (go_is_sorted out_less (map snd (tx_out tx))); simpl; intuition congruence.
Qed.

Lemma is_sorted_iff tx : wf_tx tx -> (is_sorted tx = true <-> bip69_ordered tx).
Proof.
  intros Hwf. apply wf_tx_values in Hwf. rewrite is_sorted_split. unfold bip69_ordered.
  rewrite in_sorted_ordered by assumption. rewrite out_sorted_ordered. tauto.
Qed.

(* two BIP69-sorted arrangements of the same elements have the same key sequence *)
Lemma sorted_perm_keyseq tx1 tx2 : wf_tx tx1 ->
  Permutation (map snd (tx_in tx1)) (map snd (tx_in tx2)) ->
  Permutation (map snd (tx_out tx1)) (map snd (tx_out tx2)) ->
  is_sorted tx1 = true -> is_sorted tx2 = true -> keyseq tx1 = keyseq tx2.
Proof.
  intros Hwf Hpi Hpo H1 H2. apply wf_tx_values in Hwf.
  apply is_sorted_split in H1 as [H1i H1o]. apply is_sorted_split in H2 as [H2i H2o].
  unfold keyseq. rewrite !map_map_key. f_equal.
  - apply (sorted_perm_keys in_key in_klt in_less wf_in in_klt_trans in_klt_total in_less_key); assumption.
  - apply (sorted_perm_keys out_key out_klt out_less (fun _ => True) out_klt_trans out_klt_total
             (fun a b _ _ => out_less_key a b)); try assumption.
    apply Forall_forall. auto.
Qed.

Section Tx2.
  Variables g1 g2 : forall A : Type, (A -> A -> bool) -> list A -> list A.
  Hypothesis g1_ok : sort_contract g1.
  Hypothesis g2_ok : sort_contract g2.

  Lemma sorted_after_sort next tx : wf_tx tx -> is_sorted (sort_tx g1 next tx) = true.
  Proof.
    intros Hwf. apply is_sorted_iff; [apply sort_wf; assumption|].
    apply (sort_perm_sorted g1 g1_ok next tx Hwf).
  Qed.

  Lemma sorted_after_inplace tx : wf_tx tx -> is_sorted (inplace_sort g1 tx) = true.
  Proof.
    intros Hwf. destruct (inplace_perm_sorted g1 g1_ok tx Hwf) as [_ [_ [_ [Hb Hw]]]].
    apply is_sorted_iff; assumption.
  Qed.

  Lemma sort_idempotent next next' tx : wf_tx tx ->
    is_sorted (sort_tx g1 next tx) = true /\
    keyseq (sort_tx g2 next' (sort_tx g1 next tx)) = keyseq (sort_tx g1 next tx) /\
    (is_sorted tx = true -> keyseq (sort_tx g1 next tx) = keyseq tx).
  Proof.
    intros Hwf. pose proof (sorted_after_sort next tx Hwf) as Hs1.
    assert (forall g n t, sort_contract g -> wf_tx t -> is_sorted t = true -> keyseq (sort_tx g n t) = keyseq t) as Hfix.
    { intros g n t Hg Hw Hs. symmetry.
      destruct (sort_perm_sorted g Hg n t Hw) as [_ [Hpi [Hpo Hb]]].
      apply sorted_perm_keyseq; try assumption.
      apply is_sorted_iff; [apply sort_wf; assumption|assumption]. }
    split; [assumption|]. split.
    - apply Hfix; [assumption|apply sort_wf; assumption|assumption].
    - apply Hfix; assumption.
  Qed.

  Lemma inplace_same_order next tx : wf_tx tx ->
    keyseq (inplace_sort g1 tx) = keyseq (sort_tx g2 next tx) /\
    Permutation (ids tx) (ids (inplace_sort g1 tx)) /\
    ((forall a b, In a (map snd (tx_in tx)) -> In b (map snd (tx_in tx)) -> in_key a = in_key b -> a = b) ->
     map snd (tx_in (inplace_sort g1 tx)) = map snd (tx_in (sort_tx g2 next tx))) /\
    ((forall a b, In a (map snd (tx_out tx)) -> In b (map snd (tx_out tx)) -> out_key a = out_key b -> a = b) ->
     map snd (tx_out (inplace_sort g1 tx)) = map snd (tx_out (sort_tx g2 next tx))).
  Proof.
    intros Hwf.
    destruct (inplace_perm_sorted g1 g1_ok tx Hwf) as [_ [Hpi [Hpo [Hb Hw]]]].
    destruct (sort_perm_sorted g2 g2_ok next tx Hwf) as [_ [Hqi [Hqo Hb2]]].
    assert (keyseq (inplace_sort g1 tx) = keyseq (sort_tx g2 next tx)) as Hk.
    { apply sorted_perm_keyseq.
      - assumption.
      - etransitivity; [apply Permutation_sym, Permutation_map; exact Hpi| exact Hqi].
      - etransitivity; [apply Permutation_sym, Permutation_map; exact Hpo| exact Hqo].
      - apply is_sorted_iff; assumption.
      - apply is_sorted_iff; [apply sort_wf; assumption| assumption]. }
    split; [assumption|]. split.
    - unfold ids. apply Permutation_app; apply Permutation_map; assumption.
    - unfold keyseq in Hk. rewrite !map_map_key in Hk. inversion Hk as [[Hki Hko]].
      split; intros Hinj.
      + apply (map_key_inj in_key); [|assumption].
        intros a b Ha Hb'. apply Hinj.
        * eapply Permutation_in; [apply Permutation_sym, Permutation_map; exact Hpi|assumption].
        * eapply Permutation_in; [apply Permutation_sym; exact Hqi|assumption].
      + apply (map_key_inj out_key); [|assumption].
        intros a b Ha Hb'. apply Hinj.
        * eapply Permutation_in; [apply Permutation_sym, Permutation_map; exact Hpo|assumption].
        * eapply Permutation_in; [apply Permutation_sym; exact Hqo|assumption].
  Qed.

  (* Sort allocates: every object of the result is new, the argument is only read *)
  Lemma sort_non_destructive next tx : wf_tx tx ->
    let s := sort_tx g1 next tx in
    NoDup (ids s) /\ Forall (fun i => next <= i) (ids s) /\
    (Forall (fun i => i < next) (ids tx) -> forall i, In i (ids tx) -> ~ In i (ids s)).
  Proof.
    intros Hwf s.
    assert (Permutation (ids (tx_copy next tx)) (ids s)) as Hp.
    { destruct (inplace_perm_sorted g1 g1_ok (tx_copy next tx) (wf_tx_copy next tx Hwf)) as [_ [Hpi [Hpo _]]].
      unfold ids. apply Permutation_app; apply Permutation_map; assumption. }
    assert (forall i, In i (ids (tx_copy next tx)) -> next <= i) as Hge.
    { unfold ids. simpl. intros i Hi. apply in_app_iff in Hi as [Hi|Hi]; apply fresh_ids_range in Hi; lia. }
    assert (NoDup (ids (tx_copy next tx))) as Hnd.
    { unfold ids. simpl. apply nodup_app; try apply fresh_ids_nodup.
      intros x Hx Hx'. apply fresh_ids_range in Hx. apply fresh_ids_range in Hx'. lia. }
    split; [eapply Permutation_NoDup; eassumption|].
    assert (Forall (fun i => next <= i) (ids s)) as Hall.
    { apply Forall_forall. intros i Hi. apply Hge. eapply Permutation_in; [apply Permutation_sym; eassumption|assumption]. }
    split; [assumption|].
    intros Hlt i Hi Hi'. rewrite Forall_forall in Hlt, Hall. specialize (Hlt i Hi). specialize (Hall i Hi'). lia.
  Qed.
End Tx2.

(* ================= review round 2 ================= *)

(* the literal lists of the five function bodies have exactly the shape the model reads: an added or
   removed literal (a new special case, a changed bound) in Less / Sort / InPlaceSort / IsSorted is an
   obligation failure even when the literals the model indexes keep their values (`lit` is total: a
   missing literal would silently read as 0) *)
Lemma literals_shape :
  lits_sortableInputSlice_Less = [0;2;1;1;1;1;1]%Z /\ lits_sortableOutputSlice_Less = [0]%Z /\
  lits_Sort = []%Z /\ lits_InPlaceSort = []%Z /\ lits_IsSorted = []%Z /\
  lits_sortableInputSlice_Len = []%Z /\ lits_sortableOutputSlice_Len = []%Z /\
  lits_sortableInputSlice_Swap = []%Z /\ lits_sortableOutputSlice_Swap = []%Z.
Proof. repeat split; reflexivity. Qed.

(* IsSorted depends on the key sequence only *)
Lemma go_is_sorted_in_keys l1 : forall l2, Forall wf_in l1 -> Forall wf_in l2 ->
  map in_key l1 = map in_key l2 -> go_is_sorted in_less l1 = go_is_sorted in_less l2.
Proof.
  induction l1 as [|a t IH]; intros [|b u] H1 H2 E; try discriminate; [reflexivity|].
  cbn [map] in E. injection E as Ek1 Ek2 Et. assert (in_key a = in_key b) as Ek by (unfold in_key; congruence). inversion H1 as [|? ? Ha Ht]; subst. inversion H2 as [|? ? Hb Hu]; subst.
  destruct t as [|a' t']; destruct u as [|b' u']; try discriminate; [reflexivity|].
  pose proof Et as Et0. cbn [map] in Et. injection Et as Ek1' Ek2' Et'. assert (in_key a' = in_key b') as Ek' by (unfold in_key; congruence). inversion Ht as [|? ? Ha' Ht']; subst. inversion Hu as [|? ? Hb' Hu']; subst.
  change (negb (in_less a' a) && go_is_sorted in_less (a' :: t') = negb (in_less b' b) && go_is_sorted in_less (b' :: u')).
  rewrite (IH (b' :: u')) by assumption.
  rewrite (in_less_key a' a), (in_less_key b' b) by assumption. rewrite Ek, Ek'. reflexivity.
Qed.

Lemma go_is_sorted_out_keys l1 : forall l2,
  map out_key l1 = map out_key l2 -> go_is_sorted out_less l1 = go_is_sorted out_less l2.
Proof.
  induction l1 as [|a t IH]; intros [|b u] E; try discriminate; [reflexivity|].
  cbn [map] in E. injection E as Ek1 Ek2 Et. assert (out_key a = out_key b) as Ek by (unfold out_key; congruence).
  destruct t as [|a' t']; destruct u as [|b' u']; try discriminate; [reflexivity|].
  pose proof Et as Et0. cbn [map] in Et. injection Et as Ek1' Ek2' Et'. assert (out_key a' = out_key b') as Ek' by (unfold out_key; congruence).
  change (negb (out_less a' a) && go_is_sorted out_less (a' :: t') = negb (out_less b' b) && go_is_sorted out_less (b' :: u')).
  rewrite (IH (b' :: u')) by assumption.
  rewrite (out_less_key a' a), (out_less_key b' b). rewrite Ek, Ek'. reflexivity.
Qed.

Lemma is_sorted_keyseq tx1 tx2 : wf_tx tx1 -> wf_tx tx2 -> keyseq tx1 = keyseq tx2 -> is_sorted tx1 = is_sorted tx2.
Proof.
  intros H1 H2 E. apply wf_tx_values in H1. apply wf_tx_values in H2.
  unfold keyseq in E. rewrite !map_map_key in E. inversion E as [[Ei Eo]].
  assert (forall tx, is_sorted tx = go_is_sorted in_less (map snd (tx_in tx)) && go_is_sorted out_less (map snd (tx_out tx))) as Hs.
  { intros tx. unfold is_sorted, in_less_p, out_less_p. rewrite !go_is_sorted_snd.
    destruct (go_is_sorted in_less (map snd (tx_in tx))); destruct (go_is_sorted out_less (map snd (tx_out tx))); reflexivity. }
  rewrite !Hs. rewrite (go_is_sorted_in_keys _ _ H1 H2 Ei), (go_is_sorted_out_keys _ _ Eo). reflexivity.
Qed.

Section Tx3.
  Variables g1 g2 : forall A : Type, (A -> A -> bool) -> list A -> list A.
  Hypothesis g1_ok : sort_contract g1.
  Hypothesis g2_ok : sort_contract g2.

  (* IsSorted is true exactly for the transactions Sort leaves in their order *)
  Lemma sorted_iff_fixed next tx : wf_tx tx ->
    (is_sorted tx = true <-> keyseq (sort_tx g1 next tx) = keyseq tx).
  Proof.
    intros Hwf. split.
    - intros Hs. apply (sort_idempotent g1 g1 g1_ok g1_ok next next tx Hwf). assumption.
    - intros E. rewrite <- (is_sorted_keyseq _ _ (sort_wf g1 g1_ok next tx Hwf) Hwf E).
      apply (sorted_after_sort g1 g1_ok next tx Hwf).
  Qed.

  (* idempotence on the elements themselves when equal keys mean equal elements *)
  Lemma sort_idempotent_elems next next' tx : wf_tx tx ->
    ((forall a b, In a (map snd (tx_in tx)) -> In b (map snd (tx_in tx)) -> in_key a = in_key b -> a = b) ->
     map snd (tx_in (sort_tx g2 next' (sort_tx g1 next tx))) = map snd (tx_in (sort_tx g1 next tx)) /\
     (is_sorted tx = true -> map snd (tx_in (sort_tx g1 next tx)) = map snd (tx_in tx))) /\
    ((forall a b, In a (map snd (tx_out tx)) -> In b (map snd (tx_out tx)) -> out_key a = out_key b -> a = b) ->
     map snd (tx_out (sort_tx g2 next' (sort_tx g1 next tx))) = map snd (tx_out (sort_tx g1 next tx)) /\
     (is_sorted tx = true -> map snd (tx_out (sort_tx g1 next tx)) = map snd (tx_out tx))).
  Proof.
    intros Hwf.
    destruct (sort_idempotent g1 g2 g1_ok g2_ok next next' tx Hwf) as [_ [Hk2 Hk1]].
    destruct (sort_perm_sorted g1 g1_ok next tx Hwf) as [_ [Hpi [Hpo _]]].
    destruct (sort_perm_sorted g2 g2_ok next' _ (sort_wf g1 g1_ok next tx Hwf)) as [_ [Hqi [Hqo _]]].
    unfold keyseq in Hk2, Hk1. rewrite !map_map_key in Hk2, Hk1. inversion Hk2 as [[Hk2i Hk2o]].
    split; intros Hinj; split.
    - apply (map_key_inj in_key); [|assumption]. intros a b Ha Hb. apply Hinj.
      + eapply Permutation_in; [apply Permutation_sym; etransitivity; [exact Hpi|exact Hqi]|assumption].
      + eapply Permutation_in; [apply Permutation_sym; exact Hpi|assumption].
    - intros Hs. specialize (Hk1 Hs). inversion Hk1 as [[Hk1i Hk1o]].
      apply (map_key_inj in_key); [|assumption]. intros a b Ha Hb. apply Hinj; [|assumption].
      eapply Permutation_in; [apply Permutation_sym; exact Hpi|assumption].
    - apply (map_key_inj out_key); [|assumption]. intros a b Ha Hb. apply Hinj.
      + eapply Permutation_in; [apply Permutation_sym; etransitivity; [exact Hpo|exact Hqo]|assumption].
      + eapply Permutation_in; [apply Permutation_sym; exact Hpo|assumption].
    - intros Hs. specialize (Hk1 Hs). inversion Hk1 as [[Hk1i Hk1o]].
      apply (map_key_inj out_key); [|assumption]. intros a b Ha Hb. apply Hinj; [|assumption].
      eapply Permutation_in; [apply Permutation_sym; exact Hpo|assumption].
  Qed.

  (* InPlaceSort: other fields identical, the argument's own (object, pointee) pairs permuted - inputs
     among the inputs, outputs among the outputs -, BIP69 order, accepted by IsSorted *)
  Lemma inplace_perm_sorted' tx : wf_tx tx ->
    let s := inplace_sort g1 tx in
    tx_other s = tx_other tx /\
    Permutation (tx_in tx) (tx_in s) /\ Permutation (tx_out tx) (tx_out s) /\
    bip69_ordered s /\ is_sorted s = true.
  Proof.
    intros Hwf s. destruct (inplace_perm_sorted g1 g1_ok tx Hwf) as [Ho [Hpi [Hpo [Hb Hw]]]].
    repeat split; try assumption; try apply Hb. apply (sorted_after_inplace g1 g1_ok tx Hwf).
  Qed.
End Tx3.

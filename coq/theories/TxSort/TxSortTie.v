(* C18: the property's comparator statements carried over to the machine transliterations of the two
   Less bodies (Gen/Kernels2.v, regenerated from the Go AST on every run by harness/cmd/gotrans) through
   the tie theorems of Tie/Kernels2_Misc.v.  A changed operator, operand, bound or statement order in
   either Less body changes the transliteration and breaks these obligations even when no literal
   changes. *)
From BU Require Import Lib.Bytes Gen.Kernels2 TxSort.TxSort TxSort.TxSortProofs Tie.Kernels2_Misc.

(* the transliterated input Less terminates normally (no out-of-range index in the reversal loop) on
   32-byte hashes and decides (id as a big-endian number, then index); i, j are the slice positions *)
Lemma translated_in_less_is_spec a b i j : wf_in a -> wf_in b ->
  exists r, Kernels2.sortableInputSlice_Less (in_hash a) (in_hash b) (in_index a) (in_index b) i j = Ok r /\
            (r = true <-> id_num a < id_num b \/ (id_num a = id_num b /\ in_index a < in_index b)).
Proof.
  intros Ha Hb. exists (in_less a b). split.
  - apply sortableInputSlice_Less_tie; [apply Ha|apply Hb].
  - apply in_less_is_spec; assumption.
Qed.

Lemma translated_out_less_is_spec a b i j :
  Kernels2.sortableOutputSlice_Less (out_value a) (out_value b) (out_script a) (out_script b) i j = true <->
  (out_value a < out_value b)%Z \/ (out_value a = out_value b /\ lex_lt (out_script a) (out_script b)).
Proof. rewrite sortableOutputSlice_Less_tie. apply out_less_is_spec. Qed.

(* Byte-level arithmetic lemmas used by the HD proofs: big-endian encodings, big.Int.Bytes() padding,
   copy into a fresh buffer, slices. *)
From BU Require Import Lib.Bytes Lib.Radix Lib.Sha256 HD.HD.
From Coq Require Import ZifyBool ZifyN ZifyNat.

Lemma be_value_app a b acc : be_value (a ++ b) acc = be_value b (be_value a acc).
Proof. revert acc; induction a as [|x a IH]; simpl; intros; auto. Qed.

Lemma value_be_value l acc : value 256 l acc = be_value l acc.
Proof. revert acc; induction l as [|x l IH]; simpl; intros; auto. Qed.

Lemma be_bytes_length n v : length (be_bytes n v) = n.
Proof. unfold be_bytes. rewrite rev_length. apply le_bytes_length. Qed.

Lemma be_bytes_S n v : be_bytes (S n) v = be_bytes n (v / 256) ++ [v mod 256].
Proof. unfold be_bytes. cbn [le_bytes rev]. reflexivity. Qed.

Lemma be_value_be_bytes n : forall v, v < 256 ^ N.of_nat n -> be_value (be_bytes n v) 0 = v.
Proof.
  induction n as [|n IH]; intros v Hv.
  - simpl in *. lia.
  - rewrite be_bytes_S, be_value_app. cbn [be_value].
    rewrite Nat2N.inj_succ, N.pow_succ_r' in Hv.
    rewrite IH by (apply N.div_lt_upper_bound; lia).
    pose proof (N.div_mod v 256). lia.
Qed.

Lemma be_value_bound l : Bytes l -> be_value l 0 < 256 ^ N.of_nat (length l).
Proof.
  induction l as [|x l IH] using rev_ind; intros Hb.
  - simpl. lia.
  - apply Bytes_app in Hb as [Hl Hx]. apply Bytes_cons in Hx as [Hx _].
    rewrite be_value_app, app_length. cbn [be_value length].
    replace (length l + 1)%nat with (S (length l)) by lia.
    rewrite Nat2N.inj_succ, N.pow_succ_r'. specialize (IH Hl). lia.
Qed.

Lemma be_bytes_be_value l : Bytes l -> be_bytes (length l) (be_value l 0) = l.
Proof.
  induction l as [|x l IH] using rev_ind; intros Hb.
  - reflexivity.
  - apply Bytes_app in Hb as [Hl Hx]. apply Bytes_cons in Hx as [Hx _].
    rewrite app_length. cbn [length]. replace (length l + 1)%nat with (S (length l)) by lia.
    rewrite be_bytes_S, be_value_app. cbn [be_value].
    assert (E1 : (be_value l 0 * 256 + x) / 256 = be_value l 0).
    { symmetry. apply N.div_unique with x; lia. }
    assert (E2 : (be_value l 0 * 256 + x) mod 256 = x).
    { symmetry. apply N.mod_unique with (be_value l 0); lia. }
    rewrite E1, E2, IH by assumption. reflexivity.
Qed.

Lemma be_bytes_unique n l : Bytes l -> length l = n -> be_bytes n (be_value l 0) = l.
Proof. intros Hb <-. apply be_bytes_be_value. assumption. Qed.

Lemma be_value_zeros n l : be_value (repeat 0 n ++ l) 0 = be_value l 0.
Proof. induction n as [|n IH]; simpl; auto. Qed.

(* length of the minimal big-endian representation *)
Lemma value_lower t : forall acc, acc * 256 ^ N.of_nat (length t) <= value 256 t acc.
Proof.
  induction t as [|x t IH]; intros acc.
  - simpl. lia.
  - cbn [value length]. rewrite Nat2N.inj_succ, N.pow_succ_r'.
    specialize (IH (acc * 256 + x)). nia.
Qed.

Lemma digits_length_le v n : v < 256 ^ N.of_nat n -> (length (digits 256 v) <= n)%nat.
Proof.
  intros Hv.
  pose proof (digits_canonical 256 ltac:(lia) v) as [_ Hh].
  pose proof (value_digits 256 ltac:(lia) v) as Ev.
  destruct (digits 256 v) as [|d t] eqn:E; [simpl; lia|].
  cbn [value] in Ev. pose proof (value_lower t (0 * 256 + d)) as Hl. rewrite Ev in Hl.
  destruct (Nat.le_gt_cases (length (d :: t)) n) as [|Hgt]; [assumption|exfalso].
  cbn [length] in Hgt.
  assert (Hp : 256 ^ N.of_nat n <= 256 ^ N.of_nat (length t)) by (apply N.pow_le_mono_r; lia).
  assert (1 <= d) by lia. nia.
Qed.

(* big.Int.Bytes() left-padded to n bytes is the n-byte big-endian encoding *)
Lemma pad_big_bytes n v : v < 256 ^ N.of_nat n ->
  repeat 0 (n - length (big_bytes v)) ++ big_bytes v = be_bytes n v.
Proof.
  intros Hv. unfold big_bytes.
  pose proof (digits_length_le v n Hv) as Hlen.
  set (d := digits 256 v) in *.
  assert (Hb : Bytes (repeat 0 (n - length d) ++ d)).
  { apply Bytes_app. split; [apply Bytes_repeat; lia | apply (digits_lt 256); lia]. }
  assert (Hl : length (repeat 0 (n - length d) ++ d) = n) by (rewrite app_length, repeat_length; lia).
  transitivity (be_bytes n (be_value (repeat 0 (n - length d) ++ d) 0)).
  - symmetry. apply be_bytes_unique; assumption.
  - f_equal. rewrite be_value_zeros, <- value_be_value. unfold d. apply value_digits. lia.
Qed.

(* the Go code pads only when the length is below 32 *)
Lemma pad_if_short n v : v < 256 ^ N.of_nat n ->
  (if (length (big_bytes v) <? n)%nat then repeat 0 (n - length (big_bytes v)) ++ big_bytes v else big_bytes v)
  = be_bytes n v.
Proof.
  intros Hv. pose proof (digits_length_le v n Hv) as Hlen. fold (big_bytes v) in Hlen.
  rewrite <- (pad_big_bytes n v Hv).
  destruct (Nat.ltb_spec (length (big_bytes v)) n) as [|Hge]; [reflexivity|].
  replace (n - length (big_bytes v))%nat with 0%nat by lia. reflexivity.
Qed.

Lemma copy_to_exact n l : length l = n -> copy_to n l = l.
Proof. intros <-. unfold copy_to. rewrite firstn_app, Nat.sub_diag, firstn_all. cbn [firstn]. apply app_nil_r. Qed.

Lemma padded_append_exact n dst src : length src = n -> padded_append n dst src = dst ++ src.
Proof. intros <-. unfold padded_append. rewrite Nat.sub_diag. reflexivity. Qed.

Lemma firstn_app_exact {A} n (a b : list A) : length a = n -> firstn n (a ++ b) = a.
Proof. intros <-. rewrite firstn_app, Nat.sub_diag, firstn_all. cbn [firstn]. apply app_nil_r. Qed.

Lemma skipn_app_exact {A} n (a b : list A) : length a = n -> skipn n (a ++ b) = b.
Proof. intros <-. rewrite skipn_app, Nat.sub_diag, skipn_all. reflexivity. Qed.

Lemma secp_n_bound : secp_nN < 256 ^ N.of_nat 32.
Proof. reflexivity. Qed.

Lemma secp_n_pos : 0 < secp_nN.
Proof. reflexivity. Qed.

Lemma out_of_range_false v : out_of_range v = false <-> 0 < v < secp_nN.
Proof.
  pose proof secp_n_pos as Hp.
  unfold out_of_range. destruct (N.leb_spec secp_nN v), (N.eqb_spec v 0); cbn [orb]; split; intros H1; try lia; try discriminate; reflexivity.
Qed.

Lemma Bytes_firstn n l : Bytes l -> Bytes (firstn n l).
Proof. intros H. unfold Bytes in *. rewrite <- (firstn_skipn n l) in H. apply Forall_app in H. tauto. Qed.

Lemma Bytes_skipn n l : Bytes l -> Bytes (skipn n l).
Proof. intros H. unfold Bytes in *. rewrite <- (firstn_skipn n l) in H. apply Forall_app in H. tauto. Qed.

Lemma be_bytes_Bytes' n v : Bytes (be_bytes n v).
Proof. apply be_bytes_Bytes. Qed.

(* ---------- the range test of Child / NewMaster with the comparison literals of the source (0 and 0) ---------- *)
Lemma out_of_range_lit_00 v : out_of_range_lit 0 0 v = out_of_range v.
Proof.
  unfold out_of_range_lit, out_of_range, cmp_n, sign_n.
  destruct (N.compare_spec v secp_nN) as [E|L|G], (N.leb_spec secp_nN v) as [H1|H1], (N.eqb_spec v 0) as [H2|H2];
    try reflexivity; try (exfalso; lia).
Qed.
Lemma child_oor_eq v : child_out_of_range v = out_of_range v.
Proof. exact (out_of_range_lit_00 v). Qed.
Lemma master_oor_eq v : master_out_of_range v = out_of_range v.
Proof. exact (out_of_range_lit_00 v). Qed.

(* C05 (review round 2): the EXACT acceptance condition of NewKeyFromString as one equivalence.
   XKeyProofs.v proves canonicity (parse s = Ok k -> ...) and one rejection theorem per failure class; here the
   classes are shown to be exhaustive: a string is accepted IFF its Base58 decoding is 82 bytes, the last four
   are the double-SHA256 prefix of the first 78, and the key material is a scalar in [1, n-1] after a 0x00 byte
   or a 33-byte string ParsePubKey accepts; every other string gets an error (never a panic, never a key). *)
From BU Require Import Lib.Bytes Lib.Radix Base58.Base58 Base58.Base58Proofs Gen.Nets HD.HD HD.HDLemmas HD.XKeyProofs.
From Coq Require Import ZifyBool ZifyN ZifyNat.

Lemma slice_firstn_78 (d : list N) : slice 45 78 (firstn 78 d) = slice 45 78 d.
Proof. unfold slice. rewrite skipn_firstn_comm, firstn_firstn. f_equal. Qed.

Lemma nth0_slice_45 (d : list N) : length d = 82%nat -> nth 0 (slice 45 78 d) 0 = nth 45 d 0.
Proof.
  intros Hl. unfold slice. rewrite <- (firstn_skipn 45 d) at 2. rewrite app_nth2 by (rewrite firstn_length; lia).
  rewrite firstn_length, Nat.min_l by lia. rewrite Nat.sub_diag.
  destruct (skipn 45 d) as [|x t] eqn:E; reflexivity.
Qed.

Lemma skipn1_slice_45 (d : list N) : skipn 1 (slice 45 78 d) = slice 46 78 d.
Proof.
  unfold slice. change (78 - 45)%nat with (S 32). change (78 - 46)%nat with 32%nat.
  change 46%nat with (1 + 45)%nat. rewrite <- XKeyProofs.skipn_skipn.
  destruct (skipn 45 d) as [|x t]; reflexivity.
Qed.

Section Accept.
Variable point : Type.
Variable parse_point : list N -> res point.
Variable dsha : list N -> list N.

Local Notation parse := (HD.parse point parse_point dsha).
Local Notation cks4 := (HD.cks4 dsha).

Definition acceptable (d : list N) : Prop :=
  length d = 82%nat /\ skipn 78 d = cks4 (firstn 78 d) /\
  ((nth 45 d 0 = 0 /\ 0 < set_bytes (slice 46 78 d) < secp_nN) \/
   (nth 45 d 0 <> 0 /\ exists P, parse_point (slice 45 78 d) = Ok P)).

Theorem parse_accept_iff s : (exists k, parse s = Ok k) <-> acceptable (Base58.decode s).
Proof.
  split.
  - intros [k Hp]. destruct (parse_inv point parse_point dsha s k Hp) as (Hl & Hck & Hk). cbv zeta in Hl, Hck, Hk.
    set (d := Base58.decode s) in *. rewrite slice_firstn_78 in Hk. rewrite (nth0_slice_45 d Hl) in Hk.
    rewrite skipn1_slice_45 in Hk.
    split; [exact Hl|]. split; [exact Hck|].
    destruct Hk as [(E0 & Eo & _) | (E0 & EP & _)].
    + left. split; [exact E0 | apply out_of_range_false; exact Eo].
    + right. split; [exact E0 | exact EP].
  - intros (Hl & Hck & Hk). set (d := Base58.decode s) in *.
    unfold HD.parse. tie_parse. cbv zeta. fold d. rewrite Hl. cbn [Nat.eqb Nat.add negb].
    change (82 - 4)%nat with 78%nat. rewrite Hck. unfold HD.cks4. tie_str. rewrite list_eqb_refl. cbn [negb].
    rewrite slice_firstn_78. rewrite (nth0_slice_45 d Hl). change (N.of_nat 0) with 0.
    destruct Hk as [(E0 & Hr) | (E0 & (P & EP))].
    + rewrite E0. cbn [N.eqb]. rewrite skipn1_slice_45.
      assert (Ho : out_of_range (set_bytes (slice 46 78 d)) = false).
      { unfold out_of_range.
        destruct (N.leb_spec secp_nN (set_bytes (slice 46 78 d))); [lia|].
        destruct (N.eqb_spec (set_bytes (slice 46 78 d)) 0); [lia | reflexivity]. }
      rewrite Ho. eexists. reflexivity.
    + destruct (N.eqb_spec (nth 45 d 0) 0) as [|_]; [contradiction|].
      rewrite EP. cbn [rbind]. eexists. reflexivity.
Qed.

(* "every other string is rejected": with an error, given only that ParsePubKey itself does not panic *)
Theorem parse_reject_iff s : (forall b p, parse_point b <> Panic p) ->
  ((exists e, parse s = Err e) <-> ~ acceptable (Base58.decode s)).
Proof.
  intros HP. split.
  - intros [e He] Ha. apply parse_accept_iff in Ha as [k Hk]. rewrite Hk in He. discriminate.
  - intros Hn. destruct (parse s) as [k|e|p] eqn:E.
    + exfalso. apply Hn. apply parse_accept_iff. exists k. exact E.
    + exists e. reflexivity.
    + exfalso. exact (parse_no_panic point parse_point dsha s HP p E).
Qed.

End Accept.

(* C05: extended-key strings round-trip (parse (to_string k) = Ok k on every well-formed key), every
   accepted string is canonical (parse s = Ok k -> to_string k = s, 82 decoded bytes, matching checksum,
   usable key material), and each failure class is rejected with its error. Built on the Base58 inverse
   laws of C07 (Base58/Base58Proofs.v). *)
From BU Require Import Lib.Bytes Lib.Radix Lib.Sha256 Base58.Base58 Base58.Base58Proofs Gen.Nets HD.HD HD.HDLemmas.
From Coq Require Import ZifyBool ZifyN ZifyNat.

(* ---------- ties: the literals of NewKeyFromString / String and serializedKeyLen ---------- *)
Lemma tie_lits_parse :
  (LP 0, LP 1, LP 2, LP 3, LP 4, LP 5, LP 6, LP 7, LP 8, LP 9, LP 10, LP 11, LP 12, LP 13, LP 14, LP 15, LP 16, LP 17, LP 18)
  = (4, 4, 4, 4, 4, 4, 5, 0, 5, 9, 9, 13, 13, 45, 45, 78, 0, 0, 1)%nat.
Proof. reflexivity. Qed.
Lemma tie_serializedKeyLen : serializedKeyLen = 78%nat.
Proof. reflexivity. Qed.
Lemma tie_lits_string' : (LS 0, LS 1, LS 4, LS 5, LS 6) = (0, 4, 0, 32, 4)%nat.
Proof. reflexivity. Qed.

Ltac tie_parse :=
  change (LP 0) with 4%nat; change (LP 1) with 4%nat; change (LP 2) with 4%nat; change (LP 3) with 4%nat;
  change (LP 4) with 4%nat; change (LP 5) with 4%nat; change (LP 6) with 5%nat; change (LP 7) with 0%nat;
  change (LP 8) with 5%nat; change (LP 9) with 9%nat; change (LP 10) with 9%nat; change (LP 11) with 13%nat;
  change (LP 12) with 13%nat; change (LP 13) with 45%nat; change (LP 14) with 45%nat; change (LP 15) with 78%nat;
  change (LP 16) with 0%nat; change (LP 17) with 0%nat; change (LP 18) with 1%nat;
  change serializedKeyLen with 78%nat.
Ltac tie_parse_in H :=
  change (LP 0) with 4%nat in H; change (LP 1) with 4%nat in H; change (LP 2) with 4%nat in H; change (LP 3) with 4%nat in H;
  change (LP 4) with 4%nat in H; change (LP 5) with 4%nat in H; change (LP 6) with 5%nat in H; change (LP 7) with 0%nat in H;
  change (LP 8) with 5%nat in H; change (LP 9) with 9%nat in H; change (LP 10) with 9%nat in H; change (LP 11) with 13%nat in H;
  change (LP 12) with 13%nat in H; change (LP 13) with 45%nat in H; change (LP 14) with 45%nat in H; change (LP 15) with 78%nat in H;
  change (LP 16) with 0%nat in H; change (LP 17) with 0%nat in H; change (LP 18) with 1%nat in H;
  change serializedKeyLen with 78%nat in H.
Ltac tie_str :=
  change (LS 0) with 0%nat; change (LS 1) with 4%nat; change (LS 4) with 0%nat;
  change (LS 5) with 32%nat; change (LS 6) with 4%nat.

(* ---------- slices ---------- *)
Lemma skipn_skipn {A} a b (l : list A) : skipn a (skipn b l) = skipn (a + b) l.
Proof.
  revert l; induction b as [|b IH]; intros l.
  - rewrite Nat.add_0_r. reflexivity.
  - destruct l as [|x l]; [rewrite !skipn_nil; reflexivity|].
    rewrite Nat.add_succ_r. cbn [skipn]. apply IH.
Qed.

Lemma slice_skipn a b (l : list N) : (a <= b)%nat -> slice a b l ++ skipn b l = skipn a l.
Proof.
  intros Hab. unfold slice. replace b with ((b - a) + a)%nat at 2 by lia.
  rewrite <- skipn_skipn. apply firstn_skipn.
Qed.

Lemma slice_length a b (l : list N) : (b <= length l)%nat -> length (slice a b l) = (b - a)%nat.
Proof. intros H. unfold slice. rewrite firstn_length, skipn_length. lia. Qed.

Lemma singleton_nth (l : list N) : length l = 1%nat -> l = [nth 0 l 0].
Proof. destruct l as [|x [|y t]]; simpl; intros H; try discriminate. reflexivity. Qed.

Lemma Bytes_slice a b l : Bytes l -> Bytes (slice a b l).
Proof. intros H. unfold slice. apply Bytes_firstn, Bytes_skipn, H. Qed.

(* a 78-byte payload is the concatenation of its six fields *)
Lemma payload_split (pl : list N) : length pl = 78%nat ->
  pl = firstn 4 pl ++ [nth 0 (slice 4 5 pl) 0] ++ slice 5 9 pl ++ slice 9 13 pl ++ slice 13 45 pl ++ slice 45 78 pl.
Proof.
  intros Hl.
  rewrite <- (singleton_nth (slice 4 5 pl)) by (rewrite slice_length; lia).
  assert (E : slice 45 78 pl = skipn 45 pl).
  { rewrite <- (slice_skipn 45 78 pl) by lia. rewrite (skipn_all2 pl) by lia. symmetry. apply app_nil_r. }
  rewrite E. rewrite (slice_skipn 13 45), (slice_skipn 9 13), (slice_skipn 5 9), (slice_skipn 4 5) by lia.
  symmetry. apply firstn_skipn.
Qed.

(* ... and conversely the fields of such a concatenation are its slices *)
Lemma fields_of_concat (a c d e f : list N) (b : N) :
  length a = 4%nat -> length c = 4%nat -> length d = 4%nat -> length e = 32%nat -> length f = 33%nat ->
  let l := a ++ [b] ++ c ++ d ++ e ++ f in
  length l = 78%nat /\ firstn 4 l = a /\ nth 0 (slice 4 5 l) 0 = b /\ slice 5 9 l = c /\ slice 9 13 l = d /\
  slice 13 45 l = e /\ slice 45 78 l = f.
Proof.
  intros Ha Hc Hd He Hf l.
  assert (Hl : length l = 78%nat) by (unfold l; rewrite !app_length; cbn [length]; lia).
  split; [exact Hl|].
  assert (S4 : skipn 4 l = [b] ++ c ++ d ++ e ++ f) by (apply skipn_app_exact; exact Ha).
  assert (S5 : skipn 5 l = c ++ d ++ e ++ f).
  { change 5%nat with (1 + 4)%nat. rewrite <- skipn_skipn, S4. reflexivity. }
  assert (S9 : skipn 9 l = d ++ e ++ f).
  { change 9%nat with (4 + 5)%nat. rewrite <- skipn_skipn, S5. apply skipn_app_exact; exact Hc. }
  assert (S13 : skipn 13 l = e ++ f).
  { change 13%nat with (4 + 9)%nat. rewrite <- skipn_skipn, S9. apply skipn_app_exact; exact Hd. }
  assert (S45 : skipn 45 l = f).
  { change 45%nat with (32 + 13)%nat. rewrite <- skipn_skipn, S13. apply skipn_app_exact; exact He. }
  unfold slice. rewrite S4, S5, S9, S13, S45.
  repeat split.
  - apply firstn_app_exact; exact Ha.
  - change (9 - 5)%nat with 4%nat. apply firstn_app_exact; exact Hc.
  - change (13 - 9)%nat with 4%nat. apply firstn_app_exact; exact Hd.
  - change (45 - 13)%nat with 32%nat. apply firstn_app_exact; exact He.
  - change (78 - 45)%nat with 33%nat. rewrite <- Hf. apply firstn_all.
Qed.

Lemma in_alphabet_dec (s : list N) :
  Forall (fun c => In c alphabet) s \/ exists c, In c s /\ ~ In c alphabet.
Proof.
  induction s as [|c s IH].
  - left. constructor.
  - destruct (N.eq_dec (b58 c) 255) as [E|E].
    + right. exists c. split; [left; reflexivity|]. intros Hin. apply in_alphabet_iff in Hin. contradiction.
    + destruct IH as [IH|[x [Hx Hnx]]].
      * left. constructor; [apply in_alphabet_iff; exact E | exact IH].
      * right. exists x. split; [right; exact Hx | exact Hnx].
Qed.

Section XKey.
Variable point : Type.
Variable point_of_scalar : Z -> point.
Variable pzero : point -> bool.
Variable ser_point : point -> list N.
Variable parse_point : list N -> res point.
Variable dsha : list N -> list N.

Hypothesis H_dsha_len : forall m, length (dsha m) = 32%nat.
Hypothesis H_dsha_bytes : forall m, Bytes (dsha m).
Hypothesis H_ser_len : forall P, length (ser_point P) = 33%nat.
Hypothesis H_ser_bytes : forall P, Bytes (ser_point P).
Hypothesis H_ser_head : forall P, nth 0 (ser_point P) 0 <> 0.          (* 0x02 / 0x03 *)
Hypothesis H_parse_ser : forall P, pzero P = false -> parse_point (ser_point P) = Ok P.

Ltac clear_vars := try clear dsha; try clear parse_point; try clear ser_point; try clear pzero;
  try clear point_of_scalar; try clear point.

Local Notation to_string := (to_string point point_of_scalar ser_point dsha).
Local Notation payload := (payload point point_of_scalar ser_point).
Local Notation parse := (parse point parse_point dsha).
Local Notation cks4 := (cks4 dsha).

(* the invariant of every key produced by NewMaster / Child / Neuter / NewKeyFromString *)
Definition wf (k : xkey) : Prop :=
  length (xk_version k) = 4%nat /\ Bytes (xk_version k) /\
  length (xk_fp k) = 4%nat /\ Bytes (xk_fp k) /\
  length (xk_chain k) = 32%nat /\ Bytes (xk_chain k) /\
  xk_depth k < 256 /\ xk_childnum k < 2 ^ 32 /\
  if xk_priv k
  then length (xk_key k) = 32%nat /\ Bytes (xk_key k) /\ 0 < set_bytes (xk_key k) < secp_nN
  else exists P, xk_key k = ser_point P /\ pzero P = false.

Lemma cks4_length p : length (cks4 p) = 4%nat.
Proof using H_dsha_len.
  clear H_dsha_bytes H_ser_len H_ser_bytes H_ser_head H_parse_ser; clear_vars.
  unfold HD.cks4. tie_str. rewrite firstn_length, H_dsha_len. reflexivity.
Qed.

Lemma cks4_bytes p : Bytes (cks4 p).
Proof using H_dsha_bytes.
  clear H_dsha_len H_ser_len H_ser_bytes H_ser_head H_parse_ser; clear_vars.
  unfold HD.cks4. apply Bytes_firstn. apply H_dsha_bytes.
Qed.

(* the key-data part of the payload of a well-formed key *)
Definition key_part (k : xkey) : list N :=
  if xk_priv k then [0] ++ xk_key k else xk_key k.

Lemma payload_wf k : wf k ->
  payload k = xk_version k ++ [xk_depth k] ++ xk_fp k ++ be_bytes 4 (xk_childnum k) ++ xk_chain k ++ key_part k /\
  length (key_part k) = 33%nat /\ Bytes (key_part k).
Proof using H_ser_len H_ser_bytes.
  clear H_dsha_len H_dsha_bytes H_ser_head H_parse_ser; clear_vars.
  intros (Hv & Hvb & Hf & Hfb & Hc & Hcb & Hd & Hn & Hk).
  unfold HD.payload, key_part, HD.pubkey_bytes. tie_str.
  destruct (xk_priv k).
  - destruct Hk as (Hl & Hb & _). rewrite padded_append_exact by exact Hl.
    repeat split.
    + rewrite app_length, Hl. reflexivity.
    + apply Bytes_app. split; [constructor; [lia | constructor] | exact Hb].
  - destruct Hk as (P & -> & _). repeat split; [apply H_ser_len | apply H_ser_bytes].
Qed.

(* ---------- round trip ---------- *)
Theorem parse_string k : wf k -> parse (to_string k) = Ok k.
Proof using H_dsha_len H_dsha_bytes H_ser_len H_ser_bytes H_ser_head H_parse_ser.
  clear_vars.
  intros Hwf. destruct (payload_wf k Hwf) as (Ep & Hkl & Hkb).
  destruct Hwf as (Hv & Hvb & Hf & Hfb & Hc & Hcb & Hd & Hn & Hk).
  assert (Hkey : length (xk_key k) <> 0%nat).
  { destruct (xk_priv k); [destruct Hk as (-> & _); discriminate | destruct Hk as (P & -> & _); rewrite H_ser_len; discriminate]. }
  unfold HD.to_string. tie_str. destruct (Nat.eqb_spec (length (xk_key k)) 0) as [|_]; [contradiction|].
  cbv zeta. set (p := payload k) in *.
  destruct (fields_of_concat (xk_version k) (xk_fp k) (be_bytes 4 (xk_childnum k)) (xk_chain k) (key_part k) (xk_depth k)
              Hv Hf (be_bytes_length _ _) Hc Hkl) as (Lp & F1 & F2 & F3 & F4 & F5 & F6).
  cbv zeta in Lp, F1, F2, F3, F4, F5, F6. rewrite <- Ep in Lp, F1, F2, F3, F4, F5, F6.
  assert (Hpb : Bytes p).
  { rewrite Ep. apply Bytes_app; split; [exact Hvb|]. apply Bytes_app; split; [constructor; [lia | constructor]|].
    apply Bytes_app; split; [exact Hfb|]. apply Bytes_app; split; [apply be_bytes_Bytes|].
    apply Bytes_app; split; [exact Hcb | exact Hkb]. }
  unfold HD.parse. tie_parse. rewrite decode_encode.
  2:{ apply Bytes_app. split; [exact Hpb | apply cks4_bytes]. }
  rewrite app_length, Lp, cks4_length. cbn [Nat.eqb negb Nat.add Nat.sub].
  change (82 - 4)%nat with 78%nat.
  rewrite (firstn_app_exact 78 p _ Lp), (skipn_app_exact 78 p _ Lp).
  change (firstn 4 (dsha p)) with (cks4 p). rewrite list_eqb_refl. cbn [negb].
  rewrite F1, F2, F3, F4, F5, F6.
  rewrite be_value_be_bytes by (change (256 ^ N.of_nat 4) with (2 ^ 32); exact Hn).
  unfold key_part. destruct (xk_priv k) eqn:Hp.
  - destruct Hk as (Hl & Hb & Hr). cbn [app nth skipn N.eqb].
    change (N.of_nat 0) with 0. cbn [N.eqb].
    apply out_of_range_false in Hr. rewrite Hr.
    destruct k; cbn in *; subst; reflexivity.
  - destruct Hk as (P & HP & Hz). rewrite HP.
    destruct (N.eqb_spec (nth 0 (ser_point P) 0) (N.of_nat 0)) as [E|_]; [exfalso; exact (H_ser_head P E)|].
    rewrite (H_parse_ser P Hz). cbn [rbind].
    destruct k; cbn in *; subst; reflexivity.
Qed.

(* ---------- canonicity of everything accepted ---------- *)
(* what NewKeyFromString accepts, in terms of the decoded bytes *)
Lemma parse_inv s k : parse s = Ok k ->
  let d := Base58.decode s in
  let pl := firstn 78 d in
  length d = 82%nat /\ skipn 78 d = cks4 pl /\
  ((nth 0 (slice 45 78 pl) 0 = 0 /\ out_of_range (set_bytes (skipn 1 (slice 45 78 pl))) = false /\
    k = mk_xkey (firstn 4 pl) (skipn 1 (slice 45 78 pl)) (slice 13 45 pl) (slice 5 9 pl)
                (nth 0 (slice 4 5 pl) 0) (be_value (slice 9 13 pl) 0) true)
   \/
   (nth 0 (slice 45 78 pl) 0 <> 0 /\ (exists P, parse_point (slice 45 78 pl) = Ok P) /\
    k = mk_xkey (firstn 4 pl) (slice 45 78 pl) (slice 13 45 pl) (slice 5 9 pl)
                (nth 0 (slice 4 5 pl) 0) (be_value (slice 9 13 pl) 0) false)).
Proof using.
  clear H_dsha_len H_dsha_bytes H_ser_len H_ser_bytes H_ser_head H_parse_ser; clear_vars.
  intros Hp. unfold HD.parse in Hp. tie_parse_in Hp. cbv zeta in Hp. cbv zeta.
  set (d := Base58.decode s) in *.
  destruct (Nat.eqb_spec (length d) (78 + 4)) as [Hl|]; cbn [negb] in Hp; [|discriminate].
  change (78 + 4)%nat with 82%nat in Hl. rewrite Hl in Hp. change (82 - 4)%nat with 78%nat in Hp.
  set (pl := firstn 78 d) in *.
  destruct (list_eqb (skipn 78 d) (firstn 4 (dsha pl))) eqn:Eck; cbn [negb] in Hp; [|discriminate].
  apply list_eqb_eq in Eck. split; [exact Hl|]. split; [exact Eck|].
  change (N.of_nat 0) with 0 in Hp.
  destruct (N.eqb_spec (nth 0 (slice 45 78 pl) 0) 0) as [E0|E0].
  - left. destruct (out_of_range _) eqn:Eo; [discriminate|]. injection Hp as <-. auto.
  - right. destruct (parse_point (slice 45 78 pl)) as [P| |] eqn:EP; cbn [rbind] in Hp; try discriminate.
    injection Hp as <-. split; [exact E0|]. split; [exists P; reflexivity | reflexivity].
Qed.

Theorem string_parse s k : parse s = Ok k ->
  to_string k = s /\
  length (Base58.decode s) = 82%nat /\
  skipn 78 (Base58.decode s) = cks4 (firstn 78 (Base58.decode s)) /\
  (if xk_priv k then length (xk_key k) = 32%nat /\ 0 < set_bytes (xk_key k) < secp_nN
   else length (xk_key k) = 33%nat /\ exists P, parse_point (xk_key k) = Ok P).
Proof using.
  clear H_dsha_len H_dsha_bytes H_ser_len H_ser_bytes H_ser_head H_parse_ser; clear_vars.
  intros Hp. destruct (parse_inv s k Hp) as (Hl & Hck & Hk). cbv zeta in Hl, Hck, Hk.
  (* s is a string over the alphabet: otherwise Decode returns nothing *)
  assert (Hs : Forall (fun c => In c alphabet) s).
  { destruct (in_alphabet_dec s) as [H|H]; [exact H|]. apply foreign_char_empty in H. rewrite H in Hl. discriminate. }
  set (d := Base58.decode s) in *. set (pl := firstn 78 d) in *.
  assert (Hpl : length pl = 78%nat) by (unfold pl; rewrite firstn_length; lia).
  assert (Hdb : Bytes d) by apply decode_bytes.
  assert (Hplb : Bytes pl) by (apply Bytes_firstn; exact Hdb).
  assert (Hkd : length (slice 45 78 pl) = 33%nat) by (rewrite slice_length; lia).
  assert (Hcn : be_bytes 4 (be_value (slice 9 13 pl) 0) = slice 9 13 pl).
  { apply be_bytes_unique; [apply Bytes_slice; exact Hplb | rewrite slice_length; lia]. }
  assert (Hd : d = pl ++ cks4 pl) by (rewrite <- Hck; symmetry; apply firstn_skipn).
  assert (Hstr : forall kp, kp = slice 45 78 pl ->
            Base58.encode ((firstn 4 pl ++ [nth 0 (slice 4 5 pl) 0] ++ slice 5 9 pl ++
                            be_bytes 4 (be_value (slice 9 13 pl) 0) ++ slice 13 45 pl ++ kp) ++
                           cks4 (firstn 4 pl ++ [nth 0 (slice 4 5 pl) 0] ++ slice 5 9 pl ++
                                 be_bytes 4 (be_value (slice 9 13 pl) 0) ++ slice 13 45 pl ++ kp)) = s).
  { intros kp ->. rewrite Hcn, <- (payload_split pl Hpl), <- Hd. apply encode_decode. exact Hs. }
  split; [|split; [exact Hl | split; [exact Hck|]]].
  - unfold HD.to_string, HD.payload, HD.pubkey_bytes. tie_str.
    destruct Hk as [(E0 & Eo & ->) | (E0 & EP & ->)]; cbn [xk_key xk_priv xk_version xk_depth xk_fp xk_childnum xk_chain].
    + assert (Hsk : length (skipn 1 (slice 45 78 pl)) = 32%nat) by (rewrite skipn_length; lia).
      rewrite Hsk. cbn [Nat.eqb]. rewrite padded_append_exact by exact Hsk. apply Hstr.
      destruct (slice 45 78 pl) as [|x t]; [discriminate|]. cbn [nth] in E0. subst x. reflexivity.
    + rewrite Hkd. cbn [Nat.eqb]. apply Hstr. reflexivity.
  - destruct Hk as [(E0 & Eo & ->) | (E0 & EP & ->)]; cbn [xk_key xk_priv].
    + split; [rewrite skipn_length; lia | apply out_of_range_false; exact Eo].
    + split; [exact Hkd | exact EP].
Qed.

(* ---------- every failure class is rejected, with its error ---------- *)
Theorem parse_rejects_length s : length (Base58.decode s) <> 82%nat -> parse s = Err E_keylen.
Proof using.
  clear H_dsha_len H_dsha_bytes H_ser_len H_ser_bytes H_ser_head H_parse_ser; clear_vars.
  intros H. unfold HD.parse. tie_parse. cbv zeta.
  destruct (Nat.eqb_spec (length (Base58.decode s)) (78 + 4)) as [E|_]; [contradiction | reflexivity].
Qed.

(* in particular: any character outside the Base58 alphabet *)
Theorem parse_rejects_foreign s : (exists c, In c s /\ ~ In c alphabet) -> parse s = Err E_keylen.
Proof using.
  clear H_dsha_len H_dsha_bytes H_ser_len H_ser_bytes H_ser_head H_parse_ser; clear_vars.
  intros H. apply parse_rejects_length. rewrite (foreign_char_empty s H). discriminate.
Qed.

Theorem parse_rejects_checksum s :
  length (Base58.decode s) = 82%nat ->
  skipn 78 (Base58.decode s) <> cks4 (firstn 78 (Base58.decode s)) -> parse s = Err E_checksum.
Proof using.
  clear H_dsha_len H_dsha_bytes H_ser_len H_ser_bytes H_ser_head H_parse_ser; clear_vars.
  intros Hl Hck. unfold HD.parse. tie_parse. cbv zeta. rewrite Hl. cbn [Nat.eqb Nat.add negb].
  change (82 - 4)%nat with 78%nat.
  destruct (list_eqb _ _) eqn:E; [|reflexivity]. apply list_eqb_eq in E. contradiction.
Qed.

Theorem parse_rejects_scalar s :
  let d := Base58.decode s in
  length d = 82%nat -> skipn 78 d = cks4 (firstn 78 d) -> nth 45 d 0 = 0 ->
  (set_bytes (slice 46 78 d) = 0 \/ secp_nN <= set_bytes (slice 46 78 d)) ->
  parse s = Err E_unusable.
Proof using.
  clear H_dsha_len H_dsha_bytes H_ser_len H_ser_bytes H_ser_head H_parse_ser; clear_vars.
  intros d Hl Hck H0 Hr. unfold HD.parse. tie_parse. cbv zeta. fold d. rewrite Hl. cbn [Nat.eqb Nat.add negb].
  change (82 - 4)%nat with 78%nat. rewrite Hck. unfold HD.cks4. tie_str. rewrite list_eqb_refl. cbn [negb].
  assert (Ekd : slice 45 78 (firstn 78 d) = slice 45 78 d).
  { unfold slice. rewrite skipn_firstn_comm, firstn_firstn. f_equal. }
  rewrite Ekd.
  assert (E45 : nth 0 (slice 45 78 d) 0 = nth 45 d 0).
  { unfold slice. rewrite <- (firstn_skipn 45 d) at 2. rewrite app_nth2 by (rewrite firstn_length; lia).
    rewrite firstn_length, Nat.min_l by lia. rewrite Nat.sub_diag.
    destruct (skipn 45 d) as [|x t] eqn:E; [reflexivity|]. reflexivity. }
  rewrite E45, H0. change (N.of_nat 0) with 0. cbn [N.eqb].
  assert (Esk : skipn 1 (slice 45 78 d) = slice 46 78 d).
  { unfold slice. change (78 - 45)%nat with (S 32). change (78 - 46)%nat with 32%nat.
    change 46%nat with (1 + 45)%nat. rewrite <- skipn_skipn.
    destruct (skipn 45 d) as [|x t]; [reflexivity|]. reflexivity. }
  rewrite Esk.
  assert (Ho : out_of_range (set_bytes (slice 46 78 d)) = true).
  { unfold out_of_range. destruct Hr as [-> | Hge]; [apply orb_true_r|].
    destruct (N.leb_spec secp_nN (set_bytes (slice 46 78 d))); [reflexivity | lia]. }
  rewrite Ho. reflexivity.
Qed.

Theorem parse_rejects_pubkey s e :
  let d := Base58.decode s in
  length d = 82%nat -> skipn 78 d = cks4 (firstn 78 d) -> nth 45 d 0 <> 0 ->
  parse_point (slice 45 78 d) = Err e ->
  parse s = Err e.
Proof using.
  clear H_dsha_len H_dsha_bytes H_ser_len H_ser_bytes H_ser_head H_parse_ser; clear_vars.
  intros d Hl Hck H0 HP. unfold HD.parse. tie_parse. cbv zeta. fold d. rewrite Hl. cbn [Nat.eqb Nat.add negb].
  change (82 - 4)%nat with 78%nat. rewrite Hck. unfold HD.cks4. tie_str. rewrite list_eqb_refl. cbn [negb].
  assert (Ekd : slice 45 78 (firstn 78 d) = slice 45 78 d).
  { unfold slice. rewrite skipn_firstn_comm, firstn_firstn. f_equal. }
  rewrite Ekd.
  assert (E45 : nth 0 (slice 45 78 d) 0 = nth 45 d 0).
  { unfold slice. rewrite <- (firstn_skipn 45 d) at 2. rewrite app_nth2 by (rewrite firstn_length; lia).
    rewrite firstn_length, Nat.min_l by lia. rewrite Nat.sub_diag.
    destruct (skipn 45 d) as [|x t] eqn:E; [reflexivity|]. reflexivity. }
  rewrite E45. change (N.of_nat 0) with 0.
  destruct (N.eqb_spec (nth 45 d 0) 0) as [|_]; [contradiction|].
  rewrite HP. reflexivity.
Qed.

(* parse is total: it never panics (given that ParsePubKey does not) *)
Theorem parse_no_panic s : (forall b k, parse_point b <> Panic k) -> forall k, parse s <> Panic k.
Proof using.
  clear H_dsha_len H_dsha_bytes H_ser_len H_ser_bytes H_ser_head H_parse_ser; clear_vars.
  intros HP k. unfold HD.parse. cbv zeta.
  destruct (negb _); [discriminate|]. destruct (negb _); [discriminate|].
  destruct (_ =? _); [destruct (out_of_range _); discriminate|].
  destruct (parse_point _) as [P|e|p] eqn:E; cbn [rbind]; try discriminate. exfalso. exact (HP _ _ E).
Qed.

End XKey.

(* Instantiation of the HD model for the correspondence runs: the dependencies are oracle tables
   written by the harness next to each case (HMAC-SHA512, scalar-base multiplication, point addition,
   ParsePubKey, HASH160, optionally double SHA-256).  The model looks a value up by its FULL argument;
   a missing entry yields a sentinel containing the non-byte 256 (resp. coordinates >= 2^256), which
   can never equal what the implementation returned, so it shows up as a mismatch.
   Points are affine coordinates as Go's big.Ints (x, y); SerializeCompressed is computed here. *)
From BU Require Import Lib.Bytes Lib.Radix Lib.Sha256 Base58.Base58 Gen.Nets HD.HD.

Definition pt := (N * N)%type.

Record oracle := mk_oracle {
  o_hmac : list ((list N * list N) * list N);     (* (key, data) -> 64 bytes *)
  o_mul : list (N * pt);                          (* scalar value -> point *)
  o_add : list ((pt * pt) * pt);
  o_parse : list (list N * option pt);            (* None: bchec.ParsePubKey returned an error *)
  o_h160 : list (list N * list N);
  o_dsha : list (list N * list N) }.              (* empty table: Lib.Sha256.sha256d is used *)

Definition no_oracle : oracle := mk_oracle [] [] [] [] [] [].

Definition missing_bytes : list N := [256].
Definition missing_pt : pt := (2 ^ 256 + 1, 2 ^ 256 + 1).

Definition pt_eqb (a b : pt) : bool := (fst a =? fst b) && (snd a =? snd b).

Fixpoint look_hmac (t : list ((list N * list N) * list N)) (k d : list N) : list N :=
  match t with
  | [] => missing_bytes
  | ((k', d'), v) :: r => if list_eqb d' d && list_eqb k' k then v else look_hmac r k d
  end.
Fixpoint look_mul (t : list (N * pt)) (s : N) : pt :=
  match t with [] => missing_pt | (s', v) :: r => if s' =? s then v else look_mul r s end.
Fixpoint look_add (t : list ((pt * pt) * pt)) (a b : pt) : pt :=
  match t with
  | [] => missing_pt
  | ((a', b'), v) :: r => if pt_eqb a' a && pt_eqb b' b then v else look_add r a b
  end.
Definition look_bytes (t : list (list N * list N)) (k : list N) : list N :=
  match assoc_bytes t k with Some v => v | None => missing_bytes end.

Definition r_hmac (o : oracle) := look_hmac (o_hmac o).
Definition r_mul (o : oracle) (s : Z) : pt := look_mul (o_mul o) (Z.to_N s).
Definition r_add (o : oracle) := look_add (o_add o).
Definition r_pzero (p : pt) : bool := (fst p =? 0) || (snd p =? 0).
(* bchec SerializeCompressed: format 0x02 | odd(Y), then paddedAppend(32, X.Bytes()) *)
Definition r_ser (p : pt) : list N := padded_append 32 [2 + (snd p) mod 2] (big_bytes (fst p)).
Definition r_parse (o : oracle) (b : list N) : res pt :=
  match assoc_bytes (o_parse o) b with
  | Some (Some p) => Ok p
  | Some None => Err E_pubkey
  | None => Panic 9            (* missing entry *)
  end.
Definition r_h160 (o : oracle) := look_bytes (o_h160 o).
Definition r_dsha (o : oracle) : list N -> list N :=
  match o_dsha o with [] => sha256d | t => look_bytes t end.

Definition r_pubkey_bytes o := pubkey_bytes pt (r_mul o) r_ser.
Definition r_child o := child pt (r_hmac o) (r_mul o) (r_add o) r_pzero r_ser (r_parse o) (r_h160 o).
Definition r_neuter o := neuter pt (r_mul o) r_ser.
Definition r_new_master o := new_master (r_hmac o).
Definition r_payload o := payload pt (r_mul o) r_ser.
Definition r_to_string o := to_string pt (r_mul o) r_ser (r_dsha o).
Definition r_parse_key o := parse pt (r_parse o) (r_dsha o).
Definition r_address o := address pt (r_mul o) r_ser (r_h160 o).
Definition r_ec_pub o := ec_pub pt (r_mul o) r_ser (r_parse o).
Definition r_derive o := derive pt (r_hmac o) (r_mul o) (r_add o) r_pzero r_ser (r_parse o) (r_h160 o).

(* comparison of observables *)
Definition xkey_eqb (a b : xkey) : bool :=
  list_eqb (xk_version a) (xk_version b) && list_eqb (xk_key a) (xk_key b) &&
  list_eqb (xk_chain a) (xk_chain b) && list_eqb (xk_fp a) (xk_fp b) &&
  (xk_depth a =? xk_depth b) && (xk_childnum a =? xk_childnum b) && Bool.eqb (xk_priv a) (xk_priv b).

Definition res_eqb {A} (eqb : A -> A -> bool) (m i : res A) : bool :=
  match m, i with
  | Ok a, Ok b => eqb a b
  | Err e, Err f => e =? f
  | _, _ => false
  end.

Definition net_of (i : N) : net := nth (N.to_nat i) all_nets mainnet.

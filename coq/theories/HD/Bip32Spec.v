(* BIP32 as its text states it (bip-0032.mediawiki, sections "Conventions", "Child key derivation
   (CKD) functions", "Key identifiers", "Serialization format", "Master key generation"), over Z.
   Nothing here refers to the model HD.v.

   Conventions of the BIP: point(p), ser32(i), ser256(p), serP(P), parse256(p); n is the order of
   secp256k1.  HMAC-SHA512, the group, serP, HASH160 and double SHA-256 are parameters. *)
From BU Require Import Lib.Bytes Base58.Base58.

Definition n : Z := 0xFFFFFFFFFFFFFFFFFFFFFFFFFFFFFFFEBAAEDCE6AF48A03BBFD25E8CD0364141%Z.

Definition ser32 (i : Z) : list N := be_bytes 4 (Z.to_N i).
Definition ser256 (p : Z) : list N := be_bytes 32 (Z.to_N p).
Definition parse256 (b : list N) : Z := Z.of_N (be_value b 0).

(* "Bitcoin seed" *)
Definition bitcoin_seed : list N := [66;105;116;99;111;105;110;32;115;101;101;100].

Section Spec.
Variable point : Type.
Variable hmac_sha512 : list N -> list N -> list N.  (* Key, Data *)
Variable point_of : Z -> point.                     (* point(p): EC point multiplication of the base point with p *)
Variable padd : point -> point -> point.            (* + on points *)
Variable is_infinity : point -> bool.
Variable serP : point -> list N.                    (* SEC1 compressed form *)
Variable hash160 : list N -> list N.                (* RIPEMD160 after SHA256 *)
Variable sha256d : list N -> list N.

Definition IL (I : list N) : list N := firstn 32 I.   (* "Split I into two 32-byte sequences, IL and IR" *)
Definition IR (I : list N) : list N := skipn 32 I.

Definition hardened (i : Z) : bool := (2 ^ 31 <=? i)%Z.

(* ---- private parent key -> private child key ---- *)
Definition I_priv (kpar : Z) (cpar : list N) (i : Z) : list N :=
  if hardened i
  then hmac_sha512 cpar ([0] ++ ser256 kpar ++ ser32 i)            (* 0x00 || ser256(kpar) || ser32(i) *)
  else hmac_sha512 cpar (serP (point_of kpar) ++ ser32 i).         (* serP(point(kpar)) || ser32(i) *)

Definition CKDpriv (kpar : Z) (cpar : list N) (i : Z) : option (Z * list N) :=
  let I := I_priv kpar cpar i in
  let ki := ((parse256 (IL I) + kpar) mod n)%Z in
  (* "In case parse256(IL) >= n or ki = 0, the resulting key is invalid" *)
  if (n <=? parse256 (IL I))%Z || (ki =? 0)%Z then None else Some (ki, IR I).

(* ---- public parent key -> public child key ---- *)
Definition I_pub (Kpar : point) (cpar : list N) (i : Z) : list N :=
  hmac_sha512 cpar (serP Kpar ++ ser32 i).

Inductive ckd_pub_result := PubFailure | PubInvalid | PubChild (K : point) (c : list N).

Definition CKDpub (Kpar : point) (cpar : list N) (i : Z) : ckd_pub_result :=
  if hardened i then PubFailure else                              (* "If so (hardened child): return failure" *)
  let I := I_pub Kpar cpar i in
  let Ki := padd (point_of (parse256 (IL I))) Kpar in
  (* "In case parse256(IL) >= n or Ki is the point at infinity, the resulting key is invalid" *)
  if (n <=? parse256 (IL I))%Z || is_infinity Ki then PubInvalid else PubChild Ki (IR I).

(* ---- private parent key -> public child key:  N((k, c)) -> (K, c) ---- *)
Definition Neuter (kc : Z * list N) : point * list N := (point_of (fst kc), snd kc).

(* ---- key identifiers ---- *)
Definition identifier (K : point) : list N := hash160 (serP K).
Definition fingerprint (K : point) : list N := firstn 4 (identifier K).

(* ---- master key generation ---- *)
Definition master (S : list N) : option (Z * list N) :=
  let I := hmac_sha512 bitcoin_seed S in
  (* "In case parse256(IL) is 0 or parse256(IL) >= n, the master key is invalid" *)
  if (parse256 (IL I) =? 0)%Z || (n <=? parse256 (IL I))%Z then None else Some (parse256 (IL I), IR I).

Definition seed_length_ok (S : list N) : Prop := (16 <= length S <= 64)%nat.  (* "between 128 and 512 bits" *)

(* ---- extended keys with their serialisation metadata ---- *)
Record priv_node := mk_priv { s_k : Z; s_c : list N; s_depth : Z; s_fp : list N; s_index : Z }.
Record pub_node := mk_pub { p_K : point; p_c : list N; p_depth : Z; p_fp : list N; p_index : Z }.

Definition master_node (S : list N) : option priv_node :=
  match master S with
  | Some (k, c) => Some (mk_priv k c 0 [0;0;0;0] 0)      (* depth 0x00, fingerprint 0x00000000, child number 0 *)
  | None => None
  end.

Definition child_priv_node (par : priv_node) (i : Z) : option priv_node :=
  match CKDpriv (s_k par) (s_c par) i with
  | Some (ki, ci) => Some (mk_priv ki ci (s_depth par + 1) (fingerprint (point_of (s_k par))) i)
  | None => None
  end.

Definition child_pub_node (par : pub_node) (i : Z) : option pub_node :=
  match CKDpub (p_K par) (p_c par) i with
  | PubChild Ki ci => Some (mk_pub Ki ci (p_depth par + 1) (fingerprint (p_K par)) i)
  | _ => None
  end.

Definition neuter_node (nd : priv_node) : pub_node :=
  mk_pub (point_of (s_k nd)) (s_c nd) (s_depth nd) (s_fp nd) (s_index nd).

Fixpoint derive_priv (nd : priv_node) (path : list Z) : option priv_node :=
  match path with
  | [] => Some nd
  | i :: t => match child_priv_node nd i with Some c => derive_priv c t | None => None end
  end.

Fixpoint derive_pub (nd : pub_node) (path : list Z) : option pub_node :=
  match path with
  | [] => Some nd
  | i :: t => match child_pub_node nd i with Some c => derive_pub c t | None => None end
  end.

(* ---- serialisation: 4 version | 1 depth | 4 fingerprint | 4 child number | 32 chain code | 33 key ---- *)
Definition serialize_priv (version : list N) (nd : priv_node) : list N :=
  version ++ [Z.to_N (s_depth nd)] ++ s_fp nd ++ ser32 (s_index nd) ++ s_c nd ++ ([0] ++ ser256 (s_k nd)).
Definition serialize_pub (version : list N) (nd : pub_node) : list N :=
  version ++ [Z.to_N (p_depth nd)] ++ p_fp nd ++ ser32 (p_index nd) ++ p_c nd ++ serP (p_K nd).

(* "adding 32 checksum bits (derived from the double SHA-256 checksum), and then converting to Base58" *)
Definition base58check (payload : list N) : list N := Base58.encode (payload ++ firstn 4 (sha256d payload)).

Definition string_priv version nd := base58check (serialize_priv version nd).
Definition string_pub version nd := base58check (serialize_pub version nd).

End Spec.

Arguments mk_pub {point} _ _ _ _ _.
Arguments p_K {point} _.
Arguments p_c {point} _.
Arguments p_depth {point} _.
Arguments p_fp {point} _.
Arguments p_index {point} _.
Arguments PubFailure {point}.
Arguments PubInvalid {point}.
Arguments PubChild {point} _ _.

(* The Section hypotheses of the C04 / C05 theorems (HDProofs.v, XKeyProofs.v, XKeyReach.v) are jointly
   satisfiable: the cyclic group Z_n with "scalar multiplication" a |-> a mod n, a 33-byte serialisation,
   constant HMAC / HASH160 and the real SHA-256d satisfies every one of them.  (They are meant to be read
   as facts about secp256k1; this instance only shows that the theorems are not vacuous.) *)
From BU Require Import Lib.Bytes Lib.Sha256 HD.HD HD.HDLemmas HD.Bip32Spec.
From Coq Require Import ZifyBool ZifyN ZifyNat Eqdep_dec.

Definition in_range (a : Z) : bool := ((0 <=? a) && (a <? Bip32Spec.n))%Z.
Definition zn : Type := { a : Z | in_range a = true }.
Definition val (p : zn) : Z := proj1_sig p.

Lemma n_pos : (0 < Bip32Spec.n)%Z.
Proof. reflexivity. Qed.

Lemma mod_in_range a : in_range (a mod Bip32Spec.n) = true.
Proof.
  unfold in_range. pose proof (Z.mod_pos_bound a Bip32Spec.n n_pos) as H.
  generalize dependent (a mod Bip32Spec.n)%Z. intros r Hr.
  destruct (Z.leb_spec 0 r), (Z.ltb_spec r Bip32Spec.n); try reflexivity; lia.
Qed.

Definition mk (a : Z) : zn := exist _ (a mod Bip32Spec.n)%Z (mod_in_range a).

Lemma zn_eq (p q : zn) : val p = val q -> p = q.
Proof.
  destruct p as [a Ha], q as [b Hb]. cbn [val proj1_sig]. intros E. subst b.
  f_equal. apply UIP_dec. apply Bool.bool_dec.
Qed.

Lemma val_range (p : zn) : (0 <= val p < Bip32Spec.n)%Z.
Proof.
  destruct p as [a Ha]. cbn [val proj1_sig]. unfold in_range in Ha.
  destruct (Z.leb_spec 0 a), (Z.ltb_spec a Bip32Spec.n); try discriminate. lia.
Qed.

Lemma mk_val p : mk (val p) = p.
Proof. apply zn_eq. unfold mk. cbn [val proj1_sig]. apply Z.mod_small. apply val_range. Qed.

Definition c_mul (a : Z) : zn := mk a.
Definition c_add (p q : zn) : zn := mk (val p + val q).
Definition c_zero (p : zn) : bool := (val p =? 0)%Z.
Definition c_ser (p : zn) : list N := 2 :: be_bytes 32 (Z.to_N (val p)).
Definition c_parse (b : list N) : res zn :=
  match b with
  | 2 :: t => if (length t =? 32)%nat && bytes_ok t && (be_value t 0 <? Z.to_N Bip32Spec.n) && negb (be_value t 0 =? 0)
              then Ok (mk (Z.of_N (be_value t 0))) else Err E_pubkey
  | _ => Err E_pubkey
  end.
Definition c_hmac (k d : list N) : list N := repeat 1 64.
Definition c_h160 (m : list N) : list N := repeat 1 20.

Lemma bound32 (p : zn) : Z.to_N (val p) < 256 ^ N.of_nat 32.
Proof.
  pose proof (val_range p) as H. assert (Hn : (Bip32Spec.n < 2 ^ 256)%Z) by reflexivity.
  assert (E : 256 ^ N.of_nat 32 = Z.to_N (2 ^ 256)) by reflexivity. rewrite E.
  generalize dependent Bip32Spec.n. intros m H Hm. apply Z2N.inj_lt; lia.
Qed.

Definition hypotheses_statement : Prop :=
  (forall k d, length (c_hmac k d) = 64%nat) /\
  (forall k d, Bytes (c_hmac k d)) /\
  (forall m, length (c_h160 m) = 20%nat) /\
  (forall m, Bytes (c_h160 m)) /\
  (forall m, length (sha256d m) = 32%nat) /\
  (forall m, Bytes (sha256d m)) /\
  (forall P, length (c_ser P) = 33%nat) /\
  (forall P, Bytes (c_ser P)) /\
  (forall P, nth 0 (c_ser P) 0 <> 0) /\
  (forall P, c_zero P = false -> c_parse (c_ser P) = Ok P) /\
  (forall b P, length b = 33%nat -> c_parse b = Ok P -> b = c_ser P /\ c_zero P = false) /\
  (forall a, (0 < a < Bip32Spec.n)%Z -> c_zero (c_mul a) = false) /\
  (forall a b, (0 <= a < Bip32Spec.n)%Z -> (0 <= b < Bip32Spec.n)%Z ->
     c_mul ((a + b) mod Bip32Spec.n) = c_add (c_mul a) (c_mul b)).

Theorem hypotheses_consistent : hypotheses_statement.
Proof.
  unfold hypotheses_statement. repeat apply conj.
  - reflexivity.
  - intros. apply Bytes_repeat. lia.
  - reflexivity.
  - intros. apply Bytes_repeat. lia.
  - intros m. apply sha256_length_32.
  - intros m. apply sha256_bytes.
  - intros P. unfold c_ser. cbn [length]. rewrite be_bytes_length. reflexivity.
  - intros P. unfold c_ser. apply Bytes_cons. split; [lia | apply be_bytes_Bytes'].
  - intros P. unfold c_ser. cbn [nth]. lia.
  - intros P Hz. unfold c_ser, c_parse. rewrite be_bytes_length. cbn [Nat.eqb andb].
    assert (Hb : bytes_ok (be_bytes 32 (Z.to_N (val P))) = true) by (apply bytes_ok_iff, be_bytes_Bytes').
    rewrite Hb. rewrite be_value_be_bytes by apply bound32. cbn [andb].
    pose proof (val_range P) as Hr. unfold c_zero in Hz.
    destruct (N.ltb_spec (Z.to_N (val P)) (Z.to_N Bip32Spec.n)) as [_|Hge]; [|lia].
    destruct (N.eqb_spec (Z.to_N (val P)) 0) as [E|_]; [destruct (Z.eqb_spec (val P) 0); [discriminate | lia]|].
    cbn [andb negb]. rewrite Z2N.id by lia. rewrite mk_val. reflexivity.
  - intros b P _. unfold c_parse. destruct b as [|x t]; [discriminate|].
    destruct x as [|x]; [discriminate|]. destruct x as [x|x|]; try discriminate. destruct x; try discriminate.
    destruct (Nat.eqb_spec (length t) 32) as [Hl|]; cbn [andb]; [|discriminate].
    destruct (bytes_ok t) eqn:Hb; cbn [andb]; [|discriminate]. apply bytes_ok_iff in Hb.
    destruct (N.ltb_spec (be_value t 0) (Z.to_N Bip32Spec.n)) as [Hlt|]; cbn [andb]; [|discriminate].
    destruct (N.eqb_spec (be_value t 0) 0) as [|Hne]; cbn [negb]; [discriminate|].
    intros E. injection E as <-.
    assert (Ev : val (mk (Z.of_N (be_value t 0))) = Z.of_N (be_value t 0)).
    { unfold mk. cbn [val proj1_sig]. apply Z.mod_small. pose proof n_pos. lia. }
    split.
    + unfold c_ser. rewrite Ev, N2Z.id. f_equal. symmetry. apply be_bytes_unique; assumption.
    + unfold c_zero. rewrite Ev. destruct (Z.eqb_spec (Z.of_N (be_value t 0)) 0); [lia | reflexivity].
  - intros a Ha. unfold c_zero, c_mul, mk. cbn [val proj1_sig]. rewrite Z.mod_small by lia.
    destruct (Z.eqb_spec a 0); [lia | reflexivity].
  - intros a b Ha Hb. apply zn_eq. unfold c_add, c_mul, mk. cbn [val proj1_sig].
    rewrite Z.mod_mod by (pose proof n_pos; lia). apply Zplus_mod.
Qed.

(* C05: the well-formedness invariant [wf] of XKeyProofs.v holds on every key the library produces
   (NewMaster, Child, Neuter, NewKeyFromString), provided the derivation did not hit the k_i = 0 /
   K_i = infinity gap of C04.  Hence every produced key round-trips through its string. *)
From BU Require Import Lib.Bytes Lib.Radix Base58.Base58 Base58.Base58Proofs Gen.Nets HD.HD HD.HDLemmas HD.HDGuards HD.HDProofs HD.XKeyProofs.
From Coq Require Import ZifyBool ZifyN ZifyNat.

(* version bytes of the registered networks are four bytes *)
Definition four_bytes (v : list N) : bool := (length v =? 4)%nat && bytes_ok v.
Lemma nets_versions_ok :
  forallb (fun nt => four_bytes (hd_priv_id nt) && four_bytes (hd_pub_id nt)) all_nets = true /\
  forallb (fun pq => four_bytes (snd pq)) hd_priv_to_pub = true.
Proof. split; reflexivity. Qed.

Lemma four_bytes_spec v : four_bytes v = true -> length v = 4%nat /\ Bytes v.
Proof.
  unfold four_bytes. intros H. apply andb_true_iff in H as [H1 H2].
  apply Nat.eqb_eq in H1. apply bytes_ok_iff in H2. auto.
Qed.

Lemma priv_to_pub_id_ok v p : priv_to_pub_id v = Ok p -> length p = 4%nat /\ Bytes p.
Proof.
  unfold priv_to_pub_id. destruct nets_versions_ok as [_ H]. rewrite forallb_forall in H.
  induction hd_priv_to_pub as [|[a b] t IH]; cbn [assoc_bytes]; [discriminate|].
  destruct (list_eqb a v).
  - intros E. injection E as <-. apply four_bytes_spec. apply (H (a, b)). left. reflexivity.
  - apply IH. intros x Hx. apply H. right. exact Hx.
Qed.

Section Reach.
Variable point : Type.
Variable hmac512 : list N -> list N -> list N.
Variable point_of_scalar : Z -> point.
Variable padd : point -> point -> point.
Variable pzero : point -> bool.
Variable ser_point : point -> list N.
Variable parse_point : list N -> res point.
Variable hash160 : list N -> list N.
Variable dsha : list N -> list N.

Hypothesis H_hmac_len : forall k d, length (hmac512 k d) = 64%nat.
Hypothesis H_hmac_bytes : forall k d, Bytes (hmac512 k d).
Hypothesis H_h160_len : forall m, length (hash160 m) = 20%nat.
Hypothesis H_h160_bytes : forall m, Bytes (hash160 m).
Hypothesis H_ser_len : forall P, length (ser_point P) = 33%nat.
Hypothesis H_mul_nonzero : forall a, (0 < a < Bip32Spec.n)%Z -> pzero (point_of_scalar a) = false.
(* the compressed encoding is canonical: whatever 33-BYTE string ParsePubKey accepts is the serialisation of a
   finite point.  (Restricted to 33 bytes in review round 2: bchec.ParsePubKey also accepts the 65-byte
   uncompressed and hybrid encodings, for which the unrestricted statement is false.) *)
Hypothesis H_ser_parse : forall b P, length b = 33%nat -> parse_point b = Ok P -> b = ser_point P /\ pzero P = false.

Ltac clear_vars := try clear dsha; try clear hash160; try clear parse_point; try clear ser_point; try clear pzero;
  try clear padd; try clear point_of_scalar; try clear hmac512; try clear point.

Local Notation child := (child point hmac512 point_of_scalar padd pzero ser_point parse_point hash160).
Local Notation neuter := (neuter point point_of_scalar ser_point).
Local Notation wf := (wf point pzero ser_point).
Local Notation parse := (parse point parse_point dsha).

Lemma wf_master seed nt k : In nt all_nets -> new_master hmac512 seed nt = Ok k -> wf k.
Proof using H_hmac_len H_hmac_bytes.
  clear H_h160_len H_h160_bytes H_ser_len H_mul_nonzero H_ser_parse; clear_vars.
  intros Hin Hm. unfold new_master in Hm. tie_master_in Hm. cbv zeta in Hm.
  destruct (_ || _)%bool in Hm; [discriminate|].
  assert (HI : (length (hmac512 masterKey seed) / 2 = 32)%nat) by (rewrite H_hmac_len; reflexivity).
  rewrite HI in Hm.
  assert (HIb : Bytes (hmac512 masterKey seed)) by apply H_hmac_bytes.
  assert (HIl : length (hmac512 masterKey seed) = 64%nat) by apply H_hmac_len.
  remember (firstn 32 (hmac512 masterKey seed)) as sk eqn:Esk.
  remember (skipn 32 (hmac512 masterKey seed)) as cc eqn:Ecc.
  assert (Hsk : length sk = 32%nat /\ Bytes sk) by (rewrite Esk, firstn_length; split; [lia | apply Bytes_firstn; exact HIb]).
  assert (Hcc : length cc = 32%nat /\ Bytes cc) by (rewrite Ecc, skipn_length; split; [lia | apply Bytes_skipn; exact HIb]).
  destruct (out_of_range (set_bytes sk)) eqn:Eo in Hm; [discriminate|]. injection Hm as <-.
  apply out_of_range_false in Eo.
  destruct nets_versions_ok as [Hn _]. rewrite forallb_forall in Hn. specialize (Hn nt Hin).
  apply andb_true_iff in Hn as [Hn _]. apply four_bytes_spec in Hn as [Hv Hvb].
  unfold XKeyProofs.wf. cbn [xk_version xk_key xk_chain xk_fp xk_depth xk_childnum xk_priv].
  split; [exact Hv|]. split; [exact Hvb|]. split; [reflexivity|]. split; [repeat constructor|].
  split; [apply Hcc|]. split; [apply Hcc|]. split; [reflexivity|]. split; [reflexivity|].
  split; [apply Hsk|]. split; [apply Hsk | exact Eo].
Qed.

Lemma wf_child k i c :
  wf k -> i < 2 ^ 32 -> child k i = Ok c ->
  (if xk_priv c then set_bytes (xk_key c) <> 0 else forall Q, xk_key c = ser_point Q -> pzero Q = false) ->
  wf c.
Proof using H_hmac_len H_hmac_bytes H_h160_len H_h160_bytes H_ser_len.
  clear H_mul_nonzero H_ser_parse; clear_vars.
  intros (Hv & Hvb & Hf & Hfb & Hc & Hcb & Hd & Hn & Hk) Hi Hch Hgap.
  unfold HD.child in Hch. tie_child_in Hch. cbv zeta in Hch.
  rewrite const_maxUint8 in Hch.
  destruct (N.eqb_spec (xk_depth k) 255) as [|Hd255]; [discriminate|].
  destruct (negb (xk_priv k) && _) in Hch; [discriminate|].
  remember (hmac512 (xk_chain k) _) as I eqn:EI in Hch.
  assert (HIb : Bytes I) by (rewrite EI; apply H_hmac_bytes).
  assert (HIl : length I = 64%nat) by (rewrite EI; apply H_hmac_len).
  clear EI. rewrite HIl in Hch. change (64 / 2)%nat with 32%nat in Hch.
  remember (firstn 32 I) as il eqn:Eil. remember (skipn 32 I) as cc eqn:Ecc.
  assert (Hcc : length cc = 32%nat /\ Bytes cc) by (rewrite Ecc, skipn_length; split; [lia | apply Bytes_skipn; exact HIb]).
  destruct (out_of_range _) in Hch; [discriminate|].
  remember (firstn 4 (hash160 _)) as fp eqn:Efp in Hch.
  assert (Hfp : length fp = 4%nat /\ Bytes fp).
  { rewrite Efp. split; [rewrite firstn_length, H_h160_len; reflexivity | apply Bytes_firstn, H_h160_bytes]. }
  clear Efp.
  assert (Hdep : xk_depth k + N.of_nat 1 < 256) by (change (N.of_nat 1) with 1; lia).
  destruct (xk_priv k) eqn:Hp.
  - cbn [rbind] in Hch.
    remember ((set_bytes il + set_bytes (xk_key k)) mod secp_nN) as v eqn:Ev in Hch.
    assert (Hvn : v < secp_nN) by (rewrite Ev; apply N.mod_lt; pose proof secp_n_pos; lia).
    rewrite pad_if_short in Hch by (pose proof secp_n_bound; lia).
    injection Hch as <-. cbn [xk_priv xk_key] in Hgap.
    assert (Esv : set_bytes (be_bytes 32 v) = v).
    { unfold set_bytes. apply be_value_be_bytes. pose proof secp_n_bound. lia. }
    unfold XKeyProofs.wf. cbn [xk_version xk_key xk_chain xk_fp xk_depth xk_childnum xk_priv].
    split; [exact Hv|]. split; [exact Hvb|]. split; [apply Hfp|]. split; [apply Hfp|].
    split; [apply Hcc|]. split; [apply Hcc|]. split; [exact Hdep|]. split; [exact Hi|].
    split; [apply be_bytes_length|]. split; [apply be_bytes_Bytes'|].
    rewrite Esv in *. lia.
  - destruct (pzero _) in Hch; [discriminate|].
    destruct (parse_point (xk_key k)) as [K| |] in Hch; cbn [rbind] in Hch; try discriminate.
    injection Hch as <-. cbn [xk_priv xk_key] in Hgap.
    unfold XKeyProofs.wf. cbn [xk_version xk_key xk_chain xk_fp xk_depth xk_childnum xk_priv].
    split; [exact Hv|]. split; [exact Hvb|]. split; [apply Hfp|]. split; [apply Hfp|].
    split; [apply Hcc|]. split; [apply Hcc|]. split; [exact Hdep|]. split; [exact Hi|].
    eexists. split; [reflexivity|]. apply Hgap. reflexivity.
Qed.

Lemma wf_neuter k c : wf k -> neuter k = Ok c -> wf c.
Proof using H_mul_nonzero.
  clear H_hmac_len H_hmac_bytes H_h160_len H_h160_bytes H_ser_len H_ser_parse; clear_vars.
  intros Hwf Hn. unfold HD.neuter in Hn. destruct (xk_priv k) eqn:Hp; cbn [negb] in Hn.
  - destruct (priv_to_pub_id (xk_version k)) as [p| |] eqn:Ev; cbn [rbind] in Hn; try discriminate.
    injection Hn as <-. destruct (priv_to_pub_id_ok _ _ Ev) as [Hl Hb].
    destruct Hwf as (_ & _ & Hf & Hfb & Hc & Hcb & Hd & Hcn & Hk). rewrite Hp in Hk. destruct Hk as (Hkl & Hkb & Hr).
    unfold XKeyProofs.wf. cbn [xk_version xk_key xk_chain xk_fp xk_depth xk_childnum xk_priv].
    repeat split; auto. unfold HD.pubkey_bytes. rewrite Hp. eexists. split; [reflexivity|].
    apply H_mul_nonzero. unfold scalar_of. rewrite <- tie_nN. lia.
  - injection Hn as <-. exact Hwf.
Qed.

Lemma wf_parse s k : parse s = Ok k -> wf k.
Proof using H_ser_parse.
  clear H_hmac_len H_hmac_bytes H_h160_len H_h160_bytes H_ser_len H_mul_nonzero; clear_vars.
  intros Hp. destruct (parse_inv point parse_point dsha s k Hp) as (Hl & Hck & Hk). cbv zeta in Hl, Hck, Hk.
  set (d := Base58.decode s) in *. set (pl := firstn 78 d) in *.
  assert (Hpl : length pl = 78%nat) by (unfold pl; rewrite firstn_length; lia).
  assert (Hplb : Bytes pl) by (apply Bytes_firstn, decode_bytes).
  assert (Hdep : nth 0 (slice 4 5 pl) 0 < 256).
  { assert (Hb : Bytes (slice 4 5 pl)) by (apply Bytes_slice; exact Hplb).
    rewrite (singleton_nth (slice 4 5 pl)) in Hb by (rewrite slice_length; lia).
    apply Bytes_cons in Hb. tauto. }
  assert (Hcn : be_value (slice 9 13 pl) 0 < 2 ^ 32).
  { pose proof (be_value_bound (slice 9 13 pl) (Bytes_slice _ _ _ Hplb)) as Hb.
    rewrite slice_length in Hb by lia. exact Hb. }
  unfold XKeyProofs.wf.
  destruct Hk as [(E0 & Eo & ->) | (E0 & (P & EP) & ->)];
    cbn [xk_version xk_key xk_chain xk_fp xk_depth xk_childnum xk_priv];
    (split; [rewrite firstn_length; lia|]); (split; [apply Bytes_firstn; exact Hplb|]);
    (split; [rewrite slice_length; lia|]); (split; [apply Bytes_slice; exact Hplb|]);
    (split; [rewrite slice_length; lia|]); (split; [apply Bytes_slice; exact Hplb|]);
    (split; [exact Hdep|]); (split; [exact Hcn|]).
  - split; [rewrite skipn_length, slice_length; lia|]. split; [apply Bytes_skipn, Bytes_slice; exact Hplb|].
    apply out_of_range_false. exact Eo.
  - exists P. apply H_ser_parse; [rewrite slice_length; lia | exact EP].
Qed.

(* keys produced by the library without hitting the C04 gap *)
Inductive produced : xkey -> Prop :=
| prod_master seed nt k : In nt all_nets -> new_master hmac512 seed nt = Ok k -> produced k
| prod_child k i c : produced k -> i < 2 ^ 32 -> child k i = Ok c ->
    (if xk_priv c then set_bytes (xk_key c) <> 0 else forall Q, xk_key c = ser_point Q -> pzero Q = false) ->
    produced c
| prod_neuter k c : produced k -> neuter k = Ok c -> produced c
| prod_parse s k : parse s = Ok k -> produced k.

Theorem produced_wf k : produced k -> wf k.
Proof using H_hmac_len H_hmac_bytes H_h160_len H_h160_bytes H_ser_len H_mul_nonzero H_ser_parse.
  clear_vars.
  induction 1 as [seed nt k Hin Hm | k i c _ IH Hi Hc Hg | k c _ IH Hn | s k Hp].
  - exact (wf_master seed nt k Hin Hm).
  - exact (wf_child k i c IH Hi Hc Hg).
  - exact (wf_neuter k c IH Hn).
  - exact (wf_parse s k Hp).
Qed.
End Reach.

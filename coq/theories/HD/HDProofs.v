(* C04: the HD model conforms to BIP32 (Bip32Spec.v), step by step and along every path. *)
From BU Require Import Lib.Bytes Lib.Radix Base58.Base58 Gen.Nets HD.HD HD.HDLemmas HD.HDGuards HD.Bip32Spec.
From Coq Require Import ZifyBool ZifyN ZifyNat.

(* ---------- ties: constants and literals of the Go source the proofs depend on ---------- *)
Lemma tie_n : secp_n = Bip32Spec.n.
Proof. reflexivity. Qed.
Lemma tie_nN : Z.of_N secp_nN = Bip32Spec.n.
Proof. reflexivity. Qed.
Lemma tie_masterKey : masterKey = bitcoin_seed.
Proof. reflexivity. Qed.
Lemma tie_lits_child :
  (LC 0, LC 1, LC 2, LC 3, LC 4, LC 7, LC 8, LC 11, LC 12) = (33, 4, 1, 2, 2, 32, 32, 4, 1)%nat.
Proof. reflexivity. Qed.
Lemma tie_lits_master : (LM 0, LM 1, LM 4, LM 5, LM 6, LM 7, LM 8, LM 9) = (2, 2, 0, 0, 0, 0, 0, 0)%nat.
Proof. reflexivity. Qed.
Lemma tie_lits_string : (LS 0, LS 1, LS 4, LS 5, LS 6) = (0, 4, 0, 32, 4)%nat.
Proof. reflexivity. Qed.

Ltac tie_child :=
  change (LC 0) with 33%nat in *; change (LC 1) with 4%nat in *; change (LC 2) with 1%nat in *;
  change (LC 3) with 2%nat in *; change (LC 4) with 2%nat in *; change (LC 7) with 32%nat in *;
  change (LC 8) with 32%nat in *; change (LC 11) with 4%nat in *; change (LC 12) with 1%nat in *.
Ltac tie_master :=
  change (LM 0) with 2%nat in *; change (LM 1) with 2%nat in *; change (LM 4) with 0%nat in *;
  change (LM 5) with 0%nat in *; change (LM 6) with 0%nat in *; change (LM 7) with 0%nat in *;
  change (LM 8) with 0%nat in *; change (LM 9) with 0%nat in *.
Ltac tie_string :=
  change (LS 0) with 0%nat in *; change (LS 1) with 4%nat in *; change (LS 4) with 0%nat in *;
  change (LS 5) with 32%nat in *; change (LS 6) with 4%nat in *.

Lemma n_lt_2_256 : (Bip32Spec.n < 2 ^ 256)%Z.
Proof. reflexivity. Qed.

Lemma bound_2_256 v : (0 <= v < Bip32Spec.n)%Z -> Z.to_N v < 256 ^ N.of_nat 32.
Proof.
  intros Hv. pose proof n_lt_2_256 as Hn.
  assert (E : 256 ^ N.of_nat 32 = Z.to_N (2 ^ 256)) by reflexivity.
  rewrite E. generalize dependent Bip32Spec.n. intros m Hv Hm.
  apply Z2N.inj_lt; lia.
Qed.

Lemma set_bytes_ser256 k : (0 <= k < Bip32Spec.n)%Z -> set_bytes (ser256 k) = Z.to_N k.
Proof. intros Hk. unfold set_bytes, ser256. apply be_value_be_bytes. apply bound_2_256. exact Hk. Qed.

Lemma scalar_of_ser256 k : (0 <= k < Bip32Spec.n)%Z -> scalar_of (ser256 k) = k.
Proof. intros Hk. unfold scalar_of. rewrite set_bytes_ser256 by exact Hk. apply Z2N.id. lia. Qed.

Lemma ser256_length k : length (ser256 k) = 32%nat.
Proof. apply be_bytes_length. Qed.
Lemma ser32_length i : length (ser32 i) = 4%nat.
Proof. apply be_bytes_length. Qed.

Section Conform.
Variable point : Type.
Variable hmac512 : list N -> list N -> list N.
Variable point_of_scalar : Z -> point.
Variable padd : point -> point -> point.
Variable pzero : point -> bool.
Variable ser_point : point -> list N.
Variable parse_point : list N -> res point.
Variable hash160 : list N -> list N.
Variable dsha : list N -> list N.

(* what the proofs need of the dependencies *)
Hypothesis H_hmac_len : forall k d, length (hmac512 k d) = 64%nat.
Hypothesis H_ser_len : forall P, length (ser_point P) = 33%nat.
Hypothesis H_parse_ser : forall P, pzero P = false -> parse_point (ser_point P) = Ok P.
Hypothesis H_mul_nonzero : forall a, (0 < a < Bip32Spec.n)%Z -> pzero (point_of_scalar a) = false.
Hypothesis H_hom : forall a b, (0 <= a < Bip32Spec.n)%Z -> (0 <= b < Bip32Spec.n)%Z ->
  point_of_scalar ((a + b) mod Bip32Spec.n) = padd (point_of_scalar a) (point_of_scalar b).

Local Notation child := (child point hmac512 point_of_scalar padd pzero ser_point parse_point hash160).
Local Notation neuter := (neuter point point_of_scalar ser_point).
Local Notation new_master := (new_master hmac512).
Local Notation pubkey_bytes := (pubkey_bytes point point_of_scalar ser_point).
Local Notation derive := (derive point hmac512 point_of_scalar padd pzero ser_point parse_point hash160).
Local Notation I_priv := (I_priv point hmac512 point_of_scalar ser_point).
Local Notation I_pub := (I_pub point hmac512 ser_point).
Local Notation CKDpriv := (CKDpriv point hmac512 point_of_scalar ser_point).
Local Notation CKDpub := (CKDpub point hmac512 point_of_scalar padd pzero ser_point).
Local Notation child_priv_node := (child_priv_node point hmac512 point_of_scalar ser_point hash160).
Local Notation child_pub_node := (child_pub_node point hmac512 point_of_scalar padd pzero ser_point hash160).
Local Notation master_node := (master_node hmac512).
Local Notation fingerprint := (fingerprint point ser_point hash160).

(* a specification node as a Go ExtendedKey *)
Definition embed_priv (ver : list N) (nd : priv_node) : xkey :=
  mk_xkey ver (ser256 (s_k nd)) (s_c nd) (s_fp nd) (Z.to_N (s_depth nd)) (Z.to_N (s_index nd)) true.
Definition embed_pub (ver : list N) (nd : pub_node point) : xkey :=
  mk_xkey ver (ser_point (p_K nd)) (p_c nd) (p_fp nd) (Z.to_N (p_depth nd)) (Z.to_N (p_index nd)) false.
Definition embed_res {A} (f : A -> xkey) (o : option A) : res xkey :=
  match o with Some a => Ok (f a) | None => Err E_invalid_child end.

Lemma half64 k d : (length (hmac512 k d) / 2 = 32)%nat.
Proof. rewrite H_hmac_len. reflexivity. Qed.

(* ---------- Child on a private key with a 32-byte scalar, in closed form ---------- *)
Lemma child_priv_eq k i :
  xk_priv k = true -> xk_depth k <> 255 -> length (xk_key k) = 32%nat ->
  child k i =
    let P := point_of_scalar (scalar_of (xk_key k)) in
    let I := hmac512 (xk_chain k) ((if 2 ^ 31 <=? i then [0] ++ xk_key k else ser_point P) ++ be_bytes 4 i) in
    let il := set_bytes (firstn 32 I) in
    if out_of_range il then Err E_invalid_child else
    Ok (mk_xkey (xk_version k) (be_bytes 32 ((il + set_bytes (xk_key k)) mod secp_nN)) (skipn 32 I)
                (firstn 4 (hash160 (ser_point P))) (xk_depth k + 1) i true).
Proof.
  intros Hp Hd Hl. unfold HD.child. tie_child. rewrite const_maxUint8, const_HardenedKeyStart.
  unfold HD.pubkey_bytes. rewrite Hp. cbv zeta.
  destruct (N.eqb_spec (xk_depth k) 255) as [|_]; [contradiction|].
  cbn [negb andb].
  change (33 - 1)%nat with 32%nat. rewrite (copy_to_exact 32 _ Hl), (copy_to_exact 33 _ (H_ser_len _)).
  change (repeat 0 1) with [0].
  set (P := point_of_scalar (scalar_of (xk_key k))).
  set (I := hmac512 (xk_chain k) _).
  assert (HI : (length I / 2 = 32)%nat) by apply half64. rewrite HI.
  destruct (out_of_range (set_bytes (firstn 32 I))); [reflexivity|].
  cbn [rbind]. rewrite pad_if_short.
  - reflexivity.
  - pose proof secp_n_bound. pose proof secp_n_pos.
    assert ((set_bytes (firstn 32 I) + set_bytes (xk_key k)) mod secp_nN < secp_nN) by (apply N.mod_lt; lia). lia.
Qed.

Lemma hardened_N i : (0 <= i)%Z -> (2 ^ 31 <=? Z.to_N i) = hardened i.
Proof. intros Hi. unfold hardened. destruct (N.leb_spec (2 ^ 31) (Z.to_N i)), (Z.leb_spec (2 ^ 31) i); auto; lia. Qed.

Lemma out_of_range_spec b :
  out_of_range (set_bytes b) = (Bip32Spec.n <=? parse256 b)%Z || (parse256 b =? 0)%Z.
Proof.
  unfold out_of_range, parse256, set_bytes. rewrite <- tie_nN.
  destruct (N.leb_spec secp_nN (be_value b 0)), (Z.leb_spec (Z.of_N secp_nN) (Z.of_N (be_value b 0))),
           (N.eqb_spec (be_value b 0) 0), (Z.eqb_spec (Z.of_N (be_value b 0)) 0); auto; lia.
Qed.

Theorem child_priv_conforms ver nd i :
  (0 < s_k nd < Bip32Spec.n)%Z -> (0 <= s_depth nd < 255)%Z -> (0 <= i < 2 ^ 32)%Z ->
  let il := parse256 (IL (I_priv (s_k nd) (s_c nd) i)) in
  il <> 0%Z ->
  ((il < Bip32Spec.n)%Z -> ((il + s_k nd) mod Bip32Spec.n <> 0)%Z) ->
  child (embed_priv ver nd) (Z.to_N i) = embed_res (embed_priv ver) (child_priv_node nd i).
Proof.
  intros Hk Hd Hi il Hil0 Hki.
  rewrite child_priv_eq; cbn [embed_priv xk_depth xk_priv xk_key xk_chain xk_version xk_fp xk_childnum];
    [ | reflexivity | lia | apply ser256_length ].
  cbv zeta. rewrite scalar_of_ser256, set_bytes_ser256 by lia. rewrite hardened_N by lia.
  assert (EI : hmac512 (s_c nd) ((if hardened i then [0] ++ ser256 (s_k nd) else ser_point (point_of_scalar (s_k nd))) ++
                                 be_bytes 4 (Z.to_N i)) = I_priv (s_k nd) (s_c nd) i).
  { unfold Bip32Spec.I_priv, ser32. destruct (hardened i); [rewrite <- app_assoc|]; reflexivity. }
  rewrite EI. clear EI.
  unfold Bip32Spec.child_priv_node, Bip32Spec.CKDpriv.
  fold (IL (I_priv (s_k nd) (s_c nd) i)). rewrite out_of_range_spec. fold il.
  destruct (Z.leb_spec Bip32Spec.n il) as [Hge|Hlt]; cbn [orb].
  - reflexivity.
  - destruct (Z.eqb_spec il 0) as [|_]; [contradiction|].
    specialize (Hki Hlt). destruct (Z.eqb_spec ((il + s_k nd) mod Bip32Spec.n) 0) as [|_]; [contradiction|].
    cbn [orb embed_res embed_priv s_k s_c s_depth s_fp s_index]. f_equal. unfold set_bytes, embed_priv.
    cbn [s_k s_c s_depth s_fp s_index]. f_equal.
    + unfold ser256. f_equal. unfold il, parse256 in *. fold (IL (I_priv (s_k nd) (s_c nd) i)).
      set (v := be_value _ 0) in *. pose proof tie_nN.
      apply N2Z.inj. rewrite N2Z.inj_mod, N2Z.inj_add, !Z2N.id; try lia.
      rewrite H. reflexivity.
    + lia.
Qed.

(* ---------- Child on a public key holding a serialised, non-zero point ---------- *)
Lemma child_pub_eq k K i :
  xk_priv k = false -> xk_depth k <> 255 -> xk_key k = ser_point K -> pzero K = false -> i < 2 ^ 31 ->
  child k i =
    let I := hmac512 (xk_chain k) (ser_point K ++ be_bytes 4 i) in
    let il := set_bytes (firstn 32 I) in
    if out_of_range il then Err E_invalid_child else
    if pzero (point_of_scalar (Z.of_N il)) then Err E_invalid_child else
    Ok (mk_xkey (xk_version k) (ser_point (padd (point_of_scalar (Z.of_N il)) K)) (skipn 32 I)
                (firstn 4 (hash160 (ser_point K))) (xk_depth k + 1) i false).
Proof.
  intros Hp Hd Hk HK Hi. unfold HD.child. tie_child. rewrite const_maxUint8, const_HardenedKeyStart.
  unfold HD.pubkey_bytes. rewrite Hp, Hk. cbv zeta.
  destruct (N.eqb_spec (xk_depth k) 255) as [|_]; [contradiction|].
  destruct (N.leb_spec (2 ^ 31) i) as [|_]; [lia|].
  cbn [negb andb]. rewrite (copy_to_exact 33 _ (H_ser_len _)).
  set (I := hmac512 (xk_chain k) _).
  assert (HI : (length I / 2 = 32)%nat) by apply half64. rewrite HI.
  destruct (out_of_range (set_bytes (firstn 32 I))); [reflexivity|].
  destruct (pzero (point_of_scalar (Z.of_N (set_bytes (firstn 32 I))))); [reflexivity|].
  rewrite (H_parse_ser K HK). reflexivity.
Qed.

Definition embed_pub_res (ver : list N) (r : option (pub_node point)) : res xkey :=
  match r with Some nd => Ok (embed_pub ver nd) | None => Err E_invalid_child end.

Theorem child_pub_conforms ver nd i :
  pzero (p_K nd) = false -> (0 <= p_depth nd < 255)%Z -> (0 <= i < 2 ^ 31)%Z ->
  let il := parse256 (IL (I_pub (p_K nd) (p_c nd) i)) in
  il <> 0%Z ->
  child (embed_pub ver nd) (Z.to_N i) = embed_pub_res ver (child_pub_node nd i).
Proof.
  intros HK Hd Hi il Hil0.
  rewrite (child_pub_eq _ (p_K nd)); cbn [embed_pub xk_depth xk_priv xk_key xk_chain xk_version xk_fp xk_childnum];
    [ | reflexivity | lia | reflexivity | exact HK | lia ].
  cbv zeta.
  change (hmac512 (p_c nd) (ser_point (p_K nd) ++ be_bytes 4 (Z.to_N i))) with (I_pub (p_K nd) (p_c nd) i).
  unfold Bip32Spec.child_pub_node, Bip32Spec.CKDpub.
  assert (Hh : hardened i = false) by (unfold hardened; destruct (Z.leb_spec (2 ^ 31) i); [lia | reflexivity]).
  rewrite Hh. fold (IL (I_pub (p_K nd) (p_c nd) i)). rewrite out_of_range_spec. fold il.
  assert (Eil : Z.of_N (set_bytes (IL (I_pub (p_K nd) (p_c nd) i))) = il) by reflexivity.
  rewrite Eil.
  destruct (Z.leb_spec Bip32Spec.n il) as [Hge|Hlt]; cbn [orb].
  - reflexivity.
  - destruct (Z.eqb_spec il 0) as [|_]; [contradiction|].
    assert (Hpos : (0 <= il)%Z) by (unfold il, parse256; lia).
    rewrite H_mul_nonzero by lia.
    destruct (pzero (padd (point_of_scalar il) (p_K nd))) eqn:Einf; cbn [embed_pub_res].
    2:{ unfold embed_pub. cbn [p_K p_c p_depth p_fp p_index]. f_equal. f_equal. lia. }
    Show.
Abort.
End Conform.
